import Avl.Proofs
namespace ATree
variable {α : Type}

theorem fixup_spec (i k) (v : α) (h s) (l r : ATree α) (hl : Avl l) (hr : Avl r)
    (hb : (l.height : Int) - r.height ≤ 2 ∧ -2 ≤ (l.height : Int) - r.height) :
    Good (fixup h (node i k v h s l r)).1 k v l r ∧
    ((fixup h (node i k v h s l r)).2 = true ↔ (fixup h (node i k v h s l r)).1.height ≠ h) := by
  have g := rebal_spec i k v h s l r hl hr hb
  refine ⟨g, ?_⟩
  simp only [fixup, bne_iff_ne, ne_eq]
  rw [ht_eq_height g.1]

/-- `popMin` on a non-empty AVL tree -/
theorem popMin_spec (t : ATree α) (hA : Avl t) (hne : t ≠ nil) :
    ∃ m t' c, popMin t = some (m, t', c) ∧ Avl t' ∧ t.inorder = (m.2.1, m.2.2) :: t'.inorder ∧
      t.height = t'.height + (if c then 1 else 0) := by
  induction t with
  | nil => exact absurd rfl hne
  | node i k v h s l r ihl _ =>
    rw [avl_node] at hA
    obtain ⟨hl, hr, hh, hs, hs1, hs2⟩ := hA
    by_cases hl0 : l = nil
    · subst hl0
      refine ⟨(i, k, v), r, true, ?_, hr, by simp [inorder], ?_⟩
      · simp [popMin]
      · simp only [height_node, height_nil, if_true]; omega
    · obtain ⟨m, l', c, hp, hl', hin, hht⟩ := ihl hl hl0
      simp only [popMin, hp]
      cases c with
      | false =>
        simp only [Bool.false_eq_true, if_false, Nat.add_zero] at hht ⊢
        refine ⟨m, _, false, rfl, ?_, ?_, ?_⟩
        · rw [avl_node]; refine ⟨hl', hr, ?_, ?_, hs1, hs2⟩ <;> rw [← hht] <;> assumption
        · simp [hin]
        · simp [hht]
      | true =>
        simp only [if_true] at hht ⊢
        have fs := fixup_spec i k v h s l' r hl' hr (by omega)
        obtain ⟨⟨g1, g2, g3⟩, g4⟩ := fs
        refine ⟨m, _, _, rfl, g1, ?_, ?_⟩
        · simp [g2, hin]
        · generalize (fixup h (node i k v h s l' r)).2 = c at g4 ⊢
          generalize (fixup h (node i k v h s l' r)).1 = t' at g3 g4 ⊢
          simp only [height_node] at *
          cases c with
          | true => have := g4.1 rfl; simp only [if_true]; omega
          | false =>
            have : ¬ t'.height ≠ h := fun hn => by have := g4.2 hn; simp at this
            simp only [Bool.false_eq_true, if_false]; omega

/-- `popMax` on a non-empty AVL tree -/
theorem popMax_spec (t : ATree α) (hA : Avl t) (hne : t ≠ nil) :
    ∃ m t' c, popMax t = some (m, t', c) ∧ Avl t' ∧ t.inorder = t'.inorder ++ [(m.2.1, m.2.2)] ∧
      t.height = t'.height + (if c then 1 else 0) := by
  induction t with
  | nil => exact absurd rfl hne
  | node i k v h s l r _ ihr =>
    rw [avl_node] at hA
    obtain ⟨hl, hr, hh, hs, hs1, hs2⟩ := hA
    by_cases hr0 : r = nil
    · subst hr0
      refine ⟨(i, k, v), l, true, ?_, hl, by simp [inorder], ?_⟩
      · simp [popMax]
      · simp only [height_node, height_nil, if_true]; omega
    · obtain ⟨m, r', c, hp, hr', hin, hht⟩ := ihr hr hr0
      simp only [popMax, hp]
      cases c with
      | false =>
        simp only [Bool.false_eq_true, if_false, Nat.add_zero] at hht ⊢
        refine ⟨m, _, false, rfl, ?_, ?_, ?_⟩
        · rw [avl_node]; refine ⟨hl, hr', ?_, ?_, hs1, hs2⟩ <;> rw [← hht] <;> assumption
        · simp [hin]
        · simp [hht]
      | true =>
        simp only [if_true] at hht ⊢
        have fs := fixup_spec i k v h s l r' hl hr' (by omega)
        obtain ⟨⟨g1, g2, g3⟩, g4⟩ := fs
        refine ⟨m, _, _, rfl, g1, ?_, ?_⟩
        · simp [g2, hin]
        · generalize (fixup h (node i k v h s l r')).2 = c at g4 ⊢
          generalize (fixup h (node i k v h s l r')).1 = t' at g3 g4 ⊢
          simp only [height_node] at *
          cases c with
          | true => have := g4.1 rfl; simp only [if_true]; omega
          | false =>
            have : ¬ t'.height ≠ h := fun hn => by have := g4.2 hn; simp at this
            simp only [Bool.false_eq_true, if_false]; omega

/-- removing the item stored at the root of an AVL subtree -/
theorem removeRoot_spec (i k) (v : α) (h s) (l r : ATree α) (hA : Avl (node i k v h s l r)) :
    Avl (removeRoot (node i k v h s l r)) ∧
    (removeRoot (node i k v h s l r)).inorder = l.inorder ++ r.inorder ∧
    ((removeRoot (node i k v h s l r)).height = h ∨ (removeRoot (node i k v h s l r)).height + 1 = h) := by
  rw [avl_node] at hA
  obtain ⟨hl, hr, hh, hs, hs1, hs2⟩ := hA
  cases hl0 : l with
  | nil =>
    cases hr0 : r with
    | nil => subst hl0 hr0; simp [removeRoot, inorder] at *; omega
    | node ri rk rv rh rs rl rr =>
      subst hl0; rw [hr0] at hr hh hs
      simp only [removeRoot]
      refine ⟨hr, by simp [inorder], ?_⟩
      simp only [height_node, height_nil] at *; omega
  | node li lk lv lh ls ll lr =>
    cases hr0 : r with
    | nil =>
      subst hr0; rw [hl0] at hl hh hs
      simp only [removeRoot]
      refine ⟨hl, by simp [inorder], ?_⟩
      simp only [height_node, height_nil] at *; omega
    | node ri rk rv rh rs rl rr =>
      rw [← hl0, ← hr0]
      have hlne : l ≠ nil := by rw [hl0]; simp
      have hrne : r ≠ nil := by rw [hr0]; simp
      have e : removeRoot (node i k v h s l r) =
          (if l.ht < r.ht then
            match popMin r with
            | some ((mi, mk, mv), r', _) => rebal (upd (node mi mk mv h s l r'))
            | none => nil
          else
            match popMax l with
            | some ((mi, mk, mv), l', _) => rebal (upd (node mi mk mv h s l' r))
            | none => nil) := by
        rw [hl0, hr0]; rfl
      rw [e]
      by_cases hlt : l.ht < r.ht
      · simp only [hlt, if_true]
        obtain ⟨m, r', c, hp, hr', hin, hht⟩ := popMin_spec r hr hrne
        obtain ⟨mi, mk, mv⟩ := m
        simp only [hp]
        have g := rebal_spec mi mk mv h s l r' hl hr' (by split at hht <;> omega)
        obtain ⟨g1, g2, g3⟩ := g
        refine ⟨g1, ?_, ?_⟩
        · simp [g2, hin]
        · rw [ht_eq_height hl, ht_eq_height hr] at hlt
          split at hht <;> omega
      · simp only [hlt, if_false]
        obtain ⟨m, l', c, hp, hl', hin, hht⟩ := popMax_spec l hl hlne
        obtain ⟨mi, mk, mv⟩ := m
        simp only [hp]
        have g := rebal_spec mi mk mv h s l' r hl' hr (by split at hht <;> omega)
        obtain ⟨g1, g2, g3⟩ := g
        refine ⟨g1, ?_, ?_⟩
        · simp [g2, hin]
        · rw [ht_eq_height hl, ht_eq_height hr] at hlt
          split at hht <;> omega

theorem size_eq_length (t : ATree α) : t.size = t.inorder.length := by
  induction t with
  | nil => rfl
  | node i k v h s l r ihl ihr => simp [size, inorder, ihl, ihr]; omega

/-- `Map::remove(iterator)` for the item at in-order position `idx`: the tree stays AVL with correct
    stored fields, the in-order sequence loses exactly that entry, the height shrinks by at most one and
    a `false` flag means ancestors need no update. -/
theorem delIdx_spec (t : ATree α) (hA : Avl t) (idx : Nat) (hidx : idx < t.size) :
    Avl (delIdx idx t).1 ∧ (delIdx idx t).1.inorder = t.inorder.eraseIdx idx ∧
    ((delIdx idx t).1.height = t.height ∨ (delIdx idx t).1.height + 1 = t.height) ∧
    ((delIdx idx t).2 = false → (delIdx idx t).1.height = t.height) := by
  induction t generalizing idx with
  | nil => simp [size] at hidx
  | node i k v h s l r ihl ihr =>
    have hA' := hA
    rw [avl_node] at hA
    obtain ⟨hl, hr, hh, hs, hs1, hs2⟩ := hA
    simp only [delIdx]
    by_cases h1 : idx < l.size
    · simp only [h1, if_true]
      have il := ihl hl idx h1
      generalize delIdx idx l = p at il ⊢
      obtain ⟨l', c⟩ := p
      simp only at il ⊢
      obtain ⟨a1, a2, a3, a4⟩ := il
      have hlen : idx < l.inorder.length := by rw [← size_eq_length]; exact h1
      cases c with
      | false =>
        have e := a4 rfl
        simp only [Bool.false_eq_true, if_false]
        refine ⟨?_, ?_, ?_, ?_⟩
        · rw [avl_node]; refine ⟨a1, hr, ?_, ?_, hs1, hs2⟩ <;> rw [e] <;> assumption
        · simp [a2, List.eraseIdx_append_of_lt_length hlen]
        · left; simp [e]
        · intro _; simp [e]
      | true =>
        simp only [if_true]
        obtain ⟨⟨g1, g2, g3⟩, g4⟩ := fixup_spec i k v h s l' r a1 hr (by omega)
        refine ⟨g1, ?_, ?_, ?_⟩
        · simp [g2, a2, List.eraseIdx_append_of_lt_length hlen]
        · simp only [height_node] at *; omega
        · intro hc
          have : ¬ (fixup h (node i k v h s l' r)).1.height ≠ h := fun hn => by
            have := g4.2 hn; rw [hc] at this; simp at this
          simp only [height_node] at *; omega
    · simp only [h1, if_false]
      by_cases h2 : idx = l.size
      · simp only [h2, if_true]
        obtain ⟨r1, r2, r3⟩ := removeRoot_spec i k v h s l r hA'
        refine ⟨r1, ?_, ?_, by simp⟩
        · rw [r2, size_eq_length]; simp [List.eraseIdx_append_of_length_le]
        · simp only [height_node]; omega
      · simp only [h2, if_false]
        have hidx' : idx - l.size - 1 < r.size := by simp only [size] at hidx; omega
        have ir := ihr hr (idx - l.size - 1) hidx'
        generalize delIdx (idx - l.size - 1) r = p at ir ⊢
        obtain ⟨r', c⟩ := p
        simp only at ir ⊢
        obtain ⟨a1, a2, a3, a4⟩ := ir
        have hge : l.inorder.length ≤ idx := by rw [← size_eq_length]; omega
        have herase : (l.inorder ++ (k, v) :: r.inorder).eraseIdx idx = l.inorder ++ (k, v) :: r.inorder.eraseIdx (idx - l.size - 1) := by
          rw [List.eraseIdx_append_of_length_le hge]
          have : idx - l.inorder.length = (idx - l.size - 1) + 1 := by rw [← size_eq_length]; omega
          rw [this]; rfl
        cases c with
        | false =>
          have e := a4 rfl
          simp only [Bool.false_eq_true, if_false]
          refine ⟨?_, ?_, ?_, ?_⟩
          · rw [avl_node]; refine ⟨hl, a1, ?_, ?_, hs1, hs2⟩ <;> rw [e] <;> assumption
          · simp only [inorder_node, a2, herase]
          · left; simp [e]
          · intro _; simp [e]
        | true =>
          simp only [if_true]
          obtain ⟨⟨g1, g2, g3⟩, g4⟩ := fixup_spec i k v h s l r' hl a1 (by omega)
          refine ⟨g1, ?_, ?_, ?_⟩
          · simp only [inorder_node, g2, a2, herase]
          · simp only [height_node] at *; omega
          · intro hc
            have : ¬ (fixup h (node i k v h s l r')).1.height ≠ h := fun hn => by
              have := g4.2 hn; rw [hc] at this; simp at this
            simp only [height_node] at *; omega
end ATree
