/-! Feasibility probe: Signal (manual-reset event over mutex+condvar) as an interleaving
    transition system with an arbitrary number of threads; inductive invariant. -/
namespace SigProbe

inductive Pc
  | idle
  | setLock | setWrite | setUnlock | setBcast
  | resetLock | resetWrite | resetUnlock
  | waitLock | waitCheck | waitBlocked | waitWoken | waitUnlock
deriving DecidableEq, Repr

structure St where
  owner : Option Nat
  sig   : Bool
  pc    : Nat → Pc

def St.setPc (s : St) (t : Nat) (p : Pc) : St := { s with pc := fun u => if u = t then p else s.pc u }

/-- actions a scheduler may pick for thread `t` -/
inductive Act | call (p : Pc) | run | spurious

/-- one atomic step of thread `t`; `none` = not enabled -/
def step (s : St) (t : Nat) : Act → Option St
  | .call p => match s.pc t, p with
      | .idle, .setLock => some (s.setPc t .setLock)
      | .idle, .resetLock => some (s.setPc t .resetLock)
      | .idle, .waitLock => some (s.setPc t .waitLock)
      | _, _ => none
  | .spurious => if s.pc t = .waitBlocked then some (s.setPc t .waitWoken) else none
  | .run => match s.pc t with
      | .setLock => if s.owner = none then some ({ s with owner := some t }.setPc t .setWrite) else none
      | .setWrite => some ({ s with sig := true }.setPc t .setUnlock)
      | .setUnlock => some ({ s with owner := none }.setPc t .setBcast)
      | .setBcast => some { s with pc := fun u => if u = t then .idle else if s.pc u = .waitBlocked then .waitWoken else s.pc u }
      | .resetLock => if s.owner = none then some ({ s with owner := some t }.setPc t .resetWrite) else none
      | .resetWrite => some ({ s with sig := false }.setPc t .resetUnlock)
      | .resetUnlock => some ({ s with owner := none }.setPc t .idle)
      | .waitLock => if s.owner = none then some ({ s with owner := some t }.setPc t .waitCheck) else none
      | .waitCheck => if s.sig then some (s.setPc t .waitUnlock)
                      else some ({ s with owner := none }.setPc t .waitBlocked)   -- cond_wait: atomically unlock + block
      | .waitWoken => if s.owner = none then some ({ s with owner := some t }.setPc t .waitCheck) else none
      | .waitUnlock => some ({ s with owner := none }.setPc t .idle)            -- returns true
      | _ => none

def init : St := { owner := none, sig := false, pc := fun _ => .idle }

inductive Reach : St → Prop
  | init : Reach init
  | step {s s' t a} : Reach s → step s t a = some s' → Reach s'

/-- while the signal is set, a blocked waiter always has a broadcast pending -/
def Inv (s : St) : Prop :=
  ∀ t, s.sig = true → s.pc t = .waitBlocked → ∃ u, s.pc u = .setUnlock ∨ s.pc u = .setBcast

/-- only the mutex owner is inside a critical section -/
def Own (s : St) : Prop :=
  ∀ t, (s.pc t = .setWrite ∨ s.pc t = .setUnlock ∨ s.pc t = .resetWrite ∨ s.pc t = .resetUnlock ∨
        s.pc t = .waitCheck ∨ s.pc t = .waitUnlock) → s.owner = some t

theorem inv_step {s s' t a} (h : Inv s) (hs : step s t a = some s') : Inv s' := by
  intro x hsig hx
  cases a with
  | call p =>
    simp only [step] at hs
    split at hs <;> simp at hs <;> subst hs <;> simp [St.setPc] at hsig hx ⊢
    all_goals
      by_cases hxt : x = t
      · simp_all
      · simp [hxt] at hx
        obtain ⟨u, hu⟩ := h x hsig hx
        refine ⟨u, ?_⟩
        by_cases hut : u = t <;> simp_all
  | spurious =>
    simp only [step] at hs
    split at hs <;> simp at hs
    subst hs
    simp [St.setPc] at hsig hx ⊢
    by_cases hxt : x = t
    · simp_all
    · simp [hxt] at hx
      obtain ⟨u, hu⟩ := h x hsig hx
      refine ⟨u, ?_⟩
      by_cases hut : u = t <;> simp_all
  | run =>
    simp only [step] at hs
    -- case split on the program counter of the scheduled thread
    cases hpc : s.pc t <;> simp only [hpc] at hs <;> (try (split at hs)) <;> simp at hs <;> subst hs <;>
      simp [St.setPc] at hsig hx ⊢
    all_goals
      first
      | -- the scheduled thread is itself the witness (it just wrote the flag / is about to broadcast)
        (refine ⟨t, ?_⟩; simp; done)
      | -- x was woken by the broadcast, or x = t changed pc: hypothesis hx is contradictory
        (by_cases hxt : x = t
         · subst hxt; simp_all
         · simp [hxt] at hx
           first
           | (split at hx <;> simp_all)
           | (obtain ⟨u, hu⟩ := h x (by simp_all) hx
              have hut : u ≠ t := by intro e; rw [e] at hu; simp [hpc] at hu
              refine ⟨u, ?_⟩; simp [hut]; exact hu))

end SigProbe

namespace SigProbe
theorem inv_init : Inv init := by intro t h; simp [init] at h
theorem inv_reach {s} (h : Reach s) : Inv s := by
  induction h with
  | init => exact inv_init
  | step _ hs ih => exact inv_step ih hs
end SigProbe
