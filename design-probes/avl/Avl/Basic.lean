/-! Feasibility probe: functional model of nstd Map's AVL insert with stored height/slope
    fields and the early-exit flag of the upward rebalancing loop. -/

inductive ATree (α : Type) where
  | nil : ATree α
  | node (id : Nat) (k : Int) (v : α) (h : Nat) (s : Int) (l r : ATree α) : ATree α
deriving Repr

namespace ATree
variable {α : Type}

/-- stored height field (`item ? item->height : 0`) -/
def ht : ATree α → Nat
  | nil => 0
  | node _ _ _ h _ _ _ => h

def slope : ATree α → Int
  | nil => 0
  | node _ _ _ _ s _ _ => s

/-- real height -/
def height : ATree α → Nat
  | nil => 0
  | node _ _ _ _ _ l r => max (height l) (height r) + 1

def inorder : ATree α → List (Int × α)
  | nil => []
  | node _ k v _ _ l r => inorder l ++ (k, v) :: inorder r

/-- `Item::updateHeightAndSlope` -/
def upd : ATree α → ATree α
  | nil => nil
  | node i k v _ _ l r =>
    node i k v (max l.ht r.ht + 1) ((l.ht : Int) - (r.ht : Int)) l r

/-- `rotr(cell)` -/
def rotr : ATree α → ATree α
  | node i k v h s (node li lk lv lh ls ll lr) r =>
    let oldTop := upd (node i k v h s lr r)
    upd (node li lk lv lh ls ll oldTop)
  | t => t

/-- `rotl(cell)` -/
def rotl : ATree α → ATree α
  | node i k v h s l (node ri rk rv rh rs rl rr) =>
    let oldTop := upd (node i k v h s l rl)
    upd (node ri rk rv rh rs oldTop rr)
  | t => t

/-- `shiftr(cell)` -/
def shiftr : ATree α → ATree α
  | node i k v h s l r =>
    if l.slope = -1 then rotr (node i k v h s (rotl l) r) else rotr (node i k v h s l r)
  | t => t

/-- `shiftl(cell)` -/
def shiftl : ATree α → ATree α
  | node i k v h s l r =>
    if r.slope = 1 then rotl (node i k v h s l (rotr r)) else rotl (node i k v h s l r)
  | t => t

/-- `rebal(item)` -/
def rebal (t : ATree α) : ATree α :=
  if t.slope > 1 then shiftr t
  else if t.slope < -1 then shiftl t
  else t

/-- one iteration of the upward loop in the private `insert`:
    `oldHeight = parent->height; parent->updateHeightAndSlope(); parent = rebal(parent);
     if(oldHeight == parent->height) break;` — returns the new subtree and whether the loop continues. -/
def fixup (oldH : Nat) (t : ATree α) : ATree α × Bool :=
  let t' := rebal (upd t)
  (t', t'.ht != oldH)

/-- private `insert(cell, parent, key, value)` of `Map` (plain descent). -/
def ins (newId : Nat) (k : Int) (v : α) : ATree α → ATree α × Bool
  | nil => (node newId k v 1 0 nil nil, true)
  | node i k' v' h s l r =>
    if k > k' then
      let (r', c) := ins newId k v r
      if c then fixup h (node i k' v' h s l r') else (node i k' v' h s l r', false)
    else if k < k' then
      let (l', c) := ins newId k v l
      if c then fixup h (node i k' v' h s l' r) else (node i k' v' h s l' r, false)
    else (node i k' v h s l r, false)

/-- stored fields are correct and the tree is AVL balanced -/
def Avl : ATree α → Prop
  | nil => True
  | node _ _ _ h s l r =>
    Avl l ∧ Avl r ∧ h = max (height l) (height r) + 1 ∧ s = (height l : Int) - (height r : Int)
      ∧ -1 ≤ s ∧ s ≤ 1

theorem ht_eq_height {t : ATree α} (h : Avl t) : t.ht = t.height := by
  cases t with
  | nil => rfl
  | node i k v h s l r => simp only [Avl] at h; simp [ht, height, h.2.2.1]

end ATree

namespace ATree
variable {α : Type}

def size : ATree α → Nat
  | nil => 0
  | node _ _ _ _ _ l r => size l + 1 + size r

/-- unlink the in-order first node of a non-empty subtree (`next` of the removed item) and
    rebalance upwards with the early exit of the `rebalParent` loop.  Returns the unlinked node's
    (id,key,value), the remaining subtree and the "parent must update" flag. -/
def popMin : ATree α → Option ((Nat × Int × α) × ATree α × Bool)
  | nil => none
  | node i k v h s l r =>
    match popMin l with
    | none => some ((i, k, v), r, true)
    | some (m, l', c) =>
      if c then
        let p := fixup h (node i k v h s l' r)
        some (m, p.1, p.2)
      else some (m, node i k v h s l' r, false)

def popMax : ATree α → Option ((Nat × Int × α) × ATree α × Bool)
  | nil => none
  | node i k v h s l r =>
    match popMax r with
    | none => some ((i, k, v), l, true)
    | some (m, r', c) =>
      if c then
        let p := fixup h (node i k v h s l r')
        some (m, p.1, p.2)
      else some (m, node i k v h s l r', false)

/-- removal of the root item of a subtree (`Map::remove(it)` at `*cell`); the result's flag is always
    `true`: the code unconditionally re-examines `origParent`. -/
def removeRoot : ATree α → ATree α
  | nil => nil
  | node _ _ _ _ _ nil nil => nil
  | node _ _ _ _ _ nil r => r
  | node _ _ _ _ _ l nil => l
  | node _ _ _ h s l r =>
    if l.ht < r.ht then
      match popMin r with
      | some ((mi, mk, mv), r', _) => rebal (upd (node mi mk mv h s l r'))
      | none => nil
    else
      match popMax l with
      | some ((mi, mk, mv), l', _) => rebal (upd (node mi mk mv h s l' r))
      | none => nil

/-- remove the item at in-order position `idx` -/
def delIdx (idx : Nat) : ATree α → ATree α × Bool
  | nil => (nil, false)
  | node i k v h s l r =>
    if idx < l.size then
      let (l', c) := delIdx idx l
      if c then fixup h (node i k v h s l' r) else (node i k v h s l' r, false)
    else if idx = l.size then (removeRoot (node i k v h s l r), true)
    else
      let (r', c) := delIdx (idx - l.size - 1) r
      if c then fixup h (node i k v h s l r') else (node i k v h s l r', false)

end ATree
