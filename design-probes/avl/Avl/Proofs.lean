import Avl.Basic
namespace ATree
macro "avl_close" : tactic => `(tactic| (and_intros <;> first | assumption | trivial | omega))
variable {α : Type}

@[simp] theorem ht_nil : (nil : ATree α).ht = 0 := rfl
@[simp] theorem height_nil : (nil : ATree α).height = 0 := rfl
@[simp] theorem slope_nil : (nil : ATree α).slope = 0 := rfl
@[simp] theorem ht_node (i k) (v : α) (h s l r) : (node i k v h s l r).ht = h := rfl
@[simp] theorem slope_node (i k) (v : α) (h s l r) : (node i k v h s l r).slope = s := rfl
@[simp] theorem height_node (i k) (v : α) (h s l r) : (node i k v h s l r).height = max l.height r.height + 1 := rfl
@[simp] theorem inorder_node (i k) (v : α) (h s l r) : (node i k v h s l r).inorder = l.inorder ++ (k, v) :: r.inorder := rfl
@[simp] theorem avl_nil : Avl (nil : ATree α) := trivial
theorem avl_node (i k) (v : α) (h s l r) : Avl (node i k v h s l r) ↔
   (Avl l ∧ Avl r ∧ h = max (height l) (height r) + 1 ∧ s = (height l : Int) - (height r : Int) ∧ -1 ≤ s ∧ s ≤ 1) := Iff.rfl

theorem upd_node (i k) (v : α) (h s) (l r : ATree α) (hl : Avl l) (hr : Avl r) :
    upd (node i k v h s l r) = node i k v (max l.height r.height + 1) ((l.height : Int) - r.height) l r := by
  simp [upd, ht_eq_height hl, ht_eq_height hr]

/-- what a rebalancing step guarantees -/
def Good (t' : ATree α) (k : Int) (v : α) (l r : ATree α) : Prop :=
  Avl t' ∧ t'.inorder = l.inorder ++ (k, v) :: r.inorder ∧
    (t'.height = max l.height r.height + 1 ∨
      (t'.height = max l.height r.height ∧ ((l.height : Int) - r.height = 2 ∨ (l.height : Int) - r.height = -2)))

theorem shiftr_spec (i k) (v : α) (h s) (l r : ATree α) (hl : Avl l) (hr : Avl r)
    (e : (l.height : Int) - r.height = 2) : Good (shiftr (node i k v h s l r)) k v l r := by
  unfold Good
  cases l with
  | nil => simp at e <;> omega
  | node li lk lv lh ls ll lr =>
    rw [avl_node] at hl
    obtain ⟨hll, hlr, hlh, hls, hls1, hls2⟩ := hl
    simp only [shiftr, slope_node]
    by_cases hs : ls = -1
    · simp only [hs, if_true]
      cases lr with
      | nil => simp at hls; omega
      | node ri rk rv rh rs rl rr =>
        rw [avl_node] at hlr
        obtain ⟨hrl, hrr, hrh, hrs, hrs1, hrs2⟩ := hlr
        simp only [rotl, rotr, upd, ht_node, ht_eq_height hll, ht_eq_height hrl, ht_eq_height hrr, ht_eq_height hr]
        simp only [height_node] at *
        refine ⟨?_, by simp, ?_⟩
        · simp only [avl_node, height_node]
          avl_close
        · omega
    · simp only [hs, if_false]
      simp only [rotr, upd, ht_node, ht_eq_height hll, ht_eq_height hlr, ht_eq_height hr]
      simp only [height_node] at *
      refine ⟨?_, by simp, ?_⟩
      · simp only [avl_node, height_node]
        avl_close
      · omega

theorem shiftl_spec (i k) (v : α) (h s) (l r : ATree α) (hl : Avl l) (hr : Avl r)
    (e : (l.height : Int) - r.height = -2) : Good (shiftl (node i k v h s l r)) k v l r := by
  unfold Good
  cases r with
  | nil => simp at e <;> omega
  | node ri rk rv rh rs rl rr =>
    rw [avl_node] at hr
    obtain ⟨hrl, hrr, hrh, hrs, hrs1, hrs2⟩ := hr
    simp only [shiftl, slope_node]
    by_cases hs : rs = 1
    · simp only [hs, if_true]
      cases rl with
      | nil => simp at hrs; omega
      | node ci ck cv ch cs cl cr =>
        rw [avl_node] at hrl
        obtain ⟨hcl, hcr, hch, hcs, hcs1, hcs2⟩ := hrl
        simp only [rotl, rotr, upd, ht_node, ht_eq_height hl, ht_eq_height hcl, ht_eq_height hcr, ht_eq_height hrr]
        simp only [height_node] at *
        refine ⟨?_, by simp, ?_⟩
        · simp only [avl_node, height_node]
          avl_close
        · omega
    · simp only [hs, if_false]
      simp only [rotl, upd, ht_node, ht_eq_height hl, ht_eq_height hrl, ht_eq_height hrr]
      simp only [height_node] at *
      refine ⟨?_, by simp, ?_⟩
      · simp only [avl_node, height_node]
        avl_close
      · omega

/-- the general rebalancing lemma, used by both insert and remove -/
theorem rebal_spec (i k) (v : α) (h s) (l r : ATree α) (hl : Avl l) (hr : Avl r)
    (hb : (l.height : Int) - r.height ≤ 2 ∧ -2 ≤ (l.height : Int) - r.height) :
    Good (rebal (upd (node i k v h s l r))) k v l r := by
  rw [upd_node _ _ _ _ _ _ _ hl hr]
  by_cases h1 : (l.height : Int) - r.height > 1
  · have e : (l.height : Int) - r.height = 2 := by omega
    simp only [rebal, slope_node, h1, if_true]
    exact shiftr_spec _ _ _ _ _ _ _ hl hr e
  · by_cases h2 : (l.height : Int) - r.height < -1
    · have e : (l.height : Int) - r.height = -2 := by omega
      simp only [rebal, slope_node, h1, h2, if_true, if_false]
      exact shiftl_spec _ _ _ _ _ _ _ hl hr e
    · simp only [rebal, slope_node, h1, h2, if_false]
      refine ⟨?_, by simp, ?_⟩
      · rw [avl_node]; avl_close
      · left; simp

/-- `ins` keeps the tree AVL with correct stored fields; the continue flag tells exactly whether the
    subtree grew; in-order sequence is the sorted insertion. -/
theorem ins_spec (newId : Nat) (k : Int) (v : α) (t : ATree α) (hA : Avl t) :
    Avl (ins newId k v t).1 ∧ (ins newId k v t).1.height = t.height + (if (ins newId k v t).2 then 1 else 0) := by
  induction t with
  | nil => simp [ins, avl_node]
  | node i k' v' h s l r ihl ihr =>
    rw [avl_node] at hA
    obtain ⟨hl, hr, hh, hs, hs1, hs2⟩ := hA
    have il := ihl hl
    have ir := ihr hr
    simp only [ins]
    split
    · -- go right
      generalize hins : ins newId k v r = p at ir ⊢
      obtain ⟨r', c⟩ := p
      simp only at ir ⊢
      cases c with
      | true =>
        simp only [if_true, fixup] at ir ⊢
        have g := rebal_spec i k' v' h s l r' hl ir.1 (by omega)
        obtain ⟨g1, _, g3⟩ := g
        refine ⟨g1, ?_⟩
        rw [ht_eq_height g1]
        simp only [height_node, bne_iff_ne, ne_eq, ite_not]
        split <;> omega
      | false =>
        simp only [Bool.false_eq_true, if_false, Nat.add_zero] at ir ⊢
        refine ⟨?_, ?_⟩
        · rw [avl_node]; refine ⟨hl, ir.1, ?_, ?_, hs1, hs2⟩ <;> simp only [ir.2] <;> assumption
        · simp [ir.2]
    · split
      · generalize hins : ins newId k v l = p at il ⊢
        obtain ⟨l', c⟩ := p
        simp only at il ⊢
        cases c with
        | true =>
          simp only [if_true, fixup] at il ⊢
          have g := rebal_spec i k' v' h s l' r il.1 hr (by omega)
          obtain ⟨g1, _, g3⟩ := g
          refine ⟨g1, ?_⟩
          rw [ht_eq_height g1]
          simp only [height_node, bne_iff_ne, ne_eq, ite_not]
          split <;> omega
        | false =>
          simp only [Bool.false_eq_true, if_false, Nat.add_zero] at il ⊢
          refine ⟨?_, ?_⟩
          · rw [avl_node]; refine ⟨il.1, hr, ?_, ?_, hs1, hs2⟩ <;> simp only [il.2] <;> assumption
          · simp [il.2]
      · simp only [Bool.false_eq_true, if_false, Nat.add_zero, height_node, and_true]
        rw [avl_node]; exact ⟨hl, hr, hh, hs, hs1, hs2⟩
end ATree
