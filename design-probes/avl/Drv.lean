import Avl.Basic
open ATree
def render : ATree Unit → String
  | .nil => "."
  | .node _ k _ h s l r => s!"({render l} {k}:{h}:{s} {render r})"
def stepLine (st : ATree Unit × Nat) (line : String) : (ATree Unit × Nat) × String :=
  match line.trimAscii.toString.splitOn " " with
  | ["ins", n] => match n.toInt? with
      | some k => let t' := (ins st.2 k () st.1).1; ((t', st.2 + 1), "ok " ++ toString t'.ht)
      | none => (st, "bad-op")
  | _ => (st, "bad-op")
partial def loop (h : IO.FS.Stream) (st : ATree Unit × Nat) : IO Unit := do
  let line ← h.getLine
  if line.isEmpty then return ()
  let (st', out) := stepLine st line
  IO.println out
  loop h st'
def main : IO Unit := do loop (← IO.getStdin) (.nil, 0)
