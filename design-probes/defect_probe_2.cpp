#include <nstd/MultiMap.hpp>
#include <nstd/List.hpp>
#include <nstd/Array.hpp>
#include <nstd/String.hpp>
#include <nstd/Variant.hpp>
#include <nstd/Callback.hpp>
#include <nstd/Process.hpp>
#include <nstd/Document/Xml.hpp>
#include <nstd/Document/Json.hpp>
#include <nstd/Socket/Server.hpp>
#include <nstd/Thread.hpp>
#include <cstdio>
#include <cstring>
#include <cstdlib>

struct Em : public Callback::Emitter { void sig() {} void fire(){ emit(&Em::sig);} };
struct Li : public Callback::Listener { Em* e; int calls; int mode; Li():calls(0),mode(0){}
  void slotA(); void slotB() { ++calls; printf("slotB called\n"); } };
void Li::slotA() {
  if(mode==1) { Callback::disconnect(e,&Em::sig,this,&Li::slotB); Callback::connect(e,&Em::sig,this,&Li::slotB); Callback::disconnect(e,&Em::sig,this,&Li::slotB); mode=0; }
}

struct TCb : public Server::Timer::ICallback { const char* name; Server* s; Server::Timer* self; Server::Timer** toRemove; int n;
  void onActivated() { printf("timer %s activated\n", name); if(toRemove && *toRemove){ s->remove(**toRemove); *toRemove=0; printf("removed T1\n"); } if(++n>=2 && !strcmp(name,"T5")) s->interrupt(); } };

int main(int argc, char** argv)
{
  int which = atoi(argv[1]);
  switch(which) {
  case 1: {
    Array<String> a; for(int i=0;i<7;++i) a.append(String("x")+String::fromInt(i));
    printf("size=%zu cap=%zu\n",(size_t)a.size(),(size_t)a.capacity());
    a.append(a[0]); printf("appended=%s\n", (const char*)a[7]);
    break; }
  case 2: {
    List<int> l; l.append(1); l.append(2); l.append(3); l.prepend(l);
    for(List<int>::Iterator i=l.begin(); i!=l.end(); ++i) printf("%d ", *i); printf("\n");
    break; }
  case 3: {
    Em e; Li l; l.e=&e; l.mode=1;
    Callback::connect(&e,&Em::sig,&l,&Li::slotA); Callback::connect(&e,&Em::sig,&l,&Li::slotB);
    e.fire(); printf("after first emission calls=%d (slotB disconnected inside)\n", l.calls);
    l.calls=0; e.fire(); printf("second emission: slotB calls=%d (expected 0)\n", l.calls);
    break; }
  case 4: {
    Xml::Element el; el.type="a"; el.attributes.append("k","v");
    Xml::Variant v1(el); Xml::Variant v2(v1);
    Xml::Element& m = v2.toElement(); m.type = "changed";
    printf("v1 type='%s' attrs=%zu ; v2 type='%s'\n", (const char*)v1.toElement().type, (size_t)((const Xml::Variant&)v1).toElement().attributes.size(), (const char*)((const Xml::Variant&)v2).toElement().type);
    break; }
  case 5: {
    Xml::Variant a(String("x")); Xml::Variant b; b = a; printf("assigned\n");
    break; }
  case 6: {
    Server s; TCb cb[5]; Server::Timer* t[5]; const char* names[5]={"T1","T2","T3","T4","T5"};
    // need equal due times: create quickly
    for(int i=0;i<5;++i){ cb[i].name=names[i]; cb[i].s=&s; cb[i].toRemove=0; cb[i].n=0; }
    for(;;){ bool ok=true; s.clear(); for(int i=0;i<5;++i) t[i]=s.time(50, cb[i]); break; }
    // remove T1 before run
    s.remove(*t[0]); printf("removed T1 before run\n");
    s.run();
    break; }
  case 7: {
    Process p; 
    uint32 id = p.start("echo \"a\\b\""); printf("started %u\n", id); uint32 ec; p.join(ec);
    break; }
  case 8: {
    Array<Variant> arr; arr.append(Variant(1)); Variant a(arr); Variant b(a); b.toArray(); printf("array copy equal=%d\n", (int)(a==b));
    break; }
  case 9: {
    String s("abc"); s = s + "x"; const char* r = s.findLast(""); printf("findLast('') -> %p\n", (void*)r);
    break; }
  case 10: {
    Xml::Element el; el.type="a"; el.attributes.append("k","l1\nl2"); String t = Xml::toString(el); Xml::Element out; bool ok = Xml::parse(t, out); printf("xml newline attr roundtrip ok=%d\n", ok);
    break; }
  case 11: {
    Variant v(String("a\\b\"c\td")); String t = Json::toString(v); Variant w; bool ok = Json::parse(t,w); printf("ok=%d equal=%d\n", ok, (int)(v==w));
    break; }
  }
  return 0;
}
