#include <nstd/Document/Json.hpp>
#include <nstd/Document/Xml.hpp>
#include <nstd/Unicode.hpp>
#include <nstd/File.hpp>
#include <nstd/Error.hpp>
#include <stdio.h>
#include <stdlib.h>
#include <string.h>
#include <signal.h>
#include <unistd.h>
static unsigned long long rs=0x9E3779B97F4A7C15ULL; static unsigned rnd(){ rs^=rs<<13; rs^=rs>>7; rs^=rs<<17; return (unsigned)(rs>>11);} 
static char cur[64]; static int curlen; static const char* phase="";
static void onalarm(int){ printf("HANG in %s on input (len %d): ", phase, curlen); for(int i=0;i<curlen;++i) printf("%02x ", (unsigned char)cur[i]); printf("\n"); _exit(3);} 
int main(int argc,char**argv){
  int mode=atoi(argv[1]); rs^=(unsigned long long)atoi(argv[2])*0x2545F4914F6CDD1DULL;
  signal(SIGALRM,onalarm);
  const char* jalpha="\"\\/u{}[],:1-e.ntf a\n\r*\x80\xc3\t0Dd8c";
  const char* xalpha="<>/=\"' a!-?&;#1x\n\r\t\xc3\x80";
  const char* palpha="ab./\\";
  for(long it=0; it<400000; ++it){
    const char* alpha = mode==0? jalpha : mode==1? xalpha : mode==2? jalpha : palpha;
    int al=strlen(alpha); int n=rnd()%10; curlen=n; for(int i=0;i<n;++i) cur[i]=alpha[rnd()%al];
    char* heap=(char*)malloc(n+1); memcpy(heap,cur,n); heap[n]=0;
    if(mode==0 && n>0 && heap[n-1]==0x5c){ free(heap); continue; }
    alarm(5);
    if(mode==0){ phase="Json::parse"; Variant v; Json::Parser p; bool ok=p.parse(heap,v); if(!ok){ int line=p.getErrorLine(), col=p.getErrorColumn(); int lines=1; for(int i=0;i<n;++i){ if(heap[i]=='\n'||(heap[i]=='\r'&&heap[i+1]!='\n')) ++lines;} if(line<1||line>lines||col<1||col>n+1){ printf("json bad errpos line=%d col=%d lines=%d n=%d :",line,col,lines,n); for(int i=0;i<n;++i) printf("%02x ",(unsigned char)heap[i]); printf("\n"); } } }
    else if(mode==1){ phase="Xml::parse"; Xml::Element e; Xml::Parser p; String s(heap,n); bool ok=p.parse(s,e); if(!ok){ int line=p.getErrorLine(), col=p.getErrorColumn(); int lines=1; for(int i=0;i<n;++i){ if(heap[i]=='\n'||(heap[i]=='\r'&&heap[i+1]!='\n')) ++lines;} if(line<1||line>lines||col<1||col>n+1){ printf("xml bad errpos line=%d col=%d lines=%d n=%d :",line,col,lines,n); for(int i=0;i<n;++i) printf("%02x ",(unsigned char)heap[i]); printf("\n"); } } }
    else if(mode==2){ phase="Json::stripComments"; String s(heap,n); String r=Json::stripComments(s); phase="Unicode"; Unicode::isValid(heap,n); Unicode::fromString(heap,n); if(n) Unicode::length(heap[0]); }
    else { phase="paths"; String s(heap,n); String a=File::simplifyPath(s); String b=File::simplifyPath(a); if(!(a==b)){ printf("simplify not idempotent: '%s' -> '%s' -> '%s'\n",heap,(const char*)a,(const char*)b);} File::getDirectoryName(s); File::getBaseName(s); File::getStem(s); File::getExtension(s); char h2[12]; int m=rnd()%6; for(int i=0;i<m;++i) h2[i]=palpha[rnd()%5]; h2[m]=0; String t(h2,m); File::getRelativePath(s,t); }
    alarm(0);
    free(heap);
  }
  printf("mode %d done\n",mode);
  return 0;
}
