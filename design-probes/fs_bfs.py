# Abstract model of ThreadPool::run() back-pressure loop + FastSignal (dequeued signal), queue abstracted as atomic bounded counter.
# Producer pcs: 0 push1, 1 reset.swap, 2 reset.sigreset, 3 push2, 4 wait.load, 5 wait.block, 9 done-one (decrement todo)
# Worker pcs: 0 pop, 1 set.tas, 2 set.sigset
from collections import deque
import sys
CAP=int(sys.argv[1]); NP=int(sys.argv[2]); JOBS=int(sys.argv[3]); NW=int(sys.argv[4])
# state: (q, st, sig, prods(tuple of (pc,todo)), workers(tuple of pc))
init=(0,0,0,tuple((0,JOBS) for _ in range(NP)),tuple(0 for _ in range(NW)))
def succ(s):
    q,st,sig,ps,ws=s
    out=[]
    for i,(pc,todo) in enumerate(ps):
        def upd(npc,ntodo=todo,q=q,st=st,sig=sig):
            nps=list(ps); nps[i]=(npc,ntodo); return (q,st,sig,tuple(nps),ws)
        if todo==0: continue
        if pc==0:
            if q<CAP: out.append(('P%d push ok'%i, upd(0,todo-1,q=q+1)))
            else: out.append(('P%d push full'%i, upd(1)))
        elif pc==1:
            if st==1: out.append(('P%d reset swap->1'%i, upd(2,st=0)))
            else: out.append(('P%d reset swap->0'%i, upd(3,st=0)))
        elif pc==2: out.append(('P%d _signal.reset'%i, upd(3,sig=0)))
        elif pc==3:
            if q<CAP: out.append(('P%d push2 ok'%i, upd(0,todo-1,q=q+1)))
            else: out.append(('P%d push2 full'%i, upd(4)))
        elif pc==4:
            if st==1: out.append(('P%d wait: state=1 return'%i, upd(0)))
            else: out.append(('P%d wait: state=0 -> block'%i, upd(5)))
        elif pc==5:
            if sig==1: out.append(('P%d woken'%i, upd(0)))
    for j,pc in enumerate(ws):
        def wupd(npc,q=q,st=st,sig=sig):
            nws=list(ws); nws[j]=npc; return (q,st,sig,ps,tuple(nws))
        if pc==0:
            if q>0: out.append(('W%d pop'%j, wupd(1,q=q-1)))
        elif pc==1:
            if st==0: out.append(('W%d set tas 0->1'%j, wupd(2,st=1)))
            else: out.append(('W%d set tas already1'%j, wupd(0,st=1)))
        elif pc==2: out.append(('W%d _signal.set'%j, wupd(0,sig=1)))
    return out
seen={init:None}; dq=deque([init]); bad=None
while dq:
    s=dq.popleft()
    sc=succ(s)
    if not sc:
        q,st,sig,ps,ws=s
        if any(todo>0 for pc,todo in ps):
            bad=s; break
    for lab,n in sc:
        if n not in seen:
            seen[n]=(s,lab); dq.append(n)
print('states',len(seen))
if bad:
    tr=[]; s=bad
    while seen[s]: p,lab=seen[s]; tr.append((lab,s)); s=p
    tr.reverse()
    print('DEADLOCK trace (%d steps):'%len(tr))
    for lab,s in tr: print('  %-28s q=%d state=%d sig=%d prods=%s workers=%s'%((lab,)+s))
else: print('no deadlock')
