// Common helpers for the line-protocol harnesses.  C headers only: a translation unit
// that includes nstd headers cannot include C++ standard library headers (Base.hpp
// re-declares the global allocation operators and placement new).
#pragma once
#include <stdio.h>
#include <stdlib.h>
#include <string.h>

#define HX_MAXTOK 64
struct HxLine
{
  char buf[1 << 16];
  char* tok[HX_MAXTOK];
  int ntok;
};

static inline bool hxRead(HxLine& l)
{
  for(;;)
  {
    if(!fgets(l.buf, sizeof(l.buf), stdin))
      return false;
    l.ntok = 0;
    char* p = l.buf;
    while(*p)
    {
      while(*p == ' ' || *p == '\n' || *p == '\r' || *p == '\t') *p++ = 0;
      if(!*p) break;
      if(l.ntok < HX_MAXTOK) l.tok[l.ntok++] = p;
      while(*p && *p != ' ' && *p != '\n' && *p != '\r' && *p != '\t') ++p;
    }
    if(l.ntok > 0)
      return true;
  }
}

static inline bool hxIs(const HxLine& l, const char* op, int nargs)
{
  return l.ntok == nargs + 1 && strcmp(l.tok[0], op) == 0;
}

static inline unsigned long hxNum(const HxLine& l, int i) { return strtoul(l.tok[i], 0, 10); }
static inline long hxInt(const HxLine& l, int i) { return strtol(l.tok[i], 0, 10); }

static inline int hxNib(char c)
{
  if(c >= '0' && c <= '9') return c - '0';
  if(c >= 'a' && c <= 'f') return c - 'a' + 10;
  if(c >= 'A' && c <= 'F') return c - 'A' + 10;
  return -1;
}

// decodes the hex token into a freshly malloc'ed, exactly sized buffer (size may be 0;
// one byte is still allocated so the pointer is valid).  "-" is the empty string.
static inline unsigned char* hxBytes(const char* tok, size_t& len)
{
  if(strcmp(tok, "-") == 0)
  {
    len = 0;
    return (unsigned char*)malloc(1);
  }
  size_t n = strlen(tok) / 2;
  unsigned char* r = (unsigned char*)malloc(n ? n : 1);
  for(size_t i = 0; i < n; ++i)
    r[i] = (unsigned char)(hxNib(tok[2 * i]) * 16 + hxNib(tok[2 * i + 1]));
  len = n;
  return r;
}

// same, but with a NUL terminator appended (for C-string APIs); len excludes it
static inline char* hxCStr(const char* tok, size_t& len)
{
  if(strcmp(tok, "-") == 0)
  {
    len = 0;
    char* r = (char*)malloc(1);
    r[0] = 0;
    return r;
  }
  size_t n = strlen(tok) / 2;
  char* r = (char*)malloc(n + 1);
  for(size_t i = 0; i < n; ++i)
    r[i] = (char)(hxNib(tok[2 * i]) * 16 + hxNib(tok[2 * i + 1]));
  r[n] = 0;
  len = n;
  return r;
}

static inline void hxPutHex(const void* data, size_t len)
{
  static const char* d = "0123456789abcdef";
  const unsigned char* p = (const unsigned char*)data;
  if(len == 0)
  {
    fputc('-', stdout);
    return;
  }
  for(size_t i = 0; i < len; ++i)
  {
    fputc(d[p[i] >> 4], stdout);
    fputc(d[p[i] & 15], stdout);
  }
}

static inline void hxEndLine()
{
  fputc('\n', stdout);
  fflush(stdout);
}
