// Line-protocol harness for Variant (property C07).  Executes the op lines of
// lean/Nstd/Variant/Driver.lean on the real include/nstd/Variant.hpp.
#include "common/hx.h"
#include <stdarg.h>
#include <errno.h>
#define private public
#include <nstd/Variant.hpp>
#undef private
#include <nstd/Debug.hpp>

// fresh allocations are poisoned: a read of an uninitialised descriptor is not hidden by a lucky zero
void* operator new[](usize size)
{
  void* p = malloc(size ? size : 1);
  memset(p, 0xAA, size);
  return p;
}
void operator delete[](void* p) { free(p); }
void* operator new(usize size) { return operator new[](size); }
void operator delete(void* p) { free(p); }

int Debug::print(const char* s) { return fputs(s, stderr); }
int Debug::printf(const char* f, ...)
{
  va_list ap;
  va_start(ap, f);
  int r = vfprintf(stderr, f, ap);
  va_end(ap);
  return r;
}

static const int NV = 6;
alignas(Variant) static unsigned char storage[NV][sizeof(Variant)];
static Variant* var[NV];

static void resetAll()
{
  for(int i = 0; i < NV; ++i)
  {
    if(var[i]) var[i]->~Variant();
    memset(storage[i], 0xAA, sizeof(Variant));
    var[i] = new(storage[i]) Variant;
  }
}

// ---- parsing ---------------------------------------------------------------------------------

static bool allDigits(const char* s, bool sign)
{
  if(sign && *s == '-') ++s;
  if(!*s) return false;
  for(; *s; ++s) if(*s < '0' || *s > '9') return false;
  return true;
}

static bool isHex(const char* s)
{
  if(strcmp(s, "-") == 0) return true;
  size_t n = strlen(s);
  if(n % 2) return false;
  for(size_t i = 0; i < n; ++i) if(hxNib(s[i]) < 0) return false;
  return true;
}

static bool parseString(const char* tok, String& out)
{
  if(!isHex(tok)) return false;
  size_t len;
  unsigned char* d = hxBytes(tok, len);
  out = String((const char*)d, len);
  free(d);
  return true;
}

static bool parseLit(const char* t, Variant& out)
{
  const char* b = t + 1;
  switch(t[0])
  {
  case 'n': if(*b) return false; out = Variant(); return true;
  case 'b': if(strcmp(b, "0") == 0) { out = Variant(false); return true; } if(strcmp(b, "1") == 0) { out = Variant(true); return true; } return false;
  case 'd':
  {
    if(strlen(b) != 16) return false;
    uint64 bits = 0;
    for(int i = 0; i < 16; ++i) { int n = hxNib(b[i]); if(n < 0) return false; bits = bits << 4 | (uint64)n; }
    double d;
    memcpy(&d, &bits, 8);
    out = Variant(d);
    return true;
  }
  case 'i':
  {
    if(!allDigits(b, true)) return false;
    errno = 0; long long x = strtoll(b, 0, 10);
    if(errno || x < -2147483648LL || x > 2147483647LL) return false;
    out = Variant((int)x); return true;
  }
  case 'u':
  {
    if(!allDigits(b, false)) return false;
    errno = 0; unsigned long long x = strtoull(b, 0, 10);
    if(errno || x > 4294967295ULL) return false;
    out = Variant((uint)x); return true;
  }
  case 'l':
  {
    if(!allDigits(b, true)) return false;
    errno = 0; long long x = strtoll(b, 0, 10);
    if(errno) return false;
    out = Variant((int64)x); return true;
  }
  case 'q':
  {
    if(!allDigits(b, false)) return false;
    errno = 0; unsigned long long x = strtoull(b, 0, 10);
    if(errno) return false;
    out = Variant((uint64)x); return true;
  }
  case 's':
  {
    String s;
    if(!parseString(b, s)) return false;
    out = Variant(s); return true;
  }
  }
  return false;
}

// a source: a variable (by reference, as the caller would pass it) or a literal temporary
struct Src
{
  int v;          // >= 0: variable
  Variant lit;
  const Variant& get() const { return v >= 0 ? *var[v] : lit; }
};

static bool parseSrc(const char* t, Src& s)
{
  if(t[0] == 'v')
  {
    if(!allDigits(t + 1, false)) return false;
    unsigned long k = strtoul(t + 1, 0, 10);
    if(k >= (unsigned long)NV) return false;
    s.v = (int)k;
    return true;
  }
  s.v = -1;
  return parseLit(t, s.lit);
}

struct Step { char kind; usize idx; String key; };
static const int MAXSTEP = 16;

static int parsePath(char* t, Step* steps)   // -1 on error
{
  if(strcmp(t, ".") == 0) return 0;
  int n = 0;
  char* p = t;
  while(p)
  {
    char* q = strchr(p, '/');
    if(q) *q = 0;
    if(n >= MAXSTEP) return -1;
    Step& s = steps[n++];
    s.kind = p[0];
    if(s.kind == 'l' || s.kind == 'a')
    {
      if(!allDigits(p + 1, false)) return -1;
      s.idx = strtoul(p + 1, 0, 10);
    }
    else if(s.kind == 'm')
    {
      if(!parseString(p + 1, s.key)) return -1;
    }
    else return -1;
    p = q ? q + 1 : 0;
  }
  return n;
}

// const walk; 0 when a step does not exist
static const Variant* walkConst(const Variant* x, const Step* steps, int n)
{
  for(int k = 0; k < n; ++k)
  {
    const Step& s = steps[k];
    if(s.kind == 'l')
    {
      const List<Variant>& l = x->toList();
      if(s.idx >= l.size()) return 0;
      List<Variant>::Iterator it = l.begin();
      for(usize i = 0; i < s.idx; ++i) ++it;
      x = &*it;
    }
    else if(s.kind == 'a')
    {
      const Array<Variant>& a = x->toArray();
      if(s.idx >= a.size()) return 0;
      x = &((const Variant*)a)[s.idx];
    }
    else
    {
      const HashMap<String, Variant>& m = x->toMap();
      HashMap<String, Variant>::Iterator it = m.find(s.key);
      if(it == m.end()) return 0;
      x = &*it;
    }
  }
  return x;
}

// walk through the mutable accessors (the path exists: checked on the const view before)
static Variant* walkMut(Variant* x, const Step* steps, int n)
{
  for(int k = 0; k < n; ++k)
  {
    const Step& s = steps[k];
    if(s.kind == 'l')
    {
      List<Variant>& l = x->toList();
      List<Variant>::Iterator it = l.begin();
      for(usize i = 0; i < s.idx; ++i) ++it;
      x = &*it;
    }
    else if(s.kind == 'a')
    {
      Array<Variant>& a = x->toArray();
      x = &((Variant*)a)[s.idx];
    }
    else
    {
      HashMap<String, Variant>& m = x->toMap();
      HashMap<String, Variant>::Iterator it = m.find(s.key);
      x = &*it;
    }
  }
  return x;
}

// the argument of a typed constructor / typed operator=
struct ValArg
{
  int kind;   // 0 literal, 1 list, 2 array, 3 map
  Variant lit;
  List<Variant> list;
  Array<Variant> array;
  HashMap<String, Variant> map;
  bool usesVar[NV];
};

static bool parseValArg(const HxLine& l, int from, ValArg& a)
{
  for(int i = 0; i < NV; ++i) a.usesVar[i] = false;
  if(from >= l.ntok) return false;
  const char* k = l.tok[from];
  if(strcmp(k, "list") == 0 || strcmp(k, "arr") == 0)
  {
    a.kind = k[0] == 'l' ? 1 : 2;
    for(int i = from + 1; i < l.ntok; ++i)
    {
      Src s;
      if(!parseSrc(l.tok[i], s)) return false;
      if(s.v >= 0) a.usesVar[s.v] = true;
      if(a.kind == 1) a.list.append(s.get()); else a.array.append(s.get());
    }
    return true;
  }
  if(strcmp(k, "map") == 0)
  {
    a.kind = 3;
    if((l.ntok - from - 1) % 2) return false;
    for(int i = from + 1; i + 1 < l.ntok; i += 2)
    {
      String key;
      Src s;
      if(!parseString(l.tok[i], key) || !parseSrc(l.tok[i + 1], s)) return false;
      if(s.v >= 0) a.usesVar[s.v] = true;
      a.map.append(key, s.get());
    }
    return true;
  }
  if(from + 1 != l.ntok) return false;
  a.kind = 0;
  return parseLit(k, a.lit);
}

// ---- observation -----------------------------------------------------------------------------

static void putStr(const String& s) { hxPutHex((const char*)s, s.length()); }

static void render(const Variant& x)
{
  switch(x.getType())
  {
  case Variant::nullType: printf("n"); break;
  case Variant::boolType: printf("b%d", (int)x.toBool()); break;
  case Variant::doubleType:
  {
    double d = x.toDouble();
    uint64 bits;
    memcpy(&bits, &d, 8);
    printf("d%016llx", (unsigned long long)bits);
    break;
  }
  case Variant::intType: printf("i%d", x.toInt()); break;
  case Variant::uintType: printf("u%u", x.toUInt()); break;
  case Variant::int64Type: printf("l%lld", (long long)x.toInt64()); break;
  case Variant::uint64Type: printf("q%llu", (unsigned long long)x.toUInt64()); break;
  case Variant::stringType: printf("s"); putStr(x.toString()); break;
  case Variant::listType:
  {
    const List<Variant>& l = x.toList();
    printf("L[");
    usize n = 0;
    for(List<Variant>::Iterator i = l.begin(), end = l.end(); i != end; ++i, ++n)
    {
      if(n) printf(",");
      render(*i);
    }
    printf("]");
    if(n != l.size()) printf("!size");
    break;
  }
  case Variant::arrayType:
  {
    const Array<Variant>& a = x.toArray();
    printf("A[");
    for(usize i = 0; i < a.size(); ++i)
    {
      if(i) printf(",");
      render(((const Variant*)a)[i]);
    }
    printf("]");
    break;
  }
  case Variant::mapType:
  {
    const HashMap<String, Variant>& m = x.toMap();
    printf("M{");
    usize n = 0;
    for(HashMap<String, Variant>::Iterator i = m.begin(), end = m.end(); i != end; ++i, ++n)
    {
      if(n) printf(",");
      putStr(i.key());
      printf(":");
      render(*i);
    }
    printf("}");
    if(n != m.size()) printf("!size");
    break;
  }
  default: printf("!type%d", (int)x.getType());
  }
}

// the value with `data->ref` of every heap block (white-box), e.g. L#2[i1,s#1:6162]
static void renderRefs(const Variant& x)
{
  unsigned long ref = (unsigned long)x.data->ref;
  switch(x.getType())
  {
  case Variant::stringType: printf("s#%lu:", ref); putStr(x.toString()); break;
  case Variant::listType:
  {
    const List<Variant>& l = x.toList();
    printf("L#%lu[", ref);
    usize n = 0;
    for(List<Variant>::Iterator i = l.begin(), end = l.end(); i != end; ++i, ++n)
    {
      if(n) printf(",");
      renderRefs(*i);
    }
    printf("]");
    break;
  }
  case Variant::arrayType:
  {
    const Array<Variant>& a = x.toArray();
    printf("A#%lu[", ref);
    for(usize i = 0; i < a.size(); ++i)
    {
      if(i) printf(",");
      renderRefs(((const Variant*)a)[i]);
    }
    printf("]");
    break;
  }
  case Variant::mapType:
  {
    const HashMap<String, Variant>& m = x.toMap();
    printf("M#%lu{", ref);
    usize n = 0;
    for(HashMap<String, Variant>::Iterator i = m.begin(), end = m.end(); i != end; ++i, ++n)
    {
      if(n) printf(",");
      putStr(i.key());
      printf(":");
      renderRefs(*i);
    }
    printf("}");
    break;
  }
  default:
    if(ref) printf("!ref%lu", ref);
    render(x);
  }
}

// toDouble() as its IEEE-754 bit pattern (integer -> double conversions are exact or correctly rounded, atof is
// correctly rounded: the pattern is determined); every NaN prints as `nan`
static void putDouble(double d)
{
  if(d != d) { printf("nan"); return; }
  uint64 bits;
  memcpy(&bits, &d, 8);
  printf("%016llx", (unsigned long long)bits);
}

static void observe()
{
  for(int i = 0; i < NV; ++i)
  {
    const Variant& x = *var[i];
    if(i) printf(" | ");
    printf("%d %d %d %u %lld %llu %c ", (int)x.getType(), (int)x.toBool(), x.toInt(), x.toUInt(),
           (long long)x.toInt64(), (unsigned long long)x.toUInt64(), x.toDouble() == 0. ? 'z' : 'n');
    putDouble(x.toDouble());
    printf(" ");
    putStr(x.toString());
    printf(" ");
    render(x);
    if(x.isNull() != (x.getType() == Variant::nullType)) printf("!isNull");
    printf(" ");
    renderRefs(x);
  }
  printf(" # ");
  for(int i = 0; i < NV; ++i)
    for(int j = 0; j < NV; ++j)
    {
      bool e = *var[i] == *var[j], n = *var[i] != *var[j];
      printf(e == !n ? "%d" : "!%d", (int)e);
    }
  hxEndLine();
}

static void bad() { printf("bad-op"); hxEndLine(); }

static bool varIndex(const HxLine& l, int i, int& v)
{
  if(i >= l.ntok || !allDigits(l.tok[i], false)) return false;
  unsigned long k = strtoul(l.tok[i], 0, 10);
  if(k >= (unsigned long)NV) return false;
  v = (int)k;
  return true;
}

// ---- operations ------------------------------------------------------------------------------

static bool opNew(const HxLine& l)
{
  int v;
  if(!varIndex(l, 1, v)) return false;
  ValArg a;
  if(!parseValArg(l, 2, a)) return false;
  var[v]->~Variant();
  memset(storage[v], 0xAA, sizeof(Variant));
  switch(a.kind)
  {
  case 1: new(storage[v]) Variant(a.list); break;
  case 2: new(storage[v]) Variant(a.array); break;
  case 3: new(storage[v]) Variant(a.map); break;
  default:
    switch(a.lit.getType())
    {
    case Variant::nullType: new(storage[v]) Variant(); break;
    case Variant::boolType: new(storage[v]) Variant(a.lit.toBool()); break;
    case Variant::doubleType: new(storage[v]) Variant(a.lit.toDouble()); break;
    case Variant::intType: new(storage[v]) Variant(a.lit.toInt()); break;
    case Variant::uintType: new(storage[v]) Variant(a.lit.toUInt()); break;
    case Variant::int64Type: new(storage[v]) Variant(a.lit.toInt64()); break;
    case Variant::uint64Type: new(storage[v]) Variant(a.lit.toUInt64()); break;
    default: new(storage[v]) Variant(((const Variant&)a.lit).toString()); break;
    }
  }
  return true;
}

static bool opMut(HxLine& l)
{
  int v;
  if(!varIndex(l, 1, v) || l.ntok < 4) return false;
  Step steps[MAXSTEP];
  int n = parsePath(l.tok[2], steps);
  if(n < 0) return false;
  const char* op = l.tok[3];
  int nargs = l.ntok - 4;
  const Variant* cx = walkConst(var[v], steps, n);

  if(strcmp(op, "set") == 0)
  {
    ValArg a;
    if(!parseValArg(l, 4, a)) return false;
    // (a temporary that contains var[v] itself is fine at any path: it was built above, before the accessor chain runs)
    if(a.kind == 0 && a.lit.isNull()) return false;    // no typed operator= for null
    if(!cx) return false;
    Variant& x = *walkMut(var[v], steps, n);
    switch(a.kind)
    {
    case 1: x = a.list; break;
    case 2: x = a.array; break;
    case 3: x = a.map; break;
    default:
      switch(a.lit.getType())
      {
      case Variant::boolType: x = a.lit.toBool(); break;
      case Variant::doubleType: x = a.lit.toDouble(); break;
      case Variant::intType: x = a.lit.toInt(); break;
      case Variant::uintType: x = a.lit.toUInt(); break;
      case Variant::int64Type: x = a.lit.toInt64(); break;
      case Variant::uint64Type: x = a.lit.toUInt64(); break;
      default: x = ((const Variant&)a.lit).toString(); break;
      }
    }
    return true;
  }
  if(strcmp(op, "assign") == 0 || strcmp(op, "lapp") == 0 || strcmp(op, "lpre") == 0 || strcmp(op, "aapp") == 0)
  {
    Src s;
    if(nargs != 1 || !parseSrc(l.tok[4], s)) return false;
    if(s.v == v && !(n == 0 && strcmp(op, "assign") == 0)) return false;   // precondition mutOk
    if(!cx) return false;
    Variant& x = *walkMut(var[v], steps, n);
    if(strcmp(op, "assign") == 0) x = s.get();
    else if(strcmp(op, "lapp") == 0) x.toList().append(s.get());
    else if(strcmp(op, "lpre") == 0) x.toList().prepend(s.get());
    else x.toArray().append(s.get());
    return true;
  }
  if(strcmp(op, "mput") == 0)
  {
    Src s;
    String key;
    if(nargs != 2 || !parseString(l.tok[4], key) || !parseSrc(l.tok[5], s)) return false;
    if(s.v == v || !cx) return false;
    walkMut(var[v], steps, n)->toMap().append(key, s.get());
    return true;
  }
  if(strcmp(op, "mrem") == 0)
  {
    String key;
    if(nargs != 1 || !parseString(l.tok[4], key) || !cx) return false;
    walkMut(var[v], steps, n)->toMap().remove(key);
    return true;
  }
  if(strcmp(op, "sapp") == 0)
  {
    String s;
    if(nargs != 1 || !parseString(l.tok[4], s) || !cx) return false;
    walkMut(var[v], steps, n)->toString().append(s);
    return true;
  }
  if(strcmp(op, "clear") == 0)
  {
    if(nargs != 0 || !cx) return false;
    walkMut(var[v], steps, n)->clear();
    return true;
  }
  if(strcmp(op, "touch") == 0)
  {
    if(nargs != 1 || !allDigits(l.tok[4], false) || !cx) return false;
    unsigned long k = strtoul(l.tok[4], 0, 10);
    if(k < 7 || k > 10) return false;
    Variant& x = *walkMut(var[v], steps, n);
    if(k == 7) x.toMap(); else if(k == 8) x.toList(); else if(k == 9) x.toArray(); else x.toString();
    return true;
  }
  if(strcmp(op, "lrem") == 0 || strcmp(op, "arem") == 0)
  {
    if(nargs != 1 || !allDigits(l.tok[4], false) || !cx) return false;
    usize i = strtoul(l.tok[4], 0, 10);
    if(op[0] == 'l')
    {
      if(i >= cx->toList().size()) return false;
      List<Variant>& li = walkMut(var[v], steps, n)->toList();
      List<Variant>::Iterator it = li.begin();
      for(usize k = 0; k < i; ++k) ++it;
      li.remove(it);
    }
    else
    {
      if(i >= cx->toArray().size()) return false;
      walkMut(var[v], steps, n)->toArray().remove(i);
    }
    return true;
  }
  return false;
}

static bool opGet(HxLine& l)
{
  int v, w;
  if(l.ntok != 4 || !varIndex(l, 1, v) || !varIndex(l, 2, w)) return false;
  Step steps[MAXSTEP];
  int n = parsePath(l.tok[3], steps);
  if(n < 0) return false;
  const Variant* cx = walkConst(var[w], steps, n);
  if(!cx) return false;
  *var[v] = *cx;
  return true;
}

// Finding "self-append": a Variant reached through a mutable accessor of v is given v itself.
// Runs on a local Variant; prints the sizes along the chain v, v.back(), v.back().back(), ...
// (value semantics: the appended copy is the *old* value).  The cycle the real code creates is
// cut afterwards so that the probe itself does not leak.
static usize lastSize(const Variant& x, const Variant*& last)
{
  last = 0;
  switch(x.getType())
  {
  case Variant::listType: if(!x.toList().isEmpty()) last = &x.toList().back(); return x.toList().size();
  case Variant::arrayType: if(!x.toArray().isEmpty()) last = &x.toArray().back(); return x.toArray().size();
  case Variant::mapType:
    if(!x.toMap().isEmpty())
    {
      // (HashMap::back() const is declared `const T&` but returns the value: it does not compile for T != V)
      HashMap<String, Variant>::Iterator it = x.toMap().end();
      --it;
      last = &*it;
    }
    return x.toMap().size();
  default: return 0;
  }
}

static bool opSelfApp(const HxLine& l)
{
  if(l.ntok != 2 || strlen(l.tok[1]) != 1) return false;
  char k = l.tok[1][0];
  Variant v;
  int cut;          // depth of the element that holds the copy of v
  switch(k)
  {
  case 'l': v.toList(); v.toList().append(v); cut = 1; break;
  case 'a': v.toArray(); v.toArray().append(v); cut = 1; break;
  case 'm': v.toMap(); v.toMap().append(String("k"), v); cut = 1; break;
  case 'n': v.toList().append(Variant(List<Variant>())); v.toList().back().toList().append(v); cut = 2; break;
  case 'e': v.toList().append(Variant(1)); v.toList().back() = v; cut = 1; break;
  case 'k': v.toMap().append(String("k"), Variant(1)); v.toMap().append(String("k"), v); cut = 1; break;
  default: return false;
  }
  printf("selfapp %c", k);
  const Variant* x = &v;
  const Variant* handle = 0;
  for(int depth = 0; depth < 5; ++depth)
  {
    const Variant* next = 0;
    usize n = x ? lastSize(*x, next) : 0;
    printf(" %lu", (unsigned long)n);
    if(depth + 1 == cut) handle = next;
    x = next;
  }
  hxEndLine();
  if(handle) const_cast<Variant*>(handle)->clear();
  return true;
}

int main()
{
  static HxLine l;
  resetAll();
  while(hxRead(l))
  {
    bool ok;
    int v, w;
    if(hxIs(l, "reset", 0)) { resetAll(); ok = true; }
    else if(strcmp(l.tok[0], "new") == 0) ok = opNew(l);
    else if(strcmp(l.tok[0], "mut") == 0) ok = opMut(l);
    else if(strcmp(l.tok[0], "get") == 0) ok = opGet(l);
    else if(hxIs(l, "copy", 2))
    {
      ok = varIndex(l, 1, v) && varIndex(l, 2, w) && v != w;
      if(ok)
      {
        var[v]->~Variant();
        memset(storage[v], 0xAA, sizeof(Variant));
        new(storage[v]) Variant(*var[w]);
      }
    }
    else if(hxIs(l, "swap", 2))
    {
      ok = varIndex(l, 1, v) && varIndex(l, 2, w);
      if(ok) var[v]->swap(*var[w]);
    }
    else if(strcmp(l.tok[0], "selfapp") == 0)
    {
      if(!opSelfApp(l)) bad();
      continue;
    }
    else ok = false;
    if(ok) observe(); else bad();
  }
  for(int i = 0; i < NV; ++i) var[i]->~Variant();
  return 0;
}
