// Nested instantiation for C04 / C05 (area Life): Map<Tracked, List<Tracked>> (kind N) and HashMap<Tracked, List<Tracked>> (kind G),
// two variables each, on the REAL headers.  The value type of the outer container is itself a container, so
// `m.insert(key, *m.find(key))` makes the outer container assign a List to ITSELF (the sub-object case of C04 / C05, seeded C05-4).
// No Lean model behind this harness: the observations are compared with the Python reference of tools/areas/life.py only.
//
// per op:  <K> <var0> | <var1> # u= dd= ov=      var = key:[e e ...] ...   inner element = payload + flag
//          s same object (serial) at the address it had when first seen, n constructed by this op, m anything else
#include "common/hx.h"
#include <stdint.h>
#include <nstd/List.hpp>
#include <nstd/Map.hpp>
#include <nstd/HashMap.hpp>

#include <stdarg.h>
int Debug::printf(const char* format, ...)
{
  va_list ap;
  va_start(ap, format);
  fprintf(stderr, "ERROR: nstd ");
  vfprintf(stderr, format, ap);
  va_end(ap);
  return 1;
}

// ---- object ledger keyed by address ---------------------------------------------------------------------
struct Rec { const void* addr; unsigned serial; };
static const unsigned RECN = 1 << 14;
static Rec recs[RECN];
static unsigned recUsed;
static const void* const TOMB = (const void*)1;
static unsigned long nUad, nDd, nOvr;
static unsigned nextSerial, opSerialStart;

static unsigned recSlot(const void* a) { return (unsigned)(((uintptr_t)a >> 3) * 2654435761u) & (RECN - 1); }
static Rec* recFind(const void* a)
{
  for(unsigned i = recSlot(a);; i = (i + 1) & (RECN - 1))
  {
    if(recs[i].addr == a) return &recs[i];
    if(recs[i].addr == 0) return 0;
  }
}
static void recInsert(const void* a, unsigned serial)
{
  if(++recUsed > RECN / 2)
  {
    static Rec live[RECN];
    unsigned n = 0;
    for(unsigned i = 0; i < RECN; ++i)
      if(recs[i].addr && recs[i].addr != TOMB) live[n++] = recs[i];
    memset(recs, 0, sizeof(recs));
    recUsed = n + 1;
    if(recUsed > RECN / 2) { fprintf(stderr, "object ledger overflow\n"); abort(); }
    for(unsigned i = 0; i < n; ++i)
      for(unsigned j = recSlot(live[i].addr);; j = (j + 1) & (RECN - 1))
        if(recs[j].addr == 0) { recs[j] = live[i]; break; }
  }
  for(unsigned i = recSlot(a);; i = (i + 1) & (RECN - 1))
    if(recs[i].addr == 0 || recs[i].addr == TOMB) { recs[i].addr = a; recs[i].serial = serial; return; }
}
static unsigned long liveObjects()
{
  unsigned long n = 0;
  for(unsigned i = 0; i < RECN; ++i)
    if(recs[i].addr && recs[i].addr != TOMB) ++n;
  return n;
}

struct Tracked
{
  int payload;
  unsigned serial;
  int* cell;

  void born()
  {
    serial = nextSerial++;
    cell = (int*)malloc(sizeof(int));
    *cell = payload;
    Rec* r = recFind(this);
    if(r) { ++nOvr; r->serial = serial; }
    else recInsert(this, serial);
  }
  static bool alive(const Tracked* o)
  {
    Rec* r = recFind(o);
    if(r && r->serial == o->serial) return true;
    ++nUad;
    return false;
  }
  int read() const { return alive(this) ? payload : -1; }
  Tracked() : payload(0) { born(); }
  explicit Tracked(int p) : payload(p) { born(); }
  Tracked(const Tracked& o) : payload(o.read()) { born(); }
  Tracked& operator=(const Tracked& o)
  {
    bool okd = alive(this);
    int p = o.read();
    if(okd) { payload = p; *cell = p; }
    return *this;
  }
  ~Tracked()
  {
    Rec* r = recFind(this);
    if(!r || r->serial != serial) { ++nDd; return; }
    r->addr = TOMB;
    if(*cell != payload) ++nUad;
    free(cell);
    cell = 0;
  }
  bool operator==(const Tracked& o) const { return read() == o.read(); }
  bool operator!=(const Tracked& o) const { return read() != o.read(); }
  bool operator<(const Tracked& o) const { return read() < o.read(); }
  bool operator>(const Tracked& o) const { return read() > o.read(); }
  bool operator<=(const Tracked& o) const { return read() <= o.read(); }
  bool operator>=(const Tracked& o) const { return read() >= o.read(); }
};
usize hash(const Tracked& t) { return (usize)t.read(); }

typedef List<Tracked> TL;
typedef Map<Tracked, TL> TN;
typedef HashMap<Tracked, TL> TG;

// ---- where an inner element was first seen -------------------------------------------------------------------
struct Seen { unsigned serial; const void* addr; };
static Seen seen[1 << 14];
static unsigned nSeen;
static char flagOf(const Tracked* o)
{
  Rec* r = recFind(o);
  if(!r || r->serial != o->serial) return 'm';
  for(unsigned i = 0; i < nSeen; ++i)
    if(seen[i].serial == o->serial)
      return seen[i].addr == o ? (o->serial >= opSerialStart ? 'n' : 's') : 'm';
  if(nSeen >= sizeof(seen) / sizeof(*seen)) { fprintf(stderr, "registry overflow\n"); abort(); }
  seen[nSeen].serial = o->serial; seen[nSeen].addr = o; ++nSeen;
  return o->serial >= opSerialStart ? 'n' : 's';
}
static void sweep()
{
  unsigned m = 0;
  for(unsigned i = 0; i < nSeen; ++i)
  {
    Rec* r = recFind(seen[i].addr);
    if(r && r->serial == seen[i].serial) seen[m++] = seen[i];
  }
  nSeen = m;
}

alignas(16) static char storeN[2][sizeof(TN)];
alignas(16) static char storeG[2][sizeof(TG)];
static TN& N(int v) { return *(TN*)storeN[v]; }
static TG& G(int v) { return *(TG*)storeG[v]; }
static bool liveVars;

template<class C> static void show(C& c)
{
  bool first = true;
  usize n = 0;
  for(typename C::Iterator i = c.begin(), end = c.end(); i != end; ++i, ++n)
  {
    if(!first) fputc(' ', stdout);
    first = false;
    printf("%d:[", i.key().read());
    bool f2 = true;
    TL& l = *i;
    usize k = 0;
    for(TL::Iterator j = l.begin(), e2 = l.end(); j != e2; ++j, ++k)
    {
      if(!f2) fputc(' ', stdout);
      f2 = false;
      printf("%d%c", (*j).read(), flagOf(&*j));
      if(k > 10000) { printf(" ...cycle"); break; }
    }
    if(k != l.size()) printf(" size-mismatch:%lu", (unsigned long)l.size());
    fputc(']', stdout);
    if(n > 10000) { printf(" ...cycle"); break; }
  }
  if(first) fputc('-', stdout);
  if(n != c.size()) printf(" size-mismatch:%lu", (unsigned long)c.size());
}

static void createAll() { for(int v = 0; v < 2; ++v) { new(storeN[v]) TN; new(storeG[v]) TG; } liveVars = true; }
static void destroyAll() { if(!liveVars) return; for(int v = 0; v < 2; ++v) { N(v).~TN(); G(v).~TG(); } liveVars = false; }
static void bad() { printf("bad-op"); hxEndLine(); }

template<class C> static bool runOp(C& c, const char* op, HxLine& l, unsigned long a2, unsigned long a3, bool isMap)
{
#define ISN(name, n) (l.ntok == (n) + 1 && strcmp(op, name) == 0)
  if(ISN("push", 3))
  {
    Tracked tk((int)a2);
    typename C::Iterator it = c.find(tk);
    if(it == c.end()) { TL empty; it = c.insert(c.end(), tk, empty); }
    Tracked tv((int)a3);
    (*it).append(tv);
  }
  else if(ISN("insertself", 2))
  {
    Tracked tk((int)a2);
    typename C::Iterator it = c.find(tk);
    if(it == c.end()) return false;
    c.insert(c.end(), tk, *it);               // Map: hint end(); HashMap: position end() - an existing key is assigned over
  }
  else if(ISN("insertplain", 2) && isMap)
  {
    Tracked tk((int)a2);
    typename C::Iterator it = c.find(tk);
    if(it == c.end()) return false;
    c.insert(it, tk, *it);                    // hint = the element itself
  }
  else if(ISN("insertfrom", 3))
  {
    Tracked tk((int)a2), tk2((int)a3);
    typename C::Iterator it = c.find(tk2);
    if(it == c.end()) return false;
    c.insert(c.end(), tk, *it);
  }
  else if(ISN("pop", 2))
  {
    Tracked tk((int)a2);
    typename C::Iterator it = c.find(tk);
    if(it == c.end() || (*it).isEmpty()) return false;
    (*it).removeFront();
  }
  else if(ISN("remove", 2)) { Tracked tk((int)a2); c.remove(tk); }
  else if(ISN("clear", 1)) c.clear();
  else return false;
  return true;
}

int main()
{
  HxLine l;
  createAll();
  while(hxRead(l))
  {
    opSerialStart = nextSerial;
    if(hxIs(l, "reset", 0))
    {
      destroyAll();
      memset(recs, 0, sizeof(recs)); recUsed = 0; nSeen = 0;
      nUad = nDd = nOvr = 0; nextSerial = 0;
      createAll();
      printf("reset"); hxEndLine(); continue;
    }
    if(hxIs(l, "destroyall", 0))
    {
      destroyAll();
      printf("end # u=%lu dd=%lu ov=%lu live=%lu", nUad, nDd, nOvr, liveObjects());
      hxEndLine();
      createAll();
      continue;
    }
    const char* op = l.tok[0];
    if(!(op[0] == 'N' || op[0] == 'G') || op[1] != '.' || l.ntok < 2) { bad(); continue; }
    bool isMap = op[0] == 'N';
    unsigned long a1 = hxNum(l, 1), a2 = l.ntok > 2 ? hxNum(l, 2) : 0, a3 = l.ntok > 3 ? hxNum(l, 3) : 0;
    if(a1 > 1) { bad(); continue; }
    int v = (int)a1;
    bool ok;
    if(l.ntok == 3 && strcmp(op + 2, "assign") == 0)
    { // outer assignment (also to itself): deep copies of the inner lists
      if(a2 > 1) { bad(); continue; }
      if(isMap) N(v) = N((int)a2); else G(v) = G((int)a2);
      ok = true;
    }
    else
      ok = isMap ? runOp(N(v), op + 2, l, a2, a3, true) : runOp(G(v), op + 2, l, a2, a3, false);
    if(!ok) { bad(); continue; }
    fputc(op[0], stdout); fputc(' ', stdout);
    if(isMap) { show(N(0)); printf(" | "); show(N(1)); } else { show(G(0)); printf(" | "); show(G(1)); }
    sweep();
    printf(" # u=%lu dd=%lu ov=%lu", nUad, nDd, nOvr);
    hxEndLine();
  }
  return 0;
}
