/* Helper child of the Args harness (property C20).  Built by tools/areas/args.py into the build
 * directory.  Modes (chosen by argv[1]):
 *   @exit <code>                      return <code>
 *   @io <mask> <n> <seed> <code>      if mask&4: read stdin to end-of-file; print `in=<count>:<crc32>\n` on stdout;
 *                                     if mask&1: write n pattern bytes (seed) to stdout; if mask&2: n pattern bytes
 *                                     (seed+1) to stderr; return <code>
 *   @pause                            sleep until killed
 *   @late <mask> <ms> <code> <marker> wait <ms> milliseconds, write one short line to stdout (mask&1) and to stderr
 *                                     (mask&2) (SIGPIPE at its default: a pipe without reader kills the child; a failed
 *                                     write gives exit code 99), create the file <marker>, return <code>
 *   @spam <mask>                      write to stdout (mask&1) / stderr (mask&2) without end (blocks when the pipe is full)
 *   @two <nout> <nerr> <hold>         write <nout> bytes 'o' to stdout and <nerr> bytes 'e' to stderr; hold != 0: sleep until killed
 *   @raise <signal>                   terminate by the signal
 *   anything else                     echo: `argv <hex>...` and `env <hex>...` (the whole environment, in the order
 *                                     received) on stdout; return 42
 */
#include <stdio.h>
#include <stdlib.h>
#include <string.h>
#include <unistd.h>
#include <signal.h>
#include <fcntl.h>
extern char** environ;

static unsigned crcTable[256];
static void crcInit(void)
{
  for(unsigned i = 0; i < 256; ++i)
  {
    unsigned c = i;
    for(int k = 0; k < 8; ++k)
      c = c & 1 ? 0xEDB88320u ^ (c >> 1) : c >> 1;
    crcTable[i] = c;
  }
}
static unsigned crcUpdate(unsigned crc, const unsigned char* p, size_t n)
{
  crc = ~crc;
  for(size_t i = 0; i < n; ++i)
    crc = crcTable[(crc ^ p[i]) & 0xff] ^ (crc >> 8);
  return ~crc;
}
static unsigned char pattern(unsigned long i, unsigned long seed) { return (unsigned char)(i * 7 + seed + (i >> 8) * 13 + (i >> 16) * 5); }

static int writeAll(int fd, const unsigned char* p, size_t n)
{
  while(n)
  {
    ssize_t w = write(fd, p, n);
    if(w <= 0)
      return -1;
    p += w;
    n -= (size_t)w;
  }
  return 0;
}

static void putHex(const char* s)
{
  if(!*s)
  {
    fputs(" -", stdout);
    return;
  }
  fputc(' ', stdout);
  for(; *s; ++s)
    printf("%02x", (unsigned)(unsigned char)*s);
}

int main(int argc, char** argv)
{
  if(argc > 2 && !strcmp(argv[1], "@exit"))
    return atoi(argv[2]);
  if(argc > 1 && !strcmp(argv[1], "@pause"))
  {
    for(;;)
      pause();
  }
  if(argc > 5 && !strcmp(argv[1], "@late"))
  {
    unsigned mask = (unsigned)atoi(argv[2]);
    signal(SIGPIPE, SIG_DFL); // the harness ignores SIGPIPE and that would be inherited
    usleep((useconds_t)atoi(argv[3]) * 1000);
    static const char line[] = "late line from the child\n";
    for(int s = 0; s < 2; ++s)
      if(mask & (1u << s))
        if(write(s + 1, line, sizeof(line) - 1) != (ssize_t)(sizeof(line) - 1))
          return 99;
    int fd = open(argv[5], O_CREAT | O_WRONLY, 0600);
    if(fd >= 0)
      close(fd);
    return atoi(argv[4]);
  }
  if(argc > 2 && !strcmp(argv[1], "@spam"))
  {
    unsigned mask = (unsigned)atoi(argv[2]);
    static char block[4096];
    memset(block, 'x', sizeof(block));
    for(;;)
    {
      if(mask & 1)
        if(write(1, block, sizeof(block)) < 0)
          return 98;
      if(mask & 2)
        if(write(2, block, sizeof(block)) < 0)
          return 98;
      if(!(mask & 3))
        pause();
    }
  }
  if(argc > 4 && !strcmp(argv[1], "@two"))
  {
    static unsigned char block[65536];
    size_t nout = (size_t)atol(argv[2]), nerr = (size_t)atol(argv[3]);
    if(nout > sizeof(block) || nerr > sizeof(block))
      return 96;
    memset(block, 'o', sizeof(block));
    if(nout && writeAll(1, block, nout) != 0)
      return 3;
    memset(block, 'e', sizeof(block));
    if(nerr && writeAll(2, block, nerr) != 0)
      return 3;
    if(atoi(argv[4]))
      for(;;)
        pause();
    return 0;
  }
  if(argc > 2 && !strcmp(argv[1], "@raise"))
  {
    signal(atoi(argv[2]), SIG_DFL);
    raise(atoi(argv[2]));
    return 97;
  }
  if(argc > 5 && !strcmp(argv[1], "@io"))
  {
    unsigned mask = (unsigned)atoi(argv[2]);
    unsigned long n = strtoul(argv[3], 0, 10), seed = strtoul(argv[4], 0, 10);
    static unsigned char buf[65536];
    crcInit();
    unsigned long count = 0;
    unsigned crc = 0;
    if(mask & 4)
    {
      ssize_t r;
      while((r = read(0, buf, sizeof(buf))) > 0)
      {
        crc = crcUpdate(crc, buf, (size_t)r);
        count += (unsigned long)r;
      }
    }
    char line[64];
    int l = snprintf(line, sizeof(line), "in=%lu:%08x\n", count, crc);
    if(writeAll(1, (const unsigned char*)line, (size_t)l) != 0)
      return 3;
    for(int s = 0; s < 2; ++s)
      if(mask & (1u << s))
        for(unsigned long off = 0; off < n;)
        {
          size_t k = n - off < sizeof(buf) ? (size_t)(n - off) : sizeof(buf);
          for(size_t i = 0; i < k; ++i)
            buf[i] = pattern(off + i, seed + (unsigned long)s);
          if(writeAll(s == 0 ? 1 : 2, buf, k) != 0)
            return 3;
          off += k;
        }
    return atoi(argv[5]);
  }
  fputs("argv", stdout);
  for(int i = 0; i < argc; ++i)
    putHex(argv[i]);
  fputs("\nenv", stdout);
  for(char** e = environ; *e; ++e)
    putHex(*e);
  fputc('\n', stdout);
  fflush(stdout);
  return 42;
}
