// Line-protocol harness for the Codec area (property C18).  Executes the op lines of
// lean/Nstd/Codec/Driver.lean on the REAL include/nstd/Unicode.hpp and src/String.cpp.
// Inputs of the decoders live in exactly sized heap blocks, so AddressSanitizer reports any
// read beyond the range that was handed over (a sanitizer abort is a result of the check).
#include "common/hx.h"
#include <stdint.h>
#include <nstd/String.hpp>
#include <nstd/Unicode.hpp>
#include <nstd/Debug.hpp>
#include <stdarg.h>

// String.cpp reports failed assertions through Debug::printf; Debug.cpp drags in Process, so
// the harness supplies the function: a failed library assertion is printed and is a fault.
int Debug::printf(const char* format, ...)
{
  va_list ap;
  va_start(ap, format);
  fputs("FAULT assertion: ", stdout);
  vfprintf(stdout, format, ap);
  va_end(ap);
  fflush(stdout);
  return 1;
}

static const uint64_t FNV_INIT = 0xcbf29ce484222325ULL;
static inline uint64_t fnvByte(uint64_t h, unsigned b) { return (h ^ (uint64_t)(b & 0xff)) * 0x100000001b3ULL; }
static inline uint64_t fnvBytes(uint64_t h, const void* p, size_t n)
{
  for(size_t i = 0; i < n; ++i) h = fnvByte(h, ((const unsigned char*)p)[i]);
  return h;
}
static inline uint64_t fnvU32(uint64_t h, uint32_t v)
{
  return fnvByte(fnvByte(fnvByte(fnvByte(h, v), v >> 8), v >> 16), v >> 24);
}

// exactly sized heap copy (size 0 -> a 1-byte block whose only byte must never be read is
// not expressible with malloc(0); a zero-length range is passed as pointer to the END of a block)
struct Exact
{
  unsigned char* block;
  unsigned char* p;
  Exact(const unsigned char* src, size_t n)
  {
    if(n == 0) { block = (unsigned char*)malloc(8); p = block + 8; }   // one past the end: any read faults
    else { block = (unsigned char*)malloc(n); memcpy(block, src, n); p = block; }
  }
  ~Exact() { free(block); }
};

struct CpObs
{
  unsigned char s[8];
  size_t n;
  uint32_t v;
  bool valid;
  unsigned len;   // 255 = no first byte
};

static void cpObs(uint32_t cp, CpObs& o)
{
  String s = Unicode::toString(cp);
  {
    // append(uint32, String&) called directly: same bytes, result flag = "something was appended"
    String direct;
    bool r = Unicode::append(cp, direct);
    if(!(direct == s) || r != (s.length() != 0)) { printf("FAULT append(ch, str) differs from toString(ch) at %lu", (unsigned long)cp); hxEndLine(); exit(3); }
  }
  o.n = s.length();
  if(o.n > sizeof(o.s)) { printf("FAULT toString length %lu", (unsigned long)o.n); hxEndLine(); exit(3); }
  memcpy(o.s, (const char*)s, o.n);
  // String overloads (what a user calls) ...
  uint32_t v1 = Unicode::fromString(s);
  bool ok1 = Unicode::isValid(s);
  // ... and the pointer overloads on an exactly sized copy (ASan sees any over-read)
  Exact e(o.s, o.n);
  o.v = Unicode::fromString((const char*)e.p, o.n);
  o.valid = Unicode::isValid((const char*)e.p, o.n);
  if(v1 != o.v || ok1 != o.valid) { printf("FAULT overloads disagree at %lu", (unsigned long)cp); hxEndLine(); exit(3); }
  o.len = o.n ? (unsigned)Unicode::length((char)o.s[0]) : 255;
}

static void decObs(const unsigned char* bytes, size_t n, uint32_t& v, bool& ok)
{
  Exact e(bytes, n);
  v = Unicode::fromString((const char*)e.p, n);
  ok = Unicode::isValid((const char*)e.p, n);
  // the String overloads must agree with the pointer overloads
  String s((const char*)bytes, n);
  uint32_t v2 = Unicode::fromString(s);
  bool ok2 = Unicode::isValid(s);
  if(v2 != v || ok2 != ok) { printf("FAULT String and pointer overloads of fromString/isValid disagree"); hxEndLine(); exit(3); }
}

static const char* B64ALPHA = "ABCDEFGHIJKLMNOPQRSTUVWXYZabcdefghijklmnopqrstuvwxyz0123456789+/";
static unsigned char b64sym[68];

static void putText(const String& s)   // printable ASCII text of a number
{
  if(s.length() == 0) { fputc('-', stdout); return; }
  fwrite((const char*)s, 1, s.length(), stdout);
}

static bool hexU64(const char* t, size_t digits, uint64_t& v)
{
  if(strlen(t) != digits) return false;
  v = 0;
  for(size_t i = 0; i < digits; ++i)
  {
    int n = hxNib(t[i]);
    if(n < 0) return false;
    v = v << 4 | (unsigned)n;
  }
  return true;
}

static bool validHex(const char* t)
{
  if(strcmp(t, "-") == 0) return true;
  size_t n = strlen(t);
  if(n % 2) return false;
  for(size_t i = 0; i < n; ++i) if(hxNib(t[i]) < 0) return false;
  return true;
}

static bool allDigits(const char* t) { if(!*t) return false; for(; *t; ++t) if(*t < '0' || *t > '9') return false; return true; }

int main()
{
  for(int i = 0; i < 64; ++i) b64sym[i] = (unsigned char)B64ALPHA[i];
  b64sym[64] = '='; b64sym[65] = 0x80; b64sym[66] = 0xFF; b64sym[67] = '{';
  HxLine l;
  while(hxRead(l))
  {
    const char* op = l.tok[0];
    if(hxIs(l, "reset", 0)) printf("ok");
    else if(hxIs(l, "cp", 2) && allDigits(l.tok[1]) && allDigits(l.tok[2]) && strtoull(l.tok[1], 0, 10) + strtoull(l.tok[2], 0, 10) <= 4294967296ULL)
    {
      uint64_t start = strtoull(l.tok[1], 0, 10), count = strtoull(l.tok[2], 0, 10), h = FNV_INIT;
      unsigned long good = 0;
      for(uint64_t k = 0; k < count; ++k)
      {
        CpObs o;
        cpObs((uint32_t)(start + k), o);
        h = fnvByte(h, (unsigned)o.n);
        h = fnvBytes(h, o.s, o.n);
        h = fnvU32(h, o.v);
        h = fnvByte(h, o.valid ? 1 : 0);
        h = fnvByte(h, o.len);
        if(o.v == (uint32_t)(start + k) && o.n) ++good;
      }
      printf("cp %lu %016llx", good, (unsigned long long)h);
    }
    else if(hxIs(l, "cp1", 1) && allDigits(l.tok[1]) && strtoull(l.tok[1], 0, 10) < 4294967296ULL)
    {
      CpObs o;
      cpObs((uint32_t)strtoull(l.tok[1], 0, 10), o);
      printf("cp1 ");
      hxPutHex(o.s, o.n);
      printf(" %lu %d ", (unsigned long)o.v, (int)o.valid);
      if(o.len == 255) printf("-"); else printf("%u", o.len);
    }
    else if(hxIs(l, "len", 1) && allDigits(l.tok[1]) && hxNum(l, 1) < 256)
      printf("len %lu", (unsigned long)Unicode::length((char)(unsigned char)hxNum(l, 1)));
    else if(hxIs(l, "dec", 1) && validHex(l.tok[1]))
    {
      size_t n; unsigned char* d = hxBytes(l.tok[1], n);
      uint32_t v; bool ok;
      decObs(d, n, v, ok);
      free(d);
      printf("dec %lu %d", (unsigned long)v, (int)ok);
    }
    else if(hxIs(l, "decpre", 2) && validHex(l.tok[1]) && allDigits(l.tok[2]) && hxNum(l, 2) <= 2)
    {
      size_t n; unsigned char* d = hxBytes(l.tok[1], n);
      unsigned k = (unsigned)hxNum(l, 2);
      unsigned char* buf = (unsigned char*)malloc(n + 2);
      memcpy(buf, d, n);
      free(d);
      uint64_t h = FNV_INIT; unsigned long cnt = 0;
      unsigned long total = k == 0 ? 1 : k == 1 ? 256 : 65536;
      for(unsigned long w = 0; w < total; ++w)
      {
        if(k == 1) buf[n] = (unsigned char)w;
        if(k == 2) { buf[n] = (unsigned char)(w >> 8); buf[n + 1] = (unsigned char)w; }
        uint32_t v; bool ok;
        decObs(buf, n + k, v, ok);
        h = fnvU32(h, v);
        h = fnvByte(h, ok ? 1 : 0);
        ++cnt;
      }
      free(buf);
      printf("decpre %lu %016llx", cnt, (unsigned long long)h);
    }
    else if(hxIs(l, "u32s", 1))
    {
      // comma separated decimal code points, "-" = none
      uint32 data[64]; usize size = 0; bool bad = false;
      if(strcmp(l.tok[1], "-") != 0)
      {
        char* p = l.tok[1];
        while(*p && size < 64)
        {
          char* e;
          if(*p < '0' || *p > '9') { bad = true; break; }
          unsigned long long v = strtoull(p, &e, 10);
          if(v >= 4294967296ULL) { bad = true; break; }
          data[size++] = (uint32)v;
          if(*e == ',') p = e + 1; else if(*e == 0) p = e; else { bad = true; break; }
        }
        if(*p) bad = true;
      }
      if(bad) printf("bad-op");
      else
      {
        // exactly sized heap copy of the array
        uint32* arr = (uint32*)malloc(size ? size * sizeof(uint32) : 1);
        memcpy(arr, data, size * sizeof(uint32));
        String str;
        bool r = Unicode::append(size ? arr : arr, size, str);
        String viaToString = Unicode::toString(arr, size);
        free(arr);
        if(!(viaToString == str)) { printf("FAULT toString(data,size) differs from append"); hxEndLine(); continue; }
        printf("u32s %d ", (int)r);
        hxPutHex((const char*)str, str.length());
      }
    }
    else if(hxIs(l, "hex", 1) && validHex(l.tok[1]))
    {
      size_t n; unsigned char* d = hxBytes(l.tok[1], n);
      String r;
      {
        Exact e(d, n);
        r = String::fromHex((const byte*)e.p, n);
      }
      free(d);
      printf("hex ");
      hxPutHex((const char*)r, r.length());
    }
    else if(hxIs(l, "b64", 1) && validHex(l.tok[1]))
    {
      size_t n; unsigned char* d = hxBytes(l.tok[1], n);
      String in((const char*)d, n);
      free(d);
      String r = String::fromBase64(in);
      printf("b64 ");
      hxPutHex((const char*)r, r.length());
    }
    else if(hxIs(l, "b64pre", 2) && validHex(l.tok[1]) && allDigits(l.tok[2]) && hxNum(l, 2) <= 3)
    {
      size_t n; unsigned char* d = hxBytes(l.tok[1], n);
      unsigned k = (unsigned)hxNum(l, 2);
      unsigned char* buf = (unsigned char*)malloc(n + 3);
      memcpy(buf, d, n);
      free(d);
      uint64_t h = FNV_INIT; unsigned long cnt = 0;
      unsigned long total = 1;
      for(unsigned i = 0; i < k; ++i) total *= 68;
      for(unsigned long w = 0; w < total; ++w)
      {
        unsigned long x = w;
        for(unsigned i = 0; i < k; ++i) { buf[n + k - 1 - i] = b64sym[x % 68]; x /= 68; }
        String in((const char*)buf, n + k);
        String r = String::fromBase64(in);
        h = fnvByte(h, (unsigned)r.length());
        h = fnvBytes(h, (const char*)r, r.length());
        ++cnt;
      }
      free(buf);
      printf("b64pre %lu %016llx", cnt, (unsigned long long)h);
    }
    else if((hxIs(l, "fi32", 1) || hxIs(l, "fu32", 1)) && strlen(l.tok[1]) == 8)
    {
      uint64_t v;
      if(!hexU64(l.tok[1], 8, v)) { printf("bad-op"); hxEndLine(); continue; }
      if(op[1] == 'i')
      {
        String t = String::fromInt((int)(uint32_t)v);
        int back = t.toInt();
        int back2 = String::toInt((const char*)t);
        printf("fi32 "); putText(t); printf(" "); putText(String::fromPrintf("%d", (int)(uint32_t)v)); printf(" %08lx %08lx", (unsigned long)(uint32_t)back, (unsigned long)(uint32_t)back2);
      }
      else
      {
        String t = String::fromUInt((uint)v);
        uint back = t.toUInt();
        uint back2 = String::toUInt((const char*)t);
        printf("fu32 "); putText(t); printf(" "); putText(String::fromPrintf("%u", (uint)v)); printf(" %08lx %08lx", (unsigned long)back, (unsigned long)back2);
      }
    }
    else if((hxIs(l, "fi64", 1) || hxIs(l, "fu64", 1)) && strlen(l.tok[1]) == 16)
    {
      uint64_t v;
      if(!hexU64(l.tok[1], 16, v)) { printf("bad-op"); hxEndLine(); continue; }
      if(op[1] == 'i')
      {
        String t = String::fromInt64((int64)v);
        int64 back = t.toInt64();
        int64 back2 = String::toInt64((const char*)t);
        printf("fi64 "); putText(t); printf(" "); putText(String::fromPrintf("%lld", (int64)v)); printf(" %016llx %016llx", (unsigned long long)back, (unsigned long long)back2);
      }
      else
      {
        String t = String::fromUInt64((uint64)v);
        uint64 back = t.toUInt64();
        uint64 back2 = String::toUInt64((const char*)t);
        printf("fu64 "); putText(t); printf(" "); putText(String::fromPrintf("%llu", (uint64)v)); printf(" %016llx %016llx", (unsigned long long)back, (unsigned long long)back2);
      }
    }
    else if((hxIs(l, "pi32", 1) || hxIs(l, "pu32", 1) || hxIs(l, "pi64", 1) || hxIs(l, "pu64", 1)) && validHex(l.tok[1]))
    {
      size_t n; unsigned char* d = hxBytes(l.tok[1], n);
      String s((const char*)d, n);
      free(d);
      // member form and static (const char*) form must agree
      const char* cs = s;
      if(strcmp(op, "pi32") == 0)
      {
        int a = s.toInt(), b = String::toInt(cs);
        printf("pi32 %08lx %08lx", (unsigned long)(uint32_t)a, (unsigned long)(uint32_t)b);
      }
      else if(strcmp(op, "pu32") == 0)
      {
        uint a = s.toUInt(), b = String::toUInt(cs);
        printf("pu32 %08lx %08lx", (unsigned long)a, (unsigned long)b);
      }
      else if(strcmp(op, "pi64") == 0)
      {
        int64 a = s.toInt64(), b = String::toInt64(cs);
        printf("pi64 %016llx %016llx", (unsigned long long)a, (unsigned long long)b);
      }
      else
      {
        uint64 a = s.toUInt64(), b = String::toUInt64(cs);
        printf("pu64 %016llx %016llx", (unsigned long long)a, (unsigned long long)b);
      }
    }
    else if(hxIs(l, "pd", 1) && validHex(l.tok[1]))
    {
      // toDouble: member and static form; observed as the IEEE-754 bit pattern (never as a float text)
      size_t n; unsigned char* d = hxBytes(l.tok[1], n);
      String s((const char*)d, n);
      free(d);
      double a = s.toDouble(), b = String::toDouble((const char*)s);
      uint64_t ba, bb;
      memcpy(&ba, &a, 8); memcpy(&bb, &b, 8);
      printf("pd %016llx %016llx", (unsigned long long)ba, (unsigned long long)bb);
    }
    else if(hxIs(l, "fd", 1) && strlen(l.tok[1]) == 16)
    {
      // fromDouble of the double with the given bit pattern, and toDouble of that text
      uint64_t v;
      if(!hexU64(l.tok[1], 16, v)) { printf("bad-op"); hxEndLine(); continue; }
      double x;
      memcpy(&x, &v, 8);
      String t = String::fromDouble(x);
      double back = t.toDouble();
      uint64_t bb;
      memcpy(&bb, &back, 8);
      String t2 = String::fromPrintf("%f", x);
      printf("fd "); putText(t); printf(" "); if(t2 == t) printf("same"); else putText(t2); printf(" %016llx %d", (unsigned long long)bb, t.length() < 203 ? 1 : 0);
    }
    else if(hxIs(l, "lcs", 2) && validHex(l.tok[2]))
    {
      // the libc functions String.cpp calls, called DIRECTLY: ties the Lean definitions of Model.lean to the real libc
      size_t n; char* t = hxCStr(l.tok[2], n);
      const char* fn = l.tok[1];
      if(strcmp(fn, "atoi") == 0) printf("lcs %08lx", (unsigned long)(uint32_t)atoi(t));
      else if(strcmp(fn, "atol") == 0) printf("lcs %016llx", (unsigned long long)atol(t));
      else if(strcmp(fn, "atoll") == 0) printf("lcs %016llx", (unsigned long long)atoll(t));
      else if(strcmp(fn, "strtol") == 0) printf("lcs %016llx", (unsigned long long)strtol(t, 0, 10));
      else if(strcmp(fn, "strtoll") == 0) printf("lcs %016llx", (unsigned long long)strtoll(t, 0, 10));
      else if(strcmp(fn, "strtoul") == 0) printf("lcs %016llx", (unsigned long long)strtoul(t, 0, 10));
      else if(strcmp(fn, "strtoull") == 0) printf("lcs %016llx", (unsigned long long)strtoull(t, 0, 10));
      else printf("bad-op");
      free(t);
    }
    else if(hxIs(l, "lcf", 3) && strlen(l.tok[2]) == 16 && allDigits(l.tok[3]) && hxNum(l, 3) <= 64)
    {
      uint64_t v;
      if(!hexU64(l.tok[2], 16, v)) { printf("bad-op"); hxEndLine(); continue; }
      size_t cap = hxNum(l, 3);
      char* buf = (char*)malloc(cap ? cap : 1);      // exactly sized: ASan sees a store beyond cap
      memset(buf, 0x55, cap ? cap : 1);
      const char* c = l.tok[1];
      int r;
      if(strcmp(c, "d") == 0) r = snprintf(cap ? buf : 0, cap, "%d", (int)(uint32_t)v);
      else if(strcmp(c, "u") == 0) r = snprintf(cap ? buf : 0, cap, "%u", (unsigned)(uint32_t)v);
      else if(strcmp(c, "lld") == 0) r = snprintf(cap ? buf : 0, cap, "%lld", (long long)v);
      else if(strcmp(c, "llu") == 0) r = snprintf(cap ? buf : 0, cap, "%llu", (unsigned long long)v);
      else { free(buf); printf("bad-op"); hxEndLine(); continue; }
      printf("lcf ");
      hxPutHex(buf, cap ? strlen(buf) : 0);
      printf(" %d", r);
      free(buf);
    }
    else if(hxIs(l, "cls", 1) && allDigits(l.tok[1]) && hxNum(l, 1) < 256)
    {
      char c = (char)(unsigned char)hxNum(l, 1);
      printf("cls %d%d%d%d%d%d%d%d%d %u %u", (int)String::isSpace(c), (int)String::isAlphanumeric(c), (int)String::isAlpha(c),
             (int)String::isDigit(c), (int)String::isLowerCase(c), (int)String::isPrint(c), (int)String::isPunct(c),
             (int)String::isUpperCase(c), (int)String::isHexDigit(c),
             (unsigned)(unsigned char)String::toLowerCase(c), (unsigned)(unsigned char)String::toUpperCase(c));
    }
    else printf("bad-op");
    hxEndLine();
  }
  return 0;
}
