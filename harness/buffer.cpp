// Line-protocol harness for Buffer (property C08).  Executes the op lines of
// lean/Nstd/Buffer/Driver.lean on the real include/nstd/Buffer.hpp.
#include "common/hx.h"
#define private public
#include <nstd/Buffer.hpp>
#undef private

// fresh allocations are poisoned so that "unspecified" bytes are recognisable and a
// missing terminator cannot be hidden by a lucky zero
static long liveBlocks = 0;   // `new char[]` blocks of Buffer not yet `delete[]`d (compared with the model's ledger)
void* operator new[](usize size)
{
  void* p = malloc(size ? size : 1);
  memset(p, 0xAA, size);
  ++liveBlocks;
  return p;
}
void operator delete[](void* p) { if(p) --liveBlocks; free(p); }
void* operator new(usize size) { return malloc(size ? size : 1); }
void operator delete(void* p) { free(p); }

static const int NV = 2;
static const size_t REGLEN[2] = {8, 5};
static const unsigned char REGBASE[2] = {0x10, 0x20};
static const size_t GUARD = 8;

static unsigned char* reg[2];   // each malloc'ed: GUARD | data | GUARD   (ASan redzones follow)

// Every attached range is handed to Buffer as an exactly sized heap copy of the region bytes, so that
// ASan reports any access outside the *attached range* (not merely outside the region); the copy is
// compared with its source after every op (a store into attached memory = FAULT) and lives until `reset`.
struct Att { unsigned char* block; unsigned char* ptr; size_t len; int r; size_t off; };
static Att* atts = 0;
static size_t natt = 0, capatt = 0;

static unsigned char* attachCopy(int r, size_t off, size_t len)
{
  if(natt == capatt)
  {
    capatt = capatt ? capatt * 2 : 64;
    atts = (Att*)realloc(atts, capatt * sizeof(Att));
  }
  Att& a = atts[natt++];
  a.block = (unsigned char*)malloc(len ? len : 1);
  a.ptr = len ? a.block : a.block + 1;   // empty range: one-past pointer, every access is out of bounds
  a.len = len; a.r = r; a.off = off;
  memcpy(a.ptr, reg[r] + GUARD + off, len);
  return a.ptr;
}

static void freeAttached()
{
  for(size_t i = 0; i < natt; ++i) free(atts[i].block);
  natt = 0;
}

static bool attachedIntact()
{
  for(size_t i = 0; i < natt; ++i)
    if(memcmp(atts[i].ptr, reg[atts[i].r] + GUARD + atts[i].off, atts[i].len) != 0)
      return false;
  return true;
}
alignas(Buffer) static unsigned char storage[NV][sizeof(Buffer)];
static Buffer* var[NV];

static void resetAll()
{
  for(int i = 0; i < NV; ++i)
  {
    if(var[i]) var[i]->~Buffer();
    var[i] = new(storage[i]) Buffer;
  }
  liveBlocks = 0;   // histories are independent: a block leaked by an earlier history is reported there (and by LSan)
  freeAttached();
  for(int r = 0; r < 2; ++r)
  {
    free(reg[r]);
    reg[r] = (unsigned char*)malloc(REGLEN[r] + 2 * GUARD);
    memset(reg[r], 0xEE, REGLEN[r] + 2 * GUARD);
    for(size_t i = 0; i < REGLEN[r]; ++i)
      reg[r][GUARD + i] = (unsigned char)(REGBASE[r] + i);
  }
}

static bool guardsIntact()
{
  for(int r = 0; r < 2; ++r)
    for(size_t i = 0; i < GUARD; ++i)
      if(reg[r][i] != 0xEE || reg[r][GUARD + REGLEN[r] + i] != 0xEE)
        return false;
  return true;
}

// set by the raw-pointer ops: the argument range relative to bufferStart as it was before the op
static bool rawSet = false;
static unsigned long rawBack = 0, rawFwd = 0, rawLen = 0;

static void observe()
{
  if(!guardsIntact())
  {
    printf("FAULT guard");
    hxEndLine();
    return;
  }
  if(!attachedIntact())
  {
    printf("FAULT attached-write");
    hxEndLine();
    return;
  }
  for(int i = 0; i < NV; ++i)
  {
    Buffer& b = *var[i];
    if(i) printf(" | ");
    printf("%lu ", (unsigned long)b.size());
    hxPutHex((const byte*)b, b.size());
    if(b.buffer)
    {
      printf(" 1 ");
      hxPutHex((const byte*)b + b.size(), 1);
    }
    else
      printf(" 0 -");
  }
  printf(" # ");
  for(int r = 0; r < 2; ++r)
  {
    if(r) printf(" ");
    hxPutHex(reg[r] + GUARD, REGLEN[r]);
  }
  // the capacities: handed to the model as the capacity policy of the operation (model: max(needed, reported))
  printf(" @");
  for(int i = 0; i < NV; ++i)
    printf(" %lu", (unsigned long)var[i]->capacity());
  if(rawSet)
    printf(" ~ %lu %lu %lu", rawBack, rawFwd, rawLen);
  rawSet = false;
  hxEndLine();
}

int main()
{
  HxLine l;
  resetAll();
  while(hxRead(l))
  {
    size_t len = 0;
    unsigned char* d = 0;
    int v = l.ntok > 1 ? (int)hxNum(l, 1) : 0;
    int w = l.ntok > 2 ? (int)hxNum(l, 2) : 0;
    if(hxIs(l, "reset", 0)) resetAll();
    else if(v >= NV) { printf("bad-op"); hxEndLine(); continue; }
    else if(hxIs(l, "new", 1)) { var[v]->~Buffer(); new(storage[v]) Buffer; }
    else if(hxIs(l, "newcap", 2)) { var[v]->~Buffer(); new(storage[v]) Buffer((usize)hxNum(l, 2)); }
    else if(hxIs(l, "newdata", 2)) { d = hxBytes(l.tok[2], len); var[v]->~Buffer(); new(storage[v]) Buffer(d, len); }
    else if(hxIs(l, "copy", 2))
    {
      if(v != w) { var[v]->~Buffer(); new(storage[v]) Buffer(*var[w]); }
    }
    else if(hxIs(l, "attach", 4))
    {
      unsigned long r = hxNum(l, 2), off = hxNum(l, 3), n = hxNum(l, 4);
      if(r >= 2 || off + n > REGLEN[r]) { printf("bad-op"); hxEndLine(); continue; }
      var[v]->attach(attachCopy((int)r, off, n), n);
    }
    else if(hxIs(l, "assignb", 2)) *var[v] = *var[w];
    else if(hxIs(l, "assign", 2)) { d = hxBytes(l.tok[2], len); var[v]->assign(d, len); }
    else if(hxIs(l, "prepend", 2)) { d = hxBytes(l.tok[2], len); var[v]->prepend(d, len); }
    else if(hxIs(l, "prependb", 2)) var[v]->prepend(*var[w]);
    else if(hxIs(l, "prependsub", 3))
    {
      // a sub-range of the buffer's own window as (pointer, size) argument; clamped to the window
      usize size = var[v]->size(), off = hxNum(l, 2), n = hxNum(l, 3);
      if(off > size) off = size;
      if(n > size - off) n = size - off;
      var[v]->prepend((const byte*)*var[v] + off, n);
    }
    else if(hxIs(l, "appendsub", 3) || hxIs(l, "assignsub", 3))
    {
      // a sub-range of the buffer's own window as (pointer, size) argument; clamped to the window
      usize size = var[v]->size(), off = hxNum(l, 2), n = hxNum(l, 3);
      if(off > size) off = size;
      if(n > size - off) n = size - off;
      if(l.tok[0][1] == 'p') var[v]->append((const byte*)*var[v] + off, n);
      else var[v]->assign((const byte*)*var[v] + off, n);
    }
    else if(hxIs(l, "prependraw", 3) || hxIs(l, "appendraw", 3) || hxIs(l, "assignraw", 3))
    {
      // a (pointer, size) argument anywhere in the buffer's own allocation [buffer, buffer + _capacity + 1): head-room,
      // exposed bytes, terminator, spare capacity; given by its offset from `buffer` and clamped to the allocation
      // (a non-owning buffer: offset from bufferStart, clamped to the exposed bytes).  The observation ends in
      // ` ~ back fwd len`: data = bufferStart + fwd - back as it was before the op.
      Buffer& b = *var[v];
      usize off = hxNum(l, 2), n = hxNum(l, 3);
      const byte* base = b.buffer ? b.buffer : b.bufferStart;
      usize blockLen = b.buffer ? b._capacity + 1 : (usize)(b.bufferEnd - b.bufferStart);
      usize s = b.buffer ? (usize)(b.bufferStart - b.buffer) : 0;
      if(off > blockLen) off = blockLen;
      if(n > blockLen - off) n = blockLen - off;
      rawBack = off < s ? s - off : 0; rawFwd = off > s ? off - s : 0; rawLen = n; rawSet = true;
      if(l.tok[0][0] == 'p') b.prepend(base + off, n);
      else if(l.tok[0][1] == 'p') b.append(base + off, n);
      else b.assign(base + off, n);
    }
    else if(hxIs(l, "append", 2)) { d = hxBytes(l.tok[2], len); var[v]->append(d, len); }
    else if(hxIs(l, "appendb", 2)) var[v]->append(*var[w]);
    else if(hxIs(l, "resize", 2)) var[v]->resize(hxNum(l, 2));
    else if(hxIs(l, "removeFront", 2)) var[v]->removeFront(hxNum(l, 2));
    else if(hxIs(l, "removeBack", 2)) var[v]->removeBack(hxNum(l, 2));
    else if(hxIs(l, "reserve", 2)) var[v]->reserve(hxNum(l, 2));
    else if(hxIs(l, "clear", 1)) var[v]->clear();
    else if(hxIs(l, "swap", 2)) var[v]->swap(*var[w]);
    else if(hxIs(l, "free", 1)) var[v]->free();
    else if(hxIs(l, "eq", 2))
    {
      bool e = *var[v] == *var[w], n = *var[v] != *var[w];
      printf(e == !n ? "eq %d" : "eq-inconsistent %d", (int)e);
      hxEndLine();
      continue;
    }
    else if(hxIs(l, "heap", 0))
    {
      printf("heap %ld", liveBlocks);
      hxEndLine();
      continue;
    }
    else if(hxIs(l, "state", 1))
    {
      Buffer& b = *var[v];
      // white-box: the raw `_capacity` field (not capacity()), head-room, where the pointers point; then the
      // observers isEmpty() and capacity() as the public interface reports them
      if(b.buffer)
        printf("state %lu %lu %lu own", (unsigned long)(b.bufferEnd - b.bufferStart), (unsigned long)b._capacity, (unsigned long)(b.bufferStart - b.buffer));
      else
      {
        const unsigned char* p = (const unsigned char*)b.bufferStart;
        const char* kind = b.bufferStart == (byte*)&b._capacity ? "dflt"
          : (p >= &storage[0][0] && p < &storage[0][0] + sizeof(storage)) ? "stale" : "att";
        printf("state %lu %lu - %s", (unsigned long)(b.bufferEnd - b.bufferStart), (unsigned long)b._capacity, kind);
      }
      printf(" size=%lu empty=%d capacity=%lu", (unsigned long)b.size(), (int)b.isEmpty(), (unsigned long)((const Buffer&)b).capacity());
      hxEndLine();
      continue;
    }
    else { printf("bad-op"); hxEndLine(); continue; }
    free(d);
    observe();
  }
  for(int i = 0; i < NV; ++i) var[i]->~Buffer();
  freeAttached();
  free(atts);
  for(int r = 0; r < 2; ++r) free(reg[r]);
  return 0;
}
