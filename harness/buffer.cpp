// Line-protocol harness for Buffer (property C08).  Executes the op lines of
// lean/Nstd/Buffer/Driver.lean on the real include/nstd/Buffer.hpp.
#include "common/hx.h"
#define private public
#include <nstd/Buffer.hpp>
#undef private

// fresh allocations are poisoned so that "unspecified" bytes are recognisable and a
// missing terminator cannot be hidden by a lucky zero
void* operator new[](usize size)
{
  void* p = malloc(size ? size : 1);
  memset(p, 0xAA, size);
  return p;
}
void operator delete[](void* p) { free(p); }
void* operator new(usize size) { return operator new[](size); }
void operator delete(void* p) { free(p); }

static const int NV = 2;
static const size_t REGLEN[2] = {8, 5};
static const unsigned char REGBASE[2] = {0x10, 0x20};
static const size_t GUARD = 8;

static unsigned char* reg[2];   // each malloc'ed: GUARD | data | GUARD   (ASan redzones follow)
alignas(Buffer) static unsigned char storage[NV][sizeof(Buffer)];
static Buffer* var[NV];

static void resetAll()
{
  for(int i = 0; i < NV; ++i)
  {
    if(var[i]) var[i]->~Buffer();
    var[i] = new(storage[i]) Buffer;
  }
  for(int r = 0; r < 2; ++r)
  {
    free(reg[r]);
    reg[r] = (unsigned char*)malloc(REGLEN[r] + 2 * GUARD);
    memset(reg[r], 0xEE, REGLEN[r] + 2 * GUARD);
    for(size_t i = 0; i < REGLEN[r]; ++i)
      reg[r][GUARD + i] = (unsigned char)(REGBASE[r] + i);
  }
}

static bool guardsIntact()
{
  for(int r = 0; r < 2; ++r)
    for(size_t i = 0; i < GUARD; ++i)
      if(reg[r][i] != 0xEE || reg[r][GUARD + REGLEN[r] + i] != 0xEE)
        return false;
  return true;
}

static void observe()
{
  if(!guardsIntact())
  {
    printf("FAULT guard");
    hxEndLine();
    return;
  }
  for(int i = 0; i < NV; ++i)
  {
    Buffer& b = *var[i];
    if(i) printf(" | ");
    printf("%lu ", (unsigned long)b.size());
    hxPutHex((const byte*)b, b.size());
    if(b.buffer)
    {
      printf(" 1 ");
      hxPutHex((const byte*)b + b.size(), 1);
    }
    else
      printf(" 0 -");
  }
  printf(" # ");
  for(int r = 0; r < 2; ++r)
  {
    if(r) printf(" ");
    hxPutHex(reg[r] + GUARD, REGLEN[r]);
  }
  hxEndLine();
}

int main()
{
  HxLine l;
  resetAll();
  while(hxRead(l))
  {
    size_t len = 0;
    unsigned char* d = 0;
    int v = l.ntok > 1 ? (int)hxNum(l, 1) : 0;
    int w = l.ntok > 2 ? (int)hxNum(l, 2) : 0;
    if(hxIs(l, "reset", 0)) resetAll();
    else if(v >= NV) { printf("bad-op"); hxEndLine(); continue; }
    else if(hxIs(l, "new", 1)) { var[v]->~Buffer(); new(storage[v]) Buffer; }
    else if(hxIs(l, "newcap", 2)) { var[v]->~Buffer(); new(storage[v]) Buffer((usize)hxNum(l, 2)); }
    else if(hxIs(l, "newdata", 2)) { d = hxBytes(l.tok[2], len); var[v]->~Buffer(); new(storage[v]) Buffer(d, len); }
    else if(hxIs(l, "copy", 2))
    {
      if(v != w) { var[v]->~Buffer(); new(storage[v]) Buffer(*var[w]); }
    }
    else if(hxIs(l, "attach", 4)) var[v]->attach(reg[hxNum(l, 2)] + GUARD + hxNum(l, 3), hxNum(l, 4));
    else if(hxIs(l, "assignb", 2)) *var[v] = *var[w];
    else if(hxIs(l, "assign", 2)) { d = hxBytes(l.tok[2], len); var[v]->assign(d, len); }
    else if(hxIs(l, "prepend", 2)) { d = hxBytes(l.tok[2], len); var[v]->prepend(d, len); }
    else if(hxIs(l, "prependb", 2)) var[v]->prepend(*var[w]);
    else if(hxIs(l, "append", 2)) { d = hxBytes(l.tok[2], len); var[v]->append(d, len); }
    else if(hxIs(l, "appendb", 2)) var[v]->append(*var[w]);
    else if(hxIs(l, "resize", 2)) var[v]->resize(hxNum(l, 2));
    else if(hxIs(l, "removeFront", 2)) var[v]->removeFront(hxNum(l, 2));
    else if(hxIs(l, "removeBack", 2)) var[v]->removeBack(hxNum(l, 2));
    else if(hxIs(l, "reserve", 2)) var[v]->reserve(hxNum(l, 2));
    else if(hxIs(l, "clear", 1)) var[v]->clear();
    else if(hxIs(l, "swap", 2)) var[v]->swap(*var[w]);
    else if(hxIs(l, "free", 1)) var[v]->free();
    else if(hxIs(l, "eq", 2))
    {
      bool e = *var[v] == *var[w], n = *var[v] != *var[w];
      printf(e == !n ? "eq %d" : "eq-inconsistent %d", (int)e);
      hxEndLine();
      continue;
    }
    else { printf("bad-op"); hxEndLine(); continue; }
    free(d);
    observe();
  }
  return 0;
}
