// libc interposition for the Server harness (properties C13, C14).
// The functions below are defined in the harness executable, so every call made by the
// libnstd sources compiled into it (Socket.cpp, Time.cpp, Server.cpp) lands here; the real
// system call is made through syscall(2).
//   send          scripted outcome per call (would-block, error, byte count) + log
//   epoll_ctl     records the event mask registered per descriptor (= the poll interest)
//   epoll_wait    never sleeps: hands the call to the active dialect (ipWaitHook)
//   clock_gettime CLOCK_MONOTONIC reads the virtual clock when enabled
#pragma once
#include <poll.h>
#include <errno.h>
#include <stdio.h>
#include <stdlib.h>
#include <string.h>
#include <time.h>
#include <unistd.h>
#include <sys/epoll.h>
#include <sys/socket.h>
#include <sys/syscall.h>

enum { IP_PASS = 0, IP_WB = 1, IP_ERR = 2, IP_CNT = 3, IP_HALF = 4, IP_ALL = 5 };
struct IpOutcome { int kind; unsigned long k; };

static bool ipSendScripted = false;      // false: pass through
static IpOutcome ipSendQueue[64];
static int ipSendQueueLen = 0, ipSendQueuePos = 0;
static bool ipSendHaveDefault = false;   // outcome used when the queue is exhausted
static IpOutcome ipSendDefault = { IP_ALL, 0 };
static char ipSendLog[4096];
static size_t ipSendLogLen = 0;
static bool ipEnvFail = false;           // the kernel did not behave as the script assumes
static const char* ipEnvFailWhy = "";
static unsigned long ipFaultWb = 0, ipFaultErr = 0, ipFaultPartial = 0, ipFaultFull = 0;

static inline void ipFail(const char* why) { ipEnvFail = true; ipEnvFailWhy = why; }

static inline bool ipParseOutcome(const char* t, IpOutcome& o)
{
  o.k = 0;
  if(!strcmp(t, "wb")) { o.kind = IP_WB; return true; }
  if(!strcmp(t, "err")) { o.kind = IP_ERR; return true; }
  if(!strcmp(t, "all")) { o.kind = IP_ALL; return true; }
  if(!strcmp(t, "half")) { o.kind = IP_HALF; return true; }
  if(!*t) return false;
  for(const char* p = t; *p; ++p) if(*p < '0' || *p > '9') return false;
  o.kind = IP_CNT; o.k = strtoul(t, 0, 10);
  return true;
}

static inline void ipSendLogAdd(size_t n, const char* res, long k)
{
  if(ipSendLogLen + 48 > sizeof(ipSendLog)) return;
  if(ipSendLogLen) ipSendLog[ipSendLogLen++] = ',';
  if(res) ipSendLogLen += (size_t)snprintf(ipSendLog + ipSendLogLen, 40, "%zu>%s", n, res);
  else ipSendLogLen += (size_t)snprintf(ipSendLog + ipSendLogLen, 40, "%zu>%ld", n, k);
}

static inline const char* ipSendLogTake()
{
  if(!ipSendLogLen) return "-";
  ipSendLog[ipSendLogLen] = 0;
  ipSendLogLen = 0;
  return ipSendLog;
}

extern "C" ssize_t send(int fd, const void* buf, size_t n, int flags)
{
  if(!ipSendScripted)
    return syscall(SYS_sendto, fd, buf, n, flags, 0, 0);
  IpOutcome o;
  if(ipSendQueuePos < ipSendQueueLen) o = ipSendQueue[ipSendQueuePos++];
  else if(ipSendHaveDefault) o = ipSendDefault;
  else { ipFail("send without scripted outcome"); o.kind = IP_ALL; o.k = 0; }
  size_t k = n;
  switch(o.kind)
  {
  case IP_WB: ++ipFaultWb; ipSendLogAdd(n, "wb", 0); errno = EAGAIN; return -1;
  case IP_ERR: ++ipFaultErr; ipSendLogAdd(n, "err", 0); errno = ECONNRESET; return -1;
  case IP_CNT: k = o.k < n ? o.k : n; break;
  case IP_HALF: k = n <= 1 ? n : n / 2; break;
  default: k = n; break;
  }
  ssize_t r = syscall(SYS_sendto, fd, buf, k, flags, 0, 0);
  if(r < 0 && errno != EAGAIN && errno != EWOULDBLOCK)
  { // the kernel itself refuses (peer gone): an error outcome
    ++ipFaultErr; ipSendLogAdd(n, "err", 0); return -1;
  }
  if(k < n) ++ipFaultPartial; else ++ipFaultFull;
  if(r != (ssize_t)k) ipFail("kernel send accepted fewer bytes than scripted");
  ipSendLogAdd(n, 0, (long)r);
  return r;
}

// ---- epoll_ctl: interest per descriptor ---------------------------------------------------
enum { IP_MAXFD = 4096 };
static bool ipFailAccept[IP_MAXFD];  // the next accept4() on this descriptor fails (readiness was spurious / the peer aborted)
static int ipMask[IP_MAXFD];      // -1 = not registered, else the epoll event mask
static void* ipPtr[IP_MAXFD];     // the data.ptr registered with the descriptor
static int ipLastAddFd = -1;      // descriptor of the most recent EPOLL_CTL_ADD
static bool ipMaskInit = false;

static inline void ipMaskReset()
{
  for(int i = 0; i < IP_MAXFD; ++i) { ipMask[i] = -1; ipPtr[i] = 0; ipFailAccept[i] = false; }
  ipMaskInit = true;
}

extern "C" int epoll_ctl(int epfd, int op, int fd, struct epoll_event* ev)
{
  if(!ipMaskInit) ipMaskReset();
  int r = (int)syscall(SYS_epoll_ctl, epfd, op, fd, ev);
  if(r == 0 && fd >= 0 && fd < IP_MAXFD)
  {
    if(op == EPOLL_CTL_DEL || op == EPOLL_CTL_ADD) ipFailAccept[fd] = false;
    if(op == EPOLL_CTL_DEL) { ipMask[fd] = -1; ipPtr[fd] = 0; }
    else
    {
      ipMask[fd] = (int)ev->events;
      ipPtr[fd] = ev->data.ptr;
      if(op == EPOLL_CTL_ADD) ipLastAddFd = fd;
    }
  }
  return r;
}

static inline const char* ipInterest(int fd)
{
  if(!ipMaskInit) ipMaskReset();
  if(fd < 0 || fd >= IP_MAXFD || ipMask[fd] < 0) return "none";
  bool r = (ipMask[fd] & EPOLLIN) != 0, w = (ipMask[fd] & EPOLLOUT) != 0;
  return r ? (w ? "rw" : "r") : (w ? "w" : "-");
}

static inline const char* ipInterestIO(int fd)
{
  if(!ipMaskInit) ipMaskReset();
  if(fd < 0 || fd >= IP_MAXFD || ipMask[fd] < 0) return "none";
  bool r = (ipMask[fd] & EPOLLIN) != 0, w = (ipMask[fd] & EPOLLOUT) != 0;
  return r ? (w ? "io" : "i") : (w ? "o" : "-");
}

// ---- epoll_wait ---------------------------------------------------------------------------
static inline int ipRealEpollWait(int fd, struct epoll_event* ev, int max, int timeout)
{
  return (int)syscall(SYS_epoll_wait, fd, ev, max, timeout);
}

typedef int (*IpWaitHook)(int fd, struct epoll_event* ev, int max, int timeout);
static IpWaitHook ipWaitHook = 0;

extern "C" int epoll_wait(int fd, struct epoll_event* ev, int max, int timeout)
{
  if(ipWaitHook) return ipWaitHook(fd, ev, max, timeout);
  return ipRealEpollWait(fd, ev, max, timeout);
}

// ---- socket / socketpair / accept4: scripted failures ------------------------------------------
static bool ipFailNextSocket = false;   // the next socket() / socketpair() of the library fails (EMFILE)
static unsigned long ipFaultSocket = 0, ipFaultAccept = 0;

extern "C" int socket(int domain, int type, int protocol)
{
  if(ipFailNextSocket) { ipFailNextSocket = false; ++ipFaultSocket; errno = EMFILE; return -1; }
  return (int)syscall(SYS_socket, domain, type, protocol);
}

extern "C" int socketpair(int domain, int type, int protocol, int sv[2])
{
  if(ipFailNextSocket) { ipFailNextSocket = false; ++ipFaultSocket; errno = EMFILE; return -1; }
  return (int)syscall(SYS_socketpair, domain, type, protocol, sv);
}

extern "C" int accept4(int fd, struct sockaddr* addr, socklen_t* len, int flags)
{
  if(fd >= 0 && fd < IP_MAXFD && ipFailAccept[fd])
  { // fails only while the accept queue is still empty (a connection dialled in the meantime is accepted)
    ipFailAccept[fd] = false;
    struct pollfd p; p.fd = fd; p.events = POLLIN; p.revents = 0;
    if((int)syscall(SYS_poll, &p, 1, 0) <= 0) { ++ipFaultAccept; errno = ECONNABORTED; return -1; }
  }
  return (int)syscall(SYS_accept4, fd, addr, len, flags);
}

// ---- bind / listen / connect / setsockopt: scripted failures ------------------------------------------------
static bool ipFailNextBind = false, ipFailNextListen = false, ipFailNextConnect = false, ipFailNextSockopt = false;
static int ipFailOptFd[16];          // descriptors whose next socket option (not SO_REUSEADDR) cannot be applied
static int ipNFailOpt = 0;
static unsigned long ipFaultBind = 0, ipFaultListen = 0, ipFaultConnect = 0, ipFaultSockopt = 0;

extern "C" int bind(int fd, const struct sockaddr* addr, socklen_t len)
{
  if(ipFailNextBind) { ipFailNextBind = false; ++ipFaultBind; errno = EADDRINUSE; return -1; }
  return (int)syscall(SYS_bind, fd, addr, len);
}

extern "C" int listen(int fd, int backlog)
{
  if(ipFailNextListen) { ipFailNextListen = false; ++ipFaultListen; errno = EADDRINUSE; return -1; }
  return (int)syscall(SYS_listen, fd, backlog);
}

extern "C" int connect(int fd, const struct sockaddr* addr, socklen_t len)
{
  if(ipFailNextConnect) { ipFailNextConnect = false; ++ipFaultConnect; errno = ENETUNREACH; return -1; }
  return (int)syscall(SYS_connect, fd, addr, len);
}

extern "C" int setsockopt(int fd, int level, int optname, const void* optval, socklen_t optlen)
{
  if(!(level == SOL_SOCKET && optname == SO_REUSEADDR))
  {
    if(ipFailNextSockopt) { ipFailNextSockopt = false; ++ipFaultSockopt; errno = ENOPROTOOPT; return -1; }
    for(int i = 0; i < ipNFailOpt; ++i)
      if(ipFailOptFd[i] == fd)
      {
        ipFailOptFd[i] = ipFailOptFd[--ipNFailOpt];
        ++ipFaultSockopt; errno = ENOPROTOOPT; return -1;
      }
  }
  return (int)syscall(SYS_setsockopt, fd, level, optname, optval, optlen);
}

// ---- getsockopt(SO_ERROR): scripted connect failure --------------------------------------------
static int ipFailConnectFd[16];
static int ipNFailConnect = 0;

extern "C" int getsockopt(int fd, int level, int optname, void* optval, socklen_t* optlen)
{
  if(level == SOL_SOCKET && optname == SO_ERROR)
    for(int i = 0; i < ipNFailConnect; ++i)
      if(ipFailConnectFd[i] == fd)
      {
        ipFailConnectFd[i] = ipFailConnectFd[--ipNFailConnect];
        *(int*)optval = ECONNREFUSED;
        *optlen = sizeof(int);
        return 0;
      }
  return (int)syscall(SYS_getsockopt, fd, level, optname, optval, optlen);
}

// ---- virtual clock ------------------------------------------------------------------------
static bool ipVirtualClock = false;
static long long ipNow = 1000;      // virtual milliseconds

extern "C" int clock_gettime(clockid_t id, struct timespec* ts)
{
  if(ipVirtualClock && id == CLOCK_MONOTONIC)
  {
    ts->tv_sec = ipNow / 1000;
    ts->tv_nsec = (ipNow % 1000) * 1000000;
    return 0;
  }
  return (int)syscall(SYS_clock_gettime, id, ts);
}
