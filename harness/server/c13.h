// C13 dialect: one Server client on a socket pair, scripted send() outcomes.
// Mirrors lean/Nstd/Server/Driver.lean (namespace C13).
#pragma once

static Server* c13Srv = 0;
static Server::Client* c13Cl = 0;
static Socket* c13Other = 0;
static int c13Fd = -1;
static bool c13Dead = false;
static char c13CbLog[256];
static int c13CbLen = 0;
static int c13WaitCalls = 0;
static int c13Sel = 0;

struct C13Cb : public Server::Client::ICallback
{
  void log(char c) { if(c13CbLen < 250) c13CbLog[c13CbLen++] = c; }
  virtual void onRead() { log('R'); }
  virtual void onWrite() { log('W'); }
  virtual void onClosed()
  {
    log('C');
    c13Srv->remove(*c13Cl);
    c13Dead = true;
  }
};
static C13Cb c13Cb;

static int c13Wait(int fd, struct epoll_event* ev, int max, int)
{
  ++c13WaitCalls;
  if(c13WaitCalls > 16) { fprintf(stderr, "c13: run() does not return\n"); _exit(3); }
  if(c13WaitCalls == 1)
  {
    struct epoll_event tmp[64];
    int n = ipRealEpollWait(fd, tmp, 64, 0), m = 0;
    bool sawOut = false;
    for(int i = 0; i < n && m < max; ++i)
    {
      if(tmp[i].data.ptr == 0) continue;
      uint32_t mask = tmp[i].events, keep = 0;
      if(mask & EPOLLOUT) sawOut = true;
      if(mask & (EPOLLHUP | EPOLLRDHUP | EPOLLERR)) ipFail("unexpected hang-up on the socket pair");
      if(c13Sel & 1) keep |= mask & EPOLLIN;
      if(c13Sel & 2) keep |= mask & EPOLLOUT;
      if(!keep) continue;
      ev[m] = tmp[i];
      ev[m].events = keep;
      ++m;
    }
    if(!c13Dead && c13Fd >= 0 && ipMask[c13Fd] >= 0 && (ipMask[c13Fd] & EPOLLOUT) && !sawOut)
      ipFail("kernel does not report the socket writable");
    return m;
  }
  // second call of this round: make run() return
  c13Srv->interrupt();
  struct epoll_event tmp[64];
  int n = ipRealEpollWait(fd, tmp, 64, 0), m = 0;
  for(int i = 0; i < n && m < max; ++i)
    if(tmp[i].data.ptr == 0) ev[m++] = tmp[i];
  if(m == 0) ipFail("event descriptor not reported after interrupt");
  return m;
}

static void c13Teardown()
{
  ipWaitHook = 0;
  ipSendScripted = false;
  delete c13Srv;     // destroys remaining clients
  c13Srv = 0;
  c13Cl = 0;
  delete c13Other;
  c13Other = 0;
  c13Fd = -1;
  c13Dead = false;
  c13CbLen = 0;
}

static bool c13Setup()
{
  c13Srv = new Server;
  c13Other = new Socket;
  c13Cl = c13Srv->pair(c13Cb, *c13Other);
  if(!c13Cl) return false;
  c13Fd = c13Cl->getSocket().s;
  return true;
}

static void c13Observe(const char* res)
{
  if(ipEnvFail)
  {
    printf("ENV-FAIL %s", ipEnvFailWhy);
    ipEnvFail = false;
    hxEndLine();
    return;
  }
  c13CbLog[c13CbLen] = 0;
  printf("%s sb=%zu su=%d in=%s cb=%s tx=%s", res, c13Dead ? (size_t)0 : (size_t)c13Cl->getSendBufferSize(),
         c13Dead ? 0 : (int)c13Cl->isSuspended(), ipInterest(c13Fd), c13CbLen ? c13CbLog : "-", ipSendLogTake());
  c13CbLen = 0;
  hxEndLine();
}

static void c13Dead_() { printf("dead"); hxEndLine(); }

// returns false when the line is not a C13 op
static bool c13Op(HxLine& l)
{
  const char* op = l.tok[0];
  bool known = !strcmp(op, "write") || !strcmp(op, "ready") || !strcmp(op, "read") || !strcmp(op, "peersend") ||
               !strcmp(op, "peerread") || !strcmp(op, "suspend") || !strcmp(op, "resume");
  if(!known) return false;
  if(!c13Srv && !c13Setup()) { printf("ENV-FAIL pair"); hxEndLine(); return true; }
  ipVirtualClock = true;
  char res[1 << 12];
  if(hxIs(l, "write", 2))
  {
    IpOutcome o;
    if(!ipParseOutcome(l.tok[2], o) || (strcmp(l.tok[1], "-") && (strlen(l.tok[1]) % 2))) { printf("bad-op"); hxEndLine(); return true; }
    if(c13Dead) { c13Dead_(); return true; }
    size_t len;
    unsigned char* d = hxBytes(l.tok[1], len);
    ipSendScripted = true; ipSendQueue[0] = o; ipSendQueueLen = 1; ipSendQueuePos = 0;
    usize postponed = 77777;
    bool r = c13Cl->write(d, len, &postponed);
    ipSendScripted = false;
    free(d);
    snprintf(res, sizeof(res), "w%d %zu", (int)r, (size_t)postponed);
    c13Observe(res);
    return true;
  }
  if(hxIs(l, "ready", 2))
  {
    IpOutcome o;
    int sel = !strcmp(l.tok[1], "none") ? 0 : !strcmp(l.tok[1], "r") ? 1 : !strcmp(l.tok[1], "w") ? 2 : !strcmp(l.tok[1], "rw") ? 3 : -1;
    if(sel < 0 || !ipParseOutcome(l.tok[2], o)) { printf("bad-op"); hxEndLine(); return true; }
    if(!c13Dead || true)
    {
      ipSendScripted = true; ipSendQueue[0] = o; ipSendQueueLen = 1; ipSendQueuePos = 0;
      c13Sel = sel; c13WaitCalls = 0; ipWaitHook = c13Wait;
      c13Srv->run();
      ipWaitHook = 0; ipSendScripted = false;
    }
    c13Observe("ok");
    return true;
  }
  if(hxIs(l, "read", 1))
  {
    size_t max = hxNum(l, 1);
    if(max == 0 || max > 4000) { printf("bad-op"); hxEndLine(); return true; }
    if(c13Dead) { c13Dead_(); return true; }
    byte* buf = (byte*)malloc(max);
    usize size = 99999;
    bool r = c13Cl->read(buf, max, size);
    int n = snprintf(res, sizeof(res), "rd%d ", (int)r);
    if(size == 0) snprintf(res + n, sizeof(res) - n, "-");
    else for(size_t i = 0; i < size && n + 3 < (int)sizeof(res); ++i) n += snprintf(res + n, sizeof(res) - n, "%02x", buf[i]);
    free(buf);
    c13Observe(res);
    return true;
  }
  if(hxIs(l, "peersend", 1))
  {
    if(!strcmp(l.tok[1], "-") || (strlen(l.tok[1]) % 2)) { printf("bad-op"); hxEndLine(); return true; }
    if(c13Dead) { c13Dead_(); return true; }
    size_t len;
    unsigned char* d = hxBytes(l.tok[1], len);
    ssize_t r = syscall(SYS_sendto, c13Other->s, d, len, MSG_NOSIGNAL | MSG_DONTWAIT, 0, 0);
    if(r != (ssize_t)len) ipFail("peer could not send");
    free(d);
    c13Observe("ok");
    return true;
  }
  if(hxIs(l, "peerread", 0))
  {
    static unsigned char buf[1 << 15];
    size_t got = 0;
    for(;;)
    {
      ssize_t r = syscall(SYS_recvfrom, c13Other->s, buf + got, sizeof(buf) - got, MSG_DONTWAIT, 0, 0);
      if(r <= 0) break;
      got += (size_t)r;
      if(got == sizeof(buf)) break;
    }
    printf("got ");
    hxPutHex(buf, got);
    c13Observe("");
    return true;
  }
  if(hxIs(l, "suspend", 0) || hxIs(l, "resume", 0))
  {
    if(c13Dead) { c13Dead_(); return true; }
    if(op[0] == 's') c13Cl->suspend(); else c13Cl->resume();
    c13Observe("ok");
    return true;
  }
  printf("bad-op");
  hxEndLine();
  return true;
}
