// C13 dialect: one Server client on a socket pair, scripted send() outcomes.
// Mirrors lean/Nstd/Server/Driver.lean (namespace C13).
#pragma once

static Server* c13Srv = 0;
static Server::Client* c13Cl = 0;
static Socket* c13Other = 0;
static int c13Fd = -1;
static bool c13Dead = false;
static char c13CbLog[256];
static int c13CbLen = 0;
static int c13WaitCalls = 0;
static int c13Sel = 0;

// calls queued by `cb <op>` lines: executed INSIDE the next onRead / onWrite callback
static char c13Inner[8][700];
static int c13NInner = 0;
static void c13RunInner();

struct C13Cb : public Server::Client::ICallback
{
  void log(char c) { if(c13CbLen < 250) c13CbLog[c13CbLen++] = c; }
  virtual void onRead() { log('R'); c13RunInner(); }
  virtual void onWrite() { log('W'); c13RunInner(); }
  virtual void onClosed()
  {
    log('C');
    c13Srv->remove(*c13Cl);
    c13Dead = true;
  }
};
static C13Cb c13Cb;

static void c13LogStr(const char* t) { for(; *t; ++t) c13Cb.log(*t); }

static void c13RunInner()
{
  int n = c13NInner;
  c13NInner = 0;
  for(int i = 0; i < n; ++i)
  {
    char buf[700];
    strcpy(buf, c13Inner[i]);
    char* tok[3] = {0, 0, 0};
    int nt = 0;
    for(char* p = strtok(buf, " "); p && nt < 3; p = strtok(0, " ")) tok[nt++] = p;
    char r[64];
    if(!strcmp(tok[0], "write"))
    {
      IpOutcome o;
      ipParseOutcome(tok[2], o);
      size_t len;
      unsigned char* d = hxBytes(tok[1], len);
      ipSendScripted = true; ipSendQueue[0] = o; ipSendQueueLen = 1; ipSendQueuePos = 0;
      usize postponed = 77777;
      bool ok = c13Cl->write(d, len, &postponed);
      free(d);
      snprintf(r, sizeof(r), "(w%d.%zu)", (int)ok, (size_t)postponed);
    }
    else if(!strcmp(tok[0], "read"))
    {
      size_t max = (size_t)strtoul(tok[1], 0, 10);
      byte* b = (byte*)malloc(max);
      usize size = 99999;
      bool ok = c13Cl->read(b, max, size);
      free(b);
      snprintf(r, sizeof(r), "(rd%d.%zu)", (int)ok, (size_t)size);
    }
    else if(!strcmp(tok[0], "suspend")) { c13Cl->suspend(); snprintf(r, sizeof(r), "(s)"); }
    else { c13Cl->resume(); snprintf(r, sizeof(r), "(u)"); }
    c13LogStr(r);
  }
}

static int c13Wait(int fd, struct epoll_event* ev, int max, int)
{
  ++c13WaitCalls;
  if(c13WaitCalls > 16) { fprintf(stderr, "c13: run() does not return\n"); _exit(3); }
  if(c13WaitCalls == 1)
  {
    struct epoll_event tmp[64];
    int n = ipRealEpollWait(fd, tmp, 64, 0), m = 0;
    bool sawOut = false;
    for(int i = 0; i < n && m < max; ++i)
    {
      if(tmp[i].data.ptr == 0) continue;
      uint32_t mask = tmp[i].events, keep = 0;
      if(mask & EPOLLOUT) sawOut = true;
      if(mask & (EPOLLHUP | EPOLLRDHUP | EPOLLERR)) ipFail("unexpected hang-up on the socket pair");
      if(c13Sel & 1) keep |= mask & EPOLLIN;
      if(c13Sel & 2) keep |= mask & EPOLLOUT;
      if(!keep) continue;
      ev[m] = tmp[i];
      ev[m].events = keep;
      ++m;
    }
    if(!c13Dead && c13Fd >= 0 && ipMask[c13Fd] >= 0 && (ipMask[c13Fd] & EPOLLOUT) && !sawOut)
      ipFail("kernel does not report the socket writable");
    return m;
  }
  // second call of this round: make run() return
  c13Srv->interrupt();
  struct epoll_event tmp[64];
  int n = ipRealEpollWait(fd, tmp, 64, 0), m = 0;
  for(int i = 0; i < n && m < max; ++i)
    if(tmp[i].data.ptr == 0) ev[m++] = tmp[i];
  if(m == 0) ipFail("event descriptor not reported after interrupt");
  return m;
}

static void c13Teardown()
{
  ipWaitHook = 0;
  ipSendScripted = false;
  delete c13Srv;     // destroys remaining clients
  c13Srv = 0;
  c13Cl = 0;
  delete c13Other;
  c13Other = 0;
  c13Fd = -1;
  c13Dead = false;
  c13CbLen = 0;
  c13NInner = 0;
}

static bool c13Setup()
{
  c13Srv = new Server;
  c13Other = new Socket;
  c13Cl = c13Srv->pair(c13Cb, *c13Other);
  if(!c13Cl) return false;
  c13Fd = c13Cl->getSocket().s;
  return true;
}

static void c13Observe(const char* res)
{
  if(ipEnvFail)
  {
    printf("ENV-FAIL %s", ipEnvFailWhy);
    ipEnvFail = false;
    hxEndLine();
    return;
  }
  c13CbLog[c13CbLen] = 0;
  printf("%s sb=%zu su=%d in=%s cb=%s tx=%s", res, c13Dead ? (size_t)0 : (size_t)c13Cl->getSendBufferSize(),
         c13Dead ? 0 : (int)c13Cl->isSuspended(), ipInterest(c13Fd), c13CbLen ? c13CbLog : "-", ipSendLogTake());
  c13CbLen = 0;
  hxEndLine();
}

static void c13Dead_() { printf("dead"); hxEndLine(); }

// returns false when the line is not a C13 op
static bool c13Op(HxLine& l)
{
  const char* op = l.tok[0];
  bool known = !strcmp(op, "write") || !strcmp(op, "ready") || !strcmp(op, "read") || !strcmp(op, "peersend") ||
               !strcmp(op, "peerread") || !strcmp(op, "suspend") || !strcmp(op, "resume") || !strcmp(op, "cb");
  if(!known) return false;
  if(!c13Srv && !c13Setup()) { printf("ENV-FAIL pair"); hxEndLine(); return true; }
  ipVirtualClock = true;
  char res[1 << 12];
  if(!strcmp(op, "cb"))
  { // cb write <hex> <outcome> | cb read <max> | cb suspend | cb resume: queued for the next onRead / onWrite
    IpOutcome o;
    bool ok = false;
    if(l.ntok == 4 && !strcmp(l.tok[1], "write")) ok = ipParseOutcome(l.tok[3], o) && (!strcmp(l.tok[2], "-") || strlen(l.tok[2]) % 2 == 0) && strlen(l.tok[2]) < 600;
    else if(l.ntok == 3 && !strcmp(l.tok[1], "read")) { size_t m = hxNum(l, 2); ok = m > 0 && m <= 4000; }
    else if(l.ntok == 2 && (!strcmp(l.tok[1], "suspend") || !strcmp(l.tok[1], "resume"))) ok = true;
    if(!ok || c13NInner >= 8) { printf("bad-op"); hxEndLine(); return true; }
    if(c13Dead) { c13Dead_(); return true; }
    char* q = c13Inner[c13NInner++];
    q[0] = 0;
    for(int i = 1; i < l.ntok; ++i) { if(i > 1) strcat(q, " "); strcat(q, l.tok[i]); }
    c13Observe("ok");
    return true;
  }
  if(hxIs(l, "write", 2))
  {
    IpOutcome o;
    if(!ipParseOutcome(l.tok[2], o) || (strcmp(l.tok[1], "-") && (strlen(l.tok[1]) % 2))) { printf("bad-op"); hxEndLine(); return true; }
    if(c13Dead) { c13Dead_(); return true; }
    size_t len;
    unsigned char* d = hxBytes(l.tok[1], len);
    ipSendScripted = true; ipSendQueue[0] = o; ipSendQueueLen = 1; ipSendQueuePos = 0;
    usize postponed = 77777;
    bool r = c13Cl->write(d, len, &postponed);
    ipSendScripted = false;
    free(d);
    snprintf(res, sizeof(res), "w%d %zu", (int)r, (size_t)postponed);
    c13Observe(res);
    return true;
  }
  if(hxIs(l, "ready", 2))
  {
    IpOutcome o;
    int sel = !strcmp(l.tok[1], "none") ? 0 : !strcmp(l.tok[1], "r") ? 1 : !strcmp(l.tok[1], "w") ? 2 : !strcmp(l.tok[1], "rw") ? 3 : -1;
    if(sel < 0 || !ipParseOutcome(l.tok[2], o)) { printf("bad-op"); hxEndLine(); return true; }
    if(!c13Dead || true)
    {
      ipSendScripted = true; ipSendQueue[0] = o; ipSendQueueLen = 1; ipSendQueuePos = 0;
      c13Sel = sel; c13WaitCalls = 0; ipWaitHook = c13Wait;
      c13Srv->run();
      ipWaitHook = 0; ipSendScripted = false;
    }
    c13Observe("ok");
    return true;
  }
  if(hxIs(l, "read", 1))
  {
    size_t max = hxNum(l, 1);
    if(max == 0 || max > 4000) { printf("bad-op"); hxEndLine(); return true; }
    if(c13Dead) { c13Dead_(); return true; }
    byte* buf = (byte*)malloc(max);
    usize size = 99999;
    bool r = c13Cl->read(buf, max, size);
    int n = snprintf(res, sizeof(res), "rd%d ", (int)r);
    if(size == 0) snprintf(res + n, sizeof(res) - n, "-");
    else for(size_t i = 0; i < size && n + 3 < (int)sizeof(res); ++i) n += snprintf(res + n, sizeof(res) - n, "%02x", buf[i]);
    free(buf);
    c13Observe(res);
    return true;
  }
  if(hxIs(l, "peersend", 1))
  {
    if(!strcmp(l.tok[1], "-") || (strlen(l.tok[1]) % 2)) { printf("bad-op"); hxEndLine(); return true; }
    if(c13Dead) { c13Dead_(); return true; }
    size_t len;
    unsigned char* d = hxBytes(l.tok[1], len);
    ssize_t r = syscall(SYS_sendto, c13Other->s, d, len, MSG_NOSIGNAL | MSG_DONTWAIT, 0, 0);
    if(r != (ssize_t)len) ipFail("peer could not send");
    free(d);
    c13Observe("ok");
    return true;
  }
  if(hxIs(l, "peerread", 0))
  {
    static unsigned char buf[1 << 15];
    size_t got = 0;
    for(;;)
    {
      ssize_t r = syscall(SYS_recvfrom, c13Other->s, buf + got, sizeof(buf) - got, MSG_DONTWAIT, 0, 0);
      if(r <= 0) break;
      got += (size_t)r;
      if(got == sizeof(buf)) break;
    }
    printf("got ");
    hxPutHex(buf, got);
    c13Observe("");
    return true;
  }
  if(hxIs(l, "suspend", 0) || hxIs(l, "resume", 0))
  {
    if(c13Dead) { c13Dead_(); return true; }
    if(op[0] == 's') c13Cl->suspend(); else c13Cl->resume();
    c13Observe("ok");
    return true;
  }
  printf("bad-op");
  hxEndLine();
  return true;
}
