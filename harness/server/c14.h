// C14 dialect: timers, clients, listeners, establishers of a real Server under virtual time,
// interposed epoll_wait (schedule driven) and callback scripts.
// Mirrors lean/Nstd/Server/Driver.lean (namespace C14).
#pragma once
#include <poll.h>
#include <pthread.h>
#include <netinet/in.h>
#include <arpa/inet.h>

enum { C14_TIMER = 1, C14_CLIENT, C14_LISTENER, C14_EST };
enum { C14_MAXOBJ = 512, C14_MAXSCRIPT = 512, C14_MAXENTRY = 256 };

struct C14Obj : public Server::Timer::ICallback, public Server::Client::ICallback,
                public Server::Listener::ICallback, public Server::Establisher::ICallback
{
  int kind, id, fd, peerFd, calls;
  bool alive;
  void* ptr;
  Socket* other;         // pair(): the peer socket object
  int dialFds[32];       // listener: peers waiting to be accepted (FIFO)
  int dialHead, dialTail;
  C14Obj() : kind(0), id(0), fd(-1), peerFd(-1), calls(0), alive(false), ptr(0), other(0), dialHead(0), dialTail(0) {}
  virtual void onActivated();
  virtual void onRead();
  virtual void onWrite();
  virtual void onClosed();
  virtual Server::Client::ICallback* onAccepted(Server::Client& client, uint32 ip, uint16 port);
  virtual Server::Client::ICallback* onConnected(Server::Client& client);
  virtual void onAbolished();
};

struct C14Script { int id, k; char* acts; };
struct C14Entry { bool intr; int ids[16]; bool forced[16]; int nids; long dt; };

static Server* c14Srv = 0;
static C14Obj* c14Objs[C14_MAXOBJ];
static int c14NObjs = 0;
static bool c14Used[1000];
static C14Script c14Scripts[C14_MAXSCRIPT];
static int c14NScripts = 0;
static int c14NextAuto = 1000;
static char c14Log[1 << 16];
static size_t c14LogLen = 0;
static C14Entry c14Entries[C14_MAXENTRY];
static int c14NEntries = 0, c14EntryPos = 0;
static int c14WaitCalls = 0;
static int c14RawListenFd = -1;
static uint16 c14RawPort = 0;
static bool c14InRun = false;
static bool c14ForceKeepAlive = false;   // after `ofail`: SO_KEEPALIVE stays enabled (the failing option must be applied)

static unsigned long c14Callbacks = 0;    // callbacks since the last op line
static void c14LogAdd(const char* fmt, int a, int b)
{
  if(++c14Callbacks > 300000)
  { // e.g. the closing loop never ends: the same client is handed to onClosed over and over
    fprintf(stderr, "c14: callback storm: more than 300000 callbacks in one run() (last: ");
    fprintf(stderr, fmt, a, b);
    fprintf(stderr, ")\n");
    _exit(3);
  }
  if(c14LogLen + 64 > sizeof(c14Log)) return;
  if(c14LogLen) c14Log[c14LogLen++] = ' ';
  c14LogLen += (size_t)snprintf(c14Log + c14LogLen, 40, fmt, a, b);
  c14LogLen += (size_t)snprintf(c14Log + c14LogLen, 24, "@%lld", ipNow);
}

static C14Obj* c14ById(int id)
{
  for(int i = 0; i < c14NObjs; ++i)
    if(c14Objs[i]->id == id) return c14Objs[i];
  return 0;
}

static C14Obj* c14Live(int id, int kind)
{
  C14Obj* o = c14ById(id);
  return (o && o->alive && o->kind == kind) ? o : 0;
}

static C14Obj* c14NewObj(int kind, int id)
{
  if(c14NObjs >= C14_MAXOBJ) { fprintf(stderr, "c14: too many objects\n"); _exit(3); }
  C14Obj* o = new C14Obj;
  o->kind = kind; o->id = id; o->alive = true;
  c14Objs[c14NObjs++] = o;
  if(id < 1000) c14Used[id] = true;
  return o;
}

static bool c14Fresh(int id) { return id >= 0 && id < 1000 && !c14Used[id]; }

static void c14WaitFd(int fd, short events)
{ // let the kernel finish loop-back delivery before the next poll round looks at readiness
  if(fd < 0) return;
  struct pollfd p; p.fd = fd; p.events = events; p.revents = 0;
  if(poll(&p, 1, 2000) <= 0) ipFail("kernel did not deliver the loop-back event in time");
}

// ---- creation of socket objects (top level and inside callbacks) ------------------------------------
static void c14MkPair(int id)
{
  if(!c14Fresh(id)) return;
  C14Obj* o = c14NewObj(C14_CLIENT, id);
  o->other = new Socket;
  o->ptr = c14Srv->pair(*o, *o->other);
  if(!o->ptr) ipFail("pair failed");
  else { o->fd = ((Server::Client*)o->ptr)->getSocket().s; o->peerFd = o->other->s; }
}

static void c14MkListen(int id)
{
  if(!c14Fresh(id)) return;
  C14Obj* o = c14NewObj(C14_LISTENER, id);
  ipLastAddFd = -1;
  o->ptr = c14Srv->listen(Socket::loopbackAddress, 0, *o);
  if(!o->ptr || ipLastAddFd < 0) ipFail("listen failed");
  else o->fd = ipLastAddFd;
}

static void c14MkConn(int id)
{
  if(!c14Fresh(id)) return;
  if(c14RawListenFd < 0)
  {
    c14RawListenFd = socket(AF_INET, SOCK_STREAM | SOCK_CLOEXEC, 0);
    struct sockaddr_in sin; memset(&sin, 0, sizeof(sin));
    sin.sin_family = AF_INET; sin.sin_addr.s_addr = htonl(INADDR_LOOPBACK); sin.sin_port = 0;
    socklen_t len = sizeof(sin);
    if(bind(c14RawListenFd, (struct sockaddr*)&sin, sizeof(sin)) || listen(c14RawListenFd, 64) ||
       getsockname(c14RawListenFd, (struct sockaddr*)&sin, &len)) ipFail("raw listener");
    c14RawPort = ntohs(sin.sin_port);
  }
  C14Obj* o = c14NewObj(C14_EST, id);
  ipLastAddFd = -1;
  o->ptr = c14Srv->connect(Socket::loopbackAddress, c14RawPort, *o);
  if(!o->ptr || ipLastAddFd < 0) ipFail("connect failed");
  else
  {
    o->fd = ipLastAddFd;
    c14WaitFd(c14RawListenFd, POLLIN);
    o->peerFd = accept(c14RawListenFd, 0, 0);
    c14WaitFd(o->fd, POLLOUT);
  }
}

static bool c14DoAct(const char* act, C14Obj* newc);

// runs the next script of the object; returns true when the script said `null`
static bool c14RunScript(C14Obj* o, C14Obj* newc)
{
  int k = o->calls++;
  const char* acts = 0;
  for(int i = c14NScripts - 1; i >= 0; --i)
    if(c14Scripts[i].id == o->id && c14Scripts[i].k == k) { acts = c14Scripts[i].acts; break; }
  if(!acts || !strcmp(acts, "-")) return false;
  bool retNull = false;
  char buf[1024];
  strncpy(buf, acts, sizeof(buf) - 1); buf[sizeof(buf) - 1] = 0;
  for(char* p = buf; p && *p;)
  {
    char* e = strchr(p, ',');
    if(e) *e = 0;
    if(c14DoAct(p, newc)) retNull = true;
    p = e ? e + 1 : 0;
  }
  return retNull;
}

void C14Obj::onActivated() { c14LogAdd("t%d", id, 0); c14RunScript(this, 0); }
void C14Obj::onRead() { c14LogAdd("c%d.R", id, 0); c14RunScript(this, 0); }
void C14Obj::onWrite() { c14LogAdd("c%d.W", id, 0); c14RunScript(this, 0); }
void C14Obj::onClosed() { c14LogAdd("c%d.C", id, 0); c14RunScript(this, 0); }
void C14Obj::onAbolished() { c14LogAdd("e%d.X", id, 0); c14RunScript(this, 0); }

static Server::Client::ICallback* c14HandOver(C14Obj* from, Server::Client& client, const char* fmt)
{
  C14Obj* nc = c14NewObj(C14_CLIENT, c14NextAuto++);
  nc->ptr = &client;
  nc->fd = client.getSocket().s;
  if(from->kind == C14_LISTENER)
  {
    if(from->dialHead < from->dialTail) nc->peerFd = from->dialFds[from->dialHead++ % 32];
  }
  else
  {
    nc->peerFd = from->peerFd;
    from->peerFd = -1;
    from->fd = -1;
  }
  c14LogAdd(fmt, from->id, nc->id);
  bool retNull = c14RunScript(from, nc);
  if(retNull) nc->alive = false;
  return retNull ? 0 : (Server::Client::ICallback*)nc;
}

Server::Client::ICallback* C14Obj::onAccepted(Server::Client& client, uint32, uint16) { return c14HandOver(this, client, "l%d.A%d"); }
Server::Client::ICallback* C14Obj::onConnected(Server::Client& client) { return c14HandOver(this, client, "e%d.N%d"); }

static bool c14Num(const char* t, long& v)
{
  if(!*t) return false;
  for(const char* p = t; *p; ++p) if(*p < '0' || *p > '9') return false;
  v = strtol(t, 0, 10);
  return true;
}

// returns true for `null`; unknown / inapplicable actions are ignored (the op line was validated before)
static bool c14DoAct(const char* act, C14Obj* newc)
{
  char buf[128];
  strncpy(buf, act, sizeof(buf) - 1); buf[sizeof(buf) - 1] = 0;
  char* f[5] = {0, 0, 0, 0, 0};
  int nf = 0;
  for(char* p = buf; p && nf < 5;) { f[nf++] = p; char* e = strchr(p, ':'); if(e) { *e = 0; p = e + 1; } else p = 0; }
  long a = 0, b = 0;
  if(nf >= 2) c14Num(f[1], a);
  if(nf >= 3) c14Num(f[2], b);
  const char* op = f[0];
  if(!strcmp(op, "null")) return true;
  if(!strcmp(op, "intr")) { c14Srv->interrupt(); return false; }
  if(!strcmp(op, "pair")) { c14MkPair((int)a); return false; }
  if(!strcmp(op, "lis")) { c14MkListen((int)a); return false; }
  if(!strcmp(op, "con")) { c14MkConn((int)a); return false; }
  if(!strcmp(op, "mk"))
  {
    if(!c14Fresh((int)a)) return false;
    C14Obj* o = c14NewObj(C14_TIMER, (int)a);
    o->ptr = c14Srv->time(b, *o);
    return false;
  }
  if(!strcmp(op, "rmnew"))
  {
    if(newc && newc->alive) { c14Srv->remove(*(Server::Client*)newc->ptr); newc->alive = false; }
    return false;
  }
  if(!strcmp(op, "rmt")) { if(C14Obj* o = c14Live((int)a, C14_TIMER)) { c14Srv->remove(*(Server::Timer*)o->ptr); o->alive = false; } return false; }
  if(!strcmp(op, "rmc")) { if(C14Obj* o = c14Live((int)a, C14_CLIENT)) { c14Srv->remove(*(Server::Client*)o->ptr); o->alive = false; } return false; }
  if(!strcmp(op, "rml")) { if(C14Obj* o = c14Live((int)a, C14_LISTENER)) { c14Srv->remove(*(Server::Listener*)o->ptr); o->alive = false; } return false; }
  if(!strcmp(op, "rme"))
  {
    if(C14Obj* o = c14Live((int)a, C14_EST))
    {
      for(int i = 0; i < ipNFailConnect; ++i)
        if(ipFailConnectFd[i] == o->fd) { ipFailConnectFd[i] = ipFailConnectFd[--ipNFailConnect]; break; }
      for(int i = 0; i < ipNFailOpt; ++i)
        if(ipFailOptFd[i] == o->fd) { ipFailOptFd[i] = ipFailOptFd[--ipNFailOpt]; break; }
      c14Srv->remove(*(Server::Establisher*)o->ptr);
      o->alive = false;
    }
    return false;
  }
  if(!strcmp(op, "sus")) { if(C14Obj* o = c14Live((int)a, C14_CLIENT)) ((Server::Client*)o->ptr)->suspend(); return false; }
  if(!strcmp(op, "res")) { if(C14Obj* o = c14Live((int)a, C14_CLIENT)) ((Server::Client*)o->ptr)->resume(); return false; }
  if(!strcmp(op, "rd"))
  {
    if(C14Obj* o = c14Live((int)a, C14_CLIENT))
    {
      static byte rbuf[1 << 16];
      usize size = 0;
      ((Server::Client*)o->ptr)->read(rbuf, sizeof(rbuf), size);
    }
    return false;
  }
  if(!strcmp(op, "wr") && nf == 4)
  {
    IpOutcome oc;
    if(!ipParseOutcome(f[3], oc)) return false;
    if(C14Obj* o = c14Live((int)a, C14_CLIENT))
    {
      static byte wbuf[1 << 12];
      if(b > (long)sizeof(wbuf)) b = sizeof(wbuf);
      ipSendQueue[0] = oc; ipSendQueueLen = 1; ipSendQueuePos = 0;
      ((Server::Client*)o->ptr)->write(wbuf, (usize)b);
      ipSendQueueLen = 0; ipSendQueuePos = 0;
    }
    return false;
  }
  return false;
}

static bool c14ValidAct(const char* act)
{
  char buf[128];
  strncpy(buf, act, sizeof(buf) - 1); buf[sizeof(buf) - 1] = 0;
  char* f[6] = {0, 0, 0, 0, 0, 0};
  int nf = 0;
  for(char* p = buf; p && nf < 6;) { f[nf++] = p; char* e = strchr(p, ':'); if(e) { *e = 0; p = e + 1; } else p = 0; }
  long v;
  const char* op = f[0];
  if(!strcmp(op, "null") || !strcmp(op, "intr") || !strcmp(op, "rmnew")) return nf == 1;
  if(!strcmp(op, "mk")) return nf == 3 && c14Num(f[1], v) && c14Num(f[2], v);
  if(!strcmp(op, "pair") || !strcmp(op, "lis") || !strcmp(op, "con")) return nf == 2 && c14Num(f[1], v);
  if(!strcmp(op, "rmt") || !strcmp(op, "rmc") || !strcmp(op, "rml") || !strcmp(op, "rme") || !strcmp(op, "sus") ||
     !strcmp(op, "res") || !strcmp(op, "rd")) return nf == 2 && c14Num(f[1], v);
  IpOutcome oc;
  if(!strcmp(op, "wr")) return nf == 4 && c14Num(f[1], v) && c14Num(f[2], v) && ipParseOutcome(f[3], oc);
  return false;
}

static bool c14ValidActs(const char* acts)
{
  if(!strcmp(acts, "-")) return true;
  char buf[1024];
  if(strlen(acts) >= sizeof(buf)) return false;
  strcpy(buf, acts);
  for(char* p = buf; p;)
  {
    char* e = strchr(p, ',');
    if(e) *e = 0;
    if(!c14ValidAct(p)) return false;
    p = e ? e + 1 : 0;
  }
  return true;
}

// ---- epoll_wait under the schedule -----------------------------------------------------------
static int c14Wait(int epfd, struct epoll_event* ev, int max, int timeout)
{
  if(++c14WaitCalls > 4000) { fprintf(stderr, "c14: run() does not return\n"); _exit(3); }
  C14Entry e;
  if(c14EntryPos < c14NEntries) e = c14Entries[c14EntryPos++];
  else { e.intr = true; e.nids = 0; e.dt = 0; }
  if(e.intr) c14Srv->interrupt();
  struct epoll_event tmp[64];
  int n = ipRealEpollWait(epfd, tmp, 64, 0), m = 0;
  bool efd = false;
  for(int i = 0; i < n; ++i)
    if(tmp[i].data.ptr == 0) { efd = true; if(m < max) ev[m++] = tmp[i]; }
  int nsock = 0;
  for(int j = 0; j < e.nids; ++j)
  {
    bool dup = false;
    for(int q = 0; q < j; ++q) if(e.ids[q] == e.ids[j]) dup = true;
    if(dup) continue;
    C14Obj* o = c14ById(e.ids[j]);
    if(!o || !o->alive || o->fd < 0 || o->fd >= IP_MAXFD || ipMask[o->fd] < 0) continue;
    bool found = false;
    for(int i = 0; i < n; ++i)
      if(tmp[i].data.ptr && tmp[i].data.ptr == ipPtr[o->fd]) { if(m < max) { ev[m++] = tmp[i]; ++nsock; } found = true; break; }
    if(!found && e.forced[j] && o->kind == C14_LISTENER && m < max)
    { // spurious readiness of a listener with an empty accept queue: the accept4 that follows fails
      ev[m].events = EPOLLIN; ev[m].data.ptr = ipPtr[o->fd]; ++m; ++nsock;
      if(o->fd < 4096) ipFailAccept[o->fd] = true;
    }
  }
  if(nsock == 0 && !efd)
  {
    if(timeout < 0) ipFail("run() would sleep forever");
    else ipNow += timeout;
  }
  else ipNow += e.dt;
  return m;
}

// ---- run() against a real second thread calling interrupt() ----------------------------------
static long c14MtDelayUs = 0;
static void* c14MtThread(void*)
{
  if(c14MtDelayUs > 0) usleep((useconds_t)c14MtDelayUs);
  c14Srv->interrupt();
  return 0;
}

static int c14WaitMt(int epfd, struct epoll_event* ev, int max, int timeout)
{ // really blocks (virtual time stands still); a lost interrupt shows as a 5 s time-out
  if(++c14WaitCalls > 4000) { fprintf(stderr, "c14: run() does not return\n"); _exit(3); }
  int t = (timeout < 0 || timeout > 5000) ? 5000 : timeout;
  int n = ipRealEpollWait(epfd, ev, max, t);
  if(n == 0 && t == 5000) { ipFail("interrupt() from the second thread did not wake run()"); c14Srv->interrupt(); }
  return n;
}

// after the threaded run: bring flag and event descriptor back to "no interrupt pending" (the second
// thread may have finished its interrupt() after run() had already returned, or between the two writes)
static int c14WaitDrain(int epfd, struct epoll_event* ev, int max, int)
{
  if(++c14WaitCalls > 50) { fprintf(stderr, "c14: drain run() does not return\n"); _exit(3); }
  struct epoll_event tmp[64];
  int n = ipRealEpollWait(epfd, tmp, 64, 0), m = 0;
  for(int i = 0; i < n && m < max; ++i)
    if(tmp[i].data.ptr == 0) ev[m++] = tmp[i];
  if(m > 0 && c14WaitCalls == 1) return m;       // a pending or stale signal: let run() look at it
  c14Srv->interrupt();
  n = ipRealEpollWait(epfd, tmp, 64, 0); m = 0;
  for(int i = 0; i < n && m < max; ++i)
    if(tmp[i].data.ptr == 0) ev[m++] = tmp[i];
  return m;
}

// ---- life cycle ------------------------------------------------------------------------------
static void c14Teardown()
{
  ipWaitHook = 0;
  ipSendScripted = false;
  ipSendHaveDefault = false;
  delete c14Srv;
  c14Srv = 0;
  for(int i = 0; i < c14NObjs; ++i)
  {
    C14Obj* o = c14Objs[i];
    if(o->other) delete o->other;
    else if(o->peerFd >= 0) close(o->peerFd);
    for(int j = o->dialHead; j < o->dialTail; ++j) close(o->dialFds[j % 32]);
    delete o;
  }
  c14NObjs = 0;
  for(int i = 0; i < c14NScripts; ++i) free(c14Scripts[i].acts);
  c14NScripts = 0;
  memset(c14Used, 0, sizeof(c14Used));
  c14NextAuto = 1000;
  c14LogLen = 0;
  ipNFailConnect = 0;
  ipNFailOpt = 0;
  c14ForceKeepAlive = false;
  ipFailNextBind = ipFailNextListen = ipFailNextConnect = ipFailNextSockopt = false;
  if(c14RawListenFd >= 0) close(c14RawListenFd);
  c14RawListenFd = -1;
}

static void c14Setup()
{
  c14Srv = new Server;
  ipVirtualClock = true;
}

static void c14Observe(const char* res)
{
  if(ipEnvFail)
  {
    printf("ENV-FAIL %s", ipEnvFailWhy);
    ipEnvFail = false;
    hxEndLine();
    return;
  }
  printf("%s |", res);
  int shown = 0;
  for(int i = 0; i < c14NObjs; ++i)
  {
    C14Obj* o = c14Objs[i];
    if(!o->alive) continue;
    ++shown;
    if(o->kind == C14_TIMER) printf(" t%d", o->id);
    else printf(" %c%d:%s", o->kind == C14_CLIENT ? 'c' : o->kind == C14_LISTENER ? 'l' : 'e', o->id, ipInterestIO(o->fd));
  }
  if(!shown) printf(" -");
  printf(" clk=%lld", ipNow);
  hxEndLine();
}

static bool c14ParseEntry(const char* t, C14Entry& e)
{
  e.intr = false; e.nids = 0; e.dt = 0;
  if(*t == 'I') { e.intr = true; ++t; }
  char buf[256];
  if(strlen(t) >= sizeof(buf)) return false;
  strcpy(buf, t);
  char* plus = strchr(buf, '+');
  if(plus) { *plus = 0; long v; if(!c14Num(plus + 1, v) || strchr(plus + 1, '+')) return false; e.dt = v; }
  if(!*buf) return e.intr;
  if(!strcmp(buf, "-")) return true;
  for(char* p = buf; p;)
  {
    char* c = strchr(p, ',');
    if(c) *c = 0;
    long v;
    bool forced = false;
    size_t pl = strlen(p);
    if(pl && p[pl - 1] == '!') { forced = true; p[pl - 1] = 0; }
    if(!c14Num(p, v) || e.nids >= 16) return false;
    e.forced[e.nids] = forced;
    e.ids[e.nids++] = (int)v;
    p = c ? c + 1 : 0;
  }
  return true;
}

static bool c14Op(HxLine& l)
{
  const char* op = l.tok[0];
  bool known = !strcmp(op, "script") || !strcmp(op, "act") || !strcmp(op, "mkpair") || !strcmp(op, "mklisten") ||
               !strcmp(op, "mkconn") || !strcmp(op, "psend") || !strcmp(op, "pclose") || !strcmp(op, "dial") ||
               !strcmp(op, "adv") || !strcmp(op, "run") || !strcmp(op, "cfail") || !strcmp(op, "runmt") ||
               !strcmp(op, "clear") || !strcmp(op, "failmk") || !strcmp(op, "opt") || !strcmp(op, "ofail");
  if(!known) return false;
  if(!c14Srv) c14Setup();
  c14Callbacks = 0;
  long a = 0, b = 0;
  if(hxIs(l, "script", 3))
  {
    if(!c14Num(l.tok[1], a) || !c14Num(l.tok[2], b) || !c14ValidActs(l.tok[3]) || c14NScripts >= C14_MAXSCRIPT) { printf("bad-op"); hxEndLine(); return true; }
    c14Scripts[c14NScripts].id = (int)a; c14Scripts[c14NScripts].k = (int)b; c14Scripts[c14NScripts].acts = strdup(l.tok[3]);
    ++c14NScripts;
    c14Observe("ok");
    return true;
  }
  if(hxIs(l, "clear", 0))
  { // Server::clear() outside run(): every object is destroyed, no callback may follow
    ipMaskReset();
    ipNFailConnect = 0;
    ipNFailOpt = 0;
    c14Srv->clear();
    for(int i = 0; i < c14NObjs; ++i) c14Objs[i]->alive = false;
    c14Observe("ok");
    return true;
  }
  if(hxIs(l, "failmk", 1))
  { // pair / listen / connect whose socket()/socketpair() fails: a null result and no trace in the server
    void* r = (void*)1;
    Socket other;
    C14Obj cb;
    const char* k = l.tok[1];
    bool* flag = &ipFailNextSocket;
    if(!strcmp(k, "bind")) flag = &ipFailNextBind;
    else if(!strcmp(k, "listencall")) flag = &ipFailNextListen;
    else if(!strcmp(k, "connectcall")) flag = &ipFailNextConnect;
    else if(!strcmp(k, "pairopt")) { flag = &ipFailNextSockopt; c14ForceKeepAlive = true; c14Srv->setKeepAlive(true); }
    *flag = true;
    if(!strcmp(k, "pair") || !strcmp(k, "pairopt")) r = c14Srv->pair(cb, other);
    else if(!strcmp(k, "listen") || !strcmp(k, "bind") || !strcmp(k, "listencall")) r = c14Srv->listen(Socket::loopbackAddress, 0, cb);
    else if(!strcmp(k, "connect") || !strcmp(k, "connectcall")) r = c14Srv->connect(Socket::loopbackAddress, 1, cb);
    else { *flag = false; printf("bad-op"); hxEndLine(); return true; }
    if(*flag) { *flag = false; ipFail("the library did not make the call that was to fail"); }
    if(r) ipFail("creation succeeded although socket() failed");
    if(other.s != -1) ipFail("pair() left the other socket open");
    c14Observe("ok");
    return true;
  }
  if(hxIs(l, "opt", 2))
  { // socket options of the server: applied to sockets created later; no effect on the event loop
    if(!c14Num(l.tok[2], a)) { printf("bad-op"); hxEndLine(); return true; }
    if(!strcmp(l.tok[1], "keepalive")) c14Srv->setKeepAlive(a != 0 || c14ForceKeepAlive);
    else if(!strcmp(l.tok[1], "sndbuf")) c14Srv->setSendBufferSize((int)a);
    else if(!strcmp(l.tok[1], "rcvbuf")) c14Srv->setReceiveBufferSize((int)a);
    else if(!strcmp(l.tok[1], "reuse")) c14Srv->setReuseAddress(a != 0);
    else { printf("bad-op"); hxEndLine(); return true; }
    c14Observe("ok");
    return true;
  }
  if(hxIs(l, "act", 1))
  {
    if(!c14ValidAct(l.tok[1])) { printf("bad-op"); hxEndLine(); return true; }
    ipSendScripted = true; ipSendHaveDefault = false;
    c14DoAct(l.tok[1], 0);
    ipSendScripted = false;
    c14Observe("ok");
    return true;
  }
  if(hxIs(l, "mkpair", 1) || hxIs(l, "mklisten", 1) || hxIs(l, "mkconn", 1) || hxIs(l, "pclose", 1) || hxIs(l, "dial", 1) || hxIs(l, "adv", 1) || hxIs(l, "cfail", 1) || hxIs(l, "ofail", 1))
  {
    if(!c14Num(l.tok[1], a)) { printf("bad-op"); hxEndLine(); return true; }
    if(!strcmp(op, "adv")) ipNow += a;
    else if(!strcmp(op, "ofail"))
    { // the connect event of establisher <id> ends in onAbolished because a socket option cannot be applied (Server.cpp 396-400)
      c14ForceKeepAlive = true;
      c14Srv->setKeepAlive(true);
      if(C14Obj* o = c14Live((int)a, C14_EST))
        if(o->fd >= 0 && ipNFailOpt < 16)
        {
          bool dup = false;
          for(int i = 0; i < ipNFailOpt; ++i) if(ipFailOptFd[i] == o->fd) dup = true;
          if(!dup) ipFailOptFd[ipNFailOpt++] = o->fd;
        }
    }
    else if(!strcmp(op, "cfail"))
    {
      if(C14Obj* o = c14Live((int)a, C14_EST))
        if(o->fd >= 0 && ipNFailConnect < 16)
        {
          bool dup = false;
          for(int i = 0; i < ipNFailConnect; ++i) if(ipFailConnectFd[i] == o->fd) dup = true;
          if(!dup) ipFailConnectFd[ipNFailConnect++] = o->fd;
        }
    }
    else if(!strcmp(op, "mkpair")) c14MkPair((int)a);
    else if(!strcmp(op, "mklisten")) c14MkListen((int)a);
    else if(!strcmp(op, "mkconn")) c14MkConn((int)a);
    else if(!strcmp(op, "dial"))
    {
      if(C14Obj* o = c14Live((int)a, C14_LISTENER))
      {
        struct sockaddr_in sin; memset(&sin, 0, sizeof(sin));
        socklen_t len = sizeof(sin);
        int fd = socket(AF_INET, SOCK_STREAM | SOCK_CLOEXEC, 0);
        if(getsockname(o->fd, (struct sockaddr*)&sin, &len) || connect(fd, (struct sockaddr*)&sin, sizeof(sin)) || o->dialTail - o->dialHead >= 32)
          ipFail("dial failed");
        else
        {
          o->dialFds[o->dialTail++ % 32] = fd;
          c14WaitFd(o->fd, POLLIN);
        }
      }
    }
    else if(!strcmp(op, "pclose"))
    {
      if(C14Obj* o = c14Live((int)a, C14_CLIENT))
        if(o->peerFd >= 0 && o->other)   // only socket-pair peers close (see ModelC14.envStep)
        {
          shutdown(o->peerFd, SHUT_RDWR);
          if(o->other) o->other->close(); else close(o->peerFd);
          o->peerFd = -1;
          c14WaitFd(o->fd, POLLIN);
        }
    }
    c14Observe("ok");
    return true;
  }
  if(hxIs(l, "psend", 2))
  {
    if(!c14Num(l.tok[1], a) || !c14Num(l.tok[2], b) || b < 1 || b > 4096) { printf("bad-op"); hxEndLine(); return true; }
    if(C14Obj* o = c14Live((int)a, C14_CLIENT))
      if(o->peerFd >= 0)
      {
        static char zeros[4096];
        if(syscall(SYS_sendto, o->peerFd, zeros, (size_t)b, MSG_NOSIGNAL | MSG_DONTWAIT, 0, 0) != b) ipFail("peer could not send");
        c14WaitFd(o->fd, POLLIN);
      }
    c14Observe("ok");
    return true;
  }
  if(hxIs(l, "runmt", 1))
  {
    if(!c14Num(l.tok[1], a) || a > 100000) { printf("bad-op"); hxEndLine(); return true; }
    c14MtDelayUs = a; c14WaitCalls = 0; c14LogLen = 0;
    ipWaitHook = c14WaitMt;
    pthread_t th;
    if(pthread_create(&th, 0, c14MtThread, 0)) ipFail("pthread_create");
    c14Srv->run();
    pthread_join(th, 0);
    size_t keep = c14LogLen;
    c14WaitCalls = 0;
    ipWaitHook = c14WaitDrain;
    c14Srv->run();
    if(c14LogLen != keep) ipFail("callbacks during the drain run");
    ipWaitHook = 0;
    c14LogAdd("ret", 0, 0);
    c14Log[c14LogLen] = 0;
    c14Observe(c14Log);
    c14LogLen = 0;
    return true;
  }
  if(l.ntok >= 2 && !strcmp(op, "run"))
  {
    IpOutcome oc;
    if(!ipParseOutcome(l.tok[1], oc) || l.ntok - 2 > C14_MAXENTRY) { printf("bad-op"); hxEndLine(); return true; }
    c14NEntries = 0;
    for(int i = 2; i < l.ntok; ++i)
      if(!c14ParseEntry(l.tok[i], c14Entries[c14NEntries++])) { printf("bad-op"); hxEndLine(); return true; }
    c14EntryPos = 0; c14WaitCalls = 0; c14LogLen = 0;
    ipSendScripted = true; ipSendHaveDefault = true; ipSendDefault = oc; ipSendQueueLen = 0; ipSendQueuePos = 0;
    ipWaitHook = c14Wait;
    c14Srv->run();
    ipWaitHook = 0; ipSendScripted = false; ipSendHaveDefault = false;
    c14LogAdd("ret", 0, 0);
    c14Log[c14LogLen] = 0;
    ipSendLogLen = 0;
    c14Observe(c14Log);
    c14LogLen = 0;
    return true;
  }
  printf("bad-op");
  hxEndLine();
  return true;
}
