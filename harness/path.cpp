// Line-protocol harness for the Path area (property C19): executes the op lines of
// lean/Nstd/Path/Driver.lean on the real src/File.cpp / src/Directory.cpp.
#include "common/hx.h"
#include <nstd/File.hpp>
#include <nstd/Directory.hpp>
#include <nstd/Debug.hpp>
#include <stdarg.h>

// Debug.cpp drags in Process.cpp; the library only needs the assertion printer
int Debug::printf(const char* format, ...)
{
  va_list ap;
  va_start(ap, format);
  int r = vfprintf(stderr, format, ap);
  va_end(ap);
  return r;
}

static void putStr(const String& s)
{
  hxPutHex((const char*)s, s.length());
  hxEndLine();
}

// the argument strings are exactly sized heap copies (+ terminator), so ASan sees reads before/after them
static bool pathOp(HxLine& l)
{
  size_t n = 0, m = 0;
  if(hxIs(l, "dir", 1)) { char* p = hxCStr(l.tok[1], n); String s(p, n); free(p); putStr(File::getDirectoryName(s)); return true; }
  if(hxIs(l, "base", 2))
  {
    char* p = hxCStr(l.tok[1], n); char* e = hxCStr(l.tok[2], m);
    String s(p, n), x(e, m); free(p); free(e);
    putStr(File::getBaseName(s, x)); return true;
  }
  if(hxIs(l, "stem", 2))
  {
    char* p = hxCStr(l.tok[1], n); char* e = hxCStr(l.tok[2], m);
    String s(p, n), x(e, m); free(p); free(e);
    putStr(File::getStem(s, x)); return true;
  }
  if(hxIs(l, "ext", 1)) { char* p = hxCStr(l.tok[1], n); String s(p, n); free(p); putStr(File::getExtension(s)); return true; }
  if(hxIs(l, "simp", 1)) { char* p = hxCStr(l.tok[1], n); String s(p, n); free(p); putStr(File::simplifyPath(s)); return true; }
  if(hxIs(l, "abs", 1))
  {
    char* p = hxCStr(l.tok[1], n); String s(p, n); free(p);
    printf("%d", File::isAbsolutePath(s) ? 1 : 0); hxEndLine(); return true;
  }
  if(hxIs(l, "rel", 2))
  {
    char* p = hxCStr(l.tok[1], n); char* e = hxCStr(l.tok[2], m);
    String s(p, n), x(e, m); free(p); free(e);
    putStr(File::getRelativePath(s, x)); return true;
  }
  return false;
}

int main()
{
  HxLine l;
  while(hxRead(l))
  {
    if(hxIs(l, "reset", 0)) { printf("ok"); hxEndLine(); continue; }
    if(pathOp(l)) continue;
    printf("bad-op"); hxEndLine();
  }
  return 0;
}
