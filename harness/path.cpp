// Line-protocol harness for the Path area (property C19): executes the op lines of
// lean/Nstd/Path/Driver.lean on the real src/File.cpp / src/Directory.cpp.
#include "common/hx.h"
#include <nstd/File.hpp>
#include <nstd/Directory.hpp>
#include <nstd/Debug.hpp>
#include <stdarg.h>

// Debug.cpp drags in Process.cpp; the library only needs the assertion printer
int Debug::printf(const char* format, ...)
{
  va_list ap;
  va_start(ap, format);
  int r = vfprintf(stderr, format, ap);
  va_end(ap);
  return r;
}

static void putStr(const String& s)
{
  hxPutHex((const char*)s, s.length());
  hxEndLine();
}

// the argument strings are exactly sized heap copies (+ terminator), so ASan sees reads before/after them
static bool pathOp(HxLine& l)
{
  size_t n = 0, m = 0;
  if(hxIs(l, "dir", 1)) { char* p = hxCStr(l.tok[1], n); String s(p, n); free(p); putStr(File::getDirectoryName(s)); return true; }
  if(hxIs(l, "base", 2))
  {
    char* p = hxCStr(l.tok[1], n); char* e = hxCStr(l.tok[2], m);
    String s(p, n), x(e, m); free(p); free(e);
    putStr(File::getBaseName(s, x)); return true;
  }
  if(hxIs(l, "stem", 2))
  {
    char* p = hxCStr(l.tok[1], n); char* e = hxCStr(l.tok[2], m);
    String s(p, n), x(e, m); free(p); free(e);
    putStr(File::getStem(s, x)); return true;
  }
  if(hxIs(l, "ext", 1)) { char* p = hxCStr(l.tok[1], n); String s(p, n); free(p); putStr(File::getExtension(s)); return true; }
  if(hxIs(l, "simp", 1)) { char* p = hxCStr(l.tok[1], n); String s(p, n); free(p); putStr(File::simplifyPath(s)); return true; }
  if(hxIs(l, "abs", 1))
  {
    char* p = hxCStr(l.tok[1], n); String s(p, n); free(p);
    printf("%d", File::isAbsolutePath(s) ? 1 : 0); hxEndLine(); return true;
  }
  if(hxIs(l, "rel", 2))
  {
    char* p = hxCStr(l.tok[1], n); char* e = hxCStr(l.tok[2], m);
    String s(p, n), x(e, m); free(p); free(e);
    putStr(File::getRelativePath(s, x)); return true;
  }
  return false;
}

// PatternMatcher::szWildMatch7 is local to the _WIN32 branch of Directory::read: tools/areas/path.py cuts its text out of
// the CURRENT src/Directory.cpp into path_wild.inc (build directory), so the function compiled here is the one of the sources
#if defined(__has_include)
#if __has_include("path_wild.inc")
#include "path_wild.inc"
#define HAVE_WILD 1
#endif
#endif

static bool wildOp(HxLine& l)
{
#ifdef HAVE_WILD
  if(hxIs(l, "wild", 2))
  {
    size_t n = 0, m = 0;
    char* p = hxCStr(l.tok[1], n); char* e = hxCStr(l.tok[2], m);
    printf("%d", szWildMatch7(p, e) ? 1 : 0); hxEndLine();
    free(p); free(e);
    return true;
  }
#endif
  return false;
}

// ---------------------------------------------------------------------------------------------
// file-system ops: scratch world BASE = $TMPDIR/nstd-verif-<pid> with BASE/s (working directory)
// and BASE/o (the outside sentinel).  Absolute paths of the op lines are relative to BASE.
#include <errno.h>
#include <unistd.h>
#include <fcntl.h>
#include <dirent.h>
#include <sys/stat.h>
#include <sys/types.h>
#include <sys/syscall.h>
#include <pwd.h>

static char BASE[512];
static size_t BASELEN;

// interposed calls (the executable's definitions win over libc's); the real call goes through syscall()
static int g_sf_mode = -1, g_sf_fired = 0;
static long g_mk_countdown = -1;
static int g_mk_fired = 0;
static long g_total_sf = 0, g_total_mk = 0;

extern "C" ssize_t sendfile(int out, int in, off_t* off, size_t count)
{
  if(g_sf_mode == 0) { g_sf_mode = -1; ++g_sf_fired; ++g_total_sf; errno = EIO; return -1; }
  if(g_sf_mode == 1) { g_sf_mode = -1; ++g_sf_fired; ++g_total_sf; return syscall(SYS_sendfile, out, in, off, count / 2); }
  return syscall(SYS_sendfile, out, in, off, count);
}
extern "C" ssize_t sendfile64(int out, int in, off64_t* off, size_t count) { return sendfile(out, in, (off_t*)off, count); }

static int rawMkdir(const char* path, mode_t mode) { return (int)syscall(SYS_mkdir, path, mode); }
extern "C" int mkdir(const char* path, mode_t mode)
{
  if(g_mk_countdown == 0) { g_mk_countdown = -1; ++g_mk_fired; ++g_total_mk; errno = EIO; return -1; }
  if(g_mk_countdown > 0) --g_mk_countdown;
  return rawMkdir(path, mode);
}

// readdir with a d_type fault: 1 = every entry is reported as DT_UNKNOWN (a file system without d_type support),
// 2 = the entries whose name ends in a byte with odd value.  The real call goes through dlsym(RTLD_NEXT).
#include <dlfcn.h>
static int g_dt_mode = 0;
static long g_total_dt = 0;
typedef struct dirent* (*readdir_fn)(DIR*);
static struct dirent* realReaddir(DIR* d)
{
  static readdir_fn f = 0;
  if(!f) f = (readdir_fn)dlsym(RTLD_NEXT, "readdir");
  return f(d);
}
extern "C" struct dirent* readdir(DIR* d)
{
  struct dirent* e = realReaddir(d);
  if(e && g_dt_mode)
  {
    size_t n = strlen(e->d_name);
    if(g_dt_mode == 1 || (n && ((unsigned char)e->d_name[n - 1] & 1))) { e->d_type = DT_UNKNOWN; ++g_total_dt; }
  }
  return e;
}
extern "C" struct dirent64* readdir64(DIR* d) { return (struct dirent64*)readdir(d); }

// lseek: the k-th call fails (EINVAL); getcwd: ERANGE while the buffer is smaller than g_cwd_need (a longer path than the real one)
static long g_ls_countdown = -1, g_total_ls = 0;
extern "C" off_t lseek(int fd, off_t off, int wh)
{
  if(g_ls_countdown == 0) { g_ls_countdown = -1; ++g_total_ls; errno = EINVAL; return -1; }
  if(g_ls_countdown > 0) --g_ls_countdown;
  return (off_t)syscall(SYS_lseek, fd, off, wh);
}
extern "C" off64_t lseek64(int fd, off64_t off, int wh) { return lseek(fd, (off_t)off, wh); }
static size_t g_cwd_need = 0;
static long g_total_cwd = 0;
extern "C" char* getcwd(char* buf, size_t size)
{
  if(g_cwd_need && size < g_cwd_need) { ++g_total_cwd; errno = ERANGE; return 0; }
  long r = syscall(SYS_getcwd, buf, size);
  return r < 0 ? 0 : buf;
}

static void die(const char* what) { fprintf(stderr, "harness: %s: %s\n", what, strerror(errno)); exit(3); }

static void rawRemoveTree(const char* path, bool self)
{
  DIR* d = opendir(path);
  if(d)
  {
    struct dirent* e;
    while((e = readdir(d)))
    {
      if(!strcmp(e->d_name, ".") || !strcmp(e->d_name, "..")) continue;
      char sub[2048];
      snprintf(sub, sizeof(sub), "%s/%s", path, e->d_name);
      struct stat st;
      if(lstat(sub, &st) == 0 && S_ISDIR(st.st_mode)) rawRemoveTree(sub, true);
      else unlink(sub);
    }
    closedir(d);
  }
  if(self) rmdir(path);
}

static void rawWriteFile(const char* path, const char* data, size_t len)
{
  int fd = open(path, O_CREAT | O_TRUNC | O_WRONLY | O_CLOEXEC, 0644);
  if(fd < 0) die(path);
  if(len && write(fd, data, len) != (ssize_t)len) die("write");
  close(fd);
}

static void fsReset()
{
  char p[1024];
  if(!BASE[0])
  {
    const char* t = getenv("TMPDIR");
    snprintf(BASE, sizeof(BASE), "%s/nstd-verif-%ld", t && *t ? t : "/tmp", (long)getpid());
    BASELEN = strlen(BASE);
    if(rawMkdir(BASE, 0755) != 0 && errno != EEXIST) die(BASE);
  }
  if(chdir(BASE) != 0) die("chdir");
  rawRemoveTree(BASE, false);
  snprintf(p, sizeof(p), "%s/s", BASE); if(rawMkdir(p, 0755) != 0) die(p);
  snprintf(p, sizeof(p), "%s/o", BASE); if(rawMkdir(p, 0755) != 0) die(p);
  snprintf(p, sizeof(p), "%s/o/of", BASE); rawWriteFile(p, "OUT", 3);
  snprintf(p, sizeof(p), "%s/o/od", BASE); if(rawMkdir(p, 0755) != 0) die(p);
  snprintf(p, sizeof(p), "%s/o/od/x", BASE); rawWriteFile(p, "X", 1);
  snprintf(p, sizeof(p), "%s/s", BASE); if(chdir(p) != 0) die("chdir s");
  g_sf_mode = -1; g_mk_countdown = -1; g_dt_mode = 0;
}

static void fsCleanup()
{
  if(BASE[0])
  {
    if(chdir("/") != 0) {}
    rawRemoveTree(BASE, true);
  }
}

// snapshot of the whole world
static char** snapLines; static size_t snapN, snapCap;
static void snapAdd(char* l)
{
  if(snapN == snapCap) { snapCap = snapCap ? snapCap * 2 : 64; snapLines = (char**)realloc(snapLines, snapCap * sizeof(char*)); }
  snapLines[snapN++] = l;
}
static void hexInto(char*& w, const char* data, size_t len)
{
  static const char* d = "0123456789abcdef";
  if(!len) { *w++ = '-'; return; }
  for(size_t i = 0; i < len; ++i) { *w++ = d[(unsigned char)data[i] >> 4]; *w++ = d[(unsigned char)data[i] & 15]; }
}
static void snapWalk(const char* abs, const char* rel)
{
  DIR* d = opendir(abs);
  if(!d) return;
  struct dirent* e;
  while((e = readdir(d)))
  {
    if(!strcmp(e->d_name, ".") || !strcmp(e->d_name, "..")) continue;
    char sub[2048], subrel[2048];
    snprintf(sub, sizeof(sub), "%s/%s", abs, e->d_name);
    snprintf(subrel, sizeof(subrel), "%s%s%s", rel, *rel ? "/" : "", e->d_name);
    struct stat st;
    if(lstat(sub, &st) != 0) continue;
    if(S_ISDIR(st.st_mode))
    {
      char* l = (char*)malloc(2 * strlen(subrel) + 8); char* w = l;
      *w++ = 'd'; *w++ = ':'; hexInto(w, subrel, strlen(subrel)); *w = 0;
      snapAdd(l);
      snapWalk(sub, subrel);
    }
    else if(S_ISLNK(st.st_mode))
    {
      char tgt[2048];
      ssize_t n = readlink(sub, tgt, sizeof(tgt) - 1);
      if(n < 0) n = 0;
      tgt[n] = 0;
      const char* t = tgt;
      if((size_t)n >= BASELEN && !strncmp(tgt, BASE, BASELEN) && (tgt[BASELEN] == '/' || !tgt[BASELEN])) t = tgt + BASELEN;
      char* l = (char*)malloc(2 * strlen(subrel) + 2 * strlen(t) + 8); char* w = l;
      *w++ = 'l'; *w++ = ':'; hexInto(w, subrel, strlen(subrel)); *w++ = ':'; hexInto(w, *t ? t : "/", *t ? strlen(t) : 1); *w = 0;
      snapAdd(l);
    }
    else
    {
      char* buf = (char*)malloc((size_t)st.st_size + 1);
      int fd = open(sub, O_RDONLY | O_CLOEXEC);
      ssize_t n = fd >= 0 ? read(fd, buf, (size_t)st.st_size) : 0;
      if(fd >= 0) close(fd);
      if(n < 0) n = 0;
      char* l = (char*)malloc(2 * strlen(subrel) + 2 * (size_t)n + 8); char* w = l;
      *w++ = 'f'; *w++ = ':'; hexInto(w, subrel, strlen(subrel)); *w++ = ':'; hexInto(w, buf, (size_t)n); *w = 0;
      free(buf);
      snapAdd(l);
    }
  }
  closedir(d);
}
static int cmpStr(const void* a, const void* b) { return strcmp(*(char* const*)a, *(char* const*)b); }
static void putSnapshot()
{
  snapN = 0;
  snapWalk(BASE, "");
  qsort(snapLines, snapN, sizeof(char*), cmpStr);
  printf(" |");
  for(size_t i = 0; i < snapN; ++i) { printf(" %s", snapLines[i]); free(snapLines[i]); }
  hxEndLine();
}

// paths that lexically climb above the world root are rejected (the model's root is the real BASE directory)
static bool lexInside(const char* p, size_t n)
{
  long depth = (n && p[0] == '/') ? 0 : 1;
  size_t i = 0;
  while(i < n)
  {
    while(i < n && p[i] == '/') ++i;
    size_t b = i;
    while(i < n && p[i] != '/') ++i;
    size_t len = i - b;
    if(len == 0 || (len == 1 && p[b] == '.')) continue;
    if(len == 2 && p[b] == '.' && p[b + 1] == '.') { if(--depth < 0) return false; }
    else ++depth;
  }
  return true;
}

// op-line path -> real path (absolute paths live under BASE)
static String xl(const char* tok, bool& ok)
{
  size_t n = 0;
  char* p = hxCStr(tok, n);
  if(!lexInside(p, n)) ok = false;
  String r;
  if(n && p[0] == '/') r.append(BASE, BASELEN);
  r.append(p, n);
  free(p);
  return r;
}

static bool lastIsName(const String& s)
{
  const char* p = s; size_t n = s.length();
  while(n && p[n - 1] == '/') --n;
  size_t e = n;
  while(n && p[n - 1] != '/') --n;
  size_t len = e - n;
  if(len == 0) return false;
  if(len == 1 && p[n] == '.') return false;
  if(len == 2 && p[n] == '.' && p[n + 1] == '.') return false;
  return true;
}

// the model keeps the working directory and its ancestors: arguments resolving to them are rejected
static bool hitsCwd(const String& p)
{
  char real[4096];
  if(!realpath(p, real)) return false;
  char cwdp[1024];
  snprintf(cwdp, sizeof(cwdp), "%s/s", BASE);
  size_t n = strlen(real);
  if(n == 1 && real[0] == '/') return true;
  return strncmp(cwdp, real, n) == 0 && (cwdp[n] == '/' || cwdp[n] == 0);
}

static bool purgeOk(const String& s)
{
  const char* p = s; size_t n = s.length(), i = 0; bool any = false;
  if(n && p[0] == '/') return false;
  for(size_t k = 0; k < n; ++k) if(p[k] == '\\') return false;   // purge climbs with File::getDirectoryName, which splits at '\\' too
  while(i < n)
  {
    while(i < n && p[i] == '/') ++i;
    size_t b = i;
    while(i < n && p[i] != '/') ++i;
    size_t len = i - b;
    if(!len) continue;
    any = true;
    if((len == 1 && p[b] == '.') || (len == 2 && p[b] == '.' && p[b + 1] == '.')) return false;
  }
  return any;
}

static int cmpHexName(const void* a, const void* b) { return strcmp(*(char* const*)a, *(char* const*)b); }

static void runScript(File& f, char* script)
{
  for(char* it = strtok(script, ","); it; it = strtok(0, ","))
  {
    if(it[0] == 'w')
    {
      size_t n = 0; char* d = hxCStr(it + 1, n);
      String data(d, n); free(d);
      printf(" w=%d", f.write(data) ? 1 : 0);
    }
    else if(it[0] == 'r')
    {
      String d;
      if(f.readAll(d)) { printf(" r="); hxPutHex((const char*)d, d.length()); }
      else printf(" r=fail");
    }
    else if(it[0] == 'z') printf(" z=%lld", (long long)f.size());
    else if(it[0] == 'p' && it[1])
    { // File::read(buffer, len) into an exactly sized heap block (ASan sees a write past `len`)
      size_t len = (size_t)strtoul(it + 1, 0, 10);
      if(len > 4096) { printf(" bad"); return; }
      char* b = (char*)malloc(len ? len : 1);
      ssize r = f.read(b, len);
      if(r < 0) printf(" p=fail"); else { printf(" p="); hxPutHex(b, (size_t)r); }
      free(b);
    }
    else if(it[0] == 'v' && !it[1])
    { // File::write(const void*, usize) answers the byte count
      printf(" v=%lld", (long long)f.write("VW", 2));
    }
    else if(it[0] == 'Z' && it[1] >= '0' && it[1] <= '3' && !it[2])
    { g_ls_countdown = it[1] - '0'; printf(" z=%lld", (long long)f.size()); g_ls_countdown = -1; }
    else if(it[0] == 'R' && it[1] >= '0' && it[1] <= '3' && !it[2])
    {
      String d;
      g_ls_countdown = it[1] - '0';
      bool r = f.readAll(d);
      g_ls_countdown = -1;
      if(r) { printf(" r="); hxPutHex((const char*)d, d.length()); } else printf(" r=fail");
    }
    else if(it[0] == 'S' && it[1] >= '0' && it[1] <= '2' && it[2] == ':')
    {
      g_ls_countdown = 0;
      printf(" s=%lld", (long long)f.seek((int64)strtoll(it + 3, 0, 10), (File::Position)(it[1] - '0')));
      g_ls_countdown = -1;
    }
    else if(it[0] == 'i' && !it[1]) printf(" i=%d", f.isOpen() ? 1 : 0);
    else if(it[0] == 'o' && !it[1]) printf(" o=%d", f.open(String("nstd-verif-never-opened"), File::writeFlag) ? 1 : 0);
    else if(it[0] == 'f' && !it[1]) printf(" f=%d", f.flush() ? 1 : 0);
    else if(it[0] == 's' && it[1] >= '0' && it[1] <= '2' && it[2] == ':')
      printf(" s=%lld", (long long)f.seek((int64)strtoll(it + 3, 0, 10), (File::Position)(it[1] - '0')));
    else { printf(" bad"); return; }
  }
}

// number of descriptors the process holds right now (the listing itself costs one: constant)
static int countFds()
{
  DIR* d = opendir("/proc/self/fd");
  if(!d) die("opendir /proc/self/fd");
  int n = 0;
  while(realReaddir(d)) ++n;
  closedir(d);
  return n;
}

// fsobj <script>: life cycle of three File objects (o<i>:<path>:<flags> open, c<i> close, q<i> isOpen, x<i> destructor +
// fresh object, k:<src>:<dst>:<n> File::copy with the n-th lseek failing); every item answers its result and the number
// of descriptors the process holds beyond the count at the start of the line; at the end every object is destroyed
static bool objScript(const char* script)
{
  File* obj[3] = {new File, new File, new File};
  Directory* dobj[3] = {new Directory, new Directory, new Directory};
  int base = countFds();
  bool good = true;
  char* copy = strdup(script);
  char* save = 0;
  for(char* it = strtok_r(copy, ",", &save); it && good; it = strtok_r(0, ",", &save))
  {
    char c = it[0];
    if(c == 'k')
    {
      char* s2 = 0;
      char* t0 = strtok_r(it, ":", &s2); (void)t0;
      char* a = strtok_r(0, ":", &s2); char* b = strtok_r(0, ":", &s2); char* n = strtok_r(0, ":", &s2);
      if(!a || !b || !n || (n[0] != '0' && n[0] != '1') || n[1]) { good = false; break; }
      bool ok = true;
      String src = xl(a, ok), dst = xl(b, ok);
      if(!ok) { good = false; break; }
      long before = g_total_ls;
      g_ls_countdown = n[0] - '0';
      bool r = File::copy(src, dst, false);
      g_ls_countdown = -1;
      printf(" k=%d/%d fired=%d", r ? 1 : 0, countFds() - base, g_total_ls != before ? 1 : 0);
      continue;
    }
    int i = it[1] - '0';
    if(i < 0 || i > 2) { good = false; break; }
    if(c == 'O')
    { // Directory::open on Directory object i
      char* s2 = 0;
      char* t0 = strtok_r(it, ":", &s2); (void)t0;
      char* a = strtok_r(0, ":", &s2);
      if(!a || strtok_r(0, ":", &s2)) { good = false; break; }
      bool ok = true;
      String path = xl(a, ok);
      if(!ok) { good = false; break; }
      bool r = dobj[i]->open(path, String(), false);
      printf(" O=%d/%d", r ? 1 : 0, countFds() - base);
    }
    else if(c == 'C' && !it[2]) { dobj[i]->close(); printf(" C=1/%d", countFds() - base); }
    else if(c == 'X' && !it[2]) { delete dobj[i]; dobj[i] = new Directory; printf(" X=1/%d", countFds() - base); }
    else if(c == 'o')
    {
      char* s2 = 0;
      char* t0 = strtok_r(it, ":", &s2); (void)t0;
      char* a = strtok_r(0, ":", &s2); char* fl = strtok_r(0, ":", &s2);
      if(!a || !fl || (strcmp(fl, "1") && strcmp(fl, "5"))) { good = false; break; }
      bool ok = true;
      String path = xl(a, ok);
      if(!ok) { good = false; break; }
      bool r = obj[i]->open(path, (uint)atoi(fl));
      printf(" o=%d/%d", r ? 1 : 0, countFds() - base);
    }
    else if(c == 'c' && !it[2]) { obj[i]->close(); printf(" c=1/%d", countFds() - base); }
    else if(c == 'q' && !it[2]) { bool r = obj[i]->isOpen(); printf(" q=%d/%d", r ? 1 : 0, countFds() - base); }
    else if(c == 'x' && !it[2]) { delete obj[i]; obj[i] = new File; printf(" x=1/%d", countFds() - base); }
    else good = false;
  }
  free(copy);
  for(int i = 0; i < 3; ++i) { delete obj[i]; delete dobj[i]; }
  printf(" end=%d", countFds() - base);
  if(!good) printf(" bad");
  return good;
}

static bool g_needReset = true;
// returns false when the line is no fs op (or a rejected one)
static bool fsOp(HxLine& l)
{
  bool ok = true;
  if(l.ntok < 2 || strncmp(l.tok[0], "fs", 2) != 0) return false;
  if(g_needReset) { fsReset(); g_needReset = false; }
  if(hxIs(l, "fsabspath", 1))
  {
    size_t n = 0; char* raw = hxCStr(l.tok[1], n);
    String a = File::getAbsolutePath(String(raw, n)); free(raw);
    const char* t = a; size_t tl = a.length();
    if(tl >= BASELEN && !strncmp(t, BASE, BASELEN) && (t[BASELEN] == '/' || !t[BASELEN])) { t += BASELEN; tl -= BASELEN; }
    hxPutHex(t, tl);
    putSnapshot();
    return true;
  }
  if(hxIs(l, "fsobj", 1))
  {
    printf("obj");
    objScript(l.tok[1]);
    putSnapshot();
    return true;
  }
  if(hxIs(l, "fsconst", 1))
  {
    String tmp = Directory::getTempDirectory();
    String home = Directory::getHomeDirectory();
    const struct passwd* pw = getpwuid(geteuid());
    printf("tmp="); hxPutHex((const char*)tmp, tmp.length());
    printf(" home=%d", pw ? (strcmp(pw->pw_dir, home) == 0 ? 1 : 0) : (home.isEmpty() ? 1 : 0));
    putSnapshot();
    return true;
  }
  String p = xl(l.tok[1], ok);
  if(!ok) return false;
  if(hxIs(l, "fsmkdir", 1)) printf("%d", rawMkdir(p, 0755) == 0 ? 1 : 0);
  else if(hxIs(l, "fsmkfile", 2))
  {
    size_t n = 0; char* d = hxCStr(l.tok[2], n);
    int fd = open(p, O_CREAT | O_TRUNC | O_WRONLY | O_CLOEXEC, 0644);
    if(fd >= 0) { if(n && write(fd, d, n) != (ssize_t)n) die("write"); close(fd); }
    free(d);
    printf("%d", fd >= 0 ? 1 : 0);
  }
  else if(hxIs(l, "fssymlink", 2))
  {
    String q = xl(l.tok[2], ok);
    if(!ok) return false;
    printf("%d", File::createSymbolicLink(p, q) ? 1 : 0);
  }
  else if(hxIs(l, "fscreate", 1)) printf("%d", Directory::create(p) ? 1 : 0);
  else if(hxIs(l, "fscreateabs", 1))
  {
    if(((const char*)p)[0] == '/') return false;
    String q(BASE, BASELEN); q.append("/s/"); q.append(p);
    printf("%d", Directory::create(q) ? 1 : 0);
  }
  else if(hxIs(l, "fscreatef", 2))
  {
    g_mk_countdown = (long)hxNum(l, 2); g_mk_fired = 0;
    bool r = Directory::create(p);
    g_mk_countdown = -1;
    printf("%d fired=%d", r ? 1 : 0, g_mk_fired);
  }
  else if(hxIs(l, "fspurge", 2))
  {
    size_t n0 = 0; char* raw = hxCStr(l.tok[1], n0); String rawp(raw, n0); free(raw);
    if(!purgeOk(rawp) || hitsCwd(p) || (l.tok[2][0] != '0' && l.tok[2][0] != '1') || l.tok[2][1]) return false;
    printf("%d", Directory::purge(p, l.tok[2][0] == '1') ? 1 : 0);
  }
  else if(hxIs(l, "fsrmdir", 2))
  {
    if(hitsCwd(p)) return false;
    if( (l.tok[2][0] != '0' && l.tok[2][0] != '1') || l.tok[2][1]) return false;
    printf("%d", Directory::unlink(p, l.tok[2][0] == '1') ? 1 : 0);
  }
  else if(hxIs(l, "fsunlink", 1))
  {
    if(!lastIsName(p)) return false;
    printf("%d", File::unlink(p) ? 1 : 0);
  }
  else if(hxIs(l, "fsrename", 3) || hxIs(l, "fscopy", 3) || hxIs(l, "fscopyf", 4))
  {
    String q = xl(l.tok[2], ok);
    if(!ok || !lastIsName(q) || (l.tok[3][0] != '0' && l.tok[3][0] != '1') || l.tok[3][1]) return false;
    bool fie = l.tok[3][0] == '1';
    if(hxIs(l, "fsrename", 3))
    {
      if(!lastIsName(p) || hitsCwd(p)) return false;
      printf("%d", File::rename(p, q, fie) ? 1 : 0);
    }
    else if(hxIs(l, "fscopy", 3)) printf("%d", File::copy(p, q, fie) ? 1 : 0);
    else
    {
      if((l.tok[4][0] != '0' && l.tok[4][0] != '1') || l.tok[4][1]) return false;
      g_sf_mode = l.tok[4][0] - '0'; g_sf_fired = 0;
      bool r = File::copy(p, q, fie);
      g_sf_mode = -1;
      printf("%d fired=%d", r ? 1 : 0, g_sf_fired);
    }
  }
  else if(hxIs(l, "fsexists", 1))
  {
    File::Time tm; tm.writeTime = tm.accessTime = tm.creationTime = -1;
    bool t = File::time(p, tm);
    // the time stamps themselves are not compared (wall clock); a successful call must have filled them in
    bool filled = tm.writeTime > 0 && tm.accessTime > 0 && tm.creationTime > 0;
    printf("%d %d %d %d", File::exists(p) ? 1 : 0, Directory::exists(p) ? 1 : 0, t ? (filled ? 1 : 2) : 0, File::isExecutable(p) ? 1 : 0);
  }
  else if(hxIs(l, "fsreadall", 1))
  {
    String d;
    if(File::readAll(p, d)) { printf("1 "); hxPutHex((const char*)d, d.length()); }
    else printf("0");
  }
  else if(hxIs(l, "fsls", 1))
  {
    Directory d;
    if(!d.open(p, String(), false)) printf("ls=0");
    else
    {
      char* items[256]; size_t n = 0;
      String name; bool isDir;
      while(n < 256 && d.read(name, isDir))
      {
        char* it = (char*)malloc(2 * name.length() + 8); char* w = it;
        hexInto(w, name, name.length()); *w++ = ':'; *w++ = isDir ? '1' : '0'; *w = 0;
        items[n++] = it;
      }
      qsort(items, n, sizeof(char*), cmpHexName);
      printf("ls=1");
      for(size_t i = 0; i < n; ++i) { printf(" %s", items[i]); free(items[i]); }
    }
  }
  else if(hxIs(l, "fslsp", 4))
  {
    size_t pn = 0; char* praw = hxCStr(l.tok[2], pn); String pat(praw, pn); free(praw);
    for(size_t k = 0; k < pn; ++k) if(((const char*)pat)[k] == '[' || ((const char*)pat)[k] == '\\') return false;   // outside the modelled fragment of fnmatch
    if((l.tok[3][0] != '0' && l.tok[3][0] != '1') || l.tok[3][1] || l.tok[4][0] < '0' || l.tok[4][0] > '2' || l.tok[4][1]) return false;
    Directory d;
    g_dt_mode = l.tok[4][0] - '0';
    if(!d.open(p, pat, l.tok[3][0] == '1')) { g_dt_mode = 0; printf("ls=0"); }
    else
    {
      bool again = d.open(p, pat, false);          // an open Directory object refuses a second open
      char* items[256]; size_t n = 0;
      String name; bool isDir;
      while(n < 256 && d.read(name, isDir))
      {
        char* it = (char*)malloc(2 * name.length() + 8); char* w = it;
        hexInto(w, name, name.length()); *w++ = ':'; *w++ = isDir ? '1' : '0'; *w = 0;
        items[n++] = it;
      }
      g_dt_mode = 0;
      qsort(items, n, sizeof(char*), cmpHexName);
      printf("ls=1");
      for(size_t i = 0; i < n; ++i) { printf(" %s", items[i]); free(items[i]); }
      d.close();
      bool afterClose = d.read(name, isDir);       // a closed Directory object reads nothing
      d.close();
      printf(" again=%d afterclose=%d", again ? 1 : 0, afterClose ? 1 : 0);
    }
  }
  else if(hxIs(l, "fsrmdiru", 3))
  {
    if(hitsCwd(p)) return false;
    if((l.tok[2][0] != '0' && l.tok[2][0] != '1') || l.tok[2][1] || l.tok[3][0] < '0' || l.tok[3][0] > '2' || l.tok[3][1]) return false;
    g_dt_mode = l.tok[3][0] - '0';
    bool r = Directory::unlink(p, l.tok[2][0] == '1');
    g_dt_mode = 0;
    printf("%d", r ? 1 : 0);
  }
  else if(hxIs(l, "fscd", 2))
  {
    size_t qn = 0; char* qraw = hxCStr(l.tok[2], qn);
    bool dots = false;          // the second path is resolved from the new working directory: no ".." (it could climb above the world)
    for(size_t i = 0; i < qn; )
    {
      while(i < qn && qraw[i] == '/') ++i;
      size_t b = i;
      while(i < qn && qraw[i] != '/') ++i;
      if(i - b == 2 && qraw[b] == '.' && qraw[b + 1] == '.') dots = true;
    }
    String rawq(qraw, qn); free(qraw);
    String q = xl(l.tok[2], ok);
    if(!ok || dots) return false;
    bool r = Directory::change(p);
    String cw = Directory::getCurrentDirectory();
    const char* t = cw; size_t tl = cw.length();
    if(tl >= BASELEN && !strncmp(t, BASE, BASELEN) && (t[BASELEN] == '/' || !t[BASELEN])) { t += BASELEN; tl -= BASELEN; }
    printf("cd=%d cwd=", r ? 1 : 0); hxPutHex(t, tl);
    String a = File::getAbsolutePath(qn && ((const char*)rawq)[0] == '/' ? q : rawq);
    t = a; tl = a.length();
    if(tl >= BASELEN && !strncmp(t, BASE, BASELEN) && (t[BASELEN] == '/' || !t[BASELEN])) { t += BASELEN; tl -= BASELEN; }
    printf(" abs="); hxPutHex(t, tl);
    printf(" e=%d d=%d ea=%d da=%d", File::exists(q) ? 1 : 0, Directory::exists(q) ? 1 : 0, File::exists(a) ? 1 : 0, Directory::exists(a) ? 1 : 0);
    char back[1024]; snprintf(back, sizeof(back), "%s/s", BASE);
    if(chdir(back) != 0) die("chdir back");
  }
  else if(hxIs(l, "fsopenf", 2))
  {
    unsigned long flags = hxNum(l, 2);
    if(flags >= 16) return false;
    File f;
    long before = g_total_ls;
    g_ls_countdown = 0;
    bool r = f.open(p, (uint)flags);
    g_ls_countdown = -1;
    printf("open=%d fired=%d", r ? 1 : 0, g_total_ls != before ? 1 : 0);
    f.close();
  }
  else if(hxIs(l, "fscdl", 2))
  {
    unsigned long need = hxNum(l, 2);
    if(need > 100000) return false;
    bool r = Directory::change(p);
    (void)r;
    g_cwd_need = need;
    String cw = Directory::getCurrentDirectory();
    g_cwd_need = 0;
    const char* t = cw; size_t tl = cw.length();
    if(tl >= BASELEN && !strncmp(t, BASE, BASELEN) && (t[BASELEN] == '/' || !t[BASELEN])) { t += BASELEN; tl -= BASELEN; }
    if(cw.isEmpty()) printf("cwd=fail"); else { printf("cwd="); hxPutHex(t, tl); }
    char back[1024]; snprintf(back, sizeof(back), "%s/s", BASE);
    if(chdir(back) != 0) die("chdir back");
  }
  else if(hxIs(l, "fsfile", 3))
  {
    unsigned long flags = hxNum(l, 2);
    if(flags >= 16) return false;
    File f;
    if(!f.open(p, (uint)flags)) printf("open=0");
    else
    {
      printf("open=1");
      runScript(f, l.tok[3]);
      f.close();
      printf(" closed=%d", f.isOpen() ? 0 : 1);
    }
  }
  else return false;
  putSnapshot();
  return true;
}

int main()
{
  HxLine l;
  atexit(fsCleanup);
  umask(022);
  while(hxRead(l))
  {
    if(hxIs(l, "reset", 0)) { g_needReset = true; printf("ok"); hxEndLine(); continue; }
    if(pathOp(l)) continue;
    if(wildOp(l)) continue;
    if(fsOp(l)) continue;
    printf("bad-op"); hxEndLine();
  }
  fprintf(stderr, "faults-fired sendfile=%ld mkdir=%ld dtype-unknown=%ld lseek=%ld getcwd-erange=%ld\n", g_total_sf, g_total_mk, g_total_dt, g_total_ls, g_total_cwd);
  return 0;
}
