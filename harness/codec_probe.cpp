// Probe of the Codec translator (tools/gen_codec.py): built from the CURRENT sources and executed at
// translation time; prints the finite tables that are derived by execution rather than from the
// shape of the source text.  `Unicode::length(char)` is a pure function of one byte: its 256 values
// are the table `utf8LengthTable` of lean/Nstd/Generated/CodecTables.lean.
// `String::isSpace(char)`, `String::toLowerCase(char)`, `String::toUpperCase(char)` likewise (the case maps are data of
// src/String.cpp, so the probe links String.cpp and Memory.cpp of the current sources).
#include <stdio.h>
#include <stdarg.h>
#include <nstd/Unicode.hpp>
#include <nstd/Debug.hpp>

int Debug::printf(const char* format, ...) { (void)format; return 0; }

int main()
{
  printf("length");
  for(int b = 0; b < 256; ++b)
    printf(" %lu", (unsigned long)Unicode::length((char)(unsigned char)b));
  printf("\n");
  printf("isspace");
  for(int b = 0; b < 256; ++b)
    printf(" %d", String::isSpace((char)(unsigned char)b) ? 1 : 0);
  printf("\nlower");
  for(int b = 0; b < 256; ++b)
    printf(" %u", (unsigned)(unsigned char)String::toLowerCase((char)(unsigned char)b));
  printf("\nupper");
  for(int b = 0; b < 256; ++b)
    printf(" %u", (unsigned)(unsigned char)String::toUpperCase((char)(unsigned char)b));
  printf("\nhex");
  for(int b = 0; b < 256; ++b)
  {
    byte x = (byte)b;
    String h = String::fromHex(&x, 1);
    const char* t = h;
    printf(" %u %u", h.length() == 2 ? (unsigned)(unsigned char)t[0] : 999u, h.length() == 2 ? (unsigned)(unsigned char)t[1] : 999u);
  }
  printf("\n");
  return 0;
}
