// Probe of the Codec translator (tools/gen_codec.py): built from the CURRENT sources and executed at
// translation time; prints the finite tables that are derived by execution rather than from the
// shape of the source text.  `Unicode::length(char)` is a pure function of one byte: its 256 values
// are the table `utf8LengthTable` of lean/Nstd/Generated/CodecTables.lean.
#include <stdio.h>
#include <nstd/Unicode.hpp>

int main()
{
  printf("length");
  for(int b = 0; b < 256; ++b)
    printf(" %lu", (unsigned long)Unicode::length((char)(unsigned char)b));
  printf("\n");
  return 0;
}
