// Line-protocol harness for the Rc area (property C09): shared payloads of String, Variant,
// Xml::Variant and RefCount::Ptr on the REAL headers, with a ledger allocator and (for the
// `run` lines) a controlled scheduler in which every atomic operation on a payload's reference
// counter -- and, when the hook patch is applied, every plain read of the counter that guards
// an in-place write and that write -- is a scheduling point.  Protocol: lean/Nstd/Rc/Driver.lean.
#include "common/hx.h"
#include <pthread.h>
#include <semaphore.h>
#include <stdarg.h>
#if defined(__SANITIZE_ADDRESS__)
#include <sanitizer/asan_interface.h>
#else
#define ASAN_POISON_MEMORY_REGION(a, s) ((void)(a), (void)(s))
#define ASAN_UNPOISON_MEMORY_REGION(a, s) ((void)(a), (void)(s))
#endif

// ---- atomics of Atomic.hpp become calls into the scheduler (function-like macros over the builtins)
static long nvAtomicAdd(volatile void* p, long delta, int width);
template<typename T, typename V> static inline T nv_sync_add_and_fetch(volatile T* p, V v)
{
  return (T)nvAtomicAdd((volatile void*)p, (long)v, (int)sizeof(T));
}
#define __sync_add_and_fetch(p, v) nv_sync_add_and_fetch(p, v)

#define private public
#define protected public
#include <nstd/String.hpp>
#include <nstd/Variant.hpp>
#include <nstd/RefCount.hpp>
#include <nstd/Document/Xml.hpp>
#undef private
#undef protected
#include <nstd/Debug.hpp>

// Xml.cpp (parser, file access) is not linked; its one definition the value class needs:
Xml::Variant::NullData Xml::Variant::nullData;

int Debug::printf(const char* format, ...)
{
  va_list ap;
  va_start(ap, format);
  fputs("FAULT assertion: ", stdout);
  vfprintf(stdout, format, ap);
  va_end(ap);
  fflush(stdout);
  abort();
  return 0;
}

// ---- ledger allocator ---------------------------------------------------------------------------
// Memory is not handed back to malloc before the next `reset` (block addresses are never
// reused, a dangling handle or a second release is an *observation* of the ledger); a released
// block is overwritten with 0xDD and ASan-poisoned, so every later access to it aborts.
enum { MAXREC = 1 << 14 };
struct Rec
{
  char* addr;
  size_t size;
  int frees;
  bool payload;
  int kind;   // 0 String 1 Variant 2 Xml::Variant 3 Ptr
  int pid;
};
static Rec rec[MAXREC];
static int nrec;
static int npid;
static int pidRec[MAXREC];
static int badEvents;
static __thread int curKind = -1;

static const size_t SZ_VSTR = sizeof(Variant::Data) + sizeof(String);
static const size_t SZ_VLIST = sizeof(Variant::Data) + sizeof(List<Variant>);
static const size_t SZ_XTEXT = sizeof(Xml::Variant::Data) + sizeof(String);
static const size_t SZ_XELEM = sizeof(Xml::Variant::Data) + sizeof(Xml::Element);

struct Obj : public RefCount::Object
{
  int val;
  Obj(int val) : val(val) {}
  ~Obj();
};

static bool isPayloadAlloc(size_t size, bool array)
{
  switch(curKind)
  {
  case 0: return array;
  case 1: return array && (size == SZ_VSTR || size == SZ_VLIST);
  case 2: return array && (size == SZ_XTEXT || size == SZ_XELEM);
  case 3: return !array && size == sizeof(Obj);
  default: return false;
  }
}

static void* ledgerAlloc(size_t size, bool array)
{
  if(nrec >= MAXREC)
  {
    printf("FAULT ledger full\n");
    fflush(stdout);
    abort();
  }
  char* p = (char*)malloc(size ? size : 1);
  memset(p, 0xAA, size);
  Rec& r = rec[nrec++];
  r.addr = p;
  r.size = size;
  r.frees = 0;
  r.payload = isPayloadAlloc(size, array);
  r.kind = curKind;
  r.pid = -1;
  return p;
}

static Rec* findRec(const volatile void* p)
{
  const char* c = (const char*)p;
  for(int i = nrec - 1; i >= 0; --i)
    if(c >= rec[i].addr && c < rec[i].addr + (rec[i].size ? rec[i].size : 1))
      return &rec[i];
  return 0;
}

static void ledgerFree(void* p)
{
  if(!p)
    return;
  Rec* r = findRec(p);
  if(!r || r->addr != (char*)p)
  {
    ++badEvents;
    return;
  }
  if(++r->frees > 1)
    ++badEvents;
  else
  {
    // any later access of library code to the released block (plain read of the counter, copy of
    // the content, atomic operation) is reported by ASan as use-after-poison
    memset(r->addr, 0xDD, r->size);
    ASAN_POISON_MEMORY_REGION(r->addr, r->size);
  }
}

void* operator new[](usize size) { return ledgerAlloc(size, true); }
void operator delete[](void* p) { ledgerFree(p); }
void* operator new(usize size) { return ledgerAlloc(size, false); }
void operator delete(void* p) { ledgerFree(p); }
void operator delete(void* p, unsigned long) { ledgerFree(p); }
void operator delete[](void* p, unsigned long) { ledgerFree(p); }

static int objDtorOnDead;
Obj::~Obj()
{
  Rec* r = findRec(this);
  if(!r || r->frees > 0)
    ++objDtorOnDead;
}

// ---- the handles ---------------------------------------------------------------------------------
typedef RefCount::Ptr<Obj> ObjPtr;
static const int NV = 4;
alignas(16) static unsigned char stS[NV][sizeof(String)];
alignas(16) static unsigned char stV[NV][sizeof(Variant)];
alignas(16) static unsigned char stX[NV][sizeof(Xml::Variant)];
alignas(16) static unsigned char stP[NV][sizeof(ObjPtr)];
static String* S[NV];
static Variant* V[NV];
static Xml::Variant* X[NV];
static ObjPtr* P[NV];
static char litbuf[NV][80];
static bool constructed;

static void destroyAll()
{
  if(!constructed)
    return;
  for(int i = 0; i < NV; ++i)
  {
    curKind = 0; S[i]->~String();
    curKind = 1; V[i]->~Variant();
    curKind = 2; X[i]->~Variant();
    curKind = 3; P[i]->~ObjPtr();
  }
  curKind = -1;
  constructed = false;
}

static void constructAll()
{
  for(int i = 0; i < NV; ++i)
  {
    S[i] = new(stS[i]) String;
    V[i] = new(stV[i]) Variant;
    X[i] = new(stX[i]) Xml::Variant;
    P[i] = new(stP[i]) ObjPtr;
  }
  constructed = true;
}

static void resetAll()
{
  destroyAll();
  for(int i = 0; i < nrec; ++i)
  {
    ASAN_UNPOISON_MEMORY_REGION(rec[i].addr, rec[i].size);
    free(rec[i].addr);
  }
  nrec = 0;
  npid = 0;
  badEvents = 0;
  objDtorOnDead = 0;
  constructAll();
}

// ---- observation -----------------------------------------------------------------------------------
static int dangling;

static void putBlockTok(const void* p)
{
  Rec* r = findRec(p);
  if(!r || r->addr != (const char*)p || !r->payload)
  {
    printf("X");        // pointer to something that is not a payload block
    ++dangling;
    return;
  }
  if(r->pid < 0)
  {
    r->pid = npid;
    pidRec[npid++] = (int)(r - rec);
  }
  if(r->frees > 0)
    ++dangling;         // handle designates a released payload
  printf("b%d", r->pid);
}

static void putHandles()
{
  for(int i = 0; i < NV; ++i)
  {
    String::Data* d = S[i]->data;
    if(d == &String::emptyData) printf("n");
    else if(d == &S[i]->_data) { printf("i0."); hxPutHex(d->str, d->len); }
    else putBlockTok(d);
    printf(" ");
  }
  for(int i = 0; i < NV; ++i)
  {
    Variant::Data* d = V[i]->data;
    if(d == &Variant::nullData || (d == &V[i]->_data && d->type == Variant::nullType)) printf("n");
    else if(d == &V[i]->_data)
    {
      unsigned char b = (unsigned char)d->data.intData;
      printf("i%d.", d->type == Variant::intType ? 11 : 100 + (int)d->type);
      hxPutHex(&b, 1);
    }
    else putBlockTok(d);
    printf(" ");
  }
  for(int i = 0; i < NV; ++i)
  {
    Xml::Variant::Data* d = X[i]->data;
    if(d == &Xml::Variant::nullData) printf("n");
    else putBlockTok(d);
    printf(" ");
  }
  for(int i = 0; i < NV; ++i)
  {
    if(!P[i]->refObj && !P[i]->obj) printf("n");
    else if((RefCount::Object*)P[i]->obj != P[i]->refObj)
    {
      // the handle counts one object and points to another one
      if(P[i]->refObj) putBlockTok(P[i]->refObj); else printf("n");
      printf("!");
      if(P[i]->obj) putBlockTok(P[i]->obj); else printf("n");
      ++dangling;
    }
    else putBlockTok(P[i]->refObj);
    printf(i + 1 < NV ? " " : "");
  }
}

static void putPayload(int pid)
{
  Rec& r = rec[pidRec[pid]];
  if(r.frees == 1) { printf("%d:F", pid); return; }
  if(r.frees > 1) { printf("%d:X%d", pid, r.frees); return; }
  unsigned long ref = 0;
  int tag = -1;
  unsigned char buf[256];
  const void* bytes = buf;
  size_t len = 0;
  switch(r.kind)
  {
  case 0:
  {
    String::Data* d = (String::Data*)r.addr;
    ref = d->ref; tag = 0; bytes = d->str; len = d->len;
    break;
  }
  case 1:
  {
    Variant::Data* d = (Variant::Data*)r.addr;
    ref = d->ref;
    if(d->type == Variant::stringType)
    {
      const String* s = (const String*)(d + 1);
      tag = 12; bytes = s->data->str; len = s->data->len;
    }
    else if(d->type == Variant::listType)
    {
      const List<Variant>* l = (const List<Variant>*)(d + 1);
      tag = 13;
      for(List<Variant>::Iterator i = l->begin(), end = l->end(); i != end && len < sizeof(buf); ++i)
        buf[len++] = (unsigned char)i->toInt();
    }
    else tag = 100 + (int)d->type;
    break;
  }
  case 2:
  {
    Xml::Variant::Data* d = (Xml::Variant::Data*)r.addr;
    ref = d->ref;
    if(d->type == Xml::Variant::textType)
    {
      const String* s = (const String*)(d + 1);
      tag = 22; bytes = s->data->str; len = s->data->len;
    }
    else if(d->type == Xml::Variant::elementType)
    {
      const Xml::Element* e = (const Xml::Element*)(d + 1);
      tag = 23; bytes = e->type.data->str; len = e->type.data->len;
    }
    else tag = 200 + (int)d->type;
    break;
  }
  case 3:
  {
    Obj* o = (Obj*)r.addr;
    ref = ((RefCount::Object*)o)->ref; tag = 30;
    buf[0] = (unsigned char)o->val; len = 1;
    break;
  }
  }
  printf("%d:L:%lu:%d:", pid, ref, tag);
  hxPutHex(bytes, len);
}

static void observe()
{
  dangling = 0;
  putHandles();
  printf(" | ");
  if(npid == 0) printf("-");
  for(int i = 0; i < npid; ++i)
  {
    if(i) printf(" ");
    putPayload(i);
  }
  int live = 0;
  for(int i = 0; i < nrec; ++i)
    if(rec[i].payload && rec[i].frees == 0)
      ++live;
  printf(" | live=%d bad=%d", live, badEvents + dangling + objDtorOnDead);
}

// ---- API calls --------------------------------------------------------------------------------------
struct OpRec
{
  char name[12];
  int a, b;
  unsigned char bytes[80];
  size_t len;
};

static bool parseOp(char** tok, int ntok, OpRec& o)
{
  static const char* const idx2[] = {"scopy", "sassign", "vcopy", "vassign", "vswap", "xcopy", "xassign", "pcopy", "passign", "pswap", 0};
  static const char* const idx1[] = {"sclear", "sdel", "vclear", "xclear", "pclear", 0};
  static const char* const idxNum[] = {"sreserve", "vseti", "vpush", "vsetl", "pnew", 0};
  static const char* const idxHex[] = {"snew", "slit", "sappend", "sset", "vsets", "vapp", "xsets", "xelem", 0};
  if(ntok < 2 || strlen(tok[0]) >= sizeof(o.name))
    return false;
  strcpy(o.name, tok[0]);
  o.len = 0;
  o.b = 0;
  char* end = 0;
  o.a = (int)strtoul(tok[1], &end, 10);
  if(*end || o.a < 0 || o.a >= NV)
    return false;
  for(int i = 0; idx1[i]; ++i)
    if(!strcmp(tok[0], idx1[i]))
      return ntok == 2;
  if(ntok != 3)
    return false;
  for(int i = 0; idx2[i]; ++i)
    if(!strcmp(tok[0], idx2[i]))
    {
      o.b = (int)strtoul(tok[2], &end, 10);
      return !*end && o.b >= 0 && o.b < NV;
    }
  for(int i = 0; idxNum[i]; ++i)
    if(!strcmp(tok[0], idxNum[i]))
    {
      o.b = (int)strtoul(tok[2], &end, 10);
      return !*end && o.b >= 0 && o.b < 256;
    }
  for(int i = 0; idxHex[i]; ++i)
    if(!strcmp(tok[0], idxHex[i]))
    {
      if(!strcmp(tok[2], "-"))
        return true;
      size_t n = strlen(tok[2]);
      if(n % 2 || n / 2 > 64)
        return false;
      for(size_t k = 0; k < n; ++k)
        if(hxNib(tok[2][k]) < 0)
          return false;
      for(size_t k = 0; k < n / 2; ++k)
        o.bytes[k] = (unsigned char)(hxNib(tok[2][2 * k]) * 16 + hxNib(tok[2][2 * k + 1]));
      o.len = n / 2;
      return true;
    }
  return false;
}

static void execOp(const OpRec& o)
{
  const char* n = o.name;
  const int d = o.a, s = o.b;
  const char* bytes = (const char*)o.bytes;
  switch(n[0])
  {
  case 's':
    curKind = 0;
    if(!strcmp(n, "snew")) { S[d]->~String(); new(stS[d]) String(bytes, o.len); }
    else if(!strcmp(n, "slit")) { memcpy(litbuf[d], bytes, o.len); litbuf[d][o.len] = 0; S[d]->attach(litbuf[d], o.len); }
    else if(!strcmp(n, "scopy")) { if(d != s) { S[d]->~String(); new(stS[d]) String(*S[s]); } }
    else if(!strcmp(n, "sassign")) *S[d] = *S[s];
    else if(!strcmp(n, "sclear")) S[d]->clear();
    else if(!strcmp(n, "sappend")) S[d]->append(bytes, o.len);
    else if(!strcmp(n, "sreserve")) S[d]->reserve((usize)s);
    else if(!strcmp(n, "sdel")) { S[d]->~String(); new(stS[d]) String; }
    else if(!strcmp(n, "sset")) *S[d] = String(bytes, o.len);
    break;
  case 'v':
    curKind = 1;
    if(!strcmp(n, "vcopy")) { if(d != s) { V[d]->~Variant(); new(stV[d]) Variant(*V[s]); } }
    else if(!strcmp(n, "vassign")) *V[d] = *V[s];
    else if(!strcmp(n, "vclear")) V[d]->clear();
    else if(!strcmp(n, "vseti")) *V[d] = (int)s;
    else if(!strcmp(n, "vsets")) *V[d] = String(bytes, o.len);
    else if(!strcmp(n, "vapp")) V[d]->toString().append(bytes, o.len);
    else if(!strcmp(n, "vpush")) V[d]->toList().append(Variant((int)s));
    else if(!strcmp(n, "vswap")) V[d]->swap(*V[s]);
    else if(!strcmp(n, "vsetl")) { List<Variant> l; l.append(Variant((int)s)); *V[d] = l; }
    break;
  case 'x':
    curKind = 2;
    if(!strcmp(n, "xcopy")) { if(d != s) { X[d]->~Variant(); new(stX[d]) Xml::Variant(*X[s]); } }
    else if(!strcmp(n, "xassign")) *X[d] = *X[s];
    else if(!strcmp(n, "xclear")) X[d]->clear();
    else if(!strcmp(n, "xsets")) *X[d] = String(bytes, o.len);
    else if(!strcmp(n, "xelem")) X[d]->toElement().type = String(bytes, o.len);
    break;
  case 'p':
    curKind = 3;
    if(!strcmp(n, "pnew")) *P[d] = new Obj(s);
    else if(!strcmp(n, "pcopy")) { if(d != s) { P[d]->~ObjPtr(); new(stP[d]) ObjPtr(*P[s]); } }
    else if(!strcmp(n, "passign")) *P[d] = *P[s];
    else if(!strcmp(n, "pclear")) *P[d] = ObjPtr();
    else if(!strcmp(n, "pswap")) P[d]->swap(*P[s]);
    break;
  }
  curKind = -1;
}

// ---- controlled scheduler ---------------------------------------------------------------------------
enum { NT = 4, MAXPROG = 64, MAXTRACE = 1 << 16 };
struct Worker
{
  OpRec prog[MAXPROG];
  int nprog;
  bool started, finished;
  sem_t go;
  pthread_t th;
};
static Worker wk[NT];
static sem_t ctrl;
static bool running;
static __thread int self = 0;
static char trace[MAXTRACE];
static int tracen;

static void traceTok(const char* fmt, ...)
{
  if(tracen > MAXTRACE - 64)
    return;
  va_list ap;
  va_start(ap, fmt);
  if(tracen) trace[tracen++] = ' ';
  tracen += vsnprintf(trace + tracen, 48, fmt, ap);
  va_end(ap);
}

// the calling worker stops at a scheduling point until the controller grants it the next step
static void schedPoint()
{
  sem_post(&ctrl);
  sem_wait(&wk[self].go);
}

static bool isCounterOfPayload(const volatile void* p)
{
  Rec* r = findRec(p);
  return r && r->payload;
}

static long nvAtomicAdd(volatile void* p, long delta, int width)
{
  bool point = running && self > 0 && isCounterOfPayload(p);
  if(point)
    schedPoint();
  long r = width == 8 ? (long)__atomic_add_fetch((volatile unsigned long*)p, (unsigned long)delta, __ATOMIC_SEQ_CST)
                      : (long)__atomic_add_fetch((volatile unsigned int*)p, (unsigned int)delta, __ATOMIC_SEQ_CST);
  if(point)
  {
    traceTok("%d.%s.%ld", self, delta > 0 ? "inc" : "dec", r);
    // descheduled again right after the atomic operation: the plain code that follows it
    // (delete, stores, a re-read of the counter) is a step of its own
    schedPoint();
    traceTok("%d.go", self);
  }
  return r;
}

#ifdef NSTD_VERIF_RC_HOOKS
extern "C" void nv_rc_yield(const char* where, const volatile void* addr)
{
  if(!(running && self > 0 && isCounterOfPayload(addr)))
    return;
  schedPoint();
  if(where[0] == 'r')
    traceTok("%d.ref.%lu", self, (unsigned long)*(const volatile usize*)addr);
  else
    traceTok("%d.wr", self);
}
static const int haveHooks = 1;
#else
static const int haveHooks = 0;
#endif

static void* workerMain(void* arg)
{
  self = (int)(long)arg;
  Worker& w = wk[self];
  sem_wait(&w.go);
  for(int i = 0; i < w.nprog; ++i)
    execOp(w.prog[i]);
  w.finished = true;
  sem_post(&ctrl);
  return 0;
}

static void grant(int tid)
{
  Worker& w = wk[tid];
  if(w.finished)
  {
    traceTok("%d.idle", tid);
    return;
  }
  if(!w.started)
  {
    w.started = true;
    traceTok("%d.start", tid);
  }
  sem_post(&w.go);
  sem_wait(&ctrl);
}

static void runSchedule(char** tok, int ntok)
{
  tracen = 0;
  trace[0] = 0;
  sem_init(&ctrl, 0, 0);
  for(int t = 1; t < NT; ++t)
  {
    wk[t].started = wk[t].finished = false;
    sem_init(&wk[t].go, 0, 0);
    pthread_create(&wk[t].th, 0, workerMain, (void*)(long)t);
  }
  running = true;
  for(int i = 1; i < ntok; ++i)
    grant(atoi(tok[i]));
  for(int t = 1; t < NT; ++t)
  {
    if(!wk[t].started && wk[t].nprog == 0)
      continue;
    while(!wk[t].finished)
      grant(t);
  }
  // threads that were never started have an empty program: let them end
  for(int t = 1; t < NT; ++t)
  {
    if(!wk[t].finished)
    {
      sem_post(&wk[t].go);
      sem_wait(&ctrl);
    }
    pthread_join(wk[t].th, 0);
    sem_destroy(&wk[t].go);
    wk[t].nprog = 0;
  }
  running = false;
  sem_destroy(&ctrl);
}

int main(int argc, char** argv)
{
  if(argc > 1 && !strcmp(argv[1], "--probe"))
  {
    printf("hooks=%d vstr=%lu vlist=%lu xtext=%lu xelem=%lu obj=%lu\n", haveHooks, (unsigned long)SZ_VSTR,
      (unsigned long)SZ_VLIST, (unsigned long)SZ_XTEXT, (unsigned long)SZ_XELEM, (unsigned long)sizeof(Obj));
    return 0;
  }
  HxLine l;
  resetAll();
  while(hxRead(l))
  {
    OpRec o;
    if(hxIs(l, "reset", 0))
    {
      resetAll();
      for(int t = 0; t < NT; ++t) wk[t].nprog = 0;
      observe();
    }
    else if(hxIs(l, "end", 0))
    {
      destroyAll();
      int live = 0;
      for(int i = 0; i < nrec; ++i)
        if(rec[i].frees == 0)
          ++live;
      printf("end live=%d bad=%d", live, badEvents + objDtorOnDead);
      constructAll();
    }
    else if(hxIs(l, "hooks", 1))
      printf(atoi(l.tok[1]) == haveHooks ? "ok" : "bad-op");
    else if(hxIs(l, "give", 2))
    {
      int v = atoi(l.tok[1]), t = atoi(l.tok[2]);
      printf(v >= 0 && v < 16 && t >= 0 && t < NT ? "ok" : "bad-op");
    }
    else if(l.ntok >= 3 && !strcmp(l.tok[0], "prog"))
    {
      int t = atoi(l.tok[1]);
      if(t > 0 && t < NT && wk[t].nprog < MAXPROG && parseOp(l.tok + 2, l.ntok - 2, o))
      {
        wk[t].prog[wk[t].nprog++] = o;
        printf("ok");
      }
      else
        printf("bad-op");
    }
    else if(l.ntok >= 1 && !strcmp(l.tok[0], "run"))
    {
      bool ok = true;
      for(int i = 1; i < l.ntok; ++i)
        if(atoi(l.tok[i]) < 1 || atoi(l.tok[i]) >= NT || l.tok[i][1])
          ok = false;
      if(!ok)
        printf("bad-op");
      else
      {
        runSchedule(l.tok, l.ntok);
        printf("%s # ", trace);
        observe();
      }
    }
    else if(parseOp(l.tok, l.ntok, o))
    {
      execOp(o);
      observe();
    }
    else
      printf("bad-op");
    hxEndLine();
  }
  destroyAll();
  for(int i = 0; i < nrec; ++i)
  {
    ASAN_UNPOISON_MEMORY_REGION(rec[i].addr, rec[i].size);
    free(rec[i].addr);
  }
  return 0;
}
