// Line-protocol harness for the Rc area (property C09): shared payloads of String, Variant,
// Xml::Variant and RefCount::Ptr on the REAL headers, with a ledger allocator and (for the
// `run` lines) a controlled scheduler in which every atomic operation on a payload's reference
// counter -- and, when the hook patch is applied, every plain read of the counter that guards
// an in-place write and that write -- is a scheduling point.  Protocol: lean/Nstd/Rc/Driver.lean.
#include "common/hx.h"
#include <pthread.h>
#include <semaphore.h>
#include <stdarg.h>
#if defined(__SANITIZE_ADDRESS__)
#include <sanitizer/asan_interface.h>
#else
#define ASAN_POISON_MEMORY_REGION(a, s) ((void)(a), (void)(s))
#define ASAN_UNPOISON_MEMORY_REGION(a, s) ((void)(a), (void)(s))
#endif

// ---- atomics of Atomic.hpp become calls into the scheduler: function-like macros over the WHOLE family of
// builtins the header could use, so that every spelling of "increment" / "decrement and test" is the
// same observed step (`inc` / `dec` with the resulting value).  Exactly one thread runs at a time (baton),
// so the operation itself is a plain read-modify-write here.
enum { NV_ADD, NV_SUB, NV_OR, NV_AND, NV_XOR, NV_NAND, NV_XCHG };
static unsigned long long nvRmw(volatile void* p, int width, int op, unsigned long long operand, bool returnOld);
static unsigned long nvOps;   // atomic read-modify-write operations executed so far (probe only)
static unsigned long long nvCas(volatile void* p, int width, unsigned long long expected, unsigned long long desired, bool* ok);
template<typename T> struct NvVal { static unsigned long long u(T v) { return (unsigned long long)v; } };
template<typename T> struct NvVal<T*> { static unsigned long long u(T* v) { return (unsigned long long)(unsigned long)v; } };
template<typename T> struct NvRet { static T of(unsigned long long v) { return (T)v; } };
template<typename T> struct NvRet<T*> { static T* of(unsigned long long v) { return (T*)(unsigned long)v; } };
template<typename T, typename V> static inline T nv_rmw(volatile T* p, int op, V v, bool returnOld)
{
  return NvRet<T>::of(nvRmw((volatile void*)p, (int)sizeof(T), op, NvVal<T>::u((T)v), returnOld));
}
template<typename T, typename O, typename N> static inline T nv_val_cas(volatile T* p, O o, N n)
{
  bool ok;
  return NvRet<T>::of(nvCas((volatile void*)p, (int)sizeof(T), NvVal<T>::u((T)o), NvVal<T>::u((T)n), &ok));
}
template<typename T, typename O, typename N> static inline bool nv_bool_cas(volatile T* p, O o, N n)
{
  bool ok;
  nvCas((volatile void*)p, (int)sizeof(T), NvVal<T>::u((T)o), NvVal<T>::u((T)n), &ok);
  return ok;
}
template<typename T> static inline bool nv_atomic_cas(volatile T* p, T* expected, T desired)
{
  bool ok;
  T old = NvRet<T>::of(nvCas((volatile void*)p, (int)sizeof(T), NvVal<T>::u(*expected), NvVal<T>::u(desired), &ok));
  if(!ok) *expected = old;
  return ok;
}
#define __sync_add_and_fetch(p, v) nv_rmw(p, NV_ADD, v, false)
#define __sync_sub_and_fetch(p, v) nv_rmw(p, NV_SUB, v, false)
#define __sync_or_and_fetch(p, v) nv_rmw(p, NV_OR, v, false)
#define __sync_and_and_fetch(p, v) nv_rmw(p, NV_AND, v, false)
#define __sync_xor_and_fetch(p, v) nv_rmw(p, NV_XOR, v, false)
#define __sync_nand_and_fetch(p, v) nv_rmw(p, NV_NAND, v, false)
#define __sync_fetch_and_add(p, v) nv_rmw(p, NV_ADD, v, true)
#define __sync_fetch_and_sub(p, v) nv_rmw(p, NV_SUB, v, true)
#define __sync_fetch_and_or(p, v) nv_rmw(p, NV_OR, v, true)
#define __sync_fetch_and_and(p, v) nv_rmw(p, NV_AND, v, true)
#define __sync_fetch_and_xor(p, v) nv_rmw(p, NV_XOR, v, true)
#define __sync_fetch_and_nand(p, v) nv_rmw(p, NV_NAND, v, true)
#define __sync_val_compare_and_swap(p, o, n) nv_val_cas(p, o, n)
#define __sync_bool_compare_and_swap(p, o, n) nv_bool_cas(p, o, n)
#define __sync_lock_test_and_set(p, v) nv_rmw(p, NV_XCHG, v, true)
#define __sync_lock_release(p) ((void)nv_rmw(p, NV_XCHG, 0, true))
#define __atomic_add_fetch(p, v, mo) nv_rmw(p, NV_ADD, v, false)
#define __atomic_sub_fetch(p, v, mo) nv_rmw(p, NV_SUB, v, false)
#define __atomic_or_fetch(p, v, mo) nv_rmw(p, NV_OR, v, false)
#define __atomic_and_fetch(p, v, mo) nv_rmw(p, NV_AND, v, false)
#define __atomic_xor_fetch(p, v, mo) nv_rmw(p, NV_XOR, v, false)
#define __atomic_fetch_add(p, v, mo) nv_rmw(p, NV_ADD, v, true)
#define __atomic_fetch_sub(p, v, mo) nv_rmw(p, NV_SUB, v, true)
#define __atomic_fetch_or(p, v, mo) nv_rmw(p, NV_OR, v, true)
#define __atomic_fetch_and(p, v, mo) nv_rmw(p, NV_AND, v, true)
#define __atomic_fetch_xor(p, v, mo) nv_rmw(p, NV_XOR, v, true)
#define __atomic_exchange_n(p, v, mo) nv_rmw(p, NV_XCHG, v, true)
#define __atomic_compare_exchange_n(p, e, d, weak, mo1, mo2) nv_atomic_cas(p, e, d)

#define private public
#define protected public
#include <nstd/String.hpp>
#include <nstd/Variant.hpp>
#include <nstd/RefCount.hpp>
#include <nstd/Document/Xml.hpp>
#undef private
#undef protected
#include <nstd/Debug.hpp>

// Xml.cpp (parser, file access) is not linked; its one definition the value class needs:
Xml::Variant::NullData Xml::Variant::nullData;

int Debug::printf(const char* format, ...)
{
  va_list ap;
  va_start(ap, format);
  fputs("FAULT assertion: ", stdout);
  vfprintf(stdout, format, ap);
  va_end(ap);
  fflush(stdout);
  abort();
  return 0;
}

// ---- ledger allocator ---------------------------------------------------------------------------
// Memory is not handed back to malloc before the next `reset` (block addresses are never
// reused, a dangling handle or a second release is an *observation* of the ledger); a released
// block is overwritten with 0xDD and ASan-poisoned, so every later access to it aborts.
enum { MAXREC = 1 << 14 };
struct Rec
{
  char* addr;
  size_t size;
  int frees;
  bool payload;
  int kind;   // 0 String 1 Variant 2 Xml::Variant 3 Ptr
  int pid;
};
static Rec rec[MAXREC];
static int nrec;
static int npid;
static int pidRec[MAXREC];
static int badEvents;
static __thread int curKind = -1;

// counted objects: Node carries a handle to the next node (a handle embedded in a payload),
// Leaf derives from Node so that Ptr<Node> = Ptr<Leaf> goes through the converting members
struct Node : public RefCount::Object
{
  int val;
  RefCount::Ptr<Node> next;
  Node(int val) : val(val) {}
  ~Node();
};
struct Leaf : public Node
{
  Leaf(int val) : Node(val) {}
};
typedef Leaf Obj;

// Which allocations are payloads is NOT decided by their size (sizes depend on capacity policy): a block is a
// payload once a handle designates it (the `data` / `refObj` pointer read white-box at an observation) or
// once an atomic operation hits it exactly at the offset of the reference counter of the class whose
// call is running.  Everything else is an internal allocation; those only have to be gone at `end`.
static size_t counterOffset(int kind)
{
  alignas(16) static char fake[sizeof(Leaf)];
  switch(kind)
  {
  case 0: return offsetof(String::Data, ref);
  case 1: return offsetof(Variant::Data, ref);
  case 2: return offsetof(Xml::Variant::Data, ref);
  case 3: return (size_t)((char*)&static_cast<RefCount::Object*>((Leaf*)fake)->ref - fake);
  default: return (size_t)-1;
  }
}

static void markPayload(Rec* r, int kind)
{
  if(!r->payload)
  {
    r->payload = true;
    r->kind = kind;
  }
}

static void* ledgerAlloc(size_t size, bool array)
{
  if(nrec >= MAXREC)
  {
    printf("FAULT ledger full\n");
    fflush(stdout);
    abort();
  }
  char* p = (char*)malloc(size ? size : 1);
  memset(p, 0xAA, size);
  Rec& r = rec[nrec++];
  r.addr = p;
  r.size = size;
  r.frees = 0;
  (void)array;
  r.payload = false;
  r.kind = -1;
  r.pid = -1;
  return p;
}

static Rec* findRec(const volatile void* p)
{
  const char* c = (const char*)p;
  for(int i = nrec - 1; i >= 0; --i)
    if(c >= rec[i].addr && c < rec[i].addr + (rec[i].size ? rec[i].size : 1))
      return &rec[i];
  return 0;
}

static void ledgerFree(void* p)
{
  if(!p)
    return;
  Rec* r = findRec(p);
  if(!r || r->addr != (char*)p)
  {
    ++badEvents;
    return;
  }
  if(++r->frees > 1)
    ++badEvents;
  else
  {
    // any later access of library code to the released block (plain read of the counter, copy of
    // the content, atomic operation) is reported by ASan as use-after-poison
    memset(r->addr, 0xDD, r->size);
    ASAN_POISON_MEMORY_REGION(r->addr, r->size);
  }
}

void* operator new[](usize size) { return ledgerAlloc(size, true); }
void operator delete[](void* p) { ledgerFree(p); }
void* operator new(usize size) { return ledgerAlloc(size, false); }
void operator delete(void* p) { ledgerFree(p); }
void operator delete(void* p, unsigned long) { ledgerFree(p); }
void operator delete[](void* p, unsigned long) { ledgerFree(p); }

static int objDtorOnDead;
Node::~Node()
{
  Rec* r = findRec(this);
  if(!r || r->frees > 0)
    ++objDtorOnDead;
}

// ---- the handles ---------------------------------------------------------------------------------
typedef RefCount::Ptr<Node> NodePtr;   // P0, P1
typedef RefCount::Ptr<Leaf> LeafPtr;   // P2, P3
static const int NV = 4;
alignas(16) static unsigned char stS[NV][sizeof(String)];
alignas(16) static unsigned char stV[NV][sizeof(Variant)];
alignas(16) static unsigned char stX[NV][sizeof(Xml::Variant)];
alignas(16) static unsigned char stP[NV][sizeof(NodePtr)];
static String* S[NV];
static Variant* V[NV];
static Xml::Variant* X[NV];
static NodePtr* PN[2];
static LeafPtr* PL[2];
static char litbuf[NV][80];
static bool constructed;

static void destroyAll()
{
  if(!constructed)
    return;
  for(int i = 0; i < NV; ++i)
  {
    curKind = 0; S[i]->~String();
    curKind = 1; V[i]->~Variant();
    curKind = 2; X[i]->~Variant();
  }
  curKind = 3;
  for(int i = 0; i < 2; ++i)
  {
    PN[i]->~NodePtr();
    PL[i]->~LeafPtr();
  }
  curKind = -1;
  constructed = false;
}

static void constructAll()
{
  for(int i = 0; i < NV; ++i)
  {
    S[i] = new(stS[i]) String;
    V[i] = new(stV[i]) Variant;
    X[i] = new(stX[i]) Xml::Variant;
  }
  for(int i = 0; i < 2; ++i)
  {
    PN[i] = new(stP[i]) NodePtr;
    PL[i] = new(stP[2 + i]) LeafPtr;
  }
  constructed = true;
}

static void resetAll()
{
  destroyAll();
  for(int i = 0; i < nrec; ++i)
  {
    ASAN_UNPOISON_MEMORY_REGION(rec[i].addr, rec[i].size);
    free(rec[i].addr);
  }
  nrec = 0;
  npid = 0;
  badEvents = 0;
  objDtorOnDead = 0;
  constructAll();
}

// ---- observation -----------------------------------------------------------------------------------
static int dangling;

static void putBlockTok(const void* p, int kind)
{
  Rec* r = findRec(p);
  if(r && r->addr == (const char*)p)
    markPayload(r, kind);
  if(!r || r->addr != (const char*)p || r->kind != kind)
  {
    printf("X");        // pointer to something that is not a payload block
    ++dangling;
    return;
  }
  if(r->pid < 0)
  {
    r->pid = npid;
    pidRec[npid++] = (int)(r - rec);
  }
  if(r->frees > 0)
    ++dangling;         // handle designates a released payload
  printf("b%d", r->pid);
}

static void putPtrTok(RefCount::Object* refObj, Node* obj)
{
  if(!refObj && !obj) printf("n");
  else if((RefCount::Object*)obj != refObj)
  {
    // the handle counts one object and points to another one
    if(refObj) putBlockTok(refObj, 3); else printf("n");
    printf("!");
    if(obj) putBlockTok(obj, 3); else printf("n");
    ++dangling;
  }
  else putBlockTok(refObj, 3);
}

static void putHandles()
{
  for(int i = 0; i < NV; ++i)
  {
    String::Data* d = S[i]->data;
    if(d == &String::emptyData) printf("n");
    else if(d == &S[i]->_data) { printf(d->str[d->len] ? "i1." : "i0."); hxPutHex(d->str, d->len); }   // i1 = unterminated memory
    else putBlockTok(d, 0);
    printf(" ");
  }
  for(int i = 0; i < NV; ++i)
  {
    Variant::Data* d = V[i]->data;
    if(d == &Variant::nullData || (d == &V[i]->_data && d->type == Variant::nullType)) printf("n");
    else if(d == &V[i]->_data)
    {
      unsigned char b = (unsigned char)d->data.intData;
      printf("i%d.", d->type == Variant::intType ? 11 : 100 + (int)d->type);
      hxPutHex(&b, 1);
    }
    else putBlockTok(d, 1);
    printf(" ");
  }
  for(int i = 0; i < NV; ++i)
  {
    Xml::Variant::Data* d = X[i]->data;
    if(d == &Xml::Variant::nullData) printf("n");
    else putBlockTok(d, 2);
    printf(" ");
  }
  for(int i = 0; i < NV; ++i)
  {
    if(i < 2) putPtrTok(PN[i]->refObj, PN[i]->obj); else putPtrTok(PL[i - 2]->refObj, PL[i - 2]->obj);
    printf(i + 1 < NV ? " " : "");
  }
}

// payloads designated only by a handle embedded in another payload (the `next` handle of a counted object, the
// Variants in a list payload, the children of an Xml element) get their id after the variables, in the order of the
// payload table and, per payload, in the order of its embedded handles
enum { FAMK = 4 };    // = famK of the model's slot layout: boxed elements / children per payload
static void closeOne(const void* target, int kind)
{
  Rec* t = findRec(target);
  if(!t || t->addr != (const char*)target)
    return;
  markPayload(t, kind);
  if(t->kind == kind && t->pid < 0)
  {
    t->pid = npid;
    pidRec[npid++] = (int)(t - rec);
  }
}

static void closePids()
{
  for(int i = 0; i < npid; ++i)
  {
    Rec& r = rec[pidRec[i]];
    if(r.frees != 0)
      continue;
    if(r.kind == 3)
    {
      Node* n = (Node*)r.addr;
      if(n->next.refObj)
        closeOne(n->next.refObj, 3);
    }
    else if(r.kind == 1)
    {
      Variant::Data* d = (Variant::Data*)r.addr;
      if(d->type == Variant::listType)
      {
        const List<Variant>* l = (const List<Variant>*)(d + 1);
        for(List<Variant>::Iterator it = l->begin(), end = l->end(); it != end; ++it)
          if(it->data->ref)
            closeOne(it->data, 1);
      }
      else if(d->type == Variant::arrayType)
      {
        const Array<Variant>* a = (const Array<Variant>*)(d + 1);
        for(usize k = 0; k < a->size(); ++k)
          if((*a)[k].data->ref)
            closeOne((*a)[k].data, 1);
      }
    }
    else if(r.kind == 2)
    {
      Xml::Variant::Data* d = (Xml::Variant::Data*)r.addr;
      if(d->type == Xml::Variant::elementType)
      {
        const Xml::Element* e = (const Xml::Element*)(d + 1);
        for(List<Xml::Variant>::Iterator it = e->content.begin(), end = e->content.end(); it != end; ++it)
          if(it->data != &Xml::Variant::nullData)
            closeOne(it->data, 2);
      }
    }
  }
}

static void putPayload(int pid)
{
  Rec& r = rec[pidRec[pid]];
  if(r.frees == 1) { printf("%d:F", pid); return; }
  if(r.frees > 1) { printf("%d:X%d", pid, r.frees); return; }
  unsigned long ref = 0;
  int tag = -1;
  unsigned char buf[256];
  const void* bytes = buf;
  size_t len = 0;
  switch(r.kind)
  {
  case 0:
  {
    String::Data* d = (String::Data*)r.addr;
    ref = d->ref; tag = 0; bytes = d->str; len = d->len;
    break;
  }
  case 1:
  {
    Variant::Data* d = (Variant::Data*)r.addr;
    ref = d->ref;
    if(d->type == Variant::stringType)
    {
      const String* s = (const String*)(d + 1);
      tag = 12; bytes = s->data->str; len = s->data->len;
    }
    else if(d->type == Variant::arrayType)
    {
      const Array<Variant>* a = (const Array<Variant>*)(d + 1);
      tag = 14;
      for(usize i = 0; i < a->size() && len < sizeof(buf); ++i)
        buf[len++] = (*a)[i].data->ref ? 0 : (unsigned char)(*a)[i].toInt();    // a boxed element is printed as an embedded handle
    }
    else if(d->type == Variant::mapType)
    {
      const HashMap<String, Variant>* m = (const HashMap<String, Variant>*)(d + 1);
      tag = 15;
      for(HashMap<String, Variant>::Iterator i = m->begin(), end = m->end(); i != end && len + 1 < sizeof(buf); ++i)
      {
        buf[len++] = (unsigned char)*(const char*)i.key();
        buf[len++] = (unsigned char)i->toInt();
      }
    }
    else if(d->type == Variant::listType)
    {
      const List<Variant>* l = (const List<Variant>*)(d + 1);
      tag = 13;
      for(List<Variant>::Iterator i = l->begin(), end = l->end(); i != end && len < sizeof(buf); ++i)
        buf[len++] = i->data->ref ? 0 : (unsigned char)i->toInt();    // a boxed element is printed as an embedded handle
    }
    else tag = 100 + (int)d->type;
    break;
  }
  case 2:
  {
    Xml::Variant::Data* d = (Xml::Variant::Data*)r.addr;
    ref = d->ref;
    if(d->type == Xml::Variant::textType)
    {
      const String* s = (const String*)(d + 1);
      tag = 22; bytes = s->data->str; len = s->data->len;
    }
    else if(d->type == Xml::Variant::elementType)
    {
      const Xml::Element* e = (const Xml::Element*)(d + 1);
      tag = 23; bytes = e->type.data->str; len = e->type.data->len;
    }
    else tag = 200 + (int)d->type;
    break;
  }
  case 3:
  {
    Obj* o = (Obj*)r.addr;
    ref = ((RefCount::Object*)o)->ref; tag = 30;
    buf[0] = (unsigned char)o->val; len = 1;
    break;
  }
  }
  printf("%d:L:%lu:%d:", pid, ref, tag);
  hxPutHex(bytes, len);
  if(r.kind == 3)
  {
    Node* n = (Node*)r.addr;
    printf(">");
    putPtrTok(n->next.refObj, n->next.obj);
  }
  else if(tag == 13)
  {
    const List<Variant>* l = (const List<Variant>*)((Variant::Data*)r.addr + 1);
    printf(">");
    if(l->isEmpty()) printf("-");
    for(List<Variant>::Iterator i = l->begin(), end = l->end(); i != end; ++i)
    {
      if(i != l->begin()) printf(",");
      if(i->data->ref) putBlockTok(i->data, 1); else printf("n");
    }
  }
  else if(tag == 14)
  {
    const Array<Variant>* a = (const Array<Variant>*)((Variant::Data*)r.addr + 1);
    printf(">");
    if(a->size() == 0) printf("-");
    for(usize i = 0; i < a->size(); ++i)
    {
      if(i) printf(",");
      if((*a)[i].data->ref) putBlockTok((*a)[i].data, 1); else printf("n");
    }
  }
  else if(tag == 23)
  {
    const Xml::Element* e = (const Xml::Element*)((Xml::Variant::Data*)r.addr + 1);
    printf(">");
    if(e->content.isEmpty()) printf("-");
    for(List<Xml::Variant>::Iterator i = e->content.begin(), end = e->content.end(); i != end; ++i)
    {
      if(i != e->content.begin()) printf(",");
      if(i->data != &Xml::Variant::nullData) putBlockTok(i->data, 2); else printf("n");
    }
  }
}

static void observe()
{
  dangling = 0;
  putHandles();
  closePids();
  printf(" | ");
  if(npid == 0) printf("-");
  for(int i = 0; i < npid; ++i)
  {
    if(i) printf(" ");
    putPayload(i);
  }
  int live = 0;
  for(int i = 0; i < nrec; ++i)
    if(rec[i].payload && rec[i].frees == 0)
      ++live;
  printf(" | live=%d bad=%d", live, badEvents + dangling + objDtorOnDead);
}

// ---- API calls --------------------------------------------------------------------------------------
struct OpRec
{
  char name[12];
  int a, b, c;
  unsigned char bytes[80];
  size_t len;
};

// argument patterns: i = handle index 0..3, n = number 0..255, h = hex bytes
static const struct { const char* name; const char* args; } OPTAB[] = {
  {"snew", "ih"}, {"slit", "ih"}, {"scopy", "ii"}, {"sassign", "ii"}, {"sclear", "i"}, {"sappend", "ih"}, {"sreserve", "in"},
  {"sdel", "i"}, {"sset", "ih"}, {"sprepend", "ih"}, {"sresize", "in"}, {"sreplace", "inn"}, {"slower", "i"}, {"schar", "i"},
  {"sprintf", "in"},
  {"vcopy", "ii"}, {"vassign", "ii"}, {"vclear", "i"}, {"vseti", "in"}, {"vsets", "ih"}, {"vapp", "ih"}, {"vpush", "in"},
  {"vswap", "ii"}, {"vsetl", "in"}, {"vpusha", "in"}, {"vseta", "in"}, {"vputm", "inn"}, {"vsetm", "inn"},
  {"xcopy", "ii"}, {"xassign", "ii"}, {"xclear", "i"}, {"xsets", "ih"}, {"xelem", "ih"},
  {"pnew", "in"}, {"pcopy", "ii"}, {"passign", "ii"}, {"pclear", "i"}, {"pswap", "ii"}, {"praw", "ii"}, {"pctor", "ii"},
  {"plink", "ii"}, {"pnext", "i"}, {"pnextof", "ii"}, {"prawnext", "i"},
  {"vpushv", "ii"}, {"vgetv", "iin"}, {"xaddc", "ii"}, {"xgetc", "iin"}, {"apushv", "ii"}, {"agetv", "iin"},
  {"slitc", "in"}, {"scap", "in"}, {"slitu", "ih"}, {"sconst", "i"}, {"sconstm", "i"}, {"sdetach", "i"}, {"sapps", "ii"},
  {"spluss", "ii"}, {"sappc", "in"}, {"splusc", "in"}, {"spreps", "ii"}, {"supper", "i"},
  {"vctors", "ih"}, {"vctorl", "in"}, {"vctora", "in"}, {"vctorm", "inn"}, {"xctors", "ih"}, {"xctore", "ih"},
  {0, 0}};

static bool parseOp(char** tok, int ntok, OpRec& o)
{
  if(ntok < 2 || strlen(tok[0]) >= sizeof(o.name))
    return false;
  const char* args = 0;
  for(int i = 0; OPTAB[i].name; ++i)
    if(!strcmp(tok[0], OPTAB[i].name))
      args = OPTAB[i].args;
  if(!args || (int)strlen(args) != ntok - 1)
    return false;
  strcpy(o.name, tok[0]);
  o.len = 0;
  o.a = o.b = o.c = 0;
  int* dst[3] = {&o.a, &o.b, &o.c};
  for(int k = 0; args[k]; ++k)
  {
    const char* t = tok[1 + k];
    if(args[k] == 'h')
    {
      if(!strcmp(t, "-"))
        continue;
      size_t n = strlen(t);
      if(n % 2 || n / 2 > 64)
        return false;
      for(size_t j = 0; j < n; ++j)
        if(hxNib(t[j]) < 0)
          return false;
      for(size_t j = 0; j < n / 2; ++j)
        o.bytes[j] = (unsigned char)(hxNib(t[2 * j]) * 16 + hxNib(t[2 * j + 1]));
      o.len = n / 2;
    }
    else
    {
      char* end = 0;
      long v = strtol(t, &end, 10);
      if(*end || !*t || v < 0 || v >= (args[k] == 'i' ? NV : 256))
        return false;
      *dst[k] = (int)v;
    }
  }
  return true;
}

// Ptr ops on the statically typed handles (P0,P1: Ptr<Node>; P2,P3: Ptr<Leaf>)
template <class DP, class SP> static void ptrOp(const char* n, DP& d, SP& s, unsigned char* storage)
{
  if(!strcmp(n, "pcopy")) { d.~DP(); new(storage) DP(s); }                  // copy / converting constructor
  else if(!strcmp(n, "passign")) d = s;                                     // operator= / converting operator=
  else if(!strcmp(n, "praw")) d = s.obj;                                    // operator=(C*)
  else if(!strcmp(n, "pctor")) { d.~DP(); new(storage) DP(s.obj); }         // Ptr(D*)
}

// returns false for calls that do not compile / are outside the exercised scope (the model says bad-op too)
static bool execOp(const OpRec& o)
{
  const char* n = o.name;
  const int d = o.a, s = o.b;
  const char* bytes = (const char*)o.bytes;
  bool ok = true;
  switch(n[0])
  {
  case 's':
    curKind = 0;
    if(!strcmp(n, "snew")) { S[d]->~String(); new(stS[d]) String(bytes, o.len); }
    else if(!strcmp(n, "slit")) { memcpy(litbuf[d], bytes, o.len); litbuf[d][o.len] = 0; S[d]->attach(litbuf[d], o.len); }
    else if(!strcmp(n, "scopy")) { if(d != s) { S[d]->~String(); new(stS[d]) String(*S[s]); } }
    else if(!strcmp(n, "sassign")) *S[d] = *S[s];
    else if(!strcmp(n, "sclear")) S[d]->clear();
    else if(!strcmp(n, "sappend")) S[d]->append(bytes, o.len);
    else if(!strcmp(n, "sreserve")) S[d]->reserve((usize)s);
    else if(!strcmp(n, "sdel")) { S[d]->~String(); new(stS[d]) String; }
    else if(!strcmp(n, "sset")) *S[d] = String(bytes, o.len);
    else if(!strcmp(n, "sprepend")) S[d]->prepend(bytes, o.len);
    else if(!strcmp(n, "sresize")) { if((usize)s <= S[d]->length()) S[d]->resize((usize)s); else ok = false; }
    else if(!strcmp(n, "sreplace")) S[d]->replace((char)o.b, (char)o.c);
    else if(!strcmp(n, "slower")) S[d]->toLowerCase();
    else if(!strcmp(n, "schar")) { char* p = *S[d]; (void)p; }
    else if(!strcmp(n, "sprintf")) S[d]->printf("%d", s);
    else if(!strcmp(n, "slitc"))
    {
      // String(const char(&)[N]) on the literals of the model's table `lits`
      if(s > 2) ok = false;
      else
      {
        S[d]->~String();
        if(s == 0) new(stS[d]) String("");
        else if(s == 1) new(stS[d]) String("ab");
        else new(stS[d]) String("abcd");
      }
    }
    else if(!strcmp(n, "scap")) { S[d]->~String(); new(stS[d]) String((usize)s); }
    else if(!strcmp(n, "slitu")) { memcpy(litbuf[d], bytes, o.len); litbuf[d][o.len] = 'Z'; S[d]->attach(litbuf[d], o.len); }   // unterminated
    else if(!strcmp(n, "sconst")) { const char* p = *(const String*)S[d]; (void)p; }      // operator const char*() const
    else if(!strcmp(n, "sconstm")) { const char* p = *S[d]; (void)p; }                    // operator const char*()
    else if(!strcmp(n, "sdetach")) S[d]->detach();
    else if(!strcmp(n, "sapps")) S[d]->append(*S[s]);
    else if(!strcmp(n, "spluss")) *S[d] += *S[s];
    else if(!strcmp(n, "sappc")) S[d]->append((char)s);
    else if(!strcmp(n, "splusc")) *S[d] += (char)s;
    else if(!strcmp(n, "spreps")) S[d]->prepend(*S[s]);
    else if(!strcmp(n, "supper")) S[d]->toUpperCase();
    break;
  case 'a':     // apushv / agetv: Variant calls on Array payloads
  case 'v':
    curKind = 1;
    if(!strcmp(n, "vcopy")) { if(d != s) { V[d]->~Variant(); new(stV[d]) Variant(*V[s]); } }
    else if(!strcmp(n, "vassign")) *V[d] = *V[s];
    else if(!strcmp(n, "vclear")) V[d]->clear();
    else if(!strcmp(n, "vseti")) *V[d] = (int)s;
    else if(!strcmp(n, "vsets")) *V[d] = String(bytes, o.len);
    else if(!strcmp(n, "vapp")) V[d]->toString().append(bytes, o.len);
    else if(!strcmp(n, "vpush")) V[d]->toList().append(Variant((int)s));
    else if(!strcmp(n, "vswap")) V[d]->swap(*V[s]);
    else if(!strcmp(n, "vsetl")) { List<Variant> l; l.append(Variant((int)s)); *V[d] = l; }
    else if(!strcmp(n, "vpusha")) V[d]->toArray().append(Variant((int)s));
    else if(!strcmp(n, "vseta")) { Array<Variant> a; a.append(Variant((int)s)); *V[d] = a; }
    else if(!strcmp(n, "vputm")) { char k = (char)o.b; V[d]->toMap().append(String(&k, 1), Variant((int)o.c)); }
    else if(!strcmp(n, "vsetm")) { char k = (char)o.b; HashMap<String, Variant> m; m.append(String(&k, 1), Variant((int)o.c)); *V[d] = m; }
    else if(!strcmp(n, "vctors")) { String t(bytes, o.len); V[d]->~Variant(); new(stV[d]) Variant(t); }
    else if(!strcmp(n, "vctorl")) { List<Variant> l; l.append(Variant((int)s)); V[d]->~Variant(); new(stV[d]) Variant(l); }
    else if(!strcmp(n, "vctora")) { Array<Variant> a; a.append(Variant((int)s)); V[d]->~Variant(); new(stV[d]) Variant(a); }
    else if(!strcmp(n, "vctorm"))
    {
      char kk = (char)o.b;
      HashMap<String, Variant> m;
      m.append(String(&kk, 1), Variant((int)o.c));
      V[d]->~Variant();
      new(stV[d]) Variant(m);
    }
    else if(!strcmp(n, "vpushv"))
    {
      // a list payload holding (possibly shared) Variants; the model's slot layout has FAMK embedded slots per payload
      usize len = V[d]->getType() == Variant::listType ? ((const Variant*)V[d])->toList().size() : 0;
      if(d == s || V[s]->isNull() || (V[s]->data->ref && len >= FAMK)) ok = false;
      else V[d]->toList().append(*V[s]);
    }
    else if(!strcmp(n, "apushv"))
    {
      usize len = V[d]->getType() == Variant::arrayType ? ((const Variant*)V[d])->toArray().size() : 0;
      if(d == s || V[s]->isNull() || (V[s]->data->ref && len >= FAMK)) ok = false;
      else V[d]->toArray().append(*V[s]);
    }
    else if(!strcmp(n, "agetv"))
    {
      const Array<Variant>& a = ((const Variant*)V[s])->toArray();
      if(V[s]->getType() != Variant::arrayType || (usize)o.c >= a.size()) ok = false;
      else *V[d] = a[(usize)o.c];
    }
    else if(!strcmp(n, "vgetv"))
    {
      // assignment from an element of a (possibly the own) list payload through the const accessor
      const List<Variant>& l = ((const Variant*)V[s])->toList();
      if(V[s]->getType() != Variant::listType || (usize)o.c >= l.size()) ok = false;
      else
      {
        List<Variant>::Iterator it = l.begin();
        for(int k = 0; k < o.c; ++k) ++it;
        *V[d] = *it;
      }
    }
    break;
  case 'x':
    curKind = 2;
    if(!strcmp(n, "xcopy")) { if(d != s) { X[d]->~Variant(); new(stX[d]) Xml::Variant(*X[s]); } }
    else if(!strcmp(n, "xassign")) *X[d] = *X[s];
    else if(!strcmp(n, "xclear")) X[d]->clear();
    else if(!strcmp(n, "xsets")) *X[d] = String(bytes, o.len);
    else if(!strcmp(n, "xelem")) X[d]->toElement().type = String(bytes, o.len);
    else if(!strcmp(n, "xctors")) { String t(bytes, o.len); X[d]->~Variant(); new(stX[d]) Xml::Variant(t); }
    else if(!strcmp(n, "xctore")) { Xml::Element e; e.type = String(bytes, o.len); X[d]->~Variant(); new(stX[d]) Xml::Variant(e); }
    else if(!strcmp(n, "xaddc"))
    {
      usize len = X[d]->isElement() ? ((const Xml::Variant*)X[d])->toElement().content.size() : 0;
      if(d == s || X[s]->isNull() || len >= FAMK) ok = false;
      else X[d]->toElement().content.append(*X[s]);
    }
    else if(!strcmp(n, "xgetc"))
    {
      const List<Xml::Variant>& l = ((const Xml::Variant*)X[s])->toElement().content;
      if(!X[s]->isElement() || (usize)o.c >= l.size()) ok = false;
      else
      {
        List<Xml::Variant>::Iterator it = l.begin();
        for(int k = 0; k < o.c; ++k) ++it;
        *X[d] = *it;
      }
    }
    break;
  case 'p':
    curKind = 3;
    if(!strcmp(n, "pnew")) { if(d < 2) *PN[d] = new Leaf(s); else *PL[d - 2] = new Leaf(s); }
    else if(!strcmp(n, "pclear")) { if(d < 2) *PN[d] = NodePtr(); else *PL[d - 2] = LeafPtr(); }
    else if(!strcmp(n, "pswap"))
    {
      if(d < 2 && s < 2) PN[d]->swap(*PN[s]);
      else if(d >= 2 && s >= 2) PL[d - 2]->swap(*PL[s - 2]);
      else ok = false;
    }
    else if(!strcmp(n, "pcopy") || !strcmp(n, "passign") || !strcmp(n, "praw") || !strcmp(n, "pctor"))
    {
      if(d == s && (!strcmp(n, "pcopy") || !strcmp(n, "pctor"))) ;
      else if(d < 2 && s < 2) ptrOp(n, *PN[d], *PN[s], stP[d]);
      else if(d < 2) ptrOp(n, *PN[d], *PL[s - 2], stP[d]);
      else if(s >= 2) ptrOp(n, *PL[d - 2], *PL[s - 2], stP[d]);
      else ok = false;
    }
    else if(!strcmp(n, "plink"))
    {
      Node* target = d < 2 ? PN[d]->obj : PL[d - 2]->obj;
      if(!target) ok = false;
      else if(s < 2) target->next = *PN[s];
      else target->next = *PL[s - 2];
    }
    else if(!strcmp(n, "pnext")) { if(d < 2 && PN[d]->obj) *PN[d] = (*PN[d])->next; else ok = false; }
    else if(!strcmp(n, "prawnext")) { if(d < 2 && PN[d]->obj) *PN[d] = (*PN[d])->next.obj; else ok = false; }   // operator=(C*) with a raw pointer that only the released object keeps alive
    else if(!strcmp(n, "pnextof"))
    {
      Node* src = s < 2 ? PN[s]->obj : PL[s - 2]->obj;
      if(d < 2 && src) *PN[d] = src->next; else ok = false;
    }
    break;
  }
  curKind = -1;
  return ok;
}

// ---- controlled scheduler ---------------------------------------------------------------------------
enum { NT = 4, MAXPROG = 64, MAXTRACE = 1 << 16 };
struct Worker
{
  OpRec prog[MAXPROG];
  int nprog;
  bool started, finished;
  sem_t go;
  pthread_t th;
};
static Worker wk[NT];
static sem_t ctrl;
static bool running;
static __thread int self = 0;
static char trace[MAXTRACE];
static int tracen;

static void traceTok(const char* fmt, ...)
{
  if(tracen > MAXTRACE - 64)
    return;
  va_list ap;
  va_start(ap, fmt);
  if(tracen) trace[tracen++] = ' ';
  tracen += vsnprintf(trace + tracen, 48, fmt, ap);
  va_end(ap);
}

// the calling worker stops at a scheduling point until the controller grants it the next step
static void schedPoint()
{
  sem_post(&ctrl);
  sem_wait(&wk[self].go);
}

static bool isCounterOfPayload(const volatile void* p)
{
  Rec* r = findRec(p);
  if(!r)
    return false;
  if(!r->payload && curKind >= 0 && (size_t)((const char*)p - r->addr) == counterOffset(curKind))
    markPayload(r, curKind);
  return r->payload;
}

static unsigned long long nvLoad(volatile void* p, int width)
{
  switch(width)
  {
  case 1: return *(volatile unsigned char*)p;
  case 2: return *(volatile unsigned short*)p;
  case 4: return *(volatile unsigned int*)p;
  default: return *(volatile unsigned long long*)p;
  }
}

static void nvStore(volatile void* p, int width, unsigned long long v)
{
  switch(width)
  {
  case 1: *(volatile unsigned char*)p = (unsigned char)v; break;
  case 2: *(volatile unsigned short*)p = (unsigned short)v; break;
  case 4: *(volatile unsigned int*)p = (unsigned int)v; break;
  default: *(volatile unsigned long long*)p = v; break;
  }
}

// the observed step is canonical: whatever builtin spelled it, a counter that went up is `inc`, one that went
// down is `dec`, each with the resulting value
static void afterAtomic(bool point, int width, unsigned long long oldv, unsigned long long newv)
{
  if(!point)
    return;
  long long o = width == 4 ? (long long)(int)oldv : (long long)oldv, n = width == 4 ? (long long)(int)newv : (long long)newv;
  traceTok("%d.%s.%lld", self, n > o ? "inc" : n < o ? "dec" : "same", n);
  // descheduled again right after the atomic operation: the plain code that follows it
  // (delete, stores, a re-read of the counter) is a step of its own
  schedPoint();
  traceTok("%d.go", self);
}

static unsigned long long nvRmw(volatile void* p, int width, int op, unsigned long long operand, bool returnOld)
{
  bool counter = isCounterOfPayload(p);
  bool point = running && self > 0 && counter;
  ++nvOps;
  if(point)
    schedPoint();
  unsigned long long oldv = nvLoad(p, width), newv = oldv;
  switch(op)
  {
  case NV_ADD: newv = oldv + operand; break;
  case NV_SUB: newv = oldv - operand; break;
  case NV_OR: newv = oldv | operand; break;
  case NV_AND: newv = oldv & operand; break;
  case NV_XOR: newv = oldv ^ operand; break;
  case NV_NAND: newv = ~(oldv & operand); break;
  case NV_XCHG: newv = operand; break;
  }
  nvStore(p, width, newv);
  newv = nvLoad(p, width);
  afterAtomic(point, width, oldv, newv);
  return returnOld ? oldv : newv;
}

static unsigned long long nvCas(volatile void* p, int width, unsigned long long expected, unsigned long long desired, bool* ok)
{
  bool counter = isCounterOfPayload(p);
  bool point = running && self > 0 && counter;
  if(point)
    schedPoint();
  unsigned long long oldv = nvLoad(p, width);
  unsigned long long mask = width >= 8 ? ~0ULL : ((1ULL << (8 * width)) - 1);
  *ok = (oldv & mask) == (expected & mask);
  if(*ok)
    nvStore(p, width, desired);
  afterAtomic(point, width, oldv, nvLoad(p, width));
  return oldv;
}

#ifdef NSTD_VERIF_RC_HOOKS
extern "C" void nv_rc_yield(const char* where, const volatile void* addr)
{
  if(!(running && self > 0 && isCounterOfPayload(addr)))
    return;
  schedPoint();
  if(where[0] == 'r')
    traceTok("%d.ref.%lu", self, (unsigned long)*(const volatile usize*)addr);
  else
    traceTok("%d.wr", self);
}
static const int haveHooks = 1;
#else
static const int haveHooks = 0;
#endif

static void* workerMain(void* arg)
{
  self = (int)(long)arg;
  Worker& w = wk[self];
  sem_wait(&w.go);
  for(int i = 0; i < w.nprog; ++i)
    execOp(w.prog[i]);
  w.finished = true;
  sem_post(&ctrl);
  return 0;
}

static void grant(int tid)
{
  Worker& w = wk[tid];
  if(w.finished)
  {
    traceTok("%d.idle", tid);
    return;
  }
  if(!w.started)
  {
    w.started = true;
    traceTok("%d.start", tid);
  }
  sem_post(&w.go);
  sem_wait(&ctrl);
}

static void runSchedule(char** tok, int ntok)
{
  tracen = 0;
  trace[0] = 0;
  sem_init(&ctrl, 0, 0);
  for(int t = 1; t < NT; ++t)
  {
    wk[t].started = wk[t].finished = false;
    sem_init(&wk[t].go, 0, 0);
    pthread_create(&wk[t].th, 0, workerMain, (void*)(long)t);
  }
  running = true;
  for(int i = 1; i < ntok; ++i)
    grant(atoi(tok[i]));
  for(int t = 1; t < NT; ++t)
  {
    if(!wk[t].started && wk[t].nprog == 0)
      continue;
    while(!wk[t].finished)
      grant(t);
  }
  // threads that were never started have an empty program: let them end
  for(int t = 1; t < NT; ++t)
  {
    if(!wk[t].finished)
    {
      sem_post(&wk[t].go);
      sem_wait(&ctrl);
    }
    pthread_join(wk[t].th, 0);
    sem_destroy(&wk[t].go);
    wk[t].nprog = 0;
  }
  running = false;
  sem_destroy(&ctrl);
}

int main(int argc, char** argv)
{
  if(argc > 1 && !strcmp(argv[1], "--probe"))
  {
    printf("hooks=%d\n", haveHooks);
    // the capacity policy of the four allocation sites of String data the calls go through, measured on the real
    // class (the model takes these tables instead of mirroring the rounding rule): ctor(ptr,len), copy of
    // unowned data, assignment of unowned data, detach(minCapacity)
    static char buf[400];
    memset(buf, 'x', sizeof(buf));
    curKind = 0;
    for(int site = 0; site < 4; ++site)
    {
      printf("cap%d", site);
      for(usize len = 0; len <= 300; ++len)
      {
        usize cap = 0;
        if(site == 0) { String a(buf, len); cap = a.capacity(); }
        else if(site == 1) { String l; l.attach(buf, len); String c(l); cap = c.capacity(); }
        else if(site == 2) { String l; l.attach(buf, len); String c; c = l; cap = c.capacity(); }
        else { String e; e.reserve(len); cap = e.capacity(); }
        printf(" %lu", (unsigned long)cap);
      }
      printf("\n");
    }
    // capacity chosen by detach for the ONLY owner of a block that is too small: old capacity x requested minimum
    for(usize old = 0; old <= 64; ++old)
    {
      printf("grow%lu", (unsigned long)old);
      for(usize min = 0; min <= 64; ++min)
      {
        String x(old);
        x.reserve(min);
        printf(" %lu", (unsigned long)x.capacity());
      }
      printf("\n");
    }
    // policies of operator= that change the sequence of steps but not the property: the static empty String as source
    // (static descriptor or an empty block), both handles already on the same counted block (no atomic operation or inc + dec)
    {
      String e, t("xy", 2);
      t = e;
      printf("assignEmptyStatic=%d\n", t.data == &String::emptyData ? 1 : 0);
      String a("ab", 2), b(a);
      unsigned long before = nvOps;
      b = a;
      printf("assignSameSkip=%d\n", nvOps == before ? 1 : 0);
    }
    curKind = -1;
    for(int i = 0; i < nrec; ++i)
    {
      ASAN_UNPOISON_MEMORY_REGION(rec[i].addr, rec[i].size);
      free(rec[i].addr);
    }
    return 0;
  }
  HxLine l;
  resetAll();
  while(hxRead(l))
  {
    OpRec o;
    if(hxIs(l, "reset", 0))
    {
      resetAll();
      for(int t = 0; t < NT; ++t) wk[t].nprog = 0;
      observe();
    }
    else if(hxIs(l, "end", 0))
    {
      destroyAll();
      int live = 0;
      for(int i = 0; i < nrec; ++i)
        if(rec[i].frees == 0)
          ++live;
      printf("end live=%d bad=%d", live, badEvents + objDtorOnDead);
      constructAll();
    }
    else if(hxIs(l, "hooks", 1))
      printf(atoi(l.tok[1]) == haveHooks ? "ok" : "bad-op");
    else if(hxIs(l, "give", 2))
    {
      int v = atoi(l.tok[1]), t = atoi(l.tok[2]);
      printf(v >= 0 && v < 16 && t >= 0 && t < NT ? "ok" : "bad-op");
    }
    else if(l.ntok >= 3 && !strcmp(l.tok[0], "prog"))
    {
      int t = atoi(l.tok[1]);
      if(t > 0 && t < NT && wk[t].nprog < MAXPROG && parseOp(l.tok + 2, l.ntok - 2, o))
      {
        wk[t].prog[wk[t].nprog++] = o;
        printf("ok");
      }
      else
        printf("bad-op");
    }
    else if(l.ntok >= 1 && !strcmp(l.tok[0], "run"))
    {
      bool ok = true;
      for(int i = 1; i < l.ntok; ++i)
        if(atoi(l.tok[i]) < 1 || atoi(l.tok[i]) >= NT || l.tok[i][1])
          ok = false;
      if(!ok)
        printf("bad-op");
      else
      {
        runSchedule(l.tok, l.ntok);
        printf("%s # ", trace);
        observe();
      }
    }
    else if(parseOp(l.tok, l.ntok, o))
    {
      if(execOp(o))
        observe();
      else
        printf("bad-op");
    }
    else
      printf("bad-op");
    hxEndLine();
  }
  destroyAll();
  for(int i = 0; i < nrec; ++i)
  {
    ASAN_UNPOISON_MEMORY_REGION(rec[i].addr, rec[i].size);
    free(rec[i].addr);
  }
  return 0;
}
