// Backlog-client harness for Buffer (property C08): executes the `cw` / `cr` lines of lean/Nstd/Buffer/Driver.lean on the
// REAL send-backlog code of src/Socket/Server.cpp – `Server::Private::ClientImpl::write` (Server.cpp:441-477) and the
// write-readiness branch of `Server::Private::run` (Server.cpp:333-362) – and prints the white-box state of each client's
// `_sendBuffer` after every op.  Server.cpp is compiled INTO this translation unit (so that `Server::Private` is visible);
// `send` is scripted (it never reaches the kernel), `epoll_wait` hands `run()` exactly one write-readiness event of the
// chosen client and then the interrupt event; `epoll_ctl` is passed through and recorded.
#include "common/hx.h"
#include <errno.h>
#include <unistd.h>
#include <sys/epoll.h>
#include <sys/socket.h>
#include <sys/syscall.h>

#define private public
#include <nstd/Buffer.hpp>
#include <nstd/Socket/Socket.hpp>
#include <nstd/Socket/Server.hpp>
#include "Socket/Server.cpp"       // -I<repo>/src
#undef private

static long liveBlocks = 0;
void* operator new[](usize size)
{
  void* p = malloc(size ? size : 1);
  memset(p, 0xAA, size);
  ++liveBlocks;
  return p;
}
void operator delete[](void* p) { if(p) --liveBlocks; free(p); }
void* operator new(usize size) { return malloc(size ? size : 1); }
void operator delete(void* p) { free(p); }

// ---- scripted send ----------------------------------------------------------------------------------
enum { O_WB, O_ERR, O_CNT };
static int outKind = O_CNT;
static unsigned long outK = 0;
static bool sendCalled = false;
static char sendLog[64] = "send=-";

extern "C" ssize_t send(int, const void*, size_t n, int)
{
  if(sendCalled) { fprintf(stderr, "backlog harness: send called twice in one op\n"); _exit(3); }
  sendCalled = true;
  if(outKind == O_WB) { snprintf(sendLog, sizeof(sendLog), "send=%zu>wb", n); errno = EAGAIN; return -1; }
  if(outKind == O_ERR) { snprintf(sendLog, sizeof(sendLog), "send=%zu>err", n); errno = ECONNRESET; return -1; }
  size_t k = outK < n ? outK : n;
  snprintf(sendLog, sizeof(sendLog), "send=%zu>%zu", n, k);
  return (ssize_t)k;
}

// ---- epoll: interest recorded, readiness scripted ---------------------------------------------------
enum { MAXFD = 1024 };
static int fdMask[MAXFD];
static void* fdPtr[MAXFD];

extern "C" int epoll_ctl(int epfd, int op, int fd, struct epoll_event* ev)
{
  int r = (int)syscall(SYS_epoll_ctl, epfd, op, fd, ev);
  if(r == 0 && fd >= 0 && fd < MAXFD)
  {
    if(op == EPOLL_CTL_DEL) { fdMask[fd] = -1; fdPtr[fd] = 0; }
    else { fdMask[fd] = (int)ev->events; fdPtr[fd] = ev->data.ptr; }
  }
  return r;
}

static Server* srv = 0;
static int readyFd = -1;      // the descriptor whose write-readiness the next epoll_wait reports
static int waitCalls = 0;

extern "C" int epoll_wait(int, struct epoll_event* ev, int, int)
{
  if(++waitCalls > 8) { fprintf(stderr, "backlog harness: run() does not return\n"); _exit(3); }
  if(readyFd >= 0)
  {
    ev[0].events = EPOLLOUT;
    ev[0].data.ptr = fdPtr[readyFd];
    readyFd = -1;
    return 1;
  }
  srv->interrupt();           // the event descriptor becomes readable; report exactly that
  ev[0].events = EPOLLIN;
  ev[0].data.ptr = 0;
  return 1;
}

// ---- the clients --------------------------------------------------------------------------------------
static const int NC = 2;
struct Cb : public Server::Client::ICallback
{
  int c;
  virtual void onRead() {}
  virtual void onWrite();
  virtual void onClosed();
};
static Cb cb[NC];
static Server::Client* client[NC];
static Socket* peer[NC];
static bool dead[NC];
static char cbLog = '-';
static int curClient = -1;    // the client the current op line is about (callbacks of others are not part of its result)

void Cb::onWrite() { if(c == curClient) cbLog = 'W'; }
void Cb::onClosed() { if(c == curClient) cbLog = 'C'; srv->remove(*client[c]); client[c] = 0; dead[c] = true; }

static void teardown()
{
  delete srv;
  srv = 0;
  for(int i = 0; i < NC; ++i) { delete peer[i]; peer[i] = 0; client[i] = 0; dead[i] = false; }
}

static void setup()
{
  teardown();
  for(int i = 0; i < MAXFD; ++i) { fdMask[i] = -1; fdPtr[i] = 0; }
  srv = new Server;
  for(int i = 0; i < NC; ++i)
  {
    cb[i].c = i;
    peer[i] = new Socket;
    client[i] = srv->pair(cb[i], *peer[i]);
    if(!client[i]) { fprintf(stderr, "backlog harness: Server::pair failed\n"); _exit(3); }
  }
  liveBlocks = 0;
}

static void printClient(int c)
{
  if(dead[c] || !client[c]) { printf("dead"); return; }
  Buffer& b = ((Server::Private::ClientImpl*)client[c])->_sendBuffer;
  usize size = b.bufferEnd - b.bufferStart;
  printf("%lu ", (unsigned long)size);
  hxPutHex(b.bufferStart, size);
  if(b.buffer)
  {
    printf(" 1 ");
    hxPutHex(b.bufferEnd, 1);
    printf(" cap=%lu hr=%lu own", (unsigned long)b._capacity, (unsigned long)(b.bufferStart - b.buffer));
  }
  else
    printf(" 0 - cap=%lu hr=- %s", (unsigned long)b._capacity, b.bufferStart == (byte*)&b._capacity ? "dflt" : "stale");
}

static bool parseOutcome(const char* t)
{
  if(!strcmp(t, "wb")) { outKind = O_WB; return true; }
  if(!strcmp(t, "err")) { outKind = O_ERR; return true; }
  if(!*t) return false;
  for(const char* p = t; *p; ++p) if(*p < '0' || *p > '9') return false;
  outKind = O_CNT; outK = strtoul(t, 0, 10);
  return true;
}

int main()
{
  static HxLine l;
  setup();
  while(hxRead(l))
  {
    if(hxIs(l, "reset", 0)) { setup(); printf("ok"); hxEndLine(); continue; }
    int c = l.ntok > 1 ? (int)hxNum(l, 1) : 0;
    sendCalled = false; strcpy(sendLog, "send=-"); cbLog = '-'; curClient = c;
    if(hxIs(l, "cw", 3) && c < NC && parseOutcome(l.tok[3]))
    {
      if(dead[c]) printf("dead");
      else
      {
        size_t len = 0;
        unsigned char* d = hxBytes(l.tok[2], len);
        usize postponed = 12345;
        bool ret = client[c]->write(d, len, &postponed);
        free(d);
        if(!ret) dead[c] = true;      // queued for closing: the harness does not touch it again
        printf("ret=%d post=%lu %s", (int)ret, (unsigned long)postponed, sendLog);
      }
    }
    else if(hxIs(l, "cr", 2) && c < NC && parseOutcome(l.tok[2]))
    {
      if(dead[c]) printf("dead");
      else
      {
        int fd = (int)((Socket*)(Server::Private::ClientImpl*)client[c])->s;
        if(fd < 0 || fd >= MAXFD || fdMask[fd] < 0 || !(fdMask[fd] & EPOLLOUT))
          printf("idle");             // not registered for write-readiness: the kernel would not report it
        else
        {
          readyFd = fd; waitCalls = 0;
          srv->run();
          printf("cb=%c %s", cbLog, sendLog);
        }
      }
    }
    else { printf("bad-op"); hxEndLine(); continue; }
    for(int i = 0; i < NC; ++i) { printf(" | "); printClient(i); }
    hxEndLine();
  }
  teardown();
  return 0;
}
