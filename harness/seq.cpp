// Line-protocol harness for List / PoolList / Array (property C03).  Executes the op lines of
// lean/Nstd/Seq/Driver.lean on the real include/nstd/{List,PoolList,Array}.hpp.
//
// Observation line (see Driver.lean):
//    r=<ret|-> n=<#new[]> d=<#delete[]> | l<v> <size> <isEmpty> <values> <node ids> <free-list node ids> | ...
//    a<v> <size> <capacity> <has storage> <values>
// Node ids are <items per block>*block + slot with the blocks numbered in allocation order (white-box read of the
// `blocks` chain); returned iterators / references are printed as positions.
// Ops whose C++ precondition does not hold are answered `bad-op` without touching the container.
#include "common/hx.h"
#define private public
#include <nstd/List.hpp>
#include <nstd/PoolList.hpp>
#include <nstd/Array.hpp>
#undef private

static unsigned long nNew, nDel;
// fresh allocations are poisoned (0xAA): a value or link read before it is written cannot look plausible;
// released blocks are overwritten (0xDD) before they go back to the allocator, so a read through a stale pointer
// yields a visibly wrong element (-572662307) also in the build without sanitizers.  The size lives in a 16 byte
// header in front of the block.
void* operator new[](usize size)
{
  ++nNew;
  unsigned char* base = (unsigned char*)malloc(size + 16);
  *(usize*)base = size;
  memset(base + sizeof(usize), 0xEE, 16 - sizeof(usize));
  memset(base + 16, 0xAA, size);
  return base + 16;
}
void operator delete[](void* p)
{
  if(!p) return;
  ++nDel;
  unsigned char* base = (unsigned char*)p - 16;
  memset(p, 0xDD, *(usize*)base);
  free(base);
}
void* operator new(usize size) { return operator new[](size); }
void operator delete(void* p) { operator delete[](p); }

// element type with distinguishable equal keys: `<` looks at the key only, so the arrangement after sort() shows
// exactly which value swaps the quicksort performed
struct Tagged
{
  int k, tag;
  Tagged() : k(0), tag(0) {}
  Tagged(int k, int tag) : k(k), tag(tag) {}
  bool operator<(const Tagged& o) const { return k < o.k; }
  bool operator==(const Tagged& o) const { return k == o.k && tag == o.tag; }
  bool operator!=(const Tagged& o) const { return !(*this == o); }
};
// the same element with OTHER comparison functions as `operator<` (the only "comparator" List::sort() has):
// TaggedLe: a NON-strict comparison (`<=` on the key);  TaggedOdd: an inconsistent one (neither asymmetric nor transitive:
// 1 < 0, 0 < 2, 2 < 1).  sort() must terminate, stay inside the list (ASan) and leave a permutation for both; the exact
// arrangement is compared with the model's (`sortVals leKey` / `sortVals ltOdd`).
struct TaggedLe
{
  int k, tag;
  TaggedLe() : k(0), tag(0) {}
  TaggedLe(int k, int tag) : k(k), tag(tag) {}
  bool operator<(const TaggedLe& o) const { return k <= o.k; }
};
struct TaggedOdd
{
  int k, tag;
  TaggedOdd() : k(0), tag(0) {}
  TaggedOdd(int k, int tag) : k(k), tag(tag) {}
  bool operator<(const TaggedOdd& o) const { return (k + 2 * o.k) % 3 == 1; }
};
// element constructed in place by PoolList::append with 0 .. 7 arguments
struct Multi
{
  int n, v[7];
  Multi() : n(0) { fill(); }
  Multi(int a) : n(1) { fill(); v[0] = a; }
  Multi(int a, int b) : n(2) { fill(); v[0] = a; v[1] = b; }
  Multi(int a, int b, int c) : n(3) { fill(); v[0] = a; v[1] = b; v[2] = c; }
  Multi(int a, int b, int c, int d) : n(4) { fill(); v[0] = a; v[1] = b; v[2] = c; v[3] = d; }
  Multi(int a, int b, int c, int d, int e) : n(5) { fill(); v[0] = a; v[1] = b; v[2] = c; v[3] = d; v[4] = e; }
  Multi(int a, int b, int c, int d, int e, int f) : n(6) { fill(); v[0] = a; v[1] = b; v[2] = c; v[3] = d; v[4] = e; v[5] = f; }
  Multi(int a, int b, int c, int d, int e, int f, int g) : n(7) { fill(); v[0] = a; v[1] = b; v[2] = c; v[3] = d; v[4] = e; v[5] = f; v[6] = g; }
  void fill() { for(int i = 0; i < 7; ++i) v[i] = -1; }
};
static List<TaggedLe>* el;
alignas(List<TaggedLe>) static unsigned char emem[sizeof(List<TaggedLe>)];
static List<TaggedOdd>* xl;
alignas(List<TaggedOdd>) static unsigned char xmem[sizeof(List<TaggedOdd>)];
static PoolList<Multi>* ml;
alignas(PoolList<Multi>) static unsigned char mmem[sizeof(PoolList<Multi>)];
static List<Tagged>* tl;
alignas(List<Tagged>) static unsigned char tmem[sizeof(List<Tagged>)];
// PoolList of the same type: constructed in place through the two-argument append(A, B)
static PoolList<Tagged>* ptl;
alignas(PoolList<Tagged>) static unsigned char ptmem[sizeof(PoolList<Tagged>)];

typedef List<int> L;
typedef PoolList<int> P;
typedef Array<int> A;

static const int NV = 2;
alignas(L) static unsigned char lmem[NV][sizeof(L)];
alignas(P) static unsigned char pmem[NV][sizeof(P)];
alignas(A) static unsigned char amem[NV][sizeof(A)];
static L* lv[NV];
static P* pv[NV];
static A* av[NV];

static void resetAll()
{
  for(int i = 0; i < NV; ++i)
  {
    if(lv[i]) lv[i]->~L();
    if(pv[i]) pv[i]->~P();
    if(av[i]) av[i]->~A();
    lv[i] = new(lmem[i]) L;
    if(i == 0) { if(tl) tl->~List<Tagged>(); tl = new(tmem) List<Tagged>; }
    if(i == 0) { if(ptl) ptl->~PoolList<Tagged>(); ptl = new(ptmem) PoolList<Tagged>; }
    if(i == 0) { if(el) el->~List<TaggedLe>(); el = new(emem) List<TaggedLe>; }
    if(i == 0) { if(xl) xl->~List<TaggedOdd>(); xl = new(xmem) List<TaggedOdd>; }
    if(i == 0) { if(ml) ml->~PoolList<Multi>(); ml = new(mmem) PoolList<Multi>; }
    pv[i] = new(pmem[i]) P;
    av[i] = new(amem[i]) A;
  }
}

// ---- white-box node ids ----------------------------------------------------------------------
// items per block are not assumed: they follow from the size of the block allocation (recorded by the allocator below)
static size_t allocSizeOf(const void* block) { return *(const usize*)((const unsigned char*)block - 16); }

template<class C> static long nodeId(C& c, const void* item, size_t stride)
{
  int n = 0;
  for(typename C::ItemBlock* b = c.blocks; b; b = b->next) ++n;
  int k = 0;
  for(typename C::ItemBlock* b = c.blocks; b; b = b->next, ++k)
  {
    const char* base = (const char*)(b + 1);
    size_t items = (allocSizeOf(b) - sizeof(typename C::ItemBlock)) / stride;
    if((const char*)item >= base && (const char*)item < base + items * stride)
      return (long)items * (n - 1 - k) + (long)(((const char*)item - base) / stride);
  }
  return -1;
}
static size_t strideOf(L&) { return sizeof(L::Item); }
// slot size of PoolList: `slotSize` where the header defines it, else the historical header + element
template<class C> static auto poolStride(int) -> decltype((size_t)C::slotSize) { return (size_t)C::slotSize; }
template<class C> static size_t poolStride(long) { return sizeof(typename C::Item) + sizeof(int); }
static size_t strideOf(P&) { return poolStride<P>(0); }

// prints `<tag><v> size isEmpty values ids`; checks size() against the chain, the back links and end()
template<class C> static void showList(const char* tag, int v, C& c)
{
  size_t n = c.size();
  size_t cnt = 0;
  bool bad = false;
  typename C::Iterator it = c.begin();
  for(; it != c.end(); ++it)
    if(++cnt > n + 1) break;
  if(cnt != n) bad = true;
  if(!bad)
  {
    // backward walk: end() -- n times must meet begin() and the first item has no predecessor
    typename C::Iterator b = c.end();
    for(size_t i = 0; i < n; ++i) --b;
    if(b != c.begin()) bad = true;
    if(n > 0 && c.begin().item->prev != 0) bad = true;
    if(n == 0 && c.begin() != c.end()) bad = true;
  }
  printf(" | %s%d ", tag, v);
  if(bad)
  {
    printf("links-bad size()=%lu chain=%lu", (unsigned long)n, (unsigned long)cnt);
    return;
  }
  printf("%lu %d ", (unsigned long)n, c.isEmpty() ? 1 : 0);
  {
    // a default-constructed iterator is assignable and then equal to its source
    typename C::Iterator d;
    d = c.begin();
    if(d != c.begin() || !(d == c.begin())) printf("default-iterator-differs ");
  }
  if(n == 0) printf("- -");
  else
  {
    size_t i = 0;
    for(it = c.begin(); it != c.end(); ++it, ++i) printf(i ? ",%d" : "%d", *it);
    printf(" ");
    i = 0;
    for(it = c.begin(); it != c.end(); ++it, ++i) printf(i ? ",%ld" : "%ld", nodeId(c, it.item, strideOf(c)));
    // forward/backward value agreement
    typename C::Iterator b = c.end();
    typename C::Iterator f = c.begin();
    for(size_t k = 0; k < n; ++k) --b;
    for(size_t k = 0; k < n; ++k, ++b, ++f)
      if(&*b != &*f) printf(" back-walk-differs");
    // the non-mutating forms `Iterator operator++() const` / `operator--() const` and `operator->`
    {
      typename C::Iterator x = c.begin();
      for(size_t k = 0; k < n; ++k)
      {
        const typename C::Iterator& cx = x;
        typename C::Iterator nx = ++cx;
        const typename C::Iterator& cn = nx;
        typename C::Iterator back = --cn;
        if(back != x || cx.operator->() != &*x || &*cx != &*x || x.operator->() != &*x) printf(" const-iterator-differs");
        x = nx;
      }
      if(x != c.end()) printf(" const-iterator-differs");
    }
  }
  // white box: the free list (linked through `prev` from `freeItem`) as node ids, in list order
  {
    size_t total = 0;
    for(typename C::ItemBlock* b = c.blocks; b; b = b->next)
      total += (allocSizeOf(b) - sizeof(typename C::ItemBlock)) / strideOf(c);
    printf(" ");
    size_t k = 0;
    for(typename C::Item* f = c.freeItem; f; f = f->prev, ++k)
    {
      if(k > total) { printf(",cycle"); break; }
      printf(k ? ",%ld" : "%ld", nodeId(c, f, strideOf(c)));
    }
    if(k == 0) printf("-");
    if(k + n != total) printf(" items-lost:%lu+%lu!=%lu", (unsigned long)k, (unsigned long)n, (unsigned long)total);
  }
}

static void showArray(int v, A& a)
{
  size_t n = a.size();
  printf(" | a%d %lu %lu %d ", v, (unsigned long)n, (unsigned long)a.capacity(), (int*)a ? 1 : 0);
  if(a.isEmpty() != (n == 0)) printf("isEmpty-differs ");
  if(n == 0) printf("-");
  else
  {
    size_t i = 0;
    for(A::Iterator it = a.begin(); it != a.end(); ++it, ++i) printf(i ? ",%d" : "%d", *it);
    if(i != n) printf(" iteration-differs");
    for(i = 0; i < n; ++i)
      if(&a[i] != &((const A&)a)[i] || &a[i] != (int*)a + i) printf(" index-differs");
    {
      A::Iterator x = a.begin();
      for(i = 0; i < n; ++i)
      {
        const A::Iterator& cx = x;
        A::Iterator nx = ++cx;
        const A::Iterator& cn = nx;
        A::Iterator back = --cn;
        if(back != x || cx.operator->() != &a[i] || &*cx != &a[i] || x.operator->() != &a[i]) printf(" const-iterator-differs");
        x = nx;
      }
      if(x != a.end()) printf(" const-iterator-differs");
      A::Iterator y = a.end();
      for(i = 0; i < n; ++i) --y;
      if(y != a.begin()) printf(" back-walk-differs");
    }
  }
}

// position of an iterator in the chain (size = end()); -1 when it designates nothing of the container
template<class C> static long posOf(C& c, const typename C::Iterator& x)
{
  long k = 0;
  size_t guard = c.size() + 1;
  for(typename C::Iterator it = c.begin(); ; ++it, ++k)
  {
    if(it == x) return k;
    if(it == c.end() || guard-- == 0) return -1;
  }
}
template<class C> static long posOfRef(C& c, const int* p)
{
  long k = 0;
  for(typename C::Iterator it = c.begin(); it != c.end(); ++it, ++k)
    if(&*it == p) return k;
  return -1;
}
template<class C> static typename C::Iterator iterAt(C& c, size_t pos)
{
  typename C::Iterator it = c.begin();
  for(size_t i = 0; i < pos; ++i) ++it;
  return it;
}

// ops on a List of one of the tagged element types: <c>append k tag, <c>prepend k tag, <c>sort, <c>clear.
// sort also reports what iterators held across it see: every iterator taken before still designates the item at the same
// position (same address reached by the same number of increments from begin()), and the first/last item are unchanged
template<class T> static bool taggedOp(List<T>& c, HxLine& l, char pre)
{
  const char* op = l.tok[0] + 1;
  if(strcmp(op, "append") == 0 && l.ntok == 3) c.append(T((int)hxInt(l, 1), (int)hxInt(l, 2)));
  else if(strcmp(op, "prepend") == 0 && l.ntok == 3) c.prepend(T((int)hxInt(l, 1), (int)hxInt(l, 2)));
  else if(strcmp(op, "sort") == 0 && l.ntok == 1)
  {
    size_t n = c.size();
    typename List<T>::Iterator* held = (typename List<T>::Iterator*)malloc((n + 1) * sizeof(typename List<T>::Iterator));
    size_t i = 0;
    for(typename List<T>::Iterator it = c.begin(); i <= n; ++i) { held[i] = it; if(i < n) ++it; }
    c.sort();
    bool moved = c.size() != n;
    i = 0;
    for(typename List<T>::Iterator it = c.begin(); i <= n && !moved; ++i) { if(held[i] != it) moved = true; if(i < n) ++it; }
    if(!moved && held[n] != c.end()) moved = true;
    free(held);
    if(moved) printf("iterators-moved ");
  }
  else if(strcmp(op, "clear") == 0 && l.ntok == 1) c.clear();
  else return false;
  printf("%c %lu ", pre, (unsigned long)c.size());
  if(c.isEmpty()) printf("-");
  size_t i = 0;
  for(typename List<T>::Iterator it = c.begin(); it != c.end(); ++it, ++i) printf(i ? ",%d:%d" : "%d:%d", it->k, it->tag);
  return true;
}

static long ret;
static bool hasRet;
static void setRet(long r) { ret = r; hasRet = true; }

static void head(unsigned long n0, unsigned long d0)
{
  if(hasRet) printf("r=%ld", ret); else printf("r=-");
  printf(" n=%lu d=%lu", nNew - n0, nDel - d0);
}

static int* parseInts(const char* tok, size_t& n)
{
  n = 0;
  if(strcmp(tok, "-") == 0) return (int*)malloc(1);
  size_t cnt = 1;
  for(const char* p = tok; *p; ++p) if(*p == ',') ++cnt;
  int* r = (int*)malloc(cnt * sizeof(int));      // exactly sized: ASan sees a read past the end
  const char* p = tok;
  for(size_t i = 0; i < cnt; ++i)
  {
    char* e;
    r[i] = (int)strtol(p, &e, 10);
    p = *e ? e + 1 : e;
  }
  n = cnt;
  return r;
}

int main()
{
  HxLine l;
  resetAll();
  while(hxRead(l))
  {
    hasRet = false;
    const char* op = l.tok[0];
    if(hxIs(l, "reset", 0) || hxIs(l, "dump", 0))
    {
      if(op[0] == 'r') resetAll();
      printf("r=- n=0 d=0");
      for(int i = 0; i < NV; ++i) showList("l", i, *lv[i]);
      for(int i = 0; i < NV; ++i) showList("p", i, *pv[i]);
      for(int i = 0; i < NV; ++i) showArray(i, *av[i]);
      hxEndLine();
      continue;
    }
    if(op[0] == 'u')
    {
      // PoolList<Tagged>: uappend k tag (append(A, B)), uremove pos, uremoveBack, uclear
      if(hxIs(l, "uappend", 2))
      {
        Tagged& r = ptl->append((int)hxInt(l, 1), (int)hxInt(l, 2));
        PoolList<Tagged>::Iterator last = ptl->end(); --last;
        if(&r != &*last) printf("append-returns-other ");
      }
      else if(hxIs(l, "uremove", 1))
      {
        size_t pos = hxNum(l, 1);
        if(pos >= ptl->size()) { printf("bad-op"); hxEndLine(); continue; }
        PoolList<Tagged>::Iterator it = ptl->begin();
        for(size_t i = 0; i < pos; ++i) ++it;
        PoolList<Tagged>::Iterator nx = ptl->remove(it);
        size_t k = 0;
        for(PoolList<Tagged>::Iterator j = ptl->begin(); j != nx && j != ptl->end(); ++j) ++k;
        if(k != pos) printf("remove-returns-other ");
      }
      else if(hxIs(l, "uremoveBack", 0))
      {
        if(ptl->size() == 0) { printf("bad-op"); hxEndLine(); continue; }
        ptl->removeBack();
      }
      else if(hxIs(l, "uclear", 0)) ptl->clear();
      else { printf("bad-op"); hxEndLine(); continue; }
      printf("u %lu ", (unsigned long)ptl->size());
      if(ptl->isEmpty()) printf("-");
      size_t i = 0;
      for(PoolList<Tagged>::Iterator it = ptl->begin(); it != ptl->end(); ++it, ++i) printf(i ? ",%d:%d" : "%d:%d", it->k, it->tag);
      hxEndLine();
      continue;
    }
    if(op[0] == 't' || op[0] == 'e' || op[0] == 'x')
    {
      bool ok = op[0] == 't' ? taggedOp(*tl, l, 't') : op[0] == 'e' ? taggedOp(*el, l, 'e') : taggedOp(*xl, l, 'x');
      if(!ok) printf("bad-op");
      hxEndLine();
      continue;
    }
    if(op[0] == 'm')
    {
      // PoolList<Multi>: mappend <csv of 0..7 ints> (append with that many arguments), mremove pos, mclear
      if(hxIs(l, "mappend", 1))
      {
        size_t n;
        int* d = parseInts(l.tok[1], n);
        Multi* r = 0;
        switch(n)
        {
        case 0: r = &ml->append(); break;
        case 1: r = &ml->append(d[0]); break;
        case 2: r = &ml->append(d[0], d[1]); break;
        case 3: r = &ml->append(d[0], d[1], d[2]); break;
        case 4: r = &ml->append(d[0], d[1], d[2], d[3]); break;
        case 5: r = &ml->append(d[0], d[1], d[2], d[3], d[4]); break;
        case 6: r = &ml->append(d[0], d[1], d[2], d[3], d[4], d[5]); break;
        case 7: r = &ml->append(d[0], d[1], d[2], d[3], d[4], d[5], d[6]); break;
        }
        free(d);
        if(!r) { printf("bad-op"); hxEndLine(); continue; }
        PoolList<Multi>::Iterator last = ml->end(); --last;
        if(r != &*last) printf("append-returns-other ");
      }
      else if(hxIs(l, "mremove", 1))
      {
        size_t pos = hxNum(l, 1);
        if(pos >= ml->size()) { printf("bad-op"); hxEndLine(); continue; }
        PoolList<Multi>::Iterator it = ml->begin();
        for(size_t i = 0; i < pos; ++i) ++it;
        ml->remove(it);
      }
      else if(hxIs(l, "mclear", 0)) ml->clear();
      else { printf("bad-op"); hxEndLine(); continue; }
      printf("m %lu ", (unsigned long)ml->size());
      if(ml->isEmpty()) printf("-");
      size_t i = 0;
      for(PoolList<Multi>::Iterator it = ml->begin(); it != ml->end(); ++it, ++i)
      {
        printf(i ? ",%d" : "%d", it->n);
        for(int j = 0; j < 7; ++j) if(it->v[j] != -1 || j < it->n) printf(":%d", it->v[j]);
      }
      hxEndLine();
      continue;
    }
    if(l.ntok < 2) { printf("bad-op"); hxEndLine(); continue; }
    // all numeric arguments must be numbers
    unsigned long vv = hxNum(l, 1);
    if(vv >= (unsigned long)NV || l.tok[1][0] < '0' || l.tok[1][0] > '9') { printf("bad-op"); hxEndLine(); continue; }
    int v = (int)vv, w = 1 - v;
    L& a = *lv[v]; L& b = *lv[w];
    P& p = *pv[v]; P& q = *pv[w];
    A& x = *av[v]; A& y = *av[w];
    unsigned long n0 = nNew, d0 = nDel;
    int show = 0;      // 1 = l v, 2 = l v + l w, 3 = p v, 4 = p v + p w, 5 = a v, 6 = a v + a w, 0 = nothing
    bool bad = false;
    // ---- List ----
    if(hxIs(l, "lappend", 2)) { int& r = a.append((int)hxInt(l, 2)); setRet(posOfRef(a, &r)); show = 1; }
    else if(hxIs(l, "lprepend", 2)) { int& r = a.prepend((int)hxInt(l, 2)); setRet(posOfRef(a, &r)); show = 1; }
    else if(hxIs(l, "linsert", 3))
    {
      size_t pos = hxNum(l, 2);
      if(pos > a.size()) bad = true;
      else { L::Iterator r = a.insert(iterAt(a, pos), (int)hxInt(l, 3)); setRet(posOf(a, r)); show = 1; }
    }
    else if(hxIs(l, "linsertl", 2))
    {
      size_t pos = hxNum(l, 2);
      if(pos > a.size()) bad = true;
      else { L::Iterator r = a.insert(iterAt(a, pos), b); setRet(posOf(a, r)); show = 2; }
    }
    else if(hxIs(l, "lappendl", 1)) { a.append(b); show = 2; }
    else if(hxIs(l, "lprependl", 1)) { a.prepend(b); show = 2; }
    else if(hxIs(l, "lremove", 2))
    {
      size_t pos = hxNum(l, 2);
      if(pos >= a.size()) bad = true;
      else { L::Iterator r = a.remove(iterAt(a, pos)); setRet(posOf(a, r)); show = 1; }
    }
    else if(hxIs(l, "lremovev", 2)) { a.remove((int)hxInt(l, 2)); show = 1; }
    else if(hxIs(l, "lremoveFront", 1))
    {
      if(a.size() == 0) bad = true; else { L::Iterator r = a.removeFront(); setRet(posOf(a, r)); show = 1; }
    }
    else if(hxIs(l, "lremoveBack", 1))
    {
      if(a.size() == 0) bad = true; else { L::Iterator r = a.removeBack(); setRet(posOf(a, r)); show = 1; }
    }
    else if(hxIs(l, "lclear", 1)) { a.clear(); show = 1; }
    else if(hxIs(l, "lswap", 1)) { a.swap(b); show = 2; }
    else if(hxIs(l, "lcopy", 1)) { lv[v]->~L(); new(lmem[v]) L(b); show = 2; }
    else if(hxIs(l, "lassign", 1)) { L& r = (a = b); if(&r != &a) printf("assign-returns-other "); show = 2; }
    else if(hxIs(l, "lfind", 2)) { L::Iterator r = ((const L&)a).find((int)hxInt(l, 2)); setRet(posOf(a, r)); show = 1; }
    else if(hxIs(l, "leq", 2))
    {
      unsigned long ww = hxNum(l, 2);
      if(ww >= (unsigned long)NV) bad = true;
      else
      {
        bool e = *lv[v] == *lv[ww], ne = *lv[v] != *lv[ww];
        if(e == ne) printf("eq-inconsistent ");
        setRet(e ? 1 : 0);
      }
    }
    else if(hxIs(l, "lfront", 1))
    {
      if(a.size() == 0) bad = true;
      else { if(&a.front() != &((const L&)a).front() || &a.front() != &*a.begin()) printf("front-differs "); setRet(a.front()); show = 1; }
    }
    else if(hxIs(l, "lback", 1))
    {
      if(a.size() == 0) bad = true;
      else { if(&a.back() != &((const L&)a).back()) printf("back-differs "); setRet(a.back()); show = 1; }
    }
    else if(hxIs(l, "lsort", 1))
    {
      // iterators held across sort(): each must still be reached by the same number of increments from begin()
      size_t n = a.size(), i = 0;
      L::Iterator* held = (L::Iterator*)malloc((n + 1) * sizeof(L::Iterator));
      for(L::Iterator it = a.begin(); i <= n; ++i) { held[i] = it; if(i < n) ++it; }
      a.sort();
      bool moved = a.size() != n;
      i = 0;
      for(L::Iterator it = a.begin(); i <= n && !moved; ++i) { if(held[i] != it) moved = true; if(i < n) ++it; }
      free(held);
      if(moved) printf("iterators-moved ");
      show = 1;
    }
    // ---- PoolList ----
    else if(hxIs(l, "pappend", 2)) { int& r = p.append((int)hxInt(l, 2)); setRet(posOfRef(p, &r)); show = 3; }
    else if(hxIs(l, "premove", 2))
    {
      size_t pos = hxNum(l, 2);
      if(pos >= p.size()) bad = true;
      else { P::Iterator r = p.remove(iterAt(p, pos)); setRet(posOf(p, r)); show = 3; }
    }
    else if(hxIs(l, "premovev", 2))
    {
      size_t pos = hxNum(l, 2);
      if(pos >= p.size()) bad = true;
      else { P::Iterator it = iterAt(p, pos); const int& ref = *it; p.remove(ref); show = 3; }
    }
    else if(hxIs(l, "premoveFront", 1))
    {
      if(p.size() == 0) bad = true; else { P::Iterator r = p.removeFront(); setRet(posOf(p, r)); show = 3; }
    }
    else if(hxIs(l, "premoveBack", 1))
    {
      if(p.size() == 0) bad = true; else { P::Iterator r = p.removeBack(); setRet(posOf(p, r)); show = 3; }
    }
    else if(hxIs(l, "pclear", 1)) { p.clear(); show = 3; }
    else if(hxIs(l, "pswap", 1)) { p.swap(q); show = 4; }
#ifdef SEQ_POOL_FRONT
    else if(hxIs(l, "pfront", 1))
    {
      if(p.size() == 0) bad = true;
      else { if(&p.front() != &((const P&)p).front() || &p.front() != &*p.begin()) printf("front-differs "); setRet(p.front()); show = 3; }
    }
    else if(hxIs(l, "pback", 1))
    {
      if(p.size() == 0) bad = true;
      else { if(&p.back() != &((const P&)p).back()) printf("back-differs "); setRet(p.back()); show = 3; }
    }
#endif
    // ---- Array ----
    else if(hxIs(l, "anew", 1)) { av[v]->~A(); new(amem[v]) A; show = 5; }
    else if(hxIs(l, "anewcap", 2)) { av[v]->~A(); new(amem[v]) A((usize)hxNum(l, 2)); show = 5; }
    else if(hxIs(l, "acopy", 1)) { av[v]->~A(); new(amem[v]) A(y); show = 6; }
    else if(hxIs(l, "aassign", 1)) { A& r = (x = y); if(&r != &x) printf("assign-returns-other "); show = 6; }
    else if(hxIs(l, "areserve", 2)) { x.reserve(hxNum(l, 2)); show = 5; }
    else if(hxIs(l, "aresize", 3)) { x.resize(hxNum(l, 2), (int)hxInt(l, 3)); show = 5; }
    else if(hxIs(l, "aresized", 2)) { x.resize(hxNum(l, 2)); show = 5; }      // resize(n) with the default fill value T()
    else if(hxIs(l, "aappend", 2)) { int& r = x.append((int)hxInt(l, 2)); setRet(&r - (int*)x); show = 5; }
    else if(hxIs(l, "aappenda", 1)) { x.append(y); show = 6; }
    else if(hxIs(l, "aappendn", 2))
    {
      size_t n;
      int* d = parseInts(l.tok[2], n);
      x.append(d, n);
      free(d);
      show = 5;
    }
    else if(hxIs(l, "aremovei", 2)) { x.remove((usize)hxNum(l, 2)); show = 5; }
    else if(hxIs(l, "aremove", 2))
    {
      size_t pos = hxNum(l, 2);
      if(pos >= x.size()) bad = true;
      else { A::Iterator it = x.begin(); for(size_t i = 0; i < pos; ++i) ++it; A::Iterator r = x.remove(it); setRet(&*r - (int*)x); show = 5; }
    }
    else if(hxIs(l, "aremoveFront", 1))
    {
      if(x.size() == 0) bad = true; else { A::Iterator r = x.removeFront(); setRet(&*r - (int*)x); show = 5; }
    }
    else if(hxIs(l, "aremoveBack", 1))
    {
      if(x.size() == 0) bad = true;
      else { A::Iterator r = x.removeBack(); setRet(r == x.end() ? (long)x.size() : -1); show = 5; }
    }
    else if(hxIs(l, "aclear", 1)) { x.clear(); show = 5; }
    else if(hxIs(l, "aswap", 1)) { x.swap(y); show = 6; }
    else if(hxIs(l, "afind", 2))
    {
      A::Iterator r = ((const A&)x).find((int)hxInt(l, 2));
      long k = 0;
      A::Iterator it = x.begin();
      for(; it != r && it != x.end(); ++it) ++k;
      setRet(it == r ? k : -1);
      show = 5;
    }
    else if(hxIs(l, "aget", 2))
    {
      size_t i = hxNum(l, 2);
      if(i >= x.size()) bad = true; else { setRet(x[i]); show = 5; }
    }
    else if(hxIs(l, "afront", 1))
    {
      if(x.size() == 0) bad = true;
      else { if(&x.front() != &((const A&)x).front() || &x.front() != (int*)x) printf("front-differs "); setRet(x.front()); show = 5; }
    }
    else if(hxIs(l, "aback", 1))
    {
      if(x.size() == 0) bad = true;
      else { if(&x.back() != &((const A&)x).back() || &x.back() != (int*)x + x.size() - 1) printf("back-differs "); setRet(x.back()); show = 5; }
    }
    // ---- the container itself / a reference into it as argument ----
    else if(hxIs(l, "lappendself", 1)) { a.append(a); show = 1; }
    else if(hxIs(l, "lprependself", 1)) { a.prepend(a); show = 1; }
    else if(hxIs(l, "linsertself", 2))
    {
      size_t pos = hxNum(l, 2);
      if(pos > a.size()) bad = true;
      else { L::Iterator r = a.insert(iterAt(a, pos), a); setRet(posOf(a, r)); show = 1; }
    }
    else if(hxIs(l, "lassignself", 1)) { L& r = (a = a); if(&r != &a) printf("assign-returns-other "); show = 1; }
    else if(hxIs(l, "aappendself", 1)) { x.append(x); show = 5; }
    else if(hxIs(l, "aappendref", 2))
    {
      size_t i = hxNum(l, 2);
      if(i >= x.size()) bad = true;
      else { int& r = x.append(x[i]); setRet(&r - (int*)x); show = 5; }
    }
    else if(hxIs(l, "aresizeref", 3))
    {
      size_t i = hxNum(l, 3);
      if(i >= x.size()) bad = true;
      else { x.resize(hxNum(l, 2), x[i]); show = 5; }
    }
    else if(hxIs(l, "aappendsub", 3))
    {
      // append(const T* values, usize size) with `values` pointing INTO the array
      size_t i = hxNum(l, 2), n = hxNum(l, 3);
      if(i + n > x.size()) bad = true;
      else { x.append((const int*)x + i, n); show = 5; }
    }
    else if(hxIs(l, "aassignself", 1)) { A& r = (x = x); if(&r != &x) printf("assign-returns-other "); show = 5; }
    else if(hxIs(l, "aeq", 2))
    {
      unsigned long ww = hxNum(l, 2);
      if(ww >= (unsigned long)NV) bad = true;
      else
      {
        bool e = *av[v] == *av[ww], ne = *av[v] != *av[ww];
        if(e == ne) printf("eq-inconsistent ");
        setRet(e ? 1 : 0);
      }
    }
    else bad = true;

    if(bad) { printf("bad-op"); hxEndLine(); continue; }
    head(n0, d0);
    // the references above may be stale after a copy construction: re-read the variables
    switch(show)
    {
    case 1: showList("l", v, *lv[v]); break;
    case 2: showList("l", v, *lv[v]); showList("l", w, *lv[w]); break;
    case 3: showList("p", v, *pv[v]); break;
    case 4: showList("p", v, *pv[v]); showList("p", w, *pv[w]); break;
    case 5: showArray(v, *av[v]); break;
    case 6: showArray(v, *av[v]); showArray(w, *av[w]); break;
    }
    hxEndLine();
  }
  return 0;
}
