// Line-protocol harness for Xml (property C16).  Executes the op lines of
// lean/Nstd/Xml/Driver.lean on the real src/Document/Xml.cpp (included into this
// translation unit so that Xml::Private is reachable; compile with -I<repo>/src and do
// not list Xml.cpp as a separate source).
//
//   reset                -> ready
//   parse <hex>          -> ok <dump> | fail <line> <col> <msg>
//   tostr <tree>         -> str <hex of Element::toString()>
//   rt <tree>            -> parse(Xml::toString(tree))
//   esc <0|1> <hex>      -> str <hex>   (escapeString through the public API)
//   unesc <hex>          -> str <hex>   (Xml::Private::unescapeString)
//   pparse <hex> / parser <hex> / file <tree>   the same as parse / parse / rt through Xml::parse(const String&),
//                           Xml::Parser::parse, Xml::save + Xml::load + Xml::Parser::load (scratch file under $TMPDIR)
//   hassign d s | hclear v | hsetstr v <hex> | hmut v <path> <edit…>  -> hv <v0> <v1> <v2> <v3>   (see Driver.lean)
//   copy <tree>          -> cp <A> <B> <C>   A built on the heap; B = copy of A, edited; C assigned from A,
//                           content cleared; A dumped and deleted, then B and C dumped (dumps without #line.col)
//
// dump / tree grammar:
//   elem  := '(' HEX(type) [ '#' line '.' column ] { '@' HEX(key) '=' HEX(value) } { ',' child } ')'
//   child := elem | 't' HEX(text) | 'n'      (n = null variant: dumps only, a tree spec containing it is bad-op)
#include "common/hx.h"
#include <signal.h>
#include <unistd.h>

#define private public
#include <nstd/Document/Xml.hpp>
#include "Document/Xml.cpp"
#undef private

// ---- allocation budget + poisoning -----------------------------------------------------
static size_t opAllocated = 0;
static const size_t ALLOC_BUDGET = 64u << 20;

static void fault(const char* msg)
{
  fflush(stdout);
  ssize_t r = write(1, msg, strlen(msg));
  (void)r;
  _exit(3);
}

void* operator new[](usize size)
{
  opAllocated += size;
  if(opAllocated > ALLOC_BUDGET)
    fault("FAULT alloc-budget\n");
  void* p = malloc(size ? size : 1);
  if(!p)
    fault("FAULT alloc-failed\n");
  memset(p, 0xAA, size);
  return p;
}
void operator delete[](void* p) { free(p); }
void* operator new(usize size) { return operator new[](size); }
void operator delete(void* p) { free(p); }

static void onAlarm(int) { fault("FAULT timeout\n"); }

// ---- output ----------------------------------------------------------------------------
static void putHexRaw(const void* data, size_t len)
{
  static const char* d = "0123456789abcdef";
  const unsigned char* p = (const unsigned char*)data;
  for(size_t i = 0; i < len; ++i)
  {
    fputc(d[p[i] >> 4], stdout);
    fputc(d[p[i] & 15], stdout);
  }
}

static void putStr(const String& s) { putHexRaw((const char*)s, s.length()); }

static void dump(const Xml::Element& e, bool positions = true)
{
  fputc('(', stdout);
  putStr(e.type);
  if(positions)
    printf("#%d.%d", e.line, e.column);
  for(HashMap<String, String>::Iterator i = e.attributes.begin(), end = e.attributes.end(); i != end; ++i)
  {
    fputc('@', stdout);
    putStr(i.key());
    fputc('=', stdout);
    putStr(*i);
  }
  for(List<Xml::Variant>::Iterator i = e.content.begin(), end = e.content.end(); i != end; ++i)
  {
    const Xml::Variant& v = *i;
    fputc(',', stdout);
    switch(v.getType())
    {
    case Xml::Variant::elementType:
      dump(v.toElement(), positions);
      break;
    case Xml::Variant::textType:
      fputc('t', stdout);
      putStr(v.toString());
      break;
    default:
      fputc('n', stdout);
      break;
    }
  }
  fputc(')', stdout);
}

// ---- input -----------------------------------------------------------------------------
static bool isHexTok(const char* t)
{
  if(strcmp(t, "-") == 0)
    return true;
  size_t n = 0;
  for(; t[n]; ++n)
    if(!((t[n] >= '0' && t[n] <= '9') || (t[n] >= 'a' && t[n] <= 'f')))
      return false;
  return n > 0 && n % 2 == 0;
}

static bool hasNul(const unsigned char* d, size_t len)
{
  for(size_t i = 0; i < len; ++i)
    if(!d[i])
      return true;
  return false;
}

// reads a maximal run of lower-case hex digits (possibly empty) as bytes
static bool specHex(const char*& p, String& out)
{
  const char* s = p;
  while((*p >= '0' && *p <= '9') || (*p >= 'a' && *p <= 'f'))
    ++p;
  size_t n = p - s;
  if(n % 2)
    return false;
  n /= 2;
  char* b = (char*)malloc(n ? n : 1);
  for(size_t i = 0; i < n; ++i)
    b[i] = (char)(hxNib(s[2 * i]) * 16 + hxNib(s[2 * i + 1]));
  out = String(b, n);
  free(b);
  return true;
}

static bool specDigits(const char*& p)
{
  const char* s = p;
  while(*p >= '0' && *p <= '9')
    ++p;
  return p > s;
}

static const int MAXDEPTH = 1500;

static bool specElem(const char*& p, Xml::Element& e, int depth)
{
  if(depth > MAXDEPTH || *p != '(')
    return false;
  ++p;
  e.line = 0;
  e.column = 0;
  String s;
  if(!specHex(p, s))
    return false;
  e.type = s;
  if(*p == '#')
  {
    ++p;
    if(!specDigits(p) || *p != '.')
      return false;
    ++p;
    if(!specDigits(p))
      return false;
  }
  while(*p == '@')
  {
    ++p;
    String k, v;
    if(!specHex(p, k) || *p != '=')
      return false;
    ++p;
    if(!specHex(p, v))
      return false;
    e.attributes.append(k, v);
  }
  while(*p == ',')
  {
    ++p;
    if(*p == '(')
    {
      Xml::Element child;
      if(!specElem(p, child, depth + 1))
        return false;
      e.content.append(Xml::Variant(child));
    }
    else if(*p == 't')
    {
      ++p;
      String t;
      if(!specHex(p, t))
        return false;
      e.content.append(Xml::Variant(t));
    }
    else // 'n' (null variant) only occurs in dumps; a tree spec with it is a bad op
      return false;
  }
  if(*p != ')')
    return false;
  ++p;
  return true;
}

static bool specTree(const char* tok, Xml::Element& e)
{
  const char* p = tok;
  return specElem(p, e, 0) && *p == 0;
}

// ---- ops -------------------------------------------------------------------------------
static const char* msgCode(const String& s)
{
  if(s == "Unexpected end of file") return "eof";
  if(s == "New line in string") return "newline";
  if(s == "Expected name") return "name";
  if(s == "Expected '<'") return "lt";
  if(s == "Expected tag name") return "tagname";
  if(s == "Expected '='") return "eq";
  if(s == "Expected string") return "string";
  if(s.startsWith("Expected end tag of")) return "endtag";
  if(s == "Expected '>'") return "gt";
  return "other";
}


// ---- Variant handles (lean/Nstd/Xml/Heap.lean) ----------------------------------------------
// 4 variables of type Xml::Variant that live until `reset`.  Every successful h-op prints the value of all of
// them, read through const access only (the mutable accessor would clone).
static const unsigned NVARS = 4;
static Xml::Variant hvars[NVARS];
static const Xml::Element hEmptyElement = Xml::Element();

static bool isDec(const char* t)
{
  if(!*t)
    return false;
  for(; *t; ++t)
    if(*t < '0' || *t > '9')
      return false;
  return true;
}

static String tokString(const char* tok)
{
  size_t len = 0;
  unsigned char* d = hxBytes(tok, len);
  String s((const char*)d, len);
  free(d);
  return s;
}

static Xml::Variant* nthVariant(Xml::Element& e, unsigned long k)
{
  for(List<Xml::Variant>::Iterator i = e.content.begin(), end = e.content.end(); i != end; ++i, --k)
    if(k == 0)
      return &*i;
  return 0;
}

static const Xml::Variant* nthVariantConst(const Xml::Element& e, unsigned long k)
{
  for(List<Xml::Variant>::Iterator i = e.content.begin(), end = e.content.end(); i != end; ++i, --k)
    if(k == 0)
      return &*i;
  return 0;
}

static void putVars()
{
  printf("hv");
  for(unsigned i = 0; i < NVARS; ++i)
  {
    const Xml::Variant& cv = hvars[i];
    fputc(' ', stdout);
    // the const accessors on the "wrong" type hand out an empty value
    bool okE = cv.isElement() || (cv.toElement().type.isEmpty() && cv.toElement().content.isEmpty() && cv.toElement().attributes.isEmpty());
    bool okT = cv.isText() || cv.toString().isEmpty();
    if(!okE || !okT)
      printf("FAULT-const-accessor");
    else if(cv.isElement())
      dump(cv.toElement(), false);
    else if(cv.isText())
    {
      fputc('t', stdout);
      putStr(cv.toString());
    }
    else if(cv.isNull() && cv.getType() == Xml::Variant::nullType)
      fputc('n', stdout);
    else
      printf("FAULT-type");
  }
}

// hmut <v> <path> <edit...>: tokens 1.. ; returns false for a bad op (nothing executed)
static bool doMut(const HxLine& l)
{
  if(l.ntok < 4 || !isDec(l.tok[1]))
    return false;
  unsigned long v = hxNum(l, 1);
  if(v >= NVARS)
    return false;
  unsigned long path[64];
  int npath = 0;
  if(strcmp(l.tok[2], "-") != 0)
  {
    const char* p = l.tok[2];
    for(;;)
    {
      if(*p < '0' || *p > '9' || npath >= 64)
        return false;
      char* e = 0;
      path[npath++] = strtoul(p, &e, 10);
      if(*e == 0)
        break;
      if(*e != '.')
        return false;
      p = e + 1;
    }
  }
  const char* ed = l.tok[3];
  int nargs = l.ntok - 4;
  enum {Rename, Attr, AddText, AddElem, DelFirst, Clear, SetText, Push} kind;
  if(strcmp(ed, "rename") == 0 && nargs == 1 && isHexTok(l.tok[4])) kind = Rename;
  else if(strcmp(ed, "attr") == 0 && nargs == 2 && isHexTok(l.tok[4]) && isHexTok(l.tok[5])) kind = Attr;
  else if(strcmp(ed, "addtext") == 0 && nargs == 1 && isHexTok(l.tok[4])) kind = AddText;
  else if(strcmp(ed, "addelem") == 0 && nargs == 1 && isHexTok(l.tok[4])) kind = AddElem;
  else if(strcmp(ed, "delfirst") == 0 && nargs == 0) kind = DelFirst;
  else if(strcmp(ed, "clear") == 0 && nargs == 0) kind = Clear;
  else if(strcmp(ed, "settext") == 0 && nargs == 2 && isDec(l.tok[4]) && isHexTok(l.tok[5])) kind = SetText;
  else if(strcmp(ed, "push") == 0 && nargs == 1 && isDec(l.tok[4])) kind = Push;
  else return false;

  // validation through const access only: a Variant that is not an element counts as an empty element
  {
    const Xml::Variant* cv = &hvars[v];
    const Xml::Element* ce = cv->isElement() ? &cv->toElement() : &hEmptyElement;
    for(int i = 0; i < npath; ++i)
    {
      cv = nthVariantConst(*ce, path[i]);
      if(!cv)
        return false;
      ce = cv->isElement() ? &cv->toElement() : &hEmptyElement;
    }
    if(kind == DelFirst && ce->content.isEmpty())
      return false;
    if(kind == SetText && !nthVariantConst(*ce, hxNum(l, 4)))
      return false;
    if(kind == Push)
    {
      unsigned long src = hxNum(l, 4);
      if(src >= NVARS || src == v || hvars[src].isNull())
        return false;
    }
  }

  // the real thing: mutable accessors down the path, then the edit
  Xml::Element* cur = &hvars[v].toElement();
  for(int i = 0; i < npath; ++i)
    cur = &nthVariant(*cur, path[i])->toElement();
  switch(kind)
  {
  case Rename: cur->type = tokString(l.tok[4]); break;
  case Attr: cur->attributes.append(tokString(l.tok[4]), tokString(l.tok[5])); break;
  case AddText: cur->content.append(Xml::Variant(tokString(l.tok[4]))); break;
  case AddElem:
    {
      Xml::Element e;
      e.line = e.column = 0;
      e.type = tokString(l.tok[4]);
      cur->content.append(Xml::Variant(e));
    }
    break;
  case DelFirst: cur->content.removeFront(); break;
  case Clear: cur->clear(); break;
  case SetText: *nthVariant(*cur, hxNum(l, 4)) = tokString(l.tok[5]); break;
  case Push: cur->content.append(hvars[hxNum(l, 4)]); break;
  }
  return true;
}

// "Syntax error at line %d, column %d: <msg>" -> fail <line> <col> <code>
static void putPublicFailure(const String& err)
{
  int line = 0, col = 0, used = 0;
  const char* e = err;
  if(sscanf(e, "Syntax error at line %d, column %d: %n", &line, &col, &used) == 2 && used > 0)
    printf("fail %d %d %s", line, col, msgCode(String(e + used, err.length() - used)));
  else
  {
    printf("FAULT error-string ");
    hxPutHex(e, err.length());
  }
}

static void putParsed(bool ok, const Xml::Element& e, const Xml::Parser& p)
{
  if(ok)
  {
    printf("ok ");
    dump(e);
  }
  else
    printf("fail %d %d %s", p.getErrorLine(), p.getErrorColumn(), msgCode(p.getErrorString()));
}

// data: exactly sized heap block of len + 1 bytes, the last one NUL
static void doParse(const char* data)
{
  Xml::Private p;
  Xml::Element e;
  e.line = e.column = 0;
  if(p.parse(data, e))
  {
    printf("ok ");
    dump(e);
  }
  else
    printf("fail %d %d %s", p.errorLine, p.errorColumn, msgCode(p.errorString));
}

static void putStrLine(const char* s, size_t len)
{
  printf("str ");
  hxPutHex(s, len);
}

int main()
{
  static HxLine l;
  signal(SIGALRM, onAlarm);
  while(hxRead(l))
  {
    opAllocated = 0;
    alarm(5);
    if(hxIs(l, "reset", 0))
    {
      for(unsigned i = 0; i < NVARS; ++i)
        hvars[i].clear();
      printf("ready");
    }
    else if(l.ntok == 3 && strcmp(l.tok[0], "hassign") == 0)
    {
      if(isDec(l.tok[1]) && isDec(l.tok[2]) && hxNum(l, 1) < NVARS && hxNum(l, 2) < NVARS)
      {
        hvars[hxNum(l, 1)] = hvars[hxNum(l, 2)];
        putVars();
      }
      else
        printf("bad-op");
    }
    else if(l.ntok == 2 && strcmp(l.tok[0], "hclear") == 0)
    {
      if(isDec(l.tok[1]) && hxNum(l, 1) < NVARS)
      {
        hvars[hxNum(l, 1)].clear();
        putVars();
      }
      else
        printf("bad-op");
    }
    else if(l.ntok == 3 && strcmp(l.tok[0], "hsetstr") == 0)
    {
      if(isDec(l.tok[1]) && hxNum(l, 1) < NVARS && isHexTok(l.tok[2]))
      {
        hvars[hxNum(l, 1)] = tokString(l.tok[2]);
        putVars();
      }
      else
        printf("bad-op");
    }
    else if(strcmp(l.tok[0], "hmut") == 0)
    {
      if(doMut(l))
        putVars();
      else
        printf("bad-op");
    }
    else if(hxIs(l, "pparse", 1) && isHexTok(l.tok[1]))
    {
      // the public entry point Xml::parse(const String&) -> Xml::parse(const char*); error text through Error
      String data = tokString(l.tok[1]);
      Xml::Element e;
      e.line = e.column = 0;
      if(Xml::parse(data, e))
      {
        printf("ok ");
        dump(e);
      }
      else
        putPublicFailure(Error::getErrorString());
    }
    else if(hxIs(l, "parser", 1) && isHexTok(l.tok[1]))
    {
      String data = tokString(l.tok[1]);
      Xml::Parser p;
      Xml::Element e;
      e.line = e.column = 0;
      putParsed(p.parse(data, e), e, p);
    }
    else if(hxIs(l, "nofile", 0))
    {
      // the failure branches of load / save: a path in a directory that does not exist (open fails) and a
      // directory opened as a file (open succeeds, readAll fails)
      const char* dir = getenv("TMPDIR");
      String base = String::fromPrintf("%s", dir && *dir ? dir : "/tmp");
      String missing = String::fromPrintf("%s/nstd-verif-xml-missing-%d/x.xml", (const char*)base, (int)getpid());
      Xml::Element e, e2;
      e.line = e.column = e2.line = e2.column = 0;
      e.type = String("a");
      bool l1 = Xml::load(missing, e2);
      Xml::Parser p1;
      bool l2 = p1.load(missing, e2);
      bool msg2 = !p1.getErrorString().isEmpty();
      bool s1 = Xml::save(e, missing);
      bool l3 = Xml::load(base, e2);
      Xml::Parser p2;
      bool l4 = p2.load(base, e2);
      bool msg4 = !p2.getErrorString().isEmpty();
      printf("nofile load=%d pload=%d perr=%d save=%d dirload=%d pdirload=%d pdirerr=%d", (int)l1, (int)l2, (int)msg2, (int)s1, (int)l3, (int)l4, (int)msg4);
    }
    else if(hxIs(l, "file", 1))
    {
      Xml::Element e;
      if(specTree(l.tok[1], e))
      {
        const char* dir = getenv("TMPDIR");
        String path = String::fromPrintf("%s/nstd-verif-xml-%d.xml", dir && *dir ? dir : "/tmp", (int)getpid());
        if(!Xml::save(e, path))
          printf("FAULT save");
        else
        {
          Xml::Element e2, e3;
          e2.line = e2.column = e3.line = e3.column = 0;
          bool ok2 = Xml::load(path, e2);
          String err2 = ok2 ? String() : Error::getErrorString();
          Xml::Parser p;
          bool ok3 = p.load(path, e3);
          unlink(path);
          if(ok2 != ok3 || (ok2 && e2.toString() != e3.toString()))
            printf("FAULT load-mismatch");
          else
            putParsed(ok3, e3, p);
        }
      }
      else
        printf("bad-op");
    }
    else if(hxIs(l, "parse", 1) && isHexTok(l.tok[1]))
    {
      size_t len = 0;
      char* d = hxCStr(l.tok[1], len);
      doParse(d);
      free(d);
    }
    else if(hxIs(l, "tostr", 1))
    {
      Xml::Element e;
      if(specTree(l.tok[1], e))
      {
        String s = e.toString();
        putStrLine(s, s.length());
      }
      else
        printf("bad-op");
    }
    else if(hxIs(l, "rt", 1))
    {
      Xml::Element e;
      if(specTree(l.tok[1], e))
      {
        String s = Xml::toString(e);
        size_t len = s.length();
        char* d = (char*)malloc(len + 1);
        memcpy(d, (const char*)s, len);
        d[len] = 0;
        s = String();
        doParse(d);
        free(d);
      }
      else
        printf("bad-op");
    }
    else if(hxIs(l, "copy", 1))
    {
      // copies of element values are independent of their source (Element level: implicit copy
      // constructor / assignment of String, HashMap, List<Variant>)
      Xml::Element* a = new Xml::Element;
      if(specTree(l.tok[1], *a))
      {
        Xml::Element b(*a);
        b.type = String("zz");
        b.attributes.append(String("k"), String("v"));
        if(!b.content.isEmpty())
          b.content.removeFront();
        b.content.append(Xml::Variant(String("new")));
        Xml::Element c;
        c.line = c.column = 0;
        c = *a;
        c.content.clear();
        printf("cp ");
        dump(*a, false);
        delete a;
        a = 0;
        fputc(' ', stdout);
        dump(b, false);
        fputc(' ', stdout);
        dump(c, false);
      }
      else
        printf("bad-op");
      delete a;
    }
    else if(hxIs(l, "escm", 2) && (strcmp(l.tok[1], "0") == 0 || strcmp(l.tok[1], "1") == 0) && isHexTok(l.tok[2]))
    {
      // escapeString called directly: result bytes and the capacity of the String it returns
      // (its own buffer management: initial slack, reserve at every escape, rounding)
      size_t len = 0;
      unsigned char* d = hxBytes(l.tok[2], len);
      if(hasNul(d, len))
        printf("bad-op");
      else
      {
        String v((const char*)d, len);
        String r = Xml::Private::escapeString(v, l.tok[1][0] == '1');
        printf("mem %lu ", (unsigned long)r.capacity());
        hxPutHex((const char*)r, r.length());
      }
      free(d);
    }
    else if(hxIs(l, "deep", 2))
    {
      // copies share their Variant payloads: a write through the copy (mutable toElement() clones a
      // shared element; Variant assignment counts the payload) must leave the source alone.
      // Only generated when Xml.hpp carries the repairs of Xml::Variant (see tools/areas/xml.py).
      Xml::Element* a = new Xml::Element;
      if(specTree(l.tok[1], *a))
      {
        unsigned long depth = hxNum(l, 2);
        Xml::Element b(*a);
        Xml::Element* cur = &b;
        for(unsigned long d = 0; d < depth; ++d)
        {
          Xml::Element* next = 0;
          for(List<Xml::Variant>::Iterator i = cur->content.begin(), end = cur->content.end(); i != end; ++i)
            if(i->isElement())
            {
              Xml::Variant& v = *i;
              next = &v.toElement();
              break;
            }
          if(!next)
            break;
          cur = next;
        }
        cur->type = String("zz");
        cur->content.append(Xml::Variant(String("new")));
        Xml::Variant v, w;
        if(!a->content.isEmpty())
        {
          v = a->content.front();
          v = v;
          w = v;
          v = Xml::Variant(String("x"));
          if(w.isElement())
            w.toElement().type = String("yy");
        }
        printf("dp ");
        dump(*a, false);
        delete a;
        a = 0;
        fputc(' ', stdout);
        dump(b, false);
        fputc(' ', stdout);
        if(w.isElement())
          dump(w.toElement(), false);
        else if(w.isText())
        {
          fputc('t', stdout);
          String t = w.toString();
          if(t.length()) hxPutHex((const char*)t, t.length());
        }
        else
          fputc('n', stdout);
      }
      else
        printf("bad-op");
      delete a;
    }
    else if(hxIs(l, "esc", 2) && (strcmp(l.tok[1], "0") == 0 || strcmp(l.tok[1], "1") == 0) && isHexTok(l.tok[2]))
    {
      size_t len = 0;
      unsigned char* d = hxBytes(l.tok[2], len);
      if(hasNul(d, len))
        printf("bad-op");
      else
      {
        bool attr = l.tok[1][0] == '1';
        Xml::Element e;
        e.line = e.column = 0;
        e.type = String("a");
        String v((const char*)d, len);
        if(attr)
          e.attributes.append(String("b"), v);
        else
          e.content.append(Xml::Variant(v));
        String s = e.toString();
        const char* pre = attr ? "<a b=\"" : "<a>";
        const char* suf = attr ? "\"/>" : "</a>";
        size_t np = strlen(pre), ns = strlen(suf), n = s.length();
        const char* c = s;
        if(n < np + ns || memcmp(c, pre, np) != 0 || memcmp(c + n - ns, suf, ns) != 0)
        {
          printf("FAULT esc-frame ");
          hxPutHex(c, n);
        }
        else
          putStrLine(c + np, n - np - ns);
      }
      free(d);
    }
    else if(hxIs(l, "unesc", 1) && isHexTok(l.tok[1]))
    {
      size_t len = 0;
      unsigned char* d = hxBytes(l.tok[1], len);
      if(hasNul(d, len))
        printf("bad-op");
      else
      {
        String in((const char*)d, len);
        String s = Xml::Private::unescapeString(in);
        putStrLine(s, s.length());
      }
      free(d);
    }
    else
      printf("bad-op");
    alarm(0);
    hxEndLine();
  }
  return 0;
}
