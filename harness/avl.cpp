// Line-protocol harness for Map / MultiMap (property C01).  Executes the op lines of
// lean/Nstd/Avl/Driver.lean on the real include/nstd/Map.hpp and MultiMap.hpp.
// Containers: 0 = Map<Key,int>, 1 = MultiMap<Key,int>, 2 = a second Map, 3 = a second MultiMap.
// Only the public API is used (the tree shape is pinned through the comparison count of
// `find` for every key of the domain); `wb` and observation level 3 additionally print the node fields, parent
// links, the prev/next list as item ids and the free list, read through an access-specifier override.
#include "common/hx.h"
#include <stdarg.h>
#include <signal.h>
#include <unistd.h>
#include <sys/time.h>
#define private public
#include <nstd/Map.hpp>
#include <nstd/MultiMap.hpp>
#undef private

// the library's ASSERTs stay enabled; a failing one prints here and traps (= a crash result)
int Debug::printf(const char* format, ...)
{
  va_list ap;
  va_start(ap, format);
  fputs("ERROR: nstd ", stderr);
  vfprintf(stderr, format, ap);
  va_end(ap);
  return 1;
}

static unsigned long g_cmps;

struct Key
{
  int k;
  Key() : k(0) {}
  Key(int k) : k(k) {}
  bool operator<(const Key& o) const { ++g_cmps; return k < o.k; }
  bool operator>(const Key& o) const { ++g_cmps; return k > o.k; }
  bool operator<=(const Key& o) const { ++g_cmps; return k <= o.k; }
  bool operator>=(const Key& o) const { ++g_cmps; return k >= o.k; }
  bool operator==(const Key& o) const { ++g_cmps; return k == o.k; }
  bool operator!=(const Key& o) const { ++g_cmps; return k != o.k; }
};

typedef Map<Key, int> M;
typedef MultiMap<Key, int> X;

alignas(M) static unsigned char mstore[2][sizeof(M)];
alignas(X) static unsigned char xstore[2][sizeof(X)];
static M* m[2];
static X* x[2];
static long domLo = 0, domHi = -1;
static int lvl = 2;

// A container that was copy-CONSTRUCTED may lay out its items differently from the model (how many items the copy
// constructor allocates at once is not part of the property): from then on its white-box part names items by key instead
// of by item id and leaves the free list out.  `g_cur` = container the current line observes; `g_nocmp` = the line is a
// copy construction / assignment, whose number of key comparisons is not part of the tie (the property bounds lookups).
static bool anon[4];
static int g_cur;
static bool g_nocmp;

static void resetAll()
{
  for(int i = 0; i < 4; ++i) anon[i] = false;
  for(int i = 0; i < 2; ++i)
  {
    if(m[i]) m[i]->~M();
    m[i] = new(mstore[i]) M;
  }
  for(int i = 0; i < 2; ++i)
  {
    if(x[i]) x[i]->~X();
    x[i] = new(xstore[i]) X;
  }
  domLo = 0;
  domHi = -1;
  lvl = 2;
}

template<class C> static unsigned long posOf(C& c, const typename C::Iterator& it)
{
  unsigned long p = 0;
  for(typename C::Iterator i = c.begin(), end = c.end(); i != end; ++i, ++p)
    if(i == it)
      return p;
  return p; // end()
}

template<class C> static typename C::Iterator itAt(C& c, unsigned long p)
{
  typename C::Iterator i = c.begin();
  while(p--) ++i;
  return i;
}

template<class C> static long idOf(const C& c, const typename C::Item* it);
template<class C> static void wbAll(const C& c);


template<class C> static void observe(C& c, const char* ret, unsigned long cmps)
{
  if(g_nocmp) printf("%s c=- n=%lu", ret, (unsigned long)c.size());
  else printf("%s c=%lu n=%lu", ret, cmps, (unsigned long)c.size());
  if(lvl >= 1)
  {
    printf(" |");
    unsigned long n = 0, h = 0;
    bool okAcc = true;
    const C& cc = c;
    for(typename C::Iterator i = c.begin(), end = c.end(); i != end; ++i, ++n)
    {
      printf(" %d:%d", i.key().k, *i);
      h = h * 31 + (unsigned long)(unsigned)i.key().k * 7 + (unsigned long)(unsigned)*i;
      // the other accessors of Iterator: const / non-const operator* and operator->, the const ++ / -- that return a
      // new iterator, operator== / != in both directions
      const typename C::Iterator ci = i;
      typename C::Iterator nx = ++ci, same = i;
      ++same;
      if(&*ci != &*i || ci.operator->() != &*ci || i.operator->() != &*i || !(nx == same) || nx != same || !(ci == i))
        okAcc = false;
      typename C::Iterator back = --nx;   // const -- on a const copy
      { const typename C::Iterator cn = same; back = --cn; }
      if(back != i)
        okAcc = false;
    }
    // const overloads of begin / end / front / back / size / isEmpty
    if(cc.begin() != c.begin() || cc.end() != c.end() || cc.size() != c.size() || cc.isEmpty() != c.isEmpty())
      okAcc = false;
    if(n && (&cc.front() != &c.front() || &cc.back() != &c.back() || &c.front() != &*c.begin()))
      okAcc = false;
    if(!okAcc)
      printf(" ACCESSOR-MISMATCH");
    // the prev links must thread the same sequence backwards, and isEmpty() must agree with size()
    unsigned long nb = 0, pw = 1, hb = 0;
    for(typename C::Iterator i = c.end(), b = c.begin(); i != b && nb <= n; ++nb)
    {
      --i;
      hb += pw * ((unsigned long)(unsigned)i.key().k * 7 + (unsigned long)(unsigned)*i);
      pw *= 31;
    }
    if(nb != n || hb != h || n != (unsigned long)c.size() || c.isEmpty() != (n == 0))
      printf(" BACKWARD-WALK-OR-SIZE-MISMATCH");
  }
  if(lvl >= 2)
  {
    printf(" |");
    for(long k = domLo; k <= domHi; ++k)
    {
      g_cmps = 0;
      typename C::Iterator it = c.find(Key((int)k));
      unsigned long n = g_cmps;
      if(it == c.end())
        printf(" e/%lu", n);
      else
        printf(" %lu/%lu", posOf(c, it), n);
    }
  }
  if(lvl >= 3)
  { // white-box: every stored field the model has (read through the access-specifier override)
    printf(" # ");
    wbAll(c);
  }
  hxEndLine();
}

static void bad()
{
  printf("bad-op");
  hxEndLine();
}

static usize countOf(M&, const Key&, bool& ok) { ok = false; return 0; }
static usize countOf(X& c, const Key& k, bool& ok) { ok = true; return c.count(k); }

// items per heap block: told by the check (translated from the current headers)
#ifndef AVL_WATCHDOG_S
#define AVL_WATCHDOG_S 4
#endif
#ifndef AVL_IPB_MAP
#define AVL_IPB_MAP 4
#endif
#ifndef AVL_IPB_MULTI
#define AVL_IPB_MULTI 4
#endif
static long ipbOf(const M&) { return AVL_IPB_MAP; }
static long ipbOf(const X&) { return AVL_IPB_MULTI; }

// item identity = (items per block) * (allocation number of its block) + index in the block (never an address)
template<class C> static long idOf(const C& c, const typename C::Item* it)
{
  long nblocks = 0, pos = 0;
  for(const typename C::ItemBlock* b = c.blocks; b; b = b->next) ++nblocks;
  for(const typename C::ItemBlock* b = c.blocks; b; b = b->next, ++pos)
  {
    const typename C::Item* first = (const typename C::Item*)(b + 1);
    if(it >= first && it < first + ipbOf(c))
      return ipbOf(c) * (nblocks - 1 - pos) + (long)(it - first);
  }
  return -1;
}

template<class C> static void wb(const C& c, const typename C::Item* i)
{
  if(!i) { printf("."); return; }
  printf("(");
  wb(c, i->left);
  if(anon[g_cur]) printf(" _/%d:%lu:%ld ", i->key.k, (unsigned long)i->height, (long)i->slope);
  else printf(" %ld/%d:%lu:%ld ", idOf(c, i), i->key.k, (unsigned long)i->height, (long)i->slope);
  wb(c, i->right);
  printf(")");
}

// the same with the parent link of every item: (left id/key:height:slope^parent right)
template<class C> static void wbp(const C& c, const typename C::Item* i)
{
  if(!i) { printf("."); return; }
  printf("(");
  wbp(c, i->left);
  if(anon[g_cur])
  {
    printf(" _/%d:%lu:%ld^", i->key.k, (unsigned long)i->height, (long)i->slope);
    if(i->parent) printf("k%d ", i->parent->key.k); else printf("- ");
  }
  else
  {
    printf(" %ld/%d:%lu:%ld^", idOf(c, i), i->key.k, (unsigned long)i->height, (long)i->slope);
    if(i->parent) printf("%ld ", idOf(c, i->parent)); else printf("- ");
  }
  wbp(c, i->right);
  printf(")");
}

// tree with parent links, the prev/next list as item ids (walked forwards over `next`, every `prev` link and both
// sentinels checked against it), the free list in order
template<class C> static void wbAll(const C& c)
{
  wbp(c, c.root);
  printf(" ord");
  const typename C::Item* prev = 0;
  unsigned long n = 0;
  bool okLinks = c._end.item == &c.endItem && c.endItem.next == 0;
  for(const typename C::Item* i = c._begin.item; i != &c.endItem && n <= c._size; prev = i, i = i->next, ++n)
  {
    if(anon[g_cur]) printf(" k%d", i->key.k); else printf(" %ld", idOf(c, i));
    if(i->prev != prev) okLinks = false;
  }
  if(c.endItem.prev != prev || n != c._size) okLinks = false;
  if(!okLinks) printf(" PREV-NEXT-LINKS-BROKEN");
  printf(" free");
  if(anon[g_cur]) printf(" ~");
  else for(const typename C::Item* f = c.freeItem; f; f = f->prev) printf(" %ld", idOf(c, f));
}

// ops on one container; returns false when the line is not one of them
template<class C> static bool doOp(C& c, HxLine& l)
{
  char ret[64];
  const char* op = l.tok[1];
  int n = l.ntok - 2;
  g_cmps = 0;
  if(!strcmp(op, "nop") && n == 0) { observe(c, "-", 0); return true; }
  if(!strcmp(op, "wb") && n == 0)
  {
    wb(c, c.root);
    printf(" free");
    if(anon[g_cur]) printf(" ~");
    else for(const typename C::Item* f = c.freeItem; f; f = f->prev) printf(" %ld", idOf(c, f));
    hxEndLine();
    return true;
  }
  if(!strcmp(op, "ins") && n == 2)
  {
    typename C::Iterator it = c.insert(Key((int)hxInt(l, 2)), (int)hxInt(l, 3));
    unsigned long cm = g_cmps;
    snprintf(ret, sizeof(ret), "it=%lu", posOf(c, it));
    observe(c, ret, cm);
    return true;
  }
  if(!strcmp(op, "insat") && n == 3)
  {
    unsigned long p = hxNum(l, 2);
    if(p > c.size()) { bad(); return true; }
    typename C::Iterator pos = itAt(c, p);
    g_cmps = 0;
    typename C::Iterator it = c.insert(pos, Key((int)hxInt(l, 3)), (int)hxInt(l, 4));
    unsigned long cm = g_cmps;
    snprintf(ret, sizeof(ret), "it=%lu", posOf(c, it));
    observe(c, ret, cm);
    return true;
  }
  if(!strcmp(op, "rmkey") && n == 1)
  {
    c.remove(Key((int)hxInt(l, 2)));
    observe(c, "-", g_cmps);
    return true;
  }
  if(!strcmp(op, "rmat") && n == 1)
  {
    unsigned long p = hxNum(l, 2);
    if(p >= c.size()) { bad(); return true; }
    typename C::Iterator pos = itAt(c, p);
    g_cmps = 0;
    typename C::Iterator it = c.remove(pos);
    unsigned long cm = g_cmps;
    snprintf(ret, sizeof(ret), "it=%lu", posOf(c, it));
    observe(c, ret, cm);
    return true;
  }
  if((!strcmp(op, "rmfront") || !strcmp(op, "rmback")) && n == 0)
  {
    if(c.size() == 0) { bad(); return true; }
    typename C::Iterator it = op[2] == 'f' ? c.removeFront() : c.removeBack();
    unsigned long cm = g_cmps;
    snprintf(ret, sizeof(ret), "it=%lu", posOf(c, it));
    observe(c, ret, cm);
    return true;
  }
  if(!strcmp(op, "clear") && n == 0)
  {
    c.clear();
    observe(c, "-", g_cmps);
    return true;
  }
  if(!strcmp(op, "find") && n == 1)
  {
    typename C::Iterator it = c.find(Key((int)hxInt(l, 2)));
    unsigned long cm = g_cmps;
    snprintf(ret, sizeof(ret), "it=%lu", posOf(c, it));
    observe(c, ret, cm);
    return true;
  }
  if(!strcmp(op, "has") && n == 1)
  {
    bool b = c.contains(Key((int)hxInt(l, 2)));
    unsigned long cm = g_cmps;
    snprintf(ret, sizeof(ret), "b=%d", (int)b);
    observe(c, ret, cm);
    return true;
  }
  if(!strcmp(op, "count") && n == 1)
  {
    bool ok;
    usize cnt = countOf(c, Key((int)hxInt(l, 2)), ok);
    unsigned long cm = g_cmps;
    if(!ok) { bad(); return true; }
    snprintf(ret, sizeof(ret), "cnt=%lu", (unsigned long)cnt);
    observe(c, ret, cm);
    return true;
  }
  if((!strcmp(op, "front") || !strcmp(op, "back")) && n == 0)
  {
    if(c.size() == 0) { bad(); return true; }
    int v = op[0] == 'f' ? c.front() : c.back();
    snprintf(ret, sizeof(ret), "v=%d", v);
    observe(c, ret, g_cmps);
    return true;
  }
  return false;
}

// a corrupted tree can make an operation loop forever: every op line gets a few seconds of CPU time
// (virtual timer: waiting or being descheduled does not count), then the process ends like a crash (the framework attributes it to the op line)
static void onAlarm(int)
{
  static const char msg[] = "ERROR: nstd harness watchdog: the operation did not return (endless loop)\n";
  ssize_t r = write(2, msg, sizeof(msg) - 1);
  (void)r;
  _exit(89);
}

int main()
{
  HxLine l;
  signal(SIGVTALRM, onAlarm);
  resetAll();
  while(hxRead(l))
  {
    struct itimerval tv = {{0, 0}, {AVL_WATCHDOG_S, 0}};
    setitimer(ITIMER_VIRTUAL, &tv, 0);
    if(hxIs(l, "reset", 0)) { resetAll(); printf("ok"); hxEndLine(); continue; }
    if(hxIs(l, "dom", 2)) { domLo = hxInt(l, 1); domHi = hxInt(l, 2); printf("ok"); hxEndLine(); continue; }
    if(hxIs(l, "obs", 1)) { lvl = (int)hxNum(l, 1); printf("ok"); hxEndLine(); continue; }
    if(l.ntok < 2 || strlen(l.tok[0]) != 1 || l.tok[0][0] < '0' || l.tok[0][0] > '3') { bad(); continue; }
    int c = l.tok[0][0] - '0';
    bool multi = (c & 1) != 0;
    int di = c >> 1;
    g_cur = c;
    g_nocmp = false;
    if((!strcmp(l.tok[1], "assign") || !strcmp(l.tok[1], "insall") || !strcmp(l.tok[1], "copy")) && l.ntok == 3)
    {
      // copy construction / assignment between two different containers of the same kind, bulk insert between
      // two Maps (self-assignment is another property's business)
      if(strlen(l.tok[2]) != 1 || l.tok[2][0] < '0' || l.tok[2][0] > '3') { bad(); continue; }
      int sc = l.tok[2][0] - '0';
      if(sc == c || ((sc & 1) != 0) != multi || (multi && l.tok[1][0] == 'i')) { bad(); continue; }
      g_cmps = 0;
      g_nocmp = l.tok[1][0] != 'i';            // copy / assign: the comparison count is not part of the tie
      if(l.tok[1][0] == 'c') anon[c] = true;   // copy-constructed: item ids / free list no longer compared
      if(!multi)
      {
        M& src = *m[1 - di];
        if(l.tok[1][0] == 'a') *m[di] = src;
        else if(l.tok[1][0] == 'c')
        { // copy constructor
          m[di]->~M();
          m[di] = new(mstore[di]) M(src);
        }
        else m[di]->insert(src);
        observe(*m[di], "-", g_cmps);
      }
      else
      {
        X& src = *x[1 - di];
        if(l.tok[1][0] == 'a') *x[di] = src;
        else
        {
          x[di]->~X();
          x[di] = new(xstore[di]) X(src);
        }
        observe(*x[di], "-", g_cmps);
      }
      continue;
    }
    bool done = multi ? doOp(*x[di], l) : doOp(*m[di], l);
    if(!done) bad();
  }
  for(int i = 0; i < 2; ++i) m[i]->~M();
  for(int i = 0; i < 2; ++i) x[i]->~X();
  return 0;
}
