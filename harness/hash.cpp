// Line-protocol harness for HashMap / HashSet / PoolMap (property C02).  Executes the op
// lines of lean/Nstd/Hash/Driver.lean on the real headers, with a key type whose hash
// function is selected per run, and prints the same observation line.
#include "common/hx.h"
#include <sys/time.h>
#include <nstd/Base.hpp>

#include <nstd/String.hpp>

// the forms in which one and the same text is handed to the library (see the KEY_STRING build below): every way a
// String of that text comes into being.  Form ids 0..8 and 10..12; 9 (and anything else) = rotate on every use.
static const int FORMS[] = {0, 1, 2, 3, 4, 5, 6, 7, 8, 10, 11, 12};
static const int NORIGIN = (int)(sizeof(FORMS) / sizeof(FORMS[0]));
static int g_origin = 0;
static unsigned g_rot = 0;

struct StrForm
{
  String aux, s;
  char* buf;
  StrForm(const char* b, usize len, int origin) : buf(0)
  {
    switch(origin)
    {
    case 0: s = String(b, len); break;
    case 1: s = String(b, len); s.reserve(len + 13); break;
    case 2:
      buf = (char*)malloc(len + 3);
      buf[0] = 0x7e; memcpy(buf + 1, b, len); buf[len + 1] = 0x7e; buf[len + 2] = 0x7e;
      s = String("previously owned", 16);      // attach releases the block owned before
      s.attach(buf + 1, len);
      break;
    case 3: aux = String(b, len); s = String("previously owned", 16); s = aux; break;
    case 4:
      buf = (char*)malloc(len + 1);
      memcpy(buf, b, len); buf[len] = 0;
      s.attach(buf, len);
      break;
    case 5:
      if(len == 0) break;       // String()
      buf = (char*)malloc(len + 1);
      memcpy(buf, b, len); buf[len] = 0x01;
      s.attach(buf, len);
      break;
    case 6:                     // String(capacity), then append(const char*, len)
    {
      String t(len + 5);
      t.append(b, len);
      s = t;
      const char* q = s;        // conversion of a non-const String
      if(q[len]) abort();
      break;
    }
    case 7:                     // built character by character from String()
    {
      for(usize i = 0; i < len; ++i) s.append(b[i]);
      if(len & 1) { char* w = s; if(w[len]) abort(); }       // mutable conversion: private, terminated
      if(s.isEmpty() != (len == 0)) abort();
      break;
    }
    case 8:                     // substr of a larger String (positive / negative start)
    {
      buf = (char*)malloc(len + 4);
      buf[0] = 0x7e; buf[1] = 0x7e; memcpy(buf + 2, b, len); buf[len + 2] = 0x7e; buf[len + 3] = 0x7e;
      aux = String(buf, len + 4);
      s = (len & 1) ? aux.substr(-(ssize)(len + 2), (ssize)len) : aux.substr(2, (ssize)len);
      if(len == 0 && aux.substr(2).length() != 2) abort();
      if(aux.substr((ssize)len + 10).length() != 0 || aux.substr(2, (ssize)len + 100).length() != len + 2) abort();   // clamped
      break;
    }
    case 10:                    // cleared (own block kept / shared block dropped), then append(const String&)
    {
      s = String("zzzzzzzzzzzz", 12);
      if(len & 1) aux = s;      // shared: clear() lets go of the block
      s.clear();
      s.append(String(b, len));
      break;
    }
    case 11:                    // longer text cut back in place by resize
    {
      s = String(b, len);
      s.append("junk", 4);
      s.resize(len);
      break;
    }
    default:                    // 12: assigned from an attached (unowned, unterminated) view: operator= copies
    {
      buf = (char*)malloc(len + 2);
      memcpy(buf, b, len); buf[len] = 0x7e; buf[len + 1] = 0x7e;
      aux.attach(buf, len);
      s = String("previously owned", 16);
      s = aux;
      if(len & 1)
      {
        String v;                 // conversion of a non-const unterminated view: private terminated copy
        v.attach(buf, len);
        const char* q = v;
        if(q == buf || q[len] || memcmp(q, buf, len) != 0) abort();
      }
      break;
    }
    }
  }
  ~StrForm() { free(buf); }
private:
  StrForm(const StrForm&);
  StrForm& operator=(const StrForm&);
};

#ifdef KEY_STRING
// second build: the key type is nstd String with the library's own hash(const String&) and operator==.
// Key number 0 is the EMPTY text, 1 is "x", k >= 2 is the 5-character text of n = k - 2:
//   ('a' + n % 3) (digit n/3 % 4) 'b' (digit n/12) 'c'   (the hash function reads the characters 0, 2 and 4 only,
// so all such keys with the same n % 3 collide whatever the capacity).
// A key argument is materialised in one of NORIGIN forms (`origin n` line; 9 = rotate on every use): the same text as
// an owned string, an owned string with spare capacity, a view attached inside a larger exactly sized heap block
// whose neighbouring bytes are not NUL, a shared copy, a view of a NUL terminated block (what a literal is), and
// String() / a view at the start of a block.  Equal texts must behave as the same key whatever their form.
typedef String Key;
static usize keyText(int k, char* b)
{
  if(k == 0) return 0;
  if(k == 1) { b[0] = 'x'; return 1; }
  int n = k - 2;
  b[0] = (char)('a' + n % 3); b[1] = (char)('0' + (n / 3) % 4); b[2] = 'b'; b[3] = (char)('0' + (n / 12) % 10); b[4] = 'c';
  return 5;
}
static int pickOrigin(int origin)
{
  if(origin < 0) origin = g_origin;
  for(int i = 0; i < NORIGIN; ++i)
    if(FORMS[i] == origin) return origin;
  return FORMS[g_rot++ % NORIGIN];
}
struct KeyArg
{
  char text[8];
  StrForm f;
  KeyArg(int k, int origin = -1) : f(text, keyText(k, text), pickOrigin(origin)) {}
};
#define mkKey(k) (KeyArg(k).f.s)
#define mkKeyObs(k) (KeyArg(k, 9).f.s)      // observation: rotate through all forms
static int keyNum(const Key& s)
{
  usize len = s.length();
  if(len == 0) return 0;
  if(len == 1) return 1;
  const char* p = s;
  return 2 + (p[0] - 'a') + 3 * (p[1] - '0') + 12 * (p[3] - '0');
}
static int g_mode = 0;
#else
struct Key
{
  int v;
  Key() : v(0) {}
  Key(int v) : v(v) {}
  bool operator==(const Key& o) const { return v == o.v; }
  bool operator!=(const Key& o) const { return v != o.v; }
};
#define mkKey(k) (Key(k))
#define mkKeyObs(k) (Key(k))
static int keyNum(const Key& k) { return k.v; }

static int g_mode = 0;
inline usize hash(const Key& k)
{
  switch(g_mode)
  {
  case 0: return (usize)k.v;
  case 1: return 7;
  case 2: return (usize)k.v % 2;
  case 3: return ~(usize)k.v;
  case 6: return hash((const void*)(usize)k.v);      // the library's pointer hash, the key number taken as an address
  default: return (usize)k.v / 2;
  }
}
#endif

#ifdef KEY_STRING
// the String-key build compiles the containers the way a translation unit that includes Debug.hpp does (String.cpp instantiates
// HashSet<String> that way): `VERIFY(new(item) Item(key) == item)`; the int-key build compiles the plain variant
#include <nstd/Debug.hpp>
#endif
#define private public
#include <nstd/HashMap.hpp>
#include <nstd/HashSet.hpp>
#include <nstd/PoolMap.hpp>
#undef private
#include <nstd/String.hpp>
#include <nstd/Debug.hpp>

// String.cpp refers to Debug::printf (assertion messages); Debug.cpp would pull in Process
int Debug::printf(const char*, ...) { return 0; }

// fresh allocations are poisoned: a read of an uninitialised link / bucket cell is recognisable
// a member that keeps allocating within ONE op line (a loop over a list that grows under it) is stopped here: reported as a
// crash on that op line instead of exhausting the machine
static usize g_opBytes = 0;
void* operator new[](usize size)
{
  g_opBytes += size;
  if(g_opBytes > ((usize)16 << 20))
  {
    fputs("harness: more than 16 MB allocated within one op line (runaway loop)\n", stderr);
    abort();
  }
  void* p = malloc(size ? size : 1);
  memset(p, 0xAA, size);
  return p;
}
void operator delete[](void* p) { free(p); }
void* operator new(usize size) { return operator new[](size); }
void operator delete(void* p) { free(p); }

typedef HashMap<Key, int> HM;
typedef HashSet<Key> HS;
typedef PoolMap<Key, int> PM;

static int g_dom = 6;

// ---- per-container members -----------------------------------------------------------------
static int keyOf(const HM::Iterator& i) { return keyNum(i.key()); }
static int keyOf(const HS::Iterator& i) { return keyNum(*i); }
static int keyOf(const PM::Iterator& i) { return keyNum(i.key()); }
static int valOf(const HM::Iterator& i) { return *i; }
static int valOf(const HS::Iterator&) { return 0; }
static int valOf(const PM::Iterator& i) { return *i; }

// result encoding: -1 = unit, >= 0 = number
static bool opAppend(HM& c, int k, int v, long& r) { r = c.append(mkKey(k), v); return true; }
static bool opAppend(HS& c, int k, int, long& r) { c.append(mkKey(k)); r = -1; return true; }
static bool opAppend(PM& c, int k, int, long& r) { r = c.append(mkKey(k)); return true; }
static bool opPrepend(HM& c, int k, int v, long& r) { r = c.prepend(mkKey(k), v); return true; }
static bool opPrepend(HS& c, int k, int, long& r) { c.prepend(mkKey(k)); r = -1; return true; }
static bool opPrepend(PM&, int, int, long&) { return false; }
static HM::Iterator opInsert(HM& c, const HM::Iterator& p, int k, int v) { return c.insert(p, mkKey(k), v); }
static HS::Iterator opInsert(HS& c, const HS::Iterator& p, int k, int) { return c.insert(p, mkKey(k)); }
static PM::Iterator opInsert(PM& c, const PM::Iterator& p, int k, int) { return c.insert(p, mkKey(k)); }
static bool opCopy(HM*& dst, void* mem, const HM& src) { dst->~HM(); dst = new(mem) HM(src); return true; }
static bool opCopy(HS*& dst, void* mem, const HS& src) { dst->~HS(); dst = new(mem) HS(src); return true; }
static bool opCopy(PM*&, void*, const PM&) { return false; }
static bool opAssign(HM& a, const HM& b) { a = b; return true; }
static bool opAssign(HS& a, const HS& b) { a = b; return true; }
static bool opAssign(PM&, const PM&) { return false; }
static int opEq(const HM& a, const HM& b) { bool e = a == b, n = a != b; return e == !n ? (int)e : 2; }
static int opEq(const HS& a, const HS& b) { bool e = a == b, n = a != b; return e == !n ? (int)e : 2; }
static int opEq(const PM&, const PM&) { return -1; }
static int opNe(const HM& a, const HM& b) { return (int)(a != b); }
static int opNe(const HS& a, const HS& b) { return (int)(a != b); }
static int opNe(const PM&, const PM&) { return -1; }
static bool opAppendAll(HM&, const HM&) { return false; }
static bool opAppendAll(HS& a, const HS& b) { a.append(b); return true; }
static bool opAppendAll(PM&, const PM&) { return false; }
static bool opRemoveAll(HM&, const HM&) { return false; }
static bool opRemoveAll(HS& a, const HS& b) { a.remove(b); return true; }
static bool opRemoveAll(PM&, const PM&) { return false; }
static bool opSetVal(HM& c, int k, int v) { HM::Iterator i = c.find(mkKey(k)); if(i != c.end()) *i = v; return true; }
static bool opSetVal(HS&, int, int) { return false; }
static bool opSetVal(PM& c, int k, int v) { PM::Iterator i = c.find(mkKey(k)); if(i != c.end()) *i = v; return true; }
static bool opRemoveVal(HM&, const HM::Iterator&) { return false; }
static bool opRemoveVal(HS&, const HS::Iterator&) { return false; }
static bool opRemoveVal(PM& c, const PM::Iterator& i) { const int& v = *i; c.remove(v); return true; }
static int opFront(HM& c) { return c.front(); }
static int opFront(HS& c) { return keyNum(c.front()); }
static int opFront(PM& c) { return c.front(); }
static int opBack(HM& c) { return c.back(); }
static int opBack(HS& c) { return keyNum(c.back()); }
static int opBack(PM& c) { return c.back(); }

// the const overloads of front()/back() must designate the stored value (maps) / key (set) itself, not a temporary
static bool constEndsOk(const HM& c) { HM::Iterator b = c.begin(), l = --HM::Iterator(c.end()); return (const void*)&c.front() == (const void*)&*b && (const void*)&c.back() == (const void*)&*l; }
static bool constEndsOk(const HS& c) { HS::Iterator b = c.begin(), l = --HS::Iterator(c.end()); return (const void*)&c.front() == (const void*)&*b && (const void*)&c.back() == (const void*)&*l; }
static bool constEndsOk(const PM& c) { PM::Iterator b = c.begin(), l = --PM::Iterator(c.end()); return (const void*)&c.front() == (const void*)&*b && (const void*)&c.back() == (const void*)&*l; }

// ---- generic part --------------------------------------------------------------------------
template<class C> static long posOf(const C& c, const typename C::Iterator& it)
{
  long n = 0;
  for(typename C::Iterator i = c.begin(), end = c.end(); i != end; ++i, ++n)
  {
    if(i == it) return n;
    if(n > 100000) return -2;
  }
  return it == c.end() ? n : -2;
}

template<class C> static typename C::Iterator iterAt(const C& c, usize pos)
{
  typename C::Iterator i = c.begin();
  for(usize n = 0; n < pos; ++n) ++i;
  return i;
}

// white-box: every chain holds items of its bucket only, `cell` designates the referring cell,
// the chains hold exactly `size` items, every listed item is the target of its cell
template<class C> static bool chainsOk(const C& c)
{
  if(!c.data) return c._size == 0 && c.begin() == c.end();
  usize n = 0;
  for(usize b = 0; b < c.capacity; ++b)
  {
    typename C::Item** cell = &c.data[b];
    for(typename C::Item* i = *cell; i; cell = &i->nextCell, i = *cell)
    {
      if(i->cell != cell) return false;
      if(hash(i->key) % c.capacity != b) return false;
      if(++n > c._size) return false;
    }
  }
  if(n != c._size) return false;
  for(typename C::Iterator i = c.begin(), end = c.end(); i != end; ++i)
    if(*i.item->cell != i.item) return false;
  return true;
}

// items per block of each container, as read from the current sources by the translator of tools/areas/hash.py
// (the headers have no name for it that the harness could use)
#ifndef HASH_IPB_MAP
#define HASH_IPB_MAP 4
#endif
#ifndef HASH_IPB_SET
#define HASH_IPB_SET 4
#endif
#ifndef HASH_IPB_POOL
#define HASH_IPB_POOL 4
#endif
static usize ipbOf(const HM&) { return HASH_IPB_MAP; }
static usize ipbOf(const HS&) { return HASH_IPB_SET; }
static usize ipbOf(const PM&) { return HASH_IPB_POOL; }

// white-box: canonical id of an item = (items per block) * (index of its block in allocation order) + slot
template<class C> static long idOf(const C& c, const typename C::Item* it)
{
  const usize ipb = ipbOf(c);
  usize nb = 0, idx = 0;
  for(const typename C::ItemBlock* b = c.blocks; b; b = b->next) ++nb;
  for(const typename C::ItemBlock* b = c.blocks; b; b = b->next, ++idx)
  {
    const char* base = (const char*)b + sizeof(typename C::ItemBlock);
    if((const char*)it >= base && (const char*)it < base + ipb * sizeof(typename C::Item))
      return (long)(ipb * (nb - 1 - idx) + ((const char*)it - base) / sizeof(typename C::Item));
  }
  return -1;
}

// white-box observation: bucket chains (head first), free list (head first), order list, all as canonical item ids
template<class C> static void observeWhiteBox(const C& c)
{
  usize nb = 0;
  for(const typename C::ItemBlock* b = c.blocks; b; b = b->next) ++nb;
  printf("wb cap=%lu alloc=%d blocks=%lu chains=", (unsigned long)c.capacity, c.data ? 1 : 0, (unsigned long)nb);
  bool any = false;
  if(c.data)
    for(usize b = 0; b < c.capacity; ++b)
    {
      if(!c.data[b]) continue;
      printf("%s%lu:", any ? "|" : "", (unsigned long)b);
      any = true;
      long n = 0;
      for(const typename C::Item* i = c.data[b]; i && n < 100000; i = i->nextCell, ++n)
        printf("%s%ld", n ? "," : "", idOf(c, i));
    }
  if(!any) printf("-");
  printf(" free=");
  long n = 0;
  for(const typename C::Item* i = c.freeItem; i && n < 100000; i = i->prev, ++n)
    printf("%s%ld", n ? "," : "", idOf(c, i));
  if(!n) printf("-");
  printf(" order=");
  n = 0;
  for(typename C::Iterator i = c.begin(), end = c.end(); i != end && n < 100000; ++i, ++n)
    printf("%s%ld", n ? "," : "", idOf(c, i.item));
  if(!n) printf("-");
  hxEndLine();
}

template<class C> static void observeTable(C& c)
{
  printf("n=%lu e=%d it=", (unsigned long)c.size(), (int)c.isEmpty());
  long cnt = 0;
  int fwd[4096];
  for(typename C::Iterator i = c.begin(), end = c.end(); i != end; ++i, ++cnt)
  {
    if(cnt >= 4096) break;
    fwd[cnt] = keyOf(i);
    printf("%s%d:%d", cnt ? "," : "", keyOf(i), valOf(i));
  }
  if(cnt == 0) printf("-");
  // the const overloads `Iterator operator++() const` / `operator--() const` return the neighbours without moving
  {
    bool okConst = true;
    long n = 0;
    for(typename C::Iterator i = c.begin(), end = c.end(); i != end && n < 4096; ++n)
    {
      const typename C::Iterator ci = i;
      typename C::Iterator nx = ++ci;
      ++i;
      if(nx != i || ci == i) { okConst = false; break; }
      const typename C::Iterator cn = i;
      typename C::Iterator pv = --cn;
      if(pv != ci) { okConst = false; break; }
      // `operator->` designates what `operator*` designates; a default-constructed iterator is assignable and differs from every position
      if((const void*)ci.operator->() != (const void*)&*ci) { okConst = false; break; }
      typename C::Iterator z;
      if(z == ci || !(z != ci)) { okConst = false; break; }
      z = ci;
      if(z != ci || !(z == ci)) { okConst = false; break; }
    }
    if(!okConst) printf(" CONST-ITER-MISMATCH");
  }
  printf(" f=");
  for(int k = 0; k < g_dom; ++k)
  {
    typename C::Iterator f = c.find(mkKeyObs(k));
    if(k) printf(",");
    if(f == c.end()) printf("-");
    else printf("%ld", posOf(c, f));
  }
  printf(" c=");
  for(int k = 0; k < g_dom; ++k)
    printf("%d", (int)c.contains(mkKeyObs(k)));
  if(c.isEmpty()) printf(" fr=- bk=-");
  else
  {
    printf(" fr=%d bk=%d", opFront(c), opBack(c));
    if(!constEndsOk(c)) printf(" CONST-FRONT-BACK-NOT-THE-ELEMENT");
  }
  // backward traversal through `prev` must be the reverse of the forward one
  long back = cnt;
  bool okBack = true;
  typename C::Iterator i = c.end();
  while(i != c.begin())
  {
    --i;
    if(--back < 0 || keyOf(i) != fwd[back]) { okBack = false; break; }
  }
  if(!okBack || back != 0) printf(" BACK-MISMATCH");
  if(!chainsOk(c)) printf(" CHAIN-MISMATCH");
}

// text result of a query line (`res …`); empty = the numeric / unit result is printed
static char g_resText[65536];

// iteration with the mutating or the const overloads of ++ / --, forwards from begin() or backwards from end()
template<class C> static void iterText(const C& c, bool backward, bool constOps)
{
  char* p = g_resText + sprintf(g_resText, "res ");
  long n = 0;
  if(!backward)
    for(typename C::Iterator i = c.begin(), end = c.end(); i != end && n < 4096; ++n)
    {
      p += sprintf(p, "%s%d:%d", n ? "," : "", keyOf(i), valOf(i));
      if(constOps) { const typename C::Iterator ci = i; i = ++ci; }
      else ++i;
    }
  else
    for(typename C::Iterator i = c.end(), begin = c.begin(); i != begin && n < 4096; ++n)
    {
      if(constOps) { const typename C::Iterator ci = i; i = --ci; }
      else --i;
      p += sprintf(p, "%s%d:%d", n ? "," : "", keyOf(i), valOf(i));
    }
  if(n == 0) sprintf(p, "-");
}

static const void* arrowOf(const HM::Iterator& i) { return i.operator->(); }
static const void* arrowOf(const HS::Iterator& i) { return i.operator->(); }
static const void* arrowOf(const PM::Iterator& i) { return i.operator->(); }
static const void* starOf(const HM::Iterator& i) { return &*i; }
static const void* starOf(const HS::Iterator& i) { return &*i; }
static const void* starOf(const PM::Iterator& i) { return &*i; }
static int opFrontC(const HM& c) { return c.front(); }
static int opFrontC(const HS& c) { return keyNum(c.front()); }
static int opFrontC(const PM& c) { return c.front(); }
static int opBackC(const HM& c) { return c.back(); }
static int opBackC(const HS& c) { return keyNum(c.back()); }
static int opBackC(const PM& c) { return c.back(); }

template<class C> struct Runner
{
  alignas(C) unsigned char mem[2][sizeof(C)];
  C* t[2];
  bool live;
  Runner() : live(false) { t[0] = t[1] = 0; }

  void create()
  {
    destroy();
    for(int i = 0; i < 2; ++i) t[i] = new(mem[i]) C;
    live = true;
  }
  void destroy()
  {
    if(!live) return;
    for(int i = 0; i < 2; ++i) t[i]->~C();
    live = false;
  }

  void observe(long res)
  {
    if(g_resText[0]) printf("%s", g_resText);
    else if(res < 0) printf("unit");
    else printf("num %ld", res);
    printf(" || ");
    observeTable(*t[0]);
    printf(" || ");
    observeTable(*t[1]);
    int e01 = opEq(*t[0], *t[1]), e10 = opEq(*t[1], *t[0]), e00 = opEq(*t[0], *t[0]);
    if(e01 < 0) printf(" || eq=- - -");
    else printf(" || eq=%d %d %d", e01, e10, e00);
    hxEndLine();
  }

  // returns false for an op that is not valid here
  bool exec(const HxLine& l, long& res)
  {
    res = -1;
    if(l.ntok < 2 || (strcmp(l.tok[1], "0") != 0 && strcmp(l.tok[1], "1") != 0)) return false;
    int v = (int)hxNum(l, 1), w = 1 - v;
    C& c = *t[v];
    C& o = *t[w];
    if(hxIs(l, "wb", 1)) { observeWhiteBox(c); res = -3; return true; }
    if(hxIs(l, "new", 2)) { c.~C(); t[v] = new(mem[v]) C((usize)hxNum(l, 2)); return true; }
    if(hxIs(l, "newdef", 1)) { c.~C(); t[v] = new(mem[v]) C; return true; }
    if(hxIs(l, "copy", 1)) return opCopy(t[v], mem[v], o);
    if(hxIs(l, "assign", 1)) return opAssign(c, o);
    if(hxIs(l, "append", 3)) return opAppend(c, (int)hxNum(l, 2), (int)hxNum(l, 3), res);
    if(hxIs(l, "prepend", 3)) return opPrepend(c, (int)hxNum(l, 2), (int)hxNum(l, 3), res);
    if(hxIs(l, "insert", 4))
    {
      usize pos = hxNum(l, 2);
      if(pos > c.size()) return false;
      typename C::Iterator r = opInsert(c, iterAt(c, pos), (int)hxNum(l, 3), (int)hxNum(l, 4));
      res = posOf(c, r);
      return true;
    }
    if(hxIs(l, "remove", 2)) { c.remove(mkKey((int)hxNum(l, 2))); return true; }
    if(hxIs(l, "removeAt", 2))
    {
      usize pos = hxNum(l, 2);
      if(pos >= c.size()) return false;
      typename C::Iterator r = c.remove(iterAt(c, pos));
      res = posOf(c, r);
      return true;
    }
    if(hxIs(l, "removeVal", 2))
    {
      usize pos = hxNum(l, 2);
      if(pos >= c.size()) return false;
      return opRemoveVal(c, iterAt(c, pos));
    }
    if(hxIs(l, "removeFront", 1))
    {
      if(c.size() == 0) return false;
      typename C::Iterator r = c.removeFront();
      res = posOf(c, r);
      return true;
    }
    if(hxIs(l, "removeBack", 1))
    {
      if(c.size() == 0) return false;
      typename C::Iterator r = c.removeBack();
      res = posOf(c, r);
      return true;
    }
    if(hxIs(l, "clear", 1)) { c.clear(); return true; }
    if(hxIs(l, "swap", 1)) { c.swap(o); return true; }
    if(hxIs(l, "appendAll", 1)) return opAppendAll(c, o);
    if(hxIs(l, "removeAll", 1)) return opRemoveAll(c, o);
    if(hxIs(l, "setval", 3)) return opSetVal(c, (int)hxNum(l, 2), (int)hxNum(l, 3));
    // queries as op lines; the ...C lines go through the const overloads
    if(hxIs(l, "front", 1)) { if(c.isEmpty()) return false; res = opFront(c); return true; }
    if(hxIs(l, "frontC", 1)) { if(c.isEmpty()) return false; res = opFrontC(c); return true; }
    if(hxIs(l, "back", 1)) { if(c.isEmpty()) return false; res = opBack(c); return true; }
    if(hxIs(l, "backC", 1)) { if(c.isEmpty()) return false; res = opBackC(c); return true; }
    if(hxIs(l, "iterate", 1)) { iterText(c, false, false); return true; }
    if(hxIs(l, "iterateC", 1)) { iterText(c, false, true); return true; }
    if(hxIs(l, "iterBack", 1)) { iterText(c, true, false); return true; }
    if(hxIs(l, "iterBackC", 1)) { iterText(c, true, true); return true; }
    if(hxIs(l, "entryAt", 2))
    {
      usize pos = hxNum(l, 2);
      if(pos >= c.size()) return false;
      typename C::Iterator i = iterAt(c, pos);
      sprintf(g_resText, "res %d:%d%s", keyOf(i), valOf(i), arrowOf(i) == starOf(i) ? "" : " ARROW-MISMATCH");
      return true;
    }
    if(hxIs(l, "notEqual", 2))
    {
      if(strcmp(l.tok[2], "0") != 0 && strcmp(l.tok[2], "1") != 0) return false;
      int e = opNe(c, *t[(int)hxNum(l, 2)]);
      if(e < 0) return false;
      sprintf(g_resText, "res %d", e);
      return true;
    }
    // the object itself as the `other` argument
    if(hxIs(l, "assignSelf", 1)) return opAssign(c, *t[v]);
    if(hxIs(l, "swapSelf", 1)) { c.swap(*t[v]); return true; }
    if(hxIs(l, "appendSelf", 1)) return opAppendAll(c, *t[v]);
    if(hxIs(l, "removeSelf", 1)) return opRemoveAll(c, *t[v]);
    return false;
  }
};

static Runner<HM> rMap;
static Runner<HS> rSet;
static Runner<PM> rPool;
static int g_kind = 0;

static void configure(int kind, int mode, int dom)
{
  rMap.destroy();
  rSet.destroy();
  rPool.destroy();
  g_kind = kind;
  g_origin = 0;
  g_rot = 0;
  g_mode = mode;
  g_dom = dom;
  if(kind == 0) rMap.create();
  else if(kind == 1) rSet.create();
  else rPool.create();
}

static void observe(long res)
{
  if(g_kind == 0) rMap.observe(res);
  else if(g_kind == 1) rSet.observe(res);
  else rPool.observe(res);
}

int main()
{
  HxLine l;
  configure(0, 0, 6);
  while(hxRead(l))
  {
    long res = -1;
    bool ok;
    g_opBytes = 0;
    g_resText[0] = 0;
    {
      // an op line that spins (a chain or list closed into a cycle) is ended after 5 s of its own CPU time (not wall time:
      // the machine may be loaded): reported as a crash on that line, and shrinking does not wait for the run's time-out
      struct itimerval it;
      it.it_interval.tv_sec = 0; it.it_interval.tv_usec = 0;
      it.it_value.tv_sec = 5; it.it_value.tv_usec = 0;
      setitimer(ITIMER_VIRTUAL, &it, 0);
    }
    if(hxIs(l, "reset", 0)) { configure(0, 0, 6); observe(-1); continue; }
    if(hxIs(l, "origin", 1)) { g_origin = (int)hxNum(l, 1); observe(-1); continue; }
    if(hxIs(l, "cfg", 3))
    {
      int kind = strcmp(l.tok[1], "map") == 0 ? 0 : strcmp(l.tok[1], "set") == 0 ? 1 : strcmp(l.tok[1], "pool") == 0 ? 2 : -1;
      if(kind < 0) { printf("bad-op"); hxEndLine(); continue; }
      configure(kind, (int)hxNum(l, 2), (int)hxNum(l, 3));
      observe(-1);
      continue;
    }
    if(hxIs(l, "hashnum", 3))
    {
      // the integral overloads of hash() in Base.hpp: width, signedness, bit pattern
      unsigned long w = hxNum(l, 1), sg = hxNum(l, 2);
      unsigned long long x = strtoull(l.tok[3], 0, 10);
      usize r;
      if(w == 8) r = sg ? hash((int8)(uint8)x) : hash((uint8)x);
      else if(w == 16) r = sg ? hash((int16)(uint16)x) : hash((uint16)x);
      else if(w == 32) r = sg ? hash((int32)(uint32)x) : hash((uint32)x);
      else r = sg ? hash((int64)(uint64)x) : hash((uint64)x);
      printf("num %lu", (unsigned long)r);
      hxEndLine();
      continue;
    }
    if(hxIs(l, "hashptr", 1))
    {
      unsigned long long x = strtoull(l.tok[1], 0, 10);
      const void* p = (const void*)(usize)x;
      usize r = hash(p);
      printf("num %lu", (unsigned long)r);
      if(hash((const void*)(usize)x) != r) printf(" HASH-NOT-A-FUNCTION");
      hxEndLine();
      continue;
    }
    if(hxIs(l, "hashstr", 1))
    {
      // hash(const String&) of the same text in every form: equal strings must have equal hash codes
      size_t len = 0;
      char* d = hxCStr(l.tok[1], len);
      {
        usize hv[sizeof(FORMS) / sizeof(FORMS[0])];
        bool same = true;
        StrForm ref(d, len, 0);
        for(int o = 0; o < NORIGIN; ++o)
        {
          StrForm f(d, len, FORMS[o]);
          if(!(f.s == ref.s) || f.s != ref.s) same = false;     // the forms are equal strings
          hv[o] = hash(f.s);
          if(hv[o] != hv[0]) same = false;
        }
        printf("num %lu", (unsigned long)hv[0]);
        if(!same)
        {
          printf(" HASH-DEPENDS-ON-ORIGIN");
          for(int o = 1; o < NORIGIN; ++o) printf(" %lu", (unsigned long)hv[o]);
        }
      }
      free(d);
      hxEndLine();
      continue;
    }
    if(g_kind == 0) ok = rMap.exec(l, res);
    else if(g_kind == 1) ok = rSet.exec(l, res);
    else ok = rPool.exec(l, res);
    if(!ok) { printf("bad-op"); hxEndLine(); continue; }
    if(res == -3) continue;    // white-box line already printed
    observe(res);
  }
  configure(0, 0, 6);
  rMap.destroy();
  return 0;
}
