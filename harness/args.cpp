// Line-protocol harness for Process / Process::Arguments (property C20).  Executes the op lines
// of lean/Nstd/Args/Driver.lean on the real src/Process.cpp (included below so that the
// file-local Process::Private::splitCommandLine is reachable) and include/nstd/Process.hpp.
//   usage: h_args <path of the helper child built from harness/args_child.c>
#include "common/hx.h"
#include <unistd.h>
#include <signal.h>
#include <fcntl.h>
#include <errno.h>
#define private public
#include <nstd/Process.hpp>
#undef private
// test hook on the harness side only: vfork can be made to fail (the macro is not re-expanded inside itself)
static int nvFailVfork = 0;
#define vfork() (nvFailVfork ? (errno = EAGAIN, (pid_t)-1) : vfork())
// ... and the k-th pipe() call from now on can be made to fail (0 = none)
static int nvFailPipe = 0;
#define pipe(fds) (nvFailPipe && --nvFailPipe == 0 ? (errno = EMFILE, -1) : pipe(fds))
// ... select() can be scripted per call: 'T' = time-out as the kernel reports it (examined bits cleared, the time-out left at
// zero, result 0), 'I' = EINTR, anything else / end of the script = the real call; a read that calls select 20000 times spins
static const char* nvSelScript = 0;
static int nvSelCalls = 0;
static int nvSelect(int nfds, fd_set* r, fd_set* w, fd_set* e, timeval* tv)
{
  if(++nvSelCalls > 20000)
  {
    static const char msg[] = "\nERROR: Process::read called select 20000 times without returning (spinning on an empty set)\n";
    ssize_t k = write(2, msg, sizeof(msg) - 1);
    (void)k;
    kill(0, SIGKILL);
    _exit(89);
  }
  char c = nvSelScript && *nvSelScript ? *nvSelScript++ : 'R';
  if(c == 'T')
  {
    for(int fd = 0; fd < nfds; ++fd)
      FD_CLR(fd, r);
    tv->tv_sec = 0;
    tv->tv_usec = 0;
    return 0;
  }
  if(c == 'I')
  {
    errno = EINTR;
    return -1;
  }
  return select(nfds, r, w, e, tv);
}
#define select(n, r, w, e, t) nvSelect(n, r, w, e, t)
// ... and the next nvFailWaitpid calls of waitpid() fail with EINTR (a signal handler without SA_RESTART ran)
static int nvFailWaitpid = 0;
#include <sys/wait.h>
static pid_t nvWaitpid(pid_t pid, int* status, int options)
{
  if(nvFailWaitpid > 0)
  {
    --nvFailWaitpid;
    errno = EINTR;
    return -1;
  }
  return waitpid(pid, status, options);
}
#define waitpid(p, s, o) nvWaitpid(p, s, o)
#include "../src/Process.cpp"
#undef vfork
#undef pipe
#undef select
#undef waitpid
#include <sys/ioctl.h>
#include <pthread.h>

static const char* childPath = "";
static size_t childPathLen = 0;

// ---- watchdog: an op that does not return is a result (D34 was an endless loop) -------------------
static void onAlarm(int)
{
  static const char msg[] = "\nERROR: watchdog: the operation did not return within 20 s (endless loop)\n";
  ssize_t r = write(2, msg, sizeof(msg) - 1);
  (void)r;
  // take the children along (they hold our stderr pipe and would keep the orchestrator waiting): the harness
  // is the leader of its own process group
  kill(0, SIGKILL);
  _exit(89);
}

// ---- crc32 / pattern (same as the child) -----------------------------------------------------------
static unsigned crcTable[256];
static void crcInit()
{
  for(unsigned i = 0; i < 256; ++i)
  {
    unsigned c = i;
    for(int k = 0; k < 8; ++k)
      c = c & 1 ? 0xEDB88320u ^ (c >> 1) : c >> 1;
    crcTable[i] = c;
  }
}
static unsigned crcUpdate(unsigned crc, const unsigned char* p, size_t n)
{
  crc = ~crc;
  for(size_t i = 0; i < n; ++i)
    crc = crcTable[(crc ^ p[i]) & 0xff] ^ (crc >> 8);
  return ~crc;
}
static unsigned char pattern(unsigned long i, unsigned long seed) { return (unsigned char)(i * 7 + seed + (i >> 8) * 13 + (i >> 16) * 5); }

// ---- Arguments -------------------------------------------------------------------------------------
// option table token: `-` (no options) or `c.name.flags,c.name.flags,...`; c, flags decimal; name hex, `~` = null pointer, `-` = ""
static void opArgs(const HxLine& l)
{
  // options: exactly sized heap array, every name an exactly sized heap string
  size_t nopt = 0;
  Process::Option* opts = 0;
  char* optTok = strdup(l.tok[1]);
  if(strcmp(optTok, "-") != 0)
  {
    nopt = 1;
    for(const char* p = optTok; *p; ++p)
      if(*p == ',')
        ++nopt;
  }
  opts = (Process::Option*)malloc(nopt ? nopt * sizeof(Process::Option) : 1);
  {
    char* p = optTok;
    for(size_t i = 0; i < nopt; ++i)
    {
      char* e = strchr(p, ',');
      if(e)
        *e = 0;
      char* d1 = strchr(p, '.');
      char* d2 = d1 ? strchr(d1 + 1, '.') : 0;
      if(!d1 || !d2)
      {
        printf("bad-op");
        hxEndLine();
        return;
      }
      *d1 = 0;
      *d2 = 0;
      opts[i].character = (int)strtol(p, 0, 10);
      size_t len;
      opts[i].name = strcmp(d1 + 1, "~") == 0 ? 0 : hxCStr(d1 + 1, len);
      opts[i].flags = (uint32)strtoul(d2 + 1, 0, 10);
      p = e ? e + 1 : p;
    }
  }
  // argv: exactly sized pointer array (no slot behind argv[argc-1]); every word exactly sized
  int argc = l.ntok - 1;
  char** argv = (char**)malloc(sizeof(char*) * (size_t)argc);
  size_t total = 0;
  argv[0] = strdup("prog");
  for(int i = 1; i < argc; ++i)
  {
    size_t len;
    argv[i] = hxCStr(l.tok[i + 1], len);
    total += len + 1;
  }
  {
    static const Process::Option dummy[1] = {{0, 0, 0}};
    Process::Arguments a(argc, argv, dummy);
    a.options = opts;
    a.optionsEnd = opts + nopt;
    int character = 12345;
    String argument;
    size_t cap = 2 * total + 8, n = 0;
    printf("r");
    for(;;)
    {
      if(n++ > cap)
      {
        printf(" LOOP");
        break;
      }
      if(!a.read(character, argument))
      {
        printf(" end");
        break;
      }
      printf(" %d:", character);
      hxPutHex((const char*)argument, argument.length());
    }
    hxEndLine();
  }
  for(int i = 0; i < argc; ++i)
    free(argv[i]);
  free(argv);
  for(size_t i = 0; i < nopt; ++i)
    free((void*)opts[i].name);
  free(opts);
  free(optTok);
}

// args0: argc == 0 (argv = {0}): the constructor steps to argv + 1 which is behind argvEnd; read must return false at once
static void opArgs0()
{
  char** argv = (char**)malloc(sizeof(char*));
  argv[0] = 0;
  {
    static const Process::Option table[2] = {{'a', "alpha", 0}, {'o', "out", 1}};
    Process::Arguments a(0, argv, table);
    int character = 12345;
    String argument;
    printf("r");
    for(int n = 0; n < 4; ++n)
      if(!a.read(character, argument))
      {
        printf(" end");
        break;
      }
      else
      {
        printf(" %d:", character);
        hxPutHex((const char*)argument, argument.length());
      }
    hxEndLine();
  }
  free(argv);
}

// ---- splitCommandLine ------------------------------------------------------------------------------
static void opSplit(const HxLine& l)
{
  size_t len;
  char* s = hxCStr(l.tok[1], len);
  {
    String commandLine;
    commandLine.attach(s, len); // refers to the exactly sized heap copy
    List<String> command;
    Process::Private::splitCommandLine(commandLine, command);
    printf("s %u", (unsigned)command.size());
    for(List<String>::Iterator i = command.begin(), end = command.end(); i != end; ++i)
    {
      fputc(' ', stdout);
      hxPutHex((const char*)*i, i->length());
    }
    hxEndLine();
  }
  free(s);
}

// ---- running the helper child ----------------------------------------------------------------------
struct Capture
{
  String out, err;
  unsigned long outCount, errCount;
  unsigned outCrc, errCrc;
  bool keep; // keep the bytes (small outputs) or only count + crc
  bool firstLineDone;
  Capture(bool keep) : outCount(0), errCount(0), outCrc(0), errCrc(0), keep(keep), firstLineDone(false) {}
  void add(uint stream, const char* p, size_t n)
  {
    if(stream == Process::stdoutStream)
    {
      if(keep) out.append(p, n);
      else
      {
        // the first line (`in=...`) is kept, the rest is digested
        size_t i = 0;
        for(; i < n && !firstLineDone; ++i)
        {
          if(p[i] == '\n') firstLineDone = true;
          else out.append(p[i]);
        }
        outCrc = crcUpdate(outCrc, (const unsigned char*)p + i, n - i);
        outCount += n - i;
      }
    }
    else
    {
      if(keep) err.append(p, n);
      errCrc = crcUpdate(errCrc, (const unsigned char*)p, n);
      errCount += n;
    }
  }
};

static int savedStdout = -1;
static char tmpPath[512];

// when the child's stdout is not redirected it inherits ours: point fd 1 to a scratch file meanwhile
static bool divertStdout()
{
  fflush(stdout);
  const char* dir = getenv("TMPDIR");
  snprintf(tmpPath, sizeof(tmpPath), "%s/nstd-args-XXXXXX", dir && *dir ? dir : "/tmp");
  int fd = mkstemp(tmpPath);
  if(fd < 0)
    return false;
  savedStdout = dup(1);
  dup2(fd, 1);
  ::close(fd);
  return true;
}

static void restoreStdout(Capture& c)
{
  fflush(stdout);
  dup2(savedStdout, 1);
  ::close(savedStdout);
  savedStdout = -1;
  int fd = ::open(tmpPath, O_RDONLY);
  if(fd >= 0)
  {
    static char buf[65536];
    ssize_t n;
    while((n = ::read(fd, buf, sizeof(buf))) > 0)
      c.add(Process::stdoutStream, buf, (size_t)n);
    ::close(fd);
  }
  unlink(tmpPath);
}

static uint pipesOf(const Process& p)
{
  return (p.fdStdOutRead ? 1u : 0u) | (p.fdStdErrRead ? 2u : 0u) | (p.fdStdInWrite ? 4u : 0u);
}

// reads every redirected output stream up to end-of-file
static bool drain(Process& p, uint streams, Capture& c)
{
  static char buf[65536];
  if((streams & 3) == Process::stdoutStream)
  { // single stream API
    ssize n;
    while((n = p.read(buf, sizeof(buf))) > 0)
      c.add(Process::stdoutStream, buf, (size_t)n);
    return n == 0;
  }
  uint want = streams & 3;
  while(want)
  {
    uint s = want;
    ssize n = p.read(buf, sizeof(buf), s);
    if(n < 0)
      return false;
    if(n == 0)
    {
      want &= ~s;
      continue;
    }
    c.add(s, buf, (size_t)n);
  }
  return true;
}

static bool parseEnv(const char* tok, Map<String, String>& env)
{
  if(strcmp(tok, "-") == 0)
    return true;
  char* t = strdup(tok);
  for(char* p = t; p;)
  {
    char* e = strchr(p, ',');
    if(e)
      *e = 0;
    char* q = strchr(p, '=');
    if(!q)
    {
      free(t);
      return false;
    }
    *q = 0;
    size_t kl, vl;
    char* k = hxCStr(p, kl);
    char* v = hxCStr(q + 1, vl);
    env.insert(String(k, kl), String(v, vl));
    free(k);
    free(v);
    p = e ? e + 1 : 0;
  }
  free(t);
  return true;
}

// prints the child's report (`argv ...\nenv ...\n`) canonically: the path of the helper child becomes `CHILD`,
// an environment equal to ours becomes `inherit`
static void printReport(const String& out)
{
  const char* s = out;
  const char* nl = strchr(s, '\n');
  if(strncmp(s, "argv", 4) != 0 || !nl || strncmp(nl + 1, "env", 3) != 0)
  {
    printf(" report=");
    hxPutHex(s, out.length());
    return;
  }
  char hexChild[1100];
  for(size_t i = 0; i < childPathLen; ++i)
    snprintf(hexChild + 2 * i, 3, "%02x", (unsigned)(unsigned char)childPath[i]);
  printf(" argv=");
  bool first = true;
  for(const char* p = s + 4; p < nl;)
  {
    ++p; // blank
    const char* e = p;
    while(e < nl && *e != ' ')
      ++e;
    if(!first)
      fputc(',', stdout);
    first = false;
    if((size_t)(e - p) == 2 * childPathLen && strncmp(p, hexChild, 2 * childPathLen) == 0)
      printf("4348494c44"); // "CHILD"
    else
      fwrite(p, 1, (size_t)(e - p), stdout);
    p = e;
  }
  // environment
  const char* envLine = nl + 1 + 3;
  const char* end = strchr(envLine, '\n');
  if(!end)
    end = envLine + strlen(envLine);
  // ours
  String mine;
  for(char** e = environ; *e; ++e)
  {
    mine.append(' ');
    if(!**e)
      mine.append('-');
    for(const char* q = *e; *q; ++q)
    {
      char b[3];
      snprintf(b, 3, "%02x", (unsigned)(unsigned char)*q);
      mine.append(b, 2);
    }
  }
  printf(" env=");
  if(mine.length() == (usize)(end - envLine) && memcmp((const char*)mine, envLine, mine.length()) == 0)
  {
    // inherited: show the variables set through the API (names NVT_*), sorted as strings
    printf("inherit:");
    const char* items[64];
    size_t lens[64];
    int n = 0;
    for(const char* p = envLine; p < end;)
    {
      ++p;
      const char* e = p;
      while(e < end && *e != ' ')
        ++e;
      if(e - p >= 8 && strncmp(p, "4e56545f", 8) == 0 && n < 64)
      {
        int k = n++;
        while(k > 0)
        { // insertion sort; hex strings order like the bytes they stand for
          size_t m = lens[k - 1] < (size_t)(e - p) ? lens[k - 1] : (size_t)(e - p);
          int c = strncmp(items[k - 1], p, m);
          if(c < 0 || (c == 0 && lens[k - 1] <= (size_t)(e - p)))
            break;
          items[k] = items[k - 1];
          lens[k] = lens[k - 1];
          --k;
        }
        items[k] = p;
        lens[k] = (size_t)(e - p);
      }
      p = e;
    }
    if(n == 0)
      fputc('-', stdout);
    for(int i = 0; i < n; ++i)
    {
      if(i)
        fputc(',', stdout);
      fwrite(items[i], 1, lens[i], stdout);
    }
  }
  else if(end == envLine)
    printf("none");
  else
  {
    first = true;
    for(const char* p = envLine; p < end;)
    {
      ++p;
      const char* e = p;
      while(e < end && *e != ' ')
        ++e;
      if(!first)
        fputc(',', stdout);
      first = false;
      fwrite(p, 1, (size_t)(e - p), stdout);
      p = e;
    }
  }
}

// run <form> <streams> <env> <words...>
static void opRun(const HxLine& l)
{
  const char* form = l.tok[1];
  uint streams = (uint)hxNum(l, 2);
  Map<String, String> env;
  if(!parseEnv(l.tok[3], env))
  {
    printf("bad-op");
    hxEndLine();
    return;
  }
  int nw = l.ntok - 4;
  bool isStart = strncmp(form, "start", 5) == 0;
  if(isStart && streams != 0)
  {
    printf("bad-op");
    hxEndLine();
    return;
  }
  Capture cap(true);
  bool diverted = !(streams & 1);
  bool ok = false;
  uint pipes = 0;
  uint32 exitCode = 9999;
  bool joined = false;
  if(diverted && !divertStdout())
  {
    printf("FAULT tmpfile");
    hxEndLine();
    return;
  }
  {
    Process p;
    if(strcmp(form, "cmd") == 0 || strcmp(form, "startcmd") == 0)
    {
      if(nw != 1)
      {
        if(diverted) restoreStdout(cap);
        printf("bad-op");
        hxEndLine();
        return;
      }
      size_t len;
      char* rest = hxCStr(l.tok[4], len);
      String commandLine(childPath, childPathLen);
      if(len)
      {
        commandLine.append(' ');
        commandLine.append(rest, len);
      }
      free(rest);
      ok = isStart ? p.start(commandLine, env) != 0 : p.open(commandLine, streams, env);
    }
    else if(strcmp(form, "list") == 0)
    {
      List<String> args;
      for(int i = 0; i < nw; ++i)
      {
        size_t len;
        char* w = hxCStr(l.tok[4 + i], len);
        args.append(String(w, len));
        free(w);
      }
      ok = p.open(String(childPath, childPathLen), args, streams, env);
    }
    else if(strcmp(form, "argv") == 0 || strcmp(form, "argvz") == 0 || strcmp(form, "startargv") == 0 || strcmp(form, "startargvz") == 0)
    {
      bool z = form[strlen(form) - 1] == 'z';
      // exactly sized vector: without the terminating null pointer unless the `z` form asks for it
      char** argv = (char**)malloc(sizeof(char*) * (size_t)(nw + (z ? 1 : 0)) + 1);
      for(int i = 0; i < nw; ++i)
      {
        size_t len;
        argv[i] = hxCStr(l.tok[4 + i], len);
      }
      if(z)
        argv[nw] = 0;
      int argc = nw + (z ? 1 : 0);
      ok = isStart ? p.start(String(childPath, childPathLen), argc, argv, env) != 0 : p.open(String(childPath, childPathLen), argc, argv, streams, env);
      // the child has been exec'ed (vfork returns after exec): the vector may go
      for(int i = 0; i < nw; ++i)
        free(argv[i]);
      free(argv);
    }
    else
    {
      if(diverted) restoreStdout(cap);
      printf("bad-op");
      hxEndLine();
      return;
    }
    pipes = pipesOf(p);
    bool drained = true;
    if(ok)
    {
      if(streams & 3)
        drained = drain(p, streams, cap);
      joined = p.join(exitCode);
    }
    if(diverted)
      restoreStdout(cap);
    printf("x ok=%d pipes=%u", ok ? 1 : 0, pipes);
    printReport(cap.out);
    printf(" | joined=%d exit=%u eof=%d err=", joined ? 1 : 0, (unsigned)exitCode, drained ? 1 : 0);
    hxPutHex((const char*)cap.err, cap.err.length());
    printf(" after=%u", pipesOf(p) | (p.pid ? 8u : 0u));
    hxEndLine();
  }
}

// io <streams> <n> <seed> <code>
static void opIo(const HxLine& l)
{
  uint streams = (uint)hxNum(l, 1);
  unsigned long n = hxNum(l, 2), seed = hxNum(l, 3);
  unsigned code = (unsigned)hxNum(l, 4);
  char a2[16], a3[32], a4[32], a5[16];
  snprintf(a2, sizeof(a2), "%u", streams);
  snprintf(a3, sizeof(a3), "%lu", n);
  snprintf(a4, sizeof(a4), "%lu", seed);
  snprintf(a5, sizeof(a5), "%u", code);
  char* argv[] = {(char*)childPath, (char*)"@io", a2, a3, a4, a5};
  Capture cap(false);
  bool diverted = !(streams & 1);
  if(diverted && !divertStdout())
  {
    printf("FAULT tmpfile");
    hxEndLine();
    return;
  }
  Process p;
  bool ok = p.open(String(childPath, childPathLen), 6, argv, streams);
  uint pipes = pipesOf(p);
  long written = -1;
  bool drained = true, joined = false;
  uint32 exitCode = 9999;
  if(ok)
  {
    if(streams & 4)
    {
      unsigned char* data = (unsigned char*)malloc(n ? n : 1);
      for(unsigned long i = 0; i < n; ++i)
        data[i] = pattern(i, seed + 2);
      written = 0;
      while((unsigned long)written < n)
      {
        ssize w = p.write(data + written, n - (unsigned long)written);
        if(w <= 0)
          break;
        written += (long)w;
      }
      free(data);
      p.close(Process::stdinStream);
    }
    if(streams & 3)
      drained = drain(p, streams, cap);
    joined = p.join(exitCode);
  }
  if(diverted)
    restoreStdout(cap);
  printf("io ok=%d pipes=%u | joined=%d exit=%u eof=%d written=%ld ", ok ? 1 : 0, pipes, joined ? 1 : 0, (unsigned)exitCode, drained ? 1 : 0, written);
  fwrite((const char*)cap.out, 1, cap.out.length(), stdout);
  printf(" out=%lu:%08x err=%lu:%08x", cap.outCount, cap.outCrc, cap.errCount, cap.errCrc);
  hxEndLine();
}

// exit <code>: start(command line) + join
static void opExit(const HxLine& l)
{
  unsigned code = (unsigned)hxNum(l, 1);
  String commandLine(childPath, childPathLen);
  char t[32];
  snprintf(t, sizeof(t), " @exit %u", code);
  commandLine.append(t, strlen(t));
  Process p;
  uint32 pid = p.start(commandLine);
  bool running = p.isRunning();
  uint32 exitCode = 9999;
  bool joined = pid != 0 && p.join(exitCode);
  printf("exit ok=%d | running=%d joined=%d code=%u after=%d", pid != 0 ? 1 : 0, running ? 1 : 0, joined ? 1 : 0, (unsigned)exitCode, p.isRunning() ? 1 : 0);
  hxEndLine();
}

// ---- one persistent Process object: pid / descriptor bookkeeping ("0 = closed") ---------------------
static Process* proc = 0;

static void procNew()
{
  delete proc; // the destructor joins a child that is still running
  proc = new Process;
}

static void procObserve(bool r, const char* extra)
{
  printf("p ok=%d st=%d%d%d%d%s", r ? 1 : 0, proc->pid ? 1 : 0, proc->fdStdOutRead ? 1 : 0, proc->fdStdErrRead ? 1 : 0,
    proc->fdStdInWrite ? 1 : 0, extra);
  hxEndLine();
}

static void opProc(const HxLine& l)
{
  const char* op = l.tok[1];
  char extra[96] = "";
  if(l.ntok == 2 && strcmp(op, "new") == 0)
  {
    procNew();
    procObserve(true, "");
  }
  else if(l.ntok == 3 && strcmp(op, "start") == 0)
  {
    String commandLine(childPath, childPathLen);
    char t[32];
    snprintf(t, sizeof(t), " @exit %u", (unsigned)hxNum(l, 2));
    commandLine.append(t, strlen(t));
    uint32 before = proc->pid;
    errno = 0;
    uint32 pid = proc->start(commandLine);
    snprintf(extra, sizeof(extra), " | pid=%s einval=%d", pid == 0 ? "0" : pid == proc->pid && pid != before ? "new" : "other", errno == EINVAL ? 1 : 0);
    procObserve(pid != 0, extra);
  }
  else if(l.ntok == 4 && strcmp(op, "open") == 0)
  {
    char code[16];
    snprintf(code, sizeof(code), "%u", (unsigned)hxNum(l, 3));
    char* argv[] = {(char*)childPath, (char*)"@exit", code};
    errno = 0;
    bool ok = proc->open(String(childPath, childPathLen), 3, argv, (uint)hxNum(l, 2));
    snprintf(extra, sizeof(extra), " | einval=%d", errno == EINVAL ? 1 : 0);
    procObserve(ok, extra);
  }
  else if(l.ntok == 3 && strcmp(op, "openfail") == 0)
  { // vfork fails: nothing may be left behind
    char* argv[] = {(char*)childPath, (char*)"@exit", (char*)"0"};
    errno = 0;
    nvFailVfork = 1;
    bool ok = proc->open(String(childPath, childPathLen), 3, argv, (uint)hxNum(l, 2));
    nvFailVfork = 0;
    snprintf(extra, sizeof(extra), " | einval=%d", errno == EINVAL ? 1 : 0);
    procObserve(ok, extra);
  }
  else if(l.ntok == 2 && strcmp(op, "join") == 0)
  {
    uint32 code = 9999;
    errno = 0;
    bool ok = proc->join(code);
    if(ok)
      snprintf(extra, sizeof(extra), " | code=%u", (unsigned)code);
    else
      snprintf(extra, sizeof(extra), " | einval=%d", errno == EINVAL ? 1 : 0);
    procObserve(ok, extra);
  }
  else if(l.ntok == 2 && strcmp(op, "joinv") == 0)
  { // join() without exit code
    errno = 0;
    bool ok = proc->join();
    snprintf(extra, sizeof(extra), " | einval=%d", !ok && errno == EINVAL ? 1 : 0);
    procObserve(ok, extra);
  }
  else if(l.ntok == 3 && strcmp(op, "startargv") == 0)
  { // start(program, argc, argv)
    char code[16];
    snprintf(code, sizeof(code), "%u", (unsigned)hxNum(l, 2));
    char* argv[] = {(char*)childPath, (char*)"@exit", code};
    uint32 before = proc->pid;
    errno = 0;
    uint32 pid = proc->start(String(childPath, childPathLen), 3, argv);
    snprintf(extra, sizeof(extra), " | pid=%s einval=%d", pid == 0 ? "0" : pid == proc->pid && pid != before ? "new" : "other", errno == EINVAL ? 1 : 0);
    procObserve(pid != 0, extra);
  }
  else if(l.ntok == 4 && strcmp(op, "opencmd") == 0)
  { // open(command line, streams)
    String commandLine(childPath, childPathLen);
    char t[32];
    snprintf(t, sizeof(t), " @exit %u", (unsigned)hxNum(l, 3));
    commandLine.append(t, strlen(t));
    errno = 0;
    bool ok = proc->open(commandLine, (uint)hxNum(l, 2));
    snprintf(extra, sizeof(extra), " | einval=%d", errno == EINVAL ? 1 : 0);
    procObserve(ok, extra);
  }
  else if(l.ntok == 4 && strcmp(op, "openfailpipe") == 0)
  { // the k-th pipe() of open() fails (k = 1..3; when open() makes fewer pipes the call succeeds): nothing may be left behind
    char* argv[] = {(char*)childPath, (char*)"@exit", (char*)"0"};
    errno = 0;
    nvFailPipe = (int)hxNum(l, 3);
    bool ok = proc->open(String(childPath, childPathLen), 3, argv, (uint)hxNum(l, 2));
    nvFailPipe = 0;
    snprintf(extra, sizeof(extra), " | einval=%d", errno == EINVAL ? 1 : 0);
    procObserve(ok, extra);
  }
  else if(l.ntok == 2 && strcmp(op, "kill") == 0)
  {
    errno = 0;
    bool ok = proc->kill();
    snprintf(extra, sizeof(extra), " | einval=%d", !ok && errno == EINVAL ? 1 : 0);
    procObserve(ok, extra);
  }
  else if(l.ntok == 3 && strcmp(op, "close") == 0)
  {
    proc->close((uint)hxNum(l, 2));
    procObserve(true, "");
  }
  else if(l.ntok == 2 && strcmp(op, "running") == 0)
  {
    bool r = proc->isRunning();
    snprintf(extra, sizeof(extra), " | pid=%d", proc->getProcessId() != 0 ? 1 : 0);
    procObserve(r, extra);
  }
  else if(l.ntok == 3 && strcmp(op, "read3") == 0)
  {
    char buf[64];
    uint streams = (uint)hxNum(l, 2);
    errno = 0;
    ssize n = proc->read(buf, sizeof(buf), streams);
    bool einval = n == -1 && errno == EINVAL;
    snprintf(extra, sizeof(extra), " | n=%ld", (long)n);
    procObserve(!einval, extra);
  }
  else
  {
    printf("bad-op");
    hxEndLine();
  }
}

// ---- descriptor leaks --------------------------------------------------------------------------------
static int countFds()
{
  DIR* d = opendir("/proc/self/fd");
  if(!d)
    return -1;
  int n = 0;
  while(readdir(d))
    ++n;
  closedir(d);
  return n;
}
static int fdBaseline = 0;

// fds: number of descriptors open beyond those at start-up (the Process object must be idle)
static void opFds()
{
  printf("fds | open=%d", countFds() - fdBaseline);
  hxEndLine();
}

// ---- environment of the own process -----------------------------------------------------------------
static void clearTestEnv()
{
  for(;;)
  {
    bool found = false;
    for(char** e = environ; *e; ++e)
      if(strncmp(*e, "NVT_", 4) == 0)
      {
        const char* eq = strchr(*e, '=');
        if(!eq)
        { // an entry without '=' (env putraw): unsetenv does not find it; take it out of the vector
          char* raw = *e;
          for(char** q = e; *q; ++q)
            q[0] = q[1];
          free(raw); // allocated by `env putraw`
          found = true;
          break;
        }
        char name[256];
        size_t n = eq ? (size_t)(eq - *e) : strlen(*e);
        if(n >= sizeof(name))
          n = sizeof(name) - 1;
        memcpy(name, *e, n);
        name[n] = 0;
        unsetenv(name);
        found = true;
        break;
      }
    if(!found)
      break;
  }
}

static void opEnv(const HxLine& l)
{
  if(l.ntok == 4 && strcmp(l.tok[1], "set") == 0)
  {
    size_t kl, vl;
    char* k = hxCStr(l.tok[2], kl);
    char* v = hxCStr(l.tok[3], vl);
    bool ok = Process::setEnvironmentVariable(String(k, kl), String(v, vl));
    free(k);
    free(v);
    printf("e ok=%d", ok ? 1 : 0);
  }
  else if(l.ntok == 4 && strcmp(l.tok[1], "get") == 0)
  {
    size_t kl, dl;
    char* k = hxCStr(l.tok[2], kl);
    char* d = hxCStr(l.tok[3], dl);
    String val = Process::getEnvironmentVariable(String(k, kl), String(d, dl));
    free(k);
    free(d);
    printf("e val=");
    hxPutHex((const char*)val, val.length());
  }
  else if(l.ntok == 3 && strcmp(l.tok[1], "putraw") == 0)
  { // an entry without '=' written into the environ vector by the application itself (glibc's putenv would treat such a
    // string as a removal): getEnvironmentVariables skips it
    size_t kl;
    char* k = hxCStr(l.tok[2], kl); // owned by the vector; freed by clearTestEnv
    bool ok = kl > 4 && strncmp(k, "NVT_", 4) == 0 && !strchr(k, '=');
    if(ok)
    {
      static char** rawVec = 0;
      size_t n = 0;
      while(environ[n])
        ++n;
      char** v = (char**)malloc(sizeof(char*) * (n + 2));
      memcpy(v, environ, n * sizeof(char*));
      v[n] = k;
      v[n + 1] = 0;
      char** old = rawVec;
      environ = v;
      rawVec = v;
      free(old);
    }
    else
      free(k);
    printf("e ok=%d", ok ? 1 : 0);
  }
  else if(l.ntok == 2 && strcmp(l.tok[1], "all") == 0)
  {
    Map<String, String> all = Process::getEnvironmentVariables();
    printf("e all=");
    bool first = true;
    for(Map<String, String>::Iterator i = all.begin(), end = all.end(); i != end; ++i)
      if(i.key().startsWith("NVT_"))
      {
        if(!first)
          fputc(',', stdout);
        first = false;
        String entry = i.key() + "=" + *i;
        hxPutHex((const char*)entry, entry.length());
      }
    if(first)
      fputc('-', stdout);
  }
  else
    printf("bad-op");
  hxEndLine();
}

// late <order> <mask> <delay ms> <code>: the child waits, writes a short line to every redirected output stream, creates a
// marker file and exits with <code>; the parent, depending on <order>,
//   join      calls join() at once and never reads          dtor      lets the destructor join
//   readjoin  reads the streams to end-of-file, then joins   closejoin closes its ends first, then joins
//   kill      kills the child while it is still waiting
static unsigned lateCounter = 0;
static void opLate(const HxLine& l)
{
  const char* order = l.tok[1];
  uint mask = (uint)hxNum(l, 2) & 7;
  char a2[16], a3[16], a4[16], marker[600];
  snprintf(a2, sizeof(a2), "%u", mask & 3);
  snprintf(a3, sizeof(a3), "%lu", hxNum(l, 3));
  snprintf(a4, sizeof(a4), "%lu", hxNum(l, 4));
  const char* dir = getenv("TMPDIR");
  snprintf(marker, sizeof(marker), "%s/nstd-args-marker-%d-%u", dir && *dir ? dir : "/tmp", (int)getpid(), ++lateCounter);
  unlink(marker);
  char* argv[] = {(char*)childPath, (char*)"@late", a2, a3, a4, marker};
  Capture cap(true);
  bool diverted = !(mask & 1);
  if(diverted && !divertStdout())
  {
    printf("FAULT tmpfile");
    hxEndLine();
    return;
  }
  Process* p = new Process;
  bool ok = p->open(String(childPath, childPathLen), 6, argv, mask);
  uint pipes = pipesOf(*p);
  bool joined = false, killed = false, drained = true;
  uint32 exitCode = 9999;
  bool haveCode = false;
  uint after = 0;
  if(ok)
  {
    if(strcmp(order, "join") == 0)
    {
      joined = p->join(exitCode);
      haveCode = joined;
    }
    else if(strcmp(order, "readjoin") == 0)
    {
      if(mask & 3)
        drained = drain(*p, mask, cap);
      joined = p->join(exitCode);
      haveCode = joined;
    }
    else if(strcmp(order, "closejoin") == 0)
    {
      p->close();
      joined = p->join(exitCode);
      haveCode = joined;
    }
    else if(strcmp(order, "kill") == 0)
      killed = p->kill();
    // dtor: nothing
  }
  if(strcmp(order, "dtor") != 0)
    after = pipesOf(*p) | (p->pid ? 8u : 0u);
  delete p;
  if(diverted)
    restoreStdout(cap);
  bool completed = access(marker, F_OK) == 0;
  unlink(marker);
  printf("late ok=%d pipes=%u exit=", ok ? 1 : 0, pipes);
  if(haveCode)
    printf("%u", (unsigned)exitCode);
  else
    fputc('-', stdout);
  printf(" completed=%d | joined=%d killed=%d eof=%d after=%u", completed ? 1 : 0, joined ? 1 : 0, killed ? 1 : 0, drained ? 1 : 0, after);
  hxEndLine();
}

// eofjoin <order> <mask> <n> <code>: the child reads its redirected stdin to end-of-file, THEN writes <n> bytes to every
// redirected output stream and exits with <code>; the parent writes three bytes and, without closing stdin and without
// reading, calls join() (order join) or lets the destructor do it (order dtor).  join() itself has to end the child's input;
// whatever the child writes, it writes after join() was entered.
static void opEofJoin(const HxLine& l)
{
  const char* order = l.tok[1];
  uint mask = ((uint)hxNum(l, 2) & 3) | 4;
  char a2[16], a3[16], a5[16];
  snprintf(a2, sizeof(a2), "%u", mask);
  snprintf(a3, sizeof(a3), "%lu", hxNum(l, 3));
  snprintf(a5, sizeof(a5), "%lu", hxNum(l, 4));
  char* argv[] = {(char*)childPath, (char*)"@io", a2, a3, (char*)"0", a5};
  Capture cap(false);
  bool diverted = !(mask & 1);
  if(diverted && !divertStdout())
  {
    printf("FAULT tmpfile");
    hxEndLine();
    return;
  }
  Process* p = new Process;
  bool ok = p->open(String(childPath, childPathLen), 6, argv, mask);
  uint pipes = pipesOf(*p);
  long written = ok ? (long)p->write("abc", 3) : -1;
  bool joined = false;
  uint32 exitCode = 9999;
  uint after = 0;
  if(ok && strcmp(order, "join") == 0)
  {
    joined = p->join(exitCode);
    after = pipesOf(*p) | (p->pid ? 8u : 0u);
  }
  delete p;
  if(diverted)
    restoreStdout(cap);
  printf("ej ok=%d pipes=%u exit=", ok ? 1 : 0, pipes);
  if(joined)
    printf("%u", (unsigned)exitCode);
  else
    fputc('-', stdout);
  printf(" | written=%ld joined=%d ", written, joined ? 1 : 0);
  if(cap.out.length())
    fwrite((const char*)cap.out, 1, cap.out.length(), stdout);
  else
    printf("in=-");
  printf(" after=%u", after);
  hxEndLine();
}

// sig <mask> <signal>: what join() reports for a child that is terminated by a signal
static void opSig(const HxLine& l)
{
  uint mask = (uint)hxNum(l, 1) & 7;
  char a2[16];
  snprintf(a2, sizeof(a2), "%lu", hxNum(l, 2));
  char* argv[] = {(char*)childPath, (char*)"@raise", a2};
  Capture cap(true);
  bool diverted = !(mask & 1);
  if(diverted && !divertStdout())
  {
    printf("FAULT tmpfile");
    hxEndLine();
    return;
  }
  Process p;
  bool ok = p.open(String(childPath, childPathLen), 3, argv, mask);
  uint pipes = pipesOf(p);
  uint32 exitCode = 9999;
  bool joined = ok && p.join(exitCode);
  if(diverted)
    restoreStdout(cap);
  printf("sig ok=%d pipes=%u | joined=%d exit=%u after=%u", ok ? 1 : 0, pipes, joined ? 1 : 0, (unsigned)exitCode, pipesOf(p) | (p.pid ? 8u : 0u));
  hxEndLine();
}

// killbusy <mask>: a child that writes without end to its redirected output streams is killed
static void opKillBusy(const HxLine& l)
{
  uint mask = (uint)hxNum(l, 1) & 7;
  char a2[16];
  snprintf(a2, sizeof(a2), "%u", mask & 3);
  char* argv[] = {(char*)childPath, (char*)"@spam", a2};
  Capture cap(false);
  bool diverted = !(mask & 1);
  if(diverted && !divertStdout())
  {
    printf("FAULT tmpfile");
    hxEndLine();
    return;
  }
  Process p;
  bool ok = p.open(String(childPath, childPathLen), 3, argv, mask);
  uint pipes = pipesOf(p);
  usleep(20000);
  bool killed = ok && p.kill();
  if(diverted)
    restoreStdout(cap);
  printf("kb ok=%d pipes=%u | killed=%d after=%u", ok ? 1 : 0, pipes, killed ? 1 : 0, pipesOf(p) | (p.pid ? 8u : 0u));
  hxEndLine();
}

// execfail <kind> <streams>: the executable cannot be started (execvpe fails in the vfork child:
// message `<program>: <strerror>` on stderr, _exit(EXIT_FAILURE)).  kind: path = a file that does not exist,
// empty = the command line "", blank = the command line " "
static void opExecFail(const HxLine& l)
{
  const char* kind = l.tok[1];
  uint streams = (uint)hxNum(l, 2);
  static const char* missing = "/nonexistent-nstd-verif/args-child";
  Capture cap(true);
  bool diverted = !(streams & 1);
  if(diverted && !divertStdout())
  {
    printf("FAULT tmpfile");
    hxEndLine();
    return;
  }
  Process p;
  bool ok;
  if(strcmp(kind, "path") == 0)
  {
    char* argv[] = {(char*)missing, (char*)"a"};
    ok = p.open(String(missing, strlen(missing)), 2, argv, streams);
  }
  else if(strcmp(kind, "empty") == 0)
    ok = p.open(String(), streams);
  else
    ok = p.open(String(" ", 1), streams);
  uint pipes = pipesOf(p);
  bool drained = true, joined = false;
  uint32 exitCode = 9999;
  if(ok)
  {
    if(streams & 3)
      drained = drain(p, streams, cap);
    joined = p.join(exitCode);
  }
  if(diverted)
    restoreStdout(cap);
  printf("xf ok=%d pipes=%u | joined=%d exit=%u eof=%d out=", ok ? 1 : 0, pipes, joined ? 1 : 0, (unsigned)exitCode, drained ? 1 : 0);
  hxPutHex((const char*)cap.out, cap.out.length());
  printf(" err=");
  hxPutHex((const char*)cap.err, cap.err.length());
  printf(" after=%u", pipesOf(p) | (p.pid ? 8u : 0u));
  hxEndLine();
}

// killtest <mask>: a child that blocks reading its redirected stdin is inspected and killed.
// childextra = descriptors the child holds beyond the ones this process had at start-up (0, 1, 2 included):
// the child must keep none of the pipe ends except as its standard descriptors.
static int countFdsOf(uint32 pid)
{
  char path[64];
  snprintf(path, sizeof(path), "/proc/%u/fd", (unsigned)pid);
  DIR* d = opendir(path);
  if(!d)
    return -1000;
  int n = 0;
  while(readdir(d))
    ++n;
  closedir(d);
  return n;
}

// fdtable <mask>: who holds which end of the pipes created by open(): for every requested stream the
// descriptors of the parent (named by the member that stores them) and of the child that refer to that pipe,
// with the access mode (r/w) from /proc/<pid>/fdinfo
static bool linkOf(const char* dir, const char* name, char* out, size_t size)
{
  char path[96];
  snprintf(path, sizeof(path), "%s/%s", dir, name);
  ssize_t n = readlink(path, out, size - 1);
  if(n < 0)
    return false;
  out[n] = 0;
  return true;
}

static char modeOf(const char* pidDir, const char* name)
{
  char path[96], line[128];
  snprintf(path, sizeof(path), "%sinfo/%s", pidDir, name); // /proc/<pid>/fdinfo/<n>
  FILE* f = fopen(path, "r");
  char m = '?';
  if(f)
  {
    while(fgets(line, sizeof(line), f))
      if(strncmp(line, "flags:", 6) == 0)
      {
        unsigned long fl = strtoul(line + 6, 0, 8);
        m = (fl & 3) == 0 ? 'r' : (fl & 3) == 1 ? 'w' : 'b';
      }
    fclose(f);
  }
  return m;
}

static void holders(const char* dir, const char* target, const Process* roles)
{
  // sorted by descriptor number
  int fds[64];
  int n = 0;
  DIR* d = opendir(dir);
  if(d)
  {
    int own = dirfd(d);
    while(dirent* e = readdir(d))
    {
      if(e->d_name[0] == '.')
        continue;
      int fd = atoi(e->d_name);
      if(roles && fd == own)
        continue;
      char link[128];
      if(linkOf(dir, e->d_name, link, sizeof(link)) && strcmp(link, target) == 0 && n < 64)
      {
        int k = n++;
        while(k > 0 && fds[k - 1] > fd)
        {
          fds[k] = fds[k - 1];
          --k;
        }
        fds[k] = fd;
      }
    }
    closedir(d);
  }
  if(n == 0)
    fputc('-', stdout);
  for(int i = 0; i < n; ++i)
  {
    char name[16];
    snprintf(name, sizeof(name), "%d", fds[i]);
    if(i)
      fputc(',', stdout);
    printf("%c@", modeOf(dir, name));
    if(roles && fds[i] == roles->fdStdOutRead)
      printf("out");
    else if(roles && fds[i] == roles->fdStdErrRead)
      printf("err");
    else if(roles && fds[i] == roles->fdStdInWrite)
      printf("in");
    else if(roles)
      printf("fd%d", fds[i]);
    else
      printf("%d", fds[i]);
  }
}

static void opFdTable(const HxLine& l)
{
  uint mask = (uint)hxNum(l, 1) & 7;
  char* argv[] = {(char*)childPath, (char*)"@pause"};
  Process p;
  bool diverted = !(mask & 1);
  Capture cap(false);
  if(diverted && !divertStdout())
  {
    printf("FAULT tmpfile");
    hxEndLine();
    return;
  }
  bool ok = p.open(String(childPath, childPathLen), 2, argv, mask);
  char line[1024];
  line[0] = 0;
  // the report is printed after stdout is restored: collect it in a memory stream
  char* mem = 0;
  size_t memLen = 0;
  FILE* saved = stdout;
  FILE* ms = open_memstream(&mem, &memLen);
  stdout = ms;
  printf("ft ok=%d", ok ? 1 : 0);
  if(ok)
  {
    char childDir[64];
    snprintf(childDir, sizeof(childDir), "/proc/%u/fd", (unsigned)p.getProcessId());
    const char* names[3] = {"out", "err", "in"};
    int roleFd[3] = {p.fdStdOutRead, p.fdStdErrRead, p.fdStdInWrite};
    for(int i = 0; i < 3; ++i)
    {
      printf(" %s=", names[i]);
      char target[128], num[16];
      snprintf(num, sizeof(num), "%d", roleFd[i]);
      if(roleFd[i] == 0 || !linkOf("/proc/self/fd", num, target, sizeof(target)))
      {
        printf("none");
        continue;
      }
      printf("P:");
      holders("/proc/self/fd", target, &p);
      printf(";C:");
      holders(childDir, target, 0);
    }
  }
  fflush(ms);
  stdout = saved;
  fclose(ms);
  bool killed = ok && p.kill();
  if(diverted)
    restoreStdout(cap);
  fputs(mem ? mem : "", stdout);
  free(mem);
  printf(" | killed=%d after=%u", killed ? 1 : 0, pipesOf(p) | (p.pid ? 8u : 0u));
  hxEndLine();
  (void)line;
}

static void opKillTest(const HxLine& l)
{
  uint mask = ((uint)hxNum(l, 1) & 3) | 4;
  char a2[16];
  snprintf(a2, sizeof(a2), "%u", mask);
  char* argv[] = {(char*)childPath, (char*)"@io", a2, (char*)"0", (char*)"0", (char*)"0"};
  Process p;
  bool diverted = !(mask & 1);
  Capture cap(false);
  if(diverted && !divertStdout())
  {
    printf("FAULT tmpfile");
    hxEndLine();
    return;
  }
  bool ok = p.open(String(childPath, childPathLen), 6, argv, mask);
  bool running = p.isRunning();
  // own descriptors now: start-up set + the pipe ends held by p (+ the saved stdout while diverted)
  int mine = countFds() - fdBaseline - (diverted ? 1 : 0);
  int childExtra = ok ? countFdsOf(p.getProcessId()) - (fdBaseline - 1) - (diverted ? 1 : 0) : -1; // the saved stdout is inherited too
  // the freshly exec'ed child may still be inside its dynamic loader (libc.so / ld.so.cache open for a moment, seen under
  // heavy load): a descriptor LEAKED by open() stays for ever, a transient one is gone a few milliseconds later
  for(int i = 0; ok && childExtra > 0 && i < 200; ++i)
  {
    usleep(5000);
    childExtra = countFdsOf(p.getProcessId()) - (fdBaseline - 1) - (diverted ? 1 : 0);
  }
  bool killed = ok && p.kill();
  if(diverted)
    restoreStdout(cap);
  printf("kill ok=%d | running=%d parentpipes=%d childextra=%d killed=%d after=%u", ok ? 1 : 0, running ? 1 : 0, mine, childExtra,
    killed ? 1 : 0, pipesOf(p) | (p.pid ? 8u : 0u));
  hxEndLine();
}

// ---- small static members -----------------------------------------------------------------------------
// pexit <code>: a forked copy of the harness calls Process::exit(code); the parent reports the status it sees
static void opPExit(const HxLine& l)
{
  unsigned code = (unsigned)hxNum(l, 1);
  fflush(stdout);
  pid_t pid = fork();
  if(pid == 0)
  {
    Process::exit(code);
    _exit(111); // not reached
  }
  int status = 0;
  bool ok = pid > 0 && waitpid(pid, &status, 0) == pid;
  printf("pexit ok=%d code=%d", ok ? 1 : 0, ok && WIFEXITED(status) ? WEXITSTATUS(status) : -1);
  hxEndLine();
}

// ids: getCurrentProcessId() / getExecutablePath() against getpid() / readlink(/proc/self/exe)
static void opIds()
{
  char path[4200];
  ssize_t n = readlink("/proc/self/exe", path, sizeof(path) - 1);
  String exe = Process::getExecutablePath();
  bool sameExe = n >= 0 && exe.length() == (usize)n && memcmp((const char*)exe, path, (size_t)n) == 0;
  printf("ids pid=%d exe=%d", Process::getCurrentProcessId() == (uint32)getpid() ? 1 : 0, sameExe ? 1 : 0);
  hxEndLine();
}

// io2 <n> <seed> <code>: the two-argument read (stdout only) and write with one call each way per loop turn, the
// child's input ended by close(stdinStream); close(stdoutStream) afterwards makes the three-argument read refuse (EINVAL)
static void opIo2(const HxLine& l)
{
  unsigned long n = hxNum(l, 1), seed = hxNum(l, 2);
  char a3[32], a4[32], a5[16];
  snprintf(a3, sizeof(a3), "%lu", n);
  snprintf(a4, sizeof(a4), "%lu", seed);
  snprintf(a5, sizeof(a5), "%u", (unsigned)hxNum(l, 3));
  char* argv[] = {(char*)childPath, (char*)"@io", (char*)"5", a3, a4, a5};
  Capture cap(false);
  Process p;
  bool ok = p.open(String(childPath, childPathLen), 6, argv, Process::stdoutStream | Process::stdinStream);
  uint pipes = pipesOf(p);
  long written = 0;
  bool eof = false, joined = false;
  uint32 exitCode = 9999;
  int afterClose = -2;
  if(ok)
  {
    unsigned char* data = (unsigned char*)malloc(n ? n : 1);
    for(unsigned long i = 0; i < n; ++i)
      data[i] = pattern(i, seed + 2);
    while((unsigned long)written < n)
    {
      ssize w = p.write(data + written, n - (unsigned long)written);
      if(w <= 0)
        break;
      written += (long)w;
    }
    free(data);
    p.close(Process::stdinStream);
    static char buf[4096 + 1];
    ssize r;
    while((r = p.read(buf, 4096)) > 0)
      cap.add(Process::stdoutStream, buf, (size_t)r);
    eof = r == 0;
    p.close(Process::stdoutStream);
    uint s = Process::stdoutStream | Process::stderrStream;
    errno = 0;
    afterClose = p.read(buf, 16, s) == -1 && errno == EINVAL ? 1 : 0;
    joined = p.join(exitCode);
  }
  printf("io2 ok=%d pipes=%u | joined=%d exit=%u eof=%d written=%ld closedrefuses=%d ", ok ? 1 : 0, pipes, joined ? 1 : 0, (unsigned)exitCode,
    eof ? 1 : 0, written, afterClose);
  fwrite((const char*)cap.out, 1, cap.out.length(), stdout);
  printf(" out=%lu:%08x after=%u", cap.outCount, cap.outCrc, pipesOf(p) | (p.pid ? 8u : 0u));
  hxEndLine();
}

// ---- Process::wait / Process::interrupt -------------------------------------------------------------------
//   w new | w start <i> z <code> | w start <i> r | w die <i> | w join <i> | w kill <i> | w intr | w wait <list> <ms> <pick>
// four Process objects; `z` children have terminated (not reaped) when the op returns, `r` children run until
// killed; <list> = the object indices in the order they are passed (`-` = count 0); <ms> > 0: another thread calls
// interrupt() after that many milliseconds; <pick> is for the model only (which terminated child the kernel reports).
// Every line ends with: pend = an interrupt is pending, kids / zombies = our children (terminated ones) without the
// dummy child of interrupt().
static const int wCount = 4;
static Process* wobj[wCount];

static bool isZombie(uint32 pid)
{
  siginfo_t info;
  info.si_pid = 0;
  return waitid(P_PID, (id_t)pid, &info, WEXITED | WNOHANG | WNOWAIT) == 0 && info.si_pid == (pid_t)pid;
}

static void untilZombie(uint32 pid)
{
  for(int i = 0; i < 20000 && !isZombie(pid); ++i)
    usleep(500);
}

static void wCensus(int& kids, int& zombies)
{
  kids = zombies = 0;
  DIR* d = opendir("/proc");
  if(!d)
  {
    kids = zombies = -1;
    return;
  }
  int self = (int)getpid();
  int dummy = ProcessFramework::signaled > 0 ? ProcessFramework::signaled : -1;
  while(dirent* e = readdir(d))
  {
    if(e->d_name[0] < '0' || e->d_name[0] > '9')
      continue;
    char path[64], buf[512];
    snprintf(path, sizeof(path), "/proc/%s/stat", e->d_name);
    int fd = ::open(path, O_RDONLY);
    if(fd < 0)
      continue;
    ssize_t n = ::read(fd, buf, sizeof(buf) - 1);
    ::close(fd);
    if(n <= 0)
      continue;
    buf[n] = 0;
    const char* rp = strrchr(buf, ')');
    char state = 0;
    int ppid = -1;
    if(!rp || sscanf(rp + 1, " %c %d", &state, &ppid) != 2 || ppid != self || atoi(e->d_name) == dummy)
      continue;
    ++kids;
    if(state == 'Z')
      ++zombies;
  }
  closedir(d);
}

static void wEnd()
{
  int kids, zombies;
  wCensus(kids, zombies);
  printf(" pend=%d kids=%d zombies=%d", ProcessFramework::signaled != 0 ? 1 : 0, kids, zombies);
  hxEndLine();
}

static void wReset()
{
  for(int i = 0; i < wCount; ++i)
  {
    if(wobj[i] && wobj[i]->pid)
      wobj[i]->kill();
    delete wobj[i];
    wobj[i] = 0;
  }
  if(ProcessFramework::signaled > 0)
  {
    int status;
    waitpid(ProcessFramework::signaled, &status, 0);
  }
  ProcessFramework::signaled = 0;
  ProcessFramework::waitState = 0;
}

static void* wInterrupter(void* arg)
{
  usleep((useconds_t)(size_t)arg * 1000);
  Process::interrupt();
  return 0;
}

static void opWait(const HxLine& l)
{
  const char* op = l.tok[1];
  int i = l.ntok >= 3 && l.tok[2][0] >= '0' && l.tok[2][0] < '0' + wCount && !l.tok[2][1] ? l.tok[2][0] - '0' : -1;
  if(l.ntok == 2 && strcmp(op, "new") == 0)
  {
    wReset();
    for(int k = 0; k < wCount; ++k)
      wobj[k] = new Process;
    printf("w new");
  }
  else if(!wobj[0])
  {
    printf("bad-op");
    hxEndLine();
    return;
  }
  else if((l.ntok == 5 || l.ntok == 4) && strcmp(op, "start") == 0 && i >= 0 && (strcmp(l.tok[3], "z") == 0) == (l.ntok == 5) &&
    (l.ntok == 5 || strcmp(l.tok[3], "r") == 0))
  {
    bool z = l.ntok == 5;
    char code[16];
    snprintf(code, sizeof(code), "%u", z ? (unsigned)hxNum(l, 4) : 0u);
    char* argvZ[] = {(char*)childPath, (char*)"@exit", code};
    char* argvR[] = {(char*)childPath, (char*)"@pause"};
    bool ok = z ? wobj[i]->open(String(childPath, childPathLen), 3, argvZ, 0) : wobj[i]->open(String(childPath, childPathLen), 2, argvR, 0);
    if(ok && z)
      untilZombie(wobj[i]->pid);
    printf("w start ok=%d", ok ? 1 : 0);
  }
  else if(l.ntok == 3 && strcmp(op, "die") == 0 && i >= 0)
  { // the child-exit oracle: a running child is terminated from outside (SIGTERM: WEXITSTATUS is 0)
    bool ok = wobj[i]->pid != 0 && !isZombie(wobj[i]->pid) && ::kill((pid_t)wobj[i]->pid, SIGTERM) == 0;
    if(ok)
      untilZombie(wobj[i]->pid);
    printf("w die ok=%d", ok ? 1 : 0);
  }
  else if(l.ntok == 3 && strcmp(op, "join") == 0 && i >= 0)
  {
    uint32 code = 9999;
    bool ok = wobj[i]->join(code);
    if(ok)
      printf("w join ok=1 code=%u", (unsigned)code);
    else
      printf("w join ok=0 code=-");
  }
  else if(l.ntok == 3 && strcmp(op, "kill") == 0 && i >= 0)
    printf("w kill ok=%d", wobj[i]->kill() ? 1 : 0);
  else if(l.ntok == 2 && strcmp(op, "intr") == 0)
  {
    Process::interrupt();
    printf("w intr");
  }
  else if(l.ntok == 5 && strcmp(op, "wait") == 0)
  {
    Process* list[8];
    usize n = 0;
    bool bad = false;
    if(strcmp(l.tok[2], "-") != 0)
      for(const char* c = l.tok[2]; *c; ++c)
        if(*c >= '0' && *c < '0' + wCount && n < 8)
          list[n++] = wobj[*c - '0'];
        else
          bad = true;
    if(bad)
    {
      printf("bad-op");
      hxEndLine();
      return;
    }
    unsigned long ms = hxNum(l, 3);
    pthread_t th;
    bool threaded = ms > 0 && pthread_create(&th, 0, wInterrupter, (void*)(size_t)ms) == 0;
    // an exactly sized copy of the pointer list
    Process** exact = (Process**)malloc(n ? n * sizeof(Process*) : 1);
    memcpy(exact, list, n * sizeof(Process*));
    Process* r = Process::wait(exact, n);
    free(exact);
    if(threaded)
      pthread_join(th, 0);
    int ri = -1;
    for(int k = 0; k < wCount; ++k)
      if(r == wobj[k])
        ri = k;
    if(!r)
      printf("w wait ret=null");
    else
      printf("w wait ret=%d term=%d", ri, ri >= 0 && wobj[ri]->pid && isZombie(wobj[ri]->pid) ? 1 : 0);
  }
  else
  {
    printf("bad-op");
    hxEndLine();
    return;
  }
  wEnd();
}

// sel <nout> <nerr> <hold> <swap> <len.streams.script>...: the three-argument read against a child that has written <nout>
// bytes 'o' to stdout and <nerr> bytes 'e' to stderr and then stays (hold = 1) or has exited (hold = 0: end-of-file behind the
// data); swap = 1: the stdout descriptor is moved above the stderr descriptor (maxFd); every read token is one call of
// read(buf, len, streams) during which select() follows the script (T = time-out, I = EINTR, then the real call)
static int queuedIn(int fd)
{
  int n = -1;
  return ioctl(fd, FIONREAD, &n) == 0 ? n : -1;
}

static void opSel(const HxLine& l)
{
  unsigned long nout = hxNum(l, 1), nerr = hxNum(l, 2);
  bool hold = hxNum(l, 3) != 0, swap = hxNum(l, 4) != 0;
  char a2[16], a3[16], a4[4];
  snprintf(a2, sizeof(a2), "%lu", nout);
  snprintf(a3, sizeof(a3), "%lu", nerr);
  snprintf(a4, sizeof(a4), "%d", hold ? 1 : 0);
  char* argv[] = {(char*)childPath, (char*)"@two", a2, a3, a4};
  Process p;
  bool ok = nout <= 60000 && nerr <= 60000 && p.open(String(childPath, childPathLen), 5, argv, 3);
  printf("sel ok=%d", ok ? 1 : 0);
  if(ok)
  {
    for(int i = 0; i < 20000 && (queuedIn(p.fdStdOutRead) != (int)nout || queuedIn(p.fdStdErrRead) != (int)nerr); ++i)
      usleep(500);
    if(!hold)
      untilZombie(p.pid);
    if(swap)
    {
      int nf = fcntl(p.fdStdOutRead, F_DUPFD, p.fdStdErrRead + 7);
      ::close(p.fdStdOutRead);
      p.fdStdOutRead = nf;
    }
    for(int t = 5; t < l.ntok; ++t)
    {
      char tok[128];
      snprintf(tok, sizeof(tok), "%s", l.tok[t]);
      char* d1 = strchr(tok, '.');
      char* d2 = d1 ? strchr(d1 + 1, '.') : 0;
      if(!d1 || !d2)
      {
        printf(" r=bad");
        continue;
      }
      *d1 = 0;
      *d2 = 0;
      size_t len = (size_t)strtoul(tok, 0, 10);
      uint streams = (uint)strtoul(d1 + 1, 0, 10);
      char* buf = (char*)malloc(len ? len : 1); // exactly sized
      nvSelScript = d2 + 1;
      nvSelCalls = 0;
      errno = 0;
      ssize n = p.read(buf, len, streams);
      int err = errno;
      nvSelScript = 0;
      if(n < 0)
        printf(err == EINVAL ? " r=einval" : " r=-1");
      else
        printf(" r=%ld/%u/%c", (long)n, streams, n > 0 ? buf[0] : '-');
      free(buf);
    }
    bool done = hold ? p.kill() : p.join();
    printf(" | done=%d after=%u", done ? 1 : 0, pipesOf(p) | (p.pid ? 8u : 0u));
  }
  hxEndLine();
}

// joinfail <mask> <k> <code>: waitpid fails k times with EINTR: join() returns false, the object stays joinable (pid and read
// ends kept, the stdin end is closed by then), the next join() delivers the code and releases everything
static void opJoinFail(const HxLine& l)
{
  uint mask = (uint)hxNum(l, 1) & 7;
  int k = (int)hxNum(l, 2);
  char code[16];
  snprintf(code, sizeof(code), "%u", (unsigned)hxNum(l, 3));
  char* argv[] = {(char*)childPath, (char*)"@exit", code};
  Capture cap(true);
  bool diverted = !(mask & 1);
  if(diverted && !divertStdout())
  {
    printf("FAULT tmpfile");
    hxEndLine();
    return;
  }
  Process p;
  bool ok = p.open(String(childPath, childPathLen), 3, argv, mask);
  char line[512];
  int pos = snprintf(line, sizeof(line), "jf ok=%d", ok ? 1 : 0); // printed when stdout is ours again
  if(ok)
  {
    nvFailWaitpid = k;
    for(int i = 0; i <= k && i < 8; ++i)
    {
      uint32 exitCode = 9999;
      bool joined = p.join(exitCode);
      pos += snprintf(line + pos, sizeof(line) - (size_t)pos, " j=%d/%u%u%u%u", joined ? 1 : 0, p.pid ? 1u : 0u, p.fdStdOutRead ? 1u : 0u,
        p.fdStdErrRead ? 1u : 0u, p.fdStdInWrite ? 1u : 0u);
      if(joined)
        pos += snprintf(line + pos, sizeof(line) - (size_t)pos, "/%u", (unsigned)exitCode);
    }
    nvFailWaitpid = 0;
  }
  if(diverted)
    restoreStdout(cap);
  fputs(line, stdout);
  hxEndLine();
}

// startfail <form>: vfork fails inside start(): 0 is returned, the object stays idle, nothing is left behind
static void opStartFail(const HxLine& l)
{
  Process p;
  char* argv[] = {(char*)childPath, (char*)"@exit", (char*)"0"};
  errno = 0;
  nvFailVfork = 1;
  uint32 pid;
  if(strcmp(l.tok[1], "cmd") == 0)
  {
    String commandLine(childPath, childPathLen);
    commandLine.append(" @exit 0", 8);
    pid = p.start(commandLine);
  }
  else
    pid = p.start(String(childPath, childPathLen), 3, argv);
  nvFailVfork = 0;
  int err = errno;
  printf("sf pid=%u st=%d%d%d%d | eagain=%d", (unsigned)pid, p.pid ? 1 : 0, p.fdStdOutRead ? 1 : 0, p.fdStdErrRead ? 1 : 0, p.fdStdInWrite ? 1 : 0,
    err == EAGAIN ? 1 : 0);
  hxEndLine();
}

// dmn <ok|nofile>: Process::daemonize(log file) in a forked copy A of the harness.  ok: A forks the daemon B and exits 0;
// B reports (through a scratch file) what daemonize returned, where its descriptors 0..3 point and whether it leads a
// session.  nofile: the log file cannot be created: daemonize returns false in A, nothing changed.
static const char* fdState(int fd, const char* before, const char* logPath)
{
  char name[32], link[600];
  snprintf(name, sizeof(name), "%d", fd);
  if(!linkOf("/proc/self/fd", name, link, sizeof(link)))
    return "closed";
  if(strcmp(link, logPath) == 0)
    return "log";
  return strcmp(link, before) == 0 ? "same" : "other";
}

static void opDaemonize(const HxLine& l)
{
  bool good = strcmp(l.tok[1], "ok") == 0;
  const char* dir = getenv("TMPDIR");
  char logPath[600], report[600];
  static unsigned counter = 0;
  ++counter;
  snprintf(logPath, sizeof(logPath), good ? "%s/nstd-args-dlog-%d-%u" : "%s/nstd-args-nodir-%d-%u/log", dir && *dir ? dir : "/tmp", (int)getpid(), counter);
  snprintf(report, sizeof(report), "%s/nstd-args-drep-%d-%u", dir && *dir ? dir : "/tmp", (int)getpid(), counter);
  unlink(report);
  fflush(stdout);
  pid_t a = fork();
  if(a == 0)
  {
    char before[4][600];
    for(int fd = 0; fd < 4; ++fd)
    {
      char name[32];
      snprintf(name, sizeof(name), "%d", fd);
      if(!linkOf("/proc/self/fd", name, before[fd], sizeof(before[fd])))
        strcpy(before[fd], "-");
    }
    bool ret = Process::daemonize(String(logPath, strlen(logPath)));
    // here: the daemon B (ret = true) or, when daemonize failed, still A
    char text[400];
    int n = snprintf(text, sizeof(text), "dmn ret=%d fd0=%s fd1=%s fd2=%s fd3=%s | sid=%d inparent=%d", ret ? 1 : 0, fdState(0, before[0], logPath),
      fdState(1, before[1], logPath), fdState(2, before[2], logPath), fdState(3, before[3], logPath), getsid(0) == getpid() ? 1 : 0,
      getpid() == a ? 9 : (ret ? 0 : 1));
    char tmp[640];
    snprintf(tmp, sizeof(tmp), "%s.tmp", report);
    int fd = ::open(tmp, O_CREAT | O_WRONLY | O_TRUNC, 0600);
    if(fd >= 0)
    {
      ssize_t k = write(fd, text, (size_t)n);
      (void)k;
      ::close(fd);
      rename(tmp, report);
    }
    _exit(ret ? 0 : 7);
  }
  int status = 0;
  bool waited = a > 0 && waitpid(a, &status, 0) == a;
  char text[400] = "";
  for(int i = 0; i < 10000; ++i)
  {
    int fd = ::open(report, O_RDONLY);
    if(fd >= 0)
    {
      ssize_t n = ::read(fd, text, sizeof(text) - 1);
      ::close(fd);
      text[n > 0 ? n : 0] = 0;
      break;
    }
    usleep(500);
  }
  unlink(report);
  unlink(logPath);
  printf("%s astatus=%d", *text ? text : "dmn noreport |", waited && WIFEXITED(status) ? WEXITSTATUS(status) : -1);
  hxEndLine();
}

int main(int argc, char** argv)
{
  if(argc > 1)
  {
    childPath = argv[1];
    childPathLen = strlen(childPath);
  }
  crcInit();
  setpgid(0, 0);
  fdBaseline = countFds();
  signal(SIGALRM, onAlarm);
  signal(SIGPIPE, SIG_IGN);
  static HxLine l;
  while(hxRead(l))
  {
    alarm(20);
    if(hxIs(l, "reset", 0))
    {
      procNew();
      wReset();
      clearTestEnv();
      printf("ready");
      hxEndLine();
    }
    else if(l.ntok >= 2 && strcmp(l.tok[0], "args") == 0)
      opArgs(l);
    else if(hxIs(l, "args0", 0))
      opArgs0();
    else if(hxIs(l, "split", 1))
      opSplit(l);
    else if(l.ntok >= 4 && strcmp(l.tok[0], "run") == 0)
      opRun(l);
    else if(hxIs(l, "io", 4))
      opIo(l);
    else if(hxIs(l, "exit", 1))
      opExit(l);
    else if(l.ntok >= 2 && strcmp(l.tok[0], "p") == 0)
      opProc(l);
    else if(hxIs(l, "killtest", 1))
      opKillTest(l);
    else if(hxIs(l, "fds", 0))
      opFds();
    else if(hxIs(l, "fdtable", 1))
      opFdTable(l);
    else if(hxIs(l, "execfail", 2))
      opExecFail(l);
    else if(hxIs(l, "late", 4))
      opLate(l);
    else if(hxIs(l, "sig", 2))
      opSig(l);
    else if(hxIs(l, "eofjoin", 4))
      opEofJoin(l);
    else if(hxIs(l, "killbusy", 1))
      opKillBusy(l);
    else if(l.ntok >= 2 && strcmp(l.tok[0], "env") == 0)
      opEnv(l);
    else if(l.ntok >= 2 && strcmp(l.tok[0], "w") == 0)
      opWait(l);
    else if(l.ntok >= 5 && strcmp(l.tok[0], "sel") == 0)
      opSel(l);
    else if(hxIs(l, "dmn", 1))
      opDaemonize(l);
    else if(hxIs(l, "joinfail", 3))
      opJoinFail(l);
    else if(hxIs(l, "startfail", 1))
      opStartFail(l);
    else if(hxIs(l, "pexit", 1))
      opPExit(l);
    else if(hxIs(l, "ids", 0))
      opIds();
    else if(hxIs(l, "io2", 3))
      opIo2(l);
    else
    {
      printf("bad-op");
      hxEndLine();
    }
    alarm(0);
  }
  wReset();
  delete proc;
  return 0;
}
