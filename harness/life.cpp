// Line-protocol harness for the Life area (properties C04 and C05).
// Executes the op lines of lean/Nstd/Life/Driver.lean on the REAL container headers
// (Array, List, Map, MultiMap, HashMap, HashSet, PoolList, PoolMap), two variables each,
// with an element type that registers every construction / copy / assignment / destruction
// in a ledger, and a replaced global allocator that keeps a block ledger.
//
//   argv[1] = "C04": after every op print   <var0> | <var1> # counters # lifecycle event log
//   argv[1] = "C05": after every op print   <var0> | <var1> # misuse counters
//                    where every element carries the flag  s (same object at the same address as
//                    before the op, iterator saved when it was first seen still designates it),
//                    n (object constructed during this op) or m (moved / replaced)
#include "common/hx.h"
#include <stdint.h>
#include <stddef.h>
#define private public
#include <nstd/Array.hpp>
#include <nstd/List.hpp>
#include <nstd/Map.hpp>
#include <nstd/MultiMap.hpp>
#include <nstd/HashMap.hpp>
#include <nstd/HashSet.hpp>
#include <nstd/PoolList.hpp>
#include <nstd/PoolMap.hpp>
#undef private

// the ASSERTs of Map/MultiMap stay active; a failed assertion is a result (abort, attributed to the op line)
#include <stdarg.h>
int Debug::printf(const char* format, ...)
{
  va_list ap;
  va_start(ap, format);
  fprintf(stderr, "ERROR: nstd ");
  vfprintf(stderr, format, ap);
  va_end(ap);
  return 1;
}

// ------------------------------------------------------------------------------------------
// global state of the ledgers
static bool modeC05 = false;
static unsigned long nCtor, nDtor, nUad, nDd, nOvr, nTmpCtor, nTmpDtor;   // per history
static unsigned long opAssigns, opCopies;   // per op: assignments to container-held objects; copy constructions from container-held objects
static unsigned opSerialStart;     // first object serial handed out by the current op
static unsigned nextSerial;
static int curKind = -1;           // kind of the container the current op works on (tags new blocks)
static int curVar = 0;             // index of the variable the current op modifies (the one that allocates)

static char evlog[1 << 20];
static size_t evlen;
static void ev(const char* s)
{
  size_t n = strlen(s);
  if(evlen + n + 2 >= sizeof(evlog)) { fprintf(stderr, "event log overflow\n"); abort(); }
  if(evlen) evlog[evlen++] = ' ';
  memcpy(evlog + evlen, s, n);
  evlen += n;
  evlog[evlen] = 0;
}

// ---- block ledger ------------------------------------------------------------------------
enum { KA, KL, KM, KU, KH, KS, KP, KQ, NKIND };
static const char KLETTER[NKIND + 1] = "ALMUHSPQ";
struct KindInfo { size_t header, stride, keyOff, valOff; };   // keyOff/valOff = (size_t)-1 if absent
static KindInfo kinds[NKIND];

struct Block { char* base; size_t size; unsigned id; int kind; int cls; size_t count; bool freed; };   // cls 0 node block, 1 array storage, 2 hash table; count = element slots
static bool hashTableMissing(int kind, int var);   // does the hash container in that variable still lack its table?
static Block blocks[1 << 14];
static unsigned nBlocks, nextBlockId, liveBlocks, nDoubleFree;

static Block* findBlock(const void* p)
{
  for(unsigned i = nBlocks; i-- > 0;)
    if(!blocks[i].freed && (const char*)p >= blocks[i].base && (const char*)p < blocks[i].base + blocks[i].size)
      return &blocks[i];
  for(unsigned i = nBlocks; i-- > 0;)
    if(blocks[i].freed && (const char*)p >= blocks[i].base && (const char*)p < blocks[i].base + blocks[i].size)
      return &blocks[i];
  return 0;
}

void* operator new[](usize size)
{
  char* p = (char*)malloc(size ? size : 1);
  memset(p, 0xAA, size);
  if(curKind < 0)
    return p;
  if(nBlocks >= sizeof(blocks) / sizeof(*blocks)) { fprintf(stderr, "block ledger overflow\n"); abort(); }
  Block& b = blocks[nBlocks++];
  b.base = p; b.size = size ? size : 1; b.id = nextBlockId++; b.kind = curKind; b.freed = false;
  const KindInfo& k = kinds[curKind];
  size_t slots;
  // The number of items per block is NOT assumed: it is what the allocation has room for.  The hash containers allocate
  // their table exactly when `data` is still null (looked up in the container itself), everything else is an item block.
  if(curKind == KA) { b.cls = 1; slots = size / k.stride; }
  else if((curKind == KH || curKind == KS || curKind == KQ) && hashTableMissing(curKind, curVar)) { b.cls = 2; slots = 0; }
  else { b.cls = 0; slots = size >= k.header ? (size - k.header) / k.stride : 0; }
  b.count = slots;
  ++liveBlocks;
  char t[64];
  snprintf(t, sizeof(t), "N%u:%lu", b.id, (unsigned long)slots);
  ev(t);
  return p;
}

static unsigned long liveObjectsIn(const char* base, size_t size);

void operator delete[](void* p)
{
  if(!p) return;
  for(unsigned i = nBlocks; i-- > 0;)
    if(blocks[i].base == (char*)p)
    {
      Block& b = blocks[i];
      char t[64];
      if(b.freed)
      {
        ++nDoubleFree;
        snprintf(t, sizeof(t), "F!%u", b.id);   // double free: reported, not executed
        ev(t);
        return;
      }
      unsigned long left = liveObjectsIn(b.base, b.size);
      snprintf(t, sizeof(t), left ? "F%u!live%lu" : (b.cls == 2 ? "Ft%u" : "F%u"), b.id, left);   // Ft = the table of a hash container (no element slots)
      ev(t);
      b.freed = true;
      --liveBlocks;
      memset(p, 0xDD, b.size);
      free(p);
      return;
    }
  free(p);   // not from the ledger (allocated outside an op)
}
void* operator new(usize size) { return operator new[](size); }
void operator delete(void* p) { operator delete[](p); }

// ---- object ledger (open addressing, keyed by address) -------------------------------------------
struct Rec { const void* addr; unsigned serial; };
static const unsigned RECN = 1 << 13;
static Rec recs[RECN];
static unsigned recUsed;
static const void* const TOMB = (const void*)1;

static unsigned recSlot(const void* a) { return (unsigned)(((uintptr_t)a >> 3) * 2654435761u) & (RECN - 1); }
static Rec* recFind(const void* a)
{
  for(unsigned i = recSlot(a);; i = (i + 1) & (RECN - 1))
  {
    if(recs[i].addr == a) return &recs[i];
    if(recs[i].addr == 0) return 0;
  }
}
static void recInsert(const void* a, unsigned serial)
{
  if(++recUsed > RECN / 2)
  { // drop the tombstones
    static Rec live[RECN];
    unsigned n = 0;
    for(unsigned i = 0; i < RECN; ++i)
      if(recs[i].addr && recs[i].addr != TOMB) live[n++] = recs[i];
    memset(recs, 0, sizeof(recs));
    recUsed = n + 1;
    if(recUsed > RECN / 2) { fprintf(stderr, "object ledger overflow\n"); abort(); }
    for(unsigned i = 0; i < n; ++i)
      for(unsigned j = recSlot(live[i].addr);; j = (j + 1) & (RECN - 1))
        if(recs[j].addr == 0) { recs[j] = live[i]; break; }
  }
  for(unsigned i = recSlot(a);; i = (i + 1) & (RECN - 1))
    if(recs[i].addr == 0 || recs[i].addr == TOMB) { recs[i].addr = a; recs[i].serial = serial; return; }
}
static unsigned long liveObjectsIn(const char* base, size_t size)
{
  unsigned long n = 0;
  for(unsigned i = 0; i < RECN; ++i)
    if(recs[i].addr && recs[i].addr != TOMB && (const char*)recs[i].addr >= base && (const char*)recs[i].addr < base + size)
      ++n;
  return n;
}
static unsigned long liveObjects()
{
  unsigned long n = 0;
  for(unsigned i = 0; i < RECN; ++i)
    if(recs[i].addr && recs[i].addr != TOMB) ++n;
  return n;
}

// ---- variables ---------------------------------------------------------------------------
static const size_t VARSZ = 512;
alignas(16) static char varStorage[NKIND][2][VARSZ];
struct SentInfo { size_t keyOff, valOff; };   // offsets of the sentinel's objects inside the container object
static SentInfo sents[NKIND];

// canonical name of an object location
static void locStr(const void* p, char* out, size_t n)
{
  const char* c = (const char*)p;
  if(c >= &varStorage[0][0][0] && c < &varStorage[0][0][0] + sizeof(varStorage))
  {
    size_t off = c - &varStorage[0][0][0];
    int k = (int)(off / (2 * VARSZ)), v = (int)(off / VARSZ % 2);
    size_t o = off % VARSZ;
    const char* f = o == sents[k].keyOff ? "k" : o == sents[k].valOff ? "v" : "?";
    snprintf(out, n, "s%c%d%s", KLETTER[k], v, f);
    return;
  }
  Block* b = findBlock(p);
  if(!b) { snprintf(out, n, "x"); return; }
  const KindInfo& k = kinds[b->kind];
  size_t off = c - b->base;
  if(b->cls == 2 || off < (b->cls == 0 ? k.header : 0)) { snprintf(out, n, "%s%u.?", b->freed ? "!" : "", b->id); return; }
  if(b->cls == 0) off -= k.header;
  size_t idx = off / k.stride, in = off % k.stride;
  const char* f = idx >= b->count ? "?" : b->cls == 1 ? (in == 0 ? "v" : "?") : in == k.keyOff ? "k" : in == k.valOff ? "v" : "?";
  snprintf(out, n, "%s%u.%lu%s", b->freed ? "!" : "", b->id, (unsigned long)idx, f);
}
static bool isTemp(const void* p)
{
  const char* c = (const char*)p;
  if(c >= &varStorage[0][0][0] && c < &varStorage[0][0][0] + sizeof(varStorage)) return false;
  return findBlock(p) == 0;
}

// ---- the element types -----------------------------------------------------------------------
struct Obj
{
  int payload;
  unsigned serial;
  int* cell;       // owned heap cell (malloc: not part of the block ledger)

  void born(const char* how, const Obj* src)
  {
    serial = nextSerial++;
    cell = (int*)malloc(sizeof(int));
    Rec* r = recFind(this);
    if(r) { ++nOvr; r->serial = serial; }       // constructed over a live object
    else recInsert(this, serial);
    if(isTemp(this)) { ++nTmpCtor; return; }
    ++nCtor;
    if(src && !isTemp(src)) ++opCopies;
    char a[48], b[48], t[128];
    locStr(this, a, sizeof(a));
    if(src) { locStr(src, b, sizeof(b)); snprintf(t, sizeof(t), "%s%s<%s", how, a, b); }
    else snprintf(t, sizeof(t), "%s%s", how, a);
    ev(t);
  }
  static bool alive(const Obj* o)
  {
    if(recFind(o)) return true;
    ++nUad;
    return false;
  }
  void init(int p) { payload = p; born("C", 0); *cell = p; }
  void copyFrom(const Obj& o)
  {
    bool ok = alive(&o);
    payload = ok ? o.payload : -1;
    born("C", &o);
    *cell = payload;
  }
  void assignFrom(const Obj& o)
  {
    bool okd = alive(this), oks = alive(&o);
    if(!isTemp(this))
    {
      ++opAssigns;
      char a[48], b[48], t[128];
      locStr(this, a, sizeof(a));
      locStr(&o, b, sizeof(b));
      snprintf(t, sizeof(t), "A%s<%s", a, b);
      ev(t);
    }
    if(okd)
    {
      payload = oks ? o.payload : -1;
      *cell = payload;
    }
  }
  void die()
  {
    Rec* r = recFind(this);
    bool tmp = isTemp(this);
    if(!tmp)
    {
      char a[48], t[64];
      locStr(this, a, sizeof(a));
      snprintf(t, sizeof(t), "D%s", a);
      ev(t);
    }
    if(!r) { ++nDd; return; }                    // destroyed twice / never constructed: nothing is touched
    r->addr = TOMB;
    if(tmp) ++nTmpDtor; else ++nDtor;
    if(*cell != payload) ++nUad;                 // the owned cell was clobbered
    free(cell);
    cell = 0;
  }
  int read() const { return alive(this) ? payload : -1; }
};

// re-entrant removal (`P.removechain`, `Q.removechain`): the destructor of the object at `chainOwner` removes another
// element of the same pool (a parent object taking its child along) before it dies itself
static const void* chainOwner;
static void (*chainFn)();
static inline void chainCheck(const void* self)
{
  if(self == chainOwner && chainOwner) { chainOwner = 0; chainFn(); }
}

static unsigned long orcBits;
static int orcLeft;

struct Tracked : Obj
{
  Tracked() { init(0); }
  explicit Tracked(int p) { init(p); }
  Tracked(const Tracked& o) { copyFrom(o); }
  Tracked& operator=(const Tracked& o) { assignFrom(o); return *this; }
  ~Tracked() { chainCheck(this); die(); }
  bool operator==(const Tracked& o) const { return read() == o.read(); }
  bool operator!=(const Tracked& o) const { return read() != o.read(); }
  // `L.sortwith`: the outcomes of the next comparisons are dictated (an arbitrary, possibly inconsistent comparator); both operands are still read
  bool operator<(const Tracked& o) const
  {
    int a = read(), b = o.read();
    if(orcLeft > 0) { bool r = orcBits & 1; orcBits >>= 1; --orcLeft; return r; }
    return a < b;
  }
  bool operator>(const Tracked& o) const { return read() > o.read(); }
  bool operator<=(const Tracked& o) const { return read() <= o.read(); }
  bool operator>=(const Tracked& o) const { return read() >= o.read(); }
};
usize hash(const Tracked& t) { return (usize)t.read(); }

// element of the pool containers: constructed in place, can be neither copied nor assigned
struct Fixed : Obj
{
  Fixed() { init(0); }
  explicit Fixed(int p) { init(p); }
  Fixed(int p, int q) { init(p + q); }          // PoolList::append(A, B): in-place construction from two arguments
  Fixed(int p, int q, int r) { init(p + q + r); }
  Fixed(int p, int q, int r, int s) { init(p + q + r + s); }
  Fixed(int p, int q, int r, int s, int t) { init(p + q + r + s + t); }
  Fixed(int p, int q, int r, int s, int t, int u) { init(p + q + r + s + t + u); }
  Fixed(int p, int q, int r, int s, int t, int u, int v) { init(p + q + r + s + t + u + v); }
  ~Fixed() { chainCheck(this); die(); }
  Fixed(const Fixed&) = delete;
  Fixed& operator=(const Fixed&) = delete;
};

typedef Array<Tracked> TA;
typedef List<Tracked> TL;
typedef Map<Tracked, Tracked> TM;
typedef MultiMap<Tracked, Tracked> TU;
typedef HashMap<Tracked, Tracked> TH;
typedef HashSet<Tracked> TS;
typedef PoolList<Fixed> TP;
typedef PoolMap<Tracked, Fixed> TQ;

// MultiMap has no usable copy assignment on trees without the D5 repair (implicitly deleted): detect it
template<class T> struct CanAssign
{
  template<class U> static char test(decltype(&(*(U*)0 = *(const U*)0)));
  template<class U> static long test(...);
  enum { value = sizeof(test<T>(0)) == 1 };
};
template<bool> struct AssignIf { template<class C> static bool run(C& a, const C& b) { a = b; return true; } };
template<> struct AssignIf<false> { template<class C> static bool run(C&, const C&) { return false; } };

static const size_t NONE = (size_t)-1;
static bool varLive[NKIND][2];
static TP* chainP; static TQ* chainQ; static const Fixed* chainTarget;
static void chainRemoveP() { chainP->remove(*chainTarget); }
static void chainRemoveQ() { chainQ->remove(*chainTarget); }

template<class C> static C& V(int k, int v) { return *(C*)varStorage[k][v]; }

static bool hashTableMissing(int kind, int var)
{
  switch(kind)
  {
  case KH: return V<TH>(kind, var).data == 0;
  case KS: return V<TS>(kind, var).data == 0;
  case KQ: return V<TQ>(kind, var).data == 0;
  }
  return false;
}

static void setupKinds()
{
  kinds[KA] = KindInfo{0, sizeof(Tracked), NONE, 0};
  kinds[KL] = KindInfo{sizeof(TL::ItemBlock), sizeof(TL::Item), NONE, offsetof(TL::Item, value)};
  kinds[KM] = KindInfo{sizeof(TM::ItemBlock), sizeof(TM::Item), offsetof(TM::Item, key), offsetof(TM::Item, value)};
  kinds[KU] = KindInfo{sizeof(TU::ItemBlock), sizeof(TU::Item), offsetof(TU::Item, key), offsetof(TU::Item, value)};
  kinds[KH] = KindInfo{sizeof(TH::ItemBlock), sizeof(TH::Item), offsetof(TH::Item, key), offsetof(TH::Item, value)};
  kinds[KS] = KindInfo{sizeof(TS::ItemBlock), sizeof(TS::Item), offsetof(TS::Item, key), NONE};
  // PoolList slots: link header followed by the element (rounded up to pointer alignment, as the header itself may do)
  const size_t pslot = (sizeof(TP::Item) + sizeof(Fixed) + sizeof(void*) - 1) / sizeof(void*) * sizeof(void*);
  kinds[KP] = KindInfo{sizeof(TP::ItemBlock), pslot, NONE, sizeof(TP::Item)};
  kinds[KQ] = KindInfo{sizeof(TQ::ItemBlock), sizeof(TQ::Item), offsetof(TQ::Item, key), offsetof(TQ::Item, value)};
  sents[KA] = SentInfo{NONE, NONE};
  sents[KL] = SentInfo{NONE, offsetof(TL, endItem) + offsetof(TL::Item, value)};
  sents[KM] = SentInfo{offsetof(TM, endItem) + offsetof(TM::Item, key), offsetof(TM, endItem) + offsetof(TM::Item, value)};
  sents[KU] = SentInfo{offsetof(TU, endItem) + offsetof(TU::Item, key), offsetof(TU, endItem) + offsetof(TU::Item, value)};
  sents[KH] = SentInfo{offsetof(TH, endItem) + offsetof(TH::Item, key), offsetof(TH, endItem) + offsetof(TH::Item, value)};
  sents[KS] = SentInfo{offsetof(TS, endItem) + offsetof(TS::Item, key), NONE};
  sents[KP] = SentInfo{NONE, NONE};
  sents[KQ] = SentInfo{offsetof(TQ, endItem) + offsetof(TQ::Item, key), offsetof(TQ, endItem) + offsetof(TQ::Item, value)};
  static_assert(sizeof(TA) <= VARSZ && sizeof(TL) <= VARSZ && sizeof(TM) <= VARSZ && sizeof(TU) <= VARSZ && sizeof(TH) <= VARSZ &&
                sizeof(TS) <= VARSZ && sizeof(TP) <= VARSZ && sizeof(TQ) <= VARSZ, "variable storage too small");
}

static void destroyVar(int k, int v)
{
  if(!varLive[k][v]) return;
  varLive[k][v] = false;
  curKind = k; curVar = v;
  switch(k)
  {
  case KA: V<TA>(k, v).~TA(); break;
  case KL: V<TL>(k, v).~TL(); break;
  case KM: V<TM>(k, v).~TM(); break;
  case KU: V<TU>(k, v).~TU(); break;
  case KH: V<TH>(k, v).~TH(); break;
  case KS: V<TS>(k, v).~TS(); break;
  case KP: V<TP>(k, v).~TP(); break;
  case KQ: V<TQ>(k, v).~TQ(); break;
  }
}
static void createVar(int k, int v)
{
  curKind = k; curVar = v;
  void* p = varStorage[k][v];
  memset(p, 0xAA, VARSZ);
  switch(k)
  {
  case KA: new(p) TA; break;
  case KL: new(p) TL; break;
  case KM: new(p) TM; break;
  case KU: new(p) TU; break;
  case KH: new(p) TH; break;
  case KS: new(p) TS; break;
  case KP: new(p) TP; break;
  case KQ: new(p) TQ; break;
  }
  varLive[k][v] = true;
}

// ---- C05: iterators saved when an element object was first seen ---------------------------------------
template<class C> struct IterReg
{
  struct E { unsigned serial; typename C::Iterator it; const void* addr; int ident; };   // ident: the logical identity (key; value payload for the lists) the object had when first seen
  E e[4096];
  unsigned n;
  E* find(unsigned serial) { for(unsigned i = 0; i < n; ++i) if(e[i].serial == serial) return &e[i]; return 0; }
  void add(unsigned serial, const typename C::Iterator& it, const void* addr, int ident)
  {
    if(n >= 4096) { fprintf(stderr, "iterator registry overflow\n"); abort(); }
    e[n].serial = serial; e[n].it = it; e[n].addr = addr; e[n].ident = ident; ++n;
  }
  // forget the iterators of objects that are gone
  void sweep()
  {
    unsigned m = 0;
    for(unsigned i = 0; i < n; ++i)
    {
      Rec* r = recFind(e[i].addr);
      if(r && r->serial == e[i].serial) e[m++] = e[i];
    }
    n = m;
  }
};
static IterReg<TL> regL; static IterReg<TM> regM; static IterReg<TU> regU; static IterReg<TH> regH;
static IterReg<TS> regS; static IterReg<TP> regP; static IterReg<TQ> regQ;

// flag of one element object: its address must be the one in the ledger under its serial, and the object must still
// stand for the same logical element (`ident` = key of the item; payload for List / PoolList, where only the harness's own
// `set` changes it): an element whose key/value was ASSIGNED into another node has moved, even though no object was constructed
template<class C> static char flagOf(IterReg<C>& reg, const typename C::Iterator& it, const Obj* o, int ident)
{
  Rec* r = recFind(o);
  if(!r || r->serial != o->serial) return 'm';
  if(o->serial >= opSerialStart)
  {
    if(!reg.find(o->serial)) reg.add(o->serial, it, o, ident);
    return 'n';
  }
  typename IterReg<C>::E* e = reg.find(o->serial);
  if(!e) { reg.add(o->serial, it, o, ident); return 's'; }   // first observation of an object that predates the registry
  if(e->addr != o || e->it != it || e->ident != ident) return 'm';
  return 's';
}
static char both(char a, char b) { return a == b ? a : 'm'; }

// ---- observation ---------------------------------------------------------------------------
static void putElem(bool& first) { if(!first) fputc(' ', stdout); first = false; }

template<class C, class F> static void walk(C& c, F f)
{
  bool first = true;
  usize n = 0;
  for(typename C::Iterator i = c.begin(), end = c.end(); i != end; ++i, ++n)
  {
    putElem(first);
    f(c, i);
    if(n > 100000) { printf(" ...cycle"); break; }
  }
  if(first) fputc('-', stdout);
  if(n != c.size()) printf(" size-mismatch:%lu", (unsigned long)c.size());
}

static void showVar(int k, int v)
{
  switch(k)
  {
  case KA: { TA& a = V<TA>(k, v); printf("%lu/", (unsigned long)a.capacity()); bool first = true;
             for(usize i = 0; i < a.size(); ++i) { putElem(first); printf("%d", ((Tracked*)a)[i].read()); } if(first) fputc('-', stdout); } break;
  // C05: the element must also be what find(key) designates (unique-key containers)
  case KL: walk(V<TL>(k, v), [](TL&, TL::Iterator& i) { printf("%d", (*i).read()); if(modeC05) fputc(flagOf(regL, i, &*i, (*i).read()), stdout); }); break;
  case KM: walk(V<TM>(k, v), [](TM& c, TM::Iterator& i) { printf("%d:%d", i.key().read(), (*i).read()); if(modeC05) fputc(c.find(i.key()) != i ? 'm' : both(flagOf(regM, i, &i.key(), i.key().read()), flagOf(regM, i, &*i, i.key().read())), stdout); }); break;
  case KU: walk(V<TU>(k, v), [](TU&, TU::Iterator& i) { printf("%d:%d", i.key().read(), (*i).read()); if(modeC05) fputc(both(flagOf(regU, i, &i.key(), i.key().read()), flagOf(regU, i, &*i, i.key().read())), stdout); }); break;
  case KH: walk(V<TH>(k, v), [](TH& c, TH::Iterator& i) { printf("%d:%d", i.key().read(), (*i).read()); if(modeC05) fputc(c.find(i.key()) != i ? 'm' : both(flagOf(regH, i, &i.key(), i.key().read()), flagOf(regH, i, &*i, i.key().read())), stdout); }); break;
  case KS: walk(V<TS>(k, v), [](TS& c, TS::Iterator& i) { printf("%d", (*i).read()); if(modeC05) fputc(c.find(*i) != i ? 'm' : flagOf(regS, i, &*i, (*i).read()), stdout); }); break;
  case KP: walk(V<TP>(k, v), [](TP&, TP::Iterator& i) { printf("%d", (*i).read()); if(modeC05) fputc(flagOf(regP, i, &*i, (*i).read()), stdout); }); break;
  case KQ: walk(V<TQ>(k, v), [](TQ& c, TQ::Iterator& i) { printf("%d:%d", i.key().read(), (*i).read()); if(modeC05) fputc(c.find(i.key()) != i ? 'm' : both(flagOf(regQ, i, &i.key(), i.key().read()), flagOf(regQ, i, &*i, i.key().read())), stdout); }); break;
  }
}

static void observe(int k)
{
  int saved = curKind;
  curKind = -1;
  fputc(KLETTER[k], stdout);
  fputc(' ', stdout);
  showVar(k, 0);
  printf(" | ");
  showVar(k, 1);
  if(modeC05)
  {
    regL.sweep(); regM.sweep(); regU.sweep(); regH.sweep(); regS.sweep(); regP.sweep(); regQ.sweep();
    printf(" # u=%lu dd=%lu ov=%lu as=%lu cp=%lu", nUad, nDd + nDoubleFree, nOvr, opAssigns, opCopies);
  }
  else
    printf(" # c=%lu d=%lu live=%lu u=%lu dd=%lu ov=%lu b=%u t=%lu # %s", nCtor, nDtor, liveObjects(), nUad, nDd + nDoubleFree, nOvr,
           liveBlocks, nTmpCtor - nTmpDtor, evlen ? evlog : "-");
  curKind = saved;
  hxEndLine();
}

static void destroyAll()
{
  for(int k = 0; k < NKIND; ++k)
    for(int v = 0; v < 2; ++v)
      destroyVar(k, v);
  curKind = -1;
}
static void createAll()
{
  for(int k = 0; k < NKIND; ++k)
    for(int v = 0; v < 2; ++v)
      createVar(k, v);
  curKind = -1;
}
static void resetAll()
{
  destroyAll();
  memset(recs, 0, sizeof(recs));
  recUsed = 0;
  nBlocks = nextBlockId = liveBlocks = nDoubleFree = 0;
  nCtor = nDtor = nUad = nDd = nOvr = nTmpCtor = nTmpDtor = 0;
  nextSerial = 0;
  regL.n = regM.n = regU.n = regH.n = regS.n = regP.n = regQ.n = 0;
  evlen = 0; evlog[0] = 0;
  createAll();
}

template<class C> static typename C::Iterator at(C& c, usize i)
{
  typename C::Iterator it = c.begin();
  for(; i > 0; --i) ++it;
  return it;
}

static void bad() { printf("bad-op"); hxEndLine(); }

#define OP(name, n) (hxIs(l, name, n))
#define NEED(c) if(!(c)) { bad(); continue; }

int main(int argc, char** argv)
{
  modeC05 = argc > 1 && strcmp(argv[1], "C05") == 0;
  setupKinds();
  HxLine l;
  resetAll();
  while(hxRead(l))
  {
    evlen = 0; evlog[0] = 0;
    curKind = -1;
    opAssigns = opCopies = 0;
    opSerialStart = nextSerial;
    if(OP("reset", 0)) { resetAll(); printf("reset"); hxEndLine(); continue; }
    if(OP("destroyall", 0))
    {
      destroyAll();
      if(modeC05) printf("end # u=%lu dd=%lu ov=%lu as=%lu cp=%lu", nUad, nDd + nDoubleFree, nOvr, opAssigns, opCopies);
      else printf("end # c=%lu d=%lu live=%lu u=%lu dd=%lu ov=%lu b=%u t=%lu # %s", nCtor, nDtor, liveObjects(), nUad, nDd + nDoubleFree, nOvr,
                  liveBlocks, nTmpCtor - nTmpDtor, evlen ? evlog : "-");
      hxEndLine();
      evlen = 0; evlog[0] = 0;
      createAll();
      continue;
    }
    const char* op = l.tok[0];
    const char* kp = op[0] && op[1] == '.' ? strchr(KLETTER, op[0]) : 0;
    if(!kp || l.ntok < 2) { bad(); continue; }
    int k = (int)(kp - KLETTER);
    unsigned long a1 = hxNum(l, 1), a2 = l.ntok > 2 ? hxNum(l, 2) : 0, a3 = l.ntok > 3 ? hxNum(l, 3) : 0, a4 = l.ntok > 4 ? hxNum(l, 4) : 0;
    if(a1 > 1) { bad(); continue; }
    int v = (int)a1;
    curVar = v;
    op += 2;
#define IS(name, n) (l.ntok == (n) + 1 && strcmp(op, name) == 0)
    curKind = k;
    // ---- operations common to several kinds -------------------------------------------------------
    if(IS("new", 1)) { destroyVar(k, v); createVar(k, v); }
    else if(IS("copy", 2) && k != KP && k != KQ)
    {
      NEED(a2 <= 1 && a2 != a1);
      int w = (int)a2;
      destroyVar(k, v);
      void* p = varStorage[k][v];
      memset(p, 0xAA, VARSZ);
      switch(k)
      {
      case KA: new(p) TA(V<TA>(k, w)); break;
      case KL: new(p) TL(V<TL>(k, w)); break;
      case KM: new(p) TM(V<TM>(k, w)); break;
      case KU: new(p) TU(V<TU>(k, w)); break;
      case KH: new(p) TH(V<TH>(k, w)); break;
      case KS: new(p) TS(V<TS>(k, w)); break;
      }
      varLive[k][v] = true;
    }
    else if(IS("assign", 2) && k != KP && k != KQ)
    {
      NEED(a2 <= 1);
      int w = (int)a2;
      switch(k)
      {
      case KA: V<TA>(k, v) = V<TA>(k, w); break;
      case KL: V<TL>(k, v) = V<TL>(k, w); break;
      case KM: V<TM>(k, v) = V<TM>(k, w); break;
      case KU: if(!AssignIf<CanAssign<TU>::value>::run(V<TU>(k, v), V<TU>(k, w))) { curKind = -1; printf("not-assignable"); hxEndLine(); continue; } break;
      case KH: V<TH>(k, v) = V<TH>(k, w); break;
      case KS: V<TS>(k, v) = V<TS>(k, w); break;
      }
    }
    else if(IS("swap", 2) && k != KM && k != KU)
    {
      NEED(a2 <= 1);
      int w = (int)a2;
      switch(k)
      {
      case KA: V<TA>(k, v).swap(V<TA>(k, w)); break;
      case KL: V<TL>(k, v).swap(V<TL>(k, w)); break;
      case KH: V<TH>(k, v).swap(V<TH>(k, w)); break;
      case KS: V<TS>(k, v).swap(V<TS>(k, w)); break;
      case KP: V<TP>(k, v).swap(V<TP>(k, w)); break;
      case KQ: V<TQ>(k, v).swap(V<TQ>(k, w)); break;
      }
    }
    else if(IS("clear", 1))
    {
      switch(k)
      {
      case KA: V<TA>(k, v).clear(); break;
      case KL: V<TL>(k, v).clear(); break;
      case KM: V<TM>(k, v).clear(); break;
      case KU: V<TU>(k, v).clear(); break;
      case KH: V<TH>(k, v).clear(); break;
      case KS: V<TS>(k, v).clear(); break;
      case KP: V<TP>(k, v).clear(); break;
      case KQ: V<TQ>(k, v).clear(); break;
      }
    }
    else if((IS("removefront", 1) || IS("removeback", 1)))
    {
      bool front = op[6] == 'f';
      usize n = 0;
      switch(k)
      {
      case KA: n = V<TA>(k, v).size(); break; case KL: n = V<TL>(k, v).size(); break; case KM: n = V<TM>(k, v).size(); break;
      case KU: n = V<TU>(k, v).size(); break; case KH: n = V<TH>(k, v).size(); break; case KS: n = V<TS>(k, v).size(); break;
      case KP: n = V<TP>(k, v).size(); break; case KQ: n = V<TQ>(k, v).size(); break;
      }
      NEED(n > 0);
      switch(k)
      {
      case KA: if(front) V<TA>(k, v).removeFront(); else V<TA>(k, v).removeBack(); break;
      case KL: if(front) V<TL>(k, v).removeFront(); else V<TL>(k, v).removeBack(); break;
      case KM: if(front) V<TM>(k, v).removeFront(); else V<TM>(k, v).removeBack(); break;
      case KU: if(front) V<TU>(k, v).removeFront(); else V<TU>(k, v).removeBack(); break;
      case KH: if(front) V<TH>(k, v).removeFront(); else V<TH>(k, v).removeBack(); break;
      case KS: if(front) V<TS>(k, v).removeFront(); else V<TS>(k, v).removeBack(); break;
      case KP: if(front) V<TP>(k, v).removeFront(); else V<TP>(k, v).removeBack(); break;
      case KQ: if(front) V<TQ>(k, v).removeFront(); else V<TQ>(k, v).removeBack(); break;
      }
    }
    else if(IS("newcap", 2) && (k == KA || k == KH || k == KS || k == KQ))
    {
      destroyVar(k, v);
      void* p = varStorage[k][v];
      memset(p, 0xAA, VARSZ);
      switch(k)
      {
      case KA: new(p) TA((usize)a2); break;
      case KH: new(p) TH((usize)a2); break;
      case KS: new(p) TS((usize)a2); break;
      case KQ: new(p) TQ((usize)a2); break;
      }
      varLive[k][v] = true;
    }
    // ---- Array ---------------------------------------------------------------------------------
    else if(k == KA)
    {
      TA& a = V<TA>(k, v);
      if(IS("append", 2)) { Tracked t((int)a2); a.append(t); }
      else if(IS("appendref", 2)) { NEED(a2 < a.size()); a.append(((Tracked*)a)[a2]); }
      else if(IS("appendarr", 2)) { NEED(a2 <= 1); a.append(V<TA>(k, (int)a2)); }
      else if(IS("appendptr", 3)) { NEED(a2 + a3 <= a.size()); a.append((const Tracked*)a + a2, (usize)a3); }
      else if(IS("resize", 3)) { Tracked t((int)a3); a.resize((usize)a2, t); }
      else if(IS("resizeref", 3)) { NEED(a3 < a.size()); a.resize((usize)a2, ((Tracked*)a)[a3]); }
      else if(IS("reserve", 2)) a.reserve((usize)a2);
      else if(IS("remove", 2)) a.remove((usize)a2);
      else if(IS("removeit", 2)) { NEED(a2 < a.size()); a.remove(at(a, (usize)a2)); }
      else if(IS("set", 3)) { NEED(a2 < a.size()); Tracked t((int)a3); ((Tracked*)a)[a2] = t; }
      else { bad(); continue; }
    }
    // ---- List ----------------------------------------------------------------------------------
    else if(k == KL)
    {
      TL& c = V<TL>(k, v);
      if(IS("append", 2)) { Tracked t((int)a2); c.append(t); }
      else if(IS("prepend", 2)) { Tracked t((int)a2); c.prepend(t); }
      else if(IS("insert", 3)) { NEED(a2 <= c.size()); Tracked t((int)a3); c.insert(at(c, a2), t); }
      else if(IS("appendref", 2)) { NEED(a2 < c.size()); c.append(*at(c, a2)); }
      else if(IS("prependref", 2)) { NEED(a2 < c.size()); c.prepend(*at(c, a2)); }
      else if(IS("insertref", 3)) { NEED(a2 <= c.size() && a3 < c.size()); c.insert(at(c, a2), *at(c, a3)); }
      else if(IS("appendlist", 2)) { NEED(a2 <= 1); c.append(V<TL>(k, (int)a2)); }
      else if(IS("prependlist", 2)) { NEED(a2 <= 1); c.prepend(V<TL>(k, (int)a2)); }
      else if(IS("insertlist", 3)) { NEED(a2 <= c.size() && a3 <= 1); c.insert(at(c, a2), V<TL>(k, (int)a3)); }
      else if(IS("remove", 2)) { NEED(a2 < c.size()); c.remove(at(c, a2)); }
      else if(IS("removeval", 2)) { Tracked t((int)a2); c.remove(t); }
      else if(IS("removevalref", 2)) { NEED(a2 < c.size()); c.remove(*at(c, a2)); }
      else if(IS("set", 3))
      {
        NEED(a2 < c.size());
        Tracked t((int)a3);
        TL::Iterator it = at(c, a2);
        *it = t;
        if(IterReg<TL>::E* e = regL.find((*it).serial)) e->ident = (int)a3;   // the caller overwrote the element: same object, new payload
      }
      else if(IS("sort", 1) || IS("sortwith", 3))
      {
        if(op[4] == 'w') { NEED(a2 <= 24); orcLeft = (int)a2; orcBits = a3; }
        c.sort();
        orcLeft = 0;
        // the caller asked for the values to be permuted: same objects, new payloads
        for(TL::Iterator i = c.begin(), end = c.end(); i != end; ++i)
          if(IterReg<TL>::E* e = regL.find((*i).serial)) e->ident = (*i).payload;
      }
      else { bad(); continue; }
    }
    // ---- Map -----------------------------------------------------------------------------------
    else if(k == KM)
    {
      TM& c = V<TM>(k, v);
      if(IS("insert", 3)) { Tracked tk((int)a2), tv((int)a3); c.insert(tk, tv); }
      else if(IS("inserthint", 4)) { NEED(a2 <= c.size()); Tracked tk((int)a3), tv((int)a4); c.insert(at(c, a2), tk, tv); }
      else if(IS("insertref", 3)) { NEED(a3 < c.size()); Tracked tk((int)a2); c.insert(tk, *at(c, a3)); }
      else if(IS("insertmap", 2)) { NEED(a2 <= 1); c.insert(V<TM>(k, (int)a2)); }
      else if(IS("remove", 2)) { Tracked tk((int)a2); c.remove(tk); }
      else if(IS("removeat", 2)) { NEED(a2 < c.size()); c.remove(at(c, a2)); }
      else if(IS("set", 3)) { NEED(a2 < c.size()); Tracked t((int)a3); *at(c, a2) = t; }
      else { bad(); continue; }
    }
    // ---- MultiMap ------------------------------------------------------------------------------
    else if(k == KU)
    {
      TU& c = V<TU>(k, v);
      if(IS("insert", 3)) { Tracked tk((int)a2), tv((int)a3); c.insert(tk, tv); }
      else if(IS("insertref", 3)) { NEED(a3 < c.size()); Tracked tk((int)a2); c.insert(tk, *at(c, a3)); }
      else if(IS("inserthint", 4))
      { // every case but one: key not below the hinted item and equal to the key of its successor (then the landing place inside
        // the run of equal keys depends on the size of the hinted node's right subtree)
        NEED(a2 <= c.size());
        if(a2 + 1 < c.size())
        {
          TU::Iterator p = at(c, a2), nx = at(c, a2 + 1);
          NEED(!(p.key().read() <= (int)a3 && nx.key().read() == (int)a3));
        }
        Tracked tk((int)a3), tv((int)a4);
        c.insert(at(c, a2), tk, tv);
      }
      else if(IS("remove", 2)) { Tracked tk((int)a2); c.remove(tk); }   // the first of the equal keys (find as repaired by area Avl)
      else if(IS("removeat", 2)) { NEED(a2 < c.size()); c.remove(at(c, a2)); }
      else if(IS("set", 3)) { NEED(a2 < c.size()); Tracked t((int)a3); *at(c, a2) = t; }
      else { bad(); continue; }
    }
    // ---- HashMap -------------------------------------------------------------------------------
    else if(k == KH)
    {
      TH& c = V<TH>(k, v);
      if(IS("append", 3)) { Tracked tk((int)a2), tv((int)a3); c.append(tk, tv); }
      else if(IS("prepend", 3)) { Tracked tk((int)a2), tv((int)a3); c.prepend(tk, tv); }
      else if(IS("insert", 4)) { NEED(a2 <= c.size()); Tracked tk((int)a3), tv((int)a4); c.insert(at(c, a2), tk, tv); }
      else if(IS("appendref", 3)) { NEED(a3 < c.size()); Tracked tk((int)a2); c.append(tk, *at(c, a3)); }
      else if(IS("remove", 2)) { Tracked tk((int)a2); c.remove(tk); }
      else if(IS("removeat", 2)) { NEED(a2 < c.size()); c.remove(at(c, a2)); }
      else if(IS("set", 3)) { NEED(a2 < c.size()); Tracked t((int)a3); *at(c, a2) = t; }
      else { bad(); continue; }
    }
    // ---- HashSet -------------------------------------------------------------------------------
    else if(k == KS)
    {
      TS& c = V<TS>(k, v);
      if(IS("append", 2)) { Tracked tk((int)a2); c.append(tk); }
      else if(IS("prepend", 2)) { Tracked tk((int)a2); c.prepend(tk); }
      else if(IS("insert", 3)) { NEED(a2 <= c.size()); Tracked tk((int)a3); c.insert(at(c, a2), tk); }
      else if(IS("appendref", 2)) { NEED(a2 < c.size()); c.append(*at(c, a2)); }
      else if(IS("appendset", 2)) { NEED(a2 <= 1); c.append(V<TS>(k, (int)a2)); }
      else if(IS("remove", 2)) { Tracked tk((int)a2); c.remove(tk); }
      else if(IS("removeref", 2)) { NEED(a2 < c.size()); c.remove(*at(c, a2)); }
      else if(IS("removeset", 2)) { NEED(a2 <= 1); c.remove(V<TS>(k, (int)a2)); }
      else if(IS("removeat", 2)) { NEED(a2 < c.size()); c.remove(at(c, a2)); }
      else { bad(); continue; }
    }
    // ---- PoolList ------------------------------------------------------------------------------
    else if(k == KP)
    {
      TP& c = V<TP>(k, v);
      if(IS("append", 2)) c.append((int)a2);
      else if(IS("append0", 1)) c.append();
      else if(IS("remove", 2)) { NEED(a2 < c.size()); c.remove(at(c, a2)); }
      else if(IS("removeref", 2)) { NEED(a2 < c.size()); c.remove(*at(c, a2)); }
      else if(IS("append2", 3)) c.append((int)a2, (int)a3);
      else if(IS("appendn", 3))
      { // PoolList::append with 3..7 constructor arguments (x, 1, 1, ...)
        int x = (int)a3;
        switch(a2)
        {
        case 3: c.append(x, 1, 1); break;
        case 4: c.append(x, 1, 1, 1); break;
        case 5: c.append(x, 1, 1, 1, 1); break;
        case 6: c.append(x, 1, 1, 1, 1, 1); break;
        case 7: c.append(x, 1, 1, 1, 1, 1, 1); break;
        default: bad(); continue;
        }
      }
      else if(IS("removechain", 3))
      { // remove(element a2), whose destructor removes element a3 of the same pool
        NEED(a2 < c.size() && a3 < c.size() && a2 != a3);
        TP::Iterator it = at(c, a2);
        chainP = &c; chainTarget = &*at(c, a3); chainFn = chainRemoveP; chainOwner = &*it;
        c.remove(it);
        chainOwner = 0;
      }
      else { bad(); continue; }
    }
    // ---- PoolMap -------------------------------------------------------------------------------
    else
    {
      TQ& c = V<TQ>(k, v);
      if(IS("append", 3))
      {
        Tracked tk((int)a2);
        usize before = c.size();
        Fixed& f = c.append(tk);
        if(c.size() != before) { f.payload = (int)a3; *f.cell = f.payload; }   // the caller fills the element in place
      }
      else if(IS("remove", 2)) { Tracked tk((int)a2); c.remove(tk); }
      else if(IS("removeat", 2)) { NEED(a2 < c.size()); c.remove(at(c, a2)); }
      else if(IS("removeref", 2)) { NEED(a2 < c.size()); c.remove(*at(c, a2)); }
      else if(IS("prepend", 3) || IS("insert", 4))
      { // PoolMap::insert(position, key)
        bool pre = op[0] == 'p';
        usize pos = pre ? 0 : (usize)a2;
        NEED(pos <= c.size());
        Tracked tk((int)(pre ? a2 : a3));
        usize before = c.size();
        TQ::Iterator it = c.insert(at(c, pos), tk);
        if(c.size() != before) { Fixed& f = *it; f.payload = (int)(pre ? a3 : a4); *f.cell = f.payload; }
      }
      else if(IS("removechain", 3))
      { // remove(item a2); the destructor of its key object removes item a3 of the same pool
        NEED(a2 < c.size() && a3 < c.size() && a2 != a3);
        TQ::Iterator it = at(c, a2);
        chainQ = &c; chainTarget = &*at(c, a3); chainFn = chainRemoveQ; chainOwner = &it.key();
        c.remove(it);
        chainOwner = 0;
      }
      else { bad(); continue; }
    }
    curKind = -1;
    observe(k);
  }
  return 0;
}
