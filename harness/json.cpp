// Line-protocol harness for Json (property C15).  Executes the op lines of
// lean/Nstd/Json/Driver.lean on the real src/Document/Json.cpp.
//
//   parse <hex>   ->  ok <dump> | err <line> <col>          (text = the bytes + NUL, exactly sized heap copy)
//   strip <hex>   ->  <hex of Json::stripComments>
//   tostr <dump>  ->  <hex of Json::toString>     (tostr only: also u<dec> uint, U<dec> uint64, <V,...> Array<Variant>)
//   tostr D<hex>  ->  dbl | <hex>                  (double made from the number text: "dbl" when the output is -?digits.6digits)
//   rt <dump>     ->  ok <dump of parse(toString(v))> <v' == v> | err <line> <col>
//   parseinto <dump> <hex> -> ok <dump> | err <line> <col>    (Parser::parse into a Variant that already holds <dump>)
//
// dump grammar (one token, no blanks):
//   V ::= n | t | f | d | i<dec> | l<dec> | s<hex> | [V,V,...] | {<hex>:V,<hex>:V,...}      (<hex> = "-" when empty)
//   d = some double (floats are never compared), i = 32-bit int, l = 64-bit int.
#include "common/hx.h"
#include <unistd.h>
#include <limits.h>
#include <errno.h>
#include <stdarg.h>
#include <nstd/Debug.hpp>
#include <nstd/Error.hpp>
#include <nstd/Document/Json.hpp>

// the library's ASSERTs stay enabled; a failing one prints here (Debug.cpp itself would pull in Process)
int Debug::printf(const char* format, ...)
{
  va_list ap;
  va_start(ap, format);
  fputs("ERROR: nstd ", stderr);
  vfprintf(stderr, format, ap);
  va_end(ap);
  return 1;
}

// ---------------------------------------------------------------- output buffer (documents can be deep)
static char* ob;
static size_t obLen, obCap;
static void obPut(char c)
{
  if(obLen + 1 >= obCap)
  {
    obCap = obCap ? obCap * 2 : 4096;
    ob = (char*)realloc(ob, obCap);
  }
  ob[obLen++] = c;
}
static void obStr(const char* s) { while(*s) obPut(*s++); }
static void obHex(const void* data, size_t len)
{
  static const char* d = "0123456789abcdef";
  const unsigned char* p = (const unsigned char*)data;
  if(len == 0) { obPut('-'); return; }
  for(size_t i = 0; i < len; ++i) { obPut(d[p[i] >> 4]); obPut(d[p[i] & 15]); }
}
static void obFlush()
{
  fwrite(ob, 1, obLen, stdout);
  obLen = 0;
  hxEndLine();
}

static void dump(const Variant& v)
{
  char num[40];
  switch(v.getType())
  {
  case Variant::nullType: obPut('n'); return;
  case Variant::boolType: obPut(v.toBool() ? 't' : 'f'); return;
  case Variant::doubleType: obPut('d'); return;
  case Variant::intType: snprintf(num, sizeof(num), "i%d", v.toInt()); obStr(num); return;
  case Variant::int64Type: snprintf(num, sizeof(num), "l%lld", (long long)v.toInt64()); obStr(num); return;
  case Variant::uintType: snprintf(num, sizeof(num), "u%u", v.toUInt()); obStr(num); return;
  case Variant::uint64Type: snprintf(num, sizeof(num), "U%llu", (unsigned long long)v.toUInt64()); obStr(num); return;
  case Variant::stringType:
    {
      String s = v.toString();
      obPut('s');
      obHex((const char*)s, s.length());
      return;
    }
  case Variant::listType:
    {
      const List<Variant>& l = v.toList();
      obPut('[');
      bool first = true;
      for(List<Variant>::Iterator i = l.begin(), end = l.end(); i != end; ++i)
      {
        if(!first) obPut(',');
        first = false;
        dump(*i);
      }
      obPut(']');
      return;
    }
  case Variant::arrayType:
    {
      const Array<Variant>& l = v.toArray();
      obPut('<');
      for(usize i = 0; i < l.size(); ++i)
      {
        if(i) obPut(',');
        dump(l[i]);
      }
      obPut('>');
      return;
    }
  case Variant::mapType:
    {
      const HashMap<String, Variant>& m = v.toMap();
      obPut('{');
      bool first = true;
      for(HashMap<String, Variant>::Iterator i = m.begin(), end = m.end(); i != end; ++i)
      {
        if(!first) obPut(',');
        first = false;
        obHex((const char*)i.key(), i.key().length());
        obPut(':');
        dump(*i);
      }
      obPut('}');
      return;
    }
  }
  obPut('?');
}

// ---------------------------------------------------------------- reading a dump into a Variant
static bool isHexCh(char c) { return hxNib(c) >= 0; }

static bool readHexString(const char*& p, String& out)
{
  if(*p == '-') { ++p; out = String(); return true; }
  const char* s = p;
  while(isHexCh(*p)) ++p;
  size_t n = p - s;
  if(n == 0 || n % 2) return false;
  char* b = (char*)malloc(n / 2);
  for(size_t i = 0; i < n / 2; ++i) b[i] = (char)(hxNib(s[2 * i]) * 16 + hxNib(s[2 * i + 1]));
  out = String(b, n / 2);
  free(b);
  return true;
}

static bool readDec(const char*& p, long long lo, long long hi, long long& out)
{
  const char* s = p;
  if(*p == '-') ++p;
  if(*p < '0' || *p > '9') return false;
  while(*p >= '0' && *p <= '9') ++p;
  if(p - s > 20) return false;
  char tmp[32];
  memcpy(tmp, s, p - s);
  tmp[p - s] = 0;
  errno = 0;
  out = strtoll(tmp, 0, 10);
  if(errno || out < lo || out > hi) return false;
  return true;
}

static bool extKinds; // tostr only: u<dec>, U<dec>, <V,...>

static bool readUDec(const char*& p, unsigned long long hi, unsigned long long& out)
{
  const char* s = p;
  if(*p < '0' || *p > '9') return false;
  while(*p >= '0' && *p <= '9') ++p;
  if(p - s > 20 || (p - s > 1 && *s == '0')) return false;
  char tmp[32];
  memcpy(tmp, s, p - s);
  tmp[p - s] = 0;
  errno = 0;
  out = strtoull(tmp, 0, 10);
  if(errno || out > hi) return false;
  return true;
}

static bool readValue(const char*& p, Variant& out)
{
  long long n;
  unsigned long long un;
  switch(*p)
  {
  case 'u': if(!extKinds) return false; ++p; if(!readUDec(p, UINT_MAX, un)) return false; out = Variant((uint)un); return true;
  case 'U': if(!extKinds) return false; ++p; if(!readUDec(p, ULLONG_MAX, un)) return false; out = Variant((uint64)un); return true;
  case '<':
    {
      if(!extKinds) return false;
      ++p;
      Array<Variant> a;
      if(*p == '>') { ++p; out = Variant(a); return true; }
      for(;;)
      {
        Variant e;
        if(!readValue(p, e)) return false;
        a.append(e);
        if(*p == ',') { ++p; continue; }
        if(*p == '>') { ++p; break; }
        return false;
      }
      out = Variant(a);
      return true;
    }
  case 'n': ++p; out = Variant(); return true;
  case 't': ++p; out = Variant(true); return true;
  case 'f': ++p; out = Variant(false); return true;
  case 'i': ++p; if(!readDec(p, INT_MIN, INT_MAX, n)) return false; out = Variant((int)n); return true;
  case 'l': ++p; if(!readDec(p, LLONG_MIN, LLONG_MAX, n)) return false; out = Variant((int64)n); return true;
  case 's':
    {
      ++p;
      String s;
      if(!readHexString(p, s)) return false;
      out = Variant(s);
      return true;
    }
  case '[':
    {
      ++p;
      List<Variant> l;
      if(*p == ']') { ++p; out = Variant(l); return true; }
      for(;;)
      {
        Variant e;
        if(!readValue(p, e)) return false;
        l.append(e);
        if(*p == ',') { ++p; continue; }
        if(*p == ']') { ++p; break; }
        return false;
      }
      out = Variant(l);
      return true;
    }
  case '{':
    {
      ++p;
      HashMap<String, Variant> m;
      if(*p == '}') { ++p; out = Variant(m); return true; }
      for(;;)
      {
        String k;
        Variant e;
        if(!readHexString(p, k)) return false;
        if(*p != ':') return false;
        ++p;
        if(!readValue(p, e)) return false;
        m.append(k, e);
        if(*p == ',') { ++p; continue; }
        if(*p == '}') { ++p; break; }
        return false;
      }
      out = Variant(m);
      return true;
    }
  }
  return false;
}

static bool readDump(const char* tok, Variant& out)
{
  const char* p = tok;
  return readValue(p, out) && *p == 0;
}

// every entry point of the API must give the result of a fresh Json::Parser on the exactly sized text:
// Parser::parse(const String&), a long-lived Parser that has parsed other texts before (no state leaks from
// one parse to the next), the static Json::parse(const char*) / Json::parse(const String&) and the error text
// they leave in Error ("Syntax error at line L, column C: <Parser::getErrorString()>").
static Json::Parser* sharedParser;

static void doParse(const char* text, const Variant* original)
{
  Json::Parser parser;
  Variant v;
  bool ok = parser.parse(text, v);
  size_t start = obLen;
  const char* mismatch = 0;
  char pos[64];
  snprintf(pos, sizeof(pos), "err %d %d", parser.getErrorLine(), parser.getErrorColumn());
  if(ok)
  {
    obStr("ok ");
    dump(v);
  }
  else
    obStr(pos);
  size_t len = obLen - start;
  {
    char* first = (char*)malloc(len + 1);
    memcpy(first, ob + start, len);
    for(int k = 0; k < 4 && !mismatch; ++k)
    {
      Variant w;
      bool ok2;
      int l2 = 0, c2 = 0;
      String text2(text, strlen(text)); // String copy of the text
      switch(k)
      {
      case 0: { Json::Parser q; ok2 = q.parse(text2, w); l2 = q.getErrorLine(); c2 = q.getErrorColumn(); } break;
      case 1:
        if(!sharedParser) sharedParser = new Json::Parser;
        ok2 = sharedParser->parse(text, w); l2 = sharedParser->getErrorLine(); c2 = sharedParser->getErrorColumn();
        break;
      case 2: ok2 = Json::parse(text, w); break;
      default: ok2 = Json::parse(text2, w); break;
      }
      size_t s2 = obLen;
      if(ok2) { obStr("ok "); dump(w); }
      else if(k < 2) { char num[64]; snprintf(num, sizeof(num), "err %d %d", l2, c2); obStr(num); }
      else
      {
        // the static functions report through Error
        char want[600];
        snprintf(want, sizeof(want), "Syntax error at line %d, column %d: %s", parser.getErrorLine(), parser.getErrorColumn(),
          (const char*)parser.getErrorString());
        String got = Error::getErrorString();
        if(ok || strcmp(want, (const char*)got) != 0) mismatch = "static-error-text";
        obLen = s2;
        continue;
      }
      if(obLen - s2 != len || memcmp(ob + s2, first, len) != 0)
        mismatch = k == 0 ? "Parser::parse(String)" : k == 1 ? "reused-Parser" : k == 2 ? "Json::parse(char*)" : "Json::parse(String)";
      obLen = s2;
    }
    free(first);
  }
  if(ok && original)
  {
    bool e = v == *original, n = v != *original;
    obStr(e == !n ? (e ? " 1" : " 0") : " inconsistent");
  }
  if(mismatch) { obStr(" api-mismatch:"); obStr(mismatch); }
  obFlush();
}

int main()
{
  static HxLine l;
  while(hxRead(l))
  {
    alarm(30); // watchdog: a hanging operation kills the harness (reported as a crash of that op line)
    if(hxIs(l, "reset", 0)) { obStr("ready"); obFlush(); }
    else if(hxIs(l, "parse", 1))
    {
      size_t len;
      char* text = hxCStr(l.tok[1], len); // exactly len + 1 bytes on the heap: ASan sees any read behind the NUL
      doParse(text, 0);
      free(text);
    }
    else if(hxIs(l, "parseinto", 2))
    {
      // parse into a Variant that already holds a value: lists / maps are appended to, anything else is replaced
      Variant v;
      extKinds = false;
      if(!readDump(l.tok[1], v)) { obStr("bad-op"); obFlush(); continue; }
      size_t len;
      char* text = hxCStr(l.tok[2], len);
      if(!text) { obStr("bad-op"); obFlush(); continue; }
      {
        Json::Parser parser;
        if(parser.parse(text, v)) { obStr("ok "); dump(v); }
        else
        {
          char pos[64];
          snprintf(pos, sizeof(pos), "err %d %d", parser.getErrorLine(), parser.getErrorColumn());
          obStr(pos);
        }
      }
      free(text);
      obFlush();
    }
    else if(hxIs(l, "strip", 1))
    {
      size_t len;
      char* text = hxCStr(l.tok[1], len);
      {
        String in;
        in.attach(text, len); // no copy: stripComments scans the exactly sized heap block (ASan sees a read behind the NUL)
        String out = Json::stripComments(in);
        obHex((const char*)out, out.length());
      }
      free(text);
      obFlush();
    }
    else if(hxIs(l, "tostr", 1) && l.tok[1][0] == 'D')
    {
      // a double made from the number text; observable: is the output of the form -?digits.dddddd (what "%f" gives for a finite value)
      const char* p = l.tok[1] + 1;
      String txt;
      if(!readHexString(p, txt) || *p) { obStr("bad-op"); obFlush(); continue; }
      String s = Json::toString(Variant(txt.toDouble()));
      const char* q = s;
      size_t n = s.length(), i = 0, digits = 0, frac = 0;
      if(i < n && q[i] == '-') ++i;
      while(i < n && q[i] >= '0' && q[i] <= '9') ++i, ++digits;
      bool shape = digits > 0 && i < n && q[i] == '.';
      if(shape) { ++i; while(i < n && q[i] >= '0' && q[i] <= '9') ++i, ++frac; }
      shape = shape && frac == 6 && i + 1 == n && q[i] == '\n';
      if(shape) obStr("dbl"); else obHex(q, n);
      obFlush();
    }
    else if(hxIs(l, "tostr", 1) || hxIs(l, "rt", 1))
    {
      Variant v;
      extKinds = l.tok[0][0] == 't';
      if(!readDump(l.tok[1], v)) { obStr("bad-op"); obFlush(); continue; }
      String s = Json::toString(v);
      if(l.tok[0][0] == 't')
      {
        obHex((const char*)s, s.length());
        obFlush();
      }
      else
      {
        // parse an exactly sized copy of the serialised text
        char* text = (char*)malloc(s.length() + 1);
        memcpy(text, (const char*)s, s.length());
        text[s.length()] = 0;
        doParse(text, &v);
        free(text);
      }
    }
    else if(hxIs(l, "tables", 0))
    {
      // probe for tools/gen_json.py: the escape tables by EXECUTION of the current code.
      //   e<c>=<hex of toString(String(1, c))>   for every byte c = 1..255
      //   u<e>=<dump of parse("\<e>A")> | err    for every byte e = 1..255 (escape letter)
      char num[16];
      obStr("tables");
      for(int c = 1; c < 256; ++c)
      {
        char ch = (char)c;
        String s = Json::toString(Variant(String(&ch, 1)));
        snprintf(num, sizeof(num), " e%d=", c);
        obStr(num);
        obHex((const char*)s, s.length());
      }
      for(int e = 1; e < 256; ++e)
      {
        char* text = (char*)malloc(6);
        text[0] = '"'; text[1] = '\\'; text[2] = (char)e; text[3] = 'A'; text[4] = '"'; text[5] = 0;
        Json::Parser parser;
        Variant v;
        snprintf(num, sizeof(num), " u%d=", e);
        obStr(num);
        if(parser.parse(text, v)) dump(v); else obStr("err");
        free(text);
      }
      obFlush();
    }
    else { obStr("bad-op"); obFlush(); }
  }
  return 0;
}
