// TEST (not part of the proof-level claim): uncontrolled stress run of the libnstd synchronisation
// primitives on REAL pthreads / glibc.  It guards the shim of the controlled-scheduler harness: if the
// simulated POSIX layer assumed something the real one does not provide (or the library behaved
// differently on the real layer), the contracts below would fail here.
//   usage: sync_stress <iterations>     prints one `ok <what> ...` line per block, `FAIL <what>` on a violation
#include <stdio.h>
#include <stdlib.h>
#include <time.h>
#include <nstd/Mutex.hpp>
#include <nstd/Semaphore.hpp>
#include <nstd/Signal.hpp>
#include <nstd/Monitor.hpp>
#include <nstd/Thread.hpp>
#include <nstd/Debug.hpp>
#include <stdarg.h>

int Debug::printf(const char* format, ...)
{
  va_list ap; va_start(ap, format); vfprintf(stderr, format, ap); va_end(ap);
  return 1;
}

static int iterations = 1000;
static int failures = 0;
static void fail(const char* what) { printf("FAIL %s\n", what); fflush(stdout); __atomic_add_fetch(&failures, 1, __ATOMIC_SEQ_CST); }
static long long nowMs() { struct timespec ts; clock_gettime(CLOCK_REALTIME, &ts); return ts.tv_sec * 1000LL + ts.tv_nsec / 1000000; }

// ---- Mutex: exclusion with re-entrancy and tryLock -------------------------------------------------
static Mutex* mtx; static volatile int inside; static volatile long counter; static long tryOk[4];
static uint mutexWorker(void* p)
{
  long id = (long)p;
  for(int i = 0; i < iterations; ++i)
  {
    bool got = true;
    if(i % 3 == 0) { got = mtx->tryLock(); if(got) ++tryOk[id]; } else mtx->lock();
    if(!got) { Thread::yield(); continue; }
    if(__atomic_add_fetch(&inside, 1, __ATOMIC_SEQ_CST) != 1) fail("mutex: two threads inside");
    mtx->lock();                                   // re-entrant for the owner
    if(!mtx->tryLock()) fail("mutex: tryLock by the owner failed"); else mtx->unlock();
    long c = counter; counter = c + 1;
    mtx->unlock();
    __atomic_sub_fetch(&inside, 1, __ATOMIC_SEQ_CST);
    mtx->unlock();
  }
  return 100 + (uint)id;
}

// ---- Semaphore: conservation ----------------------------------------------------------------------
static Semaphore* sem; static long semSignals, semWaits;
static uint semProducer(void*) { for(int i = 0; i < iterations; ++i) { __atomic_add_fetch(&semSignals, 1, __ATOMIC_SEQ_CST); sem->signal(); } return 1; }
static uint semConsumer(void* p)
{
  long mode = (long)p;
  for(int i = 0; i < iterations; ++i)
  {
    bool r = mode == 0 ? sem->wait() : mode == 1 ? sem->wait(1) : sem->tryWait();
    if(r)
    {
      long w = __atomic_add_fetch(&semWaits, 1, __ATOMIC_SEQ_CST);
      // signals are counted before signal() is called, successes after wait() returned
      if(w > 2 + __atomic_load_n(&semSignals, __ATOMIC_SEQ_CST)) fail("semaphore: more successful waits than initial + signals");
    }
  }
  return 2;
}

// ---- Signal: manual-reset event ------------------------------------------------------------------
static Signal* sig; static volatile int released;
static uint sigWaiter(void*) { if(!sig->wait()) fail("signal: wait returned false"); __atomic_add_fetch(&released, 1, __ATOMIC_SEQ_CST); return 3; }

// ---- Monitor ------------------------------------------------------------------------------------
static Monitor* mon; static long monSets, monWaits; static volatile bool monStop;
static uint monWaiter(void*)
{
  for(;;)
  {
    Monitor::Guard g(*mon);
    if(monStop) return 4;
    if(g.wait(20)) { long w = __atomic_add_fetch(&monWaits, 1, __ATOMIC_SEQ_CST); if(w > __atomic_load_n(&monSets, __ATOMIC_SEQ_CST)) fail("monitor: more successful waits than sets"); }
  }
}

int main(int argc, char** argv)
{
  if(argc > 1) iterations = atoi(argv[1]);
  {
    Mutex m; mtx = &m; Thread t[4];
    for(long i = 0; i < 4; ++i) if(!t[i].start(mutexWorker, (void*)i)) fail("thread: start");
    if(t[0].start(mutexWorker, 0)) fail("thread: second start succeeded");
    for(long i = 0; i < 4; ++i) if(t[i].join() != 100 + (uint)i) fail("thread: join result");
    if(t[0].join() != 0) fail("thread: join of a joined thread");
    long expected = 0;
    for(int id = 0; id < 4; ++id) for(int i = 0; i < iterations; ++i) if(i % 3 != 0) ++expected;
    for(int id = 0; id < 4; ++id) expected += tryOk[id];
    if(counter != expected) fail("mutex: lost update inside the critical section");
    printf("ok mutex+thread 4 threads x %d iterations, counter=%ld\n", iterations, counter);
  }
  {
    Semaphore s(2); sem = &s; Thread p1, p2, c0, c1, c2;
    c0.start(semConsumer, (void*)1); c1.start(semConsumer, (void*)1); c2.start(semConsumer, (void*)2);
    p1.start(semProducer, 0); p2.start(semProducer, 0);
    p1.join(); p2.join(); c0.join(); c1.join(); c2.join();
    long left = 0; while(s.tryWait()) ++left;
    if(semWaits + left != 2 + semSignals) fail("semaphore: count not conserved");
    printf("ok semaphore signals=%ld waits=%ld left=%ld\n", semSignals, semWaits, left);
  }
  {
    int rounds = iterations / 20 + 1;
    for(int r = 0; r < rounds; ++r)
    {
      Signal s; sig = &s; released = 0; Thread w[3];
      for(int i = 0; i < 3; ++i) w[i].start(sigWaiter, 0);
      long long t0 = nowMs();
      if(s.wait(3)) fail("signal: timed wait true on an unset signal");
      else if(nowMs() - t0 < 3) fail("signal: timed wait returned false before the time-out expired");
      s.set();
      for(int i = 0; i < 3; ++i) w[i].join();
      if(released != 3) fail("signal: set did not release all waiters");
      if(!s.wait() || !s.wait(0)) fail("signal: wait on a set signal");
      s.reset();
      if(s.wait(0)) fail("signal: wait(0) true after reset");
    }
    printf("ok signal %d rounds x 3 waiters\n", rounds);
  }
  {
    Monitor m; mon = &m; Thread w[2];
    for(int i = 0; i < 2; ++i) w[i].start(monWaiter, 0);
    for(int i = 0; i < iterations; ++i) { __atomic_add_fetch(&monSets, 1, __ATOMIC_SEQ_CST); m.set(); if(i % 64 == 0) Thread::sleep(1); }
    { long long t0 = nowMs(); Monitor m2; m2.lock(); bool r = m2.wait(3); m2.unlock();
      if(!r && nowMs() - t0 < 3) fail("monitor: timed wait returned false before the time-out expired"); }
    { Monitor::Guard g(m); monStop = true; }
    for(int i = 0; i < 2; ++i) w[i].join();
    if(monWaits > monSets) fail("monitor: more successful waits than sets");
    printf("ok monitor sets=%ld waits=%ld\n", monSets, monWaits);
  }
  { Semaphore s(0); long long t0 = nowMs(); if(s.wait(3)) fail("semaphore: timed wait true on 0"); else if(nowMs() - t0 < 3) fail("semaphore: timed wait false too early"); }
  printf(failures ? "FAILED %d\n" : "ok all\n", failures);
  return failures ? 1 : 0;
}
