// Controlled scheduler + simulated POSIX layer for the Future harness (property C10).
// One baton: exactly one library thread runs at a time.  Every nv_* synchronisation call / atomic
// operation announces its operation (a scheduling point), the controller picks which thread
// performs its pending operation next (forced prefix, then a policy), the effect is applied by the
// chosen thread, which then runs until it announces its next operation.
// Trace (stdout):  `S <tid> en=<enabled tids>`  for every choice, followed by the line printed by
// the chosen thread when it applies the effect:  `O <op> <object> <result>`.
// Own copy for this area (do not share with harness/sync).
#undef pthread_mutex_init
#undef pthread_mutex_destroy
#undef pthread_mutex_lock
#undef pthread_mutex_trylock
#undef pthread_mutex_unlock
#undef pthread_cond_init
#undef pthread_cond_destroy
#undef pthread_cond_wait
#undef pthread_cond_timedwait
#undef pthread_cond_signal
#undef pthread_cond_broadcast
#undef pthread_create
#undef pthread_join
#undef clock_gettime
#include <pthread.h>
#include <semaphore.h>
#include <time.h>
#include <stdio.h>
#include <stdlib.h>
#include <string.h>
#include <errno.h>
#include <unistd.h>
#include "sched.h"
#ifdef VERIF_IMPLCOV
extern "C" void __gcov_dump(void);   // line-coverage measurement (tools/implcov.py): a forked schedule process leaves through _exit, which loses the counters
#endif
void nv_leave(int code)
{
#ifdef VERIF_IMPLCOV
  __gcov_dump();
#endif
  _exit(code);
}

enum { MAXT = 16, MAXOBJ = 256 };
enum OpKind { OP_NONE, OP_START, OP_LOCK, OP_TRYLOCK, OP_UNLOCK, OP_CWAIT, OP_CWAKE, OP_RELOCK, OP_SIGNAL, OP_BCAST, OP_JOIN, OP_YIELD, OP_ATOMIC, OP_CONT, OP_EXIT };
static const char* const opName[] = { "none", "start", "lock", "trylock", "unlock", "cwait", "cwake", "relock", "signal", "bcast", "join", "spawned", "atomic", "cont", "exit" };
struct VMutex { void* addr; int owner; int count; bool recursive; bool live; };
struct VCond { void* addr; bool live; int gen; };
static int condGen = 0;
struct VThread
{
  bool used, finished; pthread_t real; sem_t go; OpKind pend; void* obj; void* obj2; int joinTarget;
  bool signalled; void* waitingOn; void*(*fn)(void*); void* arg; void* ret; const char* akind;
};
static pthread_mutex_t G = PTHREAD_MUTEX_INITIALIZER;
static VMutex mtx[MAXOBJ]; static int nmtx;
static VCond cnd[MAXOBJ]; static int ncnd;
static VThread th[MAXT]; static int nth;
static __thread int self = -1;
static unsigned long long rs;
static unsigned rnd() { rs ^= rs << 13; rs ^= rs >> 7; rs ^= rs << 17; return (unsigned)(rs >> 11); }
static int spuriousBudget = 0;
static long steps = 0, maxSteps = 100000;
static int* prefix = 0; static int nprefix = 0; static int* devStep = 0; static int* devThread = 0; static int ndev = 0; static int policy = 0; // 0 = non-preemptive (stay, else lowest id), 1 = random
static int lastThread = 0, sameCount = 0;
static long clockCalls = 0; static long tickMs = 0;
static unsigned createFailMask = 0; static int workerCreates = 0; // environment choice: which worker-thread creations fail (request option cf=<mask>)
static int splitMode = 0; // 1: the code that follows a synchronisation operation (plain accesses up to the next operation) is a step of its own

static VMutex* M(void* a)
{
  for(int i = 0; i < nmtx; ++i) if(mtx[i].addr == a && mtx[i].live) return &mtx[i];
  if(nmtx >= MAXOBJ) { printf("X too many mutexes\n"); fflush(stdout); nv_leave(7); }
  VMutex* m = &mtx[nmtx++]; m->addr = a; m->owner = -1; m->count = 0; m->recursive = false; m->live = true; return m;
}
static VCond* CV(void* a, bool create)
{
  for(int i = 0; i < ncnd; ++i) if(cnd[i].addr == a && cnd[i].live) return &cnd[i];
  if(!create) return 0;
  if(ncnd >= MAXOBJ) { printf("X too many condvars\n"); fflush(stdout); nv_leave(7); }
  VCond* c = &cnd[ncnd++]; c->addr = a; c->live = true; c->gen = ++condGen; return c;
}
static void finish(const char* verdict, int code)
{
  printf("V %s steps=%ld\n", verdict, steps);
  sched_on_end(verdict);
  fflush(stdout);
  nv_leave(code);
}
static bool enabled(int t)
{
  VThread& T = th[t];
  switch(T.pend)
  {
  case OP_NONE: return false;
  case OP_LOCK: case OP_RELOCK: { VMutex* m = M(T.obj); return m->owner == -1 || (m->owner == t && m->recursive); }
  case OP_CWAKE: return T.signalled || spuriousBudget > 0;
  case OP_JOIN: return th[T.joinTarget].finished;
  default: return true;
  }
}
// called with G held by thread `me` (or -1), which has set its pend; picks the next thread and hands over the baton
static void pass_baton(int me)
{
  int cand[MAXT]; int nc = 0;
  for(int t = 0; t < nth; ++t) { if(!th[t].used || th[t].finished) continue; if(enabled(t)) cand[nc++] = t; }
  if(nc == 0)
  {
    bool any = false; for(int t = 0; t < nth; ++t) if(th[t].used && !th[t].finished) any = true;
    if(!any) finish("DONE", 0);
    printf("D");
    for(int t = 0; t < nth; ++t) if(th[t].used && !th[t].finished)
    { char nb[64]; printf(" t%d:%s:%s", t, opName[th[t].pend], th[t].pend == OP_JOIN ? "thread" : sched_name(th[t].obj, nb)); }
    printf("\n");
    finish("DEADLOCK", 5);
  }
  if(steps >= maxSteps) finish("BOUND", 6);
  int t = -1;
  if(steps < nprefix)
  {
    t = prefix[steps];
    bool ok = false; for(int i = 0; i < nc; ++i) if(cand[i] == t) ok = true;
    if(!ok) finish("BADPREFIX", 8);
  }
  if(t < 0)
  { // sparse deviations `dev=step:thread,...`: at that step run that thread if it is enabled (otherwise the entry is ignored)
    for(int d = 0; d < ndev; ++d) if(devStep[d] == steps) { for(int i = 0; i < nc; ++i) if(cand[i] == devThread[d]) t = devThread[d]; break; }
  }
  if(t >= 0) {}
  else if(policy == 1) t = cand[rnd() % nc];
  else
  { // non-preemptive default: stay on the running thread while it is enabled, but at most 64 steps in a row
    // (a spinning thread must not starve the lock holder), then the next enabled thread in cyclic id order
    if(sameCount < 64) for(int i = 0; i < nc; ++i) if(cand[i] == lastThread) t = lastThread;
    if(t < 0) { for(int i = 0; i < nc; ++i) if(cand[i] > lastThread) { t = cand[i]; break; } }
    if(t < 0) t = cand[0];
  }
  if(t == lastThread) ++sameCount; else sameCount = 0;
  lastThread = t; ++steps;
  printf("S %d en=", t); for(int i = 0; i < nc; ++i) printf(i ? ",%d" : "%d", cand[i]); printf("\n");
  if(t != me || me < 0) sem_post(&th[t].go);
  if(t != me && me >= 0) { pthread_mutex_unlock(&G); sem_wait(&th[me].go); pthread_mutex_lock(&G); }
}
// scheduling point: announce the operation, wait until chosen; the effect is applied by the caller under G
static void point(OpKind k, void* obj, void* obj2 = 0, int joinTarget = -1)
{
  int me = self; VThread& T = th[me]; T.pend = k; T.obj = obj; T.obj2 = obj2; T.joinTarget = joinTarget;
  pass_baton(me); T.pend = OP_NONE;
}
static void out(const char* op, const void* obj, long long res)
{
  char nb[64]; printf("O %s %s %lld\n", op, sched_name(obj, nb), res);
}
// split mode: after the effect of an operation the thread yields once more, so that other threads can run between the
// operation and the plain accesses that follow it in program order
static void post() { if(splitMode) { point(OP_CONT, 0); printf("O cont thread 0\n"); } }
extern "C" {
int nv_pthread_mutex_init(pthread_mutex_t* m, const pthread_mutexattr_t* a)
{
  pthread_mutex_lock(&G); VMutex* v = M(m); v->owner = -1; v->count = 0; int type = PTHREAD_MUTEX_DEFAULT; if(a) pthread_mutexattr_gettype(a, &type);
  v->recursive = (type == PTHREAD_MUTEX_RECURSIVE); pthread_mutex_unlock(&G); return 0;
}
int nv_pthread_mutex_destroy(pthread_mutex_t* m)
{
  pthread_mutex_lock(&G); VMutex* v = M(m); int r = v->owner == -1 ? 0 : EBUSY;
  if(r) { char nb[64]; printf("X mutex-destroyed-while-locked %s owner=%d by=%d\n", sched_name(m, nb), v->owner, self); }
  v->live = false; pthread_mutex_unlock(&G); return r;
}
int nv_pthread_mutex_lock(pthread_mutex_t* m)
{
  pthread_mutex_lock(&G); point(OP_LOCK, m); VMutex* v = M(m); v->owner = self; v->count++; out("lock", m, 0); post(); pthread_mutex_unlock(&G); return 0;
}
int nv_pthread_mutex_trylock(pthread_mutex_t* m)
{
  pthread_mutex_lock(&G); point(OP_TRYLOCK, m); VMutex* v = M(m); int r;
  if(v->owner == -1 || (v->owner == self && v->recursive)) { v->owner = self; v->count++; r = 0; } else r = EBUSY;
  out("trylock", m, r); post(); pthread_mutex_unlock(&G); return r;
}
int nv_pthread_mutex_unlock(pthread_mutex_t* m)
{
  pthread_mutex_lock(&G); point(OP_UNLOCK, m); VMutex* v = M(m); int r = 0;
  if(v->owner != self) r = EPERM; else if(--v->count == 0) v->owner = -1;
  out("unlock", m, r); post(); pthread_mutex_unlock(&G); return r;
}
int nv_pthread_cond_init(pthread_cond_t* c, const pthread_condattr_t*) { pthread_mutex_lock(&G); CV(c, true); pthread_mutex_unlock(&G); return 0; }
int nv_pthread_cond_destroy(pthread_cond_t* c)
{
  pthread_mutex_lock(&G); int r = 0;
  for(int t = 0; t < nth; ++t) if(th[t].used && !th[t].finished && th[t].waitingOn == c) r = EBUSY;
  if(r) { char nb[64]; printf("X cond-destroyed-with-waiters %s by=%d\n", sched_name(c, nb), self); }
  VCond* v = CV(c, false); if(v) v->live = false;
  pthread_mutex_unlock(&G); return r;
}
int nv_pthread_cond_wait(pthread_cond_t* c, pthread_mutex_t* m)
{
  pthread_mutex_lock(&G);
  point(OP_CWAIT, c, m); VMutex* v = M(m); int saved = v->count; v->count = 0; v->owner = -1; th[self].waitingOn = c; th[self].signalled = false; out("cwait", c, 0);
  point(OP_CWAKE, c, m); bool spurious = !th[self].signalled; if(spurious) --spuriousBudget; th[self].waitingOn = 0; out("cwake", c, spurious ? 1 : 0);
  point(OP_RELOCK, m); v = M(m); v->owner = self; v->count = saved; out("relock", m, 0); post();
  pthread_mutex_unlock(&G); return 0;
}
int nv_pthread_cond_timedwait(pthread_cond_t*, pthread_mutex_t*, const struct timespec*) { printf("X timedwait-not-simulated\n"); fflush(stdout); nv_leave(7); }
int nv_pthread_cond_signal(pthread_cond_t* c)
{
  pthread_mutex_lock(&G); point(OP_SIGNAL, c);
  for(int t = 0; t < nth; ++t) if(th[t].used && !th[t].finished && th[t].waitingOn == c && !th[t].signalled) { th[t].signalled = true; break; }
  out("signal", c, 0); post(); pthread_mutex_unlock(&G); return 0;
}
int nv_pthread_cond_broadcast(pthread_cond_t* c)
{
  pthread_mutex_lock(&G); VCond* v0 = CV(c, false); int g0 = v0 ? v0->gen : -1; // the object the caller is about to broadcast on
  point(OP_BCAST, c);
  VCond* v1 = CV(c, false);
  if(!v1 || v1->gen != g0) { char nb[64]; printf("X broadcast-on-destroyed-cond %s by=%d\n", sched_name(c, nb), self); }
  int n = 0; for(int t = 0; t < nth; ++t) if(th[t].used && !th[t].finished && th[t].waitingOn == c) { if(!th[t].signalled) ++n; th[t].signalled = true; }
  out("bcast", c, n); post(); pthread_mutex_unlock(&G); return 0;
}
static void* tramp(void* p)
{
  int id = (int)(long)p; self = id; sem_wait(&th[id].go);
  pthread_mutex_lock(&G); th[id].pend = OP_NONE; printf("O start thread 0\n"); post(); pthread_mutex_unlock(&G);
  void* r = th[id].fn(th[id].arg);
  pthread_mutex_lock(&G); th[id].ret = r; point(OP_EXIT, 0); th[id].finished = true; th[id].pend = OP_NONE; printf("O exit thread 0\n"); pass_baton(-1); pthread_mutex_unlock(&G);
  return r;
}
int nv_pthread_create(pthread_t* outh, const pthread_attr_t*, void*(*fn)(void*), void* arg)
{
  pthread_mutex_lock(&G);
  if(nth >= MAXT) { printf("X too many threads\n"); fflush(stdout); nv_leave(7); }
  if(self != 0)
  { // a worker of the pool is being created: the environment may refuse (EAGAIN).  The thread id is consumed (the slot stays unused),
    // there is no scheduling point: the caller just sees the error code.
    int k = workerCreates++;
    if(k < 32 && ((createFailMask >> k) & 1u))
    { int id = nth++; memset(&th[id], 0, sizeof(th[id])); printf("E %d create-failed t%d\n", self, id); pthread_mutex_unlock(&G); return EAGAIN; }
  }
  int id = nth++; VThread& T = th[id]; memset(&T, 0, sizeof(T)); T.used = true; sem_init(&T.go, 0, 0); T.fn = fn; T.arg = arg; T.pend = OP_START;
  pthread_attr_t at; pthread_attr_init(&at); pthread_attr_setstacksize(&at, 256 * 1024);
  pthread_create(&T.real, &at, tramp, (void*)(long)id); *outh = (pthread_t)(long)(id + 1000);
  printf("E %d create t%d\n", self, id);
  point(OP_YIELD, 0); printf("O spawned thread %d\n", id);
  pthread_mutex_unlock(&G); return 0;
}
int nv_pthread_join(pthread_t h, void** ret)
{
  int id = (int)((long)h - 1000); pthread_mutex_lock(&G); point(OP_JOIN, 0, 0, id); if(ret) *ret = th[id].ret; printf("O join thread %d\n", id); post(); pthread_mutex_unlock(&G);
  pthread_join(th[id].real, 0); return 0;
}
int nv_clock_gettime(clockid_t, struct timespec* ts)
{
  // readings taken while the pool is being constructed do not advance the virtual clock (sched_clock_frozen, future.cpp): the model's
  // constructor (mkPool) has no clock step, and a constructor that initialises `_idleResetTime` from the clock (harmless C10-h3 / -h6) keeps every later reading
  long ms = 5000 + clockCalls * tickMs; if(!sched_clock_frozen()) ++clockCalls; ts->tv_sec = ms / 1000; ts->tv_nsec = (ms % 1000) * 1000000L; return 0;
}
void nv_yield(const char* kind, const volatile void* p)
{
  pthread_mutex_lock(&G); th[self].akind = kind; point(OP_ATOMIC, (void*)p);
  if((kind[0] == 'r' && kind[1] == 'd') || (kind[0] == 'w' && kind[1] == 'r')) out(kind, (const void*)p, 0); // source hook at a plain access
  pthread_mutex_unlock(&G);
}
void nv_result(const volatile void* p, unsigned long long value)
{
  pthread_mutex_lock(&G); char nb[64]; const char* n = sched_name((const void*)p, nb);
  printf("O %s %s %lld\n", th[self].akind, n, sched_value((const void*)p, value)); post(); pthread_mutex_unlock(&G);
}
}
void sched_set_create_failures(unsigned mask) { createFailMask = mask; workerCreates = 0; }
void sched_seed_only(unsigned long long seed) { rs = seed * 0x2545F4914F6CDD1DULL + 0x9E3779B97F4A7C15ULL; for(int i = 0; i < 4; ++i) rnd(); }
void sched_set_devs(const int* st, const int* thr, int n)
{
  devStep = (int*)malloc(sizeof(int) * (n + 1)); devThread = (int*)malloc(sizeof(int) * (n + 1)); ndev = n;
  for(int i = 0; i < n; ++i) { devStep[i] = st[i]; devThread[i] = thr[i]; }
}
void sched_reset(unsigned long long seed, int pol, const int* pre, int npre, long maxsteps, int spurious, long tickms, int split)
{
  rs = seed * 0x2545F4914F6CDD1DULL + 0x9E3779B97F4A7C15ULL; for(int i = 0; i < 4; ++i) rnd();
  policy = pol; nprefix = npre; prefix = (int*)malloc(sizeof(int) * (npre + 1)); for(int i = 0; i < npre; ++i) prefix[i] = pre[i];
  splitMode = split; maxSteps = maxsteps; spuriousBudget = spurious; tickMs = tickms; clockCalls = 0; steps = 0; lastThread = 0; sameCount = 0;
  nmtx = 0; ncnd = 0; nth = 1; memset(th, 0, sizeof(th)); th[0].used = true; sem_init(&th[0].go, 0, 0); self = 0;
}
// main thread (t0) has finished its program: let the remaining threads run to the end
void sched_main_done()
{
  pthread_mutex_lock(&G); point(OP_EXIT, 0); th[0].finished = true; th[0].pend = OP_NONE; printf("O exit thread 0\n"); pass_baton(-1); pthread_mutex_unlock(&G);
  for(;;) pause();
}
int sched_self() { return self; }
long sched_steps() { return steps; }
