// Force-included (`-include harness/future/shim.h`) into every translation unit of the Future
// harness.  Renames the POSIX thread / clock calls and the `__sync_*` builtins used by
// nstd/Atomic.hpp into `nv_*` functions of the controlled scheduler (harness/future/sched.cpp),
// so that the UNMODIFIED library sources run over a simulated POSIX layer in which every
// synchronisation call and every atomic operation is a scheduling point.
#pragma once
#include <pthread.h>
#include <semaphore.h>
#include <time.h>
#include <unistd.h>
#ifdef __cplusplus
extern "C" {
#endif
int nv_pthread_mutex_init(pthread_mutex_t*, const pthread_mutexattr_t*);
int nv_pthread_mutex_destroy(pthread_mutex_t*);
int nv_pthread_mutex_lock(pthread_mutex_t*);
int nv_pthread_mutex_trylock(pthread_mutex_t*);
int nv_pthread_mutex_unlock(pthread_mutex_t*);
int nv_pthread_cond_init(pthread_cond_t*, const pthread_condattr_t*);
int nv_pthread_cond_destroy(pthread_cond_t*);
int nv_pthread_cond_wait(pthread_cond_t*, pthread_mutex_t*);
int nv_pthread_cond_timedwait(pthread_cond_t*, pthread_mutex_t*, const struct timespec*);
int nv_pthread_cond_signal(pthread_cond_t*);
int nv_pthread_cond_broadcast(pthread_cond_t*);
int nv_pthread_create(pthread_t*, const pthread_attr_t*, void*(*)(void*), void*);
int nv_pthread_join(pthread_t, void**);
int nv_clock_gettime(clockid_t, struct timespec*);
void nv_yield(const char* kind, const volatile void* addr);          /* scheduling point before an atomic operation */
void nv_result(const volatile void* addr, unsigned long long value); /* records what the atomic operation returned */
#ifdef __cplusplus
}
#endif
#ifndef NV_SCHED_IMPL
#define pthread_mutex_init nv_pthread_mutex_init
#define pthread_mutex_destroy nv_pthread_mutex_destroy
#define pthread_mutex_lock nv_pthread_mutex_lock
#define pthread_mutex_trylock nv_pthread_mutex_trylock
#define pthread_mutex_unlock nv_pthread_mutex_unlock
#define pthread_cond_init nv_pthread_cond_init
#define pthread_cond_destroy nv_pthread_cond_destroy
#define pthread_cond_wait nv_pthread_cond_wait
#define pthread_cond_timedwait nv_pthread_cond_timedwait
#define pthread_cond_signal nv_pthread_cond_signal
#define pthread_cond_broadcast nv_pthread_cond_broadcast
#define pthread_create nv_pthread_create
#define pthread_join nv_pthread_join
#define clock_gettime nv_clock_gettime
#ifdef __cplusplus
template<typename T, typename V> static inline T nv_sync_add_and_fetch(volatile T* p, V v) { nv_yield("add", p); T r = __atomic_add_fetch(p, (T)v, __ATOMIC_SEQ_CST); nv_result(p, (unsigned long long)r); return r; }
template<typename T, typename V> static inline T nv_sync_fetch_and_add(volatile T* p, V v) { nv_yield("fadd", p); T r = __atomic_fetch_add(p, (T)v, __ATOMIC_SEQ_CST); nv_result(p, (unsigned long long)r); return r; }
template<typename T> static inline T nv_sync_val_cas(volatile T* p, T o, T n) { nv_yield("cas", p); __atomic_compare_exchange_n(p, &o, n, false, __ATOMIC_SEQ_CST, __ATOMIC_SEQ_CST); nv_result(p, (unsigned long long)o); return o; }
template<typename T, typename V> static inline T nv_sync_lock_test_and_set(volatile T* p, V v) { nv_yield("xchg", p); T r = __atomic_exchange_n(p, (T)v, __ATOMIC_SEQ_CST); nv_result(p, (unsigned long long)r); return r; }
#define __sync_add_and_fetch(p, v) nv_sync_add_and_fetch(p, v)
#define __sync_fetch_and_add(p, v) nv_sync_fetch_and_add(p, v)
#define __sync_val_compare_and_swap(p, o, n) nv_sync_val_cas(p, o, n)
#define __sync_lock_test_and_set(p, v) nv_sync_lock_test_and_set(p, v)
#endif
#endif
