// interface between the controlled scheduler (sched.cpp) and the scenario runner (future.cpp); C headers only
#pragma once
const char* sched_name(const void* addr, char* buf);            // canonical name of a synchronisation object / atomic variable
long long sched_value(const void* addr, unsigned long long v);   // canonical value of an atomic result
void sched_on_end(const char* verdict);                          // prints the final summary line
void sched_reset(unsigned long long seed, int policy, const int* prefix, int nprefix, long maxsteps, int spurious, long tickms, int split);
void sched_set_devs(const int* steps, const int* threads, int n);   // sparse forced choices on top of the policy
void sched_set_create_failures(unsigned mask);                   // bit k set: the k-th thread creation by a non-main thread (= worker k of the pool) fails with EAGAIN
void sched_seed_only(unsigned long long seed);
void sched_main_done();
void nv_leave(int code) __attribute__((noreturn));                                       // _exit of a schedule process (dumps the gcov counters first under -DVERIF_IMPLCOV)
int sched_self();
long sched_steps();
int sched_clock_frozen();                                         // 1 while a ThreadPool is being constructed (harness-created: flag; lazily created: startProc holds _threadPoolLock and has not yet published the pool)
