// Line-protocol harness for Sha256 (property C17).  Executes the op lines of
// lean/Nstd/Sha/Driver.lean on the real src/Crypto/Sha256.cpp + include/nstd/Crypto/Sha256.hpp.
// Inputs are handed over as exactly sized heap copies (ASan sees one-past reads); the hasher
// object lives in poisoned (0xAA) storage so that nothing depends on a lucky initial buffer content.
#include "common/hx.h"
#define private public   // white-box write of `count` for the op `setcount`
#include <nstd/Crypto/Sha256.hpp>
#undef private
#include <nstd/Debug.hpp>
#include <stdarg.h>

// a Sha256.cpp that states its invariants with ASSERT refers to Debug::printf; src/Debug.cpp would drag in Process/String,
// so the harness supplies the function: a failed library assertion is printed into the observation line and is a fault
int Debug::printf(const char* format, ...)
{
  va_list ap;
  va_start(ap, format);
  fputs("FAULT assertion: ", stdout);
  vfprintf(stdout, format, ap);
  va_end(ap);
  fflush(stdout);
  return 1;
}

// the object lives in an exactly sized heap block: `buffer` is its last member, so a write past
// buffer[63] (or before state[0]) lands in an ASan redzone
static void* storage;
static Sha256* sha;

// second object: a copy taken mid-stream (op `fork`), exchanged with the active one by `swap`
static void* storage2;
static Sha256* sha2;

static void fresh()
{
  if(sha) sha->~Sha256();
  free(storage);
  storage = malloc(sizeof(Sha256));
  memset(storage, 0xAA, sizeof(Sha256));
  sha = new(storage) Sha256;
  if(sha2) sha2->~Sha256();
  free(storage2);
  storage2 = malloc(sizeof(Sha256));
  memset(storage2, 0xAA, sizeof(Sha256));
  sha2 = new(storage2) Sha256;
}

// `Sha256 copy(*sha)` (implicit copy constructor) into fresh poisoned storage
static void forkObject()
{
  sha2->~Sha256();
  free(storage2);
  storage2 = malloc(sizeof(Sha256));
  memset(storage2, 0xAA, sizeof(Sha256));
  sha2 = new(storage2) Sha256(*sha);
}

static bool validHex(const char* t)
{
  if(strcmp(t, "-") == 0) return true;
  size_t n = strlen(t);
  if(n == 0 || n % 2) return false;
  for(size_t i = 0; i < n; ++i)
    if(hxNib(t[i]) < 0) return false;
  return true;
}

static void putDigest(const byte (&d)[Sha256::digestSize])
{
  hxPutHex(d, Sha256::digestSize);
  hxEndLine();
}

int main()
{
  static HxLine l;
  fresh();
  while(hxRead(l))
  {
    size_t len = 0, klen = 0;
    unsigned char* d = 0;
    unsigned char* k = 0;
    byte digest[Sha256::digestSize];
    memset(digest, 0xEE, sizeof(digest));
    bool okHex = true;
    for(int i = 1; i < l.ntok; ++i) okHex = okHex && (strcmp(l.tok[0], "setcount") == 0 || strcmp(l.tok[0], "variant") == 0 || validHex(l.tok[i]));
    if(!okHex) { printf("bad-op"); hxEndLine(); }
    else if(hxIs(l, "reset", 0)) { fresh(); printf("ok"); hxEndLine(); }
    // which build configuration of Sha256.cpp this harness was compiled in (tools/areas/sha.py builds both)
    else if(l.ntok == 2 && strcmp(l.tok[0], "variant") == 0)
    {
#ifdef VERIF_SHA_VARIANT
      const char* mine = VERIF_SHA_VARIANT;   // told by tools/areas/sha.py (a #define inside Sha256.cpp is not visible here)
#else
      const char* mine = "rolled";
#endif
      printf(strcmp(l.tok[1], mine) == 0 ? "ok" : "bad-op"); hxEndLine();
    }
    // white box: one Transform call on an arbitrary chaining value (a scratch hasher in exactly sized, poisoned
    // heap storage; the main hasher is not touched)
    else if(hxIs(l, "xform", 2))
    {
      k = hxBytes(l.tok[1], klen);
      d = hxBytes(l.tok[2], len);
      if(klen != 32 || len != 64) { printf("bad-op"); hxEndLine(); }
      else
      {
        void* mem = malloc(sizeof(Sha256));
        memset(mem, 0xAA, sizeof(Sha256));
        Sha256* t = new(mem) Sha256;
        for(int i = 0; i < 8; ++i)
          t->state[i] = ((uint32)k[4 * i] << 24) | ((uint32)k[4 * i + 1] << 16) | ((uint32)k[4 * i + 2] << 8) | (uint32)k[4 * i + 3];
        t->update(d, 64);
        for(int i = 0; i < 8; ++i)
        {
          unsigned char w[4] = {(unsigned char)(t->state[i] >> 24), (unsigned char)(t->state[i] >> 16), (unsigned char)(t->state[i] >> 8), (unsigned char)t->state[i]};
          hxPutHex(w, 4);
        }
        hxEndLine();
        t->~Sha256();
        free(mem);
      }
    }
    else if(hxIs(l, "rst", 0)) { sha->reset(); printf("ok"); hxEndLine(); }
    else if(hxIs(l, "fork", 0)) { forkObject(); printf("ok"); hxEndLine(); }
    else if(hxIs(l, "assign", 0)) { *sha2 = *sha; printf("ok"); hxEndLine(); }     // implicit copy assignment
    else if(hxIs(l, "swap", 0))
    {
      void* ts = storage; storage = storage2; storage2 = ts;
      Sha256* t = sha; sha = sha2; sha2 = t;
      printf("ok"); hxEndLine();
    }
    else if(hxIs(l, "update", 1))
    {
      d = hxBytes(l.tok[1], len);
      sha->update(d, len);
      printf("ok"); hxEndLine();
    }
    else if(hxIs(l, "final", 0)) { sha->finalize(digest); putDigest(digest); }
    else if(hxIs(l, "hash", 1) || hxIs(l, "spec", 1))
    {
      d = hxBytes(l.tok[1], len);
      Sha256::hash(d, len, digest);
      putDigest(digest);
    }
    else if(hxIs(l, "hmac", 2) || hxIs(l, "spechmac", 2))
    {
      k = hxBytes(l.tok[1], klen);
      d = hxBytes(l.tok[2], len);
      Sha256::hmac(k, klen, d, len, digest);
      putDigest(digest);
    }
    // white box: pretend that `n` bytes (a multiple of 64, so the buffer holds nothing) were hashed
    // before; reaches the upper bytes of the 64-bit length field without feeding gigabytes
    else if(l.ntok == 2 && strcmp(l.tok[0], "setcount") == 0)
    {
      unsigned long long n = strtoull(l.tok[1], 0, 10);
      if(n % 64) printf("bad-op");
      else { sha->count = n; printf("ok"); }
      hxEndLine();
    }
    // an empty input handed over as (nullptr, 0), as a caller holding an empty Buffer/array would
    else if(hxIs(l, "updatenull", 0)) { sha->update((const byte*)0, 0); printf("ok"); hxEndLine(); }
    else if(hxIs(l, "hashnull", 0)) { Sha256::hash((const byte*)0, 0, digest); putDigest(digest); }
    else if(hxIs(l, "hmacnullkey", 1))
    {
      d = hxBytes(l.tok[1], len);
      Sha256::hmac((const byte*)0, 0, d, len, digest);
      putDigest(digest);
    }
    else if(hxIs(l, "hmacnullmsg", 1))
    {
      k = hxBytes(l.tok[1], klen);
      Sha256::hmac(k, klen, (const byte*)0, 0, digest);
      putDigest(digest);
    }
    else { printf("bad-op"); hxEndLine(); }
    free(d);
    free(k);
  }
  return 0;
}
