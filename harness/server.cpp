// Line-protocol harness for the Server area (properties C13 and C14).  Executes the op lines
// of lean/Nstd/Server/Driver.lean on the real Server (src/Socket/Server.cpp, Socket.cpp) with
// send / epoll_wait / epoll_ctl / clock_gettime interposed (harness/server/interpose.h).
#include "common/hx.h"
#include "server/interpose.h"
#define private public
#include <nstd/Socket/Socket.hpp>
#undef private
#include <nstd/Socket/Server.hpp>

#include "server/c13.h"
#include "server/c14.h"

int main()
{
  static HxLine l;
  ipMaskReset();
  while(hxRead(l))
  {
    if(hxIs(l, "reset", 0))
    {
      c13Teardown();
      c14Teardown();
      ipMaskReset();
      ipEnvFail = false;
      ipSendLogLen = 0;
      ipVirtualClock = false;
      ipNow = 1000;
      printf("ok");
      hxEndLine();
      continue;
    }
    if(c13Op(l)) continue;
    if(c14Op(l)) continue;
    printf("bad-op");
    hxEndLine();
  }
  c13Teardown();
  c14Teardown();
  fprintf(stderr, "faults: wouldblock=%lu error=%lu partial=%lu full=%lu\n", ipFaultWb, ipFaultErr, ipFaultPartial, ipFaultFull);
  return 0;
}
