// Harness of the Future area (property C10): runs scenarios of client threads using Future<Res> /
// Future<void> on the REAL thread pool of src/Future.cpp (included below so that the private
// ThreadPool can be built with small queue sizes and thread limits) under the controlled scheduler
// of harness/future/sched.cpp.  One forked process per run.  C headers only.
//
// request line (stdin):
//   run q=<queue size> min=<minThreads> max=<maxThreads> lazy=<0|1> tick=<ms per clock call> sp=<spurious budget>
//       cf=<bit mask: bit k = the k-th creation of a pool worker fails>
//       pol=<np|rand> seed=<n> bound=<step bound> flush=<0|1> split=<0|1> pre=<t,t,...|-> dev=<step:t,step:t,...|-> | <client 1 ops> | <client 2 ops> ...
//   client ops:  s<f>:<a>:<b> start int future f with body(a,b)   S<f>:<a>:<b> start void future f
//                j/J join   r result conversion (int futures)   a/A abort   q/Q query flags   d/D destroy + re-create
//   (lower case = Future<Res> f, upper case = Future<void> f).  `a` doubles as the unique id of the call.
// output: the trace (`S`/`O` lines of the scheduler, `E <tid> ...` events, `X ...` simulated-POSIX faults,
//   `D ...` blocked threads at a deadlock, `V <verdict>`, `F <final summary>`), then `end <exit status>`.
#define private public
#define protected public
#include <nstd/Signal.hpp>
#include <nstd/Future.hpp>
#include <nstd/Thread.hpp>
#include <nstd/Atomic.hpp>
#include <nstd/Time.hpp>
#include <nstd/Mutex.hpp>
#include <nstd/PoolList.hpp>
#include <nstd/System.hpp>
// `class Framework { ~Framework(); static Framework framework; }` of Future.cpp has only default-private members: the classes DEFINED in
// Future.cpp are compiled as structs (all headers it includes are already in, so only Future.cpp itself is affected), so that the
// harness can run `Framework::~Framework()` (the static destruction of the lazily created pool) under the controlled scheduler.
#define class struct
#include "Future.cpp"
#undef class
#undef private
#undef protected
#include <stdio.h>
#include <stdlib.h>
#include <string.h>
#include <signal.h>
#include <sys/wait.h>
#include <unistd.h>
#include "future/sched.h"

#include <stdarg.h>
#include <nstd/Debug.hpp>
#include <nstd/System.hpp>
// stand-ins for two library functions the pool only uses for configuration / diagnostics (System.cpp and
// Debug.cpp would pull String/Memory into the scheduled process): processor count of the lazily created
// pool = request option `ncpu` (default 4) on every machine; a failed ASSERT/VERIFY of the library is reported in the trace and traps.
static uint g_ncpu = 4;   // request option ncpu=<n>: what System::getProcessorCount() reports (maxThreads of the lazily created pool)
uint System::getProcessorCount() { return g_ncpu; }
int Debug::printf(const char* format, ...)
{
  va_list ap; va_start(ap, format); ::printf("X library-assert "); int r = vprintf(format, ap); va_end(ap); fflush(stdout); return r ? r : 1;
}

typedef Future<void>::Private FP;
typedef Future<void>::Private::ThreadPool Pool;

enum { NF = 8, MAXC = 6, MAXOPS = 32 };
static Pool* volatile g_pool = 0;       // the pool in use (harness-created or lazily created by startProc)
static bool g_poolAlive = false;
static int g_liveToks = 0, g_execs = 0;
static long g_bodyMark;
// Result type of the lower-case futures: a tracked NON-TRIVIAL value (constructed with the Future<A>, assigned by the worker in
// Future<A>::proc, destroyed by ~Future<A>).  Ledger of its lifetime: a store into, or a read of, an instance whose destructor
// has already run is reported as an `X` line (the property: join(), the destructor and the result conversion return only after
// the execution INCLUDING the result store has completed).  Silent otherwise, so the trace format is the one of a plain int.
struct Res
{
  enum { LIVE = 0x600DF00Du, DEAD = 0x0000DEADu };
  int v; volatile unsigned magic;   // volatile: the store in the destructor must survive (GCC removes stores to an object whose lifetime ends)
  Res() : v(-1), magic(LIVE) {}
  Res(int v) : v(v), magic(LIVE) {}
  Res(const Res& o) : v(o.v), magic(LIVE) { if(o.magic != LIVE) report("copied-from"); }
  ~Res() { if(magic != LIVE) report("destroyed-twice"); magic = DEAD; }
  Res& operator=(const Res& o) { if(magic != LIVE) report("stored-into"); if(o.magic != LIVE) report("copied-from"); v = o.v; return *this; }
  static void report(const char* what) { printf("X result-%s-destroyed-object by=%d\n", what, sched_self()); }
};
alignas(16) static char fiMem[NF][sizeof(Future<Res>)];
alignas(16) static char fvMem[NF][sizeof(Future<void>)];
static Future<Res>* fi(int k) { return (Future<Res>*)fiMem[k]; }
static Future<void>* fv(int k) { return (Future<void>*)fvMem[k]; }

struct Tok
{
  int v; bool copy;
  explicit Tok(int v) : v(v), copy(false) {}
  Tok(const Tok& o) : v(o.v), copy(true) { ++g_liveToks; printf("E %d rec-new %d\n", sched_self(), v); }
  ~Tok() { if(copy) { --g_liveToks; printf("E %d rec-del %d\n", sched_self(), v); } }
};
static Res bodyInt(const Tok& a, int b)
{
  ++g_execs; printf("E %d exec %d %d\n", sched_self(), a.v, b);
  nv_yield("body", &g_bodyMark); nv_result(&g_bodyMark, (unsigned long long)a.v);
  return Res(a.v * 100 + b);
}
static void bodyVoid(const Tok& a, int b)
{
  ++g_execs; printf("E %d exec %d %d\n", sched_self(), a.v, b);
  nv_yield("body", &g_bodyMark); nv_result(&g_bodyMark, (unsigned long long)a.v);
}

static volatile int g_inPoolCtor = 0;
// lazily created pool: while startProc holds the spin lock and has not yet published the pool, nobody can be inside run(): a clock reading then is the constructor's
int sched_clock_frozen() { return g_inPoolCtor || (FP::_threadPoolLock != 0 && FP::_threadPool == 0); }
static Pool* curPool() { return g_pool ? g_pool : (Pool*)FP::_threadPool; }

const char* sched_name(const void* addr, char* buf)
{
  const char* a = (const char*)addr;
  if(!a) return "thread";
  if(a == (const char*)&g_bodyMark) return "body";
  if(a == (const char*)&FP::_threadPoolLock) return "tplock";
  if(a == (const char*)&FP::_threadPool) return "tp";
  for(int k = 0; k < NF; ++k)
  {
    Future<void>* f = &fi(k)->future; const char* tag = "f";
    for(int pass = 0; pass < 2; ++pass, f = fv(k), tag = "g")
    {
      if(a == (const char*)f->_sig.mdata) { sprintf(buf, "%s%d.m", tag, k); return buf; }
      if(a == (const char*)f->_sig.cdata) { sprintf(buf, "%s%d.c", tag, k); return buf; }
      if(a == (const char*)&f->_state) { sprintf(buf, "%s%d.state", tag, k); return buf; }
    }
  }
  Pool* p = curPool();
  if(p && g_poolAlive)
  {
    if(a == (const char*)&p->_queue._tail) return "q.tail";
    if(a == (const char*)&p->_queue._head) return "q.head";
    if(a == (const char*)&p->_dequeuedSignal._state) return "deq.state";
    if(a == (const char*)p->_dequeuedSignal._signal.mdata) return "deq.m";
    if(a == (const char*)p->_dequeuedSignal._signal.cdata) return "deq.c";
    if(a == (const char*)&p->_enqueuedSignal._state) return "enq.state";
    if(a == (const char*)p->_enqueuedSignal._signal.mdata) return "enq.m";
    if(a == (const char*)p->_enqueuedSignal._signal.cdata) return "enq.c";
    if(a == (const char*)&p->_pushedJobs) return "pushed";
    if(a == (const char*)&p->_processedJobs) return "processed";
    if(a == (const char*)&p->_threadCount) return "threadcount";
    if(a == (const char*)&p->_mutex) return "pool.m";
    for(usize i = 0; i < p->_queue._capacity; ++i)
    {
      if(a == (const char*)&p->_queue._queue[i].head) { sprintf(buf, "slot%d.head", (int)i); return buf; }
      if(a == (const char*)&p->_queue._queue[i].tail) { sprintf(buf, "slot%d.tail", (int)i); return buf; }
      if(a == (const char*)&p->_queue._queue[i].data) { sprintf(buf, "slot%d.data", (int)i); return buf; }
    }
  }
  return "?";
}
long long sched_value(const void* addr, unsigned long long v)
{
  if(addr == (const void*)&FP::_threadPool) return v ? 1 : 0;
  return (long long)v;
}
void sched_on_end(const char* verdict)
{
  Pool* p = curPool();
  if(p && g_poolAlive)
    printf("F enq=%d/%d deq=%d/%d q=%d/%d pushed=%d processed=%d threads=%d execs=%d live=%d\n",
      (int)p->_enqueuedSignal._state, (int)p->_enqueuedSignal._signal.signaled, (int)p->_dequeuedSignal._state, (int)p->_dequeuedSignal._signal.signaled,
      (int)p->_queue._head, (int)p->_queue._tail, (int)p->_pushedJobs, (int)p->_processedJobs, (int)p->_threadCount, g_execs, g_liveToks);
  else
    printf("F nopool execs=%d live=%d\n", g_execs, g_liveToks);
}

struct Op { char kind; int f, a, b; };
struct Client { Op ops[MAXOPS]; int n; Thread thread; };
static Client clients[MAXC]; static int nclients;

static uint clientProc(void* param)
{
  Client& c = *(Client*)param; int me = sched_self();
  bool usedI[NF] = {false}, usedV[NF] = {false};
  for(int i = 0; i < c.n; ++i)
  {
    const Op& o = c.ops[i]; int f = o.f;
    switch(o.kind)
    {
    case 's': { usedI[f] = true; Tok t(o.a); fi(f)->start(bodyInt, t, o.b); printf("E %d started f%d %d\n", me, f, o.a); break; }
    case 'S': { usedV[f] = true; Tok t(o.a); fv(f)->start(bodyVoid, t, o.b); printf("E %d started g%d %d\n", me, f, o.a); break; }
    case 'j': fi(f)->join(); printf("E %d joined f%d\n", me, f); break;
    case 'J': fv(f)->join(); printf("E %d joined g%d\n", me, f); break;
    case 'r': { const Res& rr = *fi(f); if(rr.magic != Res::LIVE) Res::report("read-from"); int v = rr.v; printf("E %d result f%d %d\n", me, f, v); break; }
    case 'a': fi(f)->abort(); printf("E %d abort f%d\n", me, f); break;
    case 'A': fv(f)->abort(); printf("E %d abort g%d\n", me, f); break;
    case 'q': printf("E %d query f%d aborted=%d finished=%d aborting=%d\n", me, f, (int)fi(f)->isAborted(), (int)fi(f)->isFinished(), (int)fi(f)->isAborting()); break;
    case 'Q': printf("E %d query g%d aborted=%d finished=%d aborting=%d\n", me, f, (int)fv(f)->isAborted(), (int)fv(f)->isFinished(), (int)fv(f)->isAborting()); break;
    case 'd': fi(f)->~Future<Res>(); printf("E %d destroyed f%d\n", me, f); new (fiMem[f]) Future<Res>; break;
    case 'D': fv(f)->~Future<void>(); printf("E %d destroyed g%d\n", me, f); new (fvMem[f]) Future<void>; break;
    }
  }
  // the client's futures go out of scope: the destructor joins
  for(int f = 0; f < NF; ++f)
  {
    if(usedI[f]) { fi(f)->~Future<Res>(); printf("E %d destroyed f%d\n", me, f); new (fiMem[f]) Future<Res>; }
    if(usedV[f]) { fv(f)->~Future<void>(); printf("E %d destroyed g%d\n", me, f); new (fvMem[f]) Future<void>; }
  }
  return 0;
}

static long kv(const char* line, const char* key, long dflt)
{
  char pat[32]; sprintf(pat, " %s=", key); const char* p = strstr(line, pat);
  return p ? strtol(p + strlen(pat), 0, 10) : dflt;
}

static long kv(const char* line, const char* key, long dflt);

// ---- all arities of Call.hpp / Future.hpp (request `arity`): every start() overload of Future<A> and Future<void> (free functions
// with 0..5 arguments, member functions with 0..4) is run once on the real pool under the scheduler; the caller's variables are
// overwritten right after start() returns (argument capture is BY VALUE: the call must see the values as they were at start()), the
// result conversion must give the function's return value for the captured values.  Tie only (the model's record has two values).
static int g_voidOut[12];
static int mix(int a, int b, int c, int d, int e) { return a + 10 * b + 100 * c + 1000 * d + 10000 * e; }
static Res rf0() { return Res(mix(0, 0, 0, 0, 0) + 7); }
static Res rf1(const Tok& a) { return Res(mix(a.v, 0, 0, 0, 0)); }
static Res rf2(const Tok& a, int b) { return Res(mix(a.v, b, 0, 0, 0)); }
static Res rf3(int a, int b, int c) { return Res(mix(a, b, c, 0, 0)); }
static Res rf4(int a, int b, int c, int d) { return Res(mix(a, b, c, d, 0)); }
static Res rf5(int a, int b, int c, int d, int e) { return Res(mix(a, b, c, d, e)); }
static void vf0() { g_voidOut[0] = 7; }
static void vf1(int a) { g_voidOut[1] = mix(a, 0, 0, 0, 0); }
static void vf2(int a, int b) { g_voidOut[2] = mix(a, b, 0, 0, 0); }
static void vf3(int a, int b, int c) { g_voidOut[3] = mix(a, b, c, 0, 0); }
static void vf4(int a, int b, int c, int d) { g_voidOut[4] = mix(a, b, c, d, 0); }
static void vf5(int a, int b, int c, int d, int e) { g_voidOut[5] = mix(a, b, c, d, e); }
struct Obj
{
  int base;
  Res m0() { return Res(base); }
  Res m1(int a) { return Res(base + mix(a, 0, 0, 0, 0)); }
  Res m2(int a, int b) { return Res(base + mix(a, b, 0, 0, 0)); }
  Res m3(int a, int b, int c) { return Res(base + mix(a, b, c, 0, 0)); }
  Res m4(int a, int b, int c, int d) { return Res(base + mix(a, b, c, d, 0)); }
  void w0() { g_voidOut[6] = base; }
  void w1(int a) { g_voidOut[7] = base + mix(a, 0, 0, 0, 0); }
  void w2(int a, int b) { g_voidOut[8] = base + mix(a, b, 0, 0, 0); }
  void w3(int a, int b, int c) { g_voidOut[9] = base + mix(a, b, c, 0, 0); }
  void w4(int a, int b, int c, int d) { g_voidOut[10] = base + mix(a, b, c, d, 0); }
};
static int g_arityOk = 0;
static void arityCheck(const char* what, int got, int exp)
{
  if(got == exp) { ++g_arityOk; printf("E 0 arity %s ok %d\n", what, got); } else printf("X arity-wrong-value %s got=%d expected=%d\n", what, got, exp);
}
static int runArity(char* line)
{
  sched_set_devs(0, 0, 0); sched_set_create_failures(0);
  sched_reset(1, strstr(line, " pol=rand") ? 1 : 0, 0, 0, 200000, 0, 0, 0);
  sched_seed_only((unsigned long long)kv(line, "seed", 1));
  printf("P 0\nH 0\n");
  g_pool = new Pool(0, 3, (usize)kv(line, "q", 2)); g_poolAlive = true; FP::_threadPool = g_pool;
  {
    int a = 1, b = 2, c = 3, d = 4, e = 5; Tok t(6);
#define CLOBBER() (a = b = c = d = e = 9, t.v = 9)
#define RESET() (a = 1, b = 2, c = 3, d = 4, e = 5, t.v = 6)
    Future<Res> f; Obj o; o.base = 500000;
    f.start(rf0); CLOBBER(); arityCheck("A.Args0", ((const Res&)f).v, 7); RESET();
    f.start(rf1, t); CLOBBER(); arityCheck("A.Args1", ((const Res&)f).v, mix(6, 0, 0, 0, 0)); RESET();
    f.start(rf2, t, b); CLOBBER(); arityCheck("A.Args2", ((const Res&)f).v, mix(6, 2, 0, 0, 0)); RESET();
    f.start(rf3, a, b, c); CLOBBER(); arityCheck("A.Args3", ((const Res&)f).v, mix(1, 2, 3, 0, 0)); RESET();
    f.start(rf4, a, b, c, d); CLOBBER(); arityCheck("A.Args4", ((const Res&)f).v, mix(1, 2, 3, 4, 0)); RESET();
    f.start(rf5, a, b, c, d, e); CLOBBER(); arityCheck("A.Args5", ((const Res&)f).v, mix(1, 2, 3, 4, 5)); RESET();
    f.start(o, &Obj::m0); CLOBBER(); arityCheck("A.Member.Args0", ((const Res&)f).v, 500000); RESET();
    f.start(o, &Obj::m1, a); CLOBBER(); arityCheck("A.Member.Args1", ((const Res&)f).v, 500000 + mix(1, 0, 0, 0, 0)); RESET();
    f.start(o, &Obj::m2, a, b); CLOBBER(); arityCheck("A.Member.Args2", ((const Res&)f).v, 500000 + mix(1, 2, 0, 0, 0)); RESET();
    f.start(o, &Obj::m3, a, b, c); CLOBBER(); arityCheck("A.Member.Args3", ((const Res&)f).v, 500000 + mix(1, 2, 3, 0, 0)); RESET();
    f.start(o, &Obj::m4, a, b, c, d); CLOBBER(); arityCheck("A.Member.Args4", ((const Res&)f).v, 500000 + mix(1, 2, 3, 4, 0)); RESET();
    arityCheck("A.flags-after-conversion", (int)f.isFinished() * 2 + (int)f.isAborted() + (int)f.isAborting() * 4, 2);
    Future<void> g;
    g.start(vf0); CLOBBER(); g.join(); arityCheck("void.Args0", g_voidOut[0], 7); RESET();
    g.start(vf1, a); CLOBBER(); g.join(); arityCheck("void.Args1", g_voidOut[1], mix(1, 0, 0, 0, 0)); RESET();
    g.start(vf2, a, b); CLOBBER(); g.join(); arityCheck("void.Args2", g_voidOut[2], mix(1, 2, 0, 0, 0)); RESET();
    g.start(vf3, a, b, c); CLOBBER(); g.join(); arityCheck("void.Args3", g_voidOut[3], mix(1, 2, 3, 0, 0)); RESET();
    g.start(vf4, a, b, c, d); CLOBBER(); g.join(); arityCheck("void.Args4", g_voidOut[4], mix(1, 2, 3, 4, 0)); RESET();
    g.start(vf5, a, b, c, d, e); CLOBBER(); g.join(); arityCheck("void.Args5", g_voidOut[5], mix(1, 2, 3, 4, 5)); RESET();
    g.start(o, &Obj::w0); CLOBBER(); g.join(); arityCheck("void.Member.Args0", g_voidOut[6], 500000); RESET();
    g.start(o, &Obj::w1, a); CLOBBER(); g.join(); arityCheck("void.Member.Args1", g_voidOut[7], 500000 + mix(1, 0, 0, 0, 0)); RESET();
    g.start(o, &Obj::w2, a, b); CLOBBER(); g.join(); arityCheck("void.Member.Args2", g_voidOut[8], 500000 + mix(1, 2, 0, 0, 0)); RESET();
    g.start(o, &Obj::w3, a, b, c); CLOBBER(); g.join(); arityCheck("void.Member.Args3", g_voidOut[9], 500000 + mix(1, 2, 3, 0, 0)); RESET();
    g.start(o, &Obj::w4, a, b, c, d); CLOBBER(); g.join(); arityCheck("void.Member.Args4", g_voidOut[10], 500000 + mix(1, 2, 3, 4, 0)); RESET();
    g.abort(); arityCheck("void.isAborting-after-abort", (int)g.isAborting(), 1);
    g.start(vf0); arityCheck("void.isAborting-cleared-by-start", (int)g.isAborting(), 0); g.abort(); g.join();
    arityCheck("void.flags-after-join", (int)(g.isFinished() || g.isAborted()) + 2 * (int)(g.isFinished() && g.isAborted()), 1);
  }
  printf("E 0 arity-total %d live=%d\n", g_arityOk, g_liveToks);
  Pool* p = curPool(); delete p; g_poolAlive = false; FP::_threadPool = 0; g_pool = 0;
  printf("E 0 pool-deleted\n");
  sched_main_done();
  return 0;
}

static int runScenario(char* line)
{
  // split off the client scripts
  char* bar = strchr(line, '|'); if(!bar) return 2; *bar = 0;
  int q = (int)kv(line, "q", 2), mn = (int)kv(line, "min", 0), mx = (int)kv(line, "max", 3), lazy = (int)kv(line, "lazy", 0);
  long tick = kv(line, "tick", 0), maxsteps = 20000;
  if(kv(line, "flush", 0)) setvbuf(stdout, 0, _IOLBF, 1 << 16);
  { const char* p = strstr(line, " bound="); if(p) maxsteps = strtol(p + 7, 0, 10); }
  int sp = (int)kv(line, "sp", 0); long seed = kv(line, "seed", 1);
  int pol = strstr(line, " pol=rand") ? 1 : 0;
  static int pre[100000]; int npre = 0;
  { const char* p = strstr(line, " pre="); if(p) { p += 5; while(*p && *p != ' ' && *p != '-') { pre[npre++] = (int)strtol(p, (char**)&p, 10); if(*p == ',') ++p; } } }
  nclients = 0;
  char* s = bar + 1;
  while(s && nclients < MAXC)
  {
    char* nb = strchr(s, '|'); if(nb) *nb = 0;
    Client& c = clients[nclients]; c.n = 0;
    for(char* t = strtok(s, " \t\r\n"); t && c.n < MAXOPS; t = strtok(0, " \t\r\n"))
    {
      Op o; o.kind = t[0]; o.a = o.b = 0; char* e; o.f = (int)strtol(t + 1, &e, 10);
      if(*e == ':') { o.a = (int)strtol(e + 1, &e, 10); if(*e == ':') o.b = (int)strtol(e + 1, &e, 10); }
      if(!strchr("sSjJraAqQdD", o.kind) || o.f < 0 || o.f >= NF) return 2;
      c.ops[c.n++] = o;
    }
    ++nclients;
    s = nb ? nb + 1 : 0;
  }
  static int dsteps[100000], dthreads[100000]; int ndev = 0;
  { const char* p = strstr(line, " dev="); if(p) { p += 5; while(*p && *p != ' ' && *p != '-') { dsteps[ndev] = (int)strtol(p, (char**)&p, 10); if(*p == ':') ++p; dthreads[ndev] = (int)strtol(p, (char**)&p, 10); ++ndev; if(*p == ',') ++p; } } }
  sched_set_devs(dsteps, dthreads, ndev);
  g_ncpu = (uint)kv(line, "ncpu", 4);
  int split = (int)kv(line, "split", 0);
  sched_set_create_failures((unsigned)kv(line, "cf", 0));   // cf=<mask>: which creations of pool workers fail (Thread::start returns false)
  sched_reset((unsigned long long)seed, pol, pre, npre, maxsteps, sp, tick, split);
  printf("P %d\n", split);
#ifdef NSTD_VERIF_FUTURE_HOOKS
  printf("H 1\n");   // the library sources carry the yield hooks at plain accesses (fixes/future/hook-0001-*.patch)
#else
  printf("H 0\n");
#endif
  for(int k = 0; k < NF; ++k) { new (fiMem[k]) Future<Res>; new (fvMem[k]) Future<void>; }
  if(!lazy)
  {
    g_inPoolCtor = 1; g_pool = new Pool((usize)mn, (usize)mx, (usize)q); g_inPoolCtor = 0; g_poolAlive = true;
    FP::_threadPool = g_pool;
  }
  else g_poolAlive = true; // name look-ups go through FP::_threadPool once startProc has created it
  for(int i = 0; i < nclients; ++i) clients[i].thread.start(clientProc, &clients[i]);
  for(int i = 0; i < nclients; ++i) clients[i].thread.join();
  printf("E 0 clients-joined\n");
  Pool* p = curPool();
  if(lazy) FP::Framework::framework.~Framework();   // the library's own shutdown of the lazily created pool: `if (_threadPool) delete _threadPool;` (model: frame mDel)
  else if(p) { delete p; }
  g_poolAlive = false; FP::_threadPool = 0; g_pool = 0;
  printf("E 0 pool-deleted\n");
  sched_main_done();
  return 0;
}

int main()
{
  static char line[1 << 20];
  setvbuf(stdout, 0, _IOFBF, 1 << 16);
  while(fgets(line, sizeof(line), stdin))
  {
    bool arity = strncmp(line, "arity ", 6) == 0;
    if(strncmp(line, "run ", 4) != 0 && !arity) { if(line[0] != '\n') { printf("bad-request\nend 2\n"); fflush(stdout); } continue; }
    fflush(stdout);
    pid_t c = fork();
    if(c == 0) { alarm(30); int r = arity ? runArity(line + 5) : runScenario(line + 3); printf("bad-scenario\n"); fflush(stdout); nv_leave(r ? r : 3); }
    int st = 0; waitpid(c, &st, 0);
    if(WIFEXITED(st)) printf("end %d\n", WEXITSTATUS(st)); else printf("end signal %d\n", WIFSIGNALED(st) ? WTERMSIG(st) : -1);
    fflush(stdout);
  }
  return 0;
}
