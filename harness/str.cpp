// Line-protocol harness for String (property C06).  Executes the op lines of
// lean/Nstd/Str/Driver.lean on the real include/nstd/String.hpp + src/String.cpp.
#include "common/hx.h"
#define private public
#include <nstd/String.hpp>
#undef private
#include <nstd/List.hpp>
#include <nstd/HashSet.hpp>
#include <nstd/Debug.hpp>
#include <stdarg.h>
#include <unistd.h>

// String.cpp reports failed assertions through Debug::printf; Debug.cpp drags in Process, so
// the harness supplies the function: a failed library assertion is printed and aborts.
int Debug::printf(const char* format, ...)
{
  va_list ap;
  va_start(ap, format);
  fputs("FAULT assertion: ", stdout);
  vfprintf(stdout, format, ap);
  va_end(ap);
  fflush(stdout);
  abort();
  return 0;
}

// fresh allocations are poisoned: "unspecified" chars are recognisable and a missing
// terminator cannot hide behind a lucky zero
void* operator new[](usize size)
{
  void* p = malloc(size ? size : 1);
  memset(p, 0xAA, size);
  return p;
}
void operator delete[](void* p) { free(p); }
void* operator new(usize size) { return operator new[](size); }
void operator delete(void* p) { free(p); }

static const int NV = 4;
static const int NR = 4;
// foreign memory: two "literals" (with NUL) and two attached ranges (with one guard byte);
// exactly sized heap copies, so ASan sees any read behind the NUL / guard byte
static const unsigned char REG0[] = {97, 98, 0};
static const unsigned char REG1[] = {32, 97, 47, 66, 32, 0};
static const unsigned char REG2[] = {97, 98, 47, 32, 48, 0xEE};
static const unsigned char REG3[] = {98, 32, 97, 0};
static const unsigned char* const REGINIT[NR] = {REG0, REG1, REG2, REG3};
static const size_t REGSIZE[NR] = {sizeof(REG0), sizeof(REG1), sizeof(REG2), sizeof(REG3)};

static char* reg[NR];
alignas(String) static unsigned char storage[NV][sizeof(String)];
static String* var[NV];
static List<String>* toks;

static void resetAll()
{
  for(int i = 0; i < NV; ++i)
  {
    if(var[i]) var[i]->~String();
    var[i] = new(storage[i]) String;
  }
  delete toks;
  toks = new List<String>;
  for(int r = 0; r < NR; ++r)
  {
    free(reg[r]);
    reg[r] = (char*)malloc(REGSIZE[r]);
    memcpy(reg[r], REGINIT[r], REGSIZE[r]);
  }
}

static void observe()
{
  for(int i = 0; i < NV; ++i)
  {
    String& s = *var[i];
    if(i) printf(" | ");
    printf("%lu ", (unsigned long)s.data->len);
    hxPutHex(s.data->str, s.data->len);
    printf(" ");
    hxPutHex(s.data->str + s.data->len, 1);
    printf(" %d", s.data->ref != 0 ? 1 : 0);
  }
  printf(" # ");
  for(int r = 0; r < NR; ++r)
  {
    if(r) printf(" ");
    hxPutHex(reg[r], REGSIZE[r]);
  }
  hxEndLine();
}

static bool isVar(const char* t, int& v)
{
  if(!t[0] || t[1] || t[0] < '0' || t[0] >= '0' + NV)
    return false;
  v = t[0] - '0';
  return true;
}

static bool isByte(const char* t, unsigned& c)
{
  char* e;
  unsigned long x = strtoul(t, &e, 10);
  if(*e || e == t || x > 255) return false;
  c = (unsigned)x;
  return true;
}

static bool isHexTok(const char* t)
{
  if(strcmp(t, "-") == 0) return true;
  size_t n = strlen(t);
  if(n % 2) return false;
  for(size_t i = 0; i < n; ++i)
    if(hxNib(t[i]) < 0) return false;
  return true;
}

static bool nulFree(const char* p, size_t n)
{
  for(size_t i = 0; i < n; ++i)
    if(!p[i]) return false;
  return true;
}

// an operand: variable or `x<hex>` temporary
struct Operand
{
  String* s;
  String* tmp;
  char* bytes;
  Operand() : s(0), tmp(0), bytes(0) {}
  bool parse(const char* t)
  {
    int v;
    if(t[0] == 'x' && isHexTok(t + 1))
    {
      size_t len;
      bytes = (char*)hxBytes(t + 1, len);
      tmp = new String(bytes, len);
      s = tmp;
      return true;
    }
    if(isVar(t, v)) { s = var[v]; return true; }
    return false;
  }
  ~Operand() { delete tmp; free(bytes); }
};

union Arg { int d; unsigned u; long long q; unsigned long long w; const char* s; int c; };

// `out == 0`: s.printf(f, …);  else: *out = String::fromPrintf(f, …)
#define PF(...) (out ? ((*out = String::fromPrintf(__VA_ARGS__)), 0) : s.printf(__VA_ARGS__))

template<typename A> static int call2(String& s, String* out, const char* f, A a, char k2, const Arg& b)
{
  switch(k2)
  {
  case 0: return PF(f, a);
  case 'D': return PF(f, a, b.d);
  case 'U': return PF(f, a, b.u);
  case 'Q': return PF(f, a, b.q);
  case 'W': return PF(f, a, b.w);
  case 'S': return PF(f, a, b.s);
  default: return PF(f, a, b.c);
  }
}

static int call1(String& s, String* out, const char* f, char k1, const Arg& a, char k2, const Arg& b)
{
  switch(k1)
  {
  case 0: return PF(f, 0); // no directive at all (the argument is ignored)
  case 'D': return call2(s, out, f, a.d, k2, b);
  case 'U': return call2(s, out, f, a.u, k2, b);
  case 'Q': return call2(s, out, f, a.q, k2, b);
  case 'W': return call2(s, out, f, a.w, k2, b);
  case 'S': return call2(s, out, f, a.s, k2, b);
  default: return call2(s, out, f, a.c, k2, b);
  }
}

// one conversion `%[flags][width][.prec][l|ll]<conv>` (or `%%`) among literal chars; returns the conversion char or 0
static char fmtConv(const char* f)
{
  char conv = 0;
  for(const char* p = f; *p; ++p)
  {
    if(*p != '%') continue;
    ++p;
    if(*p == '%') continue;
    if(conv) return 0;
    while(*p && strchr("-+ 0#", *p)) ++p;
    while(*p >= '0' && *p <= '9') ++p;
    if(*p == '.') { ++p; while(*p >= '0' && *p <= '9') ++p; }
    while(*p == 'l') ++p;
    if(!*p || !strchr("diuxXocsfeEgG", *p)) return 0;
    conv = *p;
  }
  return conv;
}

static void idx(const char* p, const String& s)
{
  if(p) printf("%ld", (long)(p - s.data->str));
  else printf("-1");
}

#define BAD() do { printf("bad-op"); hxEndLine(); goto next; } while(0)

int main()
{
  static HxLine l;
  resetAll();
  while(hxRead(l))
  {
    alarm(60); // an op that does not return within 60 s kills the run: a result attributed to this line
    {
    int v = 0, w = 0, w2 = 0;
    unsigned c = 0, c2 = 0;
    size_t len = 0, len2 = 0;
    char* d = 0;
    char* d2 = 0;
    bool printed = false;
    if(hxIs(l, "reset", 0)) { resetAll(); printf("- ; "); observe(); continue; }
    // ---- static helpers on C strings / chars (no String variable involved) ----
    {
      const char* op = l.tok[0];
      bool two = !strcmp(op, "sCompare") || !strcmp(op, "sCompareIC") || !strcmp(op, "sFind") || !strcmp(op, "sFindOneOf") ||
                 !strcmp(op, "sFindLast") || !strcmp(op, "sFindLastOf");
      bool twoN = !strcmp(op, "sCompareN") || !strcmp(op, "sCompareICN");
      bool oneC = !strcmp(op, "sFindC") || !strcmp(op, "sFindLastC");
      if((two && l.ntok == 3) || (twoN && l.ntok == 4) || (oneC && l.ntok == 3) || hxIs(l, "sLength", 1) || hxIs(l, "sStartsWith", 2))
      {
        if(!isHexTok(l.tok[1])) BAD();
        char* a = hxCStr(l.tok[1], len);
        if(!nulFree(a, len)) { free(a); BAD(); }
        char* b = 0;
        if(two || twoN)
        {
          if(!isHexTok(l.tok[2])) { free(a); BAD(); }
          b = hxCStr(l.tok[2], len2);
          if(!nulFree(b, len2)) { free(a); free(b); BAD(); }
        }
        if(!strcmp(op, "sCompare")) printf("%d", String::compare(a, b));
        else if(!strcmp(op, "sCompareN")) printf("%d", String::compare(a, b, hxNum(l, 3)));
        else if(!strcmp(op, "sCompareIC")) printf("%d", String::compareIgnoreCase(a, b));
        else if(!strcmp(op, "sCompareICN")) printf("%d", String::compareIgnoreCase(a, b, hxNum(l, 3)));
        else if(!strcmp(op, "sLength")) printf("%lu", (unsigned long)String::length(a));
        else if(oneC)
        {
          if(!isByte(l.tok[2], c)) { free(a); BAD(); }
          const char* r = op[5] == 'C' ? String::find(a, (char)c) : String::findLast(a, (char)c);
          printf("%ld", r ? (long)(r - a) : -1L);
        }
        else if(!strcmp(op, "sStartsWith"))
        {
          Operand x;
          if(!x.parse(l.tok[2])) { free(a); BAD(); }
          printf("%d", (int)String::startsWith(a, *x.s));
        }
        else
        {
          const char* r = !strcmp(op, "sFind") ? String::find(a, b) : !strcmp(op, "sFindOneOf") ? String::findOneOf(a, b) :
                          !strcmp(op, "sFindLast") ? String::findLast(a, b) : String::findLastOf(a, b);
          printf("%ld", r ? (long)(r - a) : -1L);
        }
        free(a); free(b);
        printf(" ; "); observe(); continue;
      }
      if(hxIs(l, "isSpace", 1) || hxIs(l, "toLowerC", 1) || hxIs(l, "toUpperC", 1) || hxIs(l, "ctype", 2))
      {
        bool ct = l.tok[0][0] == 'c';
        if(!isByte(l.tok[ct ? 2 : 1], c)) BAD();
        char ch = (char)c;
        if(!strcmp(op, "isSpace")) printf("%d", (int)String::isSpace(ch));
        else if(!strcmp(op, "toLowerC")) printf("%u", (unsigned)(unsigned char)String::toLowerCase(ch));
        else if(!strcmp(op, "toUpperC")) printf("%u", (unsigned)(unsigned char)String::toUpperCase(ch));
        else
        {
          const char* k = l.tok[1];
          int r;
          if(!strcmp(k, "alnum")) r = String::isAlphanumeric(ch);
          else if(!strcmp(k, "alpha")) r = String::isAlpha(ch);
          else if(!strcmp(k, "digit")) r = String::isDigit(ch);
          else if(!strcmp(k, "lower")) r = String::isLowerCase(ch);
          else if(!strcmp(k, "print")) r = String::isPrint(ch);
          else if(!strcmp(k, "punct")) r = String::isPunct(ch);
          else if(!strcmp(k, "upper")) r = String::isUpperCase(ch);
          else if(!strcmp(k, "xdigit")) r = String::isHexDigit(ch);
          else BAD();
          printf("%d", r);
        }
        printf(" ; "); observe(); continue;
      }
    }
    if(l.ntok < 2 || !isVar(l.tok[1], v)) BAD();
    {
    String& s = *var[v];
    if(hxIs(l, "new", 1)) { s.~String(); new(storage[v]) String; }
    else if(hxIs(l, "lit", 2))
    {
      unsigned long r = hxNum(l, 2);
      if(r == 0) { s.~String(); new(storage[v]) String(*(const char(*)[sizeof(REG0)])reg[0]); }
      else if(r == 1) { s.~String(); new(storage[v]) String(*(const char(*)[sizeof(REG1)])reg[1]); }
      else BAD();
    }
    else if(hxIs(l, "attach", 4))
    {
      unsigned long r = hxNum(l, 2), o = hxNum(l, 3), n = hxNum(l, 4);
      if(r >= (unsigned long)NR || o + n > REGSIZE[r] - 1) BAD();
      s.attach(reg[r] + o, n);
    }
    else if(hxIs(l, "copy", 2))
    {
      if(!isVar(l.tok[2], w) || v == w) BAD();
      s.~String(); new(storage[v]) String(*var[w]);
    }
    else if(hxIs(l, "ptr", 2)) { if(!isHexTok(l.tok[2])) BAD(); d = (char*)hxBytes(l.tok[2], len); s.~String(); new(storage[v]) String(d, len); }
    else if(hxIs(l, "fill", 3)) { if(!isByte(l.tok[3], c)) BAD(); s.~String(); new(storage[v]) String((usize)hxNum(l, 2), (char)c); }
    else if(hxIs(l, "cap", 2)) { s.~String(); new(storage[v]) String((usize)hxNum(l, 2)); }
    else if(hxIs(l, "assign", 2)) { if(!isVar(l.tok[2], w)) BAD(); s = *var[w]; }
    else if(hxIs(l, "clear", 1)) s.clear();
    else if(hxIs(l, "detach", 1)) s.detach();
    else if(hxIs(l, "cstr", 1)) { const char* p = s; (void)p; }
    else if(hxIs(l, "resize", 2)) s.resize(hxNum(l, 2));
    else if(hxIs(l, "reserve", 2)) s.reserve(hxNum(l, 2));
    else if(hxIs(l, "fillfrom", 3))
    {
      if(!isByte(l.tok[3], c)) BAD();
      char* p = s;
      for(usize i = hxNum(l, 2); i < s.length(); ++i) p[i] = (char)c;
    }
    else if(hxIs(l, "appendS", 2)) { if(!isVar(l.tok[2], w)) BAD(); s.append(*var[w]); }
    else if(hxIs(l, "append", 2)) { if(!isHexTok(l.tok[2])) BAD(); d = (char*)hxBytes(l.tok[2], len); s.append(d, len); }
    else if(hxIs(l, "appendC", 2)) { if(!isByte(l.tok[2], c)) BAD(); s.append((char)c); }
    else if(hxIs(l, "prependS", 2)) { if(!isVar(l.tok[2], w)) BAD(); s.prepend(*var[w]); }
    else if(hxIs(l, "prepend", 2)) { if(!isHexTok(l.tok[2])) BAD(); d = (char*)hxBytes(l.tok[2], len); s.prepend(d, len); }
    else if(hxIs(l, "appendA", 3) || hxIs(l, "prependA", 3))
    {
      // a pointer into the string's own storage, taken through the C string view before the call
      usize o = hxNum(l, 2), n = hxNum(l, 3);
      if(o + n > s.length()) BAD();
      const char* p = s;
      if(l.tok[0][0] == 'a') s.append(p + o, n);
      else s.prepend(p + o, n);
    }
    else if(hxIs(l, "replaceC", 3)) { if(!isByte(l.tok[2], c) || !isByte(l.tok[3], c2)) BAD(); s.replace((char)c, (char)c2); }
    else if(hxIs(l, "lower", 1)) s.toLowerCase();
    else if(hxIs(l, "upper", 1)) s.toUpperCase();
    else if(hxIs(l, "substr", 4)) { if(!isVar(l.tok[2], w)) BAD(); s = var[w]->substr((ssize)hxInt(l, 3), (ssize)hxInt(l, 4)); }
    else if(hxIs(l, "trim", 2)) { if(!isHexTok(l.tok[2])) BAD(); d = hxCStr(l.tok[2], len); if(!nulFree(d, len)) { free(d); BAD(); } s.trim(d); }
    else if(hxIs(l, "replaceS", 3)) { if(!isVar(l.tok[2], w) || !isVar(l.tok[3], w2)) BAD(); s.replace(*var[w], *var[w2]); }
    else if(hxIs(l, "replaceL", 3))
    {
      if(!isHexTok(l.tok[2]) || !isHexTok(l.tok[3])) BAD();
      d = (char*)hxBytes(l.tok[2], len);
      d2 = (char*)hxBytes(l.tok[3], len2);
      String n(d, len), r(d2, len2);
      s.replace(n, r);
    }
    else if(hxIs(l, "tokenC", 4))
    {
      if(!isVar(l.tok[2], w) || !isByte(l.tok[3], c)) BAD();
      usize start = hxNum(l, 4);
      s = var[w]->token((char)c, start);
      printf("%lu ; ", (unsigned long)start);
      printed = true;
    }
    else if(hxIs(l, "tokenS", 4))
    {
      if(!isVar(l.tok[2], w) || !isHexTok(l.tok[3])) BAD();
      d = hxCStr(l.tok[3], len);
      if(!nulFree(d, len)) { free(d); BAD(); }
      usize start = hxNum(l, 4);
      s = var[w]->token(d, start);
      printf("%lu ; ", (unsigned long)start);
      printed = true;
    }
    else if(hxIs(l, "split", 3))
    {
      if(!isHexTok(l.tok[2])) BAD();
      d = hxCStr(l.tok[2], len);
      if(!nulFree(d, len)) { free(d); BAD(); }
      usize n = s.split(*toks, d, hxNum(l, 3) != 0);
      printf("%lu", (unsigned long)n);
      for(List<String>::Iterator i = toks->begin(), end = toks->end(); i != end; ++i)
      {
        printf(" ");
        hxPutHex(i->data->str, i->data->len);
      }
      printf(" ; ");
      printed = true;
    }
    else if(hxIs(l, "join", 2)) { if(!isByte(l.tok[2], c)) BAD(); s.join(*toks, (char)c); }
    else if(hxIs(l, "plusEqS", 2)) { if(!isVar(l.tok[2], w)) BAD(); s += *var[w]; }
    else if(hxIs(l, "plusEqC", 2)) { if(!isByte(l.tok[2], c)) BAD(); s += (char)c; }
    else if(hxIs(l, "plus", 3)) { if(!isVar(l.tok[2], w) || !isVar(l.tok[3], w2)) BAD(); s = *var[w] + *var[w2]; }
    else if(hxIs(l, "plusLit", 3))
    {
      if(!isVar(l.tok[2], w)) BAD();
      unsigned long r = hxNum(l, 3);
      if(r == 0) s = *var[w] + *(const char(*)[sizeof(REG0)])reg[0];
      else if(r == 1) s = *var[w] + *(const char(*)[sizeof(REG1)])reg[1];
      else BAD();
    }
    else if(hxIs(l, "fromCStr", 2)) { if(!isHexTok(l.tok[2])) BAD(); d = hxCStr(l.tok[2], len); if(!nulFree(d, len)) { free(d); BAD(); } s = String::fromCString(d); }
    else if(hxIs(l, "fromCStrN", 2)) { if(!isHexTok(l.tok[2])) BAD(); d = (char*)hxBytes(l.tok[2], len); s = String::fromCString(d, len); }
    else if(hxIs(l, "fromBool", 2)) { unsigned long b = hxNum(l, 2); if(b > 1) BAD(); s = String::fromBool(b == 1); }
    else if(hxIs(l, "fromInt", 2)) { long long x = strtoll(l.tok[2], 0, 10); if(x < -2147483648LL || x > 2147483647LL) BAD(); s = String::fromInt((int)x); }
    else if(hxIs(l, "fromInt64", 2)) { s = String::fromInt64((int64)strtoll(l.tok[2], 0, 10)); }
    else if(hxIs(l, "fromUInt", 2)) { unsigned long long x = strtoull(l.tok[2], 0, 10); if(x > 4294967295ULL || l.tok[2][0] == '-') BAD(); s = String::fromUInt((uint)x); }
    else if(hxIs(l, "fromUInt64", 2)) { if(l.tok[2][0] == '-') BAD(); s = String::fromUInt64((uint64)strtoull(l.tok[2], 0, 10)); }
    else if(hxIs(l, "printfX", 4))
    {
      // s.printf(<any format with one conversion>, <argument>); the 4th token (the expected text) is for the model
      if(!isHexTok(l.tok[2]) || !isHexTok(l.tok[4])) BAD();
      d = hxCStr(l.tok[2], len);
      if(!nulFree(d, len)) BAD();
      char conv = fmtConv(d);
      const char* a = l.tok[3];
      char k = a[0];
      bool ll = strstr(d, "ll") != 0;
      int r;
      if(k == 'D' && conv && strchr("di", conv) && !ll) r = s.printf(d, (int)strtol(a + 1, 0, 10));
      else if(k == 'U' && conv && strchr("uxXo", conv) && !ll) r = s.printf(d, (unsigned)strtoul(a + 1, 0, 10));
      else if(k == 'Q' && conv && strchr("di", conv) && ll) r = s.printf(d, (long long)strtoll(a + 1, 0, 10));
      else if(k == 'W' && conv && strchr("uxXo", conv) && ll) r = s.printf(d, (unsigned long long)strtoull(a + 1, 0, 10));
      else if(k == 'C' && conv == 'c') { if(!isByte(a + 1, c) || !c) BAD(); r = s.printf(d, (int)c); }
      else if(k == 'F' && conv && strchr("feEgG", conv) && !ll) r = s.printf(d, strtod(a + 1, 0));
      else if(k == 'S' && conv == 's')
      {
        if(!isHexTok(a + 1)) BAD();
        d2 = hxCStr(a + 1, len2);
        if(!nulFree(d2, len2)) BAD();
        r = s.printf(d, d2);
      }
      else BAD();
      printf("%d ; ", r);
      printed = true;
    }
    else if(hxIs(l, "fromDouble", 3)) { if(!isHexTok(l.tok[3])) BAD(); s = String::fromDouble(strtod(l.tok[2], 0)); }
    else if(hxIs(l, "scanfD", 3))
    {
      int x = 0;
      int n = s.scanf("%d", &x);
      printf("%d %d ; ", n, x);
      printed = true;
    }
    else if(hxIs(l, "trimD", 1)) s.trim();
    else if(hxIs(l, "substr1", 3)) { if(!isVar(l.tok[2], w)) BAD(); s = var[w]->substr((ssize)hxInt(l, 3)); }
    else if(hxIs(l, "splitD", 2) || hxIs(l, "splitSet", 3))
    {
      if(!isHexTok(l.tok[2])) BAD();
      d = hxCStr(l.tok[2], len);
      if(!nulFree(d, len)) { free(d); BAD(); }
      if(l.tok[0][5] == 'D')
      {
        usize n = s.split(*toks, d);
        printf("%lu", (unsigned long)n);
        for(List<String>::Iterator i = toks->begin(), end = toks->end(); i != end; ++i)
        {
          printf(" ");
          hxPutHex(i->data->str, i->data->len);
        }
      }
      else
      {
        HashSet<String> set;
        usize n = s.split(set, d, hxNum(l, 3) != 0);
        printf("%lu", (unsigned long)n);
        for(HashSet<String>::Iterator i = set.begin(), end = set.end(); i != end; ++i)
        {
          printf(" ");
          hxPutHex(i->data->str, i->data->len);
        }
      }
      printf(" ; ");
      printed = true;
    }
    else if(hxIs(l, "attachA", 3))
    {
      usize o = hxNum(l, 2), n = hxNum(l, 3);
      if(o + n > s.length()) BAD();
      const char* p = s;
      s.attach(p + o, n);
    }
    else if(hxIs(l, "printfA", 3))
    {
      if(!isHexTok(l.tok[2]) || !isHexTok(l.tok[3])) BAD();
      d = hxCStr(l.tok[2], len);
      d2 = hxCStr(l.tok[3], len2);
      if(!nulFree(d, len) || !nulFree(d2, len2) || memchr(d, '%', len) || memchr(d2, '%', len2)) { free(d); free(d2); BAD(); }
      char* f = (char*)malloc(len + len2 + 3);
      memcpy(f, d, len); f[len] = '%'; f[len + 1] = 's'; memcpy(f + len + 2, d2, len2 + 1);
      const char* p = s;
      int r = s.printf(f, p);
      free(f);
      printf("%d ; ", r);
      printed = true;
    }
    else if(hxIs(l, "capacity", 1)) { printf("%lu ; ", (unsigned long)s.capacity()); printed = true; }
    else if(hxIs(l, "isEmpty", 1)) { printf("%d ; ", (int)s.isEmpty()); printed = true; }
    else if(hxIs(l, "eqLit", 2) || hxIs(l, "neLit", 2))
    {
      unsigned long r = hxNum(l, 2);
      bool ne = l.tok[0][0] == 'n';
      bool res;
      if(r == 0) res = ne ? s != *(const char(*)[sizeof(REG0)])reg[0] : s == *(const char(*)[sizeof(REG0)])reg[0];
      else if(r == 1) res = ne ? s != *(const char(*)[sizeof(REG1)])reg[1] : s == *(const char(*)[sizeof(REG1)])reg[1];
      else BAD();
      printf("%d ; ", (int)res);
      printed = true;
    }
    else if(l.ntok >= 2 && (strcmp(l.tok[0], "printf") == 0 || strcmp(l.tok[0], "fromPrintf") == 0))
    {
      bool from = l.tok[0][0] == 'f';
      static char fmt[1 << 16];
      size_t fl = 0;
      char kinds[2] = {0, 0};
      Arg args[2];
      char* strs[2] = {0, 0};
      int nd = 0;
      bool ok = true;
      for(int i = 2; i < l.ntok && ok; ++i)
      {
        const char* t = l.tok[i];
        char k = t[0];
        if(k == 'L')
        {
          if(!isHexTok(t + 1)) { ok = false; break; }
          size_t n;
          unsigned char* b = hxBytes(t + 1, n);
          for(size_t j = 0; j < n; ++j) { if(!b[j] || b[j] == '%') ok = false; fmt[fl++] = (char)b[j]; }
          free(b);
          continue;
        }
        if(nd == 2 || !strchr("DUQWSC", k) || !k) { ok = false; break; }
        kinds[nd] = k;
        fmt[fl++] = '%';
        switch(k)
        {
        case 'D': { long long x = strtoll(t + 1, 0, 10); if(x < -2147483648LL || x > 2147483647LL) ok = false; args[nd].d = (int)x; fmt[fl++] = 'd'; break; }
        case 'U': { unsigned long long x = strtoull(t + 1, 0, 10); if(x > 4294967295ULL || t[1] == '-') ok = false; args[nd].u = (unsigned)x; fmt[fl++] = 'u'; break; }
        case 'Q': args[nd].q = strtoll(t + 1, 0, 10); fmt[fl++] = 'l'; fmt[fl++] = 'l'; fmt[fl++] = 'd'; break;
        case 'W': if(t[1] == '-') ok = false; args[nd].w = strtoull(t + 1, 0, 10); fmt[fl++] = 'l'; fmt[fl++] = 'l'; fmt[fl++] = 'u'; break;
        case 'S':
        {
          if(!isHexTok(t + 1)) { ok = false; break; }
          size_t n;
          strs[nd] = hxCStr(t + 1, n);
          if(!nulFree(strs[nd], n)) ok = false;
          args[nd].s = strs[nd];
          fmt[fl++] = 's';
          break;
        }
        default: { unsigned x; if(!isByte(t + 1, x) || !x) ok = false; else args[nd].c = (int)x; fmt[fl++] = 'c'; break; }
        }
        ++nd;
      }
      fmt[fl] = 0;
      if(!ok) { free(strs[0]); free(strs[1]); BAD(); }
      // the format is handed over as an exactly sized heap copy
      char* f = (char*)malloc(fl + 1);
      memcpy(f, fmt, fl + 1);
      String result;
      int r = call1(s, from ? &result : 0, f, kinds[0], args[0], kinds[1], args[1]);
      free(f); free(strs[0]); free(strs[1]);
      if(from) s = result;
      else { printf("%d ; ", r); printed = true; }
    }
    else if(l.ntok >= 3 && (hxIs(l, "compare", 2) || hxIs(l, "compareIC", 2) || hxIs(l, "eq", 2) || hxIs(l, "eqIC", 2) ||
                            hxIs(l, "startsWith", 2) || hxIs(l, "endsWith", 2) || hxIs(l, "compareN", 3) || hxIs(l, "compareICN", 3) ||
                            hxIs(l, "prependX", 2) || hxIs(l, "appendX", 2) || hxIs(l, "ne", 2) || hxIs(l, "lt", 2) || hxIs(l, "le", 2) ||
                            hxIs(l, "gt", 2) || hxIs(l, "ge", 2) || hxIs(l, "eqICN", 3)))
    {
      Operand x;
      if(!x.parse(l.tok[2])) BAD();
      const char* op = l.tok[0];
      if(!strcmp(op, "compare")) printf("%d ; ", s.compare(*x.s));
      else if(!strcmp(op, "compareN")) printf("%d ; ", s.compare(*x.s, hxNum(l, 3)));
      else if(!strcmp(op, "compareIC")) printf("%d ; ", s.compareIgnoreCase(*x.s));
      else if(!strcmp(op, "compareICN")) printf("%d ; ", s.compareIgnoreCase(*x.s, hxNum(l, 3)));
      else if(!strcmp(op, "eq"))
      {
        bool e = s == *x.s, n = s != *x.s;
        printf(e == !n ? "%d ; " : "inconsistent%d ; ", (int)e);
      }
      else if(!strcmp(op, "eqIC")) printf("%d ; ", (int)s.equalsIgnoreCase(*x.s));
      else if(!strcmp(op, "eqICN")) printf("%d ; ", (int)s.equalsIgnoreCase(*x.s, hxNum(l, 3)));
      else if(!strcmp(op, "ne")) printf("%d ; ", (int)(s != *x.s));
      else if(!strcmp(op, "lt")) printf("%d ; ", (int)(s < *x.s));
      else if(!strcmp(op, "le")) printf("%d ; ", (int)(s <= *x.s));
      else if(!strcmp(op, "gt")) printf("%d ; ", (int)(s > *x.s));
      else if(!strcmp(op, "ge")) printf("%d ; ", (int)(s >= *x.s));
      else if(!strcmp(op, "startsWith")) printf("%d ; ", (int)s.startsWith(*x.s));
      else if(!strcmp(op, "endsWith")) printf("%d ; ", (int)s.endsWith(*x.s));
      else if(!strcmp(op, "prependX")) { s.prepend(*x.s); printf("- ; "); }
      else { s.append(*x.s); printf("- ; "); }
      printed = true;
    }
    else if(hxIs(l, "findC", 2)) { if(!isByte(l.tok[2], c)) BAD(); idx(s.find((char)c), s); printf(" ; "); printed = true; }
    else if(hxIs(l, "findLastC", 2)) { if(!isByte(l.tok[2], c)) BAD(); idx(s.findLast((char)c), s); printf(" ; "); printed = true; }
    else if(hxIs(l, "findCFrom", 3)) { if(!isByte(l.tok[2], c)) BAD(); idx(s.find((char)c, hxNum(l, 3)), s); printf(" ; "); printed = true; }
    else if(hxIs(l, "findS", 2) || hxIs(l, "findOneOf", 2) || hxIs(l, "findLastS", 2) || hxIs(l, "findLastOf", 2) ||
            hxIs(l, "findSFrom", 3) || hxIs(l, "findOneOfFrom", 3))
    {
      if(!isHexTok(l.tok[2])) BAD();
      d = hxCStr(l.tok[2], len);
      if(!nulFree(d, len)) { free(d); BAD(); }
      const char* op = l.tok[0];
      const char* r;
      if(!strcmp(op, "findS")) r = s.find(d);
      else if(!strcmp(op, "findOneOf")) r = s.findOneOf(d);
      else if(!strcmp(op, "findLastS")) r = s.findLast(d);
      else if(!strcmp(op, "findLastOf")) r = s.findLastOf(d);
      else if(!strcmp(op, "findSFrom")) r = s.find(d, hxNum(l, 3));
      else r = s.findOneOf(d, hxNum(l, 3));
      idx(r, s);
      printf(" ; ");
      printed = true;
    }
    else if(hxIs(l, "toBool", 1)) { printf("%d ; ", (int)s.toBool()); printed = true; }
    else if(hxIs(l, "hash", 1)) { printf("%llu ; ", (unsigned long long)hash(s)); printed = true; }
    else BAD();
    }
    free(d);
    free(d2);
    if(!printed) printf("- ; ");
    observe();
    }
  next:;
  }
  return 0;
}
