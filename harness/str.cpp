// Line-protocol harness for String (property C06).  Executes the op lines of
// lean/Nstd/Str/Driver.lean on the real include/nstd/String.hpp + src/String.cpp.
#include "common/hx.h"
#define private public
#include <nstd/String.hpp>
#undef private
#include <nstd/List.hpp>
#include <nstd/Debug.hpp>
#include <stdarg.h>
#include <unistd.h>

// String.cpp reports failed assertions through Debug::printf; Debug.cpp drags in Process, so
// the harness supplies the function: a failed library assertion is printed and aborts.
int Debug::printf(const char* format, ...)
{
  va_list ap;
  va_start(ap, format);
  fputs("FAULT assertion: ", stdout);
  vfprintf(stdout, format, ap);
  va_end(ap);
  fflush(stdout);
  abort();
  return 0;
}

// fresh allocations are poisoned: "unspecified" chars are recognisable and a missing
// terminator cannot hide behind a lucky zero
void* operator new[](usize size)
{
  void* p = malloc(size ? size : 1);
  memset(p, 0xAA, size);
  return p;
}
void operator delete[](void* p) { free(p); }
void* operator new(usize size) { return operator new[](size); }
void operator delete(void* p) { free(p); }

static const int NV = 4;
static const int NR = 4;
// foreign memory: two "literals" (with NUL) and two attached ranges (with one guard byte);
// exactly sized heap copies, so ASan sees any read behind the NUL / guard byte
static const unsigned char REG0[] = {97, 98, 0};
static const unsigned char REG1[] = {32, 97, 47, 66, 32, 0};
static const unsigned char REG2[] = {97, 98, 47, 32, 48, 0xEE};
static const unsigned char REG3[] = {98, 32, 97, 0};
static const unsigned char* const REGINIT[NR] = {REG0, REG1, REG2, REG3};
static const size_t REGSIZE[NR] = {sizeof(REG0), sizeof(REG1), sizeof(REG2), sizeof(REG3)};

static char* reg[NR];
alignas(String) static unsigned char storage[NV][sizeof(String)];
static String* var[NV];
static List<String>* toks;

static void resetAll()
{
  for(int i = 0; i < NV; ++i)
  {
    if(var[i]) var[i]->~String();
    var[i] = new(storage[i]) String;
  }
  delete toks;
  toks = new List<String>;
  for(int r = 0; r < NR; ++r)
  {
    free(reg[r]);
    reg[r] = (char*)malloc(REGSIZE[r]);
    memcpy(reg[r], REGINIT[r], REGSIZE[r]);
  }
}

static void observe()
{
  for(int i = 0; i < NV; ++i)
  {
    String& s = *var[i];
    if(i) printf(" | ");
    printf("%lu ", (unsigned long)s.data->len);
    hxPutHex(s.data->str, s.data->len);
    printf(" ");
    hxPutHex(s.data->str + s.data->len, 1);
    printf(" %d", s.data->ref != 0 ? 1 : 0);
  }
  printf(" # ");
  for(int r = 0; r < NR; ++r)
  {
    if(r) printf(" ");
    hxPutHex(reg[r], REGSIZE[r]);
  }
  hxEndLine();
}

static bool isVar(const char* t, int& v)
{
  if(!t[0] || t[1] || t[0] < '0' || t[0] >= '0' + NV)
    return false;
  v = t[0] - '0';
  return true;
}

static bool isByte(const char* t, unsigned& c)
{
  char* e;
  unsigned long x = strtoul(t, &e, 10);
  if(*e || e == t || x > 255) return false;
  c = (unsigned)x;
  return true;
}

static bool isHexTok(const char* t)
{
  if(strcmp(t, "-") == 0) return true;
  size_t n = strlen(t);
  if(n % 2) return false;
  for(size_t i = 0; i < n; ++i)
    if(hxNib(t[i]) < 0) return false;
  return true;
}

static bool nulFree(const char* p, size_t n)
{
  for(size_t i = 0; i < n; ++i)
    if(!p[i]) return false;
  return true;
}

// an operand: variable or `x<hex>` temporary
struct Operand
{
  String* s;
  String* tmp;
  char* bytes;
  Operand() : s(0), tmp(0), bytes(0) {}
  bool parse(const char* t)
  {
    int v;
    if(t[0] == 'x' && isHexTok(t + 1))
    {
      size_t len;
      bytes = (char*)hxBytes(t + 1, len);
      tmp = new String(bytes, len);
      s = tmp;
      return true;
    }
    if(isVar(t, v)) { s = var[v]; return true; }
    return false;
  }
  ~Operand() { delete tmp; free(bytes); }
};

union Arg { int d; unsigned u; long long q; unsigned long long w; const char* s; int c; };

template<typename A> static int call2(String& s, const char* f, A a, char k2, const Arg& b)
{
  switch(k2)
  {
  case 0: return s.printf(f, a);
  case 'D': return s.printf(f, a, b.d);
  case 'U': return s.printf(f, a, b.u);
  case 'Q': return s.printf(f, a, b.q);
  case 'W': return s.printf(f, a, b.w);
  case 'S': return s.printf(f, a, b.s);
  default: return s.printf(f, a, b.c);
  }
}

static int call1(String& s, const char* f, char k1, const Arg& a, char k2, const Arg& b)
{
  switch(k1)
  {
  case 0: return s.printf(f, 0); // no directive at all (the argument is ignored)
  case 'D': return call2(s, f, a.d, k2, b);
  case 'U': return call2(s, f, a.u, k2, b);
  case 'Q': return call2(s, f, a.q, k2, b);
  case 'W': return call2(s, f, a.w, k2, b);
  case 'S': return call2(s, f, a.s, k2, b);
  default: return call2(s, f, a.c, k2, b);
  }
}

static void idx(const char* p, const String& s)
{
  if(p) printf("%ld", (long)(p - s.data->str));
  else printf("-1");
}

#define BAD() do { printf("bad-op"); hxEndLine(); goto next; } while(0)

int main()
{
  static HxLine l;
  resetAll();
  while(hxRead(l))
  {
    alarm(60); // an op that does not return within 60 s kills the run: a result attributed to this line
    {
    int v = 0, w = 0, w2 = 0;
    unsigned c = 0, c2 = 0;
    size_t len = 0, len2 = 0;
    char* d = 0;
    char* d2 = 0;
    bool printed = false;
    if(hxIs(l, "reset", 0)) { resetAll(); printf("- ; "); observe(); continue; }
    if(l.ntok < 2 || !isVar(l.tok[1], v)) BAD();
    {
    String& s = *var[v];
    if(hxIs(l, "new", 1)) { s.~String(); new(storage[v]) String; }
    else if(hxIs(l, "lit", 2))
    {
      unsigned long r = hxNum(l, 2);
      if(r == 0) { s.~String(); new(storage[v]) String(*(const char(*)[sizeof(REG0)])reg[0]); }
      else if(r == 1) { s.~String(); new(storage[v]) String(*(const char(*)[sizeof(REG1)])reg[1]); }
      else BAD();
    }
    else if(hxIs(l, "attach", 4))
    {
      unsigned long r = hxNum(l, 2), o = hxNum(l, 3), n = hxNum(l, 4);
      if(r >= (unsigned long)NR || o + n > REGSIZE[r] - 1) BAD();
      s.attach(reg[r] + o, n);
    }
    else if(hxIs(l, "copy", 2))
    {
      if(!isVar(l.tok[2], w) || v == w) BAD();
      s.~String(); new(storage[v]) String(*var[w]);
    }
    else if(hxIs(l, "ptr", 2)) { if(!isHexTok(l.tok[2])) BAD(); d = (char*)hxBytes(l.tok[2], len); s.~String(); new(storage[v]) String(d, len); }
    else if(hxIs(l, "fill", 3)) { if(!isByte(l.tok[3], c)) BAD(); s.~String(); new(storage[v]) String((usize)hxNum(l, 2), (char)c); }
    else if(hxIs(l, "cap", 2)) { s.~String(); new(storage[v]) String((usize)hxNum(l, 2)); }
    else if(hxIs(l, "assign", 2)) { if(!isVar(l.tok[2], w)) BAD(); s = *var[w]; }
    else if(hxIs(l, "clear", 1)) s.clear();
    else if(hxIs(l, "detach", 1)) s.detach();
    else if(hxIs(l, "cstr", 1)) { const char* p = s; (void)p; }
    else if(hxIs(l, "resize", 2)) s.resize(hxNum(l, 2));
    else if(hxIs(l, "reserve", 2)) s.reserve(hxNum(l, 2));
    else if(hxIs(l, "fillfrom", 3))
    {
      if(!isByte(l.tok[3], c)) BAD();
      char* p = s;
      for(usize i = hxNum(l, 2); i < s.length(); ++i) p[i] = (char)c;
    }
    else if(hxIs(l, "appendS", 2)) { if(!isVar(l.tok[2], w)) BAD(); s.append(*var[w]); }
    else if(hxIs(l, "append", 2)) { if(!isHexTok(l.tok[2])) BAD(); d = (char*)hxBytes(l.tok[2], len); s.append(d, len); }
    else if(hxIs(l, "appendC", 2)) { if(!isByte(l.tok[2], c)) BAD(); s.append((char)c); }
    else if(hxIs(l, "prependS", 2)) { if(!isVar(l.tok[2], w)) BAD(); s.prepend(*var[w]); }
    else if(hxIs(l, "prepend", 2)) { if(!isHexTok(l.tok[2])) BAD(); d = (char*)hxBytes(l.tok[2], len); s.prepend(d, len); }
    else if(hxIs(l, "appendA", 3) || hxIs(l, "prependA", 3))
    {
      // a pointer into the string's own storage, taken through the C string view before the call
      usize o = hxNum(l, 2), n = hxNum(l, 3);
      if(o + n > s.length()) BAD();
      const char* p = s;
      if(l.tok[0][0] == 'a') s.append(p + o, n);
      else s.prepend(p + o, n);
    }
    else if(hxIs(l, "replaceC", 3)) { if(!isByte(l.tok[2], c) || !isByte(l.tok[3], c2)) BAD(); s.replace((char)c, (char)c2); }
    else if(hxIs(l, "lower", 1)) s.toLowerCase();
    else if(hxIs(l, "upper", 1)) s.toUpperCase();
    else if(hxIs(l, "substr", 4)) { if(!isVar(l.tok[2], w)) BAD(); s = var[w]->substr((ssize)hxInt(l, 3), (ssize)hxInt(l, 4)); }
    else if(hxIs(l, "trim", 2)) { if(!isHexTok(l.tok[2])) BAD(); d = hxCStr(l.tok[2], len); if(!nulFree(d, len)) { free(d); BAD(); } s.trim(d); }
    else if(hxIs(l, "replaceS", 3)) { if(!isVar(l.tok[2], w) || !isVar(l.tok[3], w2)) BAD(); s.replace(*var[w], *var[w2]); }
    else if(hxIs(l, "replaceL", 3))
    {
      if(!isHexTok(l.tok[2]) || !isHexTok(l.tok[3])) BAD();
      d = (char*)hxBytes(l.tok[2], len);
      d2 = (char*)hxBytes(l.tok[3], len2);
      String n(d, len), r(d2, len2);
      s.replace(n, r);
    }
    else if(hxIs(l, "tokenC", 4))
    {
      if(!isVar(l.tok[2], w) || !isByte(l.tok[3], c)) BAD();
      usize start = hxNum(l, 4);
      s = var[w]->token((char)c, start);
      printf("%lu ; ", (unsigned long)start);
      printed = true;
    }
    else if(hxIs(l, "tokenS", 4))
    {
      if(!isVar(l.tok[2], w) || !isHexTok(l.tok[3])) BAD();
      d = hxCStr(l.tok[3], len);
      if(!nulFree(d, len)) { free(d); BAD(); }
      usize start = hxNum(l, 4);
      s = var[w]->token(d, start);
      printf("%lu ; ", (unsigned long)start);
      printed = true;
    }
    else if(hxIs(l, "split", 3))
    {
      if(!isHexTok(l.tok[2])) BAD();
      d = hxCStr(l.tok[2], len);
      if(!nulFree(d, len)) { free(d); BAD(); }
      usize n = s.split(*toks, d, hxNum(l, 3) != 0);
      printf("%lu", (unsigned long)n);
      for(List<String>::Iterator i = toks->begin(), end = toks->end(); i != end; ++i)
      {
        printf(" ");
        hxPutHex(i->data->str, i->data->len);
      }
      printf(" ; ");
      printed = true;
    }
    else if(hxIs(l, "join", 2)) { if(!isByte(l.tok[2], c)) BAD(); s.join(*toks, (char)c); }
    else if(l.ntok >= 2 && strcmp(l.tok[0], "printf") == 0)
    {
      static char fmt[1 << 16];
      size_t fl = 0;
      char kinds[2] = {0, 0};
      Arg args[2];
      char* strs[2] = {0, 0};
      int nd = 0;
      bool ok = true;
      for(int i = 2; i < l.ntok && ok; ++i)
      {
        const char* t = l.tok[i];
        char k = t[0];
        if(k == 'L')
        {
          if(!isHexTok(t + 1)) { ok = false; break; }
          size_t n;
          unsigned char* b = hxBytes(t + 1, n);
          for(size_t j = 0; j < n; ++j) { if(!b[j] || b[j] == '%') ok = false; fmt[fl++] = (char)b[j]; }
          free(b);
          continue;
        }
        if(nd == 2 || !strchr("DUQWSC", k) || !k) { ok = false; break; }
        kinds[nd] = k;
        fmt[fl++] = '%';
        switch(k)
        {
        case 'D': { long long x = strtoll(t + 1, 0, 10); if(x < -2147483648LL || x > 2147483647LL) ok = false; args[nd].d = (int)x; fmt[fl++] = 'd'; break; }
        case 'U': { unsigned long long x = strtoull(t + 1, 0, 10); if(x > 4294967295ULL || t[1] == '-') ok = false; args[nd].u = (unsigned)x; fmt[fl++] = 'u'; break; }
        case 'Q': args[nd].q = strtoll(t + 1, 0, 10); fmt[fl++] = 'l'; fmt[fl++] = 'l'; fmt[fl++] = 'd'; break;
        case 'W': if(t[1] == '-') ok = false; args[nd].w = strtoull(t + 1, 0, 10); fmt[fl++] = 'l'; fmt[fl++] = 'l'; fmt[fl++] = 'u'; break;
        case 'S':
        {
          if(!isHexTok(t + 1)) { ok = false; break; }
          size_t n;
          strs[nd] = hxCStr(t + 1, n);
          if(!nulFree(strs[nd], n)) ok = false;
          args[nd].s = strs[nd];
          fmt[fl++] = 's';
          break;
        }
        default: { unsigned x; if(!isByte(t + 1, x) || !x) ok = false; else args[nd].c = (int)x; fmt[fl++] = 'c'; break; }
        }
        ++nd;
      }
      fmt[fl] = 0;
      if(!ok) { free(strs[0]); free(strs[1]); BAD(); }
      // the format is handed over as an exactly sized heap copy
      char* f = (char*)malloc(fl + 1);
      memcpy(f, fmt, fl + 1);
      int r = call1(s, f, kinds[0], args[0], kinds[1], args[1]);
      free(f); free(strs[0]); free(strs[1]);
      printf("%d ; ", r);
      printed = true;
    }
    else if(l.ntok >= 3 && (hxIs(l, "compare", 2) || hxIs(l, "compareIC", 2) || hxIs(l, "eq", 2) || hxIs(l, "eqIC", 2) ||
                            hxIs(l, "startsWith", 2) || hxIs(l, "endsWith", 2) || hxIs(l, "compareN", 3) || hxIs(l, "compareICN", 3) ||
                            hxIs(l, "prependX", 2) || hxIs(l, "appendX", 2)))
    {
      Operand x;
      if(!x.parse(l.tok[2])) BAD();
      const char* op = l.tok[0];
      if(!strcmp(op, "compare")) printf("%d ; ", s.compare(*x.s));
      else if(!strcmp(op, "compareN")) printf("%d ; ", s.compare(*x.s, hxNum(l, 3)));
      else if(!strcmp(op, "compareIC")) printf("%d ; ", s.compareIgnoreCase(*x.s));
      else if(!strcmp(op, "compareICN")) printf("%d ; ", s.compareIgnoreCase(*x.s, hxNum(l, 3)));
      else if(!strcmp(op, "eq"))
      {
        bool e = s == *x.s, n = s != *x.s;
        printf(e == !n ? "%d ; " : "inconsistent%d ; ", (int)e);
      }
      else if(!strcmp(op, "eqIC")) printf("%d ; ", (int)s.equalsIgnoreCase(*x.s));
      else if(!strcmp(op, "startsWith")) printf("%d ; ", (int)s.startsWith(*x.s));
      else if(!strcmp(op, "endsWith")) printf("%d ; ", (int)s.endsWith(*x.s));
      else if(!strcmp(op, "prependX")) { s.prepend(*x.s); printf("- ; "); }
      else { s.append(*x.s); printf("- ; "); }
      printed = true;
    }
    else if(hxIs(l, "findC", 2)) { if(!isByte(l.tok[2], c)) BAD(); idx(s.find((char)c), s); printf(" ; "); printed = true; }
    else if(hxIs(l, "findLastC", 2)) { if(!isByte(l.tok[2], c)) BAD(); idx(s.findLast((char)c), s); printf(" ; "); printed = true; }
    else if(hxIs(l, "findCFrom", 3)) { if(!isByte(l.tok[2], c)) BAD(); idx(s.find((char)c, hxNum(l, 3)), s); printf(" ; "); printed = true; }
    else if(hxIs(l, "findS", 2) || hxIs(l, "findOneOf", 2) || hxIs(l, "findLastS", 2) || hxIs(l, "findLastOf", 2) ||
            hxIs(l, "findSFrom", 3) || hxIs(l, "findOneOfFrom", 3))
    {
      if(!isHexTok(l.tok[2])) BAD();
      d = hxCStr(l.tok[2], len);
      if(!nulFree(d, len)) { free(d); BAD(); }
      const char* op = l.tok[0];
      const char* r;
      if(!strcmp(op, "findS")) r = s.find(d);
      else if(!strcmp(op, "findOneOf")) r = s.findOneOf(d);
      else if(!strcmp(op, "findLastS")) r = s.findLast(d);
      else if(!strcmp(op, "findLastOf")) r = s.findLastOf(d);
      else if(!strcmp(op, "findSFrom")) r = s.find(d, hxNum(l, 3));
      else r = s.findOneOf(d, hxNum(l, 3));
      idx(r, s);
      printf(" ; ");
      printed = true;
    }
    else if(hxIs(l, "toBool", 1)) { printf("%d ; ", (int)s.toBool()); printed = true; }
    else if(hxIs(l, "hash", 1)) { printf("%llu ; ", (unsigned long long)hash(s)); printed = true; }
    else BAD();
    }
    free(d);
    free(d2);
    if(!printed) printf("- ; ");
    observe();
    }
  next:;
  }
  return 0;
}
