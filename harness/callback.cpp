// Line-protocol harness for Callback (property C12).  Executes the op lines of
// lean/Nstd/Callback/Driver.lean on the real include/nstd/Callback.hpp + src/Callback.cpp.
// Emitters and listeners are heap objects: destroying one is `delete`, so AddressSanitizer
// reports any later use.  Slot bodies interpret the script table (listener, slot, invocation#).
#include "common/hx.h"
#define private public
#define protected public
#include <nstd/Callback.hpp>
#undef private
#undef protected
#include <nstd/Debug.hpp>
#include <stdarg.h>
#include <sanitizer/asan_interface.h>

// the assertions of Map.hpp/List.hpp stay active; their only link dependency is provided here
// (src/Debug.cpp would drag in String, Process, ...)
int Debug::printf(const char* format, ...)
{
  va_list ap;
  va_start(ap, format);
  int r = vfprintf(stderr, format, ap);
  va_end(ap);
  return r;
}

enum { NE = 3, NG = 10, NV = 10, NL = 3, NS = 2, MAXK = 8, MAXACT = 8, MAXLOG = 1 << 16 };

struct Act
{
  char kind; // c d m L E n w
  int e, g, l, s, v;
};

static Act script[NL][NS][MAXK][MAXACT];
static int scriptLen[NL][NS][MAXK];
static int invCount[NL][NS];
// log events: 'c' slot invocation (listener index, slot, argument received), 'b' start of an emit call
// (emitter variable, signal, argument given), 'e' its return
static int logBuf[MAXLOG][4];
static int logLen;

static void logEv(int kind, int a, int b, int c)
{
  if(logLen < MAXLOG)
  {
    logBuf[logLen][0] = kind;
    logBuf[logLen][1] = a;
    logBuf[logLen][2] = b;
    logBuf[logLen][3] = c;
    ++logLen;
  }
}

// A first base class in front of Callback::Emitter / Callback::Listener: the `Emitter*` / `Listener*` the library
// stores (receiver, map keys) then differ from the address of the whole object, which `Slot::object` holds and
// the slot is called on (connect: `X* x = src; Y* y = dest; connect(x, signal, y, y, slot)`).
struct Pad
{
  long long pad[3];
  Pad() { pad[0] = pad[1] = pad[2] = 0x5a5a5a5a5a5a5a5aLL; }
};

struct Em : public Pad, public Callback::Emitter
{
  int id;
  Em(int id) : id(id) {}
  // signal g has g parameters: it goes through the arity-g overloads of emit/connect/disconnect
  void sig0() {}
  void sig1(int) {}
  void sig2(int, int) {}
  void sig3(int, int, int) {}
  void sig4(int, int, int, int) {}
  void sig5(int, int, int, int, int) {}
  void sig6(int, int, int, int, int, int) {}
  void sig7(int, int, int, int, int, int, int) {}
  void sig8(int, int, int, int, int, int, int, int) {}
  // signal 9: one parameter of reference type - emit then declares `int& arg0`, all slots get the caller's object
  void sig9(int&) {}
  // the emitter may be deleted by a slot: nothing reads `this` after `emit` has returned
  void fire(int g, int v)
  {
    switch(g)
    {
    case 0: emit(&Em::sig0); break;
    case 1: emit<Em, int>(&Em::sig1, v); break;
    case 2: emit<Em, int, int>(&Em::sig2, v, v + 1); break;
    case 3: emit<Em, int, int, int>(&Em::sig3, v, v + 1, v + 2); break;
    case 4: emit<Em, int, int, int, int>(&Em::sig4, v, v + 1, v + 2, v + 3); break;
    case 5: emit<Em, int, int, int, int, int>(&Em::sig5, v, v + 1, v + 2, v + 3, v + 4); break;
    case 6: emit<Em, int, int, int, int, int, int>(&Em::sig6, v, v + 1, v + 2, v + 3, v + 4, v + 5); break;
    case 7: emit<Em, int, int, int, int, int, int, int>(&Em::sig7, v, v + 1, v + 2, v + 3, v + 4, v + 5, v + 6); break;
    case 8: emit<Em, int, int, int, int, int, int, int, int>(&Em::sig8, v, v + 1, v + 2, v + 3, v + 4, v + 5, v + 6, v + 7); break;
    default: { int cell = v; emit<Em, int&>(&Em::sig9, cell); } break; // `cell` lives here: the emitter may be gone afterwards
    }
  }
};

static int runSlot(int l, int s, int v);

// the tuple must arrive complete and in order: (v, v+1, ..., v+k-1)
static bool inOrder(int k, const int* a)
{
  for(int i = 1; i < k; ++i)
    if(a[i] != a[0] + i)
      return false;
  return true;
}

struct Li : public Pad, public Callback::Listener
{
  int id;
  Li(int id) : id(id) {}
  // `id` is read through `this`: invoking a slot of a deleted listener is a heap-use-after-free.
  // A tuple that did not arrive as sent logs listener -1.
#define SLOT_PAIR(K, PARAMS, INIT) \
  void slot0_##K PARAMS { int t[9] = INIT; runSlot(inOrder(K, t) ? id : -1, 0, t[0]); } \
  void slot1_##K PARAMS { int t[9] = INIT; runSlot(inOrder(K, t) ? id : -1, 1, t[0]); }
#define ARR(...) {__VA_ARGS__}
  SLOT_PAIR(0, (), ARR(0))
  SLOT_PAIR(1, (int a), ARR(a))
  SLOT_PAIR(2, (int a, int b), ARR(a, b))
  SLOT_PAIR(3, (int a, int b, int c), ARR(a, b, c))
  SLOT_PAIR(4, (int a, int b, int c, int d), ARR(a, b, c, d))
  SLOT_PAIR(5, (int a, int b, int c, int d, int e), ARR(a, b, c, d, e))
  SLOT_PAIR(6, (int a, int b, int c, int d, int e, int f), ARR(a, b, c, d, e, f))
  SLOT_PAIR(7, (int a, int b, int c, int d, int e, int f, int g), ARR(a, b, c, d, e, f, g))
  SLOT_PAIR(8, (int a, int b, int c, int d, int e, int f, int g, int h), ARR(a, b, c, d, e, f, g, h))
  // reference parameter: the slot adds what its script says (`aD` actions) to the caller's object before it returns
  // (`this` may be deleted by then; `a` is the emitting caller's variable)
  void slot0_9(int& a) { int v = a; a = v + runSlot(id, 0, v); logEv('r', a, 0, 0); }
  void slot1_9(int& a) { int v = a; a = v + runSlot(id, 1, v); logEv('r', a, 0, 0); }
};

#define FOR_ARITIES(X) X(0) X(1) X(2) X(3) X(4) X(5) X(6) X(7) X(8) X(9)

static void doConnect(Em* e, int g, Li* l, int s)
{
  switch(g)
  {
#define X(K) case K: Callback::connect(e, &Em::sig##K, l, s == 0 ? &Li::slot0_##K : &Li::slot1_##K); break;
  FOR_ARITIES(X)
#undef X
  }
}

static void doDisconnect(Em* e, int g, Li* l, int s)
{
  switch(g)
  {
#define X(K) case K: Callback::disconnect(e, &Em::sig##K, l, s == 0 ? &Li::slot0_##K : &Li::slot1_##K); break;
  FOR_ARITIES(X)
#undef X
  }
}

static Callback::MemberFuncPtr sigPtr(int g)
{
  switch(g)
  {
#define X(K) case K: return Callback::MemberFuncPtr(&Em::sig##K);
  FOR_ARITIES(X)
#undef X
  }
  return Callback::MemberFuncPtr(&Em::sig0);
}
// index of a slot pointer (any signature)
static int slotIndexOf(const Callback::MemberFuncPtr& p)
{
#define X(K) if(p == Callback::MemberFuncPtr(&Li::slot0_##K)) return 0; if(p == Callback::MemberFuncPtr(&Li::slot1_##K)) return 1;
  FOR_ARITIES(X)
#undef X
  return -1;
}

static Em* em[NE];
static Li* li[NL];

// Two ways to create / destroy the objects.  Heap (`reset`): `new` / `delete`; ASan keeps freed blocks in
// quarantine, so a re-created object practically never gets the address of its predecessor.  In place
// (`reuse`): every variable has its own storage, the object is constructed there with placement new and
// the storage is poisoned after the destructor ran - a re-created object has EXACTLY the address of its
// destroyed predecessor (stale `Emitter*` keys and `Listener*` receivers then compare equal to the new
// object), and any access between destruction and re-creation is still an ASan report.
static bool inPlace;
static long long emStore[NE][(sizeof(Em) + 7) / 8];
static long long liStore[NL][(sizeof(Li) + 7) / 8];

static Em* newEm(int i)
{
  if(!inPlace)
    return new Em(i);
  ASAN_UNPOISON_MEMORY_REGION(emStore[i], sizeof(Em));
  return new(emStore[i]) Em(i);
}

static Li* newLi(int i)
{
  if(!inPlace)
    return new Li(i);
  ASAN_UNPOISON_MEMORY_REGION(liStore[i], sizeof(Li));
  return new(liStore[i]) Li(i);
}

static void delEm(Em* p)
{
  if((void*)p >= (void*)emStore && (void*)p < (void*)(emStore + NE))
  {
    p->~Em();
    ASAN_POISON_MEMORY_REGION(p, sizeof(Em));
  }
  else
    delete p;
}

static void delLi(Li* p)
{
  if((void*)p >= (void*)liStore && (void*)p < (void*)(liStore + NL))
  {
    p->~Li();
    ASAN_POISON_MEMORY_REGION(p, sizeof(Li));
  }
  else
    delete p;
}
static const void* emAddr[NE]; // kept after delete: only compared, never dereferenced
static const void* liAddr[NL];

static void doAct(const Act& a)
{
  switch(a.kind)
  {
  case 'c':
    if(em[a.e] && li[a.l]) doConnect(em[a.e], a.g, li[a.l], a.s);
    break;
  case 'd':
    if(em[a.e] && li[a.l]) doDisconnect(em[a.e], a.g, li[a.l], a.s);
    break;
  case 'm':
    if(em[a.e])
    {
      logEv('b', a.e, a.g, a.v);
      em[a.e]->fire(a.g, a.v);
      logEv('e', 0, 0, 0);
    }
    break;
  case 'L':
    if(li[a.l])
    {
      Li* p = li[a.l];
      li[a.l] = 0;
      liAddr[a.l] = 0;
      delLi(p);
    }
    break;
  case 'E':
    if(em[a.e])
    {
      Em* p = em[a.e];
      em[a.e] = 0;
      delEm(p);
    }
    break;
  case 'n':
    if(!li[a.l])
    {
      li[a.l] = newLi(a.l);
      liAddr[a.l] = static_cast<Callback::Listener*>(li[a.l]);
    }
    break;
  case 'w':
    if(!em[a.e])
    {
      em[a.e] = newEm(a.e);
      emAddr[a.e] = static_cast<Callback::Emitter*>(em[a.e]);
      // the allocator may hand out the address of a destroyed emitter again: that variable's
      // remembered address no longer identifies the old object
      for(int k = 0; k < NE; ++k)
        if(k != a.e && !em[k] && emAddr[k] == emAddr[a.e])
          emAddr[k] = 0;
    }
    break;
  }
}

// returns what the script adds to the slot's parameter
static int runSlot(int l, int s, int v)
{
  logEv('c', l, s, v);
  if(l < 0)
    return 0;
  int idx = invCount[l][s]++;
  if(idx >= MAXK)
    return 0;
  int bump = 0;
  for(int i = 0; i < scriptLen[l][s][idx]; ++i)
    if(script[l][s][idx][i].kind == 'a')
      bump += script[l][s][idx][i].v;
  // the script is global data: the listener may delete itself (or anything else) here
  for(int i = 0; i < scriptLen[l][s][idx]; ++i)
    doAct(script[l][s][idx][i]);
  return bump;
}

static void resetAll(bool inPlaceMode)
{
  for(int l = 0; l < NL; ++l)
    if(li[l])
    {
      delLi(li[l]);
      li[l] = 0;
    }
  for(int e = 0; e < NE; ++e)
    if(em[e])
    {
      delEm(em[e]);
      em[e] = 0;
    }
  inPlace = inPlaceMode;
  for(int e = 0; e < NE; ++e)
  {
    em[e] = newEm(e);
    emAddr[e] = static_cast<Callback::Emitter*>(em[e]);
  }
  for(int l = 0; l < NL; ++l)
  {
    li[l] = newLi(l);
    liAddr[l] = static_cast<Callback::Listener*>(li[l]);
  }
  memset(scriptLen, 0, sizeof(scriptLen));
  memset(invCount, 0, sizeof(invCount));
  logLen = 0;
}

static int slotIndex(const Callback::MemberFuncPtr& p) { return slotIndexOf(p); }

static int sigIndex(const Callback::MemberFuncPtr& p)
{
  for(int g = 0; g < NG; ++g)
    if(p == sigPtr(g))
      return g;
  return -1;
}

// white-box bookkeeping of both sides, canonical (indices instead of addresses)
static void observe()
{
  printf("log");
  for(int i = 0; i < logLen; ++i)
    if(logBuf[i][0] == 'c')
      printf(" %d.%d:%d", logBuf[i][1], logBuf[i][2], logBuf[i][3]);
    else if(logBuf[i][0] == 'b')
      printf(" <%d.%d:%d", logBuf[i][1], logBuf[i][2], logBuf[i][3]);
    else if(logBuf[i][0] == 'r')
      printf(" =%d", logBuf[i][1]);
    else
      printf(" >");
  printf(" |");
  for(int e = 0; e < NE; ++e)
  {
    printf(" E%d:", e);
    if(!em[e])
    {
      printf("x");
      continue;
    }
    // only the signals with entries (or a set flag) are listed
    bool any = false;
    for(int g = 0; g < NG; ++g)
    {
      Map<Callback::MemberFuncPtr, Callback::Emitter::SignalData>::Iterator it = em[e]->signalData.find(sigPtr(g));
      if(it == em[e]->signalData.end())
        continue;
      Callback::Emitter::SignalData& d = *it;
      if(d.slots.isEmpty() && !d.dirty && !d.activation)
        continue;
      printf("%sg%d=", any ? " " : "", g);
      any = true;
      if(d.slots.isEmpty())
        printf("-");
      bool first = true;
      for(List<Callback::Emitter::Slot>::Iterator i = d.slots.begin(), end = d.slots.end(); i != end; ++i)
      {
        int l = -1;
        for(int k = 0; k < NL; ++k)
          if((const void*)i->receiver == liAddr[k])
            l = k;
        printf("%s%d.%d%s", first ? "" : ",", l, slotIndex(i->slot),
          i->state == Callback::Emitter::Slot::connected ? "" : i->state == Callback::Emitter::Slot::connecting ? "n" : "d");
        first = false;
      }
      if(d.dirty || d.activation)
        printf("!");
    }
    if(!any)
      printf("-");
  }
  printf(" |");
  for(int l = 0; l < NL; ++l)
  {
    printf(" L%d:", l);
    if(!li[l])
    {
      printf("x");
      continue;
    }
    for(int e = 0; e < NE; ++e)
    {
      printf("%se%d=", e ? " " : "", e);
      Map<Callback::Emitter*, List<Callback::Listener::Signal> >::Iterator it = emAddr[e] ? li[l]->slotData.find((Callback::Emitter*)emAddr[e]) : li[l]->slotData.end();
      if(it == li[l]->slotData.end() || it->isEmpty())
      {
        printf("-");
        continue;
      }
      bool first = true;
      for(List<Callback::Listener::Signal>::Iterator i = it->begin(), end = it->end(); i != end; ++i)
      {
        printf("%s%d.%d", first ? "" : ",", sigIndex(i->signal), slotIndex(i->slot));
        first = false;
      }
    }
  }
  hxEndLine();
}

static bool digit(char c, int bound, int& out)
{
  if(c < '0' || c > '9' || c - '0' >= bound)
    return false;
  out = c - '0';
  return true;
}

static bool parseAction(const char* t, Act& a)
{
  size_t n = strlen(t);
  a.kind = t[0];
  a.e = a.g = a.l = a.s = a.v = 0;
  if((t[0] == 'c' || t[0] == 'd') && n == 5)
    return digit(t[1], NE, a.e) && digit(t[2], NG, a.g) && digit(t[3], NL, a.l) && digit(t[4], NS, a.s);
  if(t[0] == 'm' && n == 4)
    return digit(t[1], NE, a.e) && digit(t[2], NG, a.g) && digit(t[3], NV, a.v) && !(a.g == 0 && a.v != 0);
  if(t[0] == 'a' && n == 2)
    return digit(t[1], 10, a.v);
  if(t[0] == 'L' && n == 2)
    return digit(t[1], NL, a.l);
  if(t[0] == 'E' && n == 2)
    return digit(t[1], NE, a.e);
  if(t[0] == 'n' && n == 2)
    return digit(t[1], NL, a.l);
  if(t[0] == 'w' && n == 2)
    return digit(t[1], NE, a.e);
  return false;
}

static bool numTok(const HxLine& l, int i, int bound, int& out)
{
  const char* t = l.tok[i];
  if(!*t || strlen(t) > 6)
    return false;
  for(const char* p = t; *p; ++p)
    if(*p < '0' || *p > '9')
      return false;
  out = (int)hxNum(l, i);
  return out < bound;
}

// Reference parameters (not modelled; the expected line follows from the C++ rules): `emit` declares its
// parameters with the types of the signal, so with `A = int&` every slot gets the caller's object itself.
struct REm : public Callback::Emitter
{
  void sig(int&, const int&, int*) {}
  void fire(int& a, const int& b, int* c) { emit<REm, int&, const int&, int*>(&REm::sig, a, b, c); }
};

struct RLi : public Callback::Listener
{
  void slot(int& a, const int& b, int* c)
  {
    printf(" %d:%d:%d", a, b, *c);
    a += 1;
    *c += b;
  }
};

static void refArgs(int v)
{
  REm e;
  RLi l0, l1;
  Callback::connect(&e, &REm::sig, &l0, &RLi::slot);
  Callback::connect(&e, &REm::sig, &l1, &RLi::slot);
  Callback::connect(&e, &REm::sig, &l0, &RLi::slot);
  int a = v, b = 2, c = 0;
  printf("ref");
  e.fire(a, b, &c);
  printf(" | %d %d", a, c);
  hxEndLine();
}

static void bad()
{
  printf("bad-op");
  hxEndLine();
}

// What the model assumes of `Callback::MemberFuncPtr` (ids with decidable equality, used as Map keys), checked on the
// pointers this program uses: the 10 signals of `Em` and the 20 slots of `Li`.  (a) every pointer to member function has
// the size of `MemberFuncPtr::ptr` (the constructor copies sizeof(ptr) bytes); (b) `==` agrees with identity of the member
// and with `memcmp == 0` of the stored bytes, and exactly one of `<`, `==`, `>` holds for every pair (Map needs a strict
// total order that is compatible with `==`); (c) distinct members give distinct pointers although the signal bodies are
// all empty.  Output: `mfp ok sigs=10 slots=20` or the first failing pair.
static void mfpProbe()
{
  Callback::MemberFuncPtr p[NG + 2 * NG];
  int n = 0;
#define X(K) static_assert(sizeof(&Em::sig##K) == sizeof(((Callback::MemberFuncPtr*)0)->ptr), "size of a signal pointer"); \
  static_assert(sizeof(&Li::slot0_##K) == sizeof(((Callback::MemberFuncPtr*)0)->ptr), "size of a slot pointer"); \
  p[n++] = Callback::MemberFuncPtr(&Em::sig##K);
  FOR_ARITIES(X)
#undef X
#define X(K) p[n++] = Callback::MemberFuncPtr(&Li::slot0_##K); p[n++] = Callback::MemberFuncPtr(&Li::slot1_##K);
  FOR_ARITIES(X)
#undef X
  for(int i = 0; i < n; ++i)
    for(int j = 0; j < n; ++j)
    {
      // signals and slots are members of different classes; the library never compares a signal with a slot
      if((i < NG) != (j < NG))
        continue;
      bool eq = p[i] == p[j], lt = p[i] < p[j], gt = p[i] > p[j];
      bool same = memcmp(&p[i].ptr, &p[j].ptr, sizeof(p[i].ptr)) == 0;
      // a second conversion of the same member must give the same bytes
      Callback::MemberFuncPtr again = i < NG ? sigPtr(i) : p[i];
      if(eq != (i == j) || same != (i == j) || (eq ? (lt || gt) : (lt == gt)) || lt != (p[j] > p[i]) || !(again == p[i]))
      {
        printf("mfp FAIL i=%d j=%d eq=%d memcmp0=%d lt=%d gt=%d", i, j, (int)eq, (int)same, (int)lt, (int)gt);
        hxEndLine();
        return;
      }
    }
  // transitivity of `<` over the signals and over the slots (a strict total order)
  for(int i = 0; i < n; ++i)
    for(int j = 0; j < n; ++j)
      for(int k = 0; k < n; ++k)
        if((i < NG) == (j < NG) && (j < NG) == (k < NG) && p[i] < p[j] && p[j] < p[k] && !(p[i] < p[k]))
        {
          printf("mfp FAIL order not transitive %d %d %d", i, j, k);
          hxEndLine();
          return;
        }
  printf("mfp ok sigs=%d slots=%d", NG, n - NG);
  hxEndLine();
}

int main()
{
  static HxLine l;
  resetAll(false);
  while(hxRead(l))
  {
    Act a;
    a.e = a.g = a.l = a.s = a.v = 0;
    if(hxIs(l, "refargs", 1))
    {
      int v;
      if(numTok(l, 1, NV, v))
        refArgs(v);
      else
        bad();
      continue;
    }
    if(hxIs(l, "mfp", 0))
    {
      mfpProbe();
      continue;
    }
    if(hxIs(l, "reset", 0) || hxIs(l, "reuse", 0))
    {
      // `reuse` = `reset` with the objects constructed in place from now on
      resetAll(l.tok[0][2] == 'u');
      printf("ok");
      hxEndLine();
      continue;
    }
    if(l.ntok >= 4 && strcmp(l.tok[0], "script") == 0)
    {
      int li_, s, k;
      Act acts[MAXACT];
      int n = l.ntok - 4;
      bool ok = numTok(l, 1, NL, li_) && numTok(l, 2, NS, s) && numTok(l, 3, MAXK, k) && n <= MAXACT;
      for(int i = 0; ok && i < n; ++i)
        ok = parseAction(l.tok[4 + i], acts[i]);
      if(!ok)
      {
        bad();
        continue;
      }
      for(int i = 0; i < n; ++i)
        script[li_][s][k][i] = acts[i];
      scriptLen[li_][s][k] = n;
      printf("ok");
      hxEndLine();
      continue;
    }
    if(hxIs(l, "end", 0))
    {
      // whatever is left is destroyed (listeners first, then emitters) so that every destructor
      // runs under ASan inside the history it belongs to
      logLen = 0;
      for(int i = 0; i < NL; ++i)
      {
        a.kind = 'L';
        a.l = i;
        doAct(a);
      }
      for(int i = 0; i < NE; ++i)
      {
        a.kind = 'E';
        a.e = i;
        doAct(a);
      }
      observe();
      continue;
    }
    bool ok = false;
    if(hxIs(l, "connect", 4) || hxIs(l, "disconnect", 4))
    {
      a.kind = l.tok[0][0];
      ok = numTok(l, 1, NE, a.e) && numTok(l, 2, NG, a.g) && numTok(l, 3, NL, a.l) && numTok(l, 4, NS, a.s);
    }
    else if(hxIs(l, "emit", 3))
    {
      a.kind = 'm';
      ok = numTok(l, 1, NE, a.e) && numTok(l, 2, NG, a.g) && numTok(l, 3, NV, a.v) && !(a.g == 0 && a.v != 0);
    }
    else if(hxIs(l, "dell", 1))
    {
      a.kind = 'L';
      ok = numTok(l, 1, NL, a.l);
    }
    else if(hxIs(l, "dele", 1))
    {
      a.kind = 'E';
      ok = numTok(l, 1, NE, a.e);
    }
    else if(hxIs(l, "newl", 1))
    {
      a.kind = 'n';
      ok = numTok(l, 1, NL, a.l);
    }
    else if(hxIs(l, "newe", 1))
    {
      a.kind = 'w';
      ok = numTok(l, 1, NE, a.e);
    }
    if(!ok)
    {
      bad();
      continue;
    }
    logLen = 0;
    doAct(a);
    observe();
  }
  // the objects still alive are destroyed at the end (listeners first, then emitters):
  // every destructor runs under ASan at least once per history
  for(int l2 = 0; l2 < NL; ++l2)
    if(li[l2])
    {
      delLi(li[l2]);
      li[l2] = 0;
    }
  for(int e = 0; e < NE; ++e)
    if(em[e])
    {
      delEm(em[e]);
      em[e] = 0;
    }
  return 0;
}
