// Line-protocol harness for Callback (property C12).  Executes the op lines of
// lean/Nstd/Callback/Driver.lean on the real include/nstd/Callback.hpp + src/Callback.cpp.
// Emitters and listeners are heap objects: destroying one is `delete`, so AddressSanitizer
// reports any later use.  Slot bodies interpret the script table (listener, slot, invocation#).
#include "common/hx.h"
#define private public
#define protected public
#include <nstd/Callback.hpp>
#undef private
#undef protected
#include <nstd/Debug.hpp>
#include <stdarg.h>

// the assertions of Map.hpp/List.hpp stay active; their only link dependency is provided here
// (src/Debug.cpp would drag in String, Process, ...)
int Debug::printf(const char* format, ...)
{
  va_list ap;
  va_start(ap, format);
  int r = vfprintf(stderr, format, ap);
  va_end(ap);
  return r;
}

enum { NE = 3, NG = 3, NL = 3, NS = 2, MAXK = 8, MAXACT = 8, MAXLOG = 1 << 16 };

struct Act
{
  char kind; // c d m L E n w
  int e, g, l, s;
};

static Act script[NL][NS][MAXK][MAXACT];
static int scriptLen[NL][NS][MAXK];
static int invCount[NL][NS];
static int logBuf[MAXLOG][2];
static int logLen;

struct Em : public Callback::Emitter
{
  int id;
  Em(int id) : id(id) {}
  // signal 0 uses the arity-0 overloads of emit/connect/disconnect, signal 1 the arity-1 overloads,
  // signal 2 the arity-8 overloads
  void sig0() {}
  void sig1(int) {}
  void sig2(int, int, int, int, int, int, int, int) {}
  void fire(int g)
  {
    if(g == 0) emit(&Em::sig0);
    else if(g == 1) emit<Em, int>(&Em::sig1, 7);
    else emit<Em, int, int, int, int, int, int, int, int>(&Em::sig2, 1, 2, 3, 4, 5, 6, 7, 8);
  }
};

static void runSlot(int l, int s);

struct Li : public Callback::Listener
{
  int id;
  Li(int id) : id(id) {}
  // `id` is read through `this`: invoking a slot of a deleted listener is a heap-use-after-free
  void slot0() { runSlot(id, 0); }
  void slot1() { runSlot(id, 1); }
  // the same two slots with the signature of signal 1
  void slot0a(int a) { runSlot(a == 7 ? id : -1, 0); }
  void slot1a(int a) { runSlot(a == 7 ? id : -1, 1); }
  // ... and of signal 2 (all eight arguments must arrive in order)
  static bool args8(int a, int b, int c, int d, int e, int f, int g, int h)
  {
    return a == 1 && b == 2 && c == 3 && d == 4 && e == 5 && f == 6 && g == 7 && h == 8;
  }
  void slot0h(int a, int b, int c, int d, int e, int f, int g, int h) { runSlot(args8(a, b, c, d, e, f, g, h) ? id : -1, 0); }
  void slot1h(int a, int b, int c, int d, int e, int f, int g, int h) { runSlot(args8(a, b, c, d, e, f, g, h) ? id : -1, 1); }
};

static void doConnect(Em* e, int g, Li* l, int s)
{
  if(g == 0) Callback::connect(e, &Em::sig0, l, s == 0 ? &Li::slot0 : &Li::slot1);
  else if(g == 1) Callback::connect(e, &Em::sig1, l, s == 0 ? &Li::slot0a : &Li::slot1a);
  else Callback::connect(e, &Em::sig2, l, s == 0 ? &Li::slot0h : &Li::slot1h);
}

static void doDisconnect(Em* e, int g, Li* l, int s)
{
  if(g == 0) Callback::disconnect(e, &Em::sig0, l, s == 0 ? &Li::slot0 : &Li::slot1);
  else if(g == 1) Callback::disconnect(e, &Em::sig1, l, s == 0 ? &Li::slot0a : &Li::slot1a);
  else Callback::disconnect(e, &Em::sig2, l, s == 0 ? &Li::slot0h : &Li::slot1h);
}

static Callback::MemberFuncPtr sigPtr(int g)
{
  return g == 0 ? Callback::MemberFuncPtr(&Em::sig0) : g == 1 ? Callback::MemberFuncPtr(&Em::sig1) : Callback::MemberFuncPtr(&Em::sig2);
}
// index of a slot pointer (either signature)
static int slotIndexOf(const Callback::MemberFuncPtr& p)
{
  if(p == Callback::MemberFuncPtr(&Li::slot0) || p == Callback::MemberFuncPtr(&Li::slot0a) || p == Callback::MemberFuncPtr(&Li::slot0h)) return 0;
  if(p == Callback::MemberFuncPtr(&Li::slot1) || p == Callback::MemberFuncPtr(&Li::slot1a) || p == Callback::MemberFuncPtr(&Li::slot1h)) return 1;
  return -1;
}

static Em* em[NE];
static Li* li[NL];
static const void* emAddr[NE]; // kept after delete: only compared, never dereferenced
static const void* liAddr[NL];

static void doAct(const Act& a)
{
  switch(a.kind)
  {
  case 'c':
    if(em[a.e] && li[a.l]) doConnect(em[a.e], a.g, li[a.l], a.s);
    break;
  case 'd':
    if(em[a.e] && li[a.l]) doDisconnect(em[a.e], a.g, li[a.l], a.s);
    break;
  case 'm':
    if(em[a.e]) em[a.e]->fire(a.g);
    break;
  case 'L':
    if(li[a.l])
    {
      Li* p = li[a.l];
      li[a.l] = 0;
      liAddr[a.l] = 0;
      delete p;
    }
    break;
  case 'E':
    if(em[a.e])
    {
      Em* p = em[a.e];
      em[a.e] = 0;
      delete p;
    }
    break;
  case 'n':
    if(!li[a.l])
    {
      li[a.l] = new Li(a.l);
      liAddr[a.l] = static_cast<Callback::Listener*>(li[a.l]);
    }
    break;
  case 'w':
    if(!em[a.e])
    {
      em[a.e] = new Em(a.e);
      emAddr[a.e] = static_cast<Callback::Emitter*>(em[a.e]);
      // the allocator may hand out the address of a destroyed emitter again: that variable's
      // remembered address no longer identifies the old object
      for(int k = 0; k < NE; ++k)
        if(k != a.e && !em[k] && emAddr[k] == emAddr[a.e])
          emAddr[k] = 0;
    }
    break;
  }
}

static void runSlot(int l, int s)
{
  if(logLen < MAXLOG)
  {
    logBuf[logLen][0] = l;
    logBuf[logLen][1] = s;
    ++logLen;
  }
  int idx = invCount[l][s]++;
  if(idx >= MAXK)
    return;
  // the script is global data: the listener may delete itself (or anything else) here
  for(int i = 0; i < scriptLen[l][s][idx]; ++i)
    doAct(script[l][s][idx][i]);
}

static void resetAll()
{
  for(int l = 0; l < NL; ++l)
    if(li[l])
    {
      delete li[l];
      li[l] = 0;
    }
  for(int e = 0; e < NE; ++e)
    if(em[e])
    {
      delete em[e];
      em[e] = 0;
    }
  for(int e = 0; e < NE; ++e)
  {
    em[e] = new Em(e);
    emAddr[e] = static_cast<Callback::Emitter*>(em[e]);
  }
  for(int l = 0; l < NL; ++l)
  {
    li[l] = new Li(l);
    liAddr[l] = static_cast<Callback::Listener*>(li[l]);
  }
  memset(scriptLen, 0, sizeof(scriptLen));
  memset(invCount, 0, sizeof(invCount));
  logLen = 0;
}

static int slotIndex(const Callback::MemberFuncPtr& p) { return slotIndexOf(p); }

static int sigIndex(const Callback::MemberFuncPtr& p)
{
  for(int g = 0; g < NG; ++g)
    if(p == sigPtr(g))
      return g;
  return -1;
}

// white-box bookkeeping of both sides, canonical (indices instead of addresses)
static void observe()
{
  printf("log");
  for(int i = 0; i < logLen; ++i)
    printf(" %d.%d", logBuf[i][0], logBuf[i][1]);
  printf(" |");
  for(int e = 0; e < NE; ++e)
  {
    printf(" E%d:", e);
    if(!em[e])
    {
      printf("x");
      continue;
    }
    for(int g = 0; g < NG; ++g)
    {
      printf("%sg%d=", g ? " " : "", g);
      Map<Callback::MemberFuncPtr, Callback::Emitter::SignalData>::Iterator it = em[e]->signalData.find(sigPtr(g));
      if(it == em[e]->signalData.end())
      {
        printf("-");
        continue;
      }
      Callback::Emitter::SignalData& d = *it;
      if(d.slots.isEmpty())
        printf("-");
      bool first = true;
      for(List<Callback::Emitter::Slot>::Iterator i = d.slots.begin(), end = d.slots.end(); i != end; ++i)
      {
        int l = -1;
        for(int k = 0; k < NL; ++k)
          if((const void*)i->receiver == liAddr[k])
            l = k;
        printf("%s%d.%d%s", first ? "" : ",", l, slotIndex(i->slot),
          i->state == Callback::Emitter::Slot::connected ? "" : i->state == Callback::Emitter::Slot::connecting ? "n" : "d");
        first = false;
      }
      if(d.dirty || d.activation)
        printf("!");
    }
  }
  printf(" |");
  for(int l = 0; l < NL; ++l)
  {
    printf(" L%d:", l);
    if(!li[l])
    {
      printf("x");
      continue;
    }
    for(int e = 0; e < NE; ++e)
    {
      printf("%se%d=", e ? " " : "", e);
      Map<Callback::Emitter*, List<Callback::Listener::Signal> >::Iterator it = emAddr[e] ? li[l]->slotData.find((Callback::Emitter*)emAddr[e]) : li[l]->slotData.end();
      if(it == li[l]->slotData.end() || it->isEmpty())
      {
        printf("-");
        continue;
      }
      bool first = true;
      for(List<Callback::Listener::Signal>::Iterator i = it->begin(), end = it->end(); i != end; ++i)
      {
        printf("%s%d.%d", first ? "" : ",", sigIndex(i->signal), slotIndex(i->slot));
        first = false;
      }
    }
  }
  hxEndLine();
}

static bool digit(char c, int bound, int& out)
{
  if(c < '0' || c > '9' || c - '0' >= bound)
    return false;
  out = c - '0';
  return true;
}

static bool parseAction(const char* t, Act& a)
{
  size_t n = strlen(t);
  a.kind = t[0];
  a.e = a.g = a.l = a.s = 0;
  if((t[0] == 'c' || t[0] == 'd') && n == 5)
    return digit(t[1], NE, a.e) && digit(t[2], NG, a.g) && digit(t[3], NL, a.l) && digit(t[4], NS, a.s);
  if(t[0] == 'm' && n == 3)
    return digit(t[1], NE, a.e) && digit(t[2], NG, a.g);
  if(t[0] == 'L' && n == 2)
    return digit(t[1], NL, a.l);
  if(t[0] == 'E' && n == 2)
    return digit(t[1], NE, a.e);
  if(t[0] == 'n' && n == 2)
    return digit(t[1], NL, a.l);
  if(t[0] == 'w' && n == 2)
    return digit(t[1], NE, a.e);
  return false;
}

static bool numTok(const HxLine& l, int i, int bound, int& out)
{
  const char* t = l.tok[i];
  if(!*t || strlen(t) > 6)
    return false;
  for(const char* p = t; *p; ++p)
    if(*p < '0' || *p > '9')
      return false;
  out = (int)hxNum(l, i);
  return out < bound;
}

static void bad()
{
  printf("bad-op");
  hxEndLine();
}

int main()
{
  static HxLine l;
  resetAll();
  while(hxRead(l))
  {
    Act a;
    a.e = a.g = a.l = a.s = 0;
    if(hxIs(l, "reset", 0))
    {
      resetAll();
      printf("ok");
      hxEndLine();
      continue;
    }
    if(l.ntok >= 4 && strcmp(l.tok[0], "script") == 0)
    {
      int li_, s, k;
      Act acts[MAXACT];
      int n = l.ntok - 4;
      bool ok = numTok(l, 1, NL, li_) && numTok(l, 2, NS, s) && numTok(l, 3, MAXK, k) && n <= MAXACT;
      for(int i = 0; ok && i < n; ++i)
        ok = parseAction(l.tok[4 + i], acts[i]);
      if(!ok)
      {
        bad();
        continue;
      }
      for(int i = 0; i < n; ++i)
        script[li_][s][k][i] = acts[i];
      scriptLen[li_][s][k] = n;
      printf("ok");
      hxEndLine();
      continue;
    }
    if(hxIs(l, "end", 0))
    {
      // whatever is left is destroyed (listeners first, then emitters) so that every destructor
      // runs under ASan inside the history it belongs to
      logLen = 0;
      for(int i = 0; i < NL; ++i)
      {
        a.kind = 'L';
        a.l = i;
        doAct(a);
      }
      for(int i = 0; i < NE; ++i)
      {
        a.kind = 'E';
        a.e = i;
        doAct(a);
      }
      observe();
      continue;
    }
    bool ok = false;
    if(hxIs(l, "connect", 4) || hxIs(l, "disconnect", 4))
    {
      a.kind = l.tok[0][0];
      ok = numTok(l, 1, NE, a.e) && numTok(l, 2, NG, a.g) && numTok(l, 3, NL, a.l) && numTok(l, 4, NS, a.s);
    }
    else if(hxIs(l, "emit", 2))
    {
      a.kind = 'm';
      ok = numTok(l, 1, NE, a.e) && numTok(l, 2, NG, a.g);
    }
    else if(hxIs(l, "dell", 1))
    {
      a.kind = 'L';
      ok = numTok(l, 1, NL, a.l);
    }
    else if(hxIs(l, "dele", 1))
    {
      a.kind = 'E';
      ok = numTok(l, 1, NE, a.e);
    }
    else if(hxIs(l, "newl", 1))
    {
      a.kind = 'n';
      ok = numTok(l, 1, NL, a.l);
    }
    else if(hxIs(l, "newe", 1))
    {
      a.kind = 'w';
      ok = numTok(l, 1, NE, a.e);
    }
    if(!ok)
    {
      bad();
      continue;
    }
    logLen = 0;
    doAct(a);
    observe();
  }
  // the objects still alive are destroyed at the end (listeners first, then emitters):
  // every destructor runs under ASan at least once per history
  for(int l2 = 0; l2 < NL; ++l2)
    if(li[l2])
    {
      delete li[l2];
      li[l2] = 0;
    }
  for(int e = 0; e < NE; ++e)
    if(em[e])
    {
      delete em[e];
      em[e] = 0;
    }
  return 0;
}
