#pragma once
#include <pthread.h>
#include <semaphore.h>
#include <time.h>
#include <unistd.h>
#ifdef __cplusplus
extern "C" {
#endif
int nv_pthread_mutex_init(pthread_mutex_t*, const pthread_mutexattr_t*);
int nv_pthread_mutex_destroy(pthread_mutex_t*);
int nv_pthread_mutex_lock(pthread_mutex_t*);
int nv_pthread_mutex_trylock(pthread_mutex_t*);
int nv_pthread_mutex_unlock(pthread_mutex_t*);
int nv_pthread_cond_init(pthread_cond_t*, const pthread_condattr_t*);
int nv_pthread_cond_destroy(pthread_cond_t*);
int nv_pthread_cond_wait(pthread_cond_t*, pthread_mutex_t*);
int nv_pthread_cond_timedwait(pthread_cond_t*, pthread_mutex_t*, const struct timespec*);
int nv_pthread_cond_signal(pthread_cond_t*);
int nv_pthread_cond_broadcast(pthread_cond_t*);
int nv_pthread_create(pthread_t*, const pthread_attr_t*, void*(*)(void*), void*);
int nv_pthread_join(pthread_t, void**);
int nv_sem_init(sem_t*, int, unsigned);
int nv_sem_destroy(sem_t*);
int nv_sem_post(sem_t*);
int nv_sem_wait(sem_t*);
int nv_sem_trywait(sem_t*);
int nv_sem_timedwait(sem_t*, const struct timespec*);
int nv_clock_gettime(clockid_t, struct timespec*);
int nv_usleep(useconds_t);
void nv_yield(const char* where, const volatile void* addr);
#ifdef __cplusplus
}
#endif
#define pthread_mutex_init nv_pthread_mutex_init
#define pthread_mutex_destroy nv_pthread_mutex_destroy
#define pthread_mutex_lock nv_pthread_mutex_lock
#define pthread_mutex_trylock nv_pthread_mutex_trylock
#define pthread_mutex_unlock nv_pthread_mutex_unlock
#define pthread_cond_init nv_pthread_cond_init
#define pthread_cond_destroy nv_pthread_cond_destroy
#define pthread_cond_wait nv_pthread_cond_wait
#define pthread_cond_timedwait nv_pthread_cond_timedwait
#define pthread_cond_signal nv_pthread_cond_signal
#define pthread_cond_broadcast nv_pthread_cond_broadcast
#define pthread_create nv_pthread_create
#define pthread_join nv_pthread_join
#define sem_init nv_sem_init
#define sem_destroy nv_sem_destroy
#define sem_post nv_sem_post
#define sem_wait nv_sem_wait
#define sem_trywait nv_sem_trywait
#define sem_timedwait nv_sem_timedwait
#define clock_gettime nv_clock_gettime
#define usleep nv_usleep
#ifdef __cplusplus
template<typename T, typename V> static inline T nv_sync_add_and_fetch(volatile T* p, V v) { nv_yield("add_and_fetch", p); return __atomic_add_fetch(p, (T)v, __ATOMIC_SEQ_CST); }
template<typename T> static inline T nv_sync_val_cas(volatile T* p, T o, T n) { nv_yield("cas", p); __atomic_compare_exchange_n(p, &o, n, false, __ATOMIC_SEQ_CST, __ATOMIC_SEQ_CST); return o; }
template<typename T, typename V> static inline T nv_sync_lock_test_and_set(volatile T* p, V v) { nv_yield("xchg", p); return __atomic_exchange_n(p, (T)v, __ATOMIC_SEQ_CST); }
#define __sync_add_and_fetch(p, v) nv_sync_add_and_fetch(p, v)
#define __sync_val_compare_and_swap(p, o, n) nv_sync_val_cas(p, o, n)
#define __sync_lock_test_and_set(p, v) nv_sync_lock_test_and_set(p, v)
#endif
