// Interface of the controlled scheduler / simulated POSIX layer (harness/sync/sched.cpp).
#pragma once
enum { SCHED_MAXT = 8, SCHED_MAXPREFIX = 512, SCHED_TICK = 99 };

// start a controlled run in the calling thread (which becomes thread 0).
//   prefix      explicit schedule: (thread, alternative) pairs, thread 99 = clock tick
//   sec/nsec    initial value of the virtual clock; quantum = nanoseconds added by one tick
//   seed        0: after the prefix follow the default policy (first normal / timed-out alternative, else tick);
//               otherwise pick uniformly among ALL candidates with xorshift64 seeded by it
//   spur/eintr  budgets of spurious condition wake-ups / EINTR returns of sem_wait, sem_timedwait
void sched_begin(int nprefix, const int* prefT, const int* prefA, long sec, long nsec, long quantum, int spur, int eintr,
                 unsigned long long seed);
// append an event to the step that is currently executing (printf style, no blanks)
void sched_event(const char* fmt, ...);
// the next pthread_create produces the simulated thread with this id
void sched_set_next_tid(int tid);
// pthread_create may fail (EAGAIN) this many times; call after sched_begin
void sched_set_create_failures(int n);
// sem_timedwait may fail with ENOSYS this many times (alternative 3; Semaphore::wait(timeout) then polls with sem_trywait + usleep)
void sched_set_enosys(int n);
// thread 0 has finished its program; never returns (the run ends with a verdict line and _exit)
void sched_main_done();
// a contract violation noticed by the scenario interpreter itself (critical-section occupancy)
void sched_flag(const char* what);
int sched_self();
