// Controlled scheduler + simulated POSIX layer for the Sync area (property C11).
//
// The unmodified libnstd sources are compiled with `-include sync/shim.h`, which renames every
// pthread_*/sem_*/clock_gettime call into the nv_* functions below.  Library threads are real
// pthreads, but exactly one of them runs at a time (baton passing): every nv_* call announces a
// pending operation and waits until the controller picks it.  The controller's choices come from an
// explicit schedule prefix (thread.alternative pairs) and, after the prefix, from a fixed default
// policy.  The state kept here (mutex owner/count, condition wait sets, semaphore count, virtual
// clock, thread table) IS the POSIX semantics assumed by the Lean model (lean/Nstd/Sync/Posix.lean).
//
// Atomic steps: one step = the effect of the pending POSIX call + the library/scenario code up to the
// announcement of the thread's next POSIX call (or the end of the thread function).
#include "shim_undef.h"
#include "sched.h"
#include <pthread.h>
#include <semaphore.h>
#include <time.h>
#include <stdio.h>
#include <stdlib.h>
#include <string.h>
#include <stdarg.h>
#include <errno.h>
#include <unistd.h>

enum OpKind { OP_NONE, OP_START, OP_LOCK, OP_TRYLOCK, OP_UNLOCK, OP_CWAIT_ENTER, OP_CWAKE, OP_RELOCK, OP_SIGNAL,
              OP_BCAST, OP_CREATE, OP_JOIN, OP_SEM_POST, OP_SEM_WAIT, OP_SEM_TRYWAIT, OP_SEM_TIMEDWAIT, OP_SLEEP };
enum CandKind { C_NORMAL, C_SPUR, C_EINTR, C_TIMEOUT, C_TICK };
enum { MAXOBJ = 16 };

struct VMutex { void* addr; int owner; int count; bool recursive; };
struct VSem { void* addr; long count; };
struct VThread
{
  bool used, finished;
  pthread_t real;
  sem_t go;
  OpKind pend;
  void* obj;      // mutex / cond / sem of the pending operation
  void* obj2;     // mutex of a condition wait
  int joinTarget;
  bool timed, tsValid;
  long waitSeq;   // arrival order in the wait set of a condition variable
  long dsec, dnsec;
  OpKind gotKind; // kind of the operation that was scheduled (a signaller may turn CWAKE into RELOCK)
  int gotAlt;
  void* (*fn)(void*);
  void* arg;
  void* ret;
};
struct Cand { int t, alt; CandKind kind; };

static pthread_mutex_t G = PTHREAD_MUTEX_INITIALIZER;
static VMutex mtx[MAXOBJ]; static int nmtx;
static VSem sems[MAXOBJ]; static int nsems;
static VThread th[SCHED_MAXT]; static int nth;
static __thread int self = -1;
static int prefT[SCHED_MAXPREFIX], prefA[SCHED_MAXPREFIX], nprefix, stepIndex;
static long nowSec, nowNsec, quantum;
static int spurBudget, eintrBudget, createFailBudget, enosysBudget, nextTid = -1;
static char trace[1 << 17]; static int tracen;
static char flags[256];
static long waitSeqCounter;
// object lifetime: an operation on a destroyed mutex / condition variable is undefined in POSIX; it is flagged in the verdict
static void* destroyed[64]; static int ndestroyed;
static void markDestroyed(void* p) { if(ndestroyed < 64) destroyed[ndestroyed++] = p; }
static void markAlive(void* p) { for(int i = 0; i < ndestroyed; ++i) if(destroyed[i] == p) destroyed[i] = destroyed[--ndestroyed]; }
static void checkAlive(void* p, const char* what)   // G held
{
  for(int i = 0; i < ndestroyed; ++i)
    if(destroyed[i] == p && strlen(flags) + strlen(what) + 24 < sizeof(flags)) { strcat(flags, " !use-after-destroy:"); strcat(flags, what); return; }
}
static unsigned long long rs; static bool randomMode;
static unsigned long long rnd() { rs ^= rs << 13; rs ^= rs >> 7; rs ^= rs << 17; return rs >> 11; }

// a run ends through _exit (stale threads): under tools/implcov.py the gcov counters have to be written out first
#ifdef VERIF_IMPLCOV
extern "C" void __gcov_dump(void);
#define IMPLCOV_DUMP() __gcov_dump()
#else
#define IMPLCOV_DUMP() ((void)0)
#endif
static void die(const char* why) { fprintf(stderr, "SCHED-INTERNAL %s\n", why); IMPLCOV_DUMP(); _exit(3); }

static VMutex* M(void* a)
{
  for(int i = 0; i < nmtx; ++i) if(mtx[i].addr == a) return &mtx[i];
  if(nmtx == MAXOBJ) die("too many mutexes");
  mtx[nmtx].addr = a; mtx[nmtx].owner = -1; mtx[nmtx].count = 0; mtx[nmtx].recursive = false;
  return &mtx[nmtx++];
}
static VSem* S(void* a)
{
  for(int i = 0; i < nsems; ++i) if(sems[i].addr == a) return &sems[i];
  if(nsems == MAXOBJ) die("too many semaphores");
  sems[nsems].addr = a; sems[nsems].count = 0;
  return &sems[nsems++];
}
static bool expired(const VThread& T) { return nowSec > T.dsec || (nowSec == T.dsec && nowNsec >= T.dnsec); }
static bool lockable(VMutex* m, int t) { return m->owner == -1 || (m->owner == t && m->recursive); }
// the wait set of a condition variable in arrival order
static int waitersOf(void* c, int* out)
{
  int n = 0;
  for(int t = 0; t < nth; ++t)
    if(th[t].used && !th[t].finished && th[t].pend == OP_CWAKE && th[t].obj == c)
    {
      int k = n++;
      if(!out) continue;
      while(k > 0 && th[out[k - 1]].waitSeq > th[t].waitSeq) { out[k] = out[k - 1]; --k; }
      out[k] = t;
    }
  return n;
}

static int candidates(Cand* c)
{
  int n = 0; bool tick = false;
  for(int t = 0; t < nth; ++t)
  {
    VThread& T = th[t];
    if(!T.used || T.finished) continue;
    switch(T.pend)
    {
    case OP_NONE: break;
    case OP_START: case OP_TRYLOCK: case OP_BCAST: case OP_SEM_POST: case OP_SEM_TRYWAIT:
      c[n++] = Cand{t, 0, C_NORMAL}; break;
    case OP_CREATE:      // alternative 1: pthread_create fails with EAGAIN (budgeted, never taken by the default policy)
      c[n++] = Cand{t, 0, C_NORMAL};
      if(createFailBudget > 0) c[n++] = Cand{t, 1, C_EINTR};
      break;
    case OP_UNLOCK: if(M(T.obj)->owner == t) c[n++] = Cand{t, 0, C_NORMAL}; break;
    case OP_CWAIT_ENTER: if(M(T.obj2)->owner == t) c[n++] = Cand{t, 0, C_NORMAL}; break;
    case OP_LOCK: if(lockable(M(T.obj), t)) c[n++] = Cand{t, 0, C_NORMAL}; break;
    case OP_RELOCK: if(lockable(M(T.obj2), t)) c[n++] = Cand{t, 0, C_NORMAL}; break;
    case OP_SIGNAL: { int w = waitersOf(T.obj, 0); for(int a = 0; a < (w > 1 ? w : 1); ++a) c[n++] = Cand{t, a, C_NORMAL}; break; }
    case OP_CWAKE:
      if(spurBudget > 0) c[n++] = Cand{t, 0, C_SPUR};
      if(T.timed && expired(T)) c[n++] = Cand{t, 1, C_TIMEOUT};
      if(T.timed && !expired(T)) tick = true;
      break;
    case OP_JOIN: if(th[T.joinTarget].used && th[T.joinTarget].finished) c[n++] = Cand{t, 0, C_NORMAL}; break;
    case OP_SEM_WAIT:
      if(S(T.obj)->count > 0) c[n++] = Cand{t, 0, C_NORMAL};
      if(eintrBudget > 0) c[n++] = Cand{t, 1, C_EINTR};
      break;
    case OP_SEM_TIMEDWAIT:
      if(S(T.obj)->count > 0) c[n++] = Cand{t, 0, C_NORMAL};
      if(eintrBudget > 0) c[n++] = Cand{t, 1, C_EINTR};
      if(S(T.obj)->count == 0 && (!T.tsValid || expired(T))) c[n++] = Cand{t, 2, C_TIMEOUT};
      if(T.tsValid && !expired(T)) tick = true;
      if(enosysBudget > 0) c[n++] = Cand{t, 3, C_EINTR};   // ENOSYS (budgeted, never taken by the default policy)
      break;
    case OP_SLEEP:       // usleep: returns once the virtual clock has reached the wake-up time
      if(expired(T)) c[n++] = Cand{t, 0, C_NORMAL}; else tick = true;
      break;
    }
  }
  if(tick) c[n++] = Cand{SCHED_TICK, 0, C_TICK};
  return n;
}

static void finish(const char* verdict)
{
  fwrite(trace, 1, tracen, stdout);
  printf(" | %s", verdict);
  if(strcmp(verdict, "done") != 0)
    for(int t = 0; t < nth; ++t) if(th[t].used && !th[t].finished) printf(" %d", t);
  printf("%s\n", flags);
  fflush(stdout);
  IMPLCOV_DUMP();
  _exit(0);
}

// called with G held by thread `me` (or -1 when the caller's thread has ended), which has set its pend;
// picks the next step and hands over the baton; returns when `me` is scheduled again
static void pass_baton(int me)
{
  for(;;)
  {
    bool all = true;
    for(int t = 0; t < nth; ++t) if(th[t].used && !th[t].finished) all = false;
    if(all) finish("done");
    Cand c[SCHED_MAXT * 4 + 1];
    int nc = candidates(c), pick = -1;
    if(stepIndex < nprefix)
    {
      for(int i = 0; i < nc; ++i) if(c[i].t == prefT[stepIndex] && c[i].alt == prefA[stepIndex]) pick = i;
      if(pick < 0) finish("bad-schedule");
    }
    else if(randomMode)
    {
      if(nc == 0) finish("deadlock");
      pick = (int)(rnd() % (unsigned long long)nc);
    }
    else
    {
      for(int i = 0; i < nc && pick < 0; ++i) if(c[i].kind == C_NORMAL || c[i].kind == C_TIMEOUT) pick = i;
      for(int i = 0; i < nc && pick < 0; ++i) if(c[i].kind == C_TICK) pick = i;
      if(pick < 0) finish("deadlock");
    }
    if(tracen > (int)sizeof(trace) - 1024) finish("trace-overflow");
    tracen += sprintf(trace + tracen, " %d.%d/", c[pick].t, c[pick].alt);
    for(int i = 0; i < nc; ++i) tracen += sprintf(trace + tracen, "%s%d.%d", i ? "," : "", c[i].t, c[i].alt);
    trace[tracen++] = ':';
    ++stepIndex;
    if(c[pick].kind == C_TICK)
    {
      nowNsec += quantum; nowSec += nowNsec / 1000000000L; nowNsec %= 1000000000L;
      continue;
    }
    int t = c[pick].t;
    th[t].gotKind = th[t].pend; th[t].gotAlt = c[pick].alt;
    if(t == me) return;
    sem_post(&th[t].go);
    if(me < 0) return;
    pthread_mutex_unlock(&G);
    sem_wait(&th[me].go);
    pthread_mutex_lock(&G);
    return;
  }
}

// scheduling point: announce the pending operation, wait until it is chosen; the caller applies the effect (G held)
static int point(OpKind k, void* obj, void* obj2 = 0)
{
  VThread& T = th[self];
  T.pend = k; T.obj = obj; T.obj2 = obj2;
  pass_baton(self);
  T.pend = OP_NONE;
  return T.gotAlt;
}

static void setDeadline(const struct timespec* ts)
{
  VThread& T = th[self];
  T.timed = ts != 0; T.tsValid = true;
  if(ts) { T.dsec = (long)ts->tv_sec; T.dnsec = ts->tv_nsec; T.tsValid = ts->tv_nsec >= 0 && ts->tv_nsec < 1000000000L; }
}

extern "C" {
int nv_pthread_mutex_init(pthread_mutex_t* m, const pthread_mutexattr_t* a)
{
  pthread_mutex_lock(&G);
  markAlive(m);
  VMutex* v = M(m); v->owner = -1; v->count = 0;
  int type = PTHREAD_MUTEX_DEFAULT;
  if(a) pthread_mutexattr_gettype(a, &type);
  v->recursive = type == PTHREAD_MUTEX_RECURSIVE;
  pthread_mutex_unlock(&G);
  return 0;
}
int nv_pthread_mutex_destroy(pthread_mutex_t* m)
{
  pthread_mutex_lock(&G); VMutex* v = M(m); int r = v->owner == -1 ? 0 : EBUSY; if(r == 0) markDestroyed(m); pthread_mutex_unlock(&G); return r;
}
int nv_pthread_mutex_lock(pthread_mutex_t* m)
{
  pthread_mutex_lock(&G); point(OP_LOCK, m); checkAlive(m, "mutex_lock");
  VMutex* v = M(m); v->owner = self; v->count++;
  pthread_mutex_unlock(&G); return 0;
}
int nv_pthread_mutex_trylock(pthread_mutex_t* m)
{
  pthread_mutex_lock(&G); point(OP_TRYLOCK, m); checkAlive(m, "mutex_trylock");
  VMutex* v = M(m); int r = EBUSY;
  if(lockable(v, self)) { v->owner = self; v->count++; r = 0; }
  pthread_mutex_unlock(&G); return r;
}
int nv_pthread_mutex_unlock(pthread_mutex_t* m)
{
  pthread_mutex_lock(&G); point(OP_UNLOCK, m);   // only enabled for the owner (unlock by a non-owner: client error, never scheduled)
  checkAlive(m, "mutex_unlock");
  VMutex* v = M(m); if(--v->count == 0) v->owner = -1;
  pthread_mutex_unlock(&G); return 0;
}
int nv_pthread_cond_init(pthread_cond_t* c, const pthread_condattr_t*) { pthread_mutex_lock(&G); markAlive(c); pthread_mutex_unlock(&G); return 0; }
int nv_pthread_cond_destroy(pthread_cond_t* c)
{
  pthread_mutex_lock(&G); int r = waitersOf(c, 0) ? EBUSY : 0; if(r == 0) markDestroyed(c); pthread_mutex_unlock(&G); return r;
}
static int cwait(pthread_cond_t* c, pthread_mutex_t* m, const struct timespec* ts)
{
  pthread_mutex_lock(&G);
  setDeadline(ts);
  point(OP_CWAIT_ENTER, c, m);                   // only enabled while the caller owns m
  checkAlive(c, "cond_wait");
  if(!th[self].tsValid) { pthread_mutex_unlock(&G); return EINVAL; }
  VMutex* v = M(m); int saved = v->count; v->count = 0; v->owner = -1;   // atomically release and join the wait set
  th[self].waitSeq = ++waitSeqCounter;
  int alt = point(OP_CWAKE, c, m);               // blocked: spurious (alt 0) / timed out (alt 1) / turned into RELOCK by signal, broadcast
  int rc = 0;
  if(th[self].gotKind == OP_CWAKE)
  {
    if(alt == 1) rc = ETIMEDOUT; else --spurBudget;
    point(OP_RELOCK, c, m);
  }
  v = M(m); v->owner = self; v->count = saved;
  pthread_mutex_unlock(&G);
  return rc;
}
int nv_pthread_cond_wait(pthread_cond_t* c, pthread_mutex_t* m) { return cwait(c, m, 0); }
int nv_pthread_cond_timedwait(pthread_cond_t* c, pthread_mutex_t* m, const struct timespec* ts) { return cwait(c, m, ts); }
int nv_pthread_cond_signal(pthread_cond_t* c)
{
  pthread_mutex_lock(&G);
  int alt = point(OP_SIGNAL, c);
  checkAlive(c, "cond_signal");
  int w[SCHED_MAXT], n = waitersOf(c, w);
  if(n) { if(alt >= n) die("signal alternative"); th[w[alt]].pend = OP_RELOCK; }   // wakes exactly the chosen waiter
  pthread_mutex_unlock(&G); return 0;
}
int nv_pthread_cond_broadcast(pthread_cond_t* c)
{
  pthread_mutex_lock(&G);
  point(OP_BCAST, c);
  checkAlive(c, "cond_broadcast");
  int w[SCHED_MAXT], n = waitersOf(c, w);
  for(int i = 0; i < n; ++i) th[w[i]].pend = OP_RELOCK;
  pthread_mutex_unlock(&G); return 0;
}
static void* tramp(void* p)
{
  int id = (int)(long)p; self = id;
  sem_wait(&th[id].go);                           // START step
  pthread_mutex_lock(&G); th[id].pend = OP_NONE; pthread_mutex_unlock(&G);
  void* r = th[id].fn(th[id].arg);
  pthread_mutex_lock(&G);
  th[id].ret = r; th[id].finished = true; th[id].pend = OP_NONE;
  pass_baton(-1);
  pthread_mutex_unlock(&G);
  return r;
}
int nv_pthread_create(pthread_t* out, const pthread_attr_t*, void* (*fn)(void*), void* arg)
{
  pthread_mutex_lock(&G);
  int alt = point(OP_CREATE, 0);
  if(alt == 1) { --createFailBudget; nextTid = -1; pthread_mutex_unlock(&G); return EAGAIN; }
  int id = nextTid >= 0 ? nextTid : nth; nextTid = -1;
  if(id >= SCHED_MAXT || th[id].used) die("thread id");
  if(id >= nth) nth = id + 1;
  VThread& T = th[id]; memset(&T, 0, sizeof(T));
  T.used = true; sem_init(&T.go, 0, 0); T.fn = fn; T.arg = arg; T.pend = OP_START;
  if(pthread_create(&T.real, 0, tramp, (void*)(long)id) != 0) die("pthread_create");
  *out = (pthread_t)(long)(id + 1000);            // never 0: Thread uses 0 for "not started"
  pthread_mutex_unlock(&G); return 0;
}
int nv_pthread_join(pthread_t h, void** ret)
{
  int id = (int)((long)h - 1000);
  pthread_mutex_lock(&G);
  th[self].joinTarget = id;
  point(OP_JOIN, 0);
  if(ret) *ret = th[id].ret;
  pthread_mutex_unlock(&G);
  return 0;
}
int nv_clock_gettime(clockid_t, struct timespec* ts) { ts->tv_sec = nowSec; ts->tv_nsec = nowNsec; return 0; }
int nv_sem_init(sem_t* s, int, unsigned v) { pthread_mutex_lock(&G); S(s)->count = v; pthread_mutex_unlock(&G); return 0; }
int nv_sem_destroy(sem_t*) { return 0; }
int nv_sem_post(sem_t* s) { pthread_mutex_lock(&G); point(OP_SEM_POST, s); S(s)->count++; pthread_mutex_unlock(&G); return 0; }
int nv_sem_wait(sem_t* s)
{
  pthread_mutex_lock(&G);
  int alt = point(OP_SEM_WAIT, s), r = 0, e = 0;
  if(alt == 0) S(s)->count--; else { --eintrBudget; r = -1; e = EINTR; }
  pthread_mutex_unlock(&G);
  if(r) errno = e;
  return r;
}
int nv_sem_trywait(sem_t* s)
{
  pthread_mutex_lock(&G);
  point(OP_SEM_TRYWAIT, s); int r = 0;
  if(S(s)->count > 0) S(s)->count--; else r = -1;
  pthread_mutex_unlock(&G);
  if(r) errno = EAGAIN;
  return r;
}
int nv_sem_timedwait(sem_t* s, const struct timespec* ts)
{
  pthread_mutex_lock(&G);
  setDeadline(ts);
  int alt = point(OP_SEM_TIMEDWAIT, s), r = 0, e = 0;
  if(alt == 0) S(s)->count--;
  else if(alt == 1) { --eintrBudget; r = -1; e = EINTR; }
  else if(alt == 3) { --enosysBudget; r = -1; e = ENOSYS; }
  else { r = -1; e = th[self].tsValid ? ETIMEDOUT : EINVAL; }
  pthread_mutex_unlock(&G);
  if(r) errno = e;
  return r;
}
int nv_usleep(useconds_t us)
{
  pthread_mutex_lock(&G);
  VThread& T = th[self];
  long ns = nowNsec + (long)(us % 1000000) * 1000L;
  T.dsec = nowSec + (long)(us / 1000000) + ns / 1000000000L; T.dnsec = ns % 1000000000L;
  point(OP_SLEEP, 0);
  pthread_mutex_unlock(&G);
  return 0;
}
void nv_yield(const char*, const volatile void*) {}
}

void sched_begin(int np, const int* pt, const int* pa, long sec, long nsec, long q, int spur, int eintr, unsigned long long seed)
{
  randomMode = seed != 0; rs = seed * 0x2545F4914F6CDD1DULL + 0x9E3779B97F4A7C15ULL;
  nprefix = np < SCHED_MAXPREFIX ? np : SCHED_MAXPREFIX;
  for(int i = 0; i < nprefix; ++i) { prefT[i] = pt[i]; prefA[i] = pa[i]; }
  stepIndex = 0; nowSec = sec; nowNsec = nsec; quantum = q; spurBudget = spur; eintrBudget = eintr;
  createFailBudget = 0; enosysBudget = 0; ndestroyed = 0; waitSeqCounter = 0; nmtx = 0; nsems = 0; nth = 1; tracen = sprintf(trace, "init:"); flags[0] = 0; nextTid = -1;
  memset(th, 0, sizeof(th));
  th[0].used = true; sem_init(&th[0].go, 0, 0); self = 0;
}
void sched_event(const char* fmt, ...)
{
  va_list ap; va_start(ap, fmt);
  pthread_mutex_lock(&G);
  if(tracen < (int)sizeof(trace) - 256) { tracen += vsnprintf(trace + tracen, 200, fmt, ap); trace[tracen++] = ','; }
  pthread_mutex_unlock(&G);
  va_end(ap);
}
void sched_set_next_tid(int tid) { nextTid = tid; }
void sched_set_create_failures(int n) { createFailBudget = n; }
void sched_set_enosys(int n) { enosysBudget = n; }
void sched_flag(const char* what)
{
  pthread_mutex_lock(&G);
  if(strlen(flags) + strlen(what) + 3 < sizeof(flags)) { strcat(flags, " !"); strcat(flags, what); }
  pthread_mutex_unlock(&G);
}
int sched_self() { return self; }
void sched_main_done()
{
  pthread_mutex_lock(&G);
  th[0].finished = true; th[0].pend = OP_NONE;
  pass_baton(-1);
  pthread_mutex_unlock(&G);
  for(;;) pause();
}
