// Line-protocol harness for the Sync area (property C11): scenario programs of 2-4 threads over ONE
// primitive (Mutex / Semaphore / Signal / Monitor / Thread only) are executed on the real, unmodified
// libnstd sources, which run over the simulated POSIX layer and controlled scheduler of sync/sched.cpp
// (the sources are compiled with `-include sync/shim.h`).
//
//   reset
//   scen <prim> <init> <sec> <nsec> <quantum_ns> <spur> <eintr> [F:<n>] [N:<n>] T:<ret>:<op>,<op>,... T:<ret>:...   -> ok <threads>
//        prim = mtx | sem | sig | mon | thr ; init = initial count (sem) / initially set (sig)
//        ops  = lock try-<skip> unlock | signal wait twait-<ms> trywait | set reset wait twait-<ms> |
//               lock try-<skip> unlock wait twait-<ms> set | start-<j> mstart-<j> (member-function overload) xstart-<8j+k> (same on object j with the body of program k) join-<j> dtor-<j> (~Thread) | destroy (sig, mon: delete the object)
//               glock gunlock (mtx, mon: Mutex::Guard / Monitor::Guard constructed / destroyed) gwait gtwait-<ms> (mon: Guard::wait of the
//               innermost guard of the thread) | tid (Thread::getCurrentThreadId() == gettid) yield (Thread::yield) sleep-<ms> (Thread::sleep, virtual clock) - any primitive
//        try-<skip>: on failure the next <skip> ops of the thread are skipped
//   run <t.a>,<t.a>,...    (or `run -`)  explicit schedule prefix, default policy afterwards
//        -> init:<events> <t.a>/<candidates>:<events> ... | <verdict>
//   rrun <seed> <prefix>   same, but after the prefix every choice is drawn from all candidates (xorshift64)
//        one forked process per run; event `<k>=<v>`: op number k of the stepping thread returned v
#include "common/hx.h"
#include "sync/sched.h"
#include <nstd/Mutex.hpp>
#include <nstd/Semaphore.hpp>
#include <nstd/Signal.hpp>
#include <nstd/Monitor.hpp>
#include <nstd/Thread.hpp>
#include <unistd.h>
#include <signal.h>
#include <sys/wait.h>
#include <sys/syscall.h>
#include <stdarg.h>
#include <nstd/Debug.hpp>

// Debug.cpp is not linked (it pulls String/Process); a failed VERIFY/ASSERT of the library prints here and traps
int Debug::printf(const char* format, ...)
{
  va_list ap; va_start(ap, format); vfprintf(stderr, format, ap); va_end(ap);
  return 1;
}

enum Prim { P_NONE, P_MTX, P_SEM, P_SIG, P_MON, P_THR };
enum OpK { K_GLOCK, K_GUNLOCK, K_GWAIT, K_GTWAIT, K_TID, K_YIELD, K_SLEEP, K_LOCK, K_TRY, K_UNLOCK, K_SIGNAL, K_WAIT, K_TWAIT, K_TRYWAIT, K_SET, K_RESET, K_START, K_MSTART, K_XSTART, K_JOIN, K_DTOR, K_DESTROY };
struct Op { OpK k; long arg; };
struct Prog { Op ops[64]; int n; unsigned long ret; };

static Prim prim = P_NONE;
static long initVal, clkSec, clkNsec, quantum;
static int spur, eintr, createFail, enosys, nprog;
static Prog prog[SCHED_MAXT];

static Mutex* mtx; static Semaphore* sem; static Signal* sig; static Monitor* mon;
static Thread* thr[SCHED_MAXT];
static int occOwner = -1, occDepth = 0;

static void enter(int t)
{
  if(occDepth > 0 && occOwner != t) sched_flag("exclusion");
  occOwner = t; ++occDepth;
}
static void leave(int t)
{
  if(occOwner != t || occDepth <= 0) sched_flag("exclusion");
  if(--occDepth == 0) occOwner = -1;
}

// guards held by each thread (innermost last)
static Mutex::Guard* mguard[SCHED_MAXT][16]; static Monitor::Guard* nguard[SCHED_MAXT][16]; static int nguards[SCHED_MAXT];

static uint body(void* p);
struct Body { int t; uint run(); };   // thread body for the member-function overload of Thread::start
static Body bodies[SCHED_MAXT];

static void runProg(int t)
{
  Prog& P = prog[t];
  for(int k = 0; k < P.n; ++k)
  {
    const Op& o = P.ops[k];
    switch(o.k)
    {
    case K_LOCK:
      if(prim == P_MTX) mtx->lock(); else mon->lock();
      enter(t); sched_event("%d=v", k); break;
    case K_GLOCK:    // Mutex::Guard / Monitor::Guard: the constructor locks
      if(nguards[t] == 16) { sched_flag("guard-depth"); break; }
      if(prim == P_MTX) mguard[t][nguards[t]++] = new Mutex::Guard(*mtx); else nguard[t][nguards[t]++] = new Monitor::Guard(*mon);
      enter(t); sched_event("%d=v", k); break;
    case K_GUNLOCK:  // ... and the destructor unlocks
      if(nguards[t] == 0) { sched_flag("guard-depth"); break; }
      if(prim == P_MTX) delete mguard[t][--nguards[t]]; else delete nguard[t][--nguards[t]];
      leave(t); sched_event("%d=v", k); break;
    case K_GWAIT: case K_GTWAIT:   // Monitor::Guard::wait() / wait(timeout) forward to the monitor
    {
      if(nguards[t] == 0) { sched_flag("guard-depth"); break; }
      Monitor::Guard* g = nguard[t][nguards[t] - 1];
      leave(t);
      bool r = o.k == K_GWAIT ? g->wait() : g->wait((int64)o.arg);
      enter(t);
      sched_event("%d=%d", k, r ? 1 : 0); break;
    }
    case K_TID:      // Thread::getCurrentThreadId(): the kernel's id of the calling thread (no POSIX call of the simulated layer)
    {
      uint32 id = Thread::getCurrentThreadId();
      sched_event("%d=%d", k, id != 0 && id == (uint32)syscall(SYS_gettid) ? 1 : 0); break;
    }
    case K_YIELD: Thread::yield(); sched_event("%d=v", k); break;
    case K_SLEEP: Thread::sleep((int64)o.arg); sched_event("%d=v", k); break;   // usleep on the virtual clock (a scheduling point)
    case K_TRY:
    {
      bool r = prim == P_MTX ? mtx->tryLock() : mon->tryLock();
      if(r) enter(t);
      sched_event("%d=%d", k, r ? 1 : 0);
      if(!r) k += (int)o.arg;
      break;
    }
    case K_UNLOCK:
      if(prim == P_MTX) mtx->unlock(); else mon->unlock();
      leave(t); sched_event("%d=v", k); break;
    case K_SIGNAL: sem->signal(); sched_event("%d=v", k); break;
    case K_WAIT:
    {
      bool r;
      if(prim == P_SEM) r = sem->wait();
      else if(prim == P_SIG) r = sig->wait();
      else { leave(t); r = mon->wait(); enter(t); }
      sched_event("%d=%d", k, r ? 1 : 0); break;
    }
    case K_TWAIT:
    {
      bool r;
      if(prim == P_SEM) r = sem->wait((int64)o.arg);
      else if(prim == P_SIG) r = sig->wait((int64)o.arg);
      else { leave(t); r = mon->wait((int64)o.arg); enter(t); }
      sched_event("%d=%d", k, r ? 1 : 0); break;
    }
    case K_TRYWAIT: { bool r = sem->tryWait(); sched_event("%d=%d", k, r ? 1 : 0); break; }
    case K_SET: if(prim == P_SIG) sig->set(); else mon->set(); sched_event("%d=v", k); break;
    case K_RESET: sig->reset(); sched_event("%d=v", k); break;
    case K_START:
    {
      sched_set_next_tid((int)o.arg);
      bool r = thr[o.arg]->start(body, (void*)o.arg);
      sched_event("%d=%d", k, r ? 1 : 0); break;
    }
    case K_DTOR:     // Thread::~Thread() joins a thread that is still attached; the object is re-created in place
      thr[o.arg]->~Thread();
      new(thr[o.arg]) Thread;
      sched_event("%d=v", k); break;
    case K_DESTROY:   // ~Signal / ~Monitor: the caller asserts that nobody uses the object any more
      if(prim == P_SIG) { delete sig; sig = 0; } else { delete mon; mon = 0; }
      sched_event("%d=v", k); break;
    case K_MSTART:   // template <class X> bool Thread::start(X& obj, uint (X::*ptr)())
    {
      sched_set_next_tid((int)o.arg);
      bodies[o.arg].t = (int)o.arg;
      bool r = thr[o.arg]->start(bodies[o.arg], &Body::run);
      sched_event("%d=%d", k, r ? 1 : 0); break;
    }
    case K_XSTART:   // member-function overload on Thread object j = arg / 8 with the body object of program k = arg % 8
    {                // (used as a second start() on an object that already runs a thread: must fail and change nothing)
      int j = (int)(o.arg / 8), b = (int)(o.arg % 8);
      sched_set_next_tid(j);
      bodies[b].t = b;
      bool r = thr[j]->start(bodies[b], &Body::run);
      sched_event("%d=%d", k, r ? 1 : 0); break;
    }
    case K_JOIN: { uint r = thr[o.arg]->join(); sched_event("%d=%u", k, r); break; }
    }
  }
}

static uint body(void* p)
{
  int t = (int)(long)p;
  runProg(t);
  return (uint)prog[t].ret;
}

uint Body::run()
{
  runProg(t);
  return (uint)prog[t].ret;
}

static bool parseOp(char* s, Op& o)
{
  char* dash = strchr(s, '-');
  long arg = -1;
  if(dash) { *dash = 0; char* e; arg = strtol(dash + 1, &e, 10); if(*e || e == dash + 1 || arg < 0) return false; }
  o.arg = arg;
  bool m = prim == P_MTX, se = prim == P_SEM, si = prim == P_SIG, mo = prim == P_MON;
  if(!strcmp(s, "lock") && !dash && (m || mo)) o.k = K_LOCK;
  else if(!strcmp(s, "glock") && !dash && (m || mo)) o.k = K_GLOCK;
  else if(!strcmp(s, "gunlock") && !dash && (m || mo)) o.k = K_GUNLOCK;
  else if(!strcmp(s, "gwait") && !dash && mo) o.k = K_GWAIT;
  else if(!strcmp(s, "gtwait") && dash && mo) o.k = K_GTWAIT;
  else if(!strcmp(s, "tid") && !dash) o.k = K_TID;
  else if(!strcmp(s, "yield") && !dash) o.k = K_YIELD;
  else if(!strcmp(s, "sleep") && dash) o.k = K_SLEEP;
  else if(!strcmp(s, "try") && dash && (m || mo)) o.k = K_TRY;
  else if(!strcmp(s, "unlock") && !dash && (m || mo)) o.k = K_UNLOCK;
  else if(!strcmp(s, "signal") && !dash && se) o.k = K_SIGNAL;
  else if(!strcmp(s, "wait") && !dash && (se || si || mo)) o.k = K_WAIT;
  else if(!strcmp(s, "twait") && dash && (se || si || mo)) o.k = K_TWAIT;
  else if(!strcmp(s, "trywait") && !dash && se) o.k = K_TRYWAIT;
  else if(!strcmp(s, "set") && !dash && (si || mo)) o.k = K_SET;
  else if(!strcmp(s, "reset") && !dash && si) o.k = K_RESET;
  else if(!strcmp(s, "destroy") && !dash && (si || mo)) o.k = K_DESTROY;
  else if(!strcmp(s, "start") && dash && arg > 0 && arg < SCHED_MAXT) o.k = K_START;
  else if(!strcmp(s, "mstart") && dash && arg > 0 && arg < SCHED_MAXT) o.k = K_MSTART;
  else if(!strcmp(s, "xstart") && dash && arg / 8 > 0 && arg / 8 < SCHED_MAXT) o.k = K_XSTART;
  else if(!strcmp(s, "dtor") && dash && arg > 0 && arg < SCHED_MAXT) o.k = K_DTOR;
  else if(!strcmp(s, "join") && dash && arg > 0 && arg < SCHED_MAXT) o.k = K_JOIN;
  else return false;
  return true;
}

static bool parseScen(HxLine& l)
{
  prim = P_NONE; nprog = 0;
  if(l.ntok < 9) return false;
  const char* p = l.tok[1];
  Prim pr = !strcmp(p, "mtx") ? P_MTX : !strcmp(p, "sem") ? P_SEM : !strcmp(p, "sig") ? P_SIG : !strcmp(p, "mon") ? P_MON : !strcmp(p, "thr") ? P_THR : P_NONE;
  if(pr == P_NONE) return false;
  prim = pr;
  initVal = hxInt(l, 2); clkSec = hxInt(l, 3); clkNsec = hxInt(l, 4); quantum = hxInt(l, 5); spur = (int)hxInt(l, 6); eintr = (int)hxInt(l, 7);
  if(clkNsec < 0 || clkNsec >= 1000000000L || quantum <= 0 || initVal < 0) { prim = P_NONE; return false; }
  createFail = 0; enosys = 0;
  int first = 8;
  if(strncmp(l.tok[first], "F:", 2) == 0)
  {
    char* e; long n = strtol(l.tok[first] + 2, &e, 10);
    if(*e || e == l.tok[first] + 2 || n < 0) { prim = P_NONE; return false; }
    createFail = (int)n; ++first;
  }
  if(first < l.ntok && strncmp(l.tok[first], "N:", 2) == 0)   // sem_timedwait may report ENOSYS n times (alternative 3 of its step)
  {
    char* e; long n = strtol(l.tok[first] + 2, &e, 10);
    if(*e || e == l.tok[first] + 2 || n < 0 || pr != P_SEM) { prim = P_NONE; return false; }
    enosys = (int)n; ++first;
  }
  if(first >= l.ntok) { prim = P_NONE; return false; }
  for(int i = first; i < l.ntok; ++i)
  {
    if(nprog == SCHED_MAXT || strncmp(l.tok[i], "T:", 2) != 0) { prim = P_NONE; return false; }
    Prog& P = prog[nprog]; P.n = 0;
    char* s = l.tok[i] + 2; char* e;
    P.ret = strtoul(s, &e, 10);
    if(*e != ':' || e == s) { prim = P_NONE; return false; }
    s = e + 1;
    while(*s)
    {
      char* c = strchr(s, ',');
      if(c) *c = 0;
      if(P.n == 64 || !parseOp(s, P.ops[P.n])) { prim = P_NONE; return false; }
      ++P.n;
      if(!c) break;
      s = c + 1;
    }
    ++nprog;
  }
  // a start/join may only name an existing program
  for(int t = 0; t < nprog; ++t)
    for(int k = 0; k < prog[t].n; ++k)
    {
      if(prog[t].ops[k].k == K_XSTART && (prog[t].ops[k].arg / 8 >= nprog || prog[t].ops[k].arg % 8 >= nprog)) { prim = P_NONE; return false; }
      if((prog[t].ops[k].k == K_START || prog[t].ops[k].k == K_MSTART || prog[t].ops[k].k == K_JOIN || prog[t].ops[k].k == K_DTOR) && prog[t].ops[k].arg >= nprog) { prim = P_NONE; return false; }
    }
  return true;
}

static void child(int np, const int* pt, const int* pa, unsigned long long seed)
{
  alarm(20);
  sched_begin(np, pt, pa, clkSec, clkNsec, quantum, spur, eintr, seed);
  sched_set_create_failures(createFail);
  sched_set_enosys(enosys);
  occOwner = -1; occDepth = 0;
  for(int i = 0; i < SCHED_MAXT; ++i) nguards[i] = 0;
  if(prim == P_MTX) mtx = new Mutex;
  if(prim == P_SEM) sem = new Semaphore((uint)initVal);
  if(prim == P_SIG) sig = new Signal(initVal != 0);
  if(prim == P_MON) mon = new Monitor;
  for(int i = 0; i < SCHED_MAXT; ++i) thr[i] = new Thread;
  runProg(0);
  sched_main_done();
}

int main()
{
  static HxLine l;
  static int pt[SCHED_MAXPREFIX], pa[SCHED_MAXPREFIX];
  while(hxRead(l))
  {
    if(hxIs(l, "reset", 0)) { prim = P_NONE; printf("ok"); hxEndLine(); continue; }
    if(l.ntok >= 1 && !strcmp(l.tok[0], "scen"))
    {
      if(parseScen(l)) printf("ok %d", nprog); else printf("bad-op");
      hxEndLine(); continue;
    }
    if((hxIs(l, "run", 1) || hxIs(l, "rrun", 2)) && prim != P_NONE)
    {
      int np = 0; bool ok = true;
      bool random = l.ntok == 3;
      unsigned long long seed = random ? strtoull(l.tok[1], 0, 10) : 0;
      if(random && seed == 0) ok = false;
      char* sch = l.tok[random ? 2 : 1];
      if(ok && strcmp(sch, "-") != 0)
      {
        char* s = sch;
        while(*s && ok)
        {
          char* e; long t = strtol(s, &e, 10);
          if(*e != '.' || e == s || np == SCHED_MAXPREFIX) { ok = false; break; }
          s = e + 1; long a = strtol(s, &e, 10);
          if(e == s || (*e && *e != ',')) { ok = false; break; }
          pt[np] = (int)t; pa[np] = (int)a; ++np;
          s = *e ? e + 1 : e;
        }
      }
      if(!ok) { printf("bad-op"); hxEndLine(); continue; }
      fflush(stdout);
      pid_t pid = fork();
      if(pid == 0) child(np, pt, pa, seed);
      int st = 0;
      if(pid < 0 || waitpid(pid, &st, 0) < 0) { printf("CRASH fork"); hxEndLine(); continue; }
      if(WIFEXITED(st) && WEXITSTATUS(st) == 0) continue;         // the child printed the trace line
      if(WIFSIGNALED(st)) printf("CRASH signal %d", WTERMSIG(st)); else printf("CRASH exit %d", WEXITSTATUS(st));
      hxEndLine(); continue;
    }
    printf("bad-op"); hxEndLine();
  }
  return 0;
}
