import Nstd.Common.Basic
