/-
  Join side of deadlock freedom, part 3: token conservation as an invariant (`ConsInv`):
  while the pool has not been deleted, every allocated call record has EXACTLY one token
  (Σ_threads weight + ring tokens + freeCount = 1), and an uncompleted call has no `pSig`/`pDelete` frame.
-/
import Nstd.Future.LiveJoin2
set_option linter.unusedSimpArgs false
set_option linter.unusedVariables false
namespace Nstd.Future.LJ

structure ConsInv (s : State) : Prop where
  cons : poolAlive s → ∀ c, c < s.nextCall →
    tsum s.nthreads (wt s c) + ringTok c s.pool + s.freeCount c = 1
  nc3 : ∀ c, s.completed c = false → tsum s.nthreads (wtG (pw3 c) s) + s.freeCount c = 0

theorem consInv_init (cfg : Config) : ConsInv (State.init cfg) := by
  constructor
  · intro _ c hc; simp [State.init] at hc
  · intro c _
    have hthr : ∀ t th, (State.init cfg).threads t = some th → t = 0 ∧ th = { stack := [Frame.mInit] } := by
      intro t th h
      simp only [State.init] at h
      split at h
      · next h0 => injection h with h; exact ⟨h0, h.symm⟩
      · cases h
    have : wtG (pw3 c) (State.init cfg) = fun _ => 0 := by
      funext u
      simp only [wtG]
      cases h : (State.init cfg).threads u with
      | none => rfl
      | some th => obtain ⟨_, rfl⟩ := hthr u th h; simp [pw3]
    rw [this, tsum_const_zero]; rfl

/-- a step that (re)creates the pool does not change the ring tokens (there are none) -/
theorem fresh_ringTok {cfg : Config} {s : State} {t : Tid} {th : Thread} {fr : Frame} {rest : List Frame}
    (hr : Reach cfg s) (hth : s.threads t = some th) (hst : th.stack = fr :: rest) (hl : poolAlive s)
    (hf : lFresh fr = true) (c : Nat) :
    ringTok c (stepFrame s t th fr).1.pool = ringTok c s.pool := by
  have hSim := reach_inv hr
  cases fr <;> simp [lFresh] at hf
  case mInit =>
    have hs := hSim.initOnly t th hth (by rw [hst]; rfl)
    have hp : s.pool = none := by rw [hs]; rfl
    simp only [stepFrame]
    split
    · simp [setThread, hp]
    · simp [setThread, hp, ringTok_mk, ringTok_none, mkPool, Ring.init, cntLog_nil]
  case cRdTp2 c0 =>
    simp only [stepFrame]
    cases htp : s.tp with
    | true => simp [setThread]
    | false =>
      simp [setThread, ringTok_mk, mkPool, Ring.init, cntLog_nil]
      cases hp : s.pool with
      | none => rfl
      | some p =>
        have := (hSim.early hl htp).ctxs p hp
        subst this
        simp [ringTok_mk, mkPool, Ring.init, cntLog_nil]

theorem consInv_step {cfg : Config} {s s' : State} {t : Tid} {o : List String}
    (hr : Reach cfg s) (hI : ConsInv s) (h : step s t = some (s', o)) : ConsInv s' := by
  obtain ⟨th, fr, rest, hth, hst, hfin, rfl⟩ := step_inv h
  have hSim := reach_inv hr
  have hSafe := reach_safe hr
  have hrest : NoSpec rest := by
    have := hSim.ringTopOnly t th hth
    rw [hst] at this; exact this
  have hok : StackOk (fr :: rest) := by rw [← hst]; exact hSafe.stk t th hth
  have hlast : LastOnly (fr :: rest) := by rw [← hst]; exact hSafe.last t th hth
  have hsl : slOk (fr :: rest) := by rw [← hst]; exact reach_sl hr t th hth
  have hS := shapeS s t th fr rest hth hst hrest hok
  have h1 := shape1 s t th fr rest hth hst hfin hrest
  obtain ⟨th', hth', _⟩ := h1.self
  have ht : t < s.nthreads := by
    cases Nat.lt_or_ge t s.nthreads with
    | inl h => exact h
    | inr h => have := hSim.fresh t h; rw [hth] at this; cases this
  have hrec := Safe.top_record_alive hr hth hst
  have hF := stepFacts hr hth hst hok hlast hrec hth'
  have hlive : poolAlive (stepFrame s t th fr).1 → poolAlive s := h1.live
  -- the conservation facts of this step
  have key : (poolAlive (stepFrame s t th fr).1 → ∀ c, weight c th' + ringTok c (stepFrame s t th fr).1.pool + (stepFrame s t th fr).1.freeCount c =
        weight c th + ringTok c s.pool + s.freeCount c +
          (if (stepFrame s t th fr).1.nextCall = s.nextCall + 1 ∧ c = s.nextCall then 1 else 0)) ∧
      (∀ c, (stepFrame s t th fr).1.completed c = false →
        lsum (pw3 c) th'.stack + (stepFrame s t th fr).1.freeCount c ≤ lsum (pw3 c) th.stack + s.freeCount c) ∧
      (∀ c, s.completed c = true → (stepFrame s t th fr).1.completed c = true) := by
    cases hring : isRing fr with
    | false =>
      have hnc : NoChk rest := by
        rcases hok.chk with h | h
        · exact h
        · simp [hring] at h
      have hT := fun c => shapeTE s t th fr rest c hth hst hnc hlast hring hrec
      refine ⟨fun hl' c => ?_, fun c => ((hT c).self th' hth').2.1, fun c => ((hT c).self th' hth').2.2⟩
      have h2 := ((hT c).self th' hth').1
      have h3 : ringTok c (stepFrame s t th fr).1.pool = ringTok c s.pool := by
        rcases (hT c).pool with h | h | h
        · exact h
        · exact fresh_ringTok hr hth hst (hlive hl') h c
        · exfalso
          have : fr = .dFin := by cases fr <;> simp [isDFin] at h <;> rfl
          subst this
          have := dFin_kills (s := s) (t := t) (th := th)
          rw [poolAlive, this] at hl'; cases hl'
      omega
    | true =>
      obtain ⟨pc, rfl⟩ : ∃ pc, fr = .ring pc := by
        cases fr <;> first | exact ⟨_, rfl⟩ | (simp [isRing] at hring)
      cases hp : s.pool with
      | none =>
        have hs' : (stepFrame s t th (.ring pc)).1 = withFault s "no pool" := by simp [stepFrame, hp]
        rw [hs'] at hth' ⊢
        have : th' = th := by
          simp [withFault, hth] at hth'; exact hth'.symm
        subst this
        refine ⟨fun _ c => by simp [withFault, hp], fun c _ => by simp [withFault], fun c h => h⟩
      | some p =>
        have hFF : ∀ x, pc = .popData x → (p.ring.slots (x % p.ring.cap)).data = p.ring.pushLog[x]? ∧
            x < p.ring.pushLog.length ∧ x ∉ p.ring.popLog.map Prod.fst := by
          intro x hx
          subst hx
          have htop : th.stack.head? = some (.ring (.popData x)) := by rw [hst]; rfl
          obtain ⟨h1, h2⟩ := full_popData_slot hr hp hth htop
          refine ⟨h2, h1, ?_⟩
          have hpc : (proj s).pcs t = some (.popData x) := by rw [full_pcs hp hth]; exact head?_ring htop
          have := ring_popData_not_logged (capOf_pos cfg) (reach_ring hr) hpc
          rwa [full_ring hp] at this
        have hlog : ∀ x ∈ p.ring.popLog.map Prod.fst, x < p.ring.pushLog.length := by
          intro x hx
          obtain ⟨⟨x', d⟩, hm, rfl⟩ := List.mem_map.mp hx
          exact (full_popLog_sound hr hp hm).1
        have hRE := shapeRE hp hth hst hok hsl hFF hlog
        have hR := shapeR hp hth hst hok hFF
        obtain ⟨g1, g2, g3, g4, _⟩ := hR.ghost
        have hstk := hR.stk th' hth'
        have hl3 : ∀ c, lsum (pw3 c) th'.stack = lsum (pw3 c) th.stack := by
          intro c; rw [hst]; exact lsum_ring_stack (fun _ => rfl) hstk
        refine ⟨fun _ c => ?_, fun c _ => by rw [g1, hl3]; exact Nat.le_refl _, fun c h => by rw [g3]; exact h⟩
        have := hRE c th' hth'
        rw [hp] at this
        have hne : ¬ ((stepFrame s t th (.ring pc)).1.nextCall = s.nextCall + 1 ∧ c = s.nextCall) := by
          rw [g4]; omega
        rw [g1, if_neg hne]; omega
  generalize (stepFrame s t th fr).1 = s' at *
  obtain ⟨k1, k2, k3⟩ := key
  have hwt : ∀ c, wt s c t = weight c th := by intro c; simp [wt, hth]
  have hsumW : ∀ c, tsum s'.nthreads (wt s' c) + weight c th = tsum s.nthreads (wt s c) + weight c th' := by
    intro c
    have := tsum_step (valW c) rfl (by simp [valW, weight, topW, fw]) (by intro sc; simp [valW, weight, topW, fw])
      hS hSim.fresh ht
    rw [hth, hth'] at this
    rw [wt_eq, wt_eq]; exact this
  have hsumG : ∀ g : Frame → Nat, g .tStart = 0 → g .wPop1 = 0 → g .cNext = 0 →
      tsum s'.nthreads (wtG g s') + lsum g th.stack = tsum s.nthreads (wtG g s) + lsum g th'.stack := by
    intro g g1 g2 g3
    have := tsum_step (valG g) rfl (by simp [valG, g1, g2]) (by intro sc; simp [valG, g1, g3]) hS hSim.fresh ht
    rw [hth, hth'] at this
    rw [wtG_eq, wtG_eq]; exact this
  constructor
  · intro hl' c hc
    have hl := hlive hl'
    have e1 := k1 hl' c
    have e2 := hsumW c
    have e4 := tsum_ge (f := wt s c) ht
    rw [hwt] at e4
    by_cases ha : s'.nextCall = s.nextCall + 1 ∧ c = s.nextCall
    · obtain ⟨ha1, ha2⟩ := ha
      subst ha2
      have := (hSafe.zero s.nextCall (Nat.le_refl _)).1
      rw [if_pos ⟨ha1, rfl⟩] at e1
      omega
    · rw [if_neg ha] at e1
      have hlt : c < s.nextCall := by
        rcases hF.nc with h | h
        · omega
        · cases Nat.lt_or_ge c s.nextCall with
          | inl h2 => exact h2
          | inr h2 => exact absurd ⟨h.1, by omega⟩ ha
      have := hI.cons hl c hlt
      omega
  · intro c hc
    have hold : s.completed c = false := by
      cases h : s.completed c with
      | false => rfl
      | true => rw [k3 c h] at hc; cases hc
    have e0 := hI.nc3 c hold
    have e1 := k2 c hc
    have e2 := hsumG (pw3 c) rfl rfl rfl
    have e4 := tsum_ge (f := wtG (pw3 c) s) ht
    have : wtG (pw3 c) s t = lsum (pw3 c) th.stack := by simp [wtG, hth]
    omega

theorem reach_cons {cfg : Config} {s : State} (h : Reach cfg s) : ConsInv s := by
  induction h with
  | init => exact consInv_init cfg
  | step t hr hs ih => exact consInv_step hr ih hs

end Nstd.Future.LJ
