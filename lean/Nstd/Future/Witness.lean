import Nstd.Future.Spec
/-
  Negation witness of defect D17 on the model of the ORIGINAL code (`repaired := false`): a concrete schedule of
  micro-steps (found by the controlled scheduler on the real thread pool, seed 6168 of scenario
  `q=1 | s0:11:5 | s1:21:6`, and replayed by the driver) after which `_enqueuedSignal` has `_state = 1` with its
  Signal reset, a terminate job is queued, the last worker sleeps in `Signal::wait` and the pool destructor is
  blocked in `Thread::join`: no thread is enabled although threads are alive.
-/
namespace Nstd.Future

def d17Cfg : Config :=
  { q := 1, minT := 0, maxT := 3, lazy := false, tick := 0, spurious := 0, repaired := false,
    scripts := [[.start 0 11 5], [.start 1 21 6]] }

def d17Sched : List Tid := [0,0,0,0,2,2,2,2,2,2,2,2,2,0,0,2,2,2,2,2,1,1,1,1,1,1,1,1,1,1,1,1,1,1,1,1,2,2,2,1,1,2,2,1,2,2,2,2,2,2,2,2,2,2,2,2,2,2,2,2,2,2,2,3,3,3,3,3,3,3,3,3,3,3,3,3,3,3,3,3,3,3,3,3,3,3,3,3,3,1,1,1,1,1,1,1,3,3,3,3,3,3,2,1,1,1,1,1,2,2,1,1,1,2,1,2,2,2,2,2,2,2,2,2,2,2,2,2,2,2,2,2,2,2,3,3,3,3,3,3,2,3,3,1,1,1,1,1,3,3,3,3,3,3,1,1,1,1,1,1,3,3,3,4,4,4,4,4,3,3,3,3,3,3,3,1,1,1,1,1,1,1,4,3,3,3,3,3,1,1,1,3,3,3,3,3,3,1,1,1,1,1,1,1,1,1,1,1,1,1,1,1,1,1,1,1,3,3,1,0,0,0,0,0,0,0,0,0,0,0,0,3,0,0,0,0,0,0,0,0,4,4,4,4,4,4,0,3,4,4,4,4,4,3,3,0,0,0,0,0,0,4,0,0,0,0,0,4,4,0,0,4,3,4,4,4,4]

/-- no thread can take a step -/
def allBlocked (s : State) : Bool := (List.range s.nthreads).all (fun t => !enabled s t)
/-- some thread has not finished -/
def someLive (s : State) : Bool :=
  (List.range s.nthreads).any (fun t => match s.threads t with
    | some th => !th.finished
    | none => false)
/-- `_enqueuedSignal`: `_state = 1` while the underlying Signal is reset -/
def enqInconsistent (s : State) : Bool :=
  match s.pool with
  | some p => p.enq == 1 && !(s.sigs 0).signaled && p.ring.head < p.ring.tail
  | none => false

def d17Check : Bool :=
  match runSched (State.init d17Cfg) d17Sched with
  | some s => allBlocked s && someLive s && enqInconsistent s
  | none => false

theorem d17_check : d17Check = true := by decide +kernel

/-! ### second witness: a client sleeps forever inside `ThreadPool::run` (so `Future::start` never returns and the
    call it was starting is never executed).  Real-code run: seed 18711 of `q=1 | s0:11:5 s1:12:5 s2:13:5 | s3:21:6 s4:22:6 s5:23:6`. -/

def d17bCfg : Config :=
  { q := 1, minT := 0, maxT := 3, lazy := false, tick := 0, spurious := 0, repaired := false,
    scripts := [[.start 0 11 5, .start 1 12 5, .start 2 13 5], [.start 3 21 6, .start 4 22 6, .start 5 23 6]] }

def d17bSched : List Tid := [0,0,0,0,2,2,2,2,2,2,2,2,2,0,0,2,2,1,1,1,1,1,1,1,1,1,1,2,2,2,1,1,1,1,1,1,1,1,2,1,2,2,2,2,2,2,2,2,2,2,2,2,2,3,3,3,3,3,3,2,2,2,2,2,2,2,2,2,2,2,3,3,3,2,2,2,2,2,2,3,2,2,2,2,2,2,2,2,2,2,2,2,2,2,2,2,2,2,2,2,2,2,2,2,2,4,4,4,4,4,4,2,3,3,4,4,4,3,4,3,3,3,4,4,3,3,3,4,4,4,4,4,4,4,4,4,4,4,1,3,3,4,2,2,2,2,2,2,1,1,2,2,2,2,2,3,3,3,1,4,4,2,4,4,4,4,4,4,4,4,4,4,4,4,4,4,4,3,3,3,3,3,3,3,3,4,4,2,2,2,2,2,2,2,2,2,2,2,2,2,2,4,4,4,4,4,3,3,3,3,3,3,3,3,4,4,4,4,4,4,4,4,4,4,4,3,3,3,2,2,4,4,2,4,2,2,2,2,2,2,2,2,2,2,2,2,2,2,2,2,2,2,2,2,2,2,2,2,2,2,2,2,2,2,2,2,2,2]

/-- `_dequeuedSignal`: `_state = 1` while the underlying Signal is reset, and the queue has a free slot -/
def deqInconsistent (s : State) : Bool :=
  match s.pool with
  | some p => p.deq == 1 && !(s.sigs 1).signaled && p.ring.tail < p.ring.head + p.ring.cap
  | none => false
def isCwake (σ : Nat) : Frame → Bool
  | .sWaitCwake x => x == σ
  | _ => false

/-- some client thread sleeps in `_dequeuedSignal.wait()` (inside `ThreadPool::run`) -/
def clientAsleepOnDeq (s : State) : Bool :=
  s.clientTids.any (fun t => match s.threads t with
    | some th => (match th.stack.head? with | some fr => isCwake 1 fr | none => false) && (s.sigs 1).waiters.contains t
    | none => false)
/-- a started call that has not been executed -/
def unexecutedCall (s : State) : Bool := (List.range s.nextCall).any (fun c => s.execCount c == 0)

def d17bCheck : Bool :=
  match runSched (State.init d17bCfg) d17bSched with
  | some s => allBlocked s && clientAsleepOnDeq s && deqInconsistent s && unexecutedCall s
  | none => false

theorem d17b_check : d17bCheck = true := by decide +kernel

end Nstd.Future
