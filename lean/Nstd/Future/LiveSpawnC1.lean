/-
  Counters identity (C1) of the thread pool, part 1: real tickets in the queue, base frames weigh nothing, the weights
  depend on the push log only through the claimed pop ticket, and the exact count across one `push`/`pop` micro-step
  (`spc_ring_pure`).
-/
import Nstd.Future.LiveSpawn1
set_option linter.unusedSimpArgs false
set_option linter.unusedVariables false
namespace Nstd.Future.SPC

open LS SP

/-! ### real tickets in the queue -/

theorem spcRealCnt_append (l : List Job) (d : Job) :
    spRealCnt (l ++ [d]) = spRealCnt l + (if d = none then 0 else 1) := by
  induction l with
  | nil => simp [spRealCnt]
  | cons a l ih => simp only [List.cons_append, spRealCnt, ih]; omega

theorem spcR_push (h : Nat) (log : List Job) (d : Job) (hh : h ≤ log.length) :
    spR h (log ++ [d]) = spR h log + (if d = none then 0 else 1) := by
  simp only [spR, List.drop_append_of_le_length hh, spcRealCnt_append]

theorem spcR_pop (h : Nat) (log : List Job) (hh : h < log.length) :
    spR h log = (if spReal log h = true then 1 else 0) + spR (h + 1) log := by
  simp only [spR]
  rw [List.drop_eq_getElem_cons hh]
  simp only [spRealCnt, spReal, List.getElem?_eq_getElem hh]
  generalize log[h] = j
  cases j <;> simp

theorem spcR_empty (h : Nat) (log : List Job) (hh : log.length ≤ h) : spR h log = 0 := by
  simp only [spR, List.drop_eq_nil_of_le hh, spRealCnt]

theorem spcR_pos {h x : Nat} {log : List Job} (h1 : h ≤ x) (h2 : x < log.length) (h3 : spReal log x = true) :
    1 ≤ spR h log := by
  induction hd : x - h generalizing h with
  | zero =>
    have : h = x := by omega
    subst this
    rw [spcR_pop h log h2, h3]; simp
  | succ k ih =>
    have hlt : h < log.length := by omega
    rw [spcR_pop h log hlt]
    have := ih (h := h + 1) (by omega) (by omega)
    omega

/-! ### base frames / frames possible before the pool exists weigh nothing -/

theorem spcAFr_base (rb : Bool) (ab : Option (RingPc Job)) {f : Frame} (h : lsB f = true) : spAFr rb ab f = 0 := by
  cases f <;> first | rfl | (simp [lsB] at h)

theorem spcAStk_base (rb : Bool) (ab : Option (RingPc Job)) {l : List Frame} (h : LsAllB l) :
    spAStk rb ab l = 0 := by
  induction l generalizing ab with
  | nil => rfl
  | cons a l ih =>
    rw [lsAllB_cons] at h
    simp only [spAStk_cons, spcAFr_base rb ab h.1, ih _ h.2]

theorem spcXFr_base (rb : Bool) (rj : Job) (log : List Job) (ab : Option (RingPc Job)) {f : Frame}
    (h : lsB f = true) : spXFr rb rj log ab f = 0 := by
  cases f <;> first | rfl | (simp [lsB] at h)

theorem spcXStk_base (rb : Bool) (rj : Job) (log : List Job) (ab : Option (RingPc Job)) {l : List Frame}
    (h : LsAllB l) : spXStk rb rj log ab l = 0 := by
  induction l generalizing ab with
  | nil => rfl
  | cons a l ih =>
    rw [lsAllB_cons] at h
    simp only [spXStk_cons, spcXFr_base rb rj log ab h.1, ih _ h.2]

theorem spcAFr_pre (rb : Bool) (ab : Option (RingPc Job)) {f : Frame} (h : prePool f = true) : spAFr rb ab f = 0 := by
  cases f <;> first | rfl | (simp [prePool] at h; done)

theorem spcAStk_pre (rb : Bool) (ab : Option (RingPc Job)) {l : List Frame} (h : AllPre l) :
    spAStk rb ab l = 0 := by
  induction l generalizing ab with
  | nil => rfl
  | cons a l ih =>
    rw [allPre_cons] at h
    simp only [spAStk_cons, spcAFr_pre rb ab h.1, ih _ h.2]

theorem spcXFr_pre (rb : Bool) (rj : Job) (log : List Job) (ab : Option (RingPc Job)) {f : Frame}
    (h : prePool f = true) : spXFr rb rj log ab f = 0 := by
  cases f <;> first | rfl | (simp [prePool] at h; done)

theorem spcXStk_pre (rb : Bool) (rj : Job) (log : List Job) (ab : Option (RingPc Job)) {l : List Frame}
    (h : AllPre l) : spXStk rb rj log ab l = 0 := by
  induction l generalizing ab with
  | nil => rfl
  | cons a l ih =>
    rw [allPre_cons] at h
    simp only [spXStk_cons, spcXFr_pre rb rj log ab h.1, ih _ h.2]

theorem spcAFr_ring (rb : Bool) (ab : Option (RingPc Job)) (pc : RingPc Job) : spAFr rb ab (.ring pc) = 0 := rfl
theorem spcXFr_ring (rb : Bool) (rj : Job) (log : List Job) (ab : Option (RingPc Job)) (pc : RingPc Job) :
    spXFr rb rj log ab (.ring pc) = 0 := rfl

/-! ### the X-weight depends on the push log only through the claimed pop ticket -/

theorem spcReal_congr {log log' : List Job} {x : Nat} (h : log'[x]? = log[x]?) : spReal log' x = spReal log x := by
  unfold spReal; rw [h]

theorem spcXFr_log (rb : Bool) (rj : Job) {log log' : List Job} {ab : Option (RingPc Job)} (f : Frame)
    (h : ∀ x, lsTicket ab = some x → log'[x]? = log[x]?) :
    spXFr rb rj log' ab f = spXFr rb rj log ab f := by
  cases f <;> simp only [spXFr]
  all_goals
    rcases ab with _ | pc
    · rfl
    · cases pc <;> simp only [spXRet, spXPc]
      all_goals rw [spcReal_congr (h _ rfl)]

theorem spcXStk_log (rb : Bool) (rj : Job) {log log' : List Job} (ab : Option (RingPc Job)) (l : List Frame)
    (hab : ∀ x, lsTicket ab = some x → log'[x]? = log[x]?)
    (hl : ∀ f ∈ l, ∀ x, lsTicket (lsRingOf f) = some x → log'[x]? = log[x]?) :
    spXStk rb rj log' ab l = spXStk rb rj log ab l := by
  induction l generalizing ab with
  | nil => rfl
  | cons a l ih =>
    simp only [spXStk_cons]
    rw [spcXFr_log rb rj a hab, ih _ (hl a (List.mem_cons_self ..)) (fun f hf => hl f (List.mem_cons_of_mem _ hf))]

/-- extending the push log does not change the X-weight of a thread of a reachable state -/
theorem spc_log_stable {cfg : Config} {s : State} {p : Pool} (hr : Reach cfg s) (hp : s.pool = some p)
    {u : Tid} {thu : Thread} (hthu : s.threads u = some thu) (d : Job) :
    spXW (p.ring.pushLog ++ [d]) thu = spXW p.ring.pushLog thu := by
  simp only [spXW]
  apply spcXStk_log
  · intro x hx; cases hx
  · intro f hf x hx
    have hlt : x < p.ring.pushLog.length := by
      cases hst : thu.stack with
      | nil => rw [hst] at hf; cases hf
      | cons a l =>
        rw [hst] at hf
        rcases List.mem_cons.mp hf with rfl | hf
        · cases f <;> simp only [lsRingOf, lsTicket] at hx <;> try cases hx
          next pc =>
            cases pc <;> simp only [lsTicket] at hx <;> try cases hx
            · exact (full_popData_slot hr hp hthu (by rw [hst]; rfl)).1
            · exact (full_popRel_payload hr hp hthu (by rw [hst]; rfl)).1
        · have := (reach_inv hr).ringTopOnly u thu hthu
          rw [hst] at this
          have := this f hf
          cases f <;> simp only [lsRingOf, lsTicket] at hx <;> try cases hx
          simp [special] at this
    exact List.getElem?_append_left hlt

/-! ### one ring micro-step: the exact count -/

set_option maxHeartbeats 4000000 in
/-- `A' + X + R = A + X' + R'` for the caller frame `c` of a `push`/`pop` micro-step -/
theorem spc_ring_pure (r : Ring Job) (pc : RingPc Job) (c : Frame) (rb : Bool) (rj : Job)
    (hcall : LW.callerOk pc (some c) = true) (hpay : lsePayC pc (some c) = true)
    (hht : r.head ≤ r.pushLog.length)
    (hcas : ∀ h, pc = .popCas h → r.head = h → h < r.pushLog.length)
    (hrel : ∀ x d, pc = .popRel x d → ∃ j, d = some j ∧ r.pushLog[x]? = some j) :
    spAFr (lsAfter rb rj (ringStep r pc).2).1 (lsAfter rb rj (ringStep r pc).2).2.2 c
        + spXFr rb rj r.pushLog (some pc) c + spR r.head r.pushLog
      = spAFr rb (some pc) c
        + spXFr (lsAfter rb rj (ringStep r pc).2).1 (lsAfter rb rj (ringStep r pc).2).2.1 (ringStep r pc).1.pushLog
            (lsAfter rb rj (ringStep r pc).2).2.2 c
        + spR (ringStep r pc).1.head (ringStep r pc).1.pushLog := by
  cases pc
  case pushCas d tk =>
    simp only [ringStep]
    split
    · next heq =>
      simp only [lsAfter, spcR_push _ _ _ hht]
      cases c <;> simp [LW.callerOk, LW.isPopPc, LW.pushCaller] at hcall <;>
        simp [lsePayC, LW.isPopPc, lsRestr, lsNonePc] at hpay <;>
        simp [spAFr, spXFr, lsCapt, lsCaptPc, hpay]
      all_goals first | omega | (cases d <;> simp_all <;> omega)
    · simp only [lsAfter]
      cases c <;> simp [LW.callerOk, LW.isPopPc, LW.pushCaller] at hcall <;> simp [spAFr, spXFr, lsCapt, lsCaptPc]
  case popCas h =>
    simp only [ringStep]
    split
    · next heq =>
      have hlt := hcas h rfl heq
      simp only [lsAfter]
      rw [heq, spcR_pop h _ hlt]
      cases c <;> simp [LW.callerOk, LW.isPopPc, LW.popCaller] at hcall <;>
        simp [spAFr, spXFr, spXRet, spXPc]
      all_goals (try omega)
    · simp only [lsAfter]
      cases c <;> simp [LW.callerOk, LW.isPopPc, LW.popCaller] at hcall <;> simp [spAFr, spXFr, spXRet, spXPc]
  case popRel x d =>
    obtain ⟨j, rfl, hj⟩ := hrel x d rfl
    simp only [ringStep, lsAfter, Ring.setSlot]
    cases c <;> simp [LW.callerOk, LW.isPopPc, LW.popCaller] at hcall <;>
      simp [spAFr, spXFr, spXRet, spXPc, spReal, hj]
    all_goals (cases j <;> simp)
  case pushRead d =>
    simp only [ringStep, lsAfter]
    cases c <;> simp [LW.callerOk, LW.isPopPc, LW.pushCaller] at hcall <;> simp [spAFr, spXFr, lsCapt, lsCaptPc]
  case pushChk d tk =>
    simp only [ringStep]
    split <;> simp only [lsAfter] <;>
      cases c <;> simp [LW.callerOk, LW.isPopPc, LW.pushCaller] at hcall <;> simp [spAFr, spXFr, lsCapt, lsCaptPc]
  case pushData d tk =>
    simp only [ringStep, lsAfter, Ring.setSlot]
    cases c <;> simp [LW.callerOk, LW.isPopPc, LW.pushCaller] at hcall <;> simp [spAFr, spXFr, lsCapt, lsCaptPc]
  case pushPub d tk =>
    simp only [ringStep, lsAfter, Ring.setSlot]
    cases c <;> simp [LW.callerOk, LW.isPopPc, LW.pushCaller] at hcall <;> simp [spAFr, spXFr, lsCapt, lsCaptPc]
  case popRead =>
    simp only [ringStep, lsAfter]
    cases c <;> simp [LW.callerOk, LW.isPopPc, LW.popCaller] at hcall <;> simp [spAFr, spXFr, spXRet, spXPc]
  case popChk h =>
    simp only [ringStep]
    split <;> simp only [lsAfter] <;>
      cases c <;> simp [LW.callerOk, LW.isPopPc, LW.popCaller] at hcall <;> simp [spAFr, spXFr, spXRet, spXPc]
  case popData h =>
    simp only [ringStep, lsAfter, Ring.setSlot]
    cases c <;> simp [LW.callerOk, LW.isPopPc, LW.popCaller] at hcall <;> simp [spAFr, spXFr, spXRet, spXPc]

end Nstd.Future.SPC
