/-
  SHUTDOWN side of deadlock freedom of the repaired thread pool (C10 liveness, deadlock-freedom form), proved inside
  the FULL micro-step model (`Model.lean`, `cfg.repaired = true`) for every schedule, any number of threads, any
  capacity:

      no_stuck_shutdown_side :
        cfg.repaired = true → Reach cfg s → (∃ i, topFrame s 0 = some (.dJoin i)) → ∃ t, enabled s t = true

  i.e. while `~ThreadPool` (main thread) waits in `Thread::join` for a worker, some thread can step: the destructor
  queues `_threadCount` terminate jobs and every worker that is still serving receives one.

  The counting invariant (K) "terminate jobs reach the serving workers" (`LiveShutdown1` for the vocabulary):
  every thread carries a weight `lsW log th` =
      1  for a worker thread that is alive and has not yet claimed a terminate ticket,
      1  for a ThreadContext appended by `run` whose thread is not yet created (`runSpUnlock (some k)`, `runSpStart k`),
      1  for a retire job already in the queue while `_threadCount` is not yet decremented (`runRetAfter`),
      i  for the destructor in its push loop with `i` terminate jobs in the queue (`dPush i … dSet i`), 0 at `dJoin`/`dFin`,
  `lsTq head log` = terminate tickets `x ≥ head` of the push log (queued, not yet claimed by a popper).

    LiveShutdown1  vocabulary; one micro-step of a non-ring frame (`lsShapeD`, `lsShapeN`)
    LiveShutdown2  one `push`/`pop` micro-step (`ls_ring_pure`)
    LiveShutdown3  the inequality form `LsInv` in every reachable state (`ls_reach`)
    LiveShutdown4  the thread of a ThreadContext is a worker thread (`ls_ctxw_reach`)
    LiveShutdown5  sharper side conditions and the exact effect of a non-ring micro-step (`lseShapeN`)
    LiveShutdown6  the EQUALITY form `LseInv` in every reachable state (`lse_reach`); it needs three more invariants:
                   the destructor loop counter stays ≤ `_threadCount` (`LseInv.l`), `_threadCount > minT` while a retire
                   job is in flight (`LseInv.r`, from the mutual exclusion of the pool mutex), a push carries the
                   terminate job iff it is called from `runRetAfter`/`dChk1`/`dChk2` (`LsePayOk`)
    LiveShutdown   (this file) the statements

  Proved (no hypothesis besides `cfg.repaired = true` and reachability; `Σ = tsum s.nthreads (lsAt p.ring.pushLog s)`,
  `TQ = lsTq p.ring.head p.ring.pushLog`, `lsDone s` = "some stack has a `dJoin`/`dFin` frame"):
    terminate_jobs_balance          : s.pool = some p → (¬ lsDone s → Σ = TQ + p.threadCount) ∧ (lsDone s → Σ = TQ)
    terminate_jobs_balance_le       : s.pool = some p → Σ ≤ TQ + p.threadCount
    serving_eq_termQueued_at_dJoin  : s.pool = some p → (∃ i, topFrame s 0 = some (.dJoin i)) → Σ = TQ
    serving_le_termQueued_at_dJoin  : the same with `≤` (from the inequality invariant alone)
    nonworker_weight_zero_at_dJoin  : at `dJoin` only worker threads carry weight (so Σ = number of serving workers)
    destructor_loop_le_threadCount  : s.pool = some p → lsM2At s u ≤ p.threadCount
    sleeping_worker_is_serving      : a thread whose top frame is `sWaitCwake 0` (asleep on the enqueued signal) has weight ≥ 1
    ctx_thread_is_worker            : s.pool = some p → c ∈ p.ctxs → c.tid = some w → thread `w` is a worker thread
    no_stuck_shutdown_side          : (above)

  OPEN: nothing.
-/
import Nstd.Future.LiveShutdown4
import Nstd.Future.LiveShutdown6
import Nstd.Future.Safety8
namespace Nstd.Future

open LS

variable {cfg : Config} {s : State}

/-- (K), direction `≤`: serving workers + contexts whose thread is not yet created + retire jobs in flight + terminate
    jobs the destructor has queued  ≤  `_threadCount` + terminate jobs in the queue -/
theorem terminate_jobs_balance_le {p : Pool} (hrep : cfg.repaired = true) (hr : Reach cfg s) (hp : s.pool = some p) :
    tsum s.nthreads (lsAt p.ring.pushLog s) ≤ lsTq p.ring.head p.ring.pushLog + p.threadCount :=
  (ls_reach hrep hr).k1 p hp

/-- at `dJoin` all `_threadCount` terminate jobs of the destructor are out: every serving worker has a terminate job
    waiting for it in the queue -/
theorem serving_le_termQueued_at_dJoin {p : Pool} (hrep : cfg.repaired = true) (hr : Reach cfg s)
    (hp : s.pool = some p) (hd : ∃ i, topFrame s 0 = some (.dJoin i)) :
    tsum s.nthreads (lsAt p.ring.pushLog s) ≤ lsTq p.ring.head p.ring.pushLog := by
  obtain ⟨i, hi⟩ := hd
  obtain ⟨th0, rest0, hth0, hst0⟩ := topFrame_some hi
  exact (ls_reach hrep hr).k2 p hp ⟨0, th0, hth0, by rw [hst0]; simp [lsDJ]⟩

/-- (K): serving workers + contexts whose thread is not yet created + retire jobs in flight + terminate jobs the
    destructor has queued in its loop  =  `_threadCount` + terminate jobs in the queue; once the destructor has left its
    push loop (all `_threadCount` jobs queued): serving workers = terminate jobs in the queue -/
theorem terminate_jobs_balance {p : Pool} (hrep : cfg.repaired = true) (hr : Reach cfg s) (hp : s.pool = some p) :
    (¬ lsDone s → tsum s.nthreads (lsAt p.ring.pushLog s) = lsTq p.ring.head p.ring.pushLog + p.threadCount) ∧
    (lsDone s → tsum s.nthreads (lsAt p.ring.pushLog s) = lsTq p.ring.head p.ring.pushLog) :=
  (lse_reach hrep hr).e p hp

theorem serving_eq_termQueued_at_dJoin {p : Pool} (hrep : cfg.repaired = true) (hr : Reach cfg s)
    (hp : s.pool = some p) (hd : ∃ i, topFrame s 0 = some (.dJoin i)) :
    tsum s.nthreads (lsAt p.ring.pushLog s) = lsTq p.ring.head p.ring.pushLog := by
  obtain ⟨i, hi⟩ := hd
  obtain ⟨th0, rest0, hth0, hst0⟩ := topFrame_some hi
  exact ((lse_reach hrep hr).e p hp).2 ⟨0, th0, hth0, by rw [hst0]; simp [lsDJ]⟩

/-- the loop counter of the destructor never exceeds `_threadCount` -/
theorem destructor_loop_le_threadCount {p : Pool} (hrep : cfg.repaired = true) (hr : Reach cfg s)
    (hp : s.pool = some p) (u : Tid) : lsM2At s u ≤ p.threadCount := (lse_reach hrep hr).l p u hp

/-- the thread of a ThreadContext is a worker thread -/
theorem ctx_thread_is_worker {p : Pool} {c : Ctx} {w : Tid} (hrep : cfg.repaired = true) (hr : Reach cfg s)
    (hp : s.pool = some p) (hc : c ∈ p.ctxs) (hw : c.tid = some w) :
    ∃ th, s.threads w = some th ∧ th.isWorker = true := ls_ctxw_reach hrep hr p c w hp hc hw

/-- at `dJoin` only worker threads carry weight: the sum is the number of serving workers -/
theorem nonworker_weight_zero_at_dJoin {u : Tid} {thu : Thread} (hr : Reach cfg s)
    (hd : ∃ i, topFrame s 0 = some (.dJoin i)) (hthu : s.threads u = some thu) (hw : thu.isWorker = false)
    (log : List Job) : lsW log thu = 0 := by
  obtain ⟨i, hi⟩ := hd
  obtain ⟨th0, rest0, hth0, hst0⟩ := topFrame_some hi
  have hall : AllFin s := (reach_join hr).phase 0 th0 hth0 (.dJoin i) (by rw [hst0]; exact List.mem_cons_self ..)
  rcases (Safe.reach_pinv hr).k3 u thu hthu with h | h | h
  · subst h
    rw [hth0] at hthu; injection hthu with hthu; subst hthu
    have hbot := (reach_join hr).botOnly 0 th0 hth0
    rw [hst0] at hbot
    have := botOnly_cons_bot (a := .dJoin i) rfl hbot
    subst this
    simp [lsW, hst0, lsFr]
  · obtain ⟨th2, h1, h2⟩ := hall u h
    rw [hthu] at h1; injection h1 with h1; subst h1
    simp [lsW, finished_stack_nil hr hthu h2]
  · rw [hw] at h; cases h

/-- a worker sleeping on the enqueued signal is still serving -/
theorem sleeping_worker_is_serving {w : Tid} {thw : Thread} (hrep : cfg.repaired = true) (hr : Reach cfg s)
    (hthw : s.threads w = some thw) (htop : thw.stack.head? = some (.sWaitCwake 0)) (log : List Job) :
    1 ≤ lsW log thw := by
  have hpay := (ls_reach hrep hr).pay w thw hthw
  cases hst : thw.stack with
  | nil => rw [hst] at htop; cases htop
  | cons a l =>
    rw [hst] at htop hpay
    simp only [List.head?_cons, Option.some.injEq] at htop
    subst htop
    have h1 : l.head? = some .wPop1 := hpay.1 rfl
    cases l with
    | nil => cases h1
    | cons b l2 =>
      simp only [List.head?_cons, Option.some.injEq] at h1
      subst h1
      simp only [lsW, hst, lsStk_cons, lsFr]
      omega

/-- while the pool destructor waits in `Thread::join` for a worker, some thread can step -/
theorem no_stuck_shutdown_side (hrep : cfg.repaired = true) (hr : Reach cfg s)
    (hd : ∃ i, topFrame s 0 = some (.dJoin i)) : ∃ t, enabled s t = true := by
  apply Classical.byContradiction
  intro hne
  have hdead : ∀ u, enabled s u = false := by
    intro u
    cases he : enabled s u with
    | false => rfl
    | true => exact absurd ⟨u, he⟩ hne
  obtain ⟨i, hi⟩ := hd
  -- the main thread is blocked: the worker it joins is alive
  have hb : blockedFrame s 0 (.dJoin i) = true := by
    cases hb : blockedFrame s 0 (.dJoin i) with
    | true => rfl
    | false => have := enabled_of_top hr hi hb; rw [hdead 0] at this; cases this
  cases hp : s.pool with
  | none => simp [blockedFrame, hp] at hb
  | some p =>
    cases hc : p.ctxs[i]? with
    | none => simp [blockedFrame, hp, hc] at hb
    | some c =>
      rcases c with ⟨cid, ctid, cterm⟩
      cases ctid with
      | none => simp [blockedFrame, hp, hc] at hb
      | some w =>
        cases hthw : s.threads w with
        | none => simp [blockedFrame, hp, hc, hthw] at hb
        | some thw =>
          simp [blockedFrame, hp, hc, hthw] at hb
          -- it is a worker thread, asleep on the enqueued signal
          obtain ⟨thw2, h1, hw⟩ := ls_ctxw_reach hrep hr p _ w hp (List.mem_of_getElem? hc) rfl
          rw [hthw] at h1; injection h1 with h1; subst h1
          have hS := LW.stk_reach hrep hr
          have hloop := hS.loop w thw hthw hb
          have hallw := hS.wk w thw hthw hw
          cases hstw : thw.stack with
          | nil => rw [hstw, LW.hasLoop_nil] at hloop; exact hloop
          | cons frw restw =>
            have htopw : topFrame s w = some frw := by simp only [topFrame, hthw, hstw]; rfl
            rw [hstw, LW.allW_cons] at hallw
            have hfrw : frw = .sWaitCwake 0 := by
              rcases global_deadlock_shape hr hdead htopw with ⟨σ, h2, _⟩ | ⟨j, h2⟩ | ⟨j, h2⟩
              · subst h2
                have := hallw.1
                simp [LW.wkFr] at this
                rw [this]
              · subst h2; have := hallw.1; simp [LW.wkFr] at this
              · subst h2; have := hallw.1; simp [LW.wkFr] at this
            subst hfrw
            -- the queue is empty (otherwise the worker side has an enabled thread)
            have hq : ¬ p.ring.head < p.ring.tail := by
              intro hq
              obtain ⟨u, hu⟩ := no_stuck_worker_side hrep hr ⟨p, hp, hq⟩ ⟨w, thw, hthw, hw, hb⟩
              rw [hdead u] at hu; cases hu
            -- counting: no terminate job queued, so nobody is serving; but the sleeping worker is
            have k2 := serving_le_termQueued_at_dJoin hrep hr hp ⟨i, hi⟩
            have hlen := full_pushLog_len hr hp
            rw [lsTq_empty _ _ (by omega)] at k2
            have hz := tsum_zero (Nat.le_zero.mp k2) (ls_thread_lt hr hthw)
            have h1 := sleeping_worker_is_serving hrep hr hthw (by rw [hstw]; rfl) p.ring.pushLog
            simp only [lsAt, hthw, lsVal] at hz
            omega

end Nstd.Future
