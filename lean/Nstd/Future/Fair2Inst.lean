/-
  The CONCRETE reduction for strong fairness (see Fair2.lean for the overview):
    * `F2.sp_owner_crit`, `F2.nss_cert_of_simple`: a non-spinner that waits for a Signal mutex can take it, or the
      owner is an enabled non-spinner, or the owner is a futile spinner inside the two-step critical section of
      `Signal::wait` (`F2.Crit`);
    * `F2.certOfMeasure`: the certificate `F2.SpinCert` of Fair2Red.lean from a measure `(W, M)` and the simple form
      of "no-stuck modulo futile spinners";
    * `join_eventually_strong_of_measure`, `strong_fair_runs_terminate_of_measure`.
-/
import Nstd.Future.Fair2Red
import Nstd.Future.Fair2Lock
import Nstd.Future.Fair2Sp
set_option linter.unusedVariables false
set_option linter.unusedSimpArgs false
namespace Nstd.Future.F2

variable {cfg : Config} {s : State}

/-- a thread of the idle loop whose top frame is a critical-section frame of signal σ: σ = 0 and it is passing
    `Signal::wait` -/
theorem loop0_crit {r : Ring Job} {b : Bool} {l : List Frame} {fr : Frame} {σ : Nat} {rep : Bool}
    (h : Loop0 r b l) (hhd : l.head? = some fr) (hc : critF rep σ fr = true) :
    σ = 0 ∧ ∃ rest, (l = .sWaitChk 0 :: rest ∨ l = .sWaitUnlock 0 :: rest) := by
  cases h <;> simp only [List.head?_cons, Option.some.injEq] at hhd <;> subst hhd <;> simp [critF] at hc
  · exact ⟨hc.symm, _, Or.inl rfl⟩
  · exact ⟨hc.symm, _, Or.inr rfl⟩

theorem loop1_crit {r : Ring Job} {b : Bool} {hd c1 p2 c2 : Frame} {l : List Frame} {fr : Frame} {σ : Nat}
    {rep : Bool} (h : Loop1 r b hd c1 p2 c2 l) (hhd : l.head? = some fr) (hc : critF rep σ fr = true)
    (h0 : critF rep σ hd = false) (h1 : critF rep σ c1 = false) (h2 : critF rep σ p2 = false)
    (h3 : critF rep σ c2 = false) :
    σ = 1 ∧ ∃ rest, (l = .sWaitChk 1 :: rest ∨ l = .sWaitUnlock 1 :: rest) := by
  cases h <;> simp only [List.head?_cons, Option.some.injEq] at hhd <;> subst hhd <;>
    first
    | (rw [h0] at hc; cases hc)
    | (rw [h1] at hc; cases hc)
    | (rw [h2] at hc; cases hc)
    | (rw [h3] at hc; cases hc)
    | (simp [critF] at hc; done)
    | (simp [critF] at hc; exact ⟨hc.symm, _, Or.inl rfl⟩)
    | (simp [critF] at hc; exact ⟨hc.symm, _, Or.inr rfl⟩)

/-- a futile spinner that owns the mutex of signal σ is inside the two-step critical section of `Signal::wait` on a
    pool signal whose flag is set -/
theorem sp_owner_crit (hr : Reach cfg s) {σ : Nat} {o : Tid} (ho : (s.sigs σ).owner = some o) (hsp : Sp s o) :
    σ < 2 ∧ ∃ k, Crit s o σ k := by
  obtain ⟨th, fr, hth, hnf, hhd, hcrit⟩ := sig_owner_in_critical_section hr ho
  obtain ⟨th', hth', _, hcase⟩ := hsp
  rw [hth] at hth'; cases hth'
  simp only [critFrame] at hcrit
  rcases hcase with ⟨p, hp, hl⟩ | ⟨_, c, rest, hst⟩
  · rcases hl with ⟨hf, hl⟩ | ⟨hf, j, hl⟩ | ⟨hf, i, _, _, hl⟩
    · obtain ⟨rfl, rest, hst | hst⟩ := loop0_crit hl hhd hcrit
      · exact ⟨by omega, 1, ho, th, rest, hth, hnf, Or.inl ⟨rfl, hst, hf.2.1⟩⟩
      · exact ⟨by omega, 0, ho, th, rest, hth, hnf, Or.inr ⟨rfl, hst⟩⟩
    · obtain ⟨rfl, rest, hst | hst⟩ := loop1_crit hl hhd hcrit rfl rfl rfl rfl
      · exact ⟨by omega, 1, ho, th, rest, hth, hnf, Or.inl ⟨rfl, hst, hf.2.1⟩⟩
      · exact ⟨by omega, 0, ho, th, rest, hth, hnf, Or.inr ⟨rfl, hst⟩⟩
    · obtain ⟨rfl, rest, hst | hst⟩ := loop1_crit hl hhd hcrit rfl rfl rfl rfl
      · exact ⟨by omega, 1, ho, th, rest, hth, hnf, Or.inl ⟨rfl, hst, hf.2.1⟩⟩
      · exact ⟨by omega, 0, ho, th, rest, hth, hnf, Or.inr ⟨rfl, hst⟩⟩
  · rw [hst] at hhd
    simp only [List.head?_cons, Option.some.injEq] at hhd
    subst hhd
    simp [critF] at hcrit

/-- the `nss` field of the certificate from its SIMPLE form: a non-spinner that waits for a Signal mutex either can
    take it, or the owner is an enabled non-spinner, or the owner is a spinner inside `Signal::wait` -/
theorem nss_cert_of_simple (hr : Reach cfg s) {u : Tid} (hu : NonSp s u)
    (h : enabled s u = true ∨ ∃ σ, LockWait s u σ) :
    ∃ u', NonSp s u' ∧
      (enabled s u' = true ∨ ∃ σ' o k, (σ' < 2 ∧ LockWait s u' σ') ∧ (σ' < 2 ∧ Crit s o σ' k)) := by
  rcases h with h | ⟨σ, hlw⟩
  · exact ⟨u, hu, Or.inl h⟩
  · cases ho : (s.sigs σ).owner with
    | none => exact ⟨u, hu, Or.inl (lockWait_enabled hlw ho)⟩
    | some o =>
      by_cases hsp : Sp s o
      · obtain ⟨hσ, k, hc⟩ := sp_owner_crit hr ho hsp
        exact ⟨u, hu, Or.inr ⟨σ, o, k, ⟨hσ, hlw⟩, ⟨hσ, hc⟩⟩⟩
      · obtain ⟨th, fr, hth, hnf, _, _⟩ := sig_owner_in_critical_section hr ho
        exact ⟨o, ⟨⟨th, hth, hnf⟩, hsp⟩, Or.inl (sig_owner_enabled hr ho)⟩

/-- the certificate of Fair2Red.lean from a measure and the simple form of "no-stuck modulo futile spinners" -/
def certOfMeasure {α : Type} (W : State → α) (rW : α → α → Prop) (hwfr : WellFounded rW) (M : State → Nat)
    (hmono : ∀ (s s' : State) (t : Tid) (o : List String), Reach cfg s → step s t = some (s', o) →
      rW (W s') (W s) ∨ (W s' = W s ∧ M s' ≤ M s))
    (hflags : ∀ (s s' : State) (t : Tid) (o : List String), Reach cfg s → step s t = some (s', o) →
      W s' = W s → M s' = M s → keyFlags s' = keyFlags s ∧ s'.nthreads = s.nthreads)
    (hprog : ∀ (s s' : State) (u : Tid) (o : List String), Reach cfg s → NonSp s u → step s u = some (s', o) →
      ¬ (W s' = W s ∧ M s' = M s))
    (hnss : ∀ (s : State), Reach cfg s → (∃ t, enabled s t = true) →
      ∃ u, NonSp s u ∧ (enabled s u = true ∨ ∃ σ, LockWait s u σ)) : SpinCert cfg α where
  W := W
  rW := rW
  wf := hwfr
  M := M
  NonSp := NonSp
  LockWait := fun s u sg => sg < 2 ∧ LockWait s u sg
  Crit := fun s o sg k => sg < 2 ∧ Crit s o sg k
  Free := fun s sg => (s.sigs sg).owner = none
  mono := hmono
  prog := hprog
  pers := by
    intro s s' t u o hr hns hs htu hW hM
    obtain ⟨⟨th, hth, hnf⟩, hnsp⟩ := hns
    have hth' := threads_persist hr hs htu hth
    refine ⟨⟨th, hth', hnf⟩, fun hsp' => hnsp ?_⟩
    exact (sp_congr (by rw [hth', hth]) (hflags s s' t o hr hs hW hM).1).mp hsp'
  nth := fun s s' t o hr hs hW hM => (hflags s s' t o hr hs hW hM).2
  nss := by
    intro s hr hen
    obtain ⟨u, hu, h⟩ := hnss s hr hen
    obtain ⟨u', hu', h'⟩ := nss_cert_of_simple hr hu h
    obtain ⟨⟨th, hth, _⟩, _⟩ := hu'
    exact ⟨u', thread_lt hr hth, ⟨⟨th, hth, by assumption⟩, by assumption⟩, h'⟩
  lwEn := fun s u sg hr hlw hfree => lockWait_enabled hlw.2 hfree
  lwPers := fun s s' t u sg o hr hlw hs htu _ _ => ⟨hlw.1, lockWait_persist hr hlw.2 hs htu⟩
  crEn := fun s o sg k hr hc => crit_enabled hc.2
  crPers := fun s s' t o sg k out hr hc hs hto _ _ => ⟨hc.1, crit_persist hr hc.1 hc.2 hs hto⟩
  crStep := by
    intro s s' o sg k out hr hc hs _ _
    have h := crit_step hc.2 hs
    refine ⟨h.1, ?_⟩
    intro k' hk
    have hk1 : k = 1 := by
      obtain ⟨_, th, rest, _, _, h | h⟩ := hc.2
      · exact h.1
      · omega
    have : k' = 0 := by omega
    subst this
    exact ⟨hc.1, h.2 hk1⟩

end Nstd.Future.F2

namespace Nstd.Future
open F2

variable {cfg : Config} {σ : Nat → Tid} {run : Nat → State}

/-- THE CONCRETE REDUCTION FOR STRONG FAIRNESS.  Let `W` (into a well-founded order) never increase along
    micro-steps and `M : State → Nat` never increase while `W` is constant (`hmono`); let every QUIET step (one that
    changes neither `W` nor `M`) leave the key flags (`_state`s, `signaled`s, ring counters and the two slots at
    `_head`/`_tail`, `_threadCount`, `tplock`) and the number of threads unchanged (`hflags`); let no step of a
    non-spinner be quiet (`hprog`); and let every reachable non-terminal state have a non-spinner that is enabled or
    waits for the mutex of a Signal (`hnss`: no-stuck modulo futile spinners).  Then every STRONGLY fair run of the
    repaired model reaches a complete success state. -/
theorem join_eventually_strong_of_measure {α : Type} (W : State → α) (rW : α → α → Prop) (hwfr : WellFounded rW)
    (M : State → Nat)
    (hmono : ∀ (s s' : State) (t : Tid) (o : List String), Reach cfg s → step s t = some (s', o) →
      rW (W s') (W s) ∨ (W s' = W s ∧ M s' ≤ M s))
    (hflags : ∀ (s s' : State) (t : Tid) (o : List String), Reach cfg s → step s t = some (s', o) →
      W s' = W s → M s' = M s → keyFlags s' = keyFlags s ∧ s'.nthreads = s.nthreads)
    (hprog : ∀ (s s' : State) (u : Tid) (o : List String), Reach cfg s → NonSp s u → step s u = some (s', o) →
      ¬ (W s' = W s ∧ M s' = M s))
    (hnss : ∀ (s : State), Reach cfg s → (∃ t, enabled s t = true) →
      ∃ u, NonSp s u ∧ (enabled s u = true ∨ ∃ sg, LockWait s u sg))
    (hrep : cfg.repaired = true) (hwf : cfg.WellFormed) (hf : StrongFairRun cfg σ run) :
    ∃ n, (∀ t th, (run n).threads t = some th → th.finished = true) ∧
      (∀ c, c < (run n).nextCall →
        (run n).completed c = true ∧ (run n).execCount c = 1 ∧ (run n).freeCount c = 1) :=
  join_eventually_strong_of_cert (certOfMeasure W rW hwfr M hmono hflags hprog hnss) hrep hwf hf

theorem strong_fair_runs_terminate_of_measure {α : Type} (W : State → α) (rW : α → α → Prop)
    (hwfr : WellFounded rW) (M : State → Nat)
    (hmono : ∀ (s s' : State) (t : Tid) (o : List String), Reach cfg s → step s t = some (s', o) →
      rW (W s') (W s) ∨ (W s' = W s ∧ M s' ≤ M s))
    (hflags : ∀ (s s' : State) (t : Tid) (o : List String), Reach cfg s → step s t = some (s', o) →
      W s' = W s → M s' = M s → keyFlags s' = keyFlags s ∧ s'.nthreads = s.nthreads)
    (hprog : ∀ (s s' : State) (u : Tid) (o : List String), Reach cfg s → NonSp s u → step s u = some (s', o) →
      ¬ (W s' = W s ∧ M s' = M s))
    (hnss : ∀ (s : State), Reach cfg s → (∃ t, enabled s t = true) →
      ∃ u, NonSp s u ∧ (enabled s u = true ∨ ∃ sg, LockWait s u sg))
    (hf : StrongFairRun cfg σ run) : ∃ n, ∀ t, enabled (run n) t = false :=
  strong_fair_runs_terminate_of_cert (certOfMeasure W rW hwfr M hmono hflags hprog hnss) hf

end Nstd.Future
