import Nstd.Common.Basic
import Nstd.Future.Model
import Nstd.Future.SpawnFail
import Std.Data.HashSet
/-
  Line protocol of the Future area (replay of a controlled-scheduler trace on the model).
    cfg q=<n> min=<n> max=<n> lazy=<0|1> tick=<ms> sp=<n> rep=<0|1> hooks=<0|1> split=<0|1> | <client ops> | <client ops> ...
        -> initial state; the main thread runs on to its first scheduling point; prints its events
    S <tid>      -> `S <tid> en=<enabled threads>` + the O/E/X lines of that scheduler step (macroStep)
    V            -> [`D <blocked threads>`] `V <DONE|DEADLOCK|RUNNING> steps=<n>`
    F            -> final summary line (same fields as the harness prints)
    X <max states> <cfg fields and scripts as for cfg>  -> exhaustive micro-step exploration of the model (test)
    W <walks> <seed> <cfg ...>  -> random micro-step walks of the model (test)
    M            -> `M <t,t,...>`: the schedule of MICRO-steps executed so far (for `runSched` / `xrun`)
    K            -> `K <pc,pc,...>`: the program counters (frame constructors) and branch edges `a>b` this run has executed
  cfg option `cf=<mask>`: bit k set = the creation of the k-th pool worker fails (`SpawnFail.lean`: `xmove`)
  The output has the format of the harness trace, so the two streams are compared verbatim.
-/
open Nstd.Common
namespace Nstd.Future

/-- the part of the extended state (`XState`) the replay carries beside the model state: refused threads (unrepaired failure
    branch), threads inside the repaired failure handler (fixes/future/0006), and which of the two branches the library has -/
structure Env where
  dead : List Tid := []
  fixing : List (Tid × Nat × Nat) := []
  sfix : Bool := false

def Env.x (e : Env) (s : State) : XState := { s := s, dead := e.dead, fixing := e.fixing }
def Env.ov (e : Env) (t : Tid) : Option Nat := (e.fixing.find? (fun x => x.1 == t)).map (·.2.1)

structure DState where
  st : Option State := none
  steps : Nat := 0
  micro : List Tid := []      -- the micro-step schedule executed so far (reverse order)
  hooks : Bool := false       -- the library carries the yield hooks at plain accesses: those frames are scheduling points too
  split : Bool := false       -- scheduler split mode: the run-on after an operation is a scheduler step of its own
  cont : List Tid := []       -- split mode: threads that have performed their operation and not yet run on
  cf : Nat := 0               -- environment: which creations of pool workers fail (bit mask over context ids)
  dead : Env := {}            -- refused threads / threads in the repaired failure handler / which failure branch the library has (cfg option sfix)
  pcs : Std.HashSet String := {}   -- coverage of the model: frame constructors stepped and edges taken in this run

def kvNat (ws : List String) (key : String) (dflt : Nat) : Nat :=
  match ws.find? (fun w => w.startsWith (key ++ "=")) with
  | some w => ((w.drop (key.length + 1)).toString.toNat?).getD dflt
  | none => dflt

def parseInt (s : String) : Option Int :=
  if s.startsWith "-" then (s.drop 1).toString.toNat?.map (fun n => -(n : Int)) else s.toNat?.map (fun n => (n : Int))

def parseOp (w : String) : Option ClientOp :=
  match w.toList with
  | [] => none
  | k :: rest =>
    let parts := (String.ofList rest).splitOn ":"
    let void := k.isUpper
    match parts with
    | [] => none
    | fs :: args =>
      match fs.toNat? with
      | none => none
      | some f0 =>
        if f0 ≥ 8 then none else
        let f := if void then f0 + 8 else f0
        match k.toLower, args with
        | 's', [a, b] => match parseInt a, parseInt b with
            | some a, some b => some (.start f a b)
            | _, _ => none
        | 'j', [] => some (.join f)
        | 'r', [] => if void then none else some (.result f)
        | 'a', [] => some (.abort f)
        | 'q', [] => some (.query f)
        | 'd', [] => some (.destroy f)
        | _, _ => none

def splitBars (ws : List String) : List (List String) :=
  ws.foldr (fun w acc => if w = "|" then [] :: acc else match acc with
    | [] => [[w]]
    | x :: xs => (w :: x) :: xs) [[]]

def parseCfg (ws : List String) : Option Config :=
  match splitBars ws with
  | [] => none
  | hd :: scripts =>
    let ops := scripts.map (fun sc => sc.map parseOp)
    if ops.any (fun sc => sc.any Option.isNone) then none
    else some { q := kvNat hd "q" 2, minT := kvNat hd "min" 0, maxT := kvNat hd "max" 3, lazy := kvNat hd "lazy" 0 = 1,
                tick := kvNat hd "tick" 0, spurious := kvNat hd "sp" 0, repaired := kvNat hd "rep" 0 = 1,
                scripts := ops.map (fun sc => sc.filterMap id) }


/-- name of the program counter (constructor) of a frame: coverage counters of the correspondence runs -/
def frameTag : Frame → String
  | .sSetLock _ => "sSetLock" | .sSetStore _ => "sSetStore" | .sSetUnlock _ => "sSetUnlock" | .sSetBcast _ _ => "sSetBcast"
  | .sRstLock _ => "sRstLock" | .sRstStore _ => "sRstStore" | .sRstUnlock _ => "sRstUnlock"
  | .sWaitLock _ => "sWaitLock" | .sWaitChk _ => "sWaitChk" | .sWaitUnlock _ => "sWaitUnlock" | .sWaitCwait _ => "sWaitCwait"
  | .sWaitCwake _ => "sWaitCwake" | .sWaitRelock _ => "sWaitRelock"
  | .fSet _ => "fSet" | .fRst _ => "fRst" | .fRstLoad _ => "fRstLoad" | .fWait _ => "fWait"
  | .ring (.pushRead _) => "pushRead" | .ring (.pushChk _ _) => "pushChk" | .ring (.pushCas _ _) => "pushCas"
  | .ring (.pushData _ _) => "pushData" | .ring (.pushPub _ _) => "pushPub"
  | .ring .popRead => "popRead" | .ring (.popChk _) => "popChk" | .ring (.popCas _) => "popCas"
  | .ring (.popData _) => "popData" | .ring (.popRel _ _) => "popRel"
  | .runStart _ => "runStart" | .runChk1 _ => "runChk1" | .runPush2 _ => "runPush2" | .runChk2 _ => "runChk2" | .runSet => "runSet"
  | .runAdd => "runAdd" | .runRdProc _ => "runRdProc" | .runRdTc _ => "runRdTc" | .runClk1 => "runClk1" | .runClk2 _ => "runClk2"
  | .runClk3 => "runClk3" | .runSpLock => "runSpLock" | .runSpChk => "runSpChk" | .runSpUnlock _ => "runSpUnlock"
  | .runSpStart _ => "runSpStart" | .runSpawned _ => "runSpawned"
  | .runRetLock => "runRetLock" | .runRetChk => "runRetChk" | .runRetAfter => "runRetAfter" | .runRetUnlock => "runRetUnlock"
  | .cleanAt _ => "cleanAt" | .cleanJoin _ _ => "cleanJoin"
  | .wPop1 => "wPop1" | .wChk1 => "wChk1" | .wPop2 => "wPop2" | .wChk2 => "wChk2" | .wDeq => "wDeq" | .wDispatch => "wDispatch"
  | .wAdd => "wAdd" | .wTerm => "wTerm"
  | .pCall _ => "pCall" | .pBody _ => "pBody" | .pStore _ => "pStore" | .pSetRd _ => "pSetRd" | .pSetX _ _ => "pSetX"
  | .pSig _ => "pSig" | .pDelete _ => "pDelete"
  | .cNext => "cNext" | .cRdTp _ => "cRdTp" | .cSpin _ => "cSpin" | .cRdTp2 _ => "cRdTp2" | .cSwapTp _ => "cSwapTp"
  | .cUnlockTp _ => "cUnlockTp" | .cJoin _ => "cJoin" | .cArm _ => "cArm" | .cStarted _ _ => "cStarted"
  | .join _ => "join" | .joinClr _ => "joinClr" | .evJoined _ => "evJoined" | .evResult _ => "evResult" | .destroyF _ => "destroyF"
  | .cEnd _ => "cEnd"
  | .mInit => "mInit" | .mSpawn _ => "mSpawn" | .mSpawned _ _ => "mSpawned" | .mJoin _ => "mJoin" | .mDel => "mDel"
  | .dPush _ => "dPush" | .dChk1 _ => "dChk1" | .dPush2 _ => "dPush2" | .dChk2 _ => "dChk2" | .dSet _ => "dSet" | .dJoin _ => "dJoin"
  | .dFin => "dFin" | .tStart => "tStart" | .tExit => "tExit"

/-- all program counters of the model (for the list of the ones no run reached) -/
def allTags : List String :=
  ["sSetLock", "sSetStore", "sSetUnlock", "sSetBcast", "sRstLock", "sRstStore", "sRstUnlock", "sWaitLock", "sWaitChk", "sWaitUnlock",
   "sWaitCwait", "sWaitCwake", "sWaitRelock", "fSet", "fRst", "fRstLoad", "fWait", "pushRead", "pushChk", "pushCas", "pushData", "pushPub",
   "popRead", "popChk", "popCas", "popData", "popRel", "runStart", "runChk1", "runPush2", "runChk2", "runSet", "runAdd", "runRdProc",
   "runRdTc", "runClk1", "runClk2", "runClk3", "runSpLock", "runSpChk", "runSpUnlock", "runSpStart", "runSpawned", "runRetLock",
   "runRetChk", "runRetAfter", "runRetUnlock", "cleanAt", "cleanJoin", "wPop1", "wChk1", "wPop2", "wChk2", "wDeq", "wDispatch", "wAdd",
   "wTerm", "pCall", "pBody", "pStore", "pSetRd", "pSetX", "pSig", "pDelete", "cNext", "cRdTp", "cSpin", "cRdTp2", "cSwapTp", "cUnlockTp",
   "cJoin", "cArm", "cStarted", "join", "joinClr", "evJoined", "evResult", "destroyF", "cEnd", "mInit", "mSpawn", "mSpawned", "mJoin",
   "mDel", "dPush", "dChk1", "dPush2", "dChk2", "dSet", "dJoin", "dFin", "tStart", "tExit"]

def topTag (s : State) (t : Tid) : String :=
  match s.threads t with
  | some { stack := fr :: _, .. } => frameTag fr
  | _ => "-"

/-- driver-only rule for the END of a run with failed thread creations: `~ThreadPool`'s join loop meets the context of a
    never-started thread; `Thread::join` returns at once (`if(!thread) return 0;`), no scheduling point -/
def passDead (dead : Env) (s : State) (t : Tid) : Option State := (xpass (dead.x s) t).map (·.s)

/-- one micro-step of the replay: the extended system of `SpawnFail.lean` (environment = bit mask `cf`) -/
def stepD (cf : Nat) (dead : Env) (s : State) (t : Tid) : Option (State × List String × Env) :=
  if dead.sfix then
    match xmoveFix cf (dead.x s) t with
    | some (x', o) => some (x'.s, o, { dead with fixing := x'.fixing })
    | none => none
  else
  if dead.dead.contains t then none else
  match passDead dead s t with
  | some s' => some (s', [], dead)
  | none =>
    match xmove cf (dead.x s) t with
    | some (x', o) => some (x'.s, o, { dead with dead := x'.dead })
    | none => none

/-- enabledness in the replay: a thread inside the repaired failure handler waits for the pool mutex only -/
def enabledD (dead : Env) (s : State) (t : Tid) : Bool :=
  match dead.ov t with
  | some _ => xfixEnabled (dead.x s) t
  | none => enabled s t

def tagD (dead : Env) (t : Tid) (fr : Frame) : String :=
  match dead.ov t with
  | some pc => s!"xFix{pc}"
  | none => frameTag fr

/-- with the source hooks (fixes/future/hook-0001) the plain volatile accesses of the pool are scheduling points as
    well; the line the scheduler prints for such a point -/
def hookLine (s : State) : Frame → Option String
  | .ring (.pushRead _) => some "O rd q.tail 0"
  | .ring (.pushChk _ t) => s.pool.map (fun p => s!"O rd slot{slotOf p t}.tail 0")
  | .ring (.pushData _ t) => s.pool.map (fun p => s!"O wr slot{slotOf p t}.data 0")
  | .ring .popRead => some "O rd q.head 0"
  | .ring (.popChk h) => s.pool.map (fun p => s!"O rd slot{slotOf p h}.head 0")
  | .ring (.popData h) => s.pool.map (fun p => s!"O rd slot{slotOf p h}.data 0")
  | .runRdProc _ => some "O rd processed 0"
  | .runRdTc _ => some "O rd threadcount 0"
  | .fWait fs => some s!"O rd {fsName fs}.state 0"
  | .fRstLoad fs => some s!"O rd {fsName fs}.state 0"
  | .cRdTp _ => some "O rd tp 0"
  | .cRdTp2 _ => some "O rd tp 0"
  | .cUnlockTp _ => some "O wr tplock 0"
  | _ => none

def isSyncH (hooks : Bool) (s : State) (fr : Frame) : Bool := fr.isSync || (hooks && (hookLine s fr).isSome)

/-- `~ThreadPool` joins a context whose thread was never started (repaired failure branch: the context stays listed, terminated, without
    a thread): `Thread::join` returns at once (`if(!thread) return 0;`), there is no `pthread_join`, hence no scheduling point -/
def neverStartedJoin (s : State) : Frame → Bool
  | .dJoin i => match s.pool with
    | some p => (match p.ctxs[i]? with
      | some { tid := none, .. } => true
      | _ => false)
    | none => false
  | _ => false

/-- scheduling point of the replay: as `isSyncH`, except the join of a never-started thread (no `pthread_join` call) -/
def isSyncD (hooks : Bool) (dead : Env) (s : State) (t : Tid) (fr : Frame) : Bool :=
  match dead.ov t with
  | some pc => pc != 1        -- handler: lock and unlock are scheduling points, the two plain stores are not
  | none => isSyncH hooks s fr && (passDead dead s t).isNone && !neverStartedJoin s fr

def topIsSyncH (hooks : Bool) (dead : Env) (s : State) (t : Tid) : Bool :=
  match s.threads t with
  | some { stack := fr :: _, finished := false, .. } => isSyncD hooks dead s t fr
  | _ => false

/-- what a run-on accumulates: output lines, number of micro-steps, the `dead` list, coverage tags (pcs and edges) -/
structure RunAcc where
  out : List String := []
  n : Nat := 0
  dead : Env := {}
  tags : List String := []

def RunAcc.add (a : RunAcc) (fr : Frame) (s' : State) (t : Tid) (o : List String) (dead' : Env) : RunAcc :=
  let src := tagD a.dead t fr
  let dst := match dead'.ov t with
    | some pc => s!"xFix{pc}"
    | none => topTag s' t
  { out := a.out ++ o, n := a.n + 1, dead := dead', tags := (src ++ ">" ++ dst) :: src :: a.tags }

/-- `runOn` with the hook frames as additional scheduling points and the environment `cf`; also counts the micro-steps -/
def runOnH (hooks : Bool) (cf : Nat) : Nat → State → Tid → RunAcc → State × RunAcc
  | 0, s, _, a => (withFault s "runOn: out of fuel", a)
  | fuel + 1, s, t, a =>
    match s.threads t with
    | some { stack := fr :: _, finished := false, .. } =>
      if isSyncD hooks a.dead s t fr then (s, a)
      else match stepD cf a.dead s t with
        | some (s', o, dead') => runOnH hooks cf fuel s' t (a.add fr s' t o dead')
        | none => (s, a)
    | _ => (s, a)

def macroStepH (hooks : Bool) (cf : Nat) (dead : Env) (s : State) (t : Tid) : Option (State × RunAcc) :=
  match s.threads t with
  | some { stack := fr :: _, finished := false, .. } =>
    if isSyncD hooks dead s t fr then
      match stepD cf dead s t with
      | some (s', o, dead') =>
        let pre := if fr.isSync || (dead.ov t).isSome then [] else (hookLine s fr).toList
        some (runOnH hooks cf 10000 s' t (({ dead := dead } : RunAcc).add fr s' t (pre ++ o) dead'))
      | none => none
    else none
  | _ => none

/-- split mode: operations after which the scheduler does NOT insert the extra yield (nothing runs between a condition
    wait entry / wake-up and the next operation; exit; the yield after thread creation; source hooks) -/
def noPost : Frame → Bool
  | .sWaitCwait _ | .sWaitCwake _ | .tExit | .runSpawned _ | .mSpawned _ _ => true
  | fr => !fr.isSync

def liveThreads (s : State) (dead : Env := {}) : List Tid :=
  (List.range s.nthreads).filter (fun t => !dead.dead.contains t && match s.threads t with
    | some th => !th.finished
    | none => false)

def enabledList (hooks : Bool) (s : State) (cont : List Tid := []) (dead : Env := {}) : List Tid :=
  (liveThreads s dead).filter (fun t => cont.contains t || (topIsSyncH hooks dead s t && enabledD dead s t))

def pendName (s : State) (t : Tid) : String :=
  match s.threads t with
  | some { stack := fr :: _, .. } =>
    match fr with
    | .sSetLock σ | .sRstLock σ | .sWaitLock σ => s!"lock:{sigName σ}.m"
    | .sWaitRelock σ => s!"relock:{sigName σ}.m"
    | .sWaitCwake σ => s!"cwake:{sigName σ}.c"
    | .runSpLock | .runRetLock => "lock:pool.m"
    | .cleanJoin _ _ | .mJoin _ | .dJoin _ => "join:thread"
    | _ => "other"
  | _ => "none"

def finalLine (s : State) (execs : Nat) : String :=
  let live := (List.range s.nextCall).filter (fun c => (s.calls c).isSome) |>.length
  match (if s.tp then s.pool else none) with
  | some p =>
    let b := fun (x : Bool) => if x then 1 else 0
    s!"F enq={p.enq}/{b (s.sigs 0).signaled} deq={p.deq}/{b (s.sigs 1).signaled} q={p.ring.head}/{p.ring.tail} pushed={p.pushed} processed={p.processed} threads={p.threadCount} execs={execs} live={live}"
  | none => s!"F nopool execs={execs} live={live}"

def totalExecs (s : State) : Nat := (List.range s.nextCall).foldl (fun acc c => acc + s.execCount c) 0

/-- re-tabulate the function-valued fields (the model updates them by wrapping closures; long replays would
    otherwise pay a look-up cost linear in the number of steps so far).  Extensionally the identity. -/
def tabArr {β : Type} (arr : Array β) (dflt : β) (i : Nat) : β := if h : i < arr.size then arr[i] else dflt

def mkArr {β : Type} (n : Nat) (f : Nat → β) : Array β := ((List.range n).map f).toArray

def compact (s : State) : State :=
  let nc := s.nextCall
  let aT := mkArr s.nthreads s.threads
  let aS := mkArr 18 s.sigs
  let aF := mkArr 16 s.futs
  let aC := mkArr nc s.calls
  let aE := mkArr nc s.execCount
  let aA := mkArr nc s.execArgs
  let aD := mkArr nc s.freeCount
  let aV := mkArr nc s.everCalls
  let aK := mkArr nc s.completed
  let pool := match s.pool with
    | some p =>
      let aR := mkArr p.ring.cap p.ring.slots
      let d0 := p.ring.slots 0
      some { p with ring := { p.ring with slots := tabArr aR d0 } }
    | none => none
  { s with
    threads := tabArr aT none, sigs := tabArr aS {}, futs := tabArr aF {}, calls := tabArr aC none,
    execCount := tabArr aE 0, execArgs := tabArr aA none, freeCount := tabArr aD 0, everCalls := tabArr aV none,
    completed := tabArr aK false, pool := pool }

/-- number of micro-steps `runOn` takes (same recursion as `runOn`) -/
def runOnCount : Nat → State → Tid → Nat → Nat
  | 0, _, _, n => n
  | fuel + 1, s, t, n =>
    match s.threads t with
    | some { stack := fr :: _, finished := false, .. } =>
      if fr.isSync then n
      else match step s t with
        | some (s', _) => runOnCount fuel s' t (n + 1)
        | none => n
    | _ => n

/-! ### exhaustive exploration of the model (a TEST of small configurations at micro-step granularity, i.e. with
     every plain shared read interleaved separately — finer than the implementation runs can be scheduled) -/

deriving instance Hashable for RingPc
deriving instance Hashable for ClientOp
deriving instance Hashable for Frame

def hashList {β : Type} [Hashable β] (l : List β) : UInt64 := l.foldl (fun h x => mixHash h (hash x)) 7

/-- hash of the semantically relevant part of a state (ghost logs excluded) -/
def stateHash (s : State) : UInt64 :=
  let hT := (List.range s.nthreads).foldl (fun h t => match s.threads t with
    | some th => mixHash h (mixHash (hashList th.stack) (mixHash (hash th.finished) (mixHash (hash th.retB)
        (mixHash (hash th.retJob) (mixHash (hashList th.script) (hashList th.used))))))
    | none => mixHash h 3) 11
  let hS := (List.range 18).foldl (fun h σ => let g := s.sigs σ
    mixHash h (mixHash (hash g.owner) (mixHash (hash g.signaled) (mixHash (hashList g.waiters) (mixHash (hash g.live) (hash g.gen)))))) 13
  let hP := match s.pool with
    | none => 17
    | some p =>
      let hR := (List.range p.ring.cap).foldl (fun h i => let sl := p.ring.slots i
        mixHash h (mixHash (hash sl.data) (mixHash (hash sl.tailT) (hash sl.headT)))) (mixHash (hash p.ring.head) (hash p.ring.tail))
      let hC := p.ctxs.foldl (fun h c => mixHash h (mixHash (hash c.id) (mixHash (hash c.tid) (hash c.terminated)))) 19
      mixHash hR (mixHash hC (hashList [p.enq, p.deq, p.pushed, p.processed, p.threadCount, p.idleReset, p.nextCtx, (match p.mOwner with | some o => o + 1 | none => 0)]))
  let hF := (List.range 16).foldl (fun h f => let x := s.futs f
    mixHash h (mixHash (hash x.aborting) (mixHash (hash x.state) (mixHash (hash x.joinable) (hash x.result))))) 23
  let hC := (List.range s.nextCall).foldl (fun h c => mixHash h (mixHash (hash (s.calls c).isSome) (mixHash (hash (s.execCount c)) (hash (s.freeCount c))))) 29
  mixHash hT (mixHash hS (mixHash hP (mixHash hF (mixHash hC
    (hashList [s.nthreads, s.tplock, s.nextCall, s.spurious, s.clockCalls, (if s.tp then 1 else 0)] + hashList s.clientTids)))))

/-- frames whose step touches only thread-local state (explored eagerly: they commute with every other step) -/
def Frame.isLocal : Frame → Bool
  | .runStart _ | .runChk1 _ | .runPush2 _ | .runChk2 _ | .runSet | .wPop1 | .wChk1 | .wPop2 | .wChk2 | .wDeq
  | .dChk1 _ | .dPush2 _ | .dChk2 _ | .dSet _ | .evJoined _ | .cStarted _ _ => true
  | _ => false

structure XStat where
  states : Nat := 0
  transitions : Nat := 0
  deadlocks : Nat := 0
  faults : Nat := 0
  terminal : Nat := 0
  doubleExec : Nat := 0
  truncated : Bool := false
  firstBad : Option (String × List Tid) := none

def livePresent (s : State) : Bool :=
  (List.range s.nthreads).any (fun t => match s.threads t with
    | some th => !th.finished
    | none => false)

/-- depth-first exploration of all micro-step schedules (up to `maxStates` distinct states) -/
partial def exploreLoop (maxStates : Nat) (stack : List (State × List Tid)) (seen : Std.HashSet UInt64) (st : XStat) : XStat :=
  match stack with
  | [] => st
  | (s, path) :: rest =>
    if st.states ≥ maxStates then { st with truncated := true } else
    let ts := (List.range s.nthreads).filter (fun t => enabled s t)
    -- a thread whose next step is purely local is taken alone (ample set)
    let ts := match ts.find? (fun t => match s.threads t with
        | some { stack := fr :: _, .. } => fr.isLocal
        | _ => false) with
      | some t => [t]
      | none => ts
    let st := if ts.isEmpty then
        (if livePresent s then
          { st with deadlocks := st.deadlocks + 1, firstBad := st.firstBad.orElse (fun _ => some ("deadlock", path.reverse)) }
         else { st with terminal := st.terminal + 1 })
      else st
    let (stack', seen', st') := ts.foldl (fun (acc : List (State × List Tid) × Std.HashSet UInt64 × XStat) t =>
      let (stk, seen, st) := acc
      match step s t with
      | none => acc
      | some (s', _) =>
        let st := { st with transitions := st.transitions + 1 }
        let h := stateHash s'
        if seen.contains h then (stk, seen, st)
        else
          let st := { st with states := st.states + 1 }
          let st := if s'.fault.isSome then
              { st with faults := st.faults + 1, firstBad := st.firstBad.orElse (fun _ => some ("fault " ++ s'.fault.getD "", (t :: path).reverse)) }
            else st
          let st := if (List.range s'.nextCall).any (fun c => s'.execCount c > 1 || s'.freeCount c > 1) then
              { st with doubleExec := st.doubleExec + 1, firstBad := st.firstBad.orElse (fun _ => some ("double exec/free", (t :: path).reverse)) }
            else st
          let s'' := if (path.length + 1) % 64 = 0 then compact s' else s'
          ((s'', t :: path) :: stk, seen.insert h, st)) (rest, seen, st)
    exploreLoop maxStates stack' seen' st'

/-- random walks over micro-step schedules of the model (a TEST; xorshift PRNG) -/
def xorshift (x : UInt64) : UInt64 :=
  let x := x ^^^ (x <<< 13)
  let x := x ^^^ (x >>> 7)
  x ^^^ (x <<< 17)

partial def walkOne (s : State) (rng : UInt64) (n : Nat) (path : List Tid) (maxSteps : Nat) : (String × Nat × List Tid × UInt64) :=
  if n ≥ maxSteps then ("bound", n, path, rng) else
  if s.fault.isSome then ("fault " ++ s.fault.getD "", n, path, rng) else
  let ts := (List.range s.nthreads).filter (fun t => enabled s t)
  if ts.isEmpty then ((if livePresent s then "deadlock" else "done"), n, path, rng)
  else
    let rng := xorshift rng
    let t := ts.getD (rng.toNat % ts.length) 0
    match step s t with
    | some (s', _) => walkOne (if (n + 1) % 64 = 0 then compact s' else s') rng (n + 1) (t :: path) maxSteps
    | none => ("stuck-step", n, path, rng)

partial def walkMany (cfg : Config) (k : Nat) (rng : UInt64) (done dead faults bounds steps : Nat) (bad : Option (String × List Tid)) :
    Nat × Nat × Nat × Nat × Nat × Option (String × List Tid) :=
  if k = 0 then (done, dead, faults, bounds, steps, bad) else
  let (v, n, path, rng') := walkOne (State.init cfg) rng 0 [] 200000
  let bad' := if v = "done" || v = "bound" then bad else bad.orElse (fun _ => some (v, path.reverse))
  walkMany cfg (k - 1) (xorshift (rng' + 0x9E3779B97F4A7C15)) (done + (if v = "done" then 1 else 0)) (dead + (if v = "deadlock" then 1 else 0))
    (faults + (if v.startsWith "fault" then 1 else 0)) (bounds + (if v = "bound" then 1 else 0)) (steps + n) bad'

/-- does thread `t`, running ALONE from `s`, come back to a state with the same hash within `k` micro-steps?
    (search for busy-spin cycles; a test) -/
partial def soloCycle (h0 : UInt64) (s : State) (t : Tid) (k : Nat) (n : Nat) : Option Nat :=
  if k = 0 then none else
  match step s t with
  | none => none
  | some (s', _) => if stateHash s' == h0 && n > 0 then some (n + 1) else soloCycle h0 s' t (k - 1) (n + 1)

partial def cycleWalk (s : State) (rng : UInt64) (n : Nat) (path : List Tid) (maxSteps : Nat) : Option (List Tid × Tid × Nat) :=
  if n ≥ maxSteps then none else
  let ts := (List.range s.nthreads).filter (fun t => enabled s t)
  if ts.isEmpty then none else
  let h0 := stateHash s
  match ts.findSome? (fun t => (soloCycle h0 s t 80 0).map (fun len => (t, len))) with
  | some (t, len) => some (path.reverse, t, len)
  | none =>
    let rng := xorshift rng
    let t := ts.getD (rng.toNat % ts.length) 0
    match step s t with
    | some (s', _) => cycleWalk (if (n + 1) % 64 = 0 then compact s' else s') rng (n + 1) (t :: path) maxSteps
    | none => none

partial def cycleSearch (cfg : Config) (k : Nat) (rng : UInt64) : Option (List Tid × Tid × Nat) :=
  if k = 0 then none else
  match cycleWalk (State.init cfg) rng 0 [] 5000 with
  | some r => some r
  | none => cycleSearch cfg (k - 1) (xorshift (rng + 0x9E3779B97F4A7C15))

def faultLines (s : State) : List String :=
  match s.fault with
  | some m => [s!"MODEL-FAULT {m}"]
  | none => []

def stepLine (d : DState) (ws : List String) : DState × String :=
  match ws with
  | "cfg" :: rest =>
    match parseCfg rest with
    | none => ({}, "bad-op")
    | some cfg =>
      let hooks := kvNat ((splitBars rest).headD []) "hooks" 0 = 1
      let cf := kvNat ((splitBars rest).headD []) "cf" 0
      let sfix := kvNat ((splitBars rest).headD []) "sfix" 0 = 1
      let (s, a) := runOnH hooks cf 10000 (State.init cfg) 0 { dead := { sfix := sfix } }
      ({ st := some s, steps := 0, micro := List.replicate a.n 0, hooks := hooks, split := kvNat ((splitBars rest).headD []) "split" 0 = 1,
         cf := cf, dead := a.dead, pcs := a.tags.foldl (fun h x => h.insert x) {} },
        "\n".intercalate ("ok" :: a.out))
  | ["S", ts] =>
    match d.st, ts.toNat? with
    | some s, some t =>
      let en := enabledList d.hooks s d.cont d.dead
      let hdr := s!"S {t} en=" ++ ",".intercalate (en.map toString)
      let bump := fun (s' : State) => if (d.steps + 1) % 32 = 0 then compact s' else s'
      if d.cont.contains t then
        -- split mode: the run-on of an operation performed earlier
        let (s', a) := runOnH d.hooks d.cf 10000 s t { dead := d.dead }
        ({ d with st := some (bump s'), steps := d.steps + 1, micro := List.replicate a.n t ++ d.micro, cont := d.cont.filter (· ≠ t),
                  dead := a.dead, pcs := a.tags.foldl (fun h x => h.insert x) d.pcs },
          "\n".intercalate (hdr :: "O cont thread 0" :: a.out ++ faultLines s'))
      else
      match (if d.split then
          (match s.threads t with
           | some { stack := fr :: _, finished := false, .. } =>
             if isSyncD d.hooks d.dead s t fr && !(noPost fr && (d.dead.ov t).isNone) then
               (match stepD d.cf d.dead s t with
                | some (s', o, dead') => some (s', (({ dead := d.dead } : RunAcc).add fr s' t o dead'), true)
                | none => none)
             else (macroStepH d.hooks d.cf d.dead s t).map (fun (a, b) => (a, b, false))
           | _ => none)
        else (macroStepH d.hooks d.cf d.dead s t).map (fun (a, b) => (a, b, false))) with
      | some (s', a, deferred) =>
        ({ d with st := some (bump s'), steps := d.steps + 1, micro := List.replicate a.n t ++ d.micro,
                  cont := if deferred then t :: d.cont else d.cont, dead := a.dead, pcs := a.tags.foldl (fun h x => h.insert x) d.pcs },
          "\n".intercalate (hdr :: a.out ++ faultLines s'))
      | none => (d, hdr ++ s!"\nMODEL-DISABLED {t}")
    | _, _ => (d, "bad-op")
  | ["V"] =>
    match d.st with
    | some s =>
      let live := liveThreads s d.dead
      if live.isEmpty then (d, s!"V DONE steps={d.steps}")
      else if (enabledList d.hooks s d.cont d.dead).isEmpty then
        (d, "D " ++ " ".intercalate (live.map (fun t => s!"t{t}:{if (d.dead.ov t).isSome then "lock:pool.m" else pendName s t}")) ++ s!"\nV DEADLOCK steps={d.steps}")
      else (d, s!"V RUNNING steps={d.steps}")
    | none => (d, "bad-op")
  | "X" :: maxs :: rest =>
    match parseCfg rest, maxs.toNat? with
    | some cfg, some m =>
      let r := exploreLoop m [(State.init cfg, [])] ({} : Std.HashSet UInt64) {}
      let bad := match r.firstBad with
        | some (w, p) => s!" first-bad={w} schedule={",".intercalate (p.map toString)}"
        | none => ""
      (d, s!"X states={r.states} transitions={r.transitions} terminal={r.terminal} deadlocks={r.deadlocks} faults={r.faults} double={r.doubleExec} truncated={if r.truncated then 1 else 0}{bad}")
    | _, _ => (d, "bad-op")
  | "W" :: walks :: seed :: rest =>
    match parseCfg rest, walks.toNat?, seed.toNat? with
    | some cfg, some k, some sd =>
      let (dn, dead, faults, bounds, steps, bad) := walkMany cfg k (UInt64.ofNat (sd * 2654435761 + 88172645463325252)) 0 0 0 0 0 none
      let b := match bad with
        | some (w, p) => s!" first-bad={w} schedule={",".intercalate (p.map toString)}"
        | none => ""
      (d, s!"W walks={k} done={dn} deadlocks={dead} faults={faults} bound={bounds} steps={steps}{b}")
    | _, _, _ => (d, "bad-op")
  | "C" :: walks :: seed :: rest =>
    match parseCfg rest, walks.toNat?, seed.toNat? with
    | some cfg, some k, some sd =>
      match cycleSearch cfg k (UInt64.ofNat (sd * 2654435761 + 88172645463325252)) with
      | some (pre, t, len) => (d, s!"C cycle thread={t} len={len} prefix={",".intercalate (pre.map toString)}")
      | none => (d, "C none")
    | _, _, _ => (d, "bad-op")
  | ["K"] => (d, "K " ++ ",".intercalate d.pcs.toList)
  | ["KALL"] => (d, "K " ++ ",".intercalate allTags)
  | ["M"] => (d, "M " ++ ",".intercalate (d.micro.reverse.map toString))
  | ["F"] =>
    match d.st with
    | some s => (d, finalLine s (totalExecs s))
    | none => (d, "bad-op")
  | _ => (d, "bad-op")

end Nstd.Future

def main : IO Unit := Nstd.Common.ioLoop ({} : Nstd.Future.DState) Nstd.Future.stepLine
