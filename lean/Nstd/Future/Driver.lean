import Nstd.Common.Basic
import Nstd.Future.Model
/-
  Line protocol of the Future area (replay of a controlled-scheduler trace on the model).
    cfg q=<n> min=<n> max=<n> lazy=<0|1> tick=<ms> sp=<n> rep=<0|1> | <client ops> | <client ops> ...
        -> initial state; the main thread runs on to its first scheduling point; prints its events
    S <tid>      -> `S <tid> en=<enabled threads>` + the O/E/X lines of that scheduler step (macroStep)
    V            -> [`D <blocked threads>`] `V <DONE|DEADLOCK|RUNNING> steps=<n>`
    F            -> final summary line (same fields as the harness prints)
    M            -> `M <t,t,...>`: the schedule of MICRO-steps executed so far (for `runSched`)
  The output has the format of the harness trace, so the two streams are compared verbatim.
-/
open Nstd.Common
namespace Nstd.Future

structure DState where
  st : Option State := none
  steps : Nat := 0
  micro : List Tid := []      -- the micro-step schedule executed so far (reverse order)

def kvNat (ws : List String) (key : String) (dflt : Nat) : Nat :=
  match ws.find? (fun w => w.startsWith (key ++ "=")) with
  | some w => ((w.drop (key.length + 1)).toString.toNat?).getD dflt
  | none => dflt

def parseInt (s : String) : Option Int :=
  if s.startsWith "-" then (s.drop 1).toString.toNat?.map (fun n => -(n : Int)) else s.toNat?.map (fun n => (n : Int))

def parseOp (w : String) : Option ClientOp :=
  match w.toList with
  | [] => none
  | k :: rest =>
    let parts := (String.ofList rest).splitOn ":"
    let void := k.isUpper
    match parts with
    | [] => none
    | fs :: args =>
      match fs.toNat? with
      | none => none
      | some f0 =>
        if f0 ≥ 8 then none else
        let f := if void then f0 + 8 else f0
        match k.toLower, args with
        | 's', [a, b] => match parseInt a, parseInt b with
            | some a, some b => some (.start f a b)
            | _, _ => none
        | 'j', [] => some (.join f)
        | 'r', [] => if void then none else some (.result f)
        | 'a', [] => some (.abort f)
        | 'q', [] => some (.query f)
        | 'd', [] => some (.destroy f)
        | _, _ => none

def splitBars (ws : List String) : List (List String) :=
  ws.foldr (fun w acc => if w = "|" then [] :: acc else match acc with
    | [] => [[w]]
    | x :: xs => (w :: x) :: xs) [[]]

def parseCfg (ws : List String) : Option Config :=
  match splitBars ws with
  | [] => none
  | hd :: scripts =>
    let ops := scripts.map (fun sc => sc.map parseOp)
    if ops.any (fun sc => sc.any Option.isNone) then none
    else some { q := kvNat hd "q" 2, minT := kvNat hd "min" 0, maxT := kvNat hd "max" 3, lazy := kvNat hd "lazy" 0 = 1,
                tick := kvNat hd "tick" 0, spurious := kvNat hd "sp" 0, repaired := kvNat hd "rep" 0 = 1,
                scripts := ops.map (fun sc => sc.filterMap id) }

def liveThreads (s : State) : List Tid :=
  (List.range s.nthreads).filter (fun t => match s.threads t with
    | some th => !th.finished
    | none => false)

def enabledList (s : State) : List Tid := (liveThreads s).filter (fun t => topIsSync s t && enabled s t)

def pendName (s : State) (t : Tid) : String :=
  match s.threads t with
  | some { stack := fr :: _, .. } =>
    match fr with
    | .sSetLock σ | .sRstLock σ | .sWaitLock σ => s!"lock:{sigName σ}.m"
    | .sWaitRelock σ => s!"relock:{sigName σ}.m"
    | .sWaitCwake σ => s!"cwake:{sigName σ}.c"
    | .runSpLock | .runRetLock => "lock:pool.m"
    | .cleanJoin _ _ | .mJoin _ | .dJoin _ => "join:thread"
    | _ => "other"
  | _ => "none"

def finalLine (s : State) (execs : Nat) : String :=
  let live := (List.range s.nextCall).filter (fun c => (s.calls c).isSome) |>.length
  match (if s.tp then s.pool else none) with
  | some p =>
    let b := fun (x : Bool) => if x then 1 else 0
    s!"F enq={p.enq}/{b (s.sigs 0).signaled} deq={p.deq}/{b (s.sigs 1).signaled} q={p.ring.head}/{p.ring.tail} pushed={p.pushed} processed={p.processed} threads={p.threadCount} execs={execs} live={live}"
  | none => s!"F nopool execs={execs} live={live}"

def totalExecs (s : State) : Nat := (List.range s.nextCall).foldl (fun acc c => acc + s.execCount c) 0

/-- re-tabulate the function-valued fields (the model updates them by wrapping closures; long replays would
    otherwise pay a look-up cost linear in the number of steps so far).  Extensionally the identity. -/
def tabArr {β : Type} (arr : Array β) (dflt : β) (i : Nat) : β := if h : i < arr.size then arr[i] else dflt

def mkArr {β : Type} (n : Nat) (f : Nat → β) : Array β := ((List.range n).map f).toArray

def compact (s : State) : State :=
  let nc := s.nextCall
  let aT := mkArr s.nthreads s.threads
  let aS := mkArr 18 s.sigs
  let aF := mkArr 16 s.futs
  let aC := mkArr nc s.calls
  let aE := mkArr nc s.execCount
  let aA := mkArr nc s.execArgs
  let aD := mkArr nc s.freeCount
  let aV := mkArr nc s.everCalls
  let aK := mkArr nc s.completed
  let pool := match s.pool with
    | some p =>
      let aR := mkArr p.ring.cap p.ring.slots
      let d0 := p.ring.slots 0
      some { p with ring := { p.ring with slots := tabArr aR d0 } }
    | none => none
  { s with
    threads := tabArr aT none, sigs := tabArr aS {}, futs := tabArr aF {}, calls := tabArr aC none,
    execCount := tabArr aE 0, execArgs := tabArr aA none, freeCount := tabArr aD 0, everCalls := tabArr aV none,
    completed := tabArr aK false, pool := pool }

/-- number of micro-steps `runOn` takes (same recursion as `runOn`) -/
def runOnCount : Nat → State → Tid → Nat → Nat
  | 0, _, _, n => n
  | fuel + 1, s, t, n =>
    match s.threads t with
    | some { stack := fr :: _, finished := false, .. } =>
      if fr.isSync then n
      else match step s t with
        | some (s', _) => runOnCount fuel s' t (n + 1)
        | none => n
    | _ => n

def faultLines (s : State) : List String :=
  match s.fault with
  | some m => [s!"MODEL-FAULT {m}"]
  | none => []

def stepLine (d : DState) (ws : List String) : DState × String :=
  match ws with
  | "cfg" :: rest =>
    match parseCfg rest with
    | none => ({}, "bad-op")
    | some cfg =>
      let (s, o) := runOn 10000 (State.init cfg) 0 []
      ({ st := some s, steps := 0, micro := List.replicate (runOnCount 10000 (State.init cfg) 0 0) 0 }, "\n".intercalate ("ok" :: o))
  | ["S", ts] =>
    match d.st, ts.toNat? with
    | some s, some t =>
      let en := enabledList s
      let hdr := s!"S {t} en=" ++ ",".intercalate (en.map toString)
      match macroStep s t with
      | some (s', o) =>
        let k := match step s t with
          | some (s1, _) => 1 + runOnCount 10000 s1 t 0
          | none => 0
        ({ st := some (if (d.steps + 1) % 32 = 0 then compact s' else s'), steps := d.steps + 1, micro := List.replicate k t ++ d.micro },
          "\n".intercalate (hdr :: o ++ faultLines s'))
      | none => (d, hdr ++ s!"\nMODEL-DISABLED {t}")
    | _, _ => (d, "bad-op")
  | ["V"] =>
    match d.st with
    | some s =>
      let live := liveThreads s
      if live.isEmpty then (d, s!"V DONE steps={d.steps}")
      else if (enabledList s).isEmpty then
        (d, "D " ++ " ".intercalate (live.map (fun t => s!"t{t}:{pendName s t}")) ++ s!"\nV DEADLOCK steps={d.steps}")
      else (d, s!"V RUNNING steps={d.steps}")
    | none => (d, "bad-op")
  | ["M"] => (d, "M " ++ ",".intercalate (d.micro.reverse.map toString))
  | ["F"] =>
    match d.st with
    | some s => (d, finalLine s (totalExecs s))
    | none => (d, "bad-op")
  | _ => (d, "bad-op")

end Nstd.Future

def main : IO Unit := Nstd.Common.ioLoop ({} : Nstd.Future.DState) Nstd.Future.stepLine
