/-
  The full Future/ThreadPool micro-step system (`Model.lean`) simulates the closed ring system
  (`Ring.lean`): the projection `proj s` of every reachable state is a reachable state of `RingSys` with
  capacity `capOf cfg`.  Consequences: the facts of `RingLemmas` hold for the ring of the pool together
  with the `push`/`pop` frames of all threads.

  Structure of the proof
    SimRing1   generic shape of one micro-step (which threads change, ring frames stay on top, ...)
    SimRing2   effect of a step on `proj` (ring micro-step / entering push or pop / nothing)
    SimRing3   while `tp = false` no thread is inside pool code, so a lazily created pool starts clean
    SimRingCore  invariant `SimInv`; simulation while the pool has not been deleted (`poolAlive`)
    SimRing4/5 join reasoning: main passes `mJoin` only after all clients finished, hence after `dFin`
               no pool is created again (`pool_alive : s.pool = some p → poolAlive s`)
    SimRing    (this file) the unconditional statements
-/
import Nstd.Future.SimRing5
namespace Nstd.Future

/-- the full system simulates the ring system -/
theorem reach_ring {cfg : Config} {s : State} (h : Reach cfg s) : RingReach (capOf cfg) (proj s) := by
  cases hp : s.pool with
  | none => exact reach_ring_noPool h hp
  | some p => exact Alive.reach_ring h (pool_alive h hp)

theorem ring_facts {cfg : Config} {s : State} {p : Pool} (h : Reach cfg s) (_hp : s.pool = some p) :
    ∃ cap, 0 < cap ∧ RingReach cap (proj s) :=
  ⟨capOf cfg, capOf_pos cfg, reach_ring h⟩

/-! ### the ring facts lifted to the full system -/

section lifted
variable {cfg : Config} {s : State} {p : Pool}

theorem full_cap (h : Reach cfg s) (hp : s.pool = some p) : p.ring.cap = capOf cfg :=
  Alive.full_cap h (pool_alive h hp) hp

theorem full_popLog_nodup (h : Reach cfg s) (hp : s.pool = some p) :
    (p.ring.popLog.map Prod.fst).Nodup :=
  Alive.full_popLog_nodup h (pool_alive h hp) hp

theorem full_popLog_sound (h : Reach cfg s) (hp : s.pool = some p) {x : Nat} {d : Option Job}
    (hm : (x, d) ∈ p.ring.popLog) : x < p.ring.pushLog.length ∧ d = p.ring.pushLog[x]? :=
  Alive.full_popLog_sound h (pool_alive h hp) hp hm

theorem full_popRel_payload (h : Reach cfg s) (hp : s.pool = some p) {t : Tid} {th : Thread}
    {x : Nat} {d : Option Job} (hth : s.threads t = some th)
    (htop : th.stack.head? = some (.ring (.popRel x d))) :
    x < p.ring.pushLog.length ∧ d = p.ring.pushLog[x]? :=
  Alive.full_popRel_payload h (pool_alive h hp) hp hth htop

/-- hence the "pop read a raw slot" fault never fires: the payload read is a pushed job -/
theorem full_popRel_some (h : Reach cfg s) (hp : s.pool = some p) {t : Tid} {th : Thread}
    {x : Nat} {d : Option Job} (hth : s.threads t = some th)
    (htop : th.stack.head? = some (.ring (.popRel x d))) : ∃ j, d = some j :=
  Alive.full_popRel_some h (pool_alive h hp) hp hth htop

theorem full_popData_slot (h : Reach cfg s) (hp : s.pool = some p) {t : Tid} {th : Thread}
    {x : Nat} (hth : s.threads t = some th) (htop : th.stack.head? = some (.ring (.popData x))) :
    x < p.ring.pushLog.length ∧ (p.ring.slots (x % p.ring.cap)).data = p.ring.pushLog[x]? :=
  Alive.full_popData_slot h (pool_alive h hp) hp hth htop

/-- two different threads cannot both hold the same pop ticket (be at `popData`/`popRel` frames with it) -/
theorem full_claim_unique_pop (h : Reach cfg s) (hp : s.pool = some p) {t u : Tid}
    {tht thu : Thread} {pt pu : RingPc Job} {x : Nat} (htu : t ≠ u)
    (hth : s.threads t = some tht) (hthu : s.threads u = some thu)
    (htop : tht.stack.head? = some (.ring pt)) (hutop : thu.stack.head? = some (.ring pu))
    (hpt : popTicket pt = some x) (hpu : popTicket pu = some x) : False :=
  Alive.full_claim_unique_pop h (pool_alive h hp) hp htu hth hthu htop hutop hpt hpu

theorem full_claim_unique_push (h : Reach cfg s) (hp : s.pool = some p) {t u : Tid}
    {tht thu : Thread} {pt pu : RingPc Job} {x : Nat} (htu : t ≠ u)
    (hth : s.threads t = some tht) (hthu : s.threads u = some thu)
    (htop : tht.stack.head? = some (.ring pt)) (hutop : thu.stack.head? = some (.ring pu))
    (hpt : pushTicket pt = some x) (hpu : pushTicket pu = some x) : False :=
  Alive.full_claim_unique_push h (pool_alive h hp) hp htu hth hthu htop hutop hpt hpu

theorem full_pushLog_len (h : Reach cfg s) (hp : s.pool = some p) :
    p.ring.pushLog.length = p.ring.tail :=
  Alive.full_pushLog_len h (pool_alive h hp) hp

theorem full_head_le_tail (h : Reach cfg s) (hp : s.pool = some p) : p.ring.head ≤ p.ring.tail :=
  Alive.full_head_le_tail h (pool_alive h hp) hp

theorem full_tail_le_head_cap (h : Reach cfg s) (hp : s.pool = some p) :
    p.ring.tail ≤ p.ring.head + capOf cfg :=
  Alive.full_tail_le_head_cap h (pool_alive h hp) hp

/-- any further fact about reachable ring states transfers: the ring pc of a thread is its top frame -/
theorem full_pcs (hp : s.pool = some p) {t : Tid} {th : Thread} (hth : s.threads t = some th) :
    (proj s).pcs t = ringPcOf th := Alive.proj_pcs hp hth

theorem full_ring (hp : s.pool = some p) : (proj s).ring = p.ring := Alive.proj_ring hp

end lifted

end Nstd.Future
