/-
  Safety of the Future/ThreadPool model, part 3: token accounting of one micro-step of a frame other
  than a `push`/`pop` frame.
-/
import Nstd.Future.Safety2
set_option linter.unusedSimpArgs false
set_option linter.unusedVariables false
namespace Nstd.Future

def isCNext : Frame → Bool
  | .cNext => true
  | _ => false

/-- the call record a frame reads -/
def reads : Frame → Option Nat
  | .cJoin c | .cArm c | .pCall c | .pBody c | .pStore c | .pSetRd c | .pSetX c _ | .pSig c | .pDelete c => some c
  | _ => none

structure ShapeT (s s' : State) (t : Tid) (th : Thread) (fr : Frame) (c : Nat) : Prop where
  self : ∀ th', s'.threads t = some th' →
    weight c th' + s'.freeCount c ≤ weight c th + s.freeCount c + (if s'.nextCall = s.nextCall + 1 ∧ c = s.nextCall then 1 else 0) ∧
    s'.execCount c + lsum (pw2 c) th.stack + s.freeCount c = s.execCount c + lsum (pw2 c) th'.stack + s'.freeCount c ∧
    lsum (pw3 c) th.stack + s.freeCount c ≤ lsum (pw3 c) th'.stack + s'.freeCount c ∧
    (s'.completed c = true → s.completed c = true ∨ 1 ≤ lsum (pw3 c) th'.stack) ∧
    s.freeCount c ≤ s'.freeCount c
  pool : ringTok c s'.pool ≤ ringTok c s.pool

theorem ringTok_mk (c : Nat) (p : Pool) : ringTok c (some p) = cntLog c p.ring.pushLog p.ring.popLog := rfl
theorem cntLog_nil (c : Nat) (l : List (Nat × Option Job)) : cntLog c [] l = 0 := rfl

set_option maxHeartbeats 16000000 in
theorem shapeT (s : State) (t : Tid) (th : Thread) (fr : Frame) (rest : List Frame) (c : Nat)
    (hth : s.threads t = some th) (hst : th.stack = fr :: rest) (hnc : NoChk rest)
    (hlast : LastOnly (fr :: rest))
    (hnr : isRing fr = false) (hrec : ∀ c', reads fr = some c' → s.calls c' ≠ none) :
    ShapeT s (stepFrame s t th fr).1 t th fr c := by
  have hwb : ∀ rb rj, wS c rb rj rest = base c rj rest := fun rb rj => wS_eq_base hnc
  cases fr <;> simp only [isRing, Bool.true_eq_false] at hnr <;> simp only [reads, Option.some.injEq, forall_eq', false_implies, implies_true] at hrec <;> simp only [stepFrame] <;> repeat' split
  all_goals
    try (have hr := lastOnly_cons_last (a := _) rfl hlast; subst hr)
    constructor
    · intro th' h
      simp [setThread, setSig, setPool, setFut, withFault, destroySig, upd_same, hth] at h
      subst h
      simp [weight, Thread.cont, hst, hwb, topW, fw, pcW, pw2, pw3, isCNext, upd, setThread, setSig, setPool, setFut, withFault, destroySig, *]
      try grind
    · simp [setThread, setSig, setPool, setFut, withFault, destroySig, ringTok_mk, ringTok_none, mkPool, Ring.init, cntLog_nil, *]
      try (simp [setFsState]; split <;> simp)
