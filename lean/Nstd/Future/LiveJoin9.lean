/-
  Join side of deadlock freedom, part 9: two stack facts — a wait on the enqueued signal sits directly on the
  worker loop (`Q`), and below a client-level frame there are only client-level frames (`R`).
-/
import Nstd.Future.LiveJoin8
set_option linter.unusedSimpArgs false
set_option linter.unusedVariables false
namespace Nstd.Future.LJ

/-- `_enqueuedSignal.wait()` -/
def isW0 : Frame → Bool
  | .fWait k => k == 0
  | .sWaitLock σ | .sWaitChk σ | .sWaitUnlock σ | .sWaitCwait σ | .sWaitCwake σ | .sWaitRelock σ => σ == 0
  | _ => false

def Q : List Frame → Prop
  | [] => True
  | x :: rest => (isW0 x = true → rest = [.wPop1]) ∧ Q rest

/-- frames of the client's script interpreter and of `startProc`'s prefix -/
def isCL : Frame → Bool
  | .cNext | .cEnd _ | .cStarted _ _ | .evJoined _ | .evResult _ | .destroyF _ => true
  | .cRdTp _ | .cSpin _ | .cRdTp2 _ | .cSwapTp _ | .cUnlockTp _ | .cJoin _ | .cArm _ => true
  | _ => false

def AllCL (l : List Frame) : Prop := ∀ y ∈ l, isCL y = true
theorem allCL_nil : AllCL [] := by intro y hy; cases hy
theorem allCL_cons {a : Frame} {l : List Frame} : AllCL (a :: l) ↔ isCL a = true ∧ AllCL l := by simp [AllCL]

def R : List Frame → Prop
  | [] => True
  | x :: rest => (isCL x = true → AllCL rest) ∧ R rest

theorem Q_cons {x : Frame} {rest : List Frame} : Q (x :: rest) ↔ (isW0 x = true → rest = [.wPop1]) ∧ Q rest := Iff.rfl
theorem R_cons {x : Frame} {rest : List Frame} : R (x :: rest) ↔ (isCL x = true → AllCL rest) ∧ R rest := Iff.rfl

set_option maxHeartbeats 16000000 in
theorem shapeQR (s : State) (t : Tid) (th : Thread) (fr : Frame) (rest : List Frame)
    (hth : s.threads t = some th) (hst : th.stack = fr :: rest)
    (hq : Q (fr :: rest)) (hr : R (fr :: rest)) (hlast : LastOnly (fr :: rest)) :
    ∀ th', (stepFrame s t th fr).1.threads t = some th' → Q th'.stack ∧ R th'.stack := by
  obtain ⟨hq1, hq2⟩ := Q_cons.mp hq
  obtain ⟨hr1, hr2⟩ := R_cons.mp hr
  cases fr
  case ring pc =>
    intro th' h
    have key : ∀ (l : List Frame), (l = rest ∨ ∃ pc', l = .ring pc' :: rest) → th'.stack = l →
        Q th'.stack ∧ R th'.stack := by
      intro l hl he
      rw [he]
      rcases hl with rfl | ⟨pc', rfl⟩
      · exact ⟨hq2, hr2⟩
      · exact ⟨⟨by simp [isW0], hq2⟩, ⟨by simp [isCL], hr2⟩⟩
    cases hp : s.pool with
    | none =>
      simp only [stepFrame, hp] at h
      simp [withFault, hth] at h
      subst h
      rw [hst]; exact ⟨hq, hr⟩
    | some p =>
      simp only [stepFrame, hp] at h
      rcases hrs : ringStep p.ring pc with ⟨r', res⟩
      rw [hrs] at h
      cases res with
      | cont pc' =>
        simp [setThread, upd_same] at h
        exact key _ (Or.inr ⟨pc', rfl⟩) (by subst h; simp [Thread.cont, hst])
      | pushed ok =>
        simp [setThread, upd_same] at h
        exact key _ (Or.inl rfl) (by subst h; simp [Thread.cont, hst])
      | popped o =>
        rcases o with _ | _ | j
        · simp [setThread, upd_same] at h
          exact key _ (Or.inl rfl) (by subst h; simp [Thread.cont, hst])
        · simp [setThread, withFault, upd_same] at h
          exact key _ (Or.inl rfl) (by subst h; simp [Thread.cont, hst])
        · simp [setThread, upd_same] at h
          exact key _ (Or.inl rfl) (by subst h; simp [Thread.cont, hst])
  all_goals
    simp only [isW0, isCL, Bool.false_eq_true, false_implies, forall_const, beq_iff_eq] at hq1 hr1
    simp only [stepFrame]
    repeat' split
  all_goals
    try (have hrr := lastOnly_cons_last (a := _) rfl hlast; subst hrr)
    intro th' h
    simp [setThread, setSig, setPool, setFut, withFault, destroySig, upd_same, hth] at h
    subst h
    simp only [Thread.cont, hst, List.drop_one, List.tail_cons, List.cons_append, List.nil_append]
    constructor
    · first
        | exact hq2
        | exact hq
        | (simp [Q, isW0, hq2]; try (first | exact hq1 | (intros; simp_all; done)))
    · first
        | exact hr2
        | exact hr
        | (simp [R, isCL, allCL_cons, allCL_nil, hr2]; try (first | exact hr1 | (intros; simp_all; done)))

theorem qr_step {cfg : Config} {s s' : State} {t : Tid} {o : List String} (hr : Reach cfg s)
    (ih : ∀ t th, s.threads t = some th → Q th.stack ∧ R th.stack) (hs : step s t = some (s', o)) :
    ∀ t th, s'.threads t = some th → Q th.stack ∧ R th.stack := by
  obtain ⟨th, fr, rest, hth, hst, hfin, rfl⟩ := step_inv hs
  have hSim := reach_inv hr
  have hSafe := reach_safe hr
  have hrest : NoSpec rest := by
    have := hSim.ringTopOnly t th hth
    rw [hst] at this; exact this
  have hok : StackOk (fr :: rest) := by rw [← hst]; exact hSafe.stk t th hth
  have hlast : LastOnly (fr :: rest) := by rw [← hst]; exact hSafe.last t th hth
  have hS := shapeS s t th fr rest hth hst hrest hok
  intro u thu hthu
  by_cases hu : u = t
  · subst hu
    have := ih u th hth
    rw [hst] at this
    exact shapeQR s u th fr rest hth hst this.1 this.2 hlast thu hthu
  · rcases hS.others u hu with h2 | ⟨_, h3 | ⟨sc, h3⟩⟩
    · rw [h2] at hthu; exact ih u thu hthu
    · rw [hthu] at h3; injection h3 with h3; subst h3
      simp [Q, R, isW0, isCL, allCL_cons, allCL_nil]
    · rw [hthu] at h3; injection h3 with h3; subst h3
      simp [Q, R, isW0, isCL, allCL_cons, allCL_nil]

theorem reach_qr {cfg : Config} {s : State} (h : Reach cfg s) :
    ∀ t th, s.threads t = some th → Q th.stack ∧ R th.stack := by
  induction h with
  | init =>
    intro t th hth
    simp only [State.init] at hth
    split at hth
    · injection hth with hth; subst hth; simp [Q, R, isW0, isCL, allCL_nil]
    · cases hth
  | step t hr hs ih => exact qr_step hr ih hs

theorem isCL_fw {c : Nat} {rj : Job} {y : Frame} (h : isCL y = true) (hw : 1 ≤ fw c rj y) : preArm c y = true := by
  cases y <;> simp [isCL] at h <;> simp [fw, preArm] at hw ⊢ <;> first | exact hw | (split at hw <;> simp_all) | omega

theorem R_allCL {l : List Frame} (h : R l) {pre : List Frame} {b : Frame} {post : List Frame}
    (hl : l = pre ++ b :: post) (hb : isCL b = true) : AllCL post := by
  induction pre generalizing l with
  | nil => subst hl; exact h.1 hb
  | cons a pre ih => subst hl; exact ih h.2 rfl

section
variable {cfg : Config} {s : State}

/-- a thread waiting on the enqueued signal is an idle worker: nothing below carries a token -/
theorem fw0_of_reach (h : Reach cfg s) {u : Tid} {thu : Thread} {x : Frame} {rest : List Frame}
    (hthu : s.threads u = some thu) (hst : thu.stack = x :: rest) (hk : kindA x = .wait 0) :
    ∀ fr ∈ rest, ∀ c, fw c thu.retJob fr = 0 := by
  have hq := (reach_qr h u thu hthu).1
  rw [hst] at hq
  have : isW0 x = true := by cases x <;> simp [kindA] at hk <;> subst hk <;> rfl
  have := hq.1 this
  subst this
  intro fr hfr c
  simp at hfr; subst hfr; rfl

/-- below a wait on a future signal (a client in `join()`), only frames of `startProc`'s prefix carry a token -/
theorem jt_of_reach (h : Reach cfg s) {u : Tid} {thu : Thread} {x : Frame} {rest : List Frame} {σ : Nat}
    (hthu : s.threads u = some thu) (hst : thu.stack = x :: rest) (hk : kindA x = .wait σ) (hσ : 2 ≤ σ) :
    ∀ fr ∈ rest, ∀ c, 1 ≤ fw c thu.retJob fr → preArm c fr = true := by
  have hch := (reach_inv0 h).chain u thu hthu
  have hR := (reach_qr h u thu hthu).2
  rw [hst] at hch hR
  rw [chainOk_cons, hk] at hch
  obtain ⟨h1, hch⟩ := hch
  simp only [RelO] at h1
  rcases h1 with ⟨h1, _⟩ | ⟨_, h1⟩
  · omega
  · cases rest with
    | nil => cases h1
    | cons a r1 =>
      simp only [List.head?_cons, Option.some.injEq] at h1; subst h1
      rw [chainOk_cons] at hch
      obtain ⟨h2, hch⟩ := hch
      simp only [kindA, RelO] at h2
      rcases h2 with ⟨h2, _⟩ | ⟨_, h2⟩
      · omega
      · cases r1 with
        | nil => cases h2
        | cons a2 r2 =>
          simp only [List.head?_cons, Option.some.injEq] at h2; subst h2
          rw [chainOk_cons] at hch
          obtain ⟨h3, hch⟩ := hch
          simp only [kindA, RelO] at h3
          obtain ⟨b, h3, hab⟩ := h3
          cases r2 with
          | nil => cases h3
          | cons a3 r3 =>
            simp only [List.head?_cons, Option.some.injEq] at h3; subst h3
            have hbcl : isCL a3 = true := by cases a3 <;> simp [AfterB] at hab <;> rfl
            have hall : AllCL r3 :=
              R_allCL hR (pre := [x, .sRstLock σ, .joinClr (σ - 2)]) (b := a3) (post := r3) rfl hbcl
            intro fr hfr c hw
            simp only [List.mem_cons] at hfr
            rcases hfr with rfl | rfl | rfl | hfr
            · simp [fw] at hw
            · simp [fw] at hw
            · exact isCL_fw hbcl hw
            · exact isCL_fw (hall fr hfr) hw

end

end Nstd.Future.LJ
