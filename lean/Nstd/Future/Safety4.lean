/-
  Safety of the Future/ThreadPool model, part 4: token accounting of a `push`/`pop` micro-step.
-/
import Nstd.Future.Safety3
set_option linter.unusedSimpArgs false
set_option linter.unusedVariables false
namespace Nstd.Future

/-! ### tokens inside the ring -/

theorem cntLog_push (c : Nat) (push : List Job) (pop : List (Nat × Option Job)) (d : Job) :
    cntLog c (push ++ [d]) pop ≤ cntLog c push pop + (if d = some c then 1 else 0) := by
  simp only [cntLog, List.length_append, List.length_singleton, tsum]
  have h1 : tsum push.length (fun x => if (push ++ [d])[x]? = some (some c) ∧ x ∉ pop.map Prod.fst then 1 else 0)
      = tsum push.length (fun x => if push[x]? = some (some c) ∧ x ∉ pop.map Prod.fst then 1 else 0) := by
    apply tsum_congr
    intro u hu
    simp only [List.getElem?_append_left hu]
  rw [h1]
  have h2 : (push ++ [d])[push.length]? = some d := by simp
  rw [h2]
  by_cases hd : d = some c
  · simp only [hd, if_true]; split <;> omega
  · have : ¬ (some d = some (some c) ∧ push.length ∉ pop.map Prod.fst) := by
      intro h; apply hd; injection h.1
    simp only [this, if_false, hd]; omega

theorem cntLog_pop (c : Nat) (push : List Job) (pop : List (Nat × Option Job)) (x : Nat) (data : Option Job)
    (hx : x < push.length) (hd : data = push[x]?) (hn : x ∉ pop.map Prod.fst) :
    cntLog c push (pop ++ [(x, data)]) + (if data = some (some c) then 1 else 0) = cntLog c push pop := by
  simp only [cntLog]
  have h := tsum_upd (n := push.length) (t := x)
    (f := fun y => if push[y]? = some (some c) ∧ y ∉ pop.map Prod.fst then 1 else 0)
    (g := fun y => if push[y]? = some (some c) ∧ y ∉ (pop ++ [(x, data)]).map Prod.fst then 1 else 0) hx
    (by
      intro u hu hne
      simp only [List.map_append, List.map_cons, List.map_nil, List.mem_append, List.mem_singleton, hne, or_false])
  simp only [List.map_append, List.map_cons, List.map_nil, List.mem_append, List.mem_singleton, or_true,
    not_true_eq_false, and_false, if_false, Nat.add_zero] at h
  simp only [List.map_append, List.map_cons, List.map_nil, List.mem_append, List.mem_singleton]
  rw [← hd] at h
  simp only [hn, not_false_eq_true, and_true] at h
  exact h

/-! ### returning from a queue operation -/

theorem pushPay_not_pop {pc : RingPc Job} {d : Job} (h : pushPay pc = some d) : isPop pc = false := by
  cases pc <;> first | rfl | (simp [pushPay] at h)

theorem isPop_no_pay {pc : RingPc Job} (h : isPop pc = true) : pushPay pc = none := by
  cases pc <;> first | rfl | (simp [isPop] at h)

theorem wS_ret_push {c : Nat} {rj d : Job} {rest : List Frame} {pc : RingPc Job} {b : Bool}
    (hlink : linkOk (.ring pc :: rest)) (hd : pushPay pc = some d) :
    wS c b rj rest ≤ (if b = false ∧ d = some c then 1 else 0) + base c rj rest := by
  cases rest with
  | nil => simp
  | cons g r2 =>
    have hc : compat pc g := hlink
    have hp := pushPay_not_pop hd
    simp only [wS_cons, base_cons]
    cases g <;> simp only [compat, hd, hp, Option.some.injEq, Bool.false_eq_true] at hc <;> simp [topW, fw] <;> grind

theorem fw_rj {c : Nat} {rj rj' : Job} {g : Frame} (h : isWD g = false) : fw c rj' g = fw c rj g := by
  cases g <;> first | rfl | (simp [isWD] at h)

theorem wS_ret_pop {c : Nat} {rj j' : Job} {rest : List Frame} {pc : RingPc Job} {b : Bool}
    (hlink : linkOk (.ring pc :: rest)) (hpop : isPop pc = true) (hnwd : NoWD rest) :
    wS c b j' rest ≤ (if b = true ∧ j' = some c then 1 else 0) + base c rj rest := by
  cases rest with
  | nil => simp
  | cons g r2 =>
    have hc : compat pc g := hlink
    have hp := isPop_no_pay hpop
    obtain ⟨hg, hr2⟩ := noWD_cons.mp hnwd
    simp only [wS_cons, base_cons, base_rj (rj := rj) (rj' := j') hr2]
    have hfw := fw_rj (c := c) (rj := rj) (rj' := j') hg
    cases g <;> simp only [compat, hp, reduceCtorEq] at hc <;> simp [topW, fw] at hfw ⊢ <;> grind

/-! ### the step of a ring frame -/

theorem ring_step_some {s : State} {t : Tid} {th : Thread} {pc : RingPc Job} {rest : List Frame} {p : Pool}
    (hp : s.pool = some p) (hst : th.stack = .ring pc :: rest) :
    ∃ b j k l flt, (stepFrame s t th (.ring pc)).1 =
        { setThread (setPool s { p with ring := (ringStep p.ring pc).1 }) t
            { th with stack := l, retB := b, retJob := j, jobTicket := k } with fault := flt } ∧
      ((∃ pc', (ringStep p.ring pc).2 = .cont pc' ∧ l = .ring pc' :: rest ∧ b = th.retB ∧ j = th.retJob ∧ flt = s.fault)
      ∨ (∃ ok, (ringStep p.ring pc).2 = .pushed ok ∧ l = rest ∧ b = ok ∧ j = th.retJob ∧ flt = s.fault)
      ∨ ((ringStep p.ring pc).2 = .popped none ∧ l = rest ∧ b = false ∧ j = th.retJob ∧ flt = s.fault)
      ∨ (∃ jj, (ringStep p.ring pc).2 = .popped (some (some jj)) ∧ l = rest ∧ b = true ∧ j = jj ∧ flt = s.fault)
      ∨ ((ringStep p.ring pc).2 = .popped (some none) ∧ l = rest ∧ b = true ∧ j = none ∧
          flt = some (s.fault.getD "pop read a raw slot"))) := by
  simp only [stepFrame, hp]
  rcases hrs : ringStep p.ring pc with ⟨r', res⟩
  cases res with
  | cont pc' =>
    exact ⟨th.retB, th.retJob, th.jobTicket, .ring pc' :: rest, s.fault,
      by simp [Thread.cont, hst, setThread, setPool], Or.inl ⟨pc', rfl, rfl, rfl, rfl, rfl⟩⟩
  | pushed ok =>
    exact ⟨ok, th.retJob, th.jobTicket, rest, s.fault,
      by simp [Thread.cont, hst, setThread, setPool], Or.inr (Or.inl ⟨ok, rfl, rfl, rfl, rfl, rfl⟩)⟩
  | popped o =>
    rcases o with _ | _ | jj
    · exact ⟨false, th.retJob, th.jobTicket, rest, s.fault,
        by simp [Thread.cont, hst, setThread, setPool], Or.inr (Or.inr (Or.inl ⟨rfl, rfl, rfl, rfl, rfl⟩))⟩
    · exact ⟨true, none, th.jobTicket, rest, _,
        by simp [Thread.cont, hst, setThread, setPool, withFault],
        Or.inr (Or.inr (Or.inr (Or.inr ⟨rfl, rfl, rfl, rfl, rfl⟩)))⟩
    · exact ⟨true, jj, _, rest, s.fault,
        by simp [Thread.cont, hst, setThread, setPool]; rfl,
        Or.inr (Or.inr (Or.inr (Or.inl ⟨jj, rfl, rfl, rfl, rfl, rfl⟩)))⟩

/-- token balance of one ring micro-step (thread part + ring part) -/
def tokRes (c : Nat) (rj : Job) (rest : List Frame) : RingRes Job → Nat
  | .cont pc' => pcW c pc' + base c rj rest
  | .pushed ok => wS c ok rj rest
  | .popped none => wS c false rj rest
  | .popped (some (some jj)) => wS c true jj rest
  | .popped (some none) => wS c true none rest

theorem ringStep_tok (c : Nat) (r : Ring Job) (pc : RingPc Job) (rj : Job) (rest : List Frame)
    (hlink : linkOk (.ring pc :: rest)) (hnwd : NoWD rest)
    (hF : ∀ x, pc = .popData x → (r.slots (x % r.cap)).data = r.pushLog[x]? ∧ x < r.pushLog.length ∧
      x ∉ r.popLog.map Prod.fst) :
    tokRes c rj rest (ringStep r pc).2 + cntLog c (ringStep r pc).1.pushLog (ringStep r pc).1.popLog ≤
      pcW c pc + base c rj rest + cntLog c r.pushLog r.popLog := by
  cases pc with
  | pushRead d => simp [ringStep, tokRes, pcW]
  | pushChk d x =>
    simp only [ringStep]
    split
    · have := wS_ret_push (c := c) (rj := rj) (b := false) hlink rfl
      simp [tokRes, pcW] at this ⊢; omega
    · simp [tokRes, pcW]
  | pushCas d x =>
    simp only [ringStep]
    split
    · have := cntLog_push c r.pushLog r.popLog d
      simp [tokRes, pcW]; omega
    · simp [tokRes, pcW]
  | pushData d x => simp [ringStep, tokRes, pcW, Ring.setSlot]
  | pushPub d x =>
    have := wS_ret_push (c := c) (rj := rj) (b := true) hlink rfl
    simp [ringStep, tokRes, pcW, Ring.setSlot] at this ⊢; omega
  | popRead => simp [ringStep, tokRes, pcW]
  | popChk x =>
    simp only [ringStep]
    split
    · have := wS_ret_pop (c := c) (rj := rj) (j' := rj) (b := false) hlink rfl hnwd
      simp [tokRes, pcW] at this ⊢; omega
    · simp [tokRes, pcW]
  | popCas x =>
    simp only [ringStep]
    split <;> simp [tokRes, pcW]
  | popData x =>
    obtain ⟨h1, h2, h3⟩ := hF x rfl
    have := cntLog_pop c r.pushLog r.popLog x _ h2 h1 h3
    simp [ringStep, tokRes, pcW, Ring.setSlot]; omega
  | popRel x d =>
    rcases d with _ | jj
    · have := wS_ret_pop (c := c) (rj := rj) (j' := none) (b := true) hlink rfl hnwd
      simp [ringStep, tokRes, pcW, Ring.setSlot] at this ⊢; omega
    · have := wS_ret_pop (c := c) (rj := rj) (j' := jj) (b := true) hlink rfl hnwd
      simp [ringStep, tokRes, pcW, Ring.setSlot] at this ⊢; omega

theorem ringStep_raw {r : Ring Job} {pc : RingPc Job} (h : (ringStep r pc).2 = .popped (some none)) :
    ∃ x, pc = .popRel x none := by
  cases pc <;> simp only [ringStep] at h
  all_goals first
    | (split at h <;> cases h)
    | (cases h; done)
    | skip
  case popRel x d =>
    injection h with h; injection h with h; subst h; exact ⟨x, rfl⟩

structure ShapeR (s s' : State) (t : Tid) (th : Thread) (pc : RingPc Job) (rest : List Frame) : Prop where
  tok : ∀ c th', s'.threads t = some th' → weight c th' + ringTok c s'.pool ≤ weight c th + ringTok c s.pool
  stk : ∀ th', s'.threads t = some th' → th'.stack = rest ∨ ∃ pc', th'.stack = .ring pc' :: rest
  ghost : s'.freeCount = s.freeCount ∧ s'.execCount = s.execCount ∧ s'.completed = s.completed ∧
    s'.nextCall = s.nextCall ∧ s'.calls = s.calls ∧ s'.everCalls = s.everCalls ∧ s'.execArgs = s.execArgs
  flt : s'.fault = s.fault ∨ ∃ x, pc = .popRel x none

theorem shapeR {s : State} {t : Tid} {th : Thread} {pc : RingPc Job} {rest : List Frame} {p : Pool}
    (hp : s.pool = some p) (hth : s.threads t = some th) (hst : th.stack = .ring pc :: rest)
    (hok : StackOk (.ring pc :: rest))
    (hF : ∀ x, pc = .popData x → (p.ring.slots (x % p.ring.cap)).data = p.ring.pushLog[x]? ∧
      x < p.ring.pushLog.length ∧ x ∉ p.ring.popLog.map Prod.fst) :
    ShapeR s (stepFrame s t th (.ring pc)).1 t th pc rest := by
  obtain ⟨b, j, k, l, flt, hs', hcase⟩ := ring_step_some (t := t) hp hst
  rw [hs']
  have hnwd := (stackOk_ring hok).2
  constructor
  · intro c th' h
    simp [setThread, upd_same] at h
    subst h
    have key := ringStep_tok c p.ring pc th.retJob rest hok.link hnwd hF
    simp only [weight, hst, wS_cons, setThread, setPool, ringTok_mk, hp]
    have htw : topW c th.retB th.retJob (.ring pc) = pcW c pc := rfl
    rw [htw]
    rcases hcase with ⟨pc', h1, rfl, rfl, rfl, rfl⟩ | ⟨ok, h1, rfl, rfl, rfl, rfl⟩ | ⟨h1, rfl, rfl, rfl, rfl⟩ |
      ⟨jj, h1, rfl, rfl, rfl, rfl⟩ | ⟨h1, rfl, rfl, rfl, rfl⟩
    all_goals
      rw [h1] at key
      simp only [tokRes] at key
      first | exact key | (simp only [wS_cons]; exact key)
  · intro th' h
    simp [setThread, upd_same] at h
    subst h
    rcases hcase with ⟨pc', h1, rfl, rfl, rfl, rfl⟩ | ⟨ok, h1, rfl, rfl, rfl, rfl⟩ | ⟨h1, rfl, rfl, rfl, rfl⟩ |
      ⟨jj, h1, rfl, rfl, rfl, rfl⟩ | ⟨h1, rfl, rfl, rfl, rfl⟩
    · exact Or.inr ⟨pc', rfl⟩
    all_goals exact Or.inl rfl
  · exact ⟨rfl, rfl, rfl, rfl, rfl, rfl, rfl⟩
  · rcases hcase with ⟨pc', h1, rfl, rfl, rfl, rfl⟩ | ⟨ok, h1, rfl, rfl, rfl, rfl⟩ | ⟨h1, rfl, rfl, rfl, rfl⟩ |
      ⟨jj, h1, rfl, rfl, rfl, rfl⟩ | ⟨h1, rfl, rfl, rfl, rfl⟩
    · exact Or.inl rfl
    · exact Or.inl rfl
    · exact Or.inl rfl
    · exact Or.inl rfl
    · exact Or.inr (ringStep_raw h1)

end Nstd.Future
