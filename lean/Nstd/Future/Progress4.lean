/-
  Progress lemmas, part 4: `ThreadPool::_threads` (`Pool.ctxs`).  A ThreadContext marked `terminated` belongs to a
  worker that is at `pthread_exit` or has finished (`CtxInv.term`), hence `cleanup`'s `join` under the pool mutex
  (`cleanJoin i w`) never waits for a thread that still needs anything (`CtxInv.join`).
  Needs: context ids are unique (`idlt`, `pendlt`, `pendUniq`: the id handed out by `runSpChk` is fresh and is
  carried by exactly one thread until `runSpStart` has started the worker, `pendFresh`).
-/
import Nstd.Future.Progress3
set_option linter.unusedSimpArgs false
set_option linter.unusedVariables false
namespace Nstd.Future

/-- `run` has created ThreadContext `k` and not yet started its thread -/
def pendK : Frame → Option Nat
  | .runSpUnlock (some k) => some k
  | .runSpStart k => some k
  | _ => none

/-- frames that carry a fact about `_threads` and occur only on top of a stack -/
def topOnly : Frame → Bool
  | .runSpUnlock _ | .runSpStart _ | .cleanJoin _ _ => true
  | _ => false

/-- frames whose step can put a `topOnly` frame on top -/
def topSrc : Frame → Bool
  | .runSpChk | .runSpUnlock _ | .cleanAt _ | .runSpStart _ | .cleanJoin _ _ => true
  | _ => false

/-- frames whose step changes `_threads` (`ctxs`) -/
def ctxTouch : Frame → Bool
  | .runSpChk | .runSpStart _ | .cleanAt _ | .cleanJoin _ _ | .wTerm => true
  | _ => false

def NoTO (l : List Frame) : Prop := ∀ f ∈ l, topOnly f = false
theorem noTO_nil : NoTO [] := by intro f hf; cases hf
theorem noTO_cons {a : Frame} {l : List Frame} : NoTO (a :: l) ↔ topOnly a = false ∧ NoTO l := by
  simp [NoTO]
theorem NoTO.tail {l : List Frame} (h : NoTO l) : NoTO l.tail :=
  fun f hf => h f (List.mem_of_mem_tail hf)

structure Shape6 (s s' : State) (t : Tid) (fr : Frame) (rest : List Frame) : Prop where
  plainTop : topSrc fr = false → NoTO rest → ∃ th', s'.threads t = some th' ∧ NoTO th'.stack
  same : ctxTouch fr = false → ∀ p', s'.pool = some p' →
      (p'.ctxs = [] ∧ p'.nextCtx = 0 ∧ (fr = .mInit ∨ s.tp = false)) ∨
      (∃ p, s.pool = some p ∧ p'.ctxs = p.ctxs ∧ p'.nextCtx = p.nextCtx)

theorem setFsState_ctxs (p : Pool) (fs v : Nat) : (setFsState p fs v).ctxs = p.ctxs := by
  simp only [setFsState]; split <;> rfl
theorem setFsState_nextCtx (p : Pool) (fs v : Nat) : (setFsState p fs v).nextCtx = p.nextCtx := by
  simp only [setFsState]; split <;> rfl

set_option maxHeartbeats 8000000 in
theorem shape6 (s : State) (t : Tid) (th : Thread) (fr : Frame) (rest : List Frame)
    (hth : s.threads t = some th) (hst : th.stack = fr :: rest) :
    Shape6 s (stepFrame s t th fr).1 t fr rest := by
  cases fr <;> simp only [stepFrame] <;> repeat' split
  all_goals
    constructor
    · intro hl hb
      simp [topSrc] at hl <;>
      simp [setThread, setSig, setPool, setFut, withFault, destroySig, upd_same, Thread.cont, hst, hth, hb,
        topOnly, noTO_cons, noTO_nil]
    · intro hl
      simp [ctxTouch] at hl <;>
      simp [setThread, setSig, setPool, setFut, withFault, destroySig, setFsState_ctxs, setFsState_nextCtx] <;>
      try (first | (intro p' hp'; right; exact ⟨_, hp', rfl, rfl⟩) | (right; exact ⟨_, by assumption, rfl, rfl⟩)
                 | (left; simp_all [mkPool]; done))

/-- where a ThreadContext of the new state comes from -/
def CtxOrigin (s : State) (t : Tid) (fr : Frame) (p : Pool) (n' : Nat) (c' : Ctx) : Prop :=
  c' ∈ p.ctxs ∨ (fr = .runSpChk ∧ c' = ⟨p.nextCtx, none, false⟩ ∧ n' = p.nextCtx + 1) ∨
  (∃ k c, fr = .runSpStart k ∧ c ∈ p.ctxs ∧ c.id = k ∧ c' = { c with tid := some s.nthreads }) ∨
  (∃ c, fr = .wTerm ∧ c ∈ p.ctxs ∧ c.tid = some t ∧ c' = { c with terminated := true })

def PoolRel (s s' : State) (t : Tid) (fr : Frame) : Prop :=
  ∀ p', s'.pool = some p' →
    (p'.ctxs = [] ∧ p'.nextCtx = 0 ∧ (fr = .mInit ∨ s.tp = false)) ∨
    ∃ p, s.pool = some p ∧ (p'.nextCtx = p.nextCtx ∨ (fr = .runSpChk ∧ p'.nextCtx = p.nextCtx + 1)) ∧
      ∀ c' ∈ p'.ctxs, CtxOrigin s t fr p p'.nextCtx c'

def TopRel (s s' : State) (t : Tid) (fr f : Frame) : Prop :=
  (∃ k, fr = .runSpUnlock (some k) ∧ f = .runSpStart k) ∨
  (fr = .runSpChk ∧ (f = .runSpUnlock none ∨
      ∃ p p', s.pool = some p ∧ s'.pool = some p' ∧ f = .runSpUnlock (some p.nextCtx) ∧ p'.nextCtx = p.nextCtx + 1 ∧
        p'.ctxs = p.ctxs ++ [⟨p.nextCtx, none, false⟩])) ∨
  (∃ i w p c, fr = .cleanAt i ∧ f = .cleanJoin i w ∧ s.pool = some p ∧ s'.pool = some p ∧ p.ctxs[i]? = some c ∧
      c ∈ p.ctxs ∧ c.terminated = true ∧ c.tid = some w) ∨
  (f = fr ∧ s'.pool = none)

theorem poolRel_of_same {s s' : State} {t : Tid} {fr : Frame}
    (h : ∀ p', s'.pool = some p' →
      (p'.ctxs = [] ∧ p'.nextCtx = 0 ∧ (fr = .mInit ∨ s.tp = false)) ∨
      (∃ p, s.pool = some p ∧ p'.ctxs = p.ctxs ∧ p'.nextCtx = p.nextCtx)) : PoolRel s s' t fr := by
  intro p' hp'
  rcases h p' hp' with h1 | ⟨p, h1, h2, h3⟩
  · exact Or.inl h1
  · exact Or.inr ⟨p, h1, Or.inl h3, fun c' hc' => Or.inl (by rw [← h2]; exact hc')⟩

theorem cont_stack1 {th : Thread} {fr : Frame} {rest : List Frame} (x : Frame) (hst : th.stack = fr :: rest) :
    (th.cont [x]).stack = x :: rest := by simp [Thread.cont, hst]

def CtxRes (s s' : State) (t : Tid) (fr : Frame) : Prop :=
  PoolRel s s' t fr ∧ ∃ th', s'.threads t = some th' ∧ NoTO th'.stack.tail ∧
    ∀ f, th'.stack.head? = some f → topOnly f = true → TopRel s s' t fr f

theorem res_push {s s' : State} {t : Tid} {fr x : Frame} {rest : List Frame} {th' : Thread}
    (hpool : PoolRel s s' t fr) (hth' : s'.threads t = some th') (hstack : th'.stack = x :: rest)
    (hrest : NoTO rest) (htop : topOnly x = true → TopRel s s' t fr x) : CtxRes s s' t fr := by
  refine ⟨hpool, th', hth', by rw [hstack]; exact hrest, ?_⟩
  intro f hf hto
  rw [hstack] at hf; simp only [List.head?_cons, Option.some.injEq] at hf; subst hf
  exact htop hto

theorem res_pop {s s' : State} {t : Tid} {fr : Frame} {rest : List Frame} {th' : Thread}
    (hpool : PoolRel s s' t fr) (hth' : s'.threads t = some th') (hstack : th'.stack = rest)
    (hrest : NoTO rest) : CtxRes s s' t fr := by
  refine ⟨hpool, th', hth', by rw [hstack]; exact hrest.tail, ?_⟩
  intro f hf hto
  rw [hstack] at hf
  cases rest with
  | nil => cases hf
  | cons a l =>
    simp only [List.head?_cons, Option.some.injEq] at hf; subst hf
    rw [hrest _ (List.mem_cons_self ..)] at hto; cases hto

theorem poolRel_refl {s s' : State} {t : Tid} {fr : Frame} (h : s'.pool = s.pool) : PoolRel s s' t fr := by
  intro p' hp'
  rw [h] at hp'
  exact Or.inr ⟨p', hp', Or.inl rfl, fun c' hc' => Or.inl hc'⟩

theorem poolRel_sub {s s' : State} {t : Tid} {fr : Frame} {p p' : Pool} (hp : s.pool = some p) (hp' : s'.pool = some p')
    (hn : p'.nextCtx = p.nextCtx) (hsub : ∀ c' ∈ p'.ctxs, CtxOrigin s t fr p p'.nextCtx c') : PoolRel s s' t fr := by
  intro p2 hp2
  rw [hp'] at hp2; injection hp2 with hp2; subst hp2
  exact Or.inr ⟨p, hp, Or.inl hn, hsub⟩

/-- the facts about `_threads` and the `topOnly` frames for one micro-step -/
theorem ctxStep_of (s : State) (t : Tid) (th : Thread) (fr : Frame) (rest : List Frame)
    (hth : s.threads t = some th) (hst : th.stack = fr :: rest) (hrest : NoTO rest) :
    CtxRes s (stepFrame s t th fr).1 t fr := by
  have h6 := shape6 s t th fr rest hth hst
  have hpoolGen : ctxTouch fr = false → PoolRel s (stepFrame s t th fr).1 t fr := fun h => poolRel_of_same (h6.same h)
  have htopGen : topSrc fr = false → ∃ th', (stepFrame s t th fr).1.threads t = some th' ∧ NoTO th'.stack.tail ∧
      ∀ f, th'.stack.head? = some f → topOnly f = true → TopRel s (stepFrame s t th fr).1 t fr f := by
    intro h
    obtain ⟨th', h1, h2⟩ := h6.plainTop h hrest
    refine ⟨th', h1, h2.tail, ?_⟩
    intro f hf hto
    cases hs : th'.stack with
    | nil => rw [hs] at hf; cases hf
    | cons a l =>
      rw [hs] at hf; simp only [List.head?_cons, Option.some.injEq] at hf; subst hf
      rw [h2 _ (by rw [hs]; exact List.mem_cons_self ..)] at hto; cases hto
  -- the fault case of a pool frame
  have hfault : s.pool = none → CtxRes s (withFault s "no pool") t fr := by
    intro hp
    refine ⟨?_, th, hth, by rw [hst]; exact hrest, ?_⟩
    · intro p' hp'
      have : (withFault s "no pool").pool = s.pool := rfl
      rw [this, hp] at hp'; cases hp'
    · intro f hf _
      rw [hst] at hf; simp only [List.head?_cons, Option.some.injEq] at hf
      exact Or.inr (Or.inr (Or.inr ⟨hf.symm, hp⟩))
  have hc0 : (th.cont []).stack = rest := cont_nil hst
  cases hct : ctxTouch fr with
  | false =>
    cases hts : topSrc fr with
    | false => exact ⟨hpoolGen hct, htopGen hts⟩
    | true =>
      have hpg := hpoolGen hct
      cases fr <;> simp [topSrc] at hts <;> simp [ctxTouch] at hct
      case runSpUnlock ctx =>
        cases hp : s.pool with
        | none =>
          have e : (stepFrame s t th (.runSpUnlock ctx)).1 = withFault s "no pool" := by simp [stepFrame, hp]
          rw [e]; exact hfault hp
        | some p =>
          cases ctx with
          | none =>
            have e : (stepFrame s t th (.runSpUnlock none)).1.threads t = some (th.cont []) := by
              simp [stepFrame, hp, setThread, upd_same]
            exact res_pop hpg e hc0 hrest
          | some k =>
            have e : (stepFrame s t th (.runSpUnlock (some k))).1.threads t = some (th.cont [.runSpStart k]) := by
              simp [stepFrame, hp, setThread, upd_same]
            exact res_push hpg e (cont_stack1 _ hst) hrest (fun _ => Or.inl ⟨k, rfl, rfl⟩)
  | true =>
    cases fr <;> simp [ctxTouch] at hct
    case runSpChk =>
      cases hp : s.pool with
      | none =>
        have e : (stepFrame s t th .runSpChk).1 = withFault s "no pool" := by simp [stepFrame, hp]
        rw [e]; exact hfault hp
      | some p =>
        by_cases hlt : p.threadCount < p.maxT
        · have e : (stepFrame s t th .runSpChk).1 = setThread (setPool s { p with threadCount := p.threadCount + 1, nextCtx := p.nextCtx + 1, ctxs := p.ctxs ++ [{ id := p.nextCtx, tid := none, terminated := false }] }) t (th.cont [.runSpUnlock (some p.nextCtx)]) := by simp [stepFrame, hp, hlt]
          rw [e]
          refine res_push ?_ (upd_same _ _ _) (cont_stack1 _ hst) hrest ?_
          · intro p' hp'
            simp only [setThread, setPool, Option.some.injEq] at hp'
            subst hp'
            refine Or.inr ⟨p, hp, Or.inr ⟨rfl, rfl⟩, ?_⟩
            intro c' hc'
            simp only [List.mem_append, List.mem_singleton] at hc'
            rcases hc' with hc' | hc'
            · exact Or.inl hc'
            · exact Or.inr (Or.inl ⟨rfl, hc', rfl⟩)
          · intro _
            exact Or.inr (Or.inl ⟨rfl, Or.inr ⟨p, _, hp, rfl, rfl, rfl, rfl⟩⟩)
        · have e : (stepFrame s t th .runSpChk).1 = setThread s t (th.cont [.runSpUnlock none]) := by
            simp [stepFrame, hp, hlt]
          rw [e]
          exact res_push (poolRel_refl rfl) (upd_same _ _ _) (cont_stack1 _ hst) hrest
            (fun _ => Or.inr (Or.inl ⟨rfl, Or.inl rfl⟩))
    case runSpStart k =>
      cases hp : s.pool with
      | none =>
        have e : (stepFrame s t th (.runSpStart k)).1 = withFault s "no pool" := by simp [stepFrame, hp]
        rw [e]; exact hfault hp
      | some p =>
        refine res_push (th' := th.cont [.runSpawned s.nthreads]) (x := .runSpawned s.nthreads) ?_ ?_ (cont_stack1 _ hst) hrest ?_
        · refine poolRel_sub hp (p' := { p with ctxs := p.ctxs.map (fun c => if c.id = k then { c with tid := some s.nthreads } else c) })
            (by simp [stepFrame, hp, setThread, setPool]) rfl ?_
          intro c' hc'
          simp only [List.mem_map] at hc'
          obtain ⟨c, hc, rfl⟩ := hc'
          by_cases hk : c.id = k
          · subst hk
            simp only [if_true]
            exact Or.inr (Or.inr (Or.inl ⟨c.id, c, rfl, hc, rfl, rfl⟩))
          · simp only [hk, if_false]; exact Or.inl hc
        · simp [stepFrame, hp, setThread, upd_same]
        · intro h; cases h
    case cleanAt i =>
      cases hp : s.pool with
      | none =>
        have e : (stepFrame s t th (.cleanAt i)).1 = withFault s "no pool" := by simp [stepFrame, hp]
        rw [e]; exact hfault hp
      | some p =>
        cases hi : p.ctxs[i]? with
        | none =>
          have e : (stepFrame s t th (.cleanAt i)).1 = setThread s t (th.cont []) := by simp [stepFrame, hp, hi]
          rw [e]; exact res_pop (poolRel_refl rfl) (upd_same _ _ _) hc0 hrest
        | some c =>
          have hcm : c ∈ p.ctxs := List.mem_of_getElem? hi
          cases hterm : c.terminated with
          | false =>
            have e : (stepFrame s t th (.cleanAt i)).1 = setThread s t (th.cont [.cleanAt (i + 1)]) := by
              simp [stepFrame, hp, hi, hterm]
            rw [e]
            exact res_push (poolRel_refl rfl) (upd_same _ _ _) (cont_stack1 _ hst) hrest (by intro h; cases h)
          | true =>
            cases htid : c.tid with
            | some w =>
              have e : (stepFrame s t th (.cleanAt i)).1 = setThread s t (th.cont [.cleanJoin i w]) := by
                simp [stepFrame, hp, hi, hterm, htid]
              rw [e]
              exact res_push (poolRel_refl rfl) (upd_same _ _ _) (cont_stack1 _ hst) hrest
                (fun _ => Or.inr (Or.inr (Or.inl ⟨i, w, p, c, rfl, rfl, hp, hp, hi, hcm, hterm, htid⟩)))
            | none =>
              have e : (stepFrame s t th (.cleanAt i)).1 = setThread (setPool s { p with ctxs := p.ctxs.eraseIdx i }) t (th.cont [.cleanAt i]) := by
                simp [stepFrame, hp, hi, hterm, htid]
              rw [e]
              refine res_push ?_ (upd_same _ _ _) (cont_stack1 _ hst) hrest (by intro h; cases h)
              exact poolRel_sub hp (p' := { p with ctxs := p.ctxs.eraseIdx i }) rfl rfl
                (fun c' hc' => Or.inl (List.mem_of_mem_eraseIdx hc'))
    case cleanJoin i w =>
      cases hp : s.pool with
      | none =>
        have e : (stepFrame s t th (.cleanJoin i w)).1 = withFault s "no pool" := by simp [stepFrame, hp]
        rw [e]; exact hfault hp
      | some p =>
        have e : (stepFrame s t th (.cleanJoin i w)).1 = setThread (setPool s { p with ctxs := p.ctxs.eraseIdx i }) t (th.cont [.cleanAt i]) := by
          simp [stepFrame, hp]
        rw [e]
        refine res_push ?_ (upd_same _ _ _) (cont_stack1 _ hst) hrest (by intro h; cases h)
        exact poolRel_sub hp (p' := { p with ctxs := p.ctxs.eraseIdx i }) rfl rfl
          (fun c' hc' => Or.inl (List.mem_of_mem_eraseIdx hc'))
    case wTerm =>
      cases hp : s.pool with
      | none =>
        have e : (stepFrame s t th .wTerm).1 = withFault s "no pool" := by simp [stepFrame, hp]
        rw [e]; exact hfault hp
      | some p =>
        have e : (stepFrame s t th .wTerm).1 = setThread (setPool s { p with ctxs := p.ctxs.map (fun c => if c.tid = some t then { c with terminated := true } else c) }) t (th.cont [.tExit]) := by
          simp [stepFrame, hp]
        rw [e]
        refine res_push ?_ (upd_same _ _ _) (cont_stack1 _ hst) hrest (by intro h; cases h)
        refine poolRel_sub hp (p' := { p with ctxs := p.ctxs.map (fun c => if c.tid = some t then { c with terminated := true } else c) }) rfl rfl ?_
        intro c' hc'
        simp only [List.mem_map] at hc'
        obtain ⟨c, hc, rfl⟩ := hc'
        by_cases hk : c.tid = some t
        · simp only [hk, if_true]
          exact Or.inr (Or.inr (Or.inr ⟨c, rfl, hc, hk, by simp [hk]⟩))
        · simp only [hk, if_false]; exact Or.inl hc

/-! ### the invariant -/

/-- thread `w` has left its code: it is at `pthread_exit` or has finished -/
def Exiting (s : State) (w : Tid) : Prop :=
  ∃ th, s.threads w = some th ∧ (th.finished = true ∨ th.stack.head? = some .tExit)

structure CtxInv (s : State) : Prop where
  noTO : ∀ t th, s.threads t = some th → NoTO th.stack.tail
  term : ∀ p c, s.pool = some p → c ∈ p.ctxs → c.terminated = true → ∃ w, c.tid = some w ∧ Exiting s w
  idlt : ∀ p c, s.pool = some p → c ∈ p.ctxs → c.id < p.nextCtx
  pendlt : ∀ p t f k, s.pool = some p → topFrame s t = some f → pendK f = some k → k < p.nextCtx
  pendFresh : ∀ p t f k c, s.pool = some p → topFrame s t = some f → pendK f = some k → c ∈ p.ctxs → c.id = k →
      c.tid = none ∧ c.terminated = false
  pendUniq : ∀ p t u a b k, s.pool = some p → t ≠ u → topFrame s t = some a → topFrame s u = some b →
      pendK a = some k → pendK b = some k → False
  join : ∀ t i w, topFrame s t = some (.cleanJoin i w) → Exiting s w

theorem topFrame_cons {s : State} {t : Tid} {fr : Frame} (h : topFrame s t = some fr) :
    ∃ th rest, s.threads t = some th ∧ th.stack = fr :: rest := by
  simp only [topFrame] at h
  split at h
  · next th hth =>
    cases hst : th.stack with
    | nil => rw [hst] at h; cases h
    | cons a l =>
      rw [hst] at h; simp only [List.head?_cons, Option.some.injEq] at h; subst h
      exact ⟨th, l, hth, hst⟩
  · cases h

theorem pendK_topOnly {f : Frame} {k : Nat} (h : pendK f = some k) : topOnly f = true := by
  cases f <;> first | rfl | (simp [pendK] at h)

theorem prePool_pendK {f : Frame} (h : prePool f = true) : pendK f = none := by
  cases f <;> first | rfl | (simp [prePool] at h)

theorem ctxInv_init (cfg : Config) : CtxInv (State.init cfg) := by
  have htop : ∀ u fr, topFrame (State.init cfg) u = some fr → fr = .mInit := topFrame_init cfg
  refine ⟨?_, ?_, ?_, ?_, ?_, ?_, ?_⟩
  · intro t th h
    simp only [State.init] at h
    split at h
    · injection h with h; subst h; exact noTO_nil
    · cases h
  · intro p c h; simp [State.init] at h
  · intro p c h; simp [State.init] at h
  · intro p t f k h; simp [State.init] at h
  · intro p t f k c h; simp [State.init] at h
  · intro p t u a b k h; simp [State.init] at h
  · intro t i w h; have := htop t _ h; cases this

theorem ctxInv_step {cfg : Config} {s s' : State} {t : Tid} {o : List String}
    (hr : Reach cfg s) (hr' : Reach cfg s') (hI : CtxInv s) (h : step s t = some (s', o)) : CtxInv s' := by
  obtain ⟨th, fr, rest, hth, hst, hnf, hblk, rfl⟩ := step_inv2 h
  have hS := reach_inv hr
  have h4 := shape4 s t th fr rest hth hst
  have hfresh : s.threads s.nthreads = none := hS.fresh _ (Nat.le_refl _)
  have hrest : NoTO rest := by
    have := hI.noTO t th hth; rw [hst] at this; exact this
  obtain ⟨hpool, th', hth', htl', htopRel⟩ := ctxStep_of s t th fr rest hth hst hrest
  have htopS : topFrame s t = some fr := by rw [topFrame_of hth, hst]; rfl
  -- (F1) the other threads
  have hoth : ∀ u, u ≠ t → topFrame (stepFrame s t th fr).1 u = topFrame s u ∨
      (topFrame s u = none ∧ topFrame (stepFrame s t th fr).1 u = some .tStart) := by
    intro u hu
    rcases h4.others u hu with h2 | ⟨h2, thw, h3, _, h5⟩
    · left; simp only [topFrame, h2]
    · right
      have h2' : (u : Nat) = s.nthreads := h2
      refine ⟨?_, ?_⟩
      · simp only [topFrame, h2', hfresh]
      · rw [topFrame_of h3]
        rcases h5 with h5 | ⟨h5, _⟩ <;> rw [h5] <;> rfl
  have hback : ∀ u f, u ≠ t → topFrame (stepFrame s t th fr).1 u = some f → topOnly f = true → topFrame s u = some f := by
    intro u f hu hf hto
    rcases hoth u hu with h1 | ⟨_, h1⟩
    · rw [← h1]; exact hf
    · rw [hf] at h1; injection h1 with h1; subst h1; cases hto
  -- (F2) an exiting thread stays exiting
  have hexit : ∀ w, Exiting s w → Exiting (stepFrame s t th fr).1 w := by
    intro w ⟨thw, h1, h2⟩
    by_cases hw : w = t
    · subst hw
      rw [hth] at h1; injection h1 with h1; subst h1
      rcases h2 with h2 | h2
      · rw [hnf] at h2; cases h2
      · rw [hst] at h2; simp only [List.head?_cons, Option.some.injEq] at h2; subst h2
        exact ⟨{ th with stack := [], finished := true }, by simp [stepFrame, setThread, upd_same], Or.inl rfl⟩
    · rcases h4.others w hw with h3 | ⟨h3, _⟩
      · exact ⟨thw, by rw [h3]; exact h1, h2⟩
      · have h3' : (w : Nat) = s.nthreads := h3
        rw [h3', hfresh] at h1; cases h1
  -- the new top of `t`, when it is a `topOnly` frame
  have htopT : ∀ f, topFrame (stepFrame s t th fr).1 t = some f → topOnly f = true →
      TopRel s (stepFrame s t th fr).1 t fr f := by
    intro f hf hto
    rw [topFrame_of hth'] at hf
    exact htopRel f hf hto
  have hpendNew : ∀ p' f k, (stepFrame s t th fr).1.pool = some p' → topFrame (stepFrame s t th fr).1 t = some f →
      pendK f = some k →
      fr = .runSpUnlock (some k) ∨ (fr = .runSpChk ∧ ∃ p, s.pool = some p ∧ k = p.nextCtx ∧ p'.nextCtx = p.nextCtx + 1) := by
    intro p' f k hp' hf hk
    rcases htopT f hf (pendK_topOnly hk) with ⟨k0, h1, h2⟩ | ⟨h1, h2 | ⟨p, p2, h2, h3, h4', h5, _⟩⟩ | ⟨i, w, p, c, _, h2, _⟩ | ⟨_, h2⟩
    · subst h2; simp only [pendK, Option.some.injEq] at hk; subst hk; exact Or.inl h1
    · subst h2; simp [pendK] at hk
    · subst h4'; simp only [pendK, Option.some.injEq] at hk; subst hk
      rw [hp'] at h3; injection h3 with h3; subst h3
      exact Or.inr ⟨h1, p, h2, rfl, h5⟩
    · subst h2; simp [pendK] at hk
    · rw [hp'] at h2; cases h2
  -- (F4) a pool created by this step: no thread is at a pending-context frame
  have hnoPend : ∀ p', (stepFrame s t th fr).1.pool = some p' → (fr = .mInit ∨ s.tp = false) →
      (∀ p, s.pool = some p → False) ∨ True →
      ∀ u f k, topFrame (stepFrame s t th fr).1 u = some f → pendK f = some k → False := by
    intro p' hp' hc _ u f k hf hk
    have hpre : ∀ v thv, s.threads v = some thv → AllPre thv.stack := by
      rcases hc with hc | hc
      · have := hS.initOnly t th hth (by rw [hst, hc]; rfl)
        intro v thv hv
        rw [this] at hv
        simp only [State.init] at hv
        split at hv
        · injection hv with hv; subst hv; simp [allPre_cons, allPre_nil, prePool]
        · cases hv
      · have halive : poolAlive s := (shape1 s t th fr rest hth hst hnf (by
          have := hS.ringTopOnly t th hth; rw [hst] at this; exact this)).live (pool_alive hr' hp')
        exact (hS.early halive hc).pre
    have hfrpre : prePool fr = true := by
      have := hpre t th hth; rw [hst, allPre_cons] at this; exact this.1
    by_cases hu : u = t
    · subst hu
      rcases hpendNew p' f k hp' hf hk with h1 | ⟨h1, _⟩ <;> rw [h1] at hfrpre <;> simp [prePool] at hfrpre
    · have h1 := hback u f hu hf (pendK_topOnly hk)
      obtain ⟨thu, restu, h2, h3⟩ := topFrame_cons h1
      have := hpre u thu h2; rw [h3, allPre_cons] at this
      rw [prePool_pendK this.1] at hk; cases hk
  refine ⟨?_, ?_, ?_, ?_, ?_, ?_, ?_⟩
  · -- noTO
    intro u thu hthu
    by_cases hu : u = t
    · subst hu; rw [hth'] at hthu; injection hthu with hthu; subst hthu; exact htl'
    · rcases h4.others u hu with h2 | ⟨h2, thw, h3, _, h5⟩
      · rw [h2] at hthu; exact hI.noTO u thu hthu
      · rw [hthu] at h3; injection h3 with h3; subst h3
        rcases h5 with h5 | ⟨h5, _⟩ <;> rw [h5] <;> simp [noTO_cons, noTO_nil, topOnly]
  · -- term
    intro p' c' hp' hc' hterm
    rcases hpool p' hp' with ⟨h1, _⟩ | ⟨p, hp, hn, horig⟩
    · rw [h1] at hc'; cases hc'
    · rcases horig c' hc' with h1 | ⟨_, h1, _⟩ | ⟨k, c, h1, h2, h3, h4'⟩ | ⟨c, h1, h2, h3, h4'⟩
      · obtain ⟨w, h5, h6⟩ := hI.term p c' hp h1 hterm
        exact ⟨w, h5, hexit w h6⟩
      · subst h1; cases hterm
      · subst h4'
        have := (hI.pendFresh p t fr k c hp htopS (by rw [h1]; rfl) h2 h3).2
        rw [this] at hterm; cases hterm
      · subst h4'
        refine ⟨t, h3, ?_⟩
        subst h1
        exact ⟨th.cont [.tExit], by simp [stepFrame, hp, setThread, upd_same], Or.inr rfl⟩
  · -- idlt
    intro p' c' hp' hc'
    rcases hpool p' hp' with ⟨h1, _⟩ | ⟨p, hp, hn, horig⟩
    · rw [h1] at hc'; cases hc'
    · have hle : p.nextCtx ≤ p'.nextCtx := by rcases hn with hn | ⟨_, hn⟩ <;> omega
      rcases horig c' hc' with h1 | ⟨_, h1, h2⟩ | ⟨k, c, h1, h2, h3, h4'⟩ | ⟨c, h1, h2, h3, h4'⟩
      · have := hI.idlt p c' hp h1; omega
      · subst h1; simp only; omega
      · subst h4'; have := hI.idlt p c hp h2; simp only; omega
      · subst h4'; have := hI.idlt p c hp h2; simp only; omega
  · -- pendlt
    intro p' u f k hp' hf hk
    rcases hpool p' hp' with ⟨_, _, h1⟩ | ⟨p, hp, hn, horig⟩
    · exact (hnoPend p' hp' h1 (Or.inr trivial) u f k hf hk).elim
    · have hle : p.nextCtx ≤ p'.nextCtx := by rcases hn with hn | ⟨_, hn⟩ <;> omega
      by_cases hu : u = t
      · subst hu
        rcases hpendNew p' f k hp' hf hk with h1 | ⟨_, p2, h2, h3, h4'⟩
        · have := hI.pendlt p u fr k hp htopS (by rw [h1]; rfl); omega
        · rw [hp] at h2; injection h2 with h2; subst h2; omega
      · have := hI.pendlt p u f k hp (hback u f hu hf (pendK_topOnly hk)) hk; omega
  · -- pendFresh
    intro p' u f k c' hp' hf hk hc' hid
    rcases hpool p' hp' with ⟨h1, _⟩ | ⟨p, hp, hn, horig⟩
    · rw [h1] at hc'; cases hc'
    · by_cases hu : u = t
      · subst hu
        rcases hpendNew p' f k hp' hf hk with h1 | ⟨h1, p2, h2, h3, h4'⟩
        · rcases horig c' hc' with h5 | ⟨h5, _⟩ | ⟨_, _, h5, _⟩ | ⟨_, h5, _⟩
          · exact hI.pendFresh p u fr k c' hp htopS (by rw [h1]; rfl) h5 hid
          all_goals (rw [h1] at h5; cases h5)
        · rw [hp] at h2; injection h2 with h2; subst h2
          rcases horig c' hc' with h5 | ⟨_, h5, _⟩ | ⟨_, _, h5, _⟩ | ⟨_, h5, _⟩
          · have := hI.idlt p c' hp h5; omega
          · subst h5; exact ⟨rfl, rfl⟩
          all_goals (rw [h1] at h5; cases h5)
      · have hfs := hback u f hu hf (pendK_topOnly hk)
        rcases horig c' hc' with h5 | ⟨_, h5, _⟩ | ⟨k0, c, h5, h6, h7, h8⟩ | ⟨c, h5, h6, h7, h8⟩
        · exact hI.pendFresh p u f k c' hp hfs hk h5 hid
        · subst h5; exact ⟨rfl, rfl⟩
        · exfalso
          subst h8
          simp only at hid
          exact hI.pendUniq p t u fr f k hp (Ne.symm hu) htopS hfs (by rw [h5, ← hid, h7]; rfl) hk
        · exfalso
          subst h8
          simp only at hid
          have := (hI.pendFresh p u f k c hp hfs hk h6 hid).1
          rw [this] at h7; cases h7
  · -- pendUniq
    intro p' u1 u2 a b k hp' hne ha hb hka hkb
    rcases hpool p' hp' with ⟨_, _, h1⟩ | ⟨p, hp, hn, horig⟩
    · exact hnoPend p' hp' h1 (Or.inr trivial) u1 a k ha hka
    · have key : ∀ v f, v ≠ t → topFrame (stepFrame s t th fr).1 t = some f → pendK f = some k →
          ∀ g, topFrame s v = some g → pendK g = some k → False := by
        intro v f hv hf hk g hg hkg
        rcases hpendNew p' f k hp' hf hk with h1 | ⟨_, p2, h2, h3, _⟩
        · exact hI.pendUniq p t v fr g k hp (Ne.symm hv) htopS hg (by rw [h1]; rfl) hkg
        · rw [hp] at h2; injection h2 with h2; subst h2
          have := hI.pendlt p v g k hp hg hkg; omega
      by_cases h1 : u1 = t
      · subst h1
        exact key u2 a (Ne.symm hne) ha hka b (hback u2 b (Ne.symm hne) hb (pendK_topOnly hkb)) hkb
      · by_cases h2 : u2 = t
        · subst h2
          exact key u1 b h1 hb hkb a (hback u1 a h1 ha (pendK_topOnly hka)) hka
        · exact hI.pendUniq p u1 u2 a b k hp hne (hback u1 a h1 ha (pendK_topOnly hka))
            (hback u2 b h2 hb (pendK_topOnly hkb)) hka hkb
  · -- join
    intro u i w hf
    by_cases hu : u = t
    · subst hu
      rcases htopT _ hf rfl with ⟨k0, _, h2⟩ | ⟨_, h2 | ⟨p, p2, _, _, h4', _⟩⟩ | ⟨i', w', p, c, _, h2, h3, _, _, h4', h5, h6⟩ | ⟨h2, _⟩
      · cases h2
      · cases h2
      · cases h4'
      · injection h2 with h7 h8; subst h7; subst h8
        obtain ⟨w2, h9, h10⟩ := hI.term p c h3 h4' h5
        rw [h6] at h9; injection h9 with h9; subst h9
        exact hexit _ h10
      · exact hexit w (hI.join u i w (by rw [htopS, ← h2]))
    · exact hexit w (hI.join u i w (hback u _ hu hf rfl))

theorem reach_ctxInv {cfg : Config} {s : State} (h : Reach cfg s) : CtxInv s := by
  induction h with
  | init => exact ctxInv_init cfg
  | step t hr hs ih => exact ctxInv_step hr (Reach.step t hr hs) ih hs

end Nstd.Future
