/-
  Completion handshake of a Future, part 23 (third layer): every Signal frame on a future signal and `destroyF`
  preserve `HsInv3`; reachable states; nobody is inside a Signal operation of a future when it is destroyed.
-/
import Nstd.Future.Handshake22
set_option linter.unusedSimpArgs false
set_option linter.unusedVariables false
namespace Nstd.Future

theorem upd_self {β : Type} (f : Nat → β) (i : Nat) : upd f i (f i) = f := by
  funext j; simp only [upd]; split
  · next h => rw [h]
  · rfl

theorem critS_ne {σ σ' : Nat} (h : σ' ≠ σ) : (σ == σ') = false := by
  simp; exact fun e => h e.symm

section frames
variable {cfg : Config} {s : State} {t : Tid} {th : Thread} {rest : List Frame} {σ : Nat}

theorem hs3_signal (hS : SimInv cfg s) (h0 : Inv0 s) (hH : HsInv s) (hI : HsInv3 s) (hrep : s.cfg.repaired = true)
    (fr : Frame) (hth : s.threads t = some th) (hst : th.stack = fr :: rest) (hblk : blockedFrame s t fr = false)
    (hσ : 2 ≤ σ)
    (hfr : fr = .sSetLock σ ∨ fr = .sSetStore σ ∨ (∃ g, fr = .sSetBcast σ g) ∨ fr = .sSetUnlock σ ∨
      fr = .sRstLock σ ∨ fr = .sRstStore σ ∨ fr = .sRstUnlock σ ∨ fr = .sWaitLock σ ∨ fr = .sWaitChk σ ∨
      fr = .sWaitUnlock σ ∨ fr = .sWaitCwait σ ∨ fr = .sWaitCwake σ ∨ fr = .sWaitRelock σ) :
    HsInv3 (stepFrame s t th fr).1 := by
  have hch := h0.chain t th hth
  rw [hst, chainOk_cons] at hch
  have htop : TopIs s t fr := ⟨th, hth, head_of hst⟩
  rcases hfr with rfl | rfl | ⟨g, rfl⟩ | rfl | rfl | rfl | rfl | rfl | rfl | rfl | rfl | rfl | rfl
  · -- sSetLock
    refine hs3_lock hS hI _ (.sSetStore σ) hth hst hσ hblk rfl (fun σ' h => critS_ne h) (fun _ => rfl) ?_
    intro f h; simp [roleOf, hσ] at h
  · -- sSetStore
    have hex : ExecSigOk s (σ - 2) := hH.top t .exec _ ⟨_, htop, by simp [roleOf, hσ]⟩
    refine hs3_keep hS hI _ (.sSetBcast σ (s.sigs σ).gen) { s.sigs σ with signaled := true }
      (setSig s σ { s.sigs σ with signaled := true }) hth hst hσ (by simp [critS]) rfl ⟨rfl, rfl, rfl, rfl⟩
      (by simp [stepFrame, hrep]) (fun σ' h => critS_ne h) ?_ ?_
    · intro f h
      simp [isSetPost] at h
      have : f = σ - 2 := by omega
      subst this; exact ⟨hex.1, hex.2.2.1⟩
    · intro f h; simp [roleOf] at h
  · -- sSetBcast
    refine hs3_keep hS hI _ (.sSetUnlock σ) { s.sigs σ with waiters := [] }
      (setSig s σ { s.sigs σ with waiters := [] }) hth hst hσ (by simp [critS]) rfl ⟨rfl, rfl, rfl, rfl⟩
      (by simp [stepFrame, hrep]) (fun σ' h => critS_ne h) ?_ ?_
    · intro f h
      exact hI.post t _ f htop (by simpa [isSetPost] using h)
    · intro f h; simp [roleOf] at h
  · -- sSetUnlock
    have hhd : ∃ c, rest.head? = some (.pDelete c) := by
      rcases hch.1 with ⟨h1, _⟩ | ⟨_, c, r, h1, _⟩
      · omega
      · exact ⟨c, h1⟩
    obtain ⟨c, hhd⟩ := hhd
    refine hs3_unlock hS hI _ [] { s.sigs σ with owner := none } hth hst hσ (by simp [critS])
      (by simp [stepFrame, hrep]) ?_ ?_ ?_
    all_goals (intro x hx; simp [hhd] at hx; subst hx; intros; first | rfl | (simp [roleOf] at *))
  · -- sRstLock
    refine hs3_lock hS hI _ (.sRstStore σ) hth hst hσ hblk rfl (fun σ' h => critS_ne h) (fun _ => rfl) ?_
    intro f h; simp [roleOf, hσ] at h ⊢; exact h
  · -- sRstStore
    refine hs3_keep hS hI _ (.sRstUnlock σ) { s.sigs σ with signaled := false }
      (setSig s σ { s.sigs σ with signaled := false }) hth hst hσ (by simp [critS]) rfl ⟨rfl, rfl, rfl, rfl⟩
      (by simp [stepFrame]) (fun σ' h => critS_ne h) ?_ ?_
    · intro f h; simp [isSetPost] at h
    · intro f h; left; simp [roleOf, hσ] at h ⊢; exact h
  · -- sRstUnlock
    have hhd : rest.head? = some (.joinClr (σ - 2)) := by
      rcases hch.1 with ⟨h1, _⟩ | ⟨_, h1⟩
      · omega
      · exact h1
    refine hs3_unlock hS hI _ [] { s.sigs σ with owner := none } hth hst hσ (by simp [critS])
      (by simp [stepFrame]) ?_ ?_ ?_
    · intro x hx; simp [hhd] at hx; subst hx; intro _; rfl
    · intro x hx; simp [hhd] at hx; subst hx; intro _; rfl
    · intro x hx; simp [hhd] at hx; subst hx; intro f h; simp [roleOf, hσ] at h ⊢; exact h
  · -- sWaitLock
    refine hs3_lock hS hI _ (.sWaitChk σ) hth hst hσ hblk rfl (fun σ' h => critS_ne h) (fun _ => rfl) ?_
    intro f h; simp [roleOf] at h
  · -- sWaitChk
    cases hsig : (s.sigs σ).signaled with
    | true =>
      refine hs3_keep hS hI _ (.sWaitUnlock σ) (s.sigs σ) s hth hst hσ (by simp [critS]) rfl
        ⟨rfl, rfl, rfl, (upd_self _ _).symm⟩ (by simp [stepFrame, hsig]) (fun σ' h => critS_ne h) ?_ ?_
      · intro f h; simp [isSetPost] at h
      · intro f h
        right
        intro u y hu hy
        cases hyp : isSetPost (f + 2) y with
        | false => rfl
        | true =>
          simp [roleOf, hσ] at h
          have : f + 2 = σ := by omega
          rw [this] at hyp
          exact absurd (two_owners hI hσ htop (by simp [critS]) hy (isSetPost_critS hyp)) hu
    | false =>
      refine hs3_keep hS hI _ (.sWaitCwait σ) (s.sigs σ) s hth hst hσ (by simp [critS]) rfl
        ⟨rfl, rfl, rfl, (upd_self _ _).symm⟩ (by simp [stepFrame, hsig]) (fun σ' h => critS_ne h) ?_ ?_
      · intro f h; simp [isSetPost] at h
      · intro f h; simp [roleOf] at h
  · -- sWaitUnlock
    have hhd : rest.head? = some (.sRstLock σ) := by
      rcases hch.1 with ⟨h1, _⟩ | ⟨_, h1⟩
      · omega
      · exact h1
    refine hs3_unlock hS hI _ [] { s.sigs σ with owner := none } hth hst hσ (by simp [critS])
      (by simp [stepFrame]) ?_ ?_ ?_
    · intro x hx; simp [hhd] at hx; subst hx; intro _; rfl
    · intro x hx; simp [hhd] at hx; subst hx; intro _; rfl
    · intro x hx; simp [hhd] at hx; subst hx; intro f h; simp [roleOf, hσ] at h ⊢; exact h
  · -- sWaitCwait
    refine hs3_unlock hS hI _ [.sWaitCwake σ] { s.sigs σ with owner := none, waiters := (s.sigs σ).waiters ++ [t] }
      hth hst hσ (by simp [critS]) (by simp [stepFrame]) ?_ ?_ ?_
    · intro x hx; simp at hx; subst hx; intro _; rfl
    · intro x hx; simp at hx; subst hx; intro _; rfl
    · intro x hx; simp at hx; subst hx; intro f h; simp [roleOf] at h
  · -- sWaitCwake: outside the critical section, the mutex is not touched
    have hO := others_of_step hS hth hst
    have key : ∃ s1 : State, (stepFrame s t th (.sWaitCwake σ)).1 = setThread s1 t (th.cont [.sWaitRelock σ]) ∧
        s1.futs = s.futs ∧ s1.everCalls = s.everCalls ∧ (∀ σ', (s1.sigs σ').owner = (s.sigs σ').owner) := by
      simp only [stepFrame]; split
      · refine ⟨_, rfl, rfl, rfl, ?_⟩
        intro σ'; simp [setSig, upd]; split <;> simp_all
      · exact ⟨s, rfl, rfl, rfl, fun _ => rfl⟩
    obtain ⟨s1, hstep, h2, h3, h4⟩ := key
    rw [hstep] at hO ⊢
    refine hs3_sig (th' := th.cont [.sWaitRelock σ]) (σ0 := σ) hI hO hth (head_of hst) ?_ hσ ?_ ?_ ?_ ?_ ?_ ?_ ?_ ?_
    · simp [setThread, upd_same]
    · simp [setThread, h2]
    · simp [setThread, h3]
    · intro σ' _; simp [setThread, h4]
    · intro x hx σ' _; simp [Thread.cont, hst] at hx; subst hx; rfl
    · intro x hx h; simp [Thread.cont, hst] at hx; subst hx; cases h
    · intro x hx f h; simp [Thread.cont, hst] at hx; subst hx; cases h
    · intro x hx f h; simp [Thread.cont, hst] at hx; subst hx; simp [roleOf] at h
    · intro u y _ hu hy; simp [setThread, h4]; exact hI.own u y σ hσ hu hy
  · -- sWaitRelock
    refine hs3_lock hS hI _ (.sWaitChk σ) hth hst hσ hblk rfl (fun σ' h => critS_ne h) (fun _ => rfl) ?_
    intro f h; simp [roleOf] at h

end frames

end Nstd.Future
