/-
  Completion handshake of a Future, part 11: the stores of `Signal::set` / `Signal::reset` on the signal of a
  future and the exchange of `_state` in `proc`.
-/
import Nstd.Future.Handshake10
set_option linter.unusedSimpArgs false
set_option linter.unusedVariables false
namespace Nstd.Future

section frames
variable {cfg : Config} {s : State} {t : Tid} {th : Thread} {rest : List Frame}

theorem preArm_same_tail {c : Nat} {fr : Frame} {fs rest : List Frame} (h1 : hsPreArm c fr = false)
    (h2 : ∀ x ∈ fs, hsPreArm c x = false) :
    (∃ x ∈ fs ++ rest, hsPreArm c x = true) ↔ (∃ x ∈ fr :: rest, hsPreArm c x = true) := by
  constructor
  · rintro ⟨x, hx, hp⟩
    rcases List.mem_append.mp hx with hx | hx
    · rw [h2 x hx] at hp; cases hp
    · exact ⟨x, List.mem_cons_of_mem _ hx, hp⟩
  · rintro ⟨x, hx, hp⟩
    rcases List.mem_cons.mp hx with hx | hx
    · subst hx; rw [h1] at hp; cases hp
    · exact ⟨x, List.mem_append_right _ hx, hp⟩

theorem hs_sSetStore {σ : Nat} (hS : SimInv cfg s) (h0 : Inv0 s) (hH : HsInv s)
    (hth : s.threads t = some th) (hst : th.stack = .sSetStore σ :: rest) (hσ : 2 ≤ σ) :
    HsInv (stepFrame s t th (.sSetStore σ)).1 := by
  have hO := others_of_step hS hth hst
  have hrole : Role s t .exec (σ - 2) := ⟨_, ⟨th, hth, head_of hst⟩, by simp [roleOf, hσ]⟩
  obtain ⟨hj, hs, hn, hd⟩ := hH.top t _ _ hrole
  have hth' : ∃ x, (stepFrame s t th (.sSetStore σ)).1.threads t = some (th.cont [x]) ∧ roleOf s.everCalls x = none ∧
      ∀ c, hsPreArm c x = false := by
    simp only [stepFrame]; split
    · exact ⟨.sSetBcast σ (s.sigs σ).gen, by simp [setThread, upd_same], rfl, fun _ => rfl⟩
    · exact ⟨.sSetUnlock σ, by simp [setThread, upd_same], rfl, fun _ => rfl⟩
  obtain ⟨x0, hth', hx0, hx0p⟩ := hth'
  have hev : (stepFrame s t th (.sSetStore σ)).1.everCalls = s.everCalls := by hs_view
  have hcompl : (stepFrame s t th (.sSetStore σ)).1.completed = s.completed := by hs_view
  have hjn : ∀ f, jn (stepFrame s t th (.sSetStore σ)).1 f = jn s f := by hs_view
  have hcur : ∀ f, cur (stepFrame s t th (.sSetStore σ)).1 f = cur s f := by hs_view
  have hsg : ∀ f, f + 2 ≠ σ → sg (stepFrame s t th (.sSetStore σ)).1 f = sg s f := by
    intro f hf; simp [stepFrame, setThread, setSig, sg, upd, hf]
  have hpre : ∀ c, (∃ x ∈ (th.cont [x0]).stack, hsPreArm c x = true) ↔ (∃ x ∈ th.stack, hsPreArm c x = true) := by
    intro c; rw [hst]; simp only [Thread.cont, hst, List.drop_one, List.tail_cons]
    exact preArm_same_tail rfl (by intro x hx; simp at hx; subst hx; exact hx0p c)
  have hne : ∀ f, some f ≠ some (σ - 2) → f + 2 ≠ σ := by
    intro f hf h; apply hf; congr 1; omega
  apply hs_generic (t := t) (some (σ - 2)) hH
  · intro f _; exact hjn f
  · intro f _; exact hcur f
  · intro f hf; exact hsg f (hne f hf)
  · intro c hc; rw [hcompl]; exact hc
  · intro c r hc; rw [hev] at hc; exact Or.inl hc
  · intro u hu k f hr; exact role_other_eq hO hev hu hr
  · intro c r _ _ hp; exact preArmed_fwd hO hth hth' (hpre c).mpr hp
  · intro c hp; rw [hcompl]; exact hH.c0 c (preArmed_bwd hO hth hth' (hpre c).mp hp)
  · intro k f hr
    obtain ⟨x, h1, h2⟩ := role_self hth' hr
    simp [Thread.cont, hst] at h1; subst h1
    rw [hev, hx0] at h2; cases h2
  · intro f _ hn'
    left
    refine noPassed_keep hO hth' (fun u x k f _ h1 _ => by rw [← hev]; exact h1) ?_ hn'
    intro x hx
    simp [Thread.cont, hst] at hx; subst hx
    rw [hev, hx0]; exact ⟨fun h => (by cases h), fun h => (by cases h)⟩
  · intro f c r hf hc hrf hcf
    injection hf with hf; subst hf
    rw [hcompl] at hcf
    rcases hH.q c r hc hcf with h1 | ⟨h1, _⟩
    · exact Or.inl (preArmed_fwd hO hth hth' (hpre c).mpr h1)
    · rw [hrf] at h1; rw [hd c h1] at hcf; cases hcf
  · intro f hf hj'
    injection hf with hf; subst hf
    rw [hjn, hj] at hj'; cases hj'
  · intro f hf _
    injection hf with hf; subst hf
    exact doneCur_mono (hcur _) (fun c hc => by rw [hcompl]; exact hc) hd
  · intro f hf hj'
    injection hf with hf; subst hf
    rw [hjn, hj] at hj'; cases hj'
  · intro f hf u hu k hr
    injection hf with hf; subst hf
    cases k with
    | after => have := hH.top u _ _ hr; simp only [Obl] at this ⊢; rw [hjn]; exact this
    | passed => exact absurd hr (hn u).1
    | rstDone => exact absurd hr (hn u).2
    | exec => exact absurd (hH.uniq u t _ hr hrole) hu

theorem hs_sRstStore {σ : Nat} (hS : SimInv cfg s) (h0 : Inv0 s) (hH : HsInv s)
    (hth : s.threads t = some th) (hst : th.stack = .sRstStore σ :: rest) (hσ : 2 ≤ σ) :
    HsInv (stepFrame s t th (.sRstStore σ)).1 := by
  have hO := others_of_step hS hth hst
  have hrole : Role s t .passed (σ - 2) := ⟨_, ⟨th, hth, head_of hst⟩, by simp [roleOf, hσ]⟩
  have hd : DoneCur s (σ - 2) := hH.top t _ _ hrole
  have hth' : (stepFrame s t th (.sRstStore σ)).1.threads t = some (th.cont [.sRstUnlock σ]) := by
    simp [stepFrame, setThread, upd_same]
  have hev : (stepFrame s t th (.sRstStore σ)).1.everCalls = s.everCalls := by hs_view
  have hcompl : (stepFrame s t th (.sRstStore σ)).1.completed = s.completed := by hs_view
  have hjn : ∀ f, jn (stepFrame s t th (.sRstStore σ)).1 f = jn s f := by hs_view
  have hcur : ∀ f, cur (stepFrame s t th (.sRstStore σ)).1 f = cur s f := by hs_view
  have hsg : ∀ f, f + 2 ≠ σ → sg (stepFrame s t th (.sRstStore σ)).1 f = sg s f := by
    intro f hf; simp [stepFrame, setThread, setSig, sg, upd, hf]
  have hsg0 : sg (stepFrame s t th (.sRstStore σ)).1 (σ - 2) = false := by
    simp [stepFrame, setThread, setSig, sg, upd, sub_add_two hσ]
  have hpre : ∀ c, (∃ x ∈ (th.cont [.sRstUnlock σ]).stack, hsPreArm c x = true) ↔ (∃ x ∈ th.stack, hsPreArm c x = true) := by
    intro c; rw [hst]; simp only [Thread.cont, hst, List.drop_one, List.tail_cons]
    exact preArm_same_tail rfl (by intro x hx; simp at hx; subst hx; rfl)
  have hne : ∀ f, some f ≠ some (σ - 2) → f + 2 ≠ σ := by
    intro f hf h; apply hf; congr 1; omega
  have hdc : DoneCur (stepFrame s t th (.sRstStore σ)).1 (σ - 2) :=
    doneCur_mono (hcur _) (fun c hc => by rw [hcompl]; exact hc) hd
  apply hs_generic (t := t) (some (σ - 2)) hH
  · intro f _; exact hjn f
  · intro f _; exact hcur f
  · intro f hf; exact hsg f (hne f hf)
  · intro c hc; rw [hcompl]; exact hc
  · intro c r hc; rw [hev] at hc; exact Or.inl hc
  · intro u hu k f hr; exact role_other_eq hO hev hu hr
  · intro c r _ _ hp; exact preArmed_fwd hO hth hth' (hpre c).mpr hp
  · intro c hp; rw [hcompl]; exact hH.c0 c (preArmed_bwd hO hth hth' (hpre c).mp hp)
  · intro k f hr
    obtain ⟨x, h1, h2⟩ := role_self hth' hr
    simp [Thread.cont, hst] at h1; subst h1
    simp [roleOf, hσ] at h2
    obtain ⟨rfl, rfl⟩ := h2
    exact ⟨⟨hdc, hsg0⟩, fun h => by simp at h⟩
  · intro f hf hn'
    left
    refine noPassed_keep hO hth' (fun u x k f _ h1 _ => by rw [← hev]; exact h1) ?_ hn'
    intro x hx
    simp [Thread.cont, hst] at hx; subst hx
    simp [roleOf, hσ]
    intro h; exact hf (by rw [h])
  · intro f c r hf hc hrf hcf
    injection hf with hf; subst hf
    rw [hcompl] at hcf
    rcases hH.q c r hc hcf with h1 | ⟨_, _, _, h1⟩
    · exact Or.inl (preArmed_fwd hO hth hth' (hpre c).mpr h1)
    · rw [hrf] at h1; exact absurd hrole (h1 t).1
  · intro f hf _
    injection hf with hf; subst hf; exact hsg0
  · intro f hf h
    injection hf with hf; subst hf
    rw [hsg0] at h; cases h
  · intro f hf _
    injection hf with hf; subst hf; exact hdc
  · intro f hf u hu k hr
    injection hf with hf; subst hf
    cases k with
    | after => have := hH.top u _ _ hr; simp only [Obl] at this ⊢; rw [hjn]; exact this
    | passed => exact hdc
    | rstDone => exact ⟨hdc, hsg0⟩
    | exec => exact absurd hrole ((hH.top u _ _ hr).2.2.1 t).1

theorem hs_pSetX {c : Nat} {ab : Bool} (hS : SimInv cfg s) (h0 : Inv0 s) (hX : ExecFacts s) (hH : HsInv s)
    (hth : s.threads t = some th) (hst : th.stack = .pSetX c ab :: rest) :
    HsInv (stepFrame s t th (.pSetX c ab)).1 := by
  have hO := others_of_step hS hth hst
  cases hc : s.calls c with
  | none => simp only [stepFrame, hc]; exact hs_fault _ hH
  | some r =>
    have hevc := h0.callsEv c r hc
    have hmem : Frame.pSetX c ab ∈ th.stack := by rw [hst]; exact List.mem_cons_self ..
    have hexec : executes s t c := ⟨th, hth, _, hmem, by simp [inProc]⟩
    have hnd : s.completed c = false := hX.notDone t th _ c hth hmem (by simp [hsPreX])
    have hnpa : ¬ PreArmed s c := by
      rintro ⟨u, thu, x, h1, h2, h3⟩
      rw [(hX.started t c hexec).2 u thu x h1 h2] at h3; cases h3
    obtain ⟨hq1, hq2, hq3, hq4⟩ : QRight s c r.fut := by
      rcases hH.q c r hevc hnd with h | h
      · exact absurd h hnpa
      · exact h
    have hth' : (stepFrame s t th (.pSetX c ab)).1.threads t = some (th.cont [.pSig c]) := by
      simp [stepFrame, setThread, upd_same, hc]
    have hev : (stepFrame s t th (.pSetX c ab)).1.everCalls = s.everCalls := by
      simp [stepFrame, setThread, setFut, hc]
    have hcompl : (stepFrame s t th (.pSetX c ab)).1.completed = upd s.completed c true := by
      simp [stepFrame, setThread, setFut, hc]
    have hjn : ∀ f, jn (stepFrame s t th (.pSetX c ab)).1 f = jn s f := by
      intro f; simp [stepFrame, setThread, setFut, hc, jn, upd]; split <;> simp_all
    have hcur : ∀ f, cur (stepFrame s t th (.pSetX c ab)).1 f = cur s f := by
      intro f; simp [stepFrame, setThread, setFut, hc, cur, upd]; split <;> simp_all
    have hsg : ∀ f, sg (stepFrame s t th (.pSetX c ab)).1 f = sg s f := by
      intro f; simp [stepFrame, setThread, setFut, hc, sg]
    have hcm : ∀ c', s.completed c' = true → (stepFrame s t th (.pSetX c ab)).1.completed c' = true := by
      intro c' h; rw [hcompl]; simp only [upd]; split
      · rfl
      · exact h
    have hpre : ∀ c', (∃ x ∈ (th.cont [.pSig c]).stack, hsPreArm c' x = true) ↔ (∃ x ∈ th.stack, hsPreArm c' x = true) := by
      intro c'; rw [hst]; simp only [Thread.cont, hst, List.drop_one, List.tail_cons]
      exact preArm_same_tail rfl (by intro x hx; simp at hx; subst hx; rfl)
    have hnpk : ∀ f, NoPassed s f → NoPassed (stepFrame s t th (.pSetX c ab)).1 f := by
      intro f hn'
      refine noPassed_keep hO hth' (fun u x k f _ h1 _ => by rw [← hev]; exact h1) ?_ hn'
      intro x hx
      simp [Thread.cont, hst] at hx; subst hx
      simp [roleOf, hev, hevc]
    apply hs_generic (t := t) none hH
    · intro f _; exact hjn f
    · intro f _; exact hcur f
    · intro f _; exact hsg f
    · exact hcm
    · intro c r hc; rw [hev] at hc; exact Or.inl hc
    · intro u hu k f hr; exact role_other_eq hO hev hu hr
    · intro c r _ _ hp; exact preArmed_fwd hO hth hth' (hpre c).mpr hp
    · intro c' hp
      have hp' := preArmed_bwd hO hth hth' (hpre c').mp hp
      rw [hcompl]; simp only [upd]; split
      · next h => subst h; exact absurd hp' hnpa
      · exact hH.c0 c' hp'
    · intro k f hr
      obtain ⟨x, h1, h2⟩ := role_self hth' hr
      simp [Thread.cont, hst] at h1; subst h1
      simp [roleOf, hev, hevc] at h2
      obtain ⟨rfl, rfl⟩ := h2
      refine ⟨⟨by rw [hjn]; exact hq2, by rw [hsg]; exact hq3, hnpk _ hq4, ?_⟩, ?_⟩
      · intro c' hc'
        rw [hcur, hq1] at hc'; injection hc' with hc'; subst hc'
        rw [hcompl, upd_same]
      · intro _ v hv hrv
        have := (hH.top v _ _ hrv).2.2.2 c hq1
        rw [hnd] at this; cases this
    · intro f _ hn'; exact Or.inl (hnpk f hn')
    · intro f c r h; cases h
    · intro f h; cases h
    · intro f h; cases h
    · intro f h; cases h
    · intro f h; cases h

end frames

end Nstd.Future
