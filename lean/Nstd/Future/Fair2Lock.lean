/-
  Mutex hand-over facts for a strong-fairness termination argument (companion of Fair2Neg.lean / Fair2Red.lean).

  A busy-spinning looper takes and releases the mutex of a pool signal σ (σ < 2) in every iteration of its idle loop
  (`sWaitLock σ → sWaitChk σ → sWaitUnlock σ`).  A thread `u` blocked at a lock frame of σ (`LockWait s u σ`) is enabled
  exactly when the mutex is free; while the looper `o` is inside the critical section (`Crit s o σ k`) no other thread can
  change `owner` / `signaled` of σ, the looper is enabled, and after at most two of its own steps the mutex is free.

  Statements (all proved, no extra hypotheses beyond `Reach cfg s` and `σ < 2` where stated):
    `lockWait_enabled`, `lockWait_blocked`, `lockWait_persist`, `crit_enabled`, `crit_step`, `crit_persist`,
    `nthreads_le_step`, `threads_persist`, `lkSigs_eq` (frame lemma: which micro-steps write `s.sigs σ`),
    `lockWait_step_owner`, `crit_of_waitLock`, `crit_of_waitRelock`, `lockWait_ne_crit`, `crit_lockWait_step`.
  OPEN: nothing in this file.
  `dFin` (which destroys the pool signals) is excluded inside `crit_persist` from the invariants of Progress.lean
  (`dead_top` applied to the successor state): no hypothesis about `dFin` is needed.
-/
import Nstd.Future.FairCore
set_option linter.unusedVariables false
set_option linter.unusedSimpArgs false
namespace Nstd.Future.F2

variable {cfg : Config} {s s' : State} {t u o : Tid} {σ k : Nat} {out : List String}

/-- u is (unfinished and) about to lock the mutex of signal σ -/
def LockWait (s : State) (u : Tid) (σ : Nat) : Prop :=
  ∃ th fr rest, s.threads u = some th ∧ th.finished = false ∧ th.stack = fr :: rest ∧
    (fr = .sSetLock σ ∨ fr = .sRstLock σ ∨ fr = .sWaitLock σ ∨ fr = .sWaitRelock σ)

/-- o owns the mutex of σ inside `Signal::wait` and will pass: k = 1 at `sWaitChk σ` (flag set), k = 0 at `sWaitUnlock σ` -/
def Crit (s : State) (o : Tid) (σ : Nat) (k : Nat) : Prop :=
  (s.sigs σ).owner = some o ∧ ∃ th rest, s.threads o = some th ∧ th.finished = false ∧
    ((k = 1 ∧ th.stack = .sWaitChk σ :: rest ∧ (s.sigs σ).signaled = true) ∨ (k = 0 ∧ th.stack = .sWaitUnlock σ :: rest))

/-! ### generic facts about one micro-step -/

/-- `step_inv` with the "not blocked" fact -/
theorem lkStep_inv (h : step s t = some (s', out)) :
    ∃ th fr rest, s.threads t = some th ∧ th.stack = fr :: rest ∧ th.finished = false ∧
      blockedFrame s t fr = false ∧ s' = (stepFrame s t th fr).1 := by
  simp only [step] at h
  split at h
  · cases h
  · next th hth =>
    split at h
    · cases h
    · next fr rest hst =>
      split at h
      · cases h
      · next hc =>
        simp only [Bool.or_eq_true, not_or, Bool.not_eq_true] at hc
        injection h with h
        exact ⟨th, fr, rest, hth, hst, hc.1, hc.2, by rw [h]⟩

/-- the frames whose micro-step may write `s.sigs σ` -/
def lkWrites (σ : Nat) : Frame → Bool
  | .sSetLock σ' | .sSetStore σ' | .sSetUnlock σ' | .sSetBcast σ' _ => σ' == σ
  | .sRstLock σ' | .sRstStore σ' | .sRstUnlock σ' => σ' == σ
  | .sWaitLock σ' | .sWaitUnlock σ' | .sWaitCwait σ' | .sWaitCwake σ' | .sWaitRelock σ' => σ' == σ
  | .destroyF f => f + 2 == σ
  | .dFin => decide (σ < 2)
  | _ => false

/-- every other micro-step leaves signal σ alone -/
theorem lkSigs_eq (s : State) (t : Tid) (th : Thread) (fr : Frame) (σ : Nat) (hk : lkWrites σ fr = false) :
    (stepFrame s t th fr).1.sigs σ = s.sigs σ := by
  cases fr
  case ring pc =>
    cases hp : s.pool with
    | none => simp only [stepFrame, hp]; rfl
    | some p =>
      simp only [stepFrame, hp]
      rcases hrs : ringStep p.ring pc with ⟨r', res⟩
      cases res with
      | cont pc' => rfl
      | pushed ok => rfl
      | popped o => rcases o with _ | _ | j <;> rfl
  case dFin =>
    simp only [lkWrites, decide_eq_false_iff_not, Nat.not_lt] at hk
    have h0 : σ ≠ 0 := by omega
    have h1 : σ ≠ 1 := by omega
    simp [stepFrame, setThread, setSig, destroySig, upd, h0, h1]
  case destroyF f =>
    simp only [lkWrites, beq_eq_false_iff_ne, ne_eq] at hk
    have h0 : σ ≠ f + 2 := fun e => hk e.symm
    simp [stepFrame, setThread, setSig, setFut, destroySig, upd, h0]
  all_goals
    simp only [stepFrame]
    repeat' split
  all_goals first
    | rfl
    | (simp only [lkWrites, beq_eq_false_iff_ne, ne_eq] at hk
       have h0 : ¬ σ = _ := fun e => hk e.symm
       simp [setThread, setSig, setPool, setFut, withFault, upd, h0]; done)
    | (simp [setThread, setSig, setPool, setFut, withFault, destroySig, upd]; done)

/-- the thread counter never decreases -/
theorem lkNth_le (s : State) (t : Tid) (th : Thread) (fr : Frame) :
    s.nthreads ≤ (stepFrame s t th fr).1.nthreads := by
  cases fr
  case ring pc =>
    cases hp : s.pool with
    | none => simp only [stepFrame, hp]; exact Nat.le_refl _
    | some p =>
      simp only [stepFrame, hp]
      rcases hrs : ringStep p.ring pc with ⟨r', res⟩
      cases res with
      | cont pc' => exact Nat.le_refl _
      | pushed ok => exact Nat.le_refl _
      | popped o => rcases o with _ | _ | j <;> exact Nat.le_refl _
  all_goals
    simp only [stepFrame]
    repeat' split
  all_goals first
    | exact Nat.le_refl _
    | (simp [setThread, setSig, setPool, setFut, withFault, destroySig]; done)

theorem nthreads_le_step (h : step s t = some (s', out)) : s.nthreads ≤ s'.nthreads := by
  obtain ⟨th, fr, rest, _, _, _, _, rfl⟩ := lkStep_inv h
  exact lkNth_le s t th fr

/-- a step of `t` leaves the record of every other existing thread alone -/
theorem threads_persist {th : Thread} (hr : Reach cfg s) (h : step s t = some (s', out)) (htu : t ≠ u)
    (hu : s.threads u = some th) : s'.threads u = some th := by
  obtain ⟨tht, fr, rest, _, _, _, _, rfl⟩ := lkStep_inv h
  have hlt : u < s.nthreads := thread_lt hr hu
  rw [FR.flOthers s t tht fr u (fun e => htu e.symm) (Nat.ne_of_lt hlt)]
  exact hu

/-! ### threads waiting for the mutex -/

theorem lockWait_enabled (h : LockWait s u σ) (ho : (s.sigs σ).owner = none) : enabled s u = true := by
  obtain ⟨th, fr, rest, hth, hnf, hst, hfr⟩ := h
  simp only [enabled, hth, hst, hnf]
  rcases hfr with rfl | rfl | rfl | rfl <;> simp [blockedFrame, ho]

theorem lockWait_blocked (h : LockWait s u σ) (ho : (s.sigs σ).owner ≠ none) : enabled s u = false := by
  obtain ⟨th, fr, rest, hth, hnf, hst, hfr⟩ := h
  have hs : (s.sigs σ).owner.isSome = true := by
    cases hx : (s.sigs σ).owner with
    | none => exact absurd hx ho
    | some x => rfl
  simp only [enabled, hth, hst, hnf]
  rcases hfr with rfl | rfl | rfl | rfl <;> simp [blockedFrame, hs]

theorem lockWait_persist (hr : Reach cfg s) (h : LockWait s u σ) (hs : step s t = some (s', out)) (htu : t ≠ u) :
    LockWait s' u σ := by
  obtain ⟨th, fr, rest, hth, hnf, hst, hfr⟩ := h
  exact ⟨th, fr, rest, threads_persist hr hs htu hth, hnf, hst, hfr⟩

/-! ### the owner inside `Signal::wait` -/

theorem crit_enabled (h : Crit s o σ k) : enabled s o = true := by
  obtain ⟨ho, th, rest, hth, hnf, h | h⟩ := h
  · obtain ⟨_, hst, _⟩ := h
    simp [enabled, hth, hst, hnf, blockedFrame]
  · obtain ⟨_, hst⟩ := h
    simp [enabled, hth, hst, hnf, blockedFrame]

theorem crit_step (h : Crit s o σ k) (hs : step s o = some (s', out)) :
    (k = 0 → (s'.sigs σ).owner = none) ∧ (k = 1 → Crit s' o σ 0) := by
  obtain ⟨ho, th, rest, hth, hnf, h | h⟩ := h
  · obtain ⟨rfl, hst, hsg⟩ := h
    have he := step_eq_stepFrame hs hth hst
    subst he
    refine ⟨fun h => absurd h (by decide), fun _ => ?_⟩
    refine ⟨?_, th.cont [.sWaitUnlock σ], rest, ?_, hnf, Or.inr ⟨rfl, ?_⟩⟩
    · simp [stepFrame, hsg, setThread, ho]
    · simp [stepFrame, hsg, setThread, upd]
    · simp [Thread.cont, hst]
  · obtain ⟨rfl, hst⟩ := h
    have he := step_eq_stepFrame hs hth hst
    subst he
    refine ⟨fun _ => ?_, fun h => absurd h (by decide)⟩
    simp [stepFrame, setThread, setSig, upd]

/-! ### other threads cannot disturb the owner -/

theorem lkTop {th : Thread} {fr : Frame} {rest : List Frame} (hth : s.threads t = some th)
    (hst : th.stack = fr :: rest) : topFrame s t = some fr := by
  simp only [topFrame, hth, hst]; rfl

/-- `Signal::set`'s broadcast touches only the wait set -/
theorem lkBcast_keep (s : State) (t : Tid) (th : Thread) (σ g : Nat) :
    ((stepFrame s t th (.sSetBcast σ g)).1.sigs σ).owner = (s.sigs σ).owner ∧
    ((stepFrame s t th (.sSetBcast σ g)).1.sigs σ).signaled = (s.sigs σ).signaled := by
  simp [stepFrame, setThread, setSig, upd]

/-- the wake-up from `pthread_cond_wait` touches only the wait set -/
theorem lkCwake_keep (s : State) (t : Tid) (th : Thread) (σ : Nat) :
    ((stepFrame s t th (.sWaitCwake σ)).1.sigs σ).owner = (s.sigs σ).owner ∧
    ((stepFrame s t th (.sWaitCwake σ)).1.sigs σ).signaled = (s.sigs σ).signaled := by
  by_cases hc : t ∈ (s.sigs σ).waiters
  · simp [stepFrame, hc, setThread, setSig, upd]
  · simp [stepFrame, hc, setThread, setSig, upd]

/-- after `dFin` the pool is dead -/
theorem lkDFin_dead (s : State) (t : Tid) (th : Thread) : ¬ poolAlive (stepFrame s t th .dFin).1 := by
  simp [poolAlive, stepFrame, setThread, setSig, destroySig, upd]

/-- while `o` owns the mutex of the pool signal σ inside `Signal::wait`, no step of another thread changes `owner` or
    `signaled` of σ (nor `o`'s record).  No hypothesis about `dFin` is needed: a `dFin` step of `t` would lead to a
    reachable state with a dead pool in which `o ≠ t` still has a frame, contradicting `dead_top`. -/
theorem crit_persist (hr : Reach cfg s) (hσ : σ < 2) (h : Crit s o σ k) (hs : step s t = some (s', out))
    (hto : t ≠ o) : Crit s' o σ k := by
  obtain ⟨ho, th, rest, hth, hnf, hk⟩ := h
  have hth' := threads_persist hr hs hto hth
  have hr' : Reach cfg s' := Reach.step t hr hs
  obtain ⟨tht, fr, rst, htt, hst, hnft, hnb, he⟩ := lkStep_inv hs
  obtain ⟨fo, hsto, hco, hne⟩ : ∃ fo, th.stack = fo :: rest ∧ critFrame cfg σ fo = true ∧ fo ≠ .tExit := by
    rcases hk with ⟨_, h1, _⟩ | ⟨_, h1⟩
    · exact ⟨_, h1, by simp [critFrame, critF], by intro e; cases e⟩
    · exact ⟨_, h1, by simp [critFrame, critF], by intro e; cases e⟩
  have hfo : topFrame s o = some fo := lkTop hth hsto
  have hfo' : topFrame s' o = some fo := lkTop hth' hsto
  have htop : topFrame s t = some fr := lkTop htt hst
  suffices hsuf : (s'.sigs σ).owner = (s.sigs σ).owner ∧ (s'.sigs σ).signaled = (s.sigs σ).signaled by
    refine ⟨by rw [hsuf.1]; exact ho, th, rest, hth', hnf, ?_⟩
    rcases hk with ⟨a, b, c⟩ | ⟨a, b⟩
    · exact Or.inl ⟨a, b, by rw [hsuf.2]; exact c⟩
    · exact Or.inr ⟨a, b⟩
  have hexcl : critFrame cfg σ fr = true → False := fun hc =>
    pool_sig_mutex_exclusive_always hr hσ hto htop hfo hc hco
  cases hw : lkWrites σ fr
  · rw [he, lkSigs_eq s t tht fr σ hw]; exact ⟨rfl, rfl⟩
  · cases fr <;> try (simp [lkWrites] at hw; done)
    case sSetBcast σ' g =>
      simp only [lkWrites, beq_iff_eq] at hw
      subst hw; rw [he]; exact lkBcast_keep s t tht σ' g
    case sWaitCwake σ' =>
      simp only [lkWrites, beq_iff_eq] at hw
      subst hw; rw [he]; exact lkCwake_keep s t tht σ'
    all_goals exfalso
    case dFin =>
      rw [he] at hfo'
      exact hne (dead_top (he ▸ hr') (lkDFin_dead s t tht) hfo').2
    case destroyF f =>
      simp only [lkWrites, beq_iff_eq] at hw; omega
    all_goals
      simp only [lkWrites, beq_iff_eq] at hw
      subst hw
      first
        | (simp [blockedFrame, ho] at hnb; done)
        | (exact hexcl (by simp [critFrame, critF]); done)

/-! ### entry into the critical section, and the combined hand-over step -/

/-- the step of a thread waiting for the (free) mutex makes it the owner -/
theorem lockWait_step_owner (h : LockWait s u σ) (hs : step s u = some (s', out)) :
    (s'.sigs σ).owner = some u := by
  obtain ⟨th, fr, rest, hth, hnf, hst, hfr⟩ := h
  have he := step_eq_stepFrame hs hth hst
  subst he
  rcases hfr with rfl | rfl | rfl | rfl <;> simp [stepFrame, setThread, setSig, upd]

/-- `Signal::wait` on a set flag: locking the mutex enters `Crit … 1` -/
theorem crit_of_waitLock {th : Thread} {rest : List Frame} (hth : s.threads u = some th) (hnf : th.finished = false)
    (hst : th.stack = .sWaitLock σ :: rest) (hsg : (s.sigs σ).signaled = true) (hs : step s u = some (s', out)) :
    Crit s' u σ 1 := by
  have he := step_eq_stepFrame hs hth hst
  subst he
  refine ⟨by simp [stepFrame, setThread, setSig, upd], th.cont [.sWaitChk σ], rest, ?_, hnf,
    Or.inl ⟨rfl, by simp [Thread.cont, hst], ?_⟩⟩
  · simp [stepFrame, setThread, setSig, upd]
  · simp [stepFrame, setThread, setSig, upd, hsg]

/-- same for the re-lock after a wake-up -/
theorem crit_of_waitRelock {th : Thread} {rest : List Frame} (hth : s.threads u = some th) (hnf : th.finished = false)
    (hst : th.stack = .sWaitRelock σ :: rest) (hsg : (s.sigs σ).signaled = true) (hs : step s u = some (s', out)) :
    Crit s' u σ 1 := by
  have he := step_eq_stepFrame hs hth hst
  subst he
  refine ⟨by simp [stepFrame, setThread, setSig, upd], th.cont [.sWaitChk σ], rest, ?_, hnf,
    Or.inl ⟨rfl, by simp [Thread.cont, hst], ?_⟩⟩
  · simp [stepFrame, setThread, setSig, upd]
  · simp [stepFrame, setThread, setSig, upd, hsg]

/-- a waiter is not the owner -/
theorem lockWait_ne_crit (h : LockWait s u σ) (hc : Crit s o σ k) : u ≠ o := by
  intro e; subst e
  have h1 := lockWait_blocked h (by rw [hc.1]; intro e; cases e)
  rw [crit_enabled hc] at h1; cases h1

/-- one step of ANY thread while `o` is inside the critical section and `u` waits for the mutex: `u` keeps waiting, and
    either nothing changed for `o` (another thread stepped), or `o` moved one step closer to the unlock, or `o` has
    released the mutex (then `u` is enabled: `lockWait_enabled`) -/
theorem crit_lockWait_step (hr : Reach cfg s) (hσ : σ < 2) (hc : Crit s o σ k) (hw : LockWait s u σ)
    (hs : step s t = some (s', out)) :
    LockWait s' u σ ∧
      ((t ≠ o ∧ Crit s' o σ k) ∨ (t = o ∧ k = 1 ∧ Crit s' o σ 0) ∨ (t = o ∧ k = 0 ∧ (s'.sigs σ).owner = none)) := by
  have htu : t ≠ u := by
    intro e; subst e
    have h1 := lockWait_blocked hw (by rw [hc.1]; intro e; cases e)
    rw [FR.enabled_of_step hs] at h1; cases h1
  refine ⟨lockWait_persist hr hw hs htu, ?_⟩
  by_cases hto : t = o
  · subst hto
    have h2 := crit_step hc hs
    have hk : k = 1 ∨ k = 0 := by
      obtain ⟨_, _, _, _, _, h | h⟩ := hc
      · exact Or.inl h.1
      · exact Or.inr h.1
    rcases hk with hk | hk
    · exact Or.inr (Or.inl ⟨rfl, hk, h2.2 hk⟩)
    · exact Or.inr (Or.inr ⟨rfl, hk, h2.1 hk⟩)
  · exact Or.inl ⟨hto, crit_persist hr hσ hc hs hto⟩

end Nstd.Future.F2
