/-
  Component "spurious budget" of the termination measure: `s.spurious` never increases, and a spurious wake-up
  (a thread leaves `pthread_cond_wait` while it is still in the wait set) consumes one unit of it.  Hence at most
  `cfg.spurious` iterations of the `Signal::wait` loops of a run are not caused by a `set`.
-/
import Nstd.Future.FairDist
set_option linter.unusedVariables false
set_option linter.unusedSimpArgs false
namespace Nstd.Future.FR

set_option maxHeartbeats 4000000 in
theorem flSpurLe (s : State) (t : Tid) (th : Thread) (fr : Frame) :
    (stepFrame s t th fr).1.spurious ≤ s.spurious := by
  cases fr
  case ring pc =>
    cases hp : s.pool with
    | none => simp only [stepFrame, hp]; exact Nat.le_refl _
    | some p =>
      simp only [stepFrame, hp]
      rcases hrs : ringStep p.ring pc with ⟨r', res⟩
      cases res with
      | cont pc' => exact Nat.le_refl _
      | pushed ok => exact Nat.le_refl _
      | popped o => rcases o with _ | _ | j <;> exact Nat.le_refl _
  all_goals
    simp only [stepFrame]
    repeat' split
  all_goals first
    | exact Nat.le_refl _
    | (simp [setThread, setSig, setPool, setFut, withFault, destroySig]; done)

end Nstd.Future.FR

namespace Nstd.Future
open FR

/-- the budget of spurious wake-ups never increases -/
theorem spurious_nonincreasing {s s' : State} {t : Tid} {o : List String} (h : step s t = some (s', o)) :
    s'.spurious ≤ s.spurious := by
  rcases hth : s.threads t with _ | th
  · simp [step, hth] at h
  · rcases hst : th.stack with _ | ⟨fr, rest⟩
    · simp [step, hth, hst] at h
    · rw [step_eq_stepFrame h hth hst]
      exact flSpurLe s t th fr

/-- ... along a run it is bounded by the configured budget -/
theorem spurious_le_budget {cfg : Config} {s : State} (hr : Reach cfg s) : s.spurious ≤ cfg.spurious := by
  induction hr with
  | init => exact Nat.le_refl _
  | step t _ hs ih => exact Nat.le_trans (spurious_nonincreasing hs) ih

/-- a spurious wake-up consumes one unit of the budget -/
theorem spurious_wakeup_consumes {s s' : State} {t : Tid} {o : List String} (h : step s t = some (s', o))
    {th : Thread} {σ : Nat} {rest : List Frame} (hth : s.threads t = some th)
    (hst : th.stack = .sWaitCwake σ :: rest) (hw : (s.sigs σ).waiters.contains t = true) :
    s'.spurious + 1 = s.spurious := by
  have he := step_eq_stepFrame h hth hst
  have hen := enabled_of_step h
  simp only [enabled, hth, hst, blockedFrame, hw, Bool.true_and, Bool.and_eq_true, Bool.not_eq_true',
    beq_eq_false_iff_ne, ne_eq] at hen
  rw [he]
  simp only [stepFrame, hw, if_true]
  simp [setThread, setSig]
  omega

end Nstd.Future
