/-
  `pool_maxT_ge_three`: every pool of a reachable state has `maxT ≥ 3` (pools are created by `mkPool` only and no
  step changes `maxT`).
-/
import Nstd.Future.Safety
set_option linter.unusedSimpArgs false
set_option linter.unusedVariables false
namespace Nstd.Future.SPK

def spkMaxOk (s : State) : Prop := ∀ p, s.pool = some p → 3 ≤ p.maxT

theorem spk_setFsState_maxT (p : Pool) (fs v : Nat) : (setFsState p fs v).maxT = p.maxT := by
  unfold setFsState; split <;> rfl

theorem spk_mkPool_maxT (q a b : Nat) : 3 ≤ (mkPool q a b).maxT := by
  simp only [mkPool]; split <;> omega

theorem spk_destroySig_pool (s : State) (σ : Nat) (t : Tid) : (destroySig s σ t).1.pool = s.pool := by
  simp [destroySig, setSig]

theorem spk_maxT_frame (s : State) (t : Tid) (th : Thread) (fr : Frame) (h : spkMaxOk s) :
    spkMaxOk (stepFrame s t th fr).1 := by
  cases fr
  all_goals
    rcases hp : s.pool with _ | p
  all_goals
    simp only [stepFrame, hp]
    repeat' split
  all_goals
    intro p' hp'
    first
      | (have h3 := h p'
         simp [setThread, setSig, setPool, setFut, withFault, destroySig, hp] at hp' h3
         first
           | exact h3
           | (subst hp'; simp [spk_setFsState_maxT, spk_mkPool_maxT]; done)
           | (subst hp'; simp [spk_setFsState_maxT, spk_mkPool_maxT]; exact h3)
           | (try subst hp'); grind [spk_setFsState_maxT, spk_mkPool_maxT])
      | (simp [setThread, setSig, setPool, setFut, withFault, destroySig, hp] at hp'; done)
      | (have h3 := h p
         simp [setThread, setSig, setPool, setFut, withFault, destroySig, hp] at hp' h3
         subst hp'
         simp [spk_setFsState_maxT, spk_mkPool_maxT, h3]; done)

theorem spk_maxT_reach {cfg : Config} {s : State} (hr : Reach cfg s) : spkMaxOk s := by
  induction hr with
  | init => intro p hp; simp [State.init] at hp
  | step t hr hs ih =>
    obtain ⟨th, fr, rest, hth, hst, hfin, rfl⟩ := step_inv hs
    exact spk_maxT_frame _ _ _ _ ih

end Nstd.Future.SPK
