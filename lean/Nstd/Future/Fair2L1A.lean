/-
  LEVEL 1: one micro-step of a frame that is neither a `push`/`pop` frame nor a thread creation.
-/
import Nstd.Future.Fair2L1Def
set_option linter.unusedVariables false
set_option linter.unusedSimpArgs false
namespace Nstd.Future.L1
open FR F2

theorem setFs_ctxs (p : Pool) (fs v : Nat) : (setFsState p fs v).ctxs = p.ctxs := by
  simp only [setFsState]; split <;> rfl
theorem setFs_ring (p : Pool) (fs v : Nat) : (setFsState p fs v).ring = p.ring := by
  simp only [setFsState]; split <;> rfl

theorem poolw_setFs (p : Pool) (fs v : Nat) : poolw (setFsState p fs v) = poolw p := by
  simp only [poolw, setFs_ctxs, setFs_ring]

theorem poolw_mk (q a b : Nat) : poolw (mkPool q a b) = 0 := by
  simp [poolw, mkPool, Ring.init]

set_option maxHeartbeats 4000000 in
/-- non-increase -/
theorem l1ShapeLe (N : Nat) (sc : List (List ClientOp)) (s : State) (t : Tid) (th : Thread) (fr : Frame)
    (rest : List Frame) (hst : th.stack = fr :: rest) (hrep : s.cfg.repaired = true)
    (hnr : ∀ pc, fr ≠ .ring pc) (hsp : FR.spawns fr = false)
    (hlen : ∀ p, s.pool = some p → p.ctxs.length ≤ N)
    (hcj : ∀ i w, fr = .cleanJoin i w → ∀ p, s.pool = some p → i < p.ctxs.length) :
    ∀ th', (stepFrame s t th fr).1.threads t = some th' → (stepFrame s t th fr).1.fault = none →
      thw N sc th' + poolTerm (stepFrame s t th fr).1 ≤ thw N sc th + poolTerm s := by
  cases fr
  case ring pc => exact absurd rfl (hnr pc)
  all_goals first | (simp [spawns] at hsp; done) | skip
  all_goals
    simp only [stepFrame, hrep]
    repeat' split
  all_goals
    intro th' h hf
    try simp [setThread, setSig, setPool, setFut, withFault, destroySig, upd, Thread.cont, hst] at h
    try simp [setThread, setSig, setPool, setFut, withFault, destroySig, upd, Thread.cont, hst] at hf
  all_goals
    first
    | (subst h
       (simp [thw, hst, w1, wonOf, ringOf, pcWon, List.length_eraseIdx, poolTerm, poolw, setFs_ctxs, setFs_ring, mkPool, Ring.init, setThread, setSig, setPool, setFut,
          withFault, destroySig, opw, dpw, *] <;> omega)
       done)
    | (subst h
       first | have hlt := fl_idx_lt (by assumption) | have hlt := hcj _ _ rfl _ (by assumption) | skip
       first | have hl := hlen _ (by assumption) | skip
       (simp [thw, hst, w1, wonOf, ringOf, pcWon, List.length_eraseIdx, poolTerm, poolw, setFs_ctxs, setFs_ring, mkPool, Ring.init, setThread, setSig, setPool, setFut,
          withFault, destroySig, opw, dpw, *] <;> omega)
       done)
    | (exfalso; simp_all; done)

end Nstd.Future.L1
