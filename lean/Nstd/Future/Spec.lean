import Nstd.Future.Model
/-
  Vocabulary of the C10 theorems: the projection of the full system onto the ring system,
  well-formed client scripts, and the predicates the property statements use.
-/
namespace Nstd.Future

/-- the ring program counter of a thread: its top frame, when that is a `push`/`pop` frame -/
def ringPcOf (th : Thread) : Option (RingPc Job) :=
  match th.stack with
  | .ring pc :: _ => some pc
  | _ => none

/-- capacity of the one pool a run creates (harness-created or lazily by `startProc`) -/
def capOf (cfg : Config) : Nat := if cfg.lazy then ceilPow2 0x100 else ceilPow2 cfg.q

/-- projection onto the closed ring system of `Ring.lean` (before the pool exists / after it is deleted: the initial ring) -/
def proj (s : State) : RingSys Job :=
  match s.pool with
  | some p => { ring := p.ring, pcs := fun t => match s.threads t with
      | some th => ringPcOf th
      | none => none }
  | none => RingSys.init (capOf s.cfg)

/-- futures a client script touches -/
def opFut : ClientOp → Nat
  | .start f _ _ | .join f | .result f | .abort f | .query f | .destroy f => f

/-- the `Future` class is not thread-safe for concurrent clients of ONE object (`_joinable`, `_aborting` are plain
    members): the property is about futures each used by one client thread.  Future ids are < 16. -/
def Config.WellFormed (cfg : Config) : Prop :=
  (∀ (i j : Nat) (si sj : List ClientOp), cfg.scripts[i]? = some si → cfg.scripts[j]? = some sj → i ≠ j →
      ∀ a ∈ si, ∀ b ∈ sj, opFut a ≠ opFut b) ∧
  (∀ sc ∈ cfg.scripts, ∀ a ∈ sc, opFut a < 16)

/-- frames of `Future<A>::proc` running call record `c` -/
def inProc (c : Nat) : Frame → Bool
  | .pCall c' | .pBody c' | .pStore c' | .pSetRd c' | .pSig c' | .pDelete c' => c' == c
  | .pSetX c' _ => c' == c
  | _ => false

/-- thread `t` is inside `proc` for call record `c` -/
def executes (s : State) (t : Tid) (c : Nat) : Prop :=
  ∃ th, s.threads t = some th ∧ ∃ fr ∈ th.stack, inProc c fr = true

/-- the top frame of thread `t` -/
def topFrame (s : State) (t : Tid) : Option Frame :=
  match s.threads t with
  | some th => th.stack.head?
  | none => none

/-- some started call has not completed yet -/
def pendingWork (s : State) : Prop := ∃ c, c < s.nextCall ∧ s.completed c = false

end Nstd.Future
