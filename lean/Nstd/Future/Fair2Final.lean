/-
  ASSEMBLY for weak fairness (current model, after fix 0005): helper facts about the spin lock and the final theorems
  that take only the LEVEL-1 facts (`L1`, `h1le`, `h1lt`: a counter of the work events `F2.workFr`) as hypotheses.
-/
import Nstd.Future.Fair2Lev
import Nstd.Future.Fair2Lev2
import Nstd.Future.Fair2Lev3
set_option linter.unusedVariables false
set_option linter.unusedSimpArgs false
namespace Nstd.Future.F2
open FR

variable {cfg : Config} {s : State}

/-- the spin-lock word is 0 or 1 -/
theorem tplock_le_one (hr : Reach cfg s) : s.tplock ≤ 1 := by
  induction hr with
  | init => simp [State.init]
  | step t hr hs ih =>
    obtain ⟨th, fr, rest, hth, hst, _, _, he⟩ := lkStep_inv hs
    subst he
    by_cases hk : FR.flTouch fr = false
    · rw [FR.flLockEq _ t th fr hk]; exact ih
    · cases fr <;> first | (exfalso; exact hk rfl) | skip
      · -- cSpin
        simp [stepFrame, setThread]
      · -- cUnlockTp
        simp [stepFrame, setThread]

/-- a failing `cSpin` leaves a reachable state unchanged -/
theorem failing_spin_fixpoint (hr : Reach cfg s) {t : Tid} {th : Thread} {c : Nat} {rest : List Frame}
    (hth : s.threads t = some th) (hst : th.stack = .cSpin c :: rest) (hl : s.tplock ≠ 0) :
    (stepFrame s t th (.cSpin c)).1 = s := by
  have h1 : s.tplock = 1 := by have := tplock_le_one hr; omega
  have hth' : th.cont [.cSpin c] = th := by
    cases th
    simp only [Thread.cont] at *
    simp [hst]
  have hupd : upd s.threads t (some th) = s.threads := by
    funext u
    by_cases hu : u = t
    · subst hu; simp [upd, hth]
    · simp [upd, hu]
  simp only [stepFrame, hl, ne_eq, not_false_eq_true, if_true, setThread, hth', hupd]
  cases s
  simp at h1 ⊢
  exact h1.symm

/-- LEVELS 2 AND 3 TOGETHER: a micro-step that is no work event does not increase `(lev2, lev3)` lexicographically -/
theorem lev23_step {s' : State} {t : Tid} {out : List String} {th : Thread} {fr : Frame} {rest : List Frame}
    (hrep : cfg.repaired = true) (hr : Reach cfg s) (h : step s t = some (s', out))
    (hth : s.threads t = some th) (hst : th.stack = fr :: rest) (hnw : ¬ workFr s th fr) :
    lev2 s' < lev2 s ∨ (lev2 s' = lev2 s ∧ lev3 s' ≤ lev3 s) := by
  by_cases hA : ∃ σ, fr = .sSetUnlock σ
  · obtain ⟨σ, rfl⟩ := hA
    exact Or.inl (lev2_set_strict (σ := σ) (g := 0) hrep hr h hth hst (Or.inr (Or.inr (Or.inr rfl))))
  · by_cases hB : ∃ σ, fr = .sWaitCwake σ ∧ t ∈ (s.sigs σ).waiters
    · obtain ⟨σ, rfl, hm⟩ := hB
      exact Or.inl (lev2_spurious_strict hr h hth hst rfl hm)
    · rcases lev2_step hrep hr h hth hst hnw with hlt | ⟨heq, hfl⟩
      · exact Or.inl hlt
      · refine Or.inr ⟨heq, lev3_step' hrep hr h hth hst hnw hfl ?_ ?_⟩
        · intro σ e hm
          exact hB ⟨σ, e, hm⟩
        · intro σ e
          exact hA ⟨σ, e⟩

/-- ... and strictly decreases it at the loop heads `FR.isBack` (when the state changes) -/
theorem lev23_back {s' : State} {t : Tid} {out : List String} {th : Thread} {fr : Frame} {rest : List Frame}
    (hrep : cfg.repaired = true) (hr : Reach cfg s) (h : step s t = some (s', out)) (hne : s' ≠ s)
    (hth : s.threads t = some th) (hst : th.stack = fr :: rest) (hnw : ¬ workFr s th fr)
    (hb : FR.isBack fr = true) :
    lev2 s' < lev2 s ∨ (lev2 s' = lev2 s ∧ lev3 s' < lev3 s) := by
  have hretB : (fr = .wChk2 ∨ (∃ j, fr = .runChk2 j) ∨ (∃ i, fr = .dChk2 i)) → th.retB = false := by
    intro hfr
    cases hx : th.retB
    · rfl
    · exfalso
      rcases hfr with rfl | ⟨j, rfl⟩ | ⟨i, rfl⟩ <;> exact hnw hx
  have hchk : (fr = .wChk2 ∨ (∃ j, fr = .runChk2 j) ∨ (∃ i, fr = .dChk2 i)) →
      lev2 s' < lev2 s ∨ (lev2 s' = lev2 s ∧ lev3 s' < lev3 s) := by
    intro hfr
    rcases lev2_step hrep hr h hth hst hnw with hlt | ⟨heq, hfl⟩
    · exact Or.inl hlt
    · exact Or.inr ⟨heq, lev3_chk2 hrep hr h hth hst hfr (hretB hfr) hfl⟩
  cases fr <;> first
    | (simp [FR.isBack] at hb; done)
    | (exfalso; exact hnw trivial)
    | skip
  case sWaitRelock σ =>
    rcases lev2_step hrep hr h hth hst hnw with hlt | ⟨heq, hfl⟩
    · exact Or.inl hlt
    · exact Or.inr ⟨heq, lev3_relock hrep hr h hth hst hfl⟩
  case wChk2 => exact hchk (Or.inl rfl)
  case runChk2 j => exact hchk (Or.inr (Or.inl ⟨j, rfl⟩))
  case dChk2 i => exact hchk (Or.inr (Or.inr ⟨i, rfl⟩))
  case cSpin c =>
    exfalso
    have hl : s.tplock ≠ 0 := hnw
    have he := step_eq_stepFrame h hth hst
    exact hne (he.trans (failing_spin_fixpoint hr hth hst hl))

end Nstd.Future.F2

namespace Nstd.Future
open F2

variable {cfg : Config} {σ : Nat → Tid} {run : Nat → State}

/-- THE PROGRESS RELATION IS WELL-FOUNDED, given a counter of the work events -/
theorem progresses_wf_of_lev1 (hrep : cfg.repaired = true) (L1 : State → Nat)
    (h1le : ∀ (s s' : State) (t : Tid) (o : List String), Reach cfg s → step s t = some (s', o) → L1 s' ≤ L1 s)
    (h1lt : ∀ (s s' : State) (t : Tid) (o : List String) (th : Thread) (fr : Frame) (rest : List Frame),
      Reach cfg s → step s t = some (s', o) → s' ≠ s → s.threads t = some th → th.stack = fr :: rest →
      workFr s th fr → L1 s' < L1 s) : WellFounded (Progresses cfg) :=
  progresses_wf_of_levels hrep L1 lev2 lev3 h1le h1lt
    (fun s s' t o th fr rest hr hs hth hst hnw => lev23_step hrep hr hs hth hst hnw)
    (fun s s' t o th fr rest hr hs hne hth hst hnw hb => lev23_back hrep hr hs hne hth hst hnw hb)

/-- WEAK FAIRNESS, current model: every weakly fair run terminates, given a counter `L1` of the work events
    (`F2.workFr`): non-increasing on every micro-step, strictly decreasing on every state-changing work event -/
theorem fair_runs_terminate_of_lev1 (hrep : cfg.repaired = true) (L1 : State → Nat)
    (h1le : ∀ (s s' : State) (t : Tid) (o : List String), Reach cfg s → step s t = some (s', o) → L1 s' ≤ L1 s)
    (h1lt : ∀ (s s' : State) (t : Tid) (o : List String) (th : Thread) (fr : Frame) (rest : List Frame),
      Reach cfg s → step s t = some (s', o) → s' ≠ s → s.threads t = some th → th.stack = fr :: rest →
      workFr s th fr → L1 s' < L1 s)
    (hf : FairRun cfg σ run) : ∃ n, ∀ t, enabled (run n) t = false :=
  fair_runs_terminate_of_wf (progresses_wf_of_lev1 hrep L1 h1le h1lt) hf

/-- ... in a complete success state -/
theorem join_eventually_of_lev1 (hrep : cfg.repaired = true) (hwf : cfg.WellFormed) (L1 : State → Nat)
    (h1le : ∀ (s s' : State) (t : Tid) (o : List String), Reach cfg s → step s t = some (s', o) → L1 s' ≤ L1 s)
    (h1lt : ∀ (s s' : State) (t : Tid) (o : List String) (th : Thread) (fr : Frame) (rest : List Frame),
      Reach cfg s → step s t = some (s', o) → s' ≠ s → s.threads t = some th → th.stack = fr :: rest →
      workFr s th fr → L1 s' < L1 s)
    (hf : FairRun cfg σ run) :
    ∃ n, (∀ t th, (run n).threads t = some th → th.finished = true) ∧
      (∀ c, c < (run n).nextCall →
        (run n).completed c = true ∧ (run n).execCount c = 1 ∧ (run n).freeCount c = 1) :=
  join_eventually_of_wf (progresses_wf_of_lev1 hrep L1 h1le h1lt) hrep hwf hf

end Nstd.Future
