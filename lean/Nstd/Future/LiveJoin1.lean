/-
  Join side of deadlock freedom, part 1: the strong caller link of queue operations
  (`slOk`: a `pop` frame sits directly on `wChk1/2`, a `push (some c)` frame directly on `runChk1/2 (some c)`),
  needed for token CONSERVATION (no token is lost when a queue operation returns).
-/
import Nstd.Future.Safety
set_option linter.unusedSimpArgs false
set_option linter.unusedVariables false
namespace Nstd.Future.LJ

def isWChk : Frame → Bool
  | .wChk1 | .wChk2 => true
  | _ => false

/-- the caller frame of a queue operation -/
def slOk : List Frame → Prop
  | .ring pc :: rest =>
      (isPop pc = true → rest.head?.any isWChk = true) ∧
      (∀ c, pushPay pc = some (some c) →
        rest.head? = some (.runChk1 (some c)) ∨ rest.head? = some (.runChk2 (some c)))
  | _ => True

theorem slOk_of_noSpec {l : List Frame} (h : NoSpec l) : slOk l := by
  cases l with
  | nil => trivial
  | cons a l =>
    have := h a (List.mem_cons_self ..)
    cases a <;> first | trivial | (simp [special] at this)

theorem slOk_cont {pc pc' : RingPc Job} {rest : List Frame} (h : slOk (.ring pc :: rest))
    (h1 : pushPay pc' = pushPay pc) (h2 : isPop pc' = isPop pc) : slOk (.ring pc' :: rest) := by
  simp only [slOk] at h ⊢
  rw [h1, h2]; exact h

set_option maxHeartbeats 8000000 in
theorem shapeSL (s : State) (t : Tid) (th : Thread) (fr : Frame) (rest : List Frame)
    (hth : s.threads t = some th) (hst : th.stack = fr :: rest)
    (hrest : NoSpec rest) (hok : slOk (fr :: rest)) :
    ∀ th', (stepFrame s t th fr).1.threads t = some th' → slOk th'.stack := by
  have hlr := slOk_of_noSpec hrest
  cases fr
  case ring pc =>
    intro th' h
    have key : ∀ (l : List Frame), (l = rest ∨ ∃ pc', l = .ring pc' :: rest ∧ pushPay pc' = pushPay pc ∧ isPop pc' = isPop pc) →
        th'.stack = l → slOk th'.stack := by
      intro l hl he
      rw [he]
      rcases hl with rfl | ⟨pc', rfl, h1, h2⟩
      · exact hlr
      · exact slOk_cont hok h1 h2
    cases hp : s.pool with
    | none =>
      simp only [stepFrame, hp] at h
      simp [withFault, hth] at h
      subst h
      rw [hst]; exact hok
    | some p =>
      simp only [stepFrame, hp] at h
      rcases hrs : ringStep p.ring pc with ⟨r', res⟩
      rw [hrs] at h
      cases res with
      | cont pc' =>
        obtain ⟨h1, h2⟩ := ringStep_cont hrs
        simp [setThread, upd_same] at h
        exact key _ (Or.inr ⟨pc', rfl, h1, h2⟩) (by subst h; simp [Thread.cont, hst])
      | pushed ok =>
        simp [setThread, upd_same] at h
        exact key _ (Or.inl rfl) (by subst h; simp [Thread.cont, hst])
      | popped o =>
        rcases o with _ | _ | j
        · simp [setThread, upd_same] at h
          exact key _ (Or.inl rfl) (by subst h; simp [Thread.cont, hst])
        · simp [setThread, withFault, upd_same] at h
          exact key _ (Or.inl rfl) (by subst h; simp [Thread.cont, hst])
        · simp [setThread, upd_same] at h
          exact key _ (Or.inl rfl) (by subst h; simp [Thread.cont, hst])
  all_goals
    simp only [stepFrame]
    repeat' split
  all_goals
    intro th' h
    simp [setThread, setSig, setPool, setFut, withFault, destroySig, upd_same, hth] at h
    subst h
    simp only [Thread.cont, hst, List.drop_one, List.tail_cons, List.cons_append, List.nil_append]
    first | exact hlr | exact hok | simp [slOk, pushPay, isPop, isWChk]

theorem sl_step {cfg : Config} {s s' : State} {t : Tid} {o : List String} (hr : Reach cfg s)
    (ih : ∀ t th, s.threads t = some th → slOk th.stack) (hs : step s t = some (s', o)) :
    ∀ t th, s'.threads t = some th → slOk th.stack := by
  obtain ⟨th, fr, rest, hth, hst, hfin, rfl⟩ := step_inv hs
  have hSim := reach_inv hr
  have hrest : NoSpec rest := by
    have := hSim.ringTopOnly t th hth
    rw [hst] at this; exact this
  have hok : StackOk (fr :: rest) := by rw [← hst]; exact (reach_safe hr).stk t th hth
  have hS := shapeS s t th fr rest hth hst hrest hok
  intro u thu hthu
  by_cases hu : u = t
  · subst hu
    exact shapeSL s u th fr rest hth hst hrest (by rw [← hst]; exact ih u th hth) thu hthu
  · rcases hS.others u hu with h2 | ⟨_, h3 | ⟨sc, h3⟩⟩
    · rw [h2] at hthu; exact ih u thu hthu
    · rw [hthu] at h3; injection h3 with h3; subst h3; trivial
    · rw [hthu] at h3; injection h3 with h3; subst h3; trivial

/-- the strong link holds in every reachable state -/
theorem reach_sl {cfg : Config} {s : State} (h : Reach cfg s) : ∀ t th, s.threads t = some th → slOk th.stack := by
  induction h with
  | init =>
    intro t th hth
    simp only [State.init] at hth
    split at hth
    · injection hth with hth; subst hth; trivial
    · cases hth
  | step t hr hs ih => exact sl_step hr ih hs

end Nstd.Future.LJ
