/-
  Spawn side of deadlock freedom, part 4: what one micro-step of a frame other than a `push`/`pop` frame does to the
  cover status of the stepping thread and to the pool fields the cover predicate reads (`spShapeC`).
-/
import Nstd.Future.LiveSpawn3
set_option linter.unusedSimpArgs false
set_option linter.unusedVariables false
namespace Nstd.Future.SP

open LS

theorem spHasCov_nil (pu mx : Nat) : spHasCov pu mx [] = false := rfl
theorem spHasCov_cons (pu mx : Nat) (a : Frame) (l : List Frame) :
    spHasCov pu mx (a :: l) = (spCovFr pu mx a || spHasCov pu mx l) := rfl

theorem spAStk_base (rb : Bool) (ab : Option (RingPc Job)) {l : List Frame} (h : LsAllB l) : spAStk rb ab l = 0 :=
  (spQuiet_stk rb none [] 0 0 (spAllQ_base h) ab).2.1
theorem spHasCov_base (pu mx : Nat) {l : List Frame} (h : LsAllB l) : spHasCov pu mx l = false :=
  (spQuiet_stk false none [] pu mx (spAllQ_base h) none).2.2.1

def spIsAdd : Frame → Nat
  | .runAdd => 1
  | _ => 0

/-- the decisive steps of the decision phase (treated one by one in LiveSpawn5) -/
def spDec (p : Pool) : Frame → Bool
  | .runRdProc idx => idx == p.pushed
  | .runRdTc busy => decide (1 ≤ busy)
  | .runSpChk => true
  | _ => false

def spPu (s : State) : Nat := match s.pool with | some p => p.pushed | none => 0
def spMx (s : State) : Nat := match s.pool with | some p => p.maxT | none => 0

theorem setFsState_pushed (p : Pool) (fs v : Nat) : (setFsState p fs v).pushed = p.pushed := by
  unfold setFsState; split <;> rfl
theorem setFsState_maxT (p : Pool) (fs v : Nat) : (setFsState p fs v).maxT = p.maxT := by
  unfold setFsState; split <;> rfl

structure SpShapeC (s s' : State) (t : Tid) (th : Thread) (p : Pool) (fr : Frame) : Prop where
  pool : s'.pool = none ∨ (lsRing s' = lsRing s ∧ spMx s' = spMx s ∧ spPu s' = spPu s + spIsAdd fr)
  cov : ∀ th', s'.threads t = some th' → s'.pool.isSome = true → spDec p fr = false →
      (decide (1 ≤ spAW th) || spHasCov (spPu s) (spMx s) th.stack) = true →
      (decide (1 ≤ spAW th') || spHasCov (spPu s') (spMx s') th'.stack) = true

set_option maxHeartbeats 16000000 in
theorem spShapeC (s : State) (t : Tid) (th : Thread) (fr : Frame) (rest : List Frame) (p : Pool)
    (hth : s.threads t = some th) (hst : th.stack = fr :: rest) (hnr : lsRingOf fr = none)
    (hrep : s.cfg.repaired = true) (hp : s.pool = some p) (hni : fr ≠ .mInit)
    (hnc : ∀ c, fr = .cRdTp2 c → s.tp = true)
    (hbA : lseC fr = true → ∀ rb ab, spAStk rb ab rest = 0)
    (hbC : lseC fr = true → ∀ pu mx, spHasCov pu mx rest = false) :
    SpShapeC s (stepFrame s t th fr).1 t th p fr := by
  cases fr
  case ring pc => cases hnr
  case mInit => exact absurd rfl hni
  case cRdTp2 c =>
    have htp := hnc c rfl
    simp only [stepFrame, htp, if_true]
    constructor
    · right; simp [lsRing, spMx, spPu, hp, setThread, spIsAdd]
    · intro th' h
      simp [setThread, upd_same] at h; subst h
      simp [spAW, spPu, spMx, hp, hst, Thread.cont, setThread, spAFr, lsRingOf, spHasCov_cons, spCovFr]
  all_goals
    have hbA' := hbA
    have hbC' := hbC
    simp only [lseC, lsC, Bool.or_self, Bool.or_false, Bool.or_true, forall_const, reduceCtorEq, false_implies] at hbA' hbC'
    simp only [stepFrame, hp]
    repeat' split
  all_goals
    constructor
    · simp [lsRing, spMx, spPu, hp, setThread, setSig, setPool, setFut, withFault, destroySig, LW.setFsState_ring,
        setFsState_pushed, setFsState_maxT, spIsAdd]
    · intro th' h
      simp [setThread, setSig, setPool, setFut, withFault, destroySig, upd_same, hth] at h
      subst h
      simp [spAW, spPu, spMx, hp, hst, hrep, Thread.cont, setThread, setSig, setPool, setFut, withFault, destroySig,
        spAFr, lsRingOf, lsCapt, spHasCov_cons, spHasCov_nil, spCovFr, spDec, setFsState_pushed, setFsState_maxT,
        hbA', hbC', *]
      try grind

end Nstd.Future.SP
