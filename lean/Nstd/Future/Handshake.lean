/-
  Property C10 — the completion handshake of a `Future` (include/nstd/Future.hpp: `join`, `set`;
  src/Future.cpp: `startProc`, `proc`), proved on the full micro-step model `Model.lean` for every
  well-formed configuration (each future is used by one client thread), all reachable states, all schedules,
  any number of threads.  `f` is a future id (< 16), its `_sig` is signal `f + 2`.

  Structure of the proof (files Handshake1 … Handshake19)
    1      vocabulary: `ExecFacts` (executor facts, proved in `Safety.lean`), ownership `Owns`, adjacency of frames
           `ChainOk`, quiet frames; generic shape lemma `hsShapeQ`
    2–4    stack discipline `Inv0`: client frames that mention a future belong to the client whose script uses it
           (scripts of different clients are disjoint by `WellFormed`), `sWait*` frames of a future signal sit on
           `sRstLock`, `sRst*` on `joinClr`, `join`/`joinClr` on a continuation (`cArm`, `evJoined`, `evResult`,
           `destroyF`), `sSet*` of a future signal on `pDelete c` with `fut c` that future; bookkeeping of records
    5      the handshake invariant `HsInv`
             q   : an uncompleted started call is the current call of its future, the future is joinable, its signal
                   is not set and its owner has not passed `wait` (or its client is still before `cArm`)
             r/i1/g2 : `joinable = false → signal reset`, `signal set → current call completed`,
                   `joinable = false → current call completed`
             top : obligations of the frame on top of a stack (`roleOf`): continuation of join → not joinable;
                   after `wait` saw the signal → current call completed; executor between the exchange of `_state`
                   and the store of `Signal::set` → joinable, signal not set, owner not past `wait`, current call completed
             uniq: at most one executor is between `pSetX` and `sSetStore` for one future
    6–14   preservation of `HsInv` frame by frame (`hs_generic`: a step changes the handshake data of one future)
    15–19  second layer `HsInv2`: `_state`/`result`/`abortReq` of the completed current call, the obligations of
           `pSetRd`/`pSetX`
    20–24  third layer `HsInv3` (repaired order of `Signal::set` only): a thread inside the critical section of a
           future signal holds its mutex; while an executor is in `Signal::set` after the store the future is
           joinable and its owner has not passed `wait`
  This file: the executor facts are discharged with `Safety.lean`; the hypothesis-free theorems.
-/
import Nstd.Future.Handshake24
import Nstd.Future.Safety
namespace Nstd.Future

theorem hsPreArm_eq : hsPreArm = preArm := by
  funext c fr; cases fr <;> rfl
theorem hsPreX_eq : hsPreX = preX := by
  funext c fr; cases fr <;> rfl

/-- the executor facts hold in every reachable state (`Safety.lean`) -/
theorem execFacts_of_reach {cfg : Config} (s : State) (h : Reach cfg s) : ExecFacts s :=
  ⟨safe_unique h, by rw [hsPreArm_eq]; exact safe_started h, by rw [hsPreX_eq]; exact safe_notDone h⟩

variable {cfg : Config} {s : State}

/-- `.joinClr f` is reached exactly when `join()`'s `_sig.wait(); _sig.reset();` have returned (destructor,
    result conversion and the join inside `startProc` all go through `Frame.join f`): the call started last on
    the future has completed — and its body has run exactly once. -/
theorem join_after_completion {t : Tid} {f c : Nat} (hwf : cfg.WellFormed) (h : Reach cfg s)
    (htop : topFrame s t = some (.joinClr f)) (hc : (s.futs f).curCall = some c) : s.completed c = true :=
  join_after_completion_of hwf execFacts_of_reach h htop hc

theorem join_after_completion_once {t : Tid} {f c : Nat} (hwf : cfg.WellFormed) (h : Reach cfg s)
    (htop : topFrame s t = some (.joinClr f)) (hc : (s.futs f).curCall = some c) :
    s.completed c = true ∧ s.execCount c = 1 :=
  ⟨join_after_completion hwf h htop hc, completed_exec_once h (join_after_completion hwf h htop hc)⟩

/-- a join that returns immediately (`_joinable == false`): the call started last has completed -/
theorem joined_means_completed {f c : Nat} (hwf : cfg.WellFormed) (h : Reach cfg s)
    (hj : (s.futs f).joinable = false) (hc : (s.futs f).curCall = some c) : s.completed c = true :=
  joined_means_completed_of hwf execFacts_of_reach h hj hc

/-- `evResult f` sits below `join f` on the stack, so when it is on top the join has returned: the value read
    is the return value of the body (`a * 100 + b` in the model, as in the harness) of the call started last -/
theorem result_is_return_value {t : Tid} {f c : Nat} {r : CallRec} (hwf : cfg.WellFormed) (h : Reach cfg s)
    (htop : topFrame s t = some (.evResult f)) (hf : f < 8) (hc : (s.futs f).curCall = some c)
    (hr : s.everCalls c = some r) : (s.futs f).result = some (r.a * 100 + r.b) :=
  result_is_return_value_of hwf execFacts_of_reach h htop hf hc hr

/-- after a join the state is finished (2) or aborted (3), and aborted only if `abort()` was called after the
    start armed the future -/
theorem state_after_join {f c : Nat} (hwf : cfg.WellFormed) (h : Reach cfg s)
    (hj : (s.futs f).joinable = false) (hc : (s.futs f).curCall = some c) :
    ((s.futs f).state = 2 ∨ (s.futs f).state = 3) ∧ ((s.futs f).state = 3 → (s.futs f).abortReq = true) :=
  state_after_join_of hwf execFacts_of_reach h hj hc

/-! ### corollaries of the first layer -/

/-- the Signal of a future is set only after the call started last has completed -/
theorem signal_means_completed {f c : Nat} (hwf : cfg.WellFormed) (h : Reach cfg s)
    (hsig : (s.sigs (f + 2)).signaled = true) (hc : (s.futs f).curCall = some c) : s.completed c = true :=
  (reach_hs hwf execFacts_of_reach h).i1 f hsig c hc

/-- `startProc` arms a future (`_joinable = true; …; run`) only after the previous call on it has completed -/
theorem restart_after_completion {t : Tid} {c' c : Nat} {r : CallRec} (hwf : cfg.WellFormed) (h : Reach cfg s)
    (htop : topFrame s t = some (.cArm c')) (hr : s.calls c' = some r) (hc : (s.futs r.fut).curCall = some c) :
    s.completed c = true := by
  have hH := reach_hs hwf execFacts_of_reach h
  have hev := (reach_inv0 h).callsEv c' r hr
  have hj : jn s r.fut = false := hH.top t .after r.fut ⟨_, role_of_topFrame htop, by simp [roleOf, hev]⟩
  exact hH.g2 _ hj c hc

/-- `~Future` destroys the object only after the call started last has completed -/
theorem destroy_after_completion {t : Tid} {f c : Nat} (hwf : cfg.WellFormed) (h : Reach cfg s)
    (htop : topFrame s t = some (.destroyF f)) (hc : (s.futs f).curCall = some c) : s.completed c = true := by
  have hH := reach_hs hwf execFacts_of_reach h
  exact hH.g2 _ (hH.top t .after f ⟨_, role_of_topFrame htop, rfl⟩) c hc

/-! ### third layer: the Signal of a future in the repaired code (`Signal::set` broadcasts before it unlocks) -/

/-- mutual exclusion on the mutex of a future signal, including re-created signals: a thread inside the critical
    section holds the mutex -/
theorem future_signal_owner {u : Tid} {x : Frame} {σ : Nat} (hwf : cfg.WellFormed) (hrep : cfg.repaired = true)
    (h : Reach cfg s) (hσ : 2 ≤ σ) (hx : topFrame s u = some x) (hc : critS σ x = true) :
    (s.sigs σ).owner = some u :=
  (reach_hs3 hwf hrep execFacts_of_reach h).own u x σ hσ (role_of_topFrame hx) hc

theorem future_signal_mutex {u v : Tid} {x y : Frame} {σ : Nat} (hwf : cfg.WellFormed) (hrep : cfg.repaired = true)
    (h : Reach cfg s) (hσ : 2 ≤ σ) (hx : topFrame s u = some x) (hcx : critS σ x = true)
    (hy : topFrame s v = some y) (hcy : critS σ y = true) : u = v := by
  have h1 := future_signal_owner hwf hrep h hσ hx hcx
  have h2 := future_signal_owner hwf hrep h hσ hy hcy
  rw [h1] at h2; injection h2

/-- when `~Future` destroys the Signal of a future, no other thread is inside any operation on that Signal
    (no use of a destroyed mutex / condition variable); in the ORIGINAL order of `Signal::set` this fails
    (broadcast after unlock) -/
theorem destroy_no_signal_user {t u : Tid} {f : Nat} {x : Frame} (hwf : cfg.WellFormed)
    (hrep : cfg.repaired = true) (h : Reach cfg s) (htop : topFrame s t = some (.destroyF f))
    (hu : u ≠ t) (hx : topFrame s u = some x) : sigFrameOf (f + 2) x = false :=
  no_sig_user (by rw [reach_cfg h]; exact hwf) (reach_inv0 h) (reach_hs hwf execFacts_of_reach h)
    (reach_hs3 hwf hrep execFacts_of_reach h) ⟨_, role_of_topFrame htop, rfl⟩ hu (role_of_topFrame hx)

/-! ### non-vacuity: a well-formed configuration with two clients on different futures -/

def hsCfg : Config :=
  { q := 4, minT := 0, maxT := 3, lazy := false, tick := 1, spurious := 1, repaired := true,
    scripts := [[.start 0 1 2, .result 0, .start 0 5 6, .join 0], [.start 9 3 4, .abort 9, .join 9, .destroy 9]] }

example : hsCfg.WellFormed := by
  constructor
  · intro i j si sj hi hj hij
    rcases i with _ | _ | i <;> rcases j with _ | _ | j <;> simp [hsCfg] at hi hj <;>
      first
        | exact absurd rfl hij
        | (subst hi; subst hj; decide)
  · decide

end Nstd.Future
