/-
  Join side of deadlock freedom, part 5: the Signal of a future is `SigClean` in every reachable state of the
  repaired code (well-formed configurations) — also after `~Future` destroyed and re-created it.
  Consequence: a thread sleeping on a SET future signal is never the only hope (`future_sleeper_has_setter`).
-/
import Nstd.Future.LiveJoin4
import Nstd.Future.Handshake
import Nstd.Future.Progress
set_option linter.unusedSimpArgs false
set_option linter.unusedVariables false
namespace Nstd.Future.LJ

theorem crit_sigFrame {cfg : Config} {σ : Nat} {x : Frame} (h : critFrame cfg σ x = true) : sigFrameOf σ x = true := by
  cases x <;> simp [critFrame, critF, sigFrameOf] at h ⊢ <;> first | exact h | exact h.2

theorem future_sigClean {cfg : Config} {s : State} (hwf : cfg.WellFormed) (hrep : cfg.repaired = true)
    (h : Reach cfg s) (f : Nat) : SigClean cfg s (f + 2) := by
  induction h with
  | init => exact sigClean_of_neverDestroyed Reach.init ⟨rfl, rfl⟩
  | step t hr hs ih =>
    rename_i s0 s1 o
    cases Classical.em (topFrame s0 t = some (.destroyF f)) with
    | inl ht =>
      apply sigClean_recreated hr ht hs
      intro u fr hu hfr
      cases hc : critFrame cfg (f + 2) fr with
      | false => rfl
      | true =>
        have := destroy_no_signal_user hwf hrep hr ht hu hfr
        rw [crit_sigFrame hc] at this; cases this
    | inr ht =>
      apply sigClean_step hr ih hs
      intro fr hfr
      cases fr <;> simp [destroys]
      case destroyF f' =>
        intro e
        apply ht
        have : f' = f := by omega
        rw [hfr, this]

/-- a sleeper on a set future signal: the thread that owes the broadcast can step -/
theorem future_sleeper_has_setter {cfg : Config} {s : State} (hwf : cfg.WellFormed) (hrep : cfg.repaired = true)
    (h : Reach cfg s) {f : Nat} {t : Tid} (ht : t ∈ (s.sigs (f + 2)).waiters)
    (hs : (s.sigs (f + 2)).signaled = true) : ∃ u, u ≠ t ∧ enabled s u = true :=
  (future_sigClean hwf hrep h f).enabled_setter h ht hs

end Nstd.Future.LJ
