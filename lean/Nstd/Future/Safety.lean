/-
  Safety of libnstd's Future / ThreadPool (model `Nstd.Future.Model`; both `cfg.repaired` values, every
  schedule, any number of threads).  No hypothesis besides `Reach cfg s`.

    A  exactly-once (safety half) and argument integrity
         exec_at_most_once, exec_args_are_start_args, exec_by_worker, executor_unique, executor_frame_unique,
         exec_count_of_executor, completed_exec_once
    B  record lifetime
         call_record_freed_once, exec_record_alive, client_record_alive, holder_record_alive,
         no_fault_partial        (fault = none ∨ fault = some "no pool")
         `SafetyFault.no_fault`  (fault = none; uses `Progress6.no_pool_fault` of the progress proof)
         `Safety8` (namespace `Safe`): pool_of_nonworker, no_fault_of_workerPool  -- own proof of the "no pool"
            part for client threads and the main thread; `Safety9`: pool_mutex_exclusive
    facts exported to the completion-handshake proof (`Handshake*.lean`)
         defs preArm, preX; safe_unique, safe_started, safe_notDone;
         everCalls_isSome_iff, everCalls_stable, nextCall_mono, step_facts

  Proof: ONE TOKEN per call record (`Safety1`):
     Σ_threads weight c + (tokens of c in the ring) + freeCount c ≤ 1          (`SafeInv.tok`)
     execCount c = Σ_threads #frames pBody c … pDelete c + freeCount c          (`SafeInv.exe`)
     completed c → 1 ≤ Σ_threads #frames pSig c, pDelete c + freeCount c        (`SafeInv.comp`)
  are inductive (`Safety6.reach_safe`); the ring facts needed (a popper reads the payload pushed with its
  ticket; tickets are popped once) come from `SimRing`.  The invariant does not mention the pool's life
  cycle: when the pool is deleted the ring tokens just disappear, so parts A/B need no liveness of workers.

  Files: Safety1 vocabulary · Safety2 stack discipline (`StackOk`, `LastOnly`) · Safety3 token balance of a
  step (110 frames, automation) · Safety4 the same for `push`/`pop` micro-steps · Safety5 record table ·
  Safety6 `SafeInv` · Safety7/8/9 (namespace `Safe`) pool existence for clients/main, pool mutex.

  OPEN: nothing of parts A/B.  Part C (completion handshake) was reassigned to `Handshake*.lean`.
  Not done here: an own proof of `WorkerPool` (live worker ⇒ pool exists) — superseded by `Progress6`.
-/
import Nstd.Future.Safety8
set_option linter.unusedSimpArgs false
set_option linter.unusedVariables false
namespace Nstd.Future

/-! ### list lemmas -/

theorem lsum_mem {g : Frame → Nat} {l : List Frame} {f : Frame} (h : f ∈ l) : g f ≤ lsum g l := by
  induction l with
  | nil => cases h
  | cons a l ih =>
    simp only [lsum_cons]
    rcases List.mem_cons.mp h with rfl | h
    · omega
    · have := ih h; omega

theorem lsum_mem2 {g : Frame → Nat} {l : List Frame} {f f' : Frame} (h : f ∈ l) (h' : f' ∈ l) (hne : f ≠ f') :
    g f + g f' ≤ lsum g l := by
  induction l with
  | nil => cases h
  | cons a l ih =>
    have hcons : lsum g (a :: l) = g a + lsum g l := rfl
    rcases List.mem_cons.mp h with h1 | h1
    · rcases List.mem_cons.mp h' with h2 | h2
      · exact absurd (h1.trans h2.symm) hne
      · have := lsum_mem (g := g) h2; rw [h1]; omega
    · rcases List.mem_cons.mp h' with h2 | h2
      · have := lsum_mem (g := g) h1; rw [h2]; omega
      · have := ih h1 h2; omega

theorem lsum_pos {g : Frame → Nat} {l : List Frame} (h : 1 ≤ lsum g l) : ∃ f ∈ l, 1 ≤ g f := by
  induction l with
  | nil => simp at h
  | cons a l ih =>
    simp only [lsum_cons] at h
    by_cases ha : 1 ≤ g a
    · exact ⟨a, List.mem_cons_self .., ha⟩
    · obtain ⟨f, hf, h1⟩ := ih (by omega)
      exact ⟨f, List.mem_cons_of_mem _ hf, h1⟩

theorem lsum_single {g w : Frame → Nat} (hle : ∀ f, g f ≤ w f) {l : List Frame} {fr : Frame} (hfr : fr ∈ l)
    (h1 : w fr = 1) (hs : lsum w l ≤ 1) : lsum g l = g fr := by
  induction l with
  | nil => cases hfr
  | cons a l ih =>
    simp only [lsum_cons] at hs ⊢
    rcases List.mem_cons.mp hfr with rfl | hfr'
    · have h2 : lsum g l ≤ lsum w l := by
        clear ih hfr hs
        induction l with
        | nil => exact Nat.le_refl _
        | cons b l ih2 => simp only [lsum_cons]; have := hle b; omega
      omega
    · have := lsum_mem (g := w) hfr'
      have := hle a
      have := ih hfr' (by omega)
      omega

theorem lsum_le {g g' : Frame → Nat} (h : ∀ f, g f ≤ g' f) (l : List Frame) : lsum g l ≤ lsum g' l := by
  induction l with
  | nil => exact Nat.le_refl _
  | cons a l ih => simp only [lsum_cons]; have := h a; omega

/-- frames of `startProc` before the future is armed (`threadPool->run` not yet called) -/
def preArm (c : Nat) : Frame → Bool
  | .cRdTp c' | .cSpin c' | .cRdTp2 c' | .cSwapTp c' | .cUnlockTp c' | .cJoin c' | .cArm c' => c' == c
  | _ => false
/-- frames of `proc` up to the publication of the state -/
def preX (c : Nat) : Frame → Bool
  | .pCall c' | .pBody c' | .pStore c' | .pSetRd c' => c' == c
  | .pSetX c' _ => c' == c
  | _ => false

/-- frames that carry the token of `c` whatever the thread registers say -/
def hv (c : Nat) (f : Frame) : Nat := if preArm c f = true ∨ inProc c f = true then 1 else 0

theorem hv_le_fw (c : Nat) (rj : Job) (f : Frame) : hv c f ≤ fw c rj f := by
  cases f <;> simp [hv, preArm, inProc, fw] <;> (try split) <;> simp_all

theorem hv_le_topW (c : Nat) (rb : Bool) (rj : Job) (f : Frame) : hv c f ≤ topW c rb rj f := by
  cases f <;> simp [hv, preArm, inProc, topW, fw] <;> (try split) <;> simp_all

theorem lsum_hv_le_base (c : Nat) (rj : Job) (l : List Frame) : lsum (hv c) l ≤ base c rj l := by
  induction l with
  | nil => exact Nat.le_refl _
  | cons a l ih => simp only [lsum_cons, base_cons]; have := hv_le_fw c rj a; omega

theorem lsum_hv_le_weight (c : Nat) (th : Thread) : lsum (hv c) th.stack ≤ weight c th := by
  simp only [weight]
  cases th.stack with
  | nil => exact Nat.le_refl _
  | cons a l =>
    simp only [lsum_cons, wS_cons]
    have := hv_le_topW c th.retB th.retJob a
    have := lsum_hv_le_base c th.retJob l
    omega

theorem pw2_le_hv (c : Nat) (f : Frame) : pw2 c f ≤ hv c f := by
  cases f <;> simp [hv, preArm, inProc, pw2] <;> (try split) <;> simp_all

theorem pw3_le_hv (c : Nat) (f : Frame) : pw3 c f ≤ hv c f := by
  cases f <;> simp [hv, preArm, inProc, pw3] <;> (try split) <;> simp_all

theorem pw3_le_pw2 (c : Nat) (f : Frame) : pw3 c f ≤ pw2 c f := by
  cases f <;> simp [pw2, pw3]

theorem pw3_not_preX {c : Nat} {f : Frame} (h : 1 ≤ pw3 c f) : preX c f = false := by
  cases f <;> simp [pw3, preX] at h ⊢

theorem hv_inProc {c : Nat} {f : Frame} (h : inProc c f = true) : hv c f = 1 := by simp [hv, h]
theorem hv_preArm {c : Nat} {f : Frame} (h : preArm c f = true) : hv c f = 1 := by simp [hv, h]
theorem preX_inProc {c : Nat} {f : Frame} (h : preX c f = true) : inProc c f = true := by
  cases f <;> simp [preX, inProc] at h ⊢ <;> exact h
theorem inProc_not_preArm {c : Nat} {f : Frame} (h : inProc c f = true) : preArm c f = false := by
  cases f <;> simp [preArm, inProc] at h ⊢
theorem inProc_isW {c : Nat} {f : Frame} (h : inProc c f = true) : isW f = true := by
  cases f <;> simp [isW, inProc] at h ⊢

section
variable {cfg : Config} {s : State}

theorem thread_lt (h : Reach cfg s) {t : Tid} {th : Thread} (hth : s.threads t = some th) : t < s.nthreads := by
  cases Nat.lt_or_ge t s.nthreads with
  | inl h1 => exact h1
  | inr h1 => have := (reach_inv h).fresh t h1; rw [hth] at this; cases this

/-- a thread that has a token frame of `c` holds the token -/
theorem holder_weight (h : Reach cfg s) {t : Tid} {th : Thread} {f : Frame} {c : Nat}
    (hth : s.threads t = some th) (hf : f ∈ th.stack) (hh : hv c f = 1) : 1 ≤ wt s c t := by
  have h1 := lsum_mem (g := hv c) hf
  have h2 := lsum_hv_le_weight c th
  simp only [wt, hth]; omega

/-- ... so it is the only one, the record has not been freed, no token is in the ring -/
theorem holder_facts (h : Reach cfg s) {t : Tid} {th : Thread} {f : Frame} {c : Nat}
    (hth : s.threads t = some th) (hf : f ∈ th.stack) (hh : hv c f = 1) :
    s.freeCount c = 0 ∧ ringTok c s.pool = 0 ∧ c < s.nextCall ∧ tsum s.nthreads (wt s c) = 1 ∧ wt s c t = 1 := by
  have hI := reach_safe h
  have h1 := holder_weight h hth hf hh
  have h2 := tsum_ge (f := wt s c) (thread_lt h hth)
  have h3 := hI.tok c
  refine ⟨by omega, by omega, ?_, by omega, by omega⟩
  cases Nat.lt_or_ge c s.nextCall with
  | inl h => exact h
  | inr h => have := (hI.zero c h).1; omega

theorem holders_same_thread (h : Reach cfg s) {t u : Tid} {th thu : Thread} {f g : Frame} {c : Nat}
    (hth : s.threads t = some th) (hf : f ∈ th.stack) (hh : hv c f = 1)
    (hthu : s.threads u = some thu) (hg : g ∈ thu.stack) (hhg : hv c g = 1) : t = u := by
  cases Classical.em (t = u) with
  | inl e => exact e
  | inr hne =>
    have h1 := holder_weight h hth hf hh
    have h2 := holder_weight h hthu hg hhg
    have h3 := tsum_ge2 (f := wt s c) (thread_lt h hth) (thread_lt h hthu) hne
    have := (reach_safe h).tok c
    omega

theorem holders_same_frame (h : Reach cfg s) {t : Tid} {th : Thread} {f g : Frame} {c : Nat}
    (hth : s.threads t = some th) (hf : f ∈ th.stack) (hh : hv c f = 1)
    (hg : g ∈ th.stack) (hhg : hv c g = 1) : f = g := by
  cases Classical.em (f = g) with
  | inl e => exact e
  | inr hne =>
    have h1 := lsum_mem2 (g := hv c) hf hg hne
    have h2 := lsum_hv_le_weight c th
    have h3 := (holder_facts h hth hf hh).2.2.2.2
    simp only [wt, hth] at h3
    omega

/-! ### A. exactly-once (safety half) and argument integrity -/

theorem exec_at_most_once (h : Reach cfg s) (c : Nat) : s.execCount c ≤ 1 := by
  have hI := reach_safe h
  have h1 := hI.exe c
  have h2 := hI.tok c
  have h3 : tsum s.nthreads (wtG (pw2 c) s) ≤ tsum s.nthreads (wt s c) := by
    apply tsum_le_mono
    intro u _
    simp only [wtG, wt]
    cases hu : s.threads u with
    | none => exact Nat.le_refl _
    | some thu =>
      have := lsum_le (pw2_le_hv c) thu.stack
      have := lsum_hv_le_weight c thu
      simp only; omega
  omega

theorem exec_args_are_start_args (h : Reach cfg s) {c : Nat} {a b : Int} (he : s.execArgs c = some (a, b)) :
    ∃ r, s.everCalls c = some r ∧ r.a = a ∧ r.b = b :=
  (reach_safe h).args c a b he

theorem exec_by_worker (h : Reach cfg s) {t : Tid} {c : Nat} (he : executes s t c) :
    ∃ th, s.threads t = some th ∧ th.isWorker = true := by
  obtain ⟨th, hth, fr, hfr, hp⟩ := he
  refine ⟨th, hth, ?_⟩
  cases hw : th.isWorker with
  | true => rfl
  | false =>
    have := (reach_safe h).wk t th hth hw fr hfr
    rw [inProc_isW hp] at this; cases this

theorem executor_unique (h : Reach cfg s) {t u : Tid} {c : Nat} (ht : executes s t c) (hu : executes s u c) :
    t = u := by
  obtain ⟨th, hth, f, hf, hp⟩ := ht
  obtain ⟨thu, hthu, g, hg, hq⟩ := hu
  exact holders_same_thread h hth hf (hv_inProc hp) hthu hg (hv_inProc hq)

/-- a thread is inside `proc` for `c` with exactly one frame -/
theorem executor_frame_unique (h : Reach cfg s) {t : Tid} {th : Thread} {c : Nat} {f g : Frame}
    (hth : s.threads t = some th) (hf : f ∈ th.stack) (hp : inProc c f = true)
    (hg : g ∈ th.stack) (hq : inProc c g = true) : f = g :=
  holders_same_frame h hth hf (hv_inProc hp) hg (hv_inProc hq)

/-! ### B. record lifetime -/

theorem call_record_freed_once (h : Reach cfg s) (c : Nat) : s.freeCount c ≤ 1 := by
  have := (reach_safe h).tok c; omega

/-- the record is alive while a token frame of it exists (client before `run`, or the executor) -/
theorem holder_record_alive (h : Reach cfg s) {t : Tid} {th : Thread} {fr : Frame} {c : Nat}
    (hth : s.threads t = some th) (hfr : fr ∈ th.stack) (hh : hv c fr = 1) :
    ∃ r, s.calls c = some r ∧ s.everCalls c = some r := by
  obtain ⟨h1, _, h3, _⟩ := holder_facts h hth hfr hh
  obtain ⟨r1, r2 | r2⟩ := (reach_safe h).recs c h3
  · cases he : s.everCalls c with
    | none => exact absurd he r1
    | some r => exact ⟨r, by rw [r2, he], rfl⟩
  · omega

/-- the record of `c` is alive as long as its executor has a `proc` frame (`pDelete c` is the last one) -/
theorem exec_record_alive (h : Reach cfg s) {t : Tid} {th : Thread} {fr : Frame} {c : Nat}
    (hth : s.threads t = some th) (hfr : fr ∈ th.stack) (hp : inProc c fr = true) :
    ∃ r, s.calls c = some r ∧ s.everCalls c = some r :=
  holder_record_alive h hth hfr (hv_inProc hp)

/-- ... and while the starting client is in `startProc` before `run` -/
theorem client_record_alive (h : Reach cfg s) {t : Tid} {th : Thread} {fr : Frame} {c : Nat}
    (hth : s.threads t = some th) (hfr : fr ∈ th.stack) (hp : preArm c fr = true) :
    ∃ r, s.calls c = some r ∧ s.everCalls c = some r :=
  holder_record_alive h hth hfr (hv_preArm hp)

/-- the model's fault flag never fires for "call record used after delete", "call record deleted twice",
    "pop read a raw slot" (the only message left is "no pool": a thread in pool code while no pool exists) -/
theorem no_fault_partial (h : Reach cfg s) : s.fault = none ∨ s.fault = some "no pool" :=
  (reach_safe h).flt

/-! ### facts for the completion handshake -/

theorem safe_unique (h : Reach cfg s) : ∀ t u c, executes s t c → executes s u c → t = u :=
  fun _ _ _ ht hu => executor_unique h ht hu

/-- a record reaches a worker only after its client has left the prefix of `startProc` -/
theorem safe_started (h : Reach cfg s) : ∀ t c, executes s t c →
    c < s.nextCall ∧ ∀ u thu fr, s.threads u = some thu → fr ∈ thu.stack → preArm c fr = false := by
  intro t c ⟨th, hth, f, hf, hp⟩
  refine ⟨(holder_facts h hth hf (hv_inProc hp)).2.2.1, ?_⟩
  intro u thu fr hthu hfr
  cases hpa : preArm c fr with
  | false => rfl
  | true =>
    have htu := holders_same_thread h hth hf (hv_inProc hp) hthu hfr (hv_preArm hpa)
    subst htu
    rw [hth] at hthu; injection hthu with hthu; subst hthu
    have := holders_same_frame h hth hf (hv_inProc hp) hfr (hv_preArm hpa)
    subst this
    rw [inProc_not_preArm hp] at hpa; cases hpa

/-- once the state of `c` is published no thread is at `pCall … pSetX` for `c` -/
theorem safe_notDone (h : Reach cfg s) : ∀ t th fr c, s.threads t = some th → fr ∈ th.stack →
    preX c fr = true → s.completed c = false := by
  intro t th fr c hth hfr hpx
  cases hc : s.completed c with
  | false => rfl
  | true =>
    exfalso
    have hI := reach_safe h
    have hp := preX_inProc hpx
    obtain ⟨h1, _, _, _⟩ := holder_facts h hth hfr (hv_inProc hp)
    have h2 := hI.comp c hc
    have h5 : 1 ≤ tsum s.nthreads (wtG (pw3 c) s) := by omega
    obtain ⟨u, hu, h3⟩ := tsum_pos h5
    simp only [wtG] at h3
    cases hthu : s.threads u with
    | none => rw [hthu] at h3; simp at h3
    | some thu =>
      rw [hthu] at h3
      obtain ⟨g, hg, h4⟩ := lsum_pos h3
      have hg1 : hv c g = 1 := by
        have := pw3_le_hv c g
        have : hv c g ≤ 1 := by simp only [hv]; split <;> omega
        omega
      have htu := holders_same_thread h hth hfr (hv_inProc hp) hthu hg hg1
      subst htu
      rw [hth] at hthu; injection hthu with hthu; subst hthu
      have := holders_same_frame h hth hfr (hv_inProc hp) hg hg1
      subst this
      rw [pw3_not_preX h4] at hpx; cases hpx

/-- a completed call has been executed exactly once -/
theorem completed_exec_once (h : Reach cfg s) {c : Nat} (hc : s.completed c = true) : s.execCount c = 1 := by
  have hI := reach_safe h
  have h1 := hI.comp c hc
  have h2 := hI.exe c
  have h3 : tsum s.nthreads (wtG (pw3 c) s) ≤ tsum s.nthreads (wtG (pw2 c) s) := by
    apply tsum_le_mono
    intro u _
    simp only [wtG]
    cases s.threads u with
    | none => exact Nat.le_refl _
    | some thu => exact lsum_le (pw3_le_pw2 c) thu.stack
  have := exec_at_most_once h c
  omega

/-- execution count seen from the executor: 0 at `pCall c`, 1 from `pBody c` on -/
theorem exec_count_of_executor (h : Reach cfg s) {t : Tid} {th : Thread} {fr : Frame} {c : Nat}
    (hth : s.threads t = some th) (hfr : fr ∈ th.stack) (hp : inProc c fr = true) :
    s.execCount c = pw2 c fr := by
  have hI := reach_safe h
  obtain ⟨h1, _, _, h4, h5⟩ := holder_facts h hth hfr (hv_inProc hp)
  have h2 := hI.exe c
  have hlt := thread_lt h hth
  -- all pw2 weight sits in thread t, in frame fr
  have hsum : tsum s.nthreads (wtG (pw2 c) s) = wtG (pw2 c) s t := by
    have hle : ∀ u, u < s.nthreads → wtG (pw2 c) s u ≤ wt s c u := by
      intro u _
      simp only [wtG, wt]
      cases hu : s.threads u with
      | none => exact Nat.le_refl _
      | some thu =>
        have := lsum_le (pw2_le_hv c) thu.stack
        have := lsum_hv_le_weight c thu
        simp only; omega
    have hz : ∀ u, u < s.nthreads → u ≠ t → wtG (pw2 c) s u = 0 := by
      intro u hu hne
      have := tsum_ge2 (f := wt s c) hu hlt hne
      have := hle u hu
      omega
    have := tsum_upd (f := wtG (pw2 c) s) (g := fun u => if u = t then 0 else wtG (pw2 c) s u) hlt
      (fun u hu hne => by simp [hne])
    have hz2 : tsum s.nthreads (fun u => if u = t then 0 else wtG (pw2 c) s u) = 0 := by
      rw [show (fun u => if u = t then 0 else wtG (pw2 c) s u) = fun u => if u < s.nthreads then 0 else wtG (pw2 c) s u from ?_]
      · rw [tsum_congr (g := fun _ => 0) (fun u hu => by simp [hu])]; exact tsum_const_zero _
      · funext u
        by_cases hut : u = t
        · simp [hut, hlt]
        · by_cases hun : u < s.nthreads
          · simp [hut, hun, hz u hun hut]
          · simp [hut, hun]
    simp only [if_true] at this
    omega
  have hfrm : lsum (pw2 c) th.stack = pw2 c fr := by
    apply lsum_single (pw2_le_hv c) hfr (hv_inProc hp)
    have := lsum_hv_le_weight c th
    simp only [wt, hth] at h5
    omega
  simp only [wtG, hth] at hsum
  omega

end

/-! ### the record table -/

section
variable {cfg : Config} {s : State}

theorem everCalls_isSome_iff (h : Reach cfg s) (c : Nat) : c < s.nextCall ↔ (s.everCalls c).isSome = true := by
  have hI := reach_safe h
  constructor
  · intro hc
    have := (hI.recs c hc).1
    cases he : s.everCalls c with
    | none => exact absurd he this
    | some r => rfl
  · intro hs
    cases Nat.lt_or_ge c s.nextCall with
    | inl h1 => exact h1
    | inr h1 => rw [(hI.zero c h1).2.1] at hs; cases hs

/-- the facts about one step the token invariant is built from (`StepFacts`), for any reachable state -/
theorem step_facts (h : Reach cfg s) {s' : State} {t : Tid} {o : List String} (hs : step s t = some (s', o)) :
    ∃ th th', s.threads t = some th ∧ s'.threads t = some th' ∧ StepFacts s s' th th' := by
  obtain ⟨th, fr, rest, hth, hst, hfin, rfl⟩ := step_inv hs
  have hI := reach_safe h
  have hrest : NoSpec rest := by
    have := (reach_inv h).ringTopOnly t th hth
    rw [hst] at this; exact this
  have hok : StackOk (fr :: rest) := by rw [← hst]; exact hI.stk t th hth
  have hlast : LastOnly (fr :: rest) := by rw [← hst]; exact hI.last t th hth
  obtain ⟨th', hth', _⟩ := (shape1 s t th fr rest hth hst hfin hrest).self
  have hrec : ∀ c', reads fr = some c' → s.calls c' ≠ none := by
    intro c' hc'
    have hw1 : 1 ≤ weight c' th := by
      simp only [weight, hst, wS_cons, reads_weight hc']; omega
    have h2 := tsum_ge (f := wt s c') (thread_lt h hth)
    have hwt : wt s c' t = weight c' th := by simp [wt, hth]
    have htok := hI.tok c'
    have hlt : c' < s.nextCall := by
      cases Nat.lt_or_ge c' s.nextCall with
      | inl h => exact h
      | inr h => have := (hI.zero c' h).1; omega
    obtain ⟨h1, h2 | h2⟩ := hI.recs c' hlt
    · rw [h2]; exact h1
    · omega
  exact ⟨th, th', hth, hth', stepFacts h hth hst hok hlast hrec hth'⟩

/-- a record, once allocated by `start`, is never changed in `everCalls` -/
theorem everCalls_stable (h : Reach cfg s) {s' : State} {t : Tid} {o : List String}
    (hs : step s t = some (s', o)) {c : Nat} {r : CallRec} (he : s.everCalls c = some r) :
    s'.everCalls c = some r := by
  obtain ⟨th, th', _, _, hF⟩ := step_facts h hs
  rcases hF.ever c with h1 | h1
  · rw [h1]; exact he
  · have := ((reach_safe h).zero c (by omega)).2.1
    rw [this] at he; cases he

/-- call ids are handed out in order -/
theorem nextCall_mono (h : Reach cfg s) {s' : State} {t : Tid} {o : List String}
    (hs : step s t = some (s', o)) : s.nextCall ≤ s'.nextCall := by
  obtain ⟨th, th', _, _, hF⟩ := step_facts h hs
  rcases hF.nc with h1 | h1 <;> omega

end

end Nstd.Future
