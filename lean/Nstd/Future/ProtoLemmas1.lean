/-
  Helper layer for `ProtoLemmas`: bounded existentials over the thread arrays in a normal form that
  makes every protocol step a propositional problem, a schedule runner and a decidable `Stuck` test.
-/
import Nstd.Future.Proto

namespace Nstd.Future.Proto

/-! ### bounded existentials over consumers / suppliers -/

/-- some consumer `k < nc` is at a pc satisfying `P` -/
def ExC (nc : Nat) (f : Nat → CPc) (P : CPc → Bool) : Prop := ∃ k, k < nc ∧ P (f k) = true
/-- some consumer `k < nc`, `k ≠ i`, is at a pc satisfying `P` -/
def ExCne (nc : Nat) (f : Nat → CPc) (i : Nat) (P : CPc → Bool) : Prop := ∃ k, k < nc ∧ k ≠ i ∧ P (f k) = true
def ExS (ns : Nat) (f : Nat → SPc) (P : SPc → Bool) : Prop := ∃ k, k < ns ∧ P (f k) = true
def ExSne (ns : Nat) (f : Nat → SPc) (j : Nat) (P : SPc → Bool) : Prop := ∃ k, k < ns ∧ k ≠ j ∧ P (f k) = true

theorem exC_split {nc : Nat} {f : Nat → CPc} {i : Nat} (P : CPc → Bool) (hi : i < nc) :
    ExC nc f P ↔ (P (f i) = true ∨ ExCne nc f i P) := by
  constructor
  · rintro ⟨k, hk, hp⟩
    by_cases hki : k = i
    · subst hki; exact Or.inl hp
    · exact Or.inr ⟨k, hk, hki, hp⟩
  · rintro (hp | ⟨k, hk, _, hp⟩)
    · exact ⟨i, hi, hp⟩
    · exact ⟨k, hk, hp⟩

theorem exC_upd {nc : Nat} {f : Nat → CPc} {i : Nat} (P : CPc → Bool) (v : CPc) (hi : i < nc) :
    ExC nc (updC f i v) P ↔ (P v = true ∨ ExCne nc f i P) := by
  constructor
  · rintro ⟨k, hk, hp⟩
    by_cases hki : k = i
    · subst hki; simp only [updC, if_true] at hp; exact Or.inl hp
    · simp only [updC, hki, if_false] at hp; exact Or.inr ⟨k, hk, hki, hp⟩
  · rintro (hp | ⟨k, hk, hki, hp⟩)
    · exact ⟨i, hi, by simp only [updC, if_true]; exact hp⟩
    · exact ⟨k, hk, by simp only [updC, hki, if_false]; exact hp⟩

theorem exS_split {ns : Nat} {f : Nat → SPc} {j : Nat} (P : SPc → Bool) (hj : j < ns) :
    ExS ns f P ↔ (P (f j) = true ∨ ExSne ns f j P) := by
  constructor
  · rintro ⟨k, hk, hp⟩
    by_cases hkj : k = j
    · subst hkj; exact Or.inl hp
    · exact Or.inr ⟨k, hk, hkj, hp⟩
  · rintro (hp | ⟨k, hk, _, hp⟩)
    · exact ⟨j, hj, hp⟩
    · exact ⟨k, hk, hp⟩

theorem exS_upd {ns : Nat} {f : Nat → SPc} {j : Nat} (P : SPc → Bool) (v : SPc) (hj : j < ns) :
    ExS ns (updS f j v) P ↔ (P v = true ∨ ExSne ns f j P) := by
  constructor
  · rintro ⟨k, hk, hp⟩
    by_cases hkj : k = j
    · subst hkj; simp only [updS, if_true] at hp; exact Or.inl hp
    · simp only [updS, hkj, if_false] at hp; exact Or.inr ⟨k, hk, hkj, hp⟩
  · rintro (hp | ⟨k, hk, hkj, hp⟩)
    · exact ⟨j, hj, by simp only [updS, if_true]; exact hp⟩
    · exact ⟨k, hk, by simp only [updS, hkj, if_false]; exact hp⟩

/-! ### schedule runner -/

/-- one scheduled action: kind 0 = `stepC`, 1 = `stepS`, 2 = `leaveC`; the second component is the thread index -/
def actP (cfg : PCfg) (s : PState) (a : Nat × Nat) : Option PState :=
  if a.1 = 0 then stepC cfg s a.2 else if a.1 = 1 then stepS cfg s a.2 else if a.1 = 2 then leaveC cfg s a.2 else none

/-- run a schedule; `none` as soon as a scheduled action is not enabled -/
def runP (cfg : PCfg) (s : PState) : List (Nat × Nat) → Option PState
  | [] => some s
  | a :: rest => match actP cfg s a with
                 | some s' => runP cfg s' rest
                 | none => none

theorem actP_reach {cfg : PCfg} {s s' : PState} {a : Nat × Nat} (hr : PReach cfg s)
    (h : actP cfg s a = some s') : PReach cfg s' := by
  unfold actP at h
  by_cases h0 : a.1 = 0
  · simp only [h0, if_true] at h; exact PReach.stepC a.2 hr h
  · by_cases h1 : a.1 = 1
    · simp only [h1, if_true, Nat.succ_ne_zero, if_false] at h; exact PReach.stepS a.2 hr h
    · by_cases h2 : a.1 = 2
      · simp only [h2, if_true, Nat.succ_ne_zero, if_false] at h
        exact PReach.leaveC a.2 hr (by simpa using h)
      · simp only [h0, h1, h2, if_false] at h; cases h

theorem runP_reach_from {cfg : PCfg} (sched : List (Nat × Nat)) : ∀ {s s' : PState}, PReach cfg s →
    runP cfg s sched = some s' → PReach cfg s' := by
  induction sched with
  | nil => intro s s' hr h; simp only [runP] at h; cases h; exact hr
  | cons a rest ih =>
    intro s s' hr h
    simp only [runP] at h
    cases ha : actP cfg s a with
    | none => simp only [ha] at h; cases h
    | some s1 => simp only [ha] at h; exact ih (actP_reach hr ha) h

/-- a schedule that runs from the initial state ends in a reachable state -/
theorem runP_reach {cfg : PCfg} {sched : List (Nat × Nat)} {s : PState}
    (h : runP cfg PState.init sched = some s) : PReach cfg s :=
  runP_reach_from sched PReach.init h

/-! ### a decidable test for `Stuck` -/

def allBelow : Nat → (Nat → Bool) → Bool
  | 0, _ => true
  | n + 1, p => p n && allBelow n p

def anyBelow : Nat → (Nat → Bool) → Bool
  | 0, _ => false
  | n + 1, p => p n || anyBelow n p

theorem allBelow_spec {n : Nat} {p : Nat → Bool} (h : allBelow n p = true) : ∀ i, i < n → p i = true := by
  induction n with
  | zero => intro i hi; omega
  | succ n ih =>
    intro i hi
    simp only [allBelow, Bool.and_eq_true] at h
    by_cases hin : i = n
    · subst hin; exact h.1
    · exact ih h.2 i (by omega)

theorem anyBelow_spec {n : Nat} {p : Nat → Bool} (h : anyBelow n p = true) : ∃ i, i < n ∧ p i = true := by
  induction n with
  | zero => simp only [anyBelow] at h; cases h
  | succ n ih =>
    simp only [anyBelow, Bool.or_eq_true] at h
    rcases h with h | h
    · exact ⟨n, by omega, h⟩
    · obtain ⟨i, hi, hp⟩ := ih h
      exact ⟨i, by omega, hp⟩

/-- executable version of `Stuck` -/
def stuckB (cfg : PCfg) (s : PState) : Bool :=
  decide (s.units > 0) && anyBelow cfg.nc (fun i => decide (s.cons i = .blocked)) && !s.sig &&
  allBelow cfg.nc (fun i => decide (s.cons i = .blocked) || decide (s.cons i = .gone)) &&
  allBelow cfg.ns (fun j => decide (s.sup j = .idle))

theorem stuckB_sound {cfg : PCfg} {s : PState} (h : stuckB cfg s = true) : Stuck cfg s := by
  simp only [stuckB, Bool.and_eq_true, decide_eq_true_eq, Bool.not_eq_true'] at h
  obtain ⟨⟨⟨⟨hu, hb⟩, hsig⟩, hc⟩, hs⟩ := h
  refine ⟨hu, ?_, hsig, ?_, ?_⟩
  · obtain ⟨i, hi, hp⟩ := anyBelow_spec hb
    exact ⟨i, hi, by simpa using hp⟩
  · intro i hact
    have := allBelow_spec hc i hact.1
    simp only [Bool.or_eq_true, decide_eq_true_eq] at this
    rcases this with h1 | h1
    · exact hact.2.1 h1
    · exact hact.2.2 h1
  · intro j hbusy
    have := allBelow_spec hs j hbusy.1
    simp only [decide_eq_true_eq] at this
    exact hbusy.2 this

/-- the final state of a schedule passes the executable `Stuck` test -/
def runStuckB (cfg : PCfg) (sched : List (Nat × Nat)) : Bool :=
  match runP cfg PState.init sched with
  | some s => stuckB cfg s
  | none => false

theorem runStuckB_sound {cfg : PCfg} {sched : List (Nat × Nat)} (h : runStuckB cfg sched = true) :
    ∃ s, PReach cfg s ∧ Stuck cfg s := by
  unfold runStuckB at h
  cases hr : runP cfg PState.init sched with
  | none => simp only [hr] at h; cases h
  | some s => simp only [hr] at h; exact ⟨s, runP_reach hr, stuckB_sound h⟩

end Nstd.Future.Proto
