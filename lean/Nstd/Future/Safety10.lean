/-
  Safety of the Future/ThreadPool model, part 10: effect of a micro-step on the thread-context list
  `_threads` (`Pool.ctxs`) and on the frames that refer to it.
-/
import Nstd.Future.Safety9
set_option linter.unusedSimpArgs false
set_option linter.unusedVariables false
namespace Nstd.Future

def termCtx (t : Tid) (c : Ctx) : Ctx := if c.tid = some t then { c with terminated := true } else c
def startCtx (k : Nat) (w : Tid) (c : Ctx) : Ctx := if c.id = k then { c with tid := some w } else c

/-- how one step changes `_threads` -/
inductive CtxEff (s s' : State) (t : Tid) (fr : Frame) (p p' : Pool) : Prop where
  | same : p'.ctxs = p.ctxs → p'.nextCtx = p.nextCtx → (∀ k, fr ≠ .runSpStart k) → CtxEff s s' t fr p p'
  | term : fr = .wTerm → p'.ctxs = p.ctxs.map (termCtx t) → p'.nextCtx = p.nextCtx → CtxEff s s' t fr p p'
  | erase (i : Nat) (c : Ctx) : fr = .cleanAt i → p.ctxs[i]? = some c → c.terminated = true → c.tid = none →
      p'.ctxs = p.ctxs.eraseIdx i → p'.nextCtx = p.nextCtx → CtxEff s s' t fr p p'
  | join (i : Nat) (w : Tid) : fr = .cleanJoin i w → p'.ctxs = p.ctxs.eraseIdx i → p'.nextCtx = p.nextCtx →
      CtxEff s s' t fr p p'
  | append : fr = .runSpChk → p'.ctxs = p.ctxs ++ [{ id := p.nextCtx, tid := none, terminated := false }] →
      p'.nextCtx = p.nextCtx + 1 → CtxEff s s' t fr p p'
  | start (k : Nat) : fr = .runSpStart k → p'.ctxs = p.ctxs.map (startCtx k s.nthreads) → p'.nextCtx = p.nextCtx →
      s'.threads s.nthreads = some { stack := [.tStart, .wPop1], isWorker := true } → CtxEff s s' t fr p p'
  | fresh : freshFr fr = true → p'.ctxs = [] → p'.nextCtx = 0 → CtxEff s s' t fr p p'

set_option maxHeartbeats 16000000 in
theorem shapeC (s : State) (t : Tid) (th : Thread) (fr : Frame) (hne : t ≠ s.nthreads) :
    ∀ p p', s.pool = some p → (stepFrame s t th fr).1.pool = some p' →
      CtxEff s (stepFrame s t th fr).1 t fr p p' := by
  intro p p' hp
  cases fr <;> simp only [stepFrame, hp] <;> repeat' split
  all_goals
    intro hp'
    simp [setThread, setSig, setPool, setFut, withFault, destroySig, hp] at hp'
    try subst hp'
  all_goals first
    | (apply CtxEff.same <;> first | rfl | (intro k hk; cases hk))
    | (apply CtxEff.same <;> first | (intro k hk; cases hk) | (simp [setFsState]; split <;> rfl))
    | (apply CtxEff.term <;> rfl)
    | (apply CtxEff.erase <;> first | rfl | assumption)
    | (apply CtxEff.join <;> rfl)
    | (apply CtxEff.append <;> rfl)
    | (refine CtxEff.start _ rfl rfl rfl ?_; simp [setThread, upd, hne, Ne.symm hne]; done)
    | (apply CtxEff.fresh <;> rfl)

/-- frames of a `run` that has appended context `k` and not yet started its thread -/
def holdK (k : Nat) : Frame → Bool
  | .runSpUnlock (some k') => k' == k
  | .runSpStart k' => k' == k
  | _ => false
def isSpChk : Frame → Bool
  | .runSpChk => true
  | _ => false
/-- `~ThreadPool` has joined the thread of context `j` -/
def dDone : Frame → Nat → Bool
  | .dJoin i, j => decide (j < i)
  | .dFin, _ => true
  | _, _ => false
def HasDone (j : Nat) (l : List Frame) : Prop := ∃ f ∈ l, dDone f j = true
theorem hasDone_nil (j : Nat) : HasDone j [] ↔ False := by simp [HasDone]
theorem hasDone_cons {j : Nat} {a : Frame} {l : List Frame} :
    HasDone j (a :: l) ↔ dDone a j = true ∨ HasDone j l := by simp [HasDone]

structure ShapeE (s s' : State) (t : Tid) (fr : Frame) (rest : List Frame) : Prop where
  self : ∀ th', s'.threads t = some th' →
    (∀ k, lsum (bn (holdK k)) th'.stack ≤ lsum (bn (holdK k)) (fr :: rest) +
        (if isSpChk fr = true ∧ s.pool.map (·.nextCtx) = some k then 1 else 0)) ∧
    (∀ i w, .cleanJoin i w ∈ th'.stack → .cleanJoin i w ∈ rest ∨ (fr = .cleanJoin i w ∧ s.pool = none) ∨
        (fr = .cleanAt i ∧ ∃ p c, s.pool = some p ∧ p.ctxs[i]? = some c ∧ c.tid = some w ∧ s'.pool = s.pool)) ∧
    (∀ j, HasDone j th'.stack → HasDone j rest ∨ dDone fr j = true ∨
        (∀ p, s.pool = some p → j < p.ctxs.length → ∃ i0, fr = .dJoin i0 ∧ j = i0))

set_option maxHeartbeats 16000000 in
theorem shapeE (s : State) (t : Tid) (th : Thread) (fr : Frame) (rest : List Frame)
    (hth : s.threads t = some th) (hst : th.stack = fr :: rest) :
    ShapeE s (stepFrame s t th fr).1 t fr rest := by
  cases fr <;> simp only [stepFrame] <;> repeat' split
  all_goals
    constructor
    intro th' h
    simp [setThread, setSig, setPool, setFut, withFault, destroySig, upd_same, hth] at h
    subst h
    refine ⟨?_, ?_, ?_⟩
    · intro k
      simp [Thread.cont, hst, bn, holdK, isSpChk, *]
      try grind
    · intro i w
      simp [Thread.cont, hst, setThread, setSig, setPool, setFut, withFault, destroySig, *]
      try (intros; simp_all; done)
      try (rintro (⟨rfl, rfl⟩ | h) <;> simp_all <;> done)
    · intro j
      simp [Thread.cont, hst, hasDone_cons, hasDone_nil, dDone, *]
      try (intros; simp_all; done)
      try grind

end Nstd.Future
