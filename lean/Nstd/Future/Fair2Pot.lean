/-
  Definitions for the WEAK-fairness termination measure of the repaired model AFTER fix 0005 (`FastSignal::reset`
  always clears the Signal): the lexicographic measure  (L1, L2, L3, totalDist)  where

    L1  (abstract, Fair2Lev.lean)  counts the remaining WORK EVENTS `F2.workFr` (thread creations, winning CASes,
        pool creation/deletion, every `fSet` call, `pSig`, `destroyF`, the counted loops `dSet`/`wAdd`/`cleanAt`/
        `cleanJoin`/`dJoin`, a successful `cSpin`, the exits `wChk2`/`runChk2`/`dChk2` with `retB = true`);
    L2  = `F2.lev2`: spurious budget + credits of the threads inside `Signal::set` + 7·(1 + #threads inside
        `FastSignal::reset` before their re-check) for every pool FastSignal whose `_state` is set
        — never increases on a non-work step; strictly decreases when a flag is raised / sleepers are woken;
    L3  = `F2.lev3`: Σ over threads of the LOOP CREDIT `F2.phi` — never increases on a non-work step that raises no
        flag and wakes nobody; strictly decreases at the back edges of the wait loops (`wChk2`/`runChk2`/`dChk2` with
        `retB = false`, `sWaitRelock`).
-/
import Nstd.Future.FairLex
import Nstd.Future.Fair2Lock
set_option linter.unusedVariables false
namespace Nstd.Future.F2

/-- WORK EVENTS: the micro-steps whose number is bounded by counting (the abstract level L1 pays for them) -/
def workFr (s : State) (th : Thread) : Frame → Prop
  | .mSpawn _ | .runSpStart _ => True
  | .ring (.pushCas _ x) => ∀ p, s.pool = some p → p.ring.tail = x
  | .ring (.popCas h) => ∀ p, s.pool = some p → p.ring.head = h
  | .mInit | .cRdTp2 _ | .dFin => True
  | .fSet _ | .pSig _ | .destroyF _ => True
  | .dSet _ | .wAdd | .cleanAt _ | .cleanJoin _ _ | .dJoin _ => True
  | .cSpin _ => s.tplock = 0
  | .wChk2 | .runChk2 _ | .dChk2 _ => th.retB = true
  | _ => False

/-- `_state` of the pool FastSignal σ is set (`fsState p σ` is `enq` for σ = 0 and `deq` for every other σ) -/
def stSet (s : State) (σ : Nat) : Bool :=
  match s.pool with
  | some p => decide (fsState p σ ≠ 0)
  | none => false

/-- credit of a thread inside `Signal::set` (by its top frame) -/
def setCredit : List Frame → Nat
  | .sSetLock _ :: _ => 6
  | .sSetStore _ :: _ => 5
  | .sSetBcast _ _ :: _ => 2
  | .sSetUnlock _ :: _ => 1
  | _ => 0

/-- the thread is inside `FastSignal::reset` of σ, after the `xchg` and before the re-check `fRstLoad σ` -/
def inReset (σ : Nat) : List Frame → Bool
  | .sRstLock a :: .fRstLoad b :: _ => a == σ && b == σ
  | .sRstStore a :: .fRstLoad b :: _ => a == σ && b == σ
  | .sRstUnlock a :: .fRstLoad b :: _ => a == σ && b == σ
  | .fRstLoad b :: _ => b == σ
  | _ => false

def thStack (s : State) (t : Tid) : List Frame :=
  match s.threads t with
  | some th => th.stack
  | none => []

/-- number of threads inside `FastSignal::reset` of σ -/
def rCount (s : State) (σ : Nat) : Nat := tsum s.nthreads (fun t => if inReset σ (thStack s t) then 1 else 0)

/-- LEVEL 2 -/
def lev2 (s : State) : Nat :=
  s.spurious + tsum s.nthreads (fun t => setCredit (thStack s t)) +
    (if stSet s 0 then 7 * (1 + rCount s 0) else 0) + (if stSet s 1 then 7 * (1 + rCount s 1) else 0)

/-- some flag of FastSignal σ / Signal σ lets a looper pass -/
def flagUp (s : State) (σ : Nat) : Bool := stSet s σ || (s.sigs σ).signaled

def b2n (b : Bool) : Nat := if b then 2 else 0

/-- LOOP CREDIT of a thread: by its top frames and the flags of the signal it is dealing with -/
def phiStk (s : State) (t : Tid) : List Frame → Nat
  | [] => 0
  | .fWait σ :: _ => b2n (flagUp s σ)
  | .sWaitLock σ :: _ => b2n (s.sigs σ).signaled
  | .sWaitChk σ :: _ => b2n (s.sigs σ).signaled
  | .sWaitUnlock _ :: _ => 2
  | .sWaitCwait _ :: _ => 0
  | .sWaitCwake σ :: _ => if (s.sigs σ).waiters.contains t then 0 else 1 + b2n (s.sigs σ).signaled
  | .sWaitRelock σ :: _ => 1 + b2n (s.sigs σ).signaled
  | .sRstLock σ :: .fRstLoad _ :: _ => 1 + b2n (stSet s σ)
  | .sRstStore σ :: .fRstLoad _ :: _ => 1 + b2n (stSet s σ)
  | .sRstUnlock σ :: .fRstLoad _ :: _ => 1 + b2n (flagUp s σ)
  | .fRstLoad σ :: _ => 1 + b2n (flagUp s σ)
  | .wPop2 :: _ => 1 + b2n (flagUp s 0)
  | .ring _ :: .wChk2 :: _ => 1 + b2n (flagUp s 0)
  | .wChk2 :: _ => 1 + b2n (flagUp s 0)
  | .runPush2 _ :: _ => 1 + b2n (flagUp s 1)
  | .ring _ :: .runChk2 _ :: _ => 1 + b2n (flagUp s 1)
  | .runChk2 _ :: _ => 1 + b2n (flagUp s 1)
  | .dPush2 _ :: _ => 1 + b2n (flagUp s 1)
  | .ring _ :: .dChk2 _ :: _ => 1 + b2n (flagUp s 1)
  | .dChk2 _ :: _ => 1 + b2n (flagUp s 1)
  | _ => 2

def phi (s : State) (t : Tid) : Nat := phiStk s t (thStack s t)

/-- LEVEL 3 -/
def lev3 (s : State) : Nat := tsum s.nthreads (phi s)

/-- no flag is raised and nobody but `t` leaves a wait set -/
def FlagsLe (s' s : State) (t : Tid) : Prop :=
  ∀ σ, (stSet s' σ = true → stSet s σ = true) ∧ ((s'.sigs σ).signaled = true → (s.sigs σ).signaled = true) ∧
    (∀ u, u ≠ t → u ∈ (s.sigs σ).waiters → u ∈ (s'.sigs σ).waiters)

end Nstd.Future.F2
