/-
  Progress lemmas, part 6: `~ThreadPool` (`dPush` ... `dJoin` ... `dFin`) returns only after every worker thread has
  exited.  Invariant `FinInv`: every unfinished thread is the main thread, a client, or registered in `_threads`
  (`reg`); `cleanup` erases only contexts of finished threads (`jn`, `pe`: index/identity facts under the pool mutex);
  the main thread has joined the contexts `< i` at `dJoin i` and all of them at `dFin` (`dph`); after the pool is
  deleted every other thread has finished (`dead`); `_threadPool` is published only while the pool exists (`tp`).
  Consequences: a thread at a frame that dereferences the pool finds one (`pool_frame_has_pool`), the model fault
  "no pool" never fires (`no_pool_fault`).
-/
import Nstd.Future.Progress5
set_option linter.unusedSimpArgs false
set_option linter.unusedVariables false
namespace Nstd.Future

/-- what the main thread knows at the frames of `~ThreadPool` -/
def DPhase (s : State) : Frame → Prop
  | .dPush _ | .dChk1 _ | .dPush2 _ | .dChk2 _ | .dSet _ => ∃ p, s.pool = some p
  | .dJoin i => ∃ p, s.pool = some p ∧ ∀ j c w, j < i → p.ctxs[j]? = some c → c.tid = some w → ThFin s w
  | .dFin => ∃ p, s.pool = some p ∧ ∀ c w, c ∈ p.ctxs → c.tid = some w → ThFin s w
  | _ => True

theorem dphase_of_nonbot (s : State) {f : Frame} (h : bottomFr f = false) : DPhase s f := by
  cases f <;> first | trivial | (simp [bottomFr] at h)

structure FinInv (s : State) : Prop where
  g : ∀ t th, s.threads t = some th → cleanOK th.stack = true
  te : ∀ p c w, s.pool = some p → c ∈ p.ctxs → c.tid = some w → (s.threads w).isSome = true
  jn : ∀ t i w p, topFrame s t = some (.cleanJoin i w) → s.pool = some p → ∃ c, p.ctxs[i]? = some c ∧ c.tid = some w
  pe : ∀ t f k p, topFrame s t = some f → pendK f = some k → s.pool = some p → ∃ c ∈ p.ctxs, c.id = k
  reg : ∀ w th, s.threads w = some th → th.finished = false →
      w = 0 ∨ w ∈ s.clientTids ∨ ∃ p c, s.pool = some p ∧ c ∈ p.ctxs ∧ c.tid = some w
  dph : ∀ th f, s.threads 0 = some th → f ∈ th.stack → DPhase s f
  dead : ¬ poolAlive s → (∀ u th, u ≠ 0 → s.threads u = some th → th.finished = true) ∧
      (∀ th, s.threads 0 = some th → th.stack = [.tExit] ∨ th.stack = [])
  tp : poolAlive s → (s.tp = true ∨ ∃ t th, s.threads t = some th ∧ hasSwap th.stack = true) → ∃ p, s.pool = some p

theorem finInv_init (cfg : Config) : FinInv (State.init cfg) := by
  have hthr : ∀ t th, (State.init cfg).threads t = some th → th = { stack := [Frame.mInit] } := by
    intro t th h
    simp only [State.init] at h
    split at h
    · injection h with h; exact h.symm
    · cases h
  have htop : ∀ u fr, topFrame (State.init cfg) u = some fr → fr = .mInit := topFrame_init cfg
  refine ⟨?_, ?_, ?_, ?_, ?_, ?_, ?_, ?_⟩
  · intro t th h; rw [hthr t th h]; rfl
  · intro p c w h; simp [State.init] at h
  · intro t i w p h; have := htop t _ h; cases this
  · intro t f k p h hk; have := htop t _ h; subst this; simp [pendK] at hk
  · intro w th h _
    left
    simp only [State.init] at h
    split at h
    · assumption
    · cases h
  · intro th f h hf; rw [hthr 0 th h] at hf; simp at hf; subst hf; trivial
  · intro h; exact absurd rfl h
  · intro _ h
    rcases h with h | ⟨t, th, h1, h2⟩
    · simp [State.init] at h
    · rw [hthr t th h1] at h2; simp [hasSwap, isSwap] at h2

theorem clean_top_hold {f : Frame} {l : List Frame} (h : cleanOK (f :: l) = true) (hc : isClean f = true) :
    holdStack (f :: l) = true := by
  simp only [cleanOK, hc, Bool.not_true, Bool.false_or, Bool.and_eq_true] at h
  have : poolAbove f = true := by cases f <;> first | rfl | (simp [isClean] at hc)
  simp only [holdStack, this, h.1, Bool.and_self, Bool.or_true]

theorem mem_eraseIdx_of_ne {α : Type} {l : List α} {c d : α} {i : Nat} (hc : c ∈ l)
    (hd : ∀ x, l[i]? = some x → x = d) (hne : c ≠ d) : c ∈ l.eraseIdx i := by
  rw [List.mem_eraseIdx_iff_getElem?]
  obtain ⟨j, hj, hjc⟩ := List.getElem_of_mem hc
  refine ⟨j, ?_, by rw [List.getElem?_eq_getElem hj, hjc]⟩
  intro e; subst e
  exact hne ((hd c (by rw [List.getElem?_eq_getElem hj, hjc])))

theorem getElem?_map_tid {l : List Ctx} {f : Ctx → Ctx} (hf : ∀ c, (f c).tid = c.tid) {j : Nat} {c' : Ctx}
    (h : (l.map f)[j]? = some c') : ∃ c, l[j]? = some c ∧ c'.tid = c.tid := by
  rw [List.getElem?_map] at h
  cases hl : l[j]? with
  | none => rw [hl] at h; cases h
  | some c => rw [hl] at h; simp at h; exact ⟨c, rfl, by rw [← h, hf]⟩

/-- the new stack of the main thread after one of its own frames satisfies `DPhase` again -/
theorem dph_main {s : State} {t : Tid} {th : Thread} {fr : Frame}
    (hth : s.threads t = some th) (hst : th.stack = [fr]) (hnf : th.finished = false)
    (hb : bottomFr fr = true) (hph : DPhase s fr) (hblk : blockedFrame s t fr = false)
    (hte : ∀ p c w, s.pool = some p → c ∈ p.ctxs → c.tid = some w → (s.threads w).isSome = true)
    (hfin : ∀ w, ThFin s w → ThFin (stepFrame s t th fr).1 w) :
    ∀ th', (stepFrame s t th fr).1.threads t = some th' → ∀ f ∈ th'.stack, DPhase (stepFrame s t th fr).1 f := by
  cases fr with
  | dJoin i =>
    obtain ⟨p, hp, hj⟩ := hph
    have hall : ∀ k, (∀ j c w, j < k → p.ctxs[j]? = some c → c.tid = some w → ThFin s w) → p.ctxs.length ≤ k →
        ∀ c w, c ∈ p.ctxs → c.tid = some w → ThFin s w := by
      intro k hk hle c w hc hw
      obtain ⟨j, hjl, hjc⟩ := List.getElem_of_mem hc
      exact hk j c w (by omega) (by rw [List.getElem?_eq_getElem hjl, hjc]) hw
    have hnext : ∀ c, p.ctxs[i]? = some c → ∀ j c' w, j < i + 1 → p.ctxs[j]? = some c' → c'.tid = some w → ThFin s w := by
      intro c hc j c' w hjlt hc' hw
      by_cases hji : j = i
      · subst hji
        rw [hc] at hc'; injection hc' with hc'; subst hc'
        have hex := hte p c w hp (List.mem_of_getElem? hc) hw
        cases hthw : s.threads w with
        | none => rw [hthw] at hex; cases hex
        | some thw =>
          cases c with
          | mk cid ctid cterm =>
            simp only at hw; subst hw
            simp only [blockedFrame, hp, hc, hthw, Bool.not_eq_false'] at hblk
            exact ⟨thw, hthw, hblk⟩
      · exact hj j c' w (by omega) hc' hw
    cases hi : p.ctxs[i]? with
    | none =>
      have hlen := List.getElem?_eq_none_iff.mp hi
      intro th' h f hf
      simp [stepFrame, hp, hi, setThread, upd_same, Thread.cont, hst] at h
      subst h
      simp at hf; subst hf
      refine ⟨p, by simp [stepFrame, hp, hi, setThread], ?_⟩
      intro c w hc hw
      exact hfin w (hall i hj hlen c w hc hw)
    | some c =>
      have hn := hnext c hi
      have hilt : i < p.ctxs.length := (List.getElem?_eq_some_iff.mp hi).1
      have hpool' : (stepFrame s t th (.dJoin i)).1.pool = some p := by
        cases htid : c.tid <;> simp [stepFrame, hp, hi, htid, setThread]
      have hstack : ∀ th', (stepFrame s t th (.dJoin i)).1.threads t = some th' →
          th'.stack = [if i + 1 < p.ctxs.length then .dJoin (i + 1) else .dFin] := by
        intro th' h
        cases htid : c.tid <;> simp [stepFrame, hp, hi, htid, setThread, upd_same, Thread.cont, hst] at h <;>
          subst h <;> rfl
      intro th' h f hf
      rw [hstack th' h] at hf
      simp only [List.mem_singleton] at hf
      subst hf
      by_cases hlt : i + 1 < p.ctxs.length
      · simp only [hlt, if_true]
        exact ⟨p, hpool', fun j c' w hjl hc' hw => hfin w (hn j c' w hjl hc' hw)⟩
      · simp only [hlt, if_false]
        exact ⟨p, hpool', fun c' w hc' hw => hfin w (hall (i + 1) hn (by omega) c' w hc' hw)⟩
  | dPush i =>
    obtain ⟨p, hp⟩ := hph
    simp only [stepFrame, hp]
    repeat' split
    all_goals
      intro th' h
      simp [setThread, upd_same, Thread.cont, hst] at h
      subst h
      simp [DPhase, hst, Thread.cont, setThread, hp]
      try (intro c w hc; have hem : p.ctxs = [] := List.isEmpty_iff.mp (by assumption); rw [hem] at hc; cases hc)
  | mDel =>
    simp only [stepFrame]
    repeat' split
    all_goals
      intro th' h
      simp [setThread, upd_same, Thread.cont, hst] at h
      subst h
      simp [DPhase, hst, Thread.cont, setThread]
      try exact ⟨_, by assumption⟩
  | dChk1 _ | dPush2 _ | dChk2 _ | dSet _ =>
    obtain ⟨p, hp⟩ := hph
    simp only [stepFrame]
    repeat' split
    all_goals
      intro th' h
      simp [setThread, upd_same, Thread.cont, hst] at h
      subst h
      simp [DPhase, hst, Thread.cont, setThread, hp]
  | mInit | mSpawn _ | mSpawned _ _ | mJoin _ | dFin =>
    simp only [stepFrame]
    repeat' split
    all_goals
      intro th' h
      simp [setThread, upd_same, Thread.cont, hst, hth] at h
      subst h
      simp [DPhase, hst, Thread.cont, setThread]
  | _ => simp [bottomFr] at hb

def dFr : Frame → Bool
  | .dPush _ | .dChk1 _ | .dPush2 _ | .dChk2 _ | .dSet _ | .dJoin _ | .dFin => true
  | _ => false

theorem dphase_of_not_dFr (s : State) {f : Frame} (h : dFr f = false) : DPhase s f := by
  cases f <;> first | trivial | (simp [dFr] at h)

theorem allFin_of_dFr {s : State} {f : Frame} (h : dFr f = true) (hp : Phase s f) : AllFin s := by
  cases f <;> first | exact hp | (simp [dFr] at h)

theorem mem_map_tid {l : List Ctx} {f : Ctx → Ctx} (hf : ∀ c, (f c).tid = c.tid) {c' : Ctx}
    (h : c' ∈ l.map f) : ∃ c, c ∈ l ∧ c'.tid = c.tid := by
  obtain ⟨c, hc, rfl⟩ := List.mem_map.mp h
  exact ⟨c, hc, hf c⟩

structure Shape8 (s s' : State) (t : Tid) (fr : Frame) : Prop where
  freshW : ∀ thw, s'.threads s.nthreads = some thw → thw.stack = [.tStart, .wPop1] → ∃ k p, fr = .runSpStart k ∧ s.pool = some p

set_option maxHeartbeats 4000000 in
theorem shape8 (s : State) (t : Tid) (th : Thread) (fr : Frame) (rest : List Frame)
    (hth : s.threads t = some th) (hst : th.stack = fr :: rest) (hfresh : s.threads s.nthreads = none) :
    Shape8 s (stepFrame s t th fr).1 t fr := by
  have hne : s.nthreads ≠ t := by intro e; rw [e] at hfresh; rw [hfresh] at hth; cases hth
  cases fr <;> simp only [stepFrame] <;> repeat' split
  all_goals
    constructor
    · intro thw h1 h2
      simp [setThread, setSig, setPool, setFut, withFault, destroySig, upd_ne _ _ hne, upd_same, hfresh] at h1 <;>
      try (first | (subst h1; simp at h2; done) | exact ⟨_, _, rfl, by assumption⟩)

set_option maxHeartbeats 1000000 in
theorem finInv_step {cfg : Config} {s s' : State} {t : Tid} {o : List String}
    (hr : Reach cfg s) (hr' : Reach cfg s') (hI : FinInv s) (h : step s t = some (s', o)) : FinInv s' := by
  obtain ⟨th, fr, rest, hth, hst, hnf, hblk, rfl⟩ := step_inv2 h
  have hS := reach_inv hr
  have hJ := reach_join hr
  have hP := reach_poolInv hr
  have hC := reach_ctxInv hr
  have hnospec : NoSpec rest := by have := hS.ringTopOnly t th hth; rw [hst] at this; exact this
  have h1 := shape1 s t th fr rest hth hst hnf hnospec
  have h4 := shape4 s t th fr rest hth hst
  have h7 := shape7 s t th fr rest hth hst
  have hfresh : s.threads s.nthreads = none := hS.fresh _ (Nat.le_refl _)
  have hrestTO : NoTO rest := by have := hC.noTO t th hth; rw [hst] at this; exact this
  obtain ⟨hpool, th', hth', htl', htopRel⟩ := ctxStep_of s t th fr rest hth hst hrestTO
  have htopS : topFrame s t = some fr := by rw [topFrame_of hth, hst]; rfl
  have hbo : BotOnly (fr :: rest) := by rw [← hst]; exact hJ.botOnly t th hth
  -- the other threads
  have hothT : ∀ u, u ≠ t → (stepFrame s t th fr).1.threads u = s.threads u ∨
      (s.threads u = none ∧ ∃ thw, (stepFrame s t th fr).1.threads u = some thw ∧ thw.finished = false ∧
        (thw.stack = [.tStart, .wPop1] ∨
          (thw.stack = [.tStart, .cNext] ∧ u ∈ (stepFrame s t th fr).1.clientTids))) := by
    intro u hu
    rcases h4.others u hu with h2 | ⟨h2, thw, h3, h5, h6⟩
    · exact Or.inl h2
    · right
      have h2' : (u : Nat) = s.nthreads := h2
      refine ⟨by rw [h2']; exact hfresh, thw, h3, h5, ?_⟩
      rcases h6 with h6 | ⟨h6, h8⟩
      · exact Or.inl h6
      · refine Or.inr ⟨h6, ?_⟩
        rw [h8, h2']; exact List.mem_append_right _ (List.mem_singleton_self _)
  have hoth : ∀ u, u ≠ t → topFrame (stepFrame s t th fr).1 u = topFrame s u ∨
      (topFrame s u = none ∧ topFrame (stepFrame s t th fr).1 u = some .tStart) := by
    intro u hu
    rcases hothT u hu with h2 | ⟨h2, thw, h3, _, h5⟩
    · left; simp only [topFrame, h2]
    · right
      refine ⟨by simp only [topFrame, h2], ?_⟩
      rw [topFrame_of h3]
      rcases h5 with h5 | ⟨h5, _⟩ <;> rw [h5] <;> rfl
  have hback : ∀ u f, u ≠ t → topFrame (stepFrame s t th fr).1 u = some f → topOnly f = true → topFrame s u = some f := by
    intro u f hu hf hto
    rcases hoth u hu with h2 | ⟨_, h2⟩
    · rw [← h2]; exact hf
    · rw [hf] at h2; injection h2 with h2; subst h2; cases hto
  have hkeepSome : ∀ u, (s.threads u).isSome = true → ((stepFrame s t th fr).1.threads u).isSome = true := by
    intro u hu
    by_cases hut : u = t
    · subst hut; rw [hth']; rfl
    · rcases hothT u hut with h2 | ⟨h2, _⟩
      · rw [h2]; exact hu
      · rw [h2] at hu; cases hu
  have hfin : ∀ w, ThFin s w → ThFin (stepFrame s t th fr).1 w := by
    intro w ⟨thw, h2, h3⟩
    have hwt : w ≠ t := by
      intro e; subst e; rw [hth] at h2; injection h2 with h2; subst h2; rw [hnf] at h3; cases h3
    rcases hothT w hwt with h5 | ⟨h5, _⟩
    · exact ⟨thw, by rw [h5]; exact h2, h3⟩
    · rw [h5] at h2; cases h2
  have hsub : ∀ w, w ∈ s.clientTids → w ∈ (stepFrame s t th fr).1.clientTids := by
    intro w hw
    rcases h4.ct with h2 | ⟨_, h2, _⟩
    · rw [h2]; exact hw
    · rw [h2]; exact List.mem_append_left _ hw
  -- while `_threadPool` is unpublished all stacks are in pre-pool code and a pool, if any, has no context
  have hearly : poolAlive s → s.tp = false → (∀ v thv, s.threads v = some thv → AllPre thv.stack) ∧
      ∀ p, s.pool = some p → p.ctxs = [] := by
    intro ha htp
    have he := hS.early ha htp
    exact ⟨he.pre, fun p hp => by rw [he.ctxs p hp]; rfl⟩
  have halive : ∀ p', (stepFrame s t th fr).1.pool = some p' → poolAlive s := fun p' hp' => h1.live (pool_alive hr' hp')
  -- "created" case of FwdRel is vacuous for an existing pool with contexts
  have hcreated : ∀ p, s.pool = some p → (fr = .mInit ∨ s.tp = false) → p.ctxs = [] := by
    intro p hp hc
    rcases hc with hc | hc
    · have := hS.initOnly t th hth (by rw [hst, hc]; rfl)
      rw [this] at hp; cases hp
    · exact (hearly (pool_alive hr hp) hc).2 p hp
  have hfwd : ∀ p p', s.pool = some p → (stepFrame s t th fr).1.pool = some p' → FwdRel s t fr p p' :=
    fun p p' hp hp' => ctxFwd_of s t th fr rest hth hst hp hp'
  -- a thread at a `cleanup` frame owns the pool mutex
  have hcleanOwner : ∀ u thu f l p, s.threads u = some thu → thu.stack = f :: l → isClean f = true → s.pool = some p →
      p.mOwner = some u := by
    intro u thu f l p hu hs hc hp
    exact hP.excl p u thu hp hu (by rw [hs]; exact clean_top_hold (by rw [← hs]; exact hI.g u thu hu) hc)
  have hnoPoolTop : s.pool = none → ∀ p', (stepFrame s t th fr).1.pool = some p' →
      ∀ v f, topFrame s v = some f → prePool f = true := by
    intro hp p' hp' v f hf
    rcases hpool p' hp' with ⟨_, _, hc⟩ | ⟨p, hp2, _⟩
    · rcases hc with hc | hc
      · have := hS.initOnly t th hth (by rw [hst, hc]; rfl)
        rw [this] at hf
        rw [topFrame_init cfg v f hf]; rfl
      · obtain ⟨thv, restv, h2, h3⟩ := topFrame_cons hf
        have := (hearly (halive p' hp') hc).1 v thv h2
        rw [h3, allPre_cons] at this; exact this.1
    · rw [hp] at hp2; cases hp2
  -- two threads at `cleanup` frames are the same thread
  have hcleanSame : ∀ u f p, u ≠ t → topFrame s u = some f → isClean f = true → isClean fr = true → s.pool = some p → False := by
    intro u f p hu hf hc hc' hp
    obtain ⟨thu, restu, h2, h3⟩ := topFrame_cons hf
    have a := hcleanOwner u thu f restu p h2 h3 hc hp
    have b := hcleanOwner t th fr rest p hth hst hc' hp
    rw [a] at b; injection b with b; exact hu b
  have h8 := shape8 s t th fr rest hth hst hfresh
  have hfreshId : ∀ u, u ≠ t → s.threads u = none → ((stepFrame s t th fr).1.threads u).isSome = true → (u : Nat) = s.nthreads := by
    intro u hu hn hs
    rcases h4.others u hu with h2 | ⟨h2, _⟩
    · rw [h2, hn] at hs; cases hs
    · exact h2
  -- the main thread at `dFin`: it is thread 0, and every other thread has finished
  have hmain : bottomFr fr = true → t = 0 ∧ rest = [] := by
    intro hb
    refine ⟨?_, botOnly_cons_bot hb hbo⟩
    cases Nat.decEq t 0 with
    | isTrue h0 => exact h0
    | isFalse h0 =>
      have := hJ.mainOnly t th hth h0
      rw [hst, noBot_cons, hb] at this; cases this.1
  have hallFin : fr = .dFin → ∀ u thu, u ≠ 0 → s.threads u = some thu → thu.finished = true := by
    intro hd u thu hu0 hthu
    have ht0 : t = 0 := (hmain (by rw [hd]; rfl)).1
    subst ht0
    have hmem : Frame.dFin ∈ th.stack := by rw [hst, hd]; exact List.mem_cons_self ..
    obtain ⟨p, hp, hjoined⟩ : DPhase s .dFin := hI.dph th .dFin hth hmem
    have hall : AllFin s := hJ.phase 0 th hth .dFin hmem
    cases hf : thu.finished with
    | true => rfl
    | false =>
      exfalso
      have hcontra : ThFin s u → False := by
        intro ⟨th2, h2, h3⟩
        rw [hthu] at h2; injection h2 with h2; subst h2; rw [hf] at h3; cases h3
      rcases hI.reg u thu hthu hf with h2 | h2 | ⟨p2, c, hp2, hc, htid⟩
      · exact hu0 h2
      · exact hcontra (hall u h2)
      · rw [hp] at hp2; injection hp2 with hp2; subst hp2
        exact hcontra (hjoined c u hc htid)
  have hdFinOthers : fr = .dFin → ∀ u, u ≠ t → (stepFrame s t th fr).1.threads u = s.threads u := by
    intro hd u hu
    subst hd
    simp [stepFrame, setThread, destroySig, setSig, upd_ne _ _ hu]
  -- a registered unfinished thread stays registered
  have hregFwd : fr ≠ .dFin → ∀ w thw p c, s.threads w = some thw → thw.finished = false → s.pool = some p → c ∈ p.ctxs →
      c.tid = some w → ∃ p' c', (stepFrame s t th fr).1.pool = some p' ∧ c' ∈ p'.ctxs ∧ c'.tid = some w := by
    intro hd w thw p c hw hnfw hp hc htid
    obtain ⟨p', hp'⟩ := h7.poolKeep hd p hp
    refine ⟨p', ?_⟩
    rcases hfwd p p' hp hp' with h5 | ⟨_, h5⟩ | ⟨k0, h5, h6⟩ | ⟨_, h6⟩ | ⟨i', c2, _, h6, _, h7', h8'⟩ | ⟨i', w', h5, h8'⟩ | ⟨h5, h6⟩
    · exact ⟨c, hp', by rw [h5]; exact hc, htid⟩
    · exact ⟨c, hp', by rw [h5]; exact List.mem_append_left _ hc, htid⟩
    · refine ⟨c, hp', ?_, htid⟩
      have hne : c.id ≠ k0 := by
        intro e
        have := (hC.pendFresh p t fr k0 c hp htopS (by rw [h5]; rfl) hc e).1
        rw [this] at htid; cases htid
      rw [h6]; exact List.mem_map.mpr ⟨c, hc, by simp [hne]⟩
    · exact ⟨_, hp', by rw [h6]; exact List.mem_map_of_mem hc, by split <;> exact htid⟩
    · refine ⟨c, hp', ?_, htid⟩
      rw [h8']
      refine mem_eraseIdx_of_ne hc (d := c2) (fun x hx => by rw [h6] at hx; injection hx with hx; exact hx.symm) ?_
      intro e; rw [e, h7'] at htid; cases htid
    · refine ⟨c, hp', ?_, htid⟩
      rw [h8']
      obtain ⟨d, hd2, hdt⟩ := hI.jn t i' w' p (by rw [htopS, h5]) hp
      refine mem_eraseIdx_of_ne hc (d := d) (fun x hx => by rw [hd2] at hx; injection hx with hx; exact hx.symm) ?_
      intro e
      rw [e, hdt] at htid; injection htid with htid; subst htid
      -- the joined thread has finished, `w` has not
      rw [h5] at hblk
      simp only [blockedFrame, hw, hnfw] at hblk
      cases hblk
    · rw [hcreated p hp h6] at hc; cases hc
  have hdkeep : ncFr fr = true → fr ≠ .dFin → ∀ f, DPhase s f → DPhase (stepFrame s t th fr).1 f := by
    intro hnc hd f hf
    have htidT : ∀ c : Ctx, (if c.tid = some t then { c with terminated := true } else c).tid = c.tid := by
      intro c; split <;> rfl
    cases f <;> try trivial
    case dPush i => obtain ⟨p, hp⟩ := hf; exact h7.poolKeep hd p hp
    case dChk1 i => obtain ⟨p, hp⟩ := hf; exact h7.poolKeep hd p hp
    case dPush2 i => obtain ⟨p, hp⟩ := hf; exact h7.poolKeep hd p hp
    case dChk2 i => obtain ⟨p, hp⟩ := hf; exact h7.poolKeep hd p hp
    case dSet i => obtain ⟨p, hp⟩ := hf; exact h7.poolKeep hd p hp
    case dJoin i =>
      obtain ⟨p, hp, hj⟩ := hf
      obtain ⟨p', hp'⟩ := h7.poolKeep hd p hp
      refine ⟨p', hp', ?_⟩
      intro j c' w hjl hc' hw
      rcases hfwd p p' hp hp' with h5 | ⟨h5, _⟩ | ⟨k0, h5, _⟩ | ⟨_, h6⟩ | ⟨i', c2, h5, _⟩ | ⟨i', w', h5, _⟩ | ⟨h5, _⟩
      · rw [h5] at hc'; exact hfin w (hj j c' w hjl hc' hw)
      · rw [h5] at hnc; cases hnc
      · rw [h5] at hnc; cases hnc
      · rw [h6] at hc'
        obtain ⟨c, h8', h9⟩ := getElem?_map_tid htidT hc'
        exact hfin w (hj j c w hjl h8' (by rw [← h9]; exact hw))
      · rw [h5] at hnc; cases hnc
      · rw [h5] at hnc; cases hnc
      · rw [h5] at hc'; simp at hc'
    case dFin =>
      obtain ⟨p, hp, hj⟩ := hf
      obtain ⟨p', hp'⟩ := h7.poolKeep hd p hp
      refine ⟨p', hp', ?_⟩
      intro c' w hc' hw
      rcases hfwd p p' hp hp' with h5 | ⟨h5, _⟩ | ⟨k0, h5, _⟩ | ⟨_, h6⟩ | ⟨i', c2, h5, _⟩ | ⟨i', w', h5, _⟩ | ⟨h5, _⟩
      · rw [h5] at hc'; exact hfin w (hj c' w hc' hw)
      · rw [h5] at hnc; cases hnc
      · rw [h5] at hnc; cases hnc
      · rw [h6] at hc'
        obtain ⟨c, h8', h9⟩ := mem_map_tid htidT hc'
        exact hfin w (hj c w h8' (by rw [← h9]; exact hw))
      · rw [h5] at hnc; cases hnc
      · rw [h5] at hnc; cases hnc
      · rw [h5] at hc'; cases hc'
  refine ⟨?_, ?_, ?_, ?_, ?_, ?_, ?_, ?_⟩
  · -- g
    intro u thu hthu
    by_cases hu : u = t
    · subst hu
      obtain ⟨th2, h2, h3⟩ := h7.cleanG (by rw [← hst]; exact hP.g u th hth) (by rw [← hst]; exact hI.g u th hth)
      rw [h2] at hthu; injection hthu with hthu; subst hthu; exact h3
    · rcases hothT u hu with h2 | ⟨_, thw, h3, _, h5⟩
      · rw [h2] at hthu; exact hI.g u thu hthu
      · rw [hthu] at h3; injection h3 with h3; subst h3
        rcases h5 with h5 | ⟨h5, _⟩ <;> rw [h5] <;> rfl
  · -- te
    intro p' c' w hp' hc' htid
    rcases hpool p' hp' with ⟨h2, _⟩ | ⟨p, hp, _, horig⟩
    · rw [h2] at hc'; cases hc'
    · rcases horig c' hc' with h2 | ⟨_, h2, _⟩ | ⟨k, c, h2, h3, h5, h6⟩ | ⟨c, h2, h3, h5, h6⟩
      · exact hkeepSome w (hI.te p c' w hp h2 htid)
      · subst h2; cases htid
      · subst h6; subst h2
        simp only at htid; injection htid with htid; subst htid
        simp [stepFrame, hp, setThread, upd]
        split <;> rfl
      · subst h6; exact hkeepSome w (hI.te p c w hp h3 htid)
  · -- jn
    intro u i w p' hf hp'
    by_cases hu : u = t
    · subst hu
      have hf' : th'.stack.head? = some (.cleanJoin i w) := by rw [← topFrame_of hth']; exact hf
      rcases htopRel _ hf' rfl with ⟨k0, _, h2⟩ | ⟨_, h2 | ⟨_, _, _, _, h2, _⟩⟩ | ⟨i', w', p, c, h2, h3, h5, h6, h8, _, _, h9⟩ | ⟨_, h2⟩
      · cases h2
      · cases h2
      · cases h2
      · injection h3 with h3a h3b; subst h3a; subst h3b
        rw [hp'] at h6; injection h6 with h6; subst h6
        exact ⟨c, h8, h9⟩
      · rw [hp'] at h2; cases h2
    · have hfs := hback u _ hu hf rfl
      cases hp : s.pool with
      | none => have := hnoPoolTop hp p' hp' u _ hfs; simp [prePool] at this
      | some p =>
        obtain ⟨c, h2, h3⟩ := hI.jn u i w p hfs hp
        have hilt : i < p.ctxs.length := by
          rcases Nat.lt_or_ge i p.ctxs.length with h | h
          · exact h
          · rw [List.getElem?_eq_none_iff.mpr h] at h2; cases h2
        rcases hfwd p p' hp hp' with h5 | ⟨_, h5⟩ | ⟨k, h5, h6⟩ | ⟨_, h6⟩ | ⟨i', c2, h5, _⟩ | ⟨i', w', h5, _⟩ | ⟨h5, h6⟩
        · exact ⟨c, by rw [h5]; exact h2, h3⟩
        · exact ⟨c, by rw [h5, List.getElem?_append_left hilt]; exact h2, h3⟩
        · refine ⟨c, ?_, h3⟩
          rw [h6, List.getElem?_map, h2]
          have : c.id ≠ k := by
            intro e
            have := (hC.pendFresh p t fr k c hp htopS (by rw [h5]; rfl) (List.mem_of_getElem? h2) e).1
            rw [this] at h3; cases h3
          simp [this]
        · refine ⟨if c.tid = some t then { c with terminated := true } else c, ?_, ?_⟩
          · rw [h6, List.getElem?_map, h2]; rfl
          · split <;> exact h3
        · exact (hcleanSame u _ p hu hfs rfl (by rw [h5]; rfl) hp).elim
        · exact (hcleanSame u _ p hu hfs rfl (by rw [h5]; rfl) hp).elim
        · rw [hcreated p hp h6] at h2; cases h2
  · -- pe
    intro u f k p' hf hk hp'
    by_cases hu : u = t
    · subst hu
      have hf' : th'.stack.head? = some f := by rw [← topFrame_of hth']; exact hf
      rcases htopRel _ hf' (pendK_topOnly hk) with ⟨k0, h2, h3⟩ | ⟨_, h2 | ⟨p, p2, h2, h3, h5, _, h6⟩⟩ | ⟨i', w', p, c, _, h3, _⟩ | ⟨_, h2⟩
      · subst h3
        simp only [pendK, Option.some.injEq] at hk; subst hk
        cases hp : s.pool with
        | none => have := hnoPoolTop hp p' hp' u _ htopS; rw [h2] at this; simp [prePool] at this
        | some p =>
          obtain ⟨c, hc, hid⟩ := hI.pe u fr k0 p htopS (by rw [h2]; rfl) hp
          rcases hfwd p p' hp hp' with h5 | ⟨h5, _⟩ | ⟨k, h5, _⟩ | ⟨h5, _⟩ | ⟨i', c2, h5, _⟩ | ⟨i', w', h5, _⟩ | ⟨h5, h6⟩
          · exact ⟨c, by rw [h5]; exact hc, hid⟩
          · rw [h2] at h5; cases h5
          · rw [h2] at h5; cases h5
          · rw [h2] at h5; cases h5
          · rw [h2] at h5; cases h5
          · rw [h2] at h5; cases h5
          · rw [hcreated p hp h6] at hc; cases hc
      · subst h2; simp [pendK] at hk
      · subst h5
        simp only [pendK, Option.some.injEq] at hk; subst hk
        rw [hp'] at h3; injection h3 with h3; subst h3
        exact ⟨⟨p.nextCtx, none, false⟩, by rw [h6]; simp, rfl⟩
      · subst h3; simp [pendK] at hk
      · rw [hp'] at h2; cases h2
    · have hfs := hback u _ hu hf (pendK_topOnly hk)
      cases hp : s.pool with
      | none => have := hnoPoolTop hp p' hp' u _ hfs; rw [prePool_pendK this] at hk; cases hk
      | some p =>
        obtain ⟨c, hc, hid⟩ := hI.pe u f k p hfs hk hp
        have hfr := hC.pendFresh p u f k c hp hfs hk hc hid
        rcases hfwd p p' hp hp' with h5 | ⟨_, h5⟩ | ⟨k0, _, h6⟩ | ⟨_, h6⟩ | ⟨i', c2, _, h6, h7', _, h8⟩ | ⟨i', w', h5, h8⟩ | ⟨h5, h6⟩
        · exact ⟨c, by rw [h5]; exact hc, hid⟩
        · exact ⟨c, by rw [h5]; exact List.mem_append_left _ hc, hid⟩
        · exact ⟨_, by rw [h6]; exact List.mem_map_of_mem hc, by split <;> exact hid⟩
        · exact ⟨_, by rw [h6]; exact List.mem_map_of_mem hc, by split <;> exact hid⟩
        · refine ⟨c, ?_, hid⟩
          rw [h8]
          refine mem_eraseIdx_of_ne hc (d := c2) (fun x hx => by rw [h6] at hx; injection hx with hx; exact hx.symm) ?_
          intro e; rw [e, h7'] at hfr; cases hfr.2
        · refine ⟨c, ?_, hid⟩
          rw [h8]
          obtain ⟨d, hd, hdt⟩ := hI.jn t i' w' p (by rw [htopS, h5]) hp
          refine mem_eraseIdx_of_ne hc (d := d) (fun x hx => by rw [hd] at hx; injection hx with hx; exact hx.symm) ?_
          intro e; rw [e, hdt] at hfr; cases hfr.1
        · rw [hcreated p hp h6] at hc; cases hc
  · -- reg
    intro w thw hw hnfw
    by_cases hd : fr = .dFin
    · have ht0 : t = 0 := (hmain (by rw [hd]; rfl)).1
      by_cases hwt : w = t
      · left; rw [hwt, ht0]
      · exfalso
        rw [hdFinOthers hd w hwt] at hw
        have := hallFin hd w thw (by rw [← ht0]; exact hwt) hw
        rw [hnfw] at this; cases this
    · have hold : ∀ thw0, s.threads w = some thw0 → thw0.finished = false →
          w = 0 ∨ w ∈ (stepFrame s t th fr).1.clientTids ∨
            ∃ p c, (stepFrame s t th fr).1.pool = some p ∧ c ∈ p.ctxs ∧ c.tid = some w := by
        intro thw0 h2 h3
        rcases hI.reg w thw0 h2 h3 with h5 | h5 | ⟨p, c, hp, hc, htid⟩
        · exact Or.inl h5
        · exact Or.inr (Or.inl (hsub w h5))
        · obtain ⟨p', c', h6, h7', h8'⟩ := hregFwd hd w thw0 p c h2 h3 hp hc htid
          exact Or.inr (Or.inr ⟨p', c', h6, h7', h8'⟩)
      by_cases hwt : w = t
      · subst hwt; exact hold th hth hnf
      · rcases hothT w hwt with h2 | ⟨h2, thw2, h3, _, h5⟩
        · rw [h2] at hw; exact hold thw hw hnfw
        · rw [hw] at h3; injection h3 with h3; subst h3
          have hwn : (w : Nat) = s.nthreads := hfreshId w hwt h2 (by rw [hw]; rfl)
          rcases h5 with h5 | ⟨_, h5⟩
          · right; right
            obtain ⟨k, p, hk, hp⟩ := h8.freshW thw (by rw [← hwn]; exact hw) h5
            obtain ⟨c, hc, hid⟩ := hI.pe t fr k p htopS (by rw [hk]; rfl) hp
            subst hk
            refine ⟨{ p with ctxs := p.ctxs.map (fun c => if c.id = k then { c with tid := some s.nthreads } else c) },
              if c.id = k then { c with tid := some s.nthreads } else c, by simp [stepFrame, hp, setThread, setPool],
              List.mem_map_of_mem hc, ?_⟩
            simp [hid, hwn]
          · exact Or.inr (Or.inl h5)
  · -- dph
    intro th0 f h0 hf
    have hncOfD : ∀ thm g, s.threads 0 = some thm → g ∈ thm.stack → dFr g = true → ncFr fr = true := by
      intro thm g hm hg hd
      have hall := allFin_of_dFr hd (hJ.phase 0 thm hm g hg)
      rcases hJ.kinds t th hth with h2 | h2
      · obtain ⟨th2, h3, h5⟩ := hall t h2
        rw [hth] at h3; injection h3 with h3; subst h3; rw [hnf] at h5; cases h5
      · rw [hst, allNC_cons] at h2; exact h2.1
    by_cases ht0 : t = 0
    · subst ht0
      rw [hth'] at h0; injection h0 with h0; subst h0
      cases hb : bottomFr fr with
      | true =>
        have hr := (hmain hb).2; subst hr
        exact dph_main hth hst hnf hb (hI.dph th fr hth (by rw [hst]; exact List.mem_cons_self ..)) hblk hI.te hfin
          th' hth' f hf
      | false =>
        obtain ⟨th2, h2, h3⟩ := h4.newFr hb
        rw [hth'] at h2; injection h2 with h2; subst h2
        rcases h3 f hf with h5 | h5
        · exact dphase_of_nonbot _ h5
        · have hmem : f ∈ th.stack := by rw [hst]; exact List.mem_cons_of_mem _ h5
          cases hd : dFr f with
          | false => exact dphase_of_not_dFr _ hd
          | true =>
            exact hdkeep (hncOfD th f hth hmem hd) (by intro e; rw [e] at hb; cases hb) f (hI.dph th f hth hmem)
    · have h00 : (stepFrame s t th fr).1.threads 0 = s.threads 0 := by
        rcases hothT 0 (Ne.symm ht0) with h2 | ⟨h2, thw, h3, _⟩
        · exact h2
        · exfalso
          have := hfreshId 0 (Ne.symm ht0) h2 (by rw [h3]; rfl)
          have hn := hS.fresh t (by rw [← this]; exact Nat.zero_le _)
          rw [hth] at hn; cases hn
      rw [h00] at h0
      cases hd : dFr f with
      | false => exact dphase_of_not_dFr _ hd
      | true =>
        refine hdkeep (hncOfD th0 f h0 hf hd) ?_ f (hI.dph th0 f h0 hf)
        intro e
        have := hJ.mainOnly t th hth ht0
        rw [hst, noBot_cons, e] at this; cases this.1
  · -- dead
    intro hl'
    by_cases hl : poolAlive s
    · have hd : fr = .dFin := by
        cases Classical.em (fr = .dFin) with
        | inl h2 => exact h2
        | inr h2 => exact absurd (h4.liveKeep h2 hl) hl'
      obtain ⟨ht0, hr⟩ := hmain (by rw [hd]; rfl)
      refine ⟨?_, ?_⟩
      · intro u thu hu0 hthu
        rw [hdFinOthers hd u (by rw [ht0]; exact hu0)] at hthu
        exact hallFin hd u thu hu0 hthu
      · intro th0 h0
        subst hd; subst ht0; subst hr
        have : (stepFrame s 0 th .dFin).1.threads 0 = some (th.cont [.tExit]) := by
          simp [stepFrame, setThread, upd_same]
        rw [this] at h0; injection h0 with h0; subst h0
        left; simp [Thread.cont, hst]
    · obtain ⟨hall, hm0⟩ := hI.dead hl
      have ht0 : t = 0 := by
        cases Nat.decEq t 0 with
        | isTrue h0 => exact h0
        | isFalse h0 => have := hall t th h0 hth; rw [hnf] at this; cases this
      subst ht0
      have hfr : fr = .tExit := by
        rcases hm0 th hth with h2 | h2
        · rw [hst] at h2; injection h2
        · rw [hst] at h2; cases h2
      subst hfr
      refine ⟨?_, ?_⟩
      · intro u thu hu0 hthu
        have : (stepFrame s 0 th .tExit).1.threads u = s.threads u := by
          simp [stepFrame, setThread, upd_ne _ _ hu0]
        rw [this] at hthu
        exact hall u thu hu0 hthu
      · intro th0 h0
        have : (stepFrame s 0 th .tExit).1.threads 0 = some { th with stack := [], finished := true } := by
          simp [stepFrame, setThread, upd_same]
        rw [this] at h0; injection h0 with h0; subst h0
        right; rfl
  · -- tp
    intro hl' hdisj
    have hl := h1.live hl'
    have hd : fr ≠ .dFin := by
      intro e; subst e
      have := dFin_kills (s := s) (t := t) (th := th)
      rw [poolAlive, this] at hl'; cases hl'
    have hkeep : (∃ p, s.pool = some p) → ∃ p', (stepFrame s t th fr).1.pool = some p' :=
      fun ⟨p, hp⟩ => h7.poolKeep hd p hp
    rcases hdisj with htp' | ⟨u, thu, hu, hsw⟩
    · rcases h7.tpBack htp' with h2 | ⟨h2, h3⟩
      · exact hkeep (hI.tp hl (Or.inl h2))
      · rcases h2 with ⟨c, h2⟩ | h2
        · exact h3 (hI.tp hl (Or.inr ⟨t, th, hth, by rw [hst, h2]; simp [hasSwap, isSwap]⟩))
        · have := hS.initOnly t th hth (by rw [hst, h2]; rfl)
          exact h7.initPool h2 (by rw [this]; rfl) htp'
    · by_cases hut : u = t
      · subst hut
        rcases h7.swapNew thu hu hsw with h2 | h2
        · exact hkeep (hI.tp hl (Or.inr ⟨u, th, hth, by rw [hst]; exact h2⟩))
        · exact h2
      · rcases hothT u hut with h2 | ⟨_, thw, h3, _, h5⟩
        · rw [h2] at hu; exact hkeep (hI.tp hl (Or.inr ⟨u, thu, hu, hsw⟩))
        · rw [hu] at h3; injection h3 with h3; subst h3
          rcases h5 with h5 | ⟨h5, _⟩ <;> rw [h5] at hsw <;> simp [hasSwap, isSwap] at hsw

theorem reach_finInv {cfg : Config} {s : State} (h : Reach cfg s) : FinInv s := by
  induction h with
  | init => exact finInv_init cfg
  | step t hr hs ih => exact finInv_step hr (Reach.step t hr hs) ih hs

/-- after `~ThreadPool` (`dFin`) every thread other than the main thread has finished -/
theorem pool_deleted_all_finished {cfg : Config} {s : State} (hr : Reach cfg s) (hl : ¬ poolAlive s) :
    ∀ u th, u ≠ 0 → s.threads u = some th → th.finished = true := ((reach_finInv hr).dead hl).1

/-- a live thread whose next micro-step dereferences `Private::_threadPool` finds a pool -/
theorem pool_frame_has_pool {cfg : Config} {s : State} {t : Tid} {th : Thread} {fr : Frame} (hr : Reach cfg s)
    (hth : s.threads t = some th) (hnf : th.finished = false) (htop : th.stack.head? = some fr)
    (hn : needsPool fr = true) : ∃ p, s.pool = some p := by
  have hF := reach_finInv hr
  obtain ⟨rest, hst⟩ : ∃ rest, th.stack = fr :: rest := by
    cases hs : th.stack with
    | nil => rw [hs] at htop; cases htop
    | cons a l => rw [hs] at htop; simp at htop; subst htop; exact ⟨l, rfl⟩
  by_cases hl : poolAlive s
  · cases htp : s.tp with
    | true => exact hF.tp hl (Or.inl htp)
    | false =>
      have hpre := ((reach_inv hr).early hl htp).pre t th hth
      rw [hst, allPre_cons] at hpre
      have hb : bottomFr fr = true := by
        have h1 := hpre.1
        cases fr <;> first | rfl | (simp [needsPool] at hn; done) | (simp [prePool] at h1; done)
      have ht0 : t = 0 := by
        cases Nat.decEq t 0 with
        | isTrue h0 => exact h0
        | isFalse h0 =>
          have := (reach_join hr).mainOnly t th hth h0
          rw [hst, noBot_cons, hb] at this; cases this.1
      subst ht0
      have := hF.dph th fr hth (by rw [hst]; exact List.mem_cons_self ..)
      have h1 := hpre.1
      cases fr <;> first | (simp [needsPool] at hn; done) | (simp [prePool] at h1; done) | skip
      · exact this
      · obtain ⟨p, hp, _⟩ := this; exact ⟨p, hp⟩
  · exfalso
    obtain ⟨hall, hm0⟩ := hF.dead hl
    by_cases ht0 : t = 0
    · subst ht0
      rcases hm0 th hth with h2 | h2
      · rw [hst] at h2; injection h2 with h2; subst h2; cases hn
      · rw [hst] at h2; cases h2
    · have := hall t th ht0 hth; rw [hnf] at this; cases this

/-- the model fault "no pool" (a thread uses `Private::_threadPool` before it exists or after it was deleted) never fires -/
theorem no_pool_fault {cfg : Config} {s : State} (hr : Reach cfg s) : s.fault ≠ some "no pool" := by
  induction hr with
  | init => intro h; cases h
  | step t hr hs ih =>
    obtain ⟨th, fr, rest, hth, hst, hnf, _, rfl⟩ := step_inv2 hs
    intro hf
    rcases (shape7 _ t th fr rest hth hst).fault hf with h2 | ⟨h2, h3⟩
    · exact ih h2
    · obtain ⟨p, hp⟩ := pool_frame_has_pool hr hth hnf (by rw [hst]; rfl) h2
      rw [hp] at h3; cases h3

end Nstd.Future
