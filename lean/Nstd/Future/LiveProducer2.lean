/-
  No lost wake-up on the producer side, part 2: the witnesses of the coverage invariant (J2) -- "busy popper" and
  "looking pusher" --, the threads the invariant protects ("committed" pushers: those that will go to sleep on the
  dequeued signal without reading `_tail` again), and the effect of every micro-step other than a ring step on
  them (`shapeP`).
-/
import Nstd.Future.LiveProducer1
set_option linter.unusedSimpArgs false
set_option linter.unusedVariables false
namespace Nstd.Future.LP
open LW

/-! ### a second stack discipline: frames that only occur on top of a stack -/

/-- frames that are never below another frame (`runChk2`/`dChk2`: only directly below a ring frame) -/
def ctype : Frame → Bool
  | .fWait _ | .sWaitLock _ | .sWaitChk _ | .sWaitUnlock _ | .sWaitCwait _ | .sWaitCwake _ | .sWaitRelock _ => true
  | .ring _ => true
  | _ => false
def isChk1 : Frame → Bool
  | .runChk1 _ | .dChk1 _ => true
  | _ => false
def isChk2 : Frame → Bool
  | .runChk2 _ | .dChk2 _ => true
  | _ => false
def isRingFr : Frame → Bool
  | .ring _ => true
  | _ => false

def belowOk (fr : Frame) : Option Frame → Bool
  | some c => if isChk2 c then isRingFr fr else !ctype c
  | none => true

def BelowOk : List Frame → Prop
  | [] => True
  | a :: l => belowOk a l.head? = true ∧ BelowOk l

theorem belowOk_nil : BelowOk [] := trivial
theorem belowOk_cons {a : Frame} {l : List Frame} : BelowOk (a :: l) ↔ belowOk a l.head? = true ∧ BelowOk l := Iff.rfl

theorem belowOk_some (fr c : Frame) : belowOk fr (some c) = if isChk2 c then isRingFr fr else !ctype c := rfl

theorem belowOk_any {fr : Frame} {o : Option Frame} (h : belowOk fr o = true) (hnr : isRingFr fr = false)
    (X : Frame) : belowOk X o = true := by
  cases o with
  | none => rfl
  | some c =>
    simp only [belowOk, hnr] at h ⊢
    cases hc : isChk2 c
    · simp only [hc] at h ⊢; exact h
    · simp [hc] at h

def ShapeB (s' : State) (t : Tid) (fr : Frame) (rest : List Frame) : Prop :=
  ∃ th', s'.threads t = some th' ∧ (BelowOk (fr :: rest) → BelowOk th'.stack)

set_option maxHeartbeats 8000000 in
theorem shapeB (s : State) (t : Tid) (th : Thread) (fr : Frame) (rest : List Frame)
    (hth : s.threads t = some th) (hst : th.stack = fr :: rest) (hrep : s.cfg.repaired = true) :
    ShapeB (stepFrame s t th fr).1 t fr rest := by
  cases fr
  case ring pc =>
    cases hp : s.pool with
    | none =>
      rw [ring_step_noPool s t th pc hp]
      exact ⟨th, hth, fun h => by rw [hst]; exact h⟩
    | some p =>
      obtain ⟨th', h1, h2, h3, h4, h5, h6⟩ := ring_step_desc s t th pc rest p hp hst
      refine ⟨th', by rw [h1, upd_same], ?_⟩
      intro h
      rcases h6.shape with ⟨pc', hr, hs, _⟩ | ⟨ok, _, hs, _⟩ | ⟨o, _, hs, _⟩
      · rw [hs]
        refine ⟨?_, h.2⟩
        have := h.1
        cases hh : rest.head? with
        | none => rfl
        | some c => rw [hh] at this; exact this
      · rw [hs]; exact h.2
      · rw [hs]; exact h.2
  all_goals
    simp only [stepFrame]
    repeat' split
  all_goals
    simp only [ShapeB, setThread, setSig, setPool, setFut, withFault, destroySig, upd_same, hth, Option.some.injEq,
      exists_eq_left']
    intro hb
    have hany : ∀ X, belowOk X rest.head? = true := belowOk_any hb.1 rfl
    have hb2 := hb.2
    simp [Thread.cont, hst, hrep, belowOk_cons, belowOk_nil, belowOk_some, ctype, isChk2, isRingFr, hany, hb2]
    try (simp_all [belowOk_some, ctype, isChk2, isRingFr]; done)

def BelowInv (s : State) : Prop := ∀ t th, s.threads t = some th → BelowOk th.stack

theorem belowInv_init (cfg : Config) : BelowInv (State.init cfg) := by
  intro t th h
  simp only [State.init] at h
  split at h
  · injection h with h; subst h; simp [belowOk_cons, belowOk_nil, belowOk]
  · cases h

theorem belowInv_step {s s' : State} {t : Tid} {o : List String} (hrep : s.cfg.repaired = true)
    (hI : BelowInv s) (h : step s t = some (s', o)) : BelowInv s' := by
  obtain ⟨th, fr, rest, hth, hst, hfin, rfl⟩ := step_inv h
  have hk := shapeK s t th fr rest hth hst hrep
  obtain ⟨th', hth', hadj'⟩ := shapeB s t th fr rest hth hst hrep
  intro u thu hthu
  by_cases hu : u = t
  · subst hu; rw [hth'] at hthu; injection hthu with hthu; subst hthu
    exact hadj' (by rw [← hst]; exact hI u th hth)
  · rcases hk.others u hu with h2 | ⟨_, h2 | ⟨sc, h2⟩⟩
    · rw [h2] at hthu; exact hI u thu hthu
    · rw [hthu] at h2; injection h2 with h2; subst h2; simp [belowOk_cons, belowOk_nil, belowOk, isChk2, ctype]
    · rw [hthu] at h2; injection h2 with h2; subst h2; simp [belowOk_cons, belowOk_nil, belowOk, isChk2, ctype]

theorem below_reach {cfg : Config} (hrep : cfg.repaired = true) {s : State} (h : Reach cfg s) : BelowInv s := by
  induction h with
  | init => exact belowInv_init cfg
  | step t hr hs ih => exact belowInv_step (by rw [reach_cfg hr]; exact hrep) ih hs

/-! ### witnesses and committed pushers -/

/-- push pcs before the CAS on `_tail` has succeeded -/
def prePush : RingPc Job → Bool
  | .pushRead _ | .pushChk _ _ | .pushCas _ _ => true
  | _ => false
/-- a push that cannot fail with a stale ticket: its read ticket is the current tail `T`, or it re-reads the tail
    before it can fail -/
def freshPush (T : Nat) : RingPc Job → Bool
  | .pushRead _ | .pushCas _ _ => true
  | .pushChk _ t => decide (t = T)
  | _ => false
/-- a push whose failure is already decided by a stale ticket -/
def stalePush (T : Nat) : RingPc Job → Bool
  | .pushChk _ t => decide (t ≠ T)
  | _ => false
def popOwn : RingPc Job → Bool
  | .popData _ | .popRel _ _ => true
  | _ => false

/-- frames a pusher may have above the frame that decides whether it is a looking pusher: `reset()` of the
    dequeued signal (with the re-signal of the repaired code) -/
def transpP : Frame → Bool
  | .fRst _ | .fRstLoad _ | .sRstLock _ | .sRstStore _ | .sRstUnlock _ => true
  | .sSetLock _ | .sSetStore _ | .sSetBcast _ _ | .sSetUnlock _ => true
  | _ => false

/-- the deciding frame (with the frame below it): the pusher is going to execute a fresh `pushRead` (or has a
    ticket that is not stale) before it can go to sleep -/
def lookTopP (T : Nat) (rb : Bool) : Frame → Option Frame → Bool
  | .runChk1 _, _ | .dChk1 _, _ => !rb
  | .runPush2 _, _ | .dPush2 _, _ => true
  | .ring pc, some c => (isChk1 c && prePush pc) || (isChk2 c && freshPush T pc)
  | _, _ => false

/-- looking pusher -/
def lookP (T : Nat) (rb : Bool) : List Frame → Bool
  | [] => false
  | fr :: rest => if transpP fr then lookP T rb rest else lookTopP T rb fr rest.head?

theorem lookP_nil (T : Nat) (rb : Bool) : lookP T rb [] = false := rfl
theorem lookP_cons (T : Nat) (rb : Bool) (fr : Frame) (rest : List Frame) :
    lookP T rb (fr :: rest) = if transpP fr then lookP T rb rest else lookTopP T rb fr rest.head? := rfl

/-- busy popper (top frame): between its successful `popCas` and the `FastSignal::set` on the dequeued signal
    that follows the pop -/
def busyPop (rb : Bool) : Frame → Bool
  | .ring pc => popOwn pc
  | .wChk1 | .wChk2 => rb
  | .wDeq => true
  | .fSet fs => fs == 1
  | _ => false

def witSP (T : Nat) (rb : Bool) (l : List Frame) : Bool :=
  (match l.head? with | some fr => busyPop rb fr | none => false) || lookP T rb l

def witAtP (s : State) (T : Nat) (t : Tid) : Bool :=
  match s.threads t with
  | some th => witSP T th.retB th.stack
  | none => false

/-- committed pusher (top frame with the frame below it): it is going to sleep in `_dequeuedSignal.wait()` unless the
    FastSignal / the Signal is set -- second push failed or bound to fail with a stale ticket, `fWait 1`, `Signal::wait` -/
def commitTop (T : Nat) (rb : Bool) : Frame → Option Frame → Bool
  | .runChk2 _, _ | .dChk2 _, _ => !rb
  | .fWait fs, _ => fs == 1
  | .sWaitLock σ, _ | .sWaitChk σ, _ | .sWaitUnlock σ, _ | .sWaitCwait σ, _ | .sWaitCwake σ, _
  | .sWaitRelock σ, _ => σ == 1
  | .ring pc, some c => isChk2 c && stalePush T pc
  | _, _ => false

def commitP (T : Nat) (rb : Bool) : List Frame → Bool
  | [] => false
  | fr :: rest => commitTop T rb fr rest.head?

theorem commitP_cons (T : Nat) (rb : Bool) (fr : Frame) (rest : List Frame) :
    commitP T rb (fr :: rest) = commitTop T rb fr rest.head? := rfl
theorem commitP_nil (T : Nat) (rb : Bool) : commitP T rb [] = false := rfl

def commitAt (s : State) (T : Nat) (t : Tid) : Bool :=
  match s.threads t with
  | some th => commitP T th.retB th.stack
  | none => false

/-- below a frame that is not a ring frame there is no committed configuration -/
theorem commit_below {T : Nat} {rb : Bool} {fr : Frame} {rest : List Frame}
    (h : BelowOk (fr :: rest)) (hnr : isRingFr fr = false) : commitP T rb rest = false := by
  cases rest with
  | nil => rfl
  | cons c rest' =>
    have h1 := h.1
    simp only [List.head?_cons, belowOk, hnr] at h1
    cases c <;> simp [isChk2, ctype] at h1 <;> simp [commitP_cons, commitTop]

theorem lookP_of_push2 {T : Nat} {rb : Bool} {rest : List Frame} (h : optB isPush2 rest.head? = true) :
    lookP T rb rest = true := by
  cases rest with
  | nil => cases h
  | cons a l =>
    simp only [List.head?_cons, optB] at h
    cases a <;> simp [isPush2] at h <;> simp [lookP_cons, transpP, lookTopP]

theorem lookP_of_head_fRstLoad {T : Nat} {rb : Bool} {rest : List Frame} (h : rest.head? = some (.fRstLoad 1))
    (h2 : AdjP rest) : lookP T rb rest = true := by
  cases rest with
  | nil => cases h
  | cons a l =>
    simp only [List.head?_cons, Option.some.injEq] at h; subst h
    have := h2.1.2 rfl
    simp [lookP_cons, transpP, lookP_of_push2 this]

/-! ### non-ring steps -/

/-- the two steps that create the pool -/
def creates (s : State) : Frame → Bool
  | .mInit => !s.cfg.lazy
  | .cRdTp2 _ => !s.tp
  | _ => false

structure ShapeP (s s' : State) (t : Tid) (th : Thread) (fr : Frame) (rest : List Frame) : Prop where
  pool : (hdOf s' = hdOf s ∧ tlOf s' = tlOf s ∧ cpOf s' = cpOf s) ∨ cpOf s' = 0
  c1 : commitAt s' (tlOf s) t = true → commitP (tlOf s) th.retB (fr :: rest) = true
  f2 : deqOf s = 1 → deqOf s' = 1 ∨ witAtP s' (tlOf s) t = true ∨ cpOf s' = 0
  f3 : sig1 s = true → sig1 s' = true ∨ witAtP s' (tlOf s) t = true ∨ cpOf s' = 0
  f4 : witSP (tlOf s) th.retB (fr :: rest) = true → witAtP s' (tlOf s) t = true ∨ deqOf s' = 1 ∨ cpOf s' = 0

set_option maxHeartbeats 8000000 in
theorem shapeP_pool (s : State) (t : Tid) (th : Thread) (fr : Frame) (rest : List Frame)
    (hth : s.threads t = some th) (hst : th.stack = fr :: rest) (hrep : s.cfg.repaired = true)
    (hnr : ∀ pc, fr ≠ .ring pc) (hnc : creates s fr = false)
    (hadj : AdjP (fr :: rest)) (hbel : BelowOk (fr :: rest)) :
    (hdOf (stepFrame s t th fr).1 = hdOf s ∧ tlOf (stepFrame s t th fr).1 = tlOf s ∧ cpOf (stepFrame s t th fr).1 = cpOf s) ∨ cpOf (stepFrame s t th fr).1 = 0 := by
  have hcb : ∀ T rb, commitP T rb rest = false := by
    intro T rb
    apply commit_below hbel
    cases fr <;> first | rfl | exact absurd rfl (hnr _)
  have hb := hadj
  cases fr
  case ring pc => exact absurd rfl (hnr pc)
  all_goals
    rcases hp : s.pool with _ | p
  all_goals
    simp only [adjP_cons, adjP] at hb
    simp only [stepFrame, hp]
    repeat' split
  all_goals (try simp only [fsState] at *)
  all_goals (try simp only [creates] at hnc)
  all_goals (try (exfalso; simp_all; done))
  all_goals
    simp [hdOf, tlOf, cpOf, hp, setThread, setSig, setPool, setFut, withFault, destroySig, setFsState_ring, mkPool, Ring.init]

set_option maxHeartbeats 8000000 in
theorem shapeP_c1 (s : State) (t : Tid) (th : Thread) (fr : Frame) (rest : List Frame)
    (hth : s.threads t = some th) (hst : th.stack = fr :: rest) (hrep : s.cfg.repaired = true)
    (hnr : ∀ pc, fr ≠ .ring pc) (hnc : creates s fr = false)
    (hadj : AdjP (fr :: rest)) (hbel : BelowOk (fr :: rest)) :
    commitAt (stepFrame s t th fr).1 (tlOf s) t = true → commitP (tlOf s) th.retB (fr :: rest) = true := by
  have hcb : ∀ T rb, commitP T rb rest = false := by
    intro T rb
    apply commit_below hbel
    cases fr <;> first | rfl | exact absurd rfl (hnr _)
  have hb := hadj
  cases fr
  case ring pc => exact absurd rfl (hnr pc)
  all_goals
    rcases hp : s.pool with _ | p
  all_goals
    simp only [adjP_cons, adjP] at hb
    simp only [stepFrame, hp]
    repeat' split
  all_goals (try simp only [fsState] at *)
  all_goals (try simp only [creates] at hnc)
  all_goals (try (exfalso; simp_all; done))
  all_goals
    intro h1
    simp [commitAt, commitP_cons, commitP_nil, commitTop, hcb, hp, hth, hst, hrep, isChk2, stalePush,
      setThread, setSig, setPool, setFut, withFault, destroySig, upd_same, Thread.cont] at h1 ⊢
    try grind

set_option maxHeartbeats 8000000 in
theorem shapeP_f2 (s : State) (t : Tid) (th : Thread) (fr : Frame) (rest : List Frame)
    (hth : s.threads t = some th) (hst : th.stack = fr :: rest) (hrep : s.cfg.repaired = true)
    (hnr : ∀ pc, fr ≠ .ring pc) (hnc : creates s fr = false)
    (hadj : AdjP (fr :: rest)) (hbel : BelowOk (fr :: rest)) :
    deqOf s = 1 → deqOf (stepFrame s t th fr).1 = 1 ∨ witAtP (stepFrame s t th fr).1 (tlOf s) t = true ∨ cpOf (stepFrame s t th fr).1 = 0 := by
  have hcb : ∀ T rb, commitP T rb rest = false := by
    intro T rb
    apply commit_below hbel
    cases fr <;> first | rfl | exact absurd rfl (hnr _)
  have hb := hadj
  cases fr
  case ring pc => exact absurd rfl (hnr pc)
  all_goals
    rcases hp : s.pool with _ | p
  all_goals
    simp only [adjP_cons, adjP] at hb
    simp only [stepFrame, hp]
    repeat' split
  all_goals (try simp only [fsState] at *)
  all_goals (try simp only [creates] at hnc)
  all_goals (try (exfalso; simp_all; done))
  all_goals
    intro h1
    simp [deqOf, hdOf, tlOf, cpOf, witAtP, witSP, busyPop, lookP_cons, lookP_nil, transpP, lookTopP, hp, hth, hst, hrep,
      setThread, setSig, setPool, setFut, withFault, destroySig, setFsState_deq, setFsState_ring, mkPool, Ring.init,
      upd_same, Thread.cont] at h1 ⊢
    try grind [lookP_of_push2]

set_option maxHeartbeats 8000000 in
theorem shapeP_f3 (s : State) (t : Tid) (th : Thread) (fr : Frame) (rest : List Frame)
    (hth : s.threads t = some th) (hst : th.stack = fr :: rest) (hrep : s.cfg.repaired = true)
    (hnr : ∀ pc, fr ≠ .ring pc) (hnc : creates s fr = false)
    (hadj : AdjP (fr :: rest)) (hbel : BelowOk (fr :: rest)) :
    sig1 s = true → sig1 (stepFrame s t th fr).1 = true ∨ witAtP (stepFrame s t th fr).1 (tlOf s) t = true ∨ cpOf (stepFrame s t th fr).1 = 0 := by
  have hcb : ∀ T rb, commitP T rb rest = false := by
    intro T rb
    apply commit_below hbel
    cases fr <;> first | rfl | exact absurd rfl (hnr _)
  have hb := hadj
  cases fr
  case ring pc => exact absurd rfl (hnr pc)
  all_goals
    rcases hp : s.pool with _ | p
  all_goals
    simp only [adjP_cons, adjP] at hb
    simp only [stepFrame, hp]
    repeat' split
  all_goals (try simp only [fsState] at *)
  all_goals (try simp only [creates] at hnc)
  all_goals (try (exfalso; simp_all; done))
  all_goals
    intro h1
    simp [sig1, deqOf, hdOf, tlOf, cpOf, witAtP, witSP, busyPop, lookP_cons, lookP_nil, transpP, lookTopP, hp, hth, hst, hrep,
      setThread, setSig, setPool, setFut, withFault, destroySig, setFsState_deq, setFsState_ring, mkPool, Ring.init,
      upd_same, Thread.cont] at h1 ⊢
    try grind [upd, lookP_of_head_fRstLoad]

set_option maxHeartbeats 8000000 in
theorem shapeP_f4 (s : State) (t : Tid) (th : Thread) (fr : Frame) (rest : List Frame)
    (hth : s.threads t = some th) (hst : th.stack = fr :: rest) (hrep : s.cfg.repaired = true)
    (hnr : ∀ pc, fr ≠ .ring pc) (hnc : creates s fr = false)
    (hadj : AdjP (fr :: rest)) (hbel : BelowOk (fr :: rest)) :
    witSP (tlOf s) th.retB (fr :: rest) = true → witAtP (stepFrame s t th fr).1 (tlOf s) t = true ∨ deqOf (stepFrame s t th fr).1 = 1 ∨ cpOf (stepFrame s t th fr).1 = 0 := by
  have hcb : ∀ T rb, commitP T rb rest = false := by
    intro T rb
    apply commit_below hbel
    cases fr <;> first | rfl | exact absurd rfl (hnr _)
  have hb := hadj
  cases fr
  case ring pc => exact absurd rfl (hnr pc)
  all_goals
    rcases hp : s.pool with _ | p
  all_goals
    simp only [adjP_cons, adjP] at hb
    simp only [stepFrame, hp]
    repeat' split
  all_goals (try simp only [fsState] at *)
  all_goals (try simp only [creates] at hnc)
  all_goals (try (exfalso; simp_all; done))
  all_goals
    intro h1
    simp [deqOf, hdOf, tlOf, cpOf, witAtP, witSP, busyPop, lookP_cons, lookP_nil, transpP, lookTopP, hp, hth, hst, hrep,
      isChk1, isChk2, prePush, freshPush, popOwn,
      setThread, setSig, setPool, setFut, withFault, destroySig, setFsState_deq, setFsState_ring, mkPool, Ring.init,
      upd_same, Thread.cont] at h1 ⊢
    try grind

theorem shapeP (s : State) (t : Tid) (th : Thread) (fr : Frame) (rest : List Frame)
    (hth : s.threads t = some th) (hst : th.stack = fr :: rest) (hrep : s.cfg.repaired = true)
    (hnr : ∀ pc, fr ≠ .ring pc) (hnc : creates s fr = false)
    (hadj : AdjP (fr :: rest)) (hbel : BelowOk (fr :: rest)) :
    ShapeP s (stepFrame s t th fr).1 t th fr rest :=
  ⟨shapeP_pool s t th fr rest hth hst hrep hnr hnc hadj hbel, shapeP_c1 s t th fr rest hth hst hrep hnr hnc hadj hbel,
   shapeP_f2 s t th fr rest hth hst hrep hnr hnc hadj hbel, shapeP_f3 s t th fr rest hth hst hrep hnr hnc hadj hbel,
   shapeP_f4 s t th fr rest hth hst hrep hnr hnc hadj hbel⟩

end Nstd.Future.LP
