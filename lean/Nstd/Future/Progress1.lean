/-
  Progress lemmas of the Signal layer, part 1: vocabulary and the abstraction of one micro-step of the
  full model to its effect on (top frame of the stepping thread, the signals): `SelfStep`.
-/
import Nstd.Future.SimRing
set_option linter.unusedSimpArgs false
set_option linter.unusedVariables false
namespace Nstd.Future

/-- frames at which a thread holds the mutex of signal `σ` (`rep` = repaired order store/broadcast/unlock) -/
def critF (rep : Bool) (σ : Nat) : Frame → Bool
  | .sSetStore σ' => σ' == σ
  | .sSetUnlock σ' => σ' == σ
  | .sRstStore σ' => σ' == σ
  | .sRstUnlock σ' => σ' == σ
  | .sWaitChk σ' => σ' == σ
  | .sWaitUnlock σ' => σ' == σ
  | .sWaitCwait σ' => σ' == σ
  | .sSetBcast σ' _ => rep && σ' == σ
  | _ => false

/-- the frames a thread can be at while holding the mutex of signal `σ`: `sSetStore σ`, `sSetBcast σ _` (repaired
    order only: in the original order the broadcast comes after the unlock), `sSetUnlock σ`, `sRstStore σ`,
    `sRstUnlock σ`, `sWaitChk σ`, `sWaitUnlock σ`, `sWaitCwait σ` -/
def critFrame (cfg : Config) (σ : Nat) (fr : Frame) : Bool := critF cfg.repaired σ fr

/-- a `Signal::set` on `σ` that has stored the flag and still owes the broadcast -/
def pendB (rep : Bool) (σ : Nat) : Frame → Bool
  | .sSetBcast σ' _ => σ' == σ
  | .sSetUnlock σ' => !rep && σ' == σ
  | _ => false

/-- frames reached only from inside a Signal operation -/
def inner : Frame → Bool
  | .sSetStore _ | .sSetUnlock _ | .sSetBcast _ _ | .sRstStore _ | .sRstUnlock _
  | .sWaitChk _ | .sWaitUnlock _ | .sWaitCwait _ | .sWaitCwake _ | .sWaitRelock _ => true
  | _ => false

/-- frames whose step reads or writes a Signal -/
def touch : Frame → Bool
  | .sSetLock _ | .sSetStore _ | .sSetUnlock _ | .sSetBcast _ _ | .sRstLock _ | .sRstStore _ | .sRstUnlock _
  | .sWaitLock _ | .sWaitChk _ | .sWaitUnlock _ | .sWaitCwait _ | .sWaitCwake _ | .sWaitRelock _ => true
  | .destroyF _ | .dFin => true
  | _ => false

def NoInner (l : List Frame) : Prop := ∀ f ∈ l, inner f = false

theorem noInner_nil : NoInner [] := by intro f hf; cases hf
theorem noInner_cons {a : Frame} {l : List Frame} : NoInner (a :: l) ↔ inner a = false ∧ NoInner l := by
  simp [NoInner]
theorem NoInner.tail {l : List Frame} (h : NoInner l) : NoInner l.tail :=
  fun f hf => h f (List.mem_of_mem_tail hf)

/-- the new top frame after a frame returned: not an inner Signal frame -/
def Popped (o : Option Frame) : Prop := ∀ fr, o = some fr → inner fr = false

theorem NoInner.popped {l : List Frame} (h : NoInner l) : Popped l.head? := by
  intro fr hfr
  cases l with
  | nil => cases hfr
  | cons a l =>
    simp only [List.head?_cons, Option.some.injEq] at hfr; subst hfr
    exact h _ (List.mem_cons_self ..)

/-- a signal never destroyed so far -/
def Pristine (g : SigSt) : Prop := g.live = true ∧ g.gen = 0

/-- lock acquisitions and the frame that follows -/
def LockPair (σ : Nat) (fr fr' : Frame) : Prop :=
  (fr = .sSetLock σ ∧ fr' = .sSetStore σ) ∨ (fr = .sRstLock σ ∧ fr' = .sRstStore σ) ∨
  (fr = .sWaitLock σ ∧ fr' = .sWaitChk σ) ∨ (fr = .sWaitRelock σ ∧ fr' = .sWaitChk σ)

/-- effect of one micro-step of thread `t` on its top frame and on the signals -/
inductive SelfStep (rep : Bool) (t : Tid) (sg : Nat → SigSt) : Option Frame → Option Frame → (Nat → SigSt) → Prop
  | quiet (fr : Frame) (o' : Option Frame) : touch fr = false → Popped o' → SelfStep rep t sg (some fr) o' sg
  | lock (σ : Nat) (fr fr' : Frame) : LockPair σ fr fr' → (sg σ).owner = none →
      SelfStep rep t sg (some fr) (some fr') (upd sg σ { sg σ with owner := some t })
  | setStore (σ : Nat) :
      SelfStep rep t sg (some (.sSetStore σ)) (some (if rep = true then .sSetBcast σ (sg σ).gen else .sSetUnlock σ))
        (upd sg σ { sg σ with signaled := true })
  | setUnlock (σ : Nat) (o' : Option Frame) : (rep = true → Popped o') → (rep = false → o' = some (.sSetBcast σ (sg σ).gen)) →
      SelfStep rep t sg (some (.sSetUnlock σ)) o' (upd sg σ { sg σ with owner := none })
  | setBcast (σ gen : Nat) (o' : Option Frame) : (rep = true → o' = some (.sSetUnlock σ)) → (rep = false → Popped o') →
      SelfStep rep t sg (some (.sSetBcast σ gen)) o' (upd sg σ { sg σ with waiters := [] })
  | rstStore (σ : Nat) :
      SelfStep rep t sg (some (.sRstStore σ)) (some (.sRstUnlock σ)) (upd sg σ { sg σ with signaled := false })
  | unlock (σ : Nat) (fr : Frame) (o' : Option Frame) : (fr = .sRstUnlock σ ∨ fr = .sWaitUnlock σ) → Popped o' →
      SelfStep rep t sg (some fr) o' (upd sg σ { sg σ with owner := none })
  | chk (σ : Nat) :
      SelfStep rep t sg (some (.sWaitChk σ)) (some (if (sg σ).signaled = true then .sWaitUnlock σ else .sWaitCwait σ)) sg
  | cwait (σ : Nat) :
      SelfStep rep t sg (some (.sWaitCwait σ)) (some (.sWaitCwake σ))
        (upd sg σ { sg σ with owner := none, waiters := (sg σ).waiters ++ [t] })
  | cwake (σ : Nat) :
      SelfStep rep t sg (some (.sWaitCwake σ)) (some (.sWaitRelock σ))
        (upd sg σ { sg σ with waiters := (sg σ).waiters.filter (· ≠ t) })
  | destroyF (f : Nat) (o' : Option Frame) : Popped o' →
      SelfStep rep t sg (some (.destroyF f)) o' (upd sg (f + 2) { gen := (sg (f + 2)).gen + 1 })
  | dFin :
      SelfStep rep t sg (some .dFin) (some .tExit)
        (upd (upd sg 1 { sg 1 with live := false, owner := none }) 0 { sg 0 with live := false, owner := none })

theorem upd_upd {β : Type} (f : Nat → β) (i : Nat) (a b : β) : upd (upd f i a) i b = upd f i b := by
  funext j; simp only [upd]; split <;> rfl

theorem upd_self {β : Type} (f : Nat → β) (i : Nat) : upd f i (f i) = f := by
  funext j; simp only [upd]; split
  · next h => rw [h]
  · rfl

/-- quiet frames: the signals are untouched and the new stack has no inner Signal frame -/
structure ShapeQ (s s' : State) (t : Tid) : Prop where
  sigs : s'.sigs = s.sigs
  self : ∃ th', s'.threads t = some th' ∧ NoInner th'.stack

set_option maxHeartbeats 4000000 in
theorem shapeQ (s : State) (t : Tid) (th : Thread) (fr : Frame) (rest : List Frame)
    (hth : s.threads t = some th) (hst : th.stack = fr :: rest)
    (hrest : NoInner rest) (hq : touch fr = false) :
    ShapeQ s (stepFrame s t th fr).1 t := by
  cases fr <;> simp only [touch, Bool.true_eq_false] at hq <;> simp only [stepFrame] <;> repeat' split
  all_goals
    constructor
    · simp [setThread, setSig, setPool, setFut, withFault, destroySig]
    · simp [setThread, setSig, setPool, setFut, withFault, destroySig, upd_same, Thread.cont, hst, hth, inner, hrest,
        noInner_cons, noInner_nil]


theorem cont_head (th : Thread) (x : Frame) (l : List Frame) : (th.cont (x :: l)).stack.head? = some x := rfl
theorem cont_tail1 {th : Thread} {fr : Frame} {rest : List Frame} (x : Frame) (hst : th.stack = fr :: rest) :
    (th.cont [x]).stack.tail = rest := by simp [Thread.cont, hst]
theorem cont_nil {th : Thread} {fr : Frame} {rest : List Frame} (hst : th.stack = fr :: rest) :
    (th.cont []).stack = rest := by simp [Thread.cont, hst]

theorem selfStep_of (s : State) (t : Tid) (th : Thread) (fr : Frame) (rest : List Frame)
    (hth : s.threads t = some th) (hst : th.stack = fr :: rest)
    (hrest : NoInner rest) (hblk : blockedFrame s t fr = false) :
    ∃ th', (stepFrame s t th fr).1.threads t = some th' ∧ NoInner th'.stack.tail ∧
      SelfStep s.cfg.repaired t s.sigs (some fr) th'.stack.head? (stepFrame s t th fr).1.sigs := by
  cases hq : touch fr with
  | false =>
    have h := shapeQ s t th fr rest hth hst hrest hq
    obtain ⟨th', h1, h2⟩ := h.self
    refine ⟨th', h1, h2.tail, ?_⟩
    rw [h.sigs]
    exact SelfStep.quiet fr _ hq h2.popped
  | true =>
    have hpop : Popped (th.cont []).stack.head? := by rw [cont_nil hst]; exact hrest.popped
    have htl0 : NoInner (th.cont []).stack.tail := by rw [cont_nil hst]; exact hrest.tail
    cases fr <;> simp only [touch, Bool.false_eq_true] at hq
    case sSetLock σ =>
      refine ⟨th.cont [.sSetStore σ], upd_same _ _ _, ?_, ?_⟩
      · rw [cont_tail1 _ hst]; exact hrest
      · exact SelfStep.lock σ _ _ (Or.inl ⟨rfl, rfl⟩) (by simpa [blockedFrame] using hblk)
    case sSetStore σ =>
      cases hrep : s.cfg.repaired
      · refine ⟨th.cont [.sSetUnlock σ], ?_, ?_, ?_⟩
        · simp [stepFrame, hrep, setThread, upd_same]
        · rw [cont_tail1 _ hst]; exact hrest
        · have := SelfStep.setStore (rep := false) (t := t) (sg := s.sigs) σ
          simpa [stepFrame, hrep, setThread, setSig, cont_head] using this
      · refine ⟨th.cont [.sSetBcast σ (s.sigs σ).gen], ?_, ?_, ?_⟩
        · simp [stepFrame, hrep, setThread, upd_same]
        · rw [cont_tail1 _ hst]; exact hrest
        · have := SelfStep.setStore (rep := true) (t := t) (sg := s.sigs) σ
          simpa [stepFrame, hrep, setThread, setSig, cont_head] using this
    case sSetUnlock σ =>
      cases hrep : s.cfg.repaired
      · refine ⟨th.cont [.sSetBcast σ (s.sigs σ).gen], ?_, ?_, ?_⟩
        · simp [stepFrame, hrep, setThread, upd_same]
        · rw [cont_tail1 _ hst]; exact hrest
        · have := SelfStep.setUnlock (rep := false) (t := t) (sg := s.sigs) σ (some (.sSetBcast σ (s.sigs σ).gen))
            (by intro h; cases h) (fun _ => rfl)
          simpa [stepFrame, hrep, setThread, setSig, cont_head] using this
      · refine ⟨th.cont [], ?_, htl0, ?_⟩
        · simp [stepFrame, hrep, setThread, upd_same]
        · have := SelfStep.setUnlock (rep := true) (t := t) (sg := s.sigs) σ _ (fun _ => hpop) (by intro h; cases h)
          simpa [stepFrame, hrep, setThread, setSig] using this
    case sSetBcast σ gen =>
      cases hrep : s.cfg.repaired
      · refine ⟨th.cont [], ?_, htl0, ?_⟩
        · simp [stepFrame, hrep, setThread, upd_same]
        · have := SelfStep.setBcast (rep := false) (t := t) (sg := s.sigs) σ gen _ (by intro h; cases h) (fun _ => hpop)
          simpa [stepFrame, hrep, setThread, setSig] using this
      · refine ⟨th.cont [.sSetUnlock σ], ?_, ?_, ?_⟩
        · simp [stepFrame, hrep, setThread, upd_same]
        · rw [cont_tail1 _ hst]; exact hrest
        · have := SelfStep.setBcast (rep := true) (t := t) (sg := s.sigs) σ gen (some (.sSetUnlock σ)) (fun _ => rfl)
            (by intro h; cases h)
          simpa [stepFrame, hrep, setThread, setSig, cont_head] using this
    case sRstLock σ =>
      refine ⟨th.cont [.sRstStore σ], upd_same _ _ _, ?_, ?_⟩
      · rw [cont_tail1 _ hst]; exact hrest
      · exact SelfStep.lock σ _ _ (Or.inr (Or.inl ⟨rfl, rfl⟩)) (by simpa [blockedFrame] using hblk)
    case sRstStore σ =>
      refine ⟨th.cont [.sRstUnlock σ], upd_same _ _ _, ?_, ?_⟩
      · rw [cont_tail1 _ hst]; exact hrest
      · exact SelfStep.rstStore σ
    case sRstUnlock σ =>
      refine ⟨th.cont [], upd_same _ _ _, htl0, ?_⟩
      exact SelfStep.unlock σ _ _ (Or.inl rfl) hpop
    case sWaitLock σ =>
      refine ⟨th.cont [.sWaitChk σ], upd_same _ _ _, ?_, ?_⟩
      · rw [cont_tail1 _ hst]; exact hrest
      · exact SelfStep.lock σ _ _ (Or.inr (Or.inr (Or.inl ⟨rfl, rfl⟩))) (by simpa [blockedFrame] using hblk)
    case sWaitRelock σ =>
      refine ⟨th.cont [.sWaitChk σ], upd_same _ _ _, ?_, ?_⟩
      · rw [cont_tail1 _ hst]; exact hrest
      · exact SelfStep.lock σ _ _ (Or.inr (Or.inr (Or.inr ⟨rfl, rfl⟩))) (by simpa [blockedFrame] using hblk)
    case sWaitChk σ =>
      cases hsig : (s.sigs σ).signaled
      · refine ⟨th.cont [.sWaitCwait σ], ?_, ?_, ?_⟩
        · simp [stepFrame, hsig, setThread, upd_same]
        · rw [cont_tail1 _ hst]; exact hrest
        · have := SelfStep.chk (rep := s.cfg.repaired) (t := t) (sg := s.sigs) σ
          simpa [stepFrame, hsig, setThread, setSig, cont_head] using this
      · refine ⟨th.cont [.sWaitUnlock σ], ?_, ?_, ?_⟩
        · simp [stepFrame, hsig, setThread, upd_same]
        · rw [cont_tail1 _ hst]; exact hrest
        · have := SelfStep.chk (rep := s.cfg.repaired) (t := t) (sg := s.sigs) σ
          simpa [stepFrame, hsig, setThread, setSig, cont_head] using this
    case sWaitUnlock σ =>
      refine ⟨th.cont [], upd_same _ _ _, htl0, ?_⟩
      exact SelfStep.unlock σ _ _ (Or.inr rfl) hpop
    case sWaitCwait σ =>
      refine ⟨th.cont [.sWaitCwake σ], upd_same _ _ _, ?_, ?_⟩
      · rw [cont_tail1 _ hst]; exact hrest
      · exact SelfStep.cwait σ
    case sWaitCwake σ =>
      refine ⟨th.cont [.sWaitRelock σ], ?_, ?_, ?_⟩
      · simp only [stepFrame]; split <;> exact upd_same _ _ _
      · rw [cont_tail1 _ hst]; exact hrest
      · have := SelfStep.cwake (rep := s.cfg.repaired) (t := t) (sg := s.sigs) σ
        by_cases hc : t ∈ (s.sigs σ).waiters
        · simpa [stepFrame, hc, setThread, setSig, cont_head] using this
        · have hf : (s.sigs σ).waiters.filter (· ≠ t) = (s.sigs σ).waiters := by
            rw [List.filter_eq_self]
            intro a ha
            simp only [decide_eq_true_eq]
            intro e; subst e
            exact hc ha
          rw [hf, upd_self] at this
          simpa [stepFrame, hc, setThread, setSig, cont_head] using this
    case destroyF f =>
      refine ⟨th.cont [], upd_same _ _ _, htl0, ?_⟩
      have := SelfStep.destroyF (rep := s.cfg.repaired) (t := t) (sg := s.sigs) f _ hpop
      simpa [stepFrame, setThread, setSig, setFut, destroySig, upd_upd] using this
    case dFin =>
      refine ⟨th.cont [.tExit], upd_same _ _ _, ?_, ?_⟩
      · rw [cont_tail1 _ hst]; exact hrest
      · have := SelfStep.dFin (rep := s.cfg.repaired) (t := t) (sg := s.sigs)
        simpa [stepFrame, setThread, setSig, destroySig, cont_head, upd] using this
end Nstd.Future
