/-
  Safety of the Future/ThreadPool model, part 1: the token-counting vocabulary.

  Every call record `c` is represented by exactly one TOKEN that travels
     client frames (`cRdTp c … cArm c`, `runStart (some c)`, push of `some c` before its CAS)
       → the ring (`pushLog[x] = some c`, ticket `x` not yet read by a popper)
       → a worker (`popRel x (some (some c))`, `retJob = some c` until `wDispatch`)
       → the proc frames `pCall c … pDelete c` → `freeCount c`.
  `weight c th` is the number of tokens of `c` thread `th` holds, `ringTok c pool` the number inside the
  ring; the invariant is  Σ_threads weight + ringTok + freeCount ≤ 1  (no hypothesis on the pool: when the
  pool is deleted the ring tokens just disappear).
-/
import Nstd.Future.SimRing
set_option linter.unusedSimpArgs false
set_option linter.unusedVariables false
namespace Nstd.Future

/-! ### sums over `0 … n-1` -/

def tsum : Nat → (Nat → Nat) → Nat
  | 0, _ => 0
  | n + 1, f => tsum n f + f n

theorem tsum_congr {n : Nat} {f g : Nat → Nat} (h : ∀ u, u < n → f u = g u) : tsum n f = tsum n g := by
  induction n with
  | zero => rfl
  | succ k ih =>
    simp only [tsum]
    rw [ih (fun u hu => h u (by omega)), h k (by omega)]

theorem tsum_le_mono {n : Nat} {f g : Nat → Nat} (h : ∀ u, u < n → f u ≤ g u) : tsum n f ≤ tsum n g := by
  induction n with
  | zero => exact Nat.le_refl _
  | succ k ih =>
    simp only [tsum]
    have := ih (fun u hu => h u (by omega))
    have := h k (by omega)
    omega

/-- changing the function at one point -/
theorem tsum_upd {n t : Nat} {f g : Nat → Nat} (ht : t < n) (h : ∀ u, u < n → u ≠ t → g u = f u) :
    tsum n g + f t = tsum n f + g t := by
  induction n with
  | zero => omega
  | succ k ih =>
    simp only [tsum]
    by_cases hk : t = k
    · subst hk
      have : tsum t g = tsum t f := tsum_congr (fun u hu => h u (by omega) (by omega))
      omega
    · have h1 := ih (by omega) (fun u hu hne => h u (by omega) hne)
      have h2 := h k (by omega) (fun e => hk e.symm)
      omega

theorem tsum_ge {n t : Nat} {f : Nat → Nat} (ht : t < n) : f t ≤ tsum n f := by
  induction n with
  | zero => omega
  | succ k ih =>
    simp only [tsum]
    by_cases hk : t = k
    · subst hk; omega
    · have := ih (by omega); omega

theorem tsum_ge2 {n t u : Nat} {f : Nat → Nat} (ht : t < n) (hu : u < n) (hne : t ≠ u) :
    f t + f u ≤ tsum n f := by
  induction n with
  | zero => omega
  | succ k ih =>
    simp only [tsum]
    by_cases hk : t = k
    · subst hk; have := tsum_ge (f := f) (n := t) (t := u) (by omega); omega
    · by_cases hk2 : u = k
      · subst hk2; have := tsum_ge (f := f) (n := u) (t := t) (by omega); omega
      · have := ih (by omega) (by omega); omega

theorem tsum_pos {n : Nat} {f : Nat → Nat} (h : 1 ≤ tsum n f) : ∃ u, u < n ∧ 1 ≤ f u := by
  induction n with
  | zero => simp [tsum] at h
  | succ k ih =>
    simp only [tsum] at h
    by_cases hk : 1 ≤ f k
    · exact ⟨k, by omega, hk⟩
    · obtain ⟨u, hu, h1⟩ := ih (by omega)
      exact ⟨u, by omega, h1⟩

theorem tsum_zero {n : Nat} {f : Nat → Nat} (h : tsum n f = 0) {u : Nat} (hu : u < n) : f u = 0 := by
  have := tsum_ge (f := f) hu; omega

/-! ### frame weights -/

/-- tokens of `c` a thread holds because of its `push`/`pop` program counter -/
def pcW (c : Nat) : RingPc Job → Nat
  | .pushRead d | .pushChk d _ | .pushCas d _ => if d = some c then 1 else 0
  | .popRel _ d => if d = some (some c) then 1 else 0
  | _ => 0

/-- context-free weight of a frame (`rj` = the thread's `retJob`) -/
def fw (c : Nat) (rj : Job) : Frame → Nat
  | .cRdTp c' | .cSpin c' | .cRdTp2 c' | .cSwapTp c' | .cUnlockTp c' | .cJoin c' | .cArm c' => if c' = c then 1 else 0
  | .runStart j | .runPush2 j => if j = some c then 1 else 0
  | .ring pc => pcW c pc
  | .wDeq | .wDispatch => if rj = some c then 1 else 0
  | .pCall c' | .pBody c' | .pStore c' | .pSetRd c' | .pSig c' | .pDelete c' => if c' = c then 1 else 0
  | .pSetX c' _ => if c' = c then 1 else 0
  | _ => 0

/-- weight of the TOP frame: the `…Chk` frames evaluate the result of the queue operation that just returned -/
def topW (c : Nat) (rb : Bool) (rj : Job) : Frame → Nat
  | .runChk1 j | .runChk2 j => if rb = false ∧ j = some c then 1 else 0
  | .wChk1 | .wChk2 => if rb = true ∧ rj = some c then 1 else 0
  | f => fw c rj f

def base (c : Nat) (rj : Job) : List Frame → Nat
  | [] => 0
  | f :: l => fw c rj f + base c rj l

def wS (c : Nat) (rb : Bool) (rj : Job) : List Frame → Nat
  | [] => 0
  | f :: l => topW c rb rj f + base c rj l

def weight (c : Nat) (th : Thread) : Nat := wS c th.retB th.retJob th.stack

/-- frames `pBody c … pDelete c` (the body has been entered) -/
def pw2 (c : Nat) : Frame → Nat
  | .pBody c' | .pStore c' | .pSetRd c' | .pSig c' | .pDelete c' => if c' = c then 1 else 0
  | .pSetX c' _ => if c' = c then 1 else 0
  | _ => 0
/-- frames `pSig c`, `pDelete c` (the state has been published) -/
def pw3 (c : Nat) : Frame → Nat
  | .pSig c' | .pDelete c' => if c' = c then 1 else 0
  | _ => 0

def lsum (g : Frame → Nat) : List Frame → Nat
  | [] => 0
  | f :: l => g f + lsum g l

@[simp] theorem base_nil (c : Nat) (rj : Job) : base c rj [] = 0 := rfl
@[simp] theorem base_cons (c : Nat) (rj : Job) (f : Frame) (l : List Frame) :
    base c rj (f :: l) = fw c rj f + base c rj l := rfl
@[simp] theorem wS_nil (c : Nat) (rb : Bool) (rj : Job) : wS c rb rj [] = 0 := rfl
@[simp] theorem wS_cons (c : Nat) (rb : Bool) (rj : Job) (f : Frame) (l : List Frame) :
    wS c rb rj (f :: l) = topW c rb rj f + base c rj l := rfl
@[simp] theorem lsum_nil (g : Frame → Nat) : lsum g [] = 0 := rfl
@[simp] theorem lsum_cons (g : Frame → Nat) (f : Frame) (l : List Frame) :
    lsum g (f :: l) = g f + lsum g l := rfl

def wt (s : State) (c : Nat) (t : Nat) : Nat :=
  match s.threads t with
  | some th => weight c th
  | none => 0

def wtG (g : Frame → Nat) (s : State) (t : Nat) : Nat :=
  match s.threads t with
  | some th => lsum g th.stack
  | none => 0

/-- tokens of `c` inside the ring: logged pushes of `some c` whose ticket no popper has read yet -/
def cntLog (c : Nat) (push : List Job) (pop : List (Nat × Option Job)) : Nat :=
  tsum push.length (fun x => if push[x]? = some (some c) ∧ x ∉ pop.map Prod.fst then 1 else 0)

def ringTok (c : Nat) : Option Pool → Nat
  | none => 0
  | some p => cntLog c p.ring.pushLog p.ring.popLog

/-! ### stack discipline -/

def isChk : Frame → Bool
  | .runChk1 _ | .runChk2 _ | .wChk1 | .wChk2 => true
  | _ => false
def isWD : Frame → Bool
  | .wDeq | .wDispatch => true
  | _ => false
def setFr : Frame → Bool
  | .fSet _ | .sSetLock _ | .sSetStore _ | .sSetUnlock _ | .sSetBcast _ _ => true
  | _ => false
def isRing : Frame → Bool
  | .ring _ => true
  | _ => false
/-- worker code -/
def isW : Frame → Bool
  | .wPop1 | .wChk1 | .wPop2 | .wChk2 | .wDeq | .wDispatch | .wAdd | .wTerm => true
  | .pCall _ | .pBody _ | .pStore _ | .pSetRd _ | .pSetX _ _ | .pSig _ | .pDelete _ => true
  | _ => false

def NoChk (l : List Frame) : Prop := ∀ f ∈ l, isChk f = false
def NoWD (l : List Frame) : Prop := ∀ f ∈ l, isWD f = false
def NoW (l : List Frame) : Prop := ∀ f ∈ l, isW f = false

theorem noChk_nil : NoChk [] := by intro f hf; cases hf
theorem noChk_cons {a : Frame} {l : List Frame} : NoChk (a :: l) ↔ isChk a = false ∧ NoChk l := by
  simp [NoChk]
theorem NoChk.tail {l : List Frame} (h : NoChk l) : NoChk l.tail :=
  fun f hf => h f (List.mem_of_mem_tail hf)
theorem noWD_nil : NoWD [] := by intro f hf; cases hf
theorem noWD_cons {a : Frame} {l : List Frame} : NoWD (a :: l) ↔ isWD a = false ∧ NoWD l := by
  simp [NoWD]
theorem NoWD.tail {l : List Frame} (h : NoWD l) : NoWD l.tail :=
  fun f hf => h f (List.mem_of_mem_tail hf)
theorem noW_nil : NoW [] := by intro f hf; cases hf
theorem noW_cons {a : Frame} {l : List Frame} : NoW (a :: l) ↔ isW a = false ∧ NoW l := by
  simp [NoW]

/-- `…Chk` frames are on top or directly below a ring frame -/
def chkOk (l : List Frame) : Prop := NoChk l.tail ∨ (l.head?.any isRing = true ∧ NoChk l.tail.tail)

/-- `wDeq`/`wDispatch` have only Signal-set frames above them -/
def wdOk : List Frame → Prop
  | [] => True
  | a :: rest => NoWD rest ∨ (setFr a = true ∧ wdOk rest)

def pushPay : RingPc Job → Option Job
  | .pushRead d | .pushChk d _ | .pushCas d _ | .pushData d _ | .pushPub d _ => some d
  | _ => none
def isPop : RingPc Job → Bool
  | .popRead | .popChk _ | .popCas _ | .popData _ | .popRel _ _ => true
  | _ => false

/-- the frame below a ring frame belongs to the caller of that queue operation -/
def compat (pc : RingPc Job) : Frame → Prop
  | .runChk1 j | .runChk2 j => pushPay pc = some j
  | .wChk1 | .wChk2 => isPop pc = true
  | _ => True

def linkOk : List Frame → Prop
  | .ring pc :: g :: _ => compat pc g
  | _ => True

structure StackOk (l : List Frame) : Prop where
  chk : chkOk l
  wd : wdOk l
  link : linkOk l

theorem wdOk_of_noWD {l : List Frame} (h : NoWD l) : wdOk l := by
  cases l with
  | nil => trivial
  | cons a l => exact Or.inl (noWD_cons.mp h).2

theorem wdOk_tail {a : Frame} {l : List Frame} (h : wdOk (a :: l)) : wdOk l := by
  rcases h with h | h
  · exact wdOk_of_noWD h
  · exact h.2

theorem wdOk_nonset {a : Frame} {l : List Frame} (h : wdOk (a :: l)) : setFr a = true ∨ NoWD l := by
  rcases h with h | h
  · exact Or.inr h
  · exact Or.inl h.1

theorem linkOk_of_noSpec {l : List Frame} (h : NoSpec l) : linkOk l := by
  cases l with
  | nil => trivial
  | cons a l =>
    have := h a (List.mem_cons_self ..)
    cases a <;> first | trivial | (simp [special] at this)

/-- without a `…Chk` frame on top the weight is the context-free sum -/
theorem wS_eq_base {c : Nat} {rb : Bool} {rj : Job} {l : List Frame} (h : NoChk l) :
    wS c rb rj l = base c rj l := by
  cases l with
  | nil => rfl
  | cons a l =>
    have := (noChk_cons.mp h).1
    simp only [wS_cons, base_cons]
    cases a <;> first | rfl | (simp [isChk] at this)

theorem base_append (c : Nat) (rj : Job) (l r : List Frame) :
    base c rj (l ++ r) = base c rj l + base c rj r := by
  induction l with
  | nil => simp
  | cons a l ih => simp [ih]; omega

theorem lsum_append (g : Frame → Nat) (l r : List Frame) : lsum g (l ++ r) = lsum g l + lsum g r := by
  induction l with
  | nil => simp
  | cons a l ih => simp [ih]; omega

/-- changing `retJob` does not matter below frames that do not read it -/
theorem base_rj {c : Nat} {rj rj' : Job} {l : List Frame} (h : NoWD l) : base c rj' l = base c rj l := by
  induction l with
  | nil => rfl
  | cons a l ih =>
    obtain ⟨h1, h2⟩ := noWD_cons.mp h
    simp only [base_cons, ih h2]
    congr 1
    cases a <;> first | rfl | (simp [isWD] at h1)

/-- frames that are always the bottom frame of their stack: the main loop of a client, of a worker, of the main thread -/
def isLast : Frame → Bool
  | .cNext | .cEnd _ | .tExit => true
  | .wPop1 | .wChk1 | .wPop2 | .wChk2 | .wDeq | .wDispatch | .wAdd | .wTerm => true
  | .mInit | .mSpawn _ | .mSpawned _ _ | .mJoin _ | .mDel
  | .dPush _ | .dChk1 _ | .dPush2 _ | .dChk2 _ | .dSet _ | .dJoin _ | .dFin => true
  | _ => false

def NoLast (l : List Frame) : Prop := ∀ f ∈ l, isLast f = false
def LastOnly (l : List Frame) : Prop := NoLast l.dropLast

theorem noLast_nil : NoLast [] := by intro f hf; cases hf
theorem noLast_cons {a : Frame} {l : List Frame} : NoLast (a :: l) ↔ isLast a = false ∧ NoLast l := by
  simp [NoLast]
theorem lastOnly_nil : LastOnly [] := by simp [LastOnly, noLast_nil]
theorem lastOnly_singleton (a : Frame) : LastOnly [a] := by simp [LastOnly, noLast_nil]
theorem lastOnly_cons_of {a : Frame} {l : List Frame} (h : isLast a = false) :
    LastOnly (a :: l) ↔ LastOnly l := by
  cases l with
  | nil => simp [lastOnly_nil, lastOnly_singleton]
  | cons b l => simp [LastOnly, List.dropLast, noLast_cons, h]
theorem lastOnly_cons_last {a : Frame} {l : List Frame} (h : isLast a = true) (hb : LastOnly (a :: l)) :
    l = [] := by
  cases l with
  | nil => rfl
  | cons b l =>
    simp only [LastOnly, List.dropLast, noLast_cons] at hb
    rw [h] at hb; cases hb.1
theorem lastOnly_cons_iff {a : Frame} {l : List Frame} :
    LastOnly (a :: l) ↔ l = [] ∨ (isLast a = false ∧ LastOnly l) := by
  cases l with
  | nil => simp [lastOnly_singleton]
  | cons b l => simp [LastOnly, List.dropLast, noLast_cons]
theorem ringTok_none (c : Nat) : ringTok c none = 0 := rfl

end Nstd.Future
