/-
  Spawn side of deadlock freedom, part 3: the invariant `SpInv` (statement) and the FINAL STEP:
  in a reachable state of the repaired system in which no thread is enabled and no worker is alive, `SpInv` implies
  that the queue is empty (`sp_final`).

  `SpInv s`:  for the pool `p` of `s`:  some thread COVERS the queued real jobs (`SpCov`: it has queued a real job and
  not yet executed `runAdd`, or it is the last incrementer of `_pushedJobs` in its decision phase and still promises a
  worker), or every queued real ticket `x` has FIFO potential ≥ 1 (`SpPotOk`:
  `1 + O ≤ _threadCount + #terminate tickets ≥ x`, where `O` = retire job in flight + terminate jobs the destructor has
  queued; by the balance (K) of LiveShutdown this says (serving workers + pending contexts) > #terminate tickets in
  `[head, x)`).
-/
import Nstd.Future.LiveSpawn2
import Nstd.Future.LiveReduce
set_option linter.unusedSimpArgs false
set_option linter.unusedVariables false
namespace Nstd.Future.SP

open LS

/-! ### the invariant -/

def SpCov (s : State) (p : Pool) : Prop := ∃ t th, s.threads t = some th ∧ spCovTh p th = true

def SpPotGe (s : State) (p : Pool) (x : Nat) : Prop :=
  (¬ lsDone s → 1 + tsum s.nthreads (spOAt s) ≤ p.threadCount + lsTq x p.ring.pushLog) ∧
  (lsDone s → 1 + tsum s.nthreads (spOAt s) ≤ lsTq x p.ring.pushLog)

def SpPotOk (s : State) (p : Pool) : Prop :=
  ∀ x, p.ring.head ≤ x → x < p.ring.pushLog.length → spReal p.ring.pushLog x = true → SpPotGe s p x

def SpInv (s : State) : Prop := ∀ p, s.pool = some p → SpCov s p ∨ SpPotOk s p

/-! ### quiet frames -/

def spQuiet : Frame → Bool
  | .runChk1 _ | .runChk2 _ | .runSet | .runAdd | .runRdProc _ | .runRdTc _ | .runClk2 _ | .runSpLock | .runSpChk
  | .runSpUnlock _ | .runSpStart _ | .runRetAfter => false
  | .wPop1 | .wChk1 | .wPop2 | .wChk2 | .wDeq | .wDispatch | .wAdd | .wTerm => false
  | .dJoin _ | .dFin => false
  | _ => true

def SpAllQ (l : List Frame) : Prop := ∀ f ∈ l, spQuiet f = true
theorem spAllQ_nil : SpAllQ [] := by intro f hf; cases hf
theorem spAllQ_cons {a : Frame} {l : List Frame} : SpAllQ (a :: l) ↔ spQuiet a = true ∧ SpAllQ l := by
  simp [SpAllQ]

theorem spQuiet_base {f : Frame} (h : lsB f = true) : spQuiet f = true := by
  cases f <;> first | rfl | (simp [lsB] at h)
theorem spAllQ_base {l : List Frame} (h : LsAllB l) : SpAllQ l := fun f hf => spQuiet_base (h f hf)

theorem spQuiet_of {f : Frame} (h1 : spRun f = false) (h2 : LG.wOnly f = false) : spQuiet f = true := by
  cases f <;> first | rfl | (simp [spRun] at h1; done) | (simp [LG.wOnly] at h2; done)

theorem lsCapt_le_one (rb : Bool) (ab : Option (RingPc Job)) : lsCapt rb ab ≤ 1 := by
  cases ab with
  | none => simp only [lsCapt]; split <;> omega
  | some pc => cases pc <;> simp [lsCapt, lsCaptPc]

theorem spQuiet_frame (rb : Bool) (rj : Job) (log : List Job) (ab : Option (RingPc Job)) (pu mx : Nat) {f : Frame}
    (h : spQuiet f = true) :
    lsFr rb rj log ab f ≤ spOFr rb ab f ∧ spAFr rb ab f = 0 ∧ spCovFr pu mx f = false ∧ lsDJ f = 0 ∧
      spOFr rb ab f ≤ lsM2 f ∧ (bottomFr f = false → spOFr rb ab f = 0) := by
  have hc := lsCapt_le_one rb ab
  cases f <;> first | (simp [spQuiet] at h; done) | (simp [lsFr, spOFr, spAFr, spCovFr, lsDJ, lsM2, bottomFr]; try omega)

theorem spQuiet_stk (rb : Bool) (rj : Job) (log : List Job) (pu mx : Nat) {l : List Frame} (h : SpAllQ l) :
    ∀ ab, lsStk rb rj log ab l ≤ spOStk rb ab l ∧ spAStk rb ab l = 0 ∧ spHasCov pu mx l = false ∧ lsum lsDJ l = 0 ∧
      spOStk rb ab l ≤ lsum lsM2 l ∧ (NoBot l → spOStk rb ab l = 0) := by
  induction l with
  | nil => intro ab; simp [spHasCov]
  | cons a l ih =>
    intro ab
    rw [spAllQ_cons] at h
    obtain ⟨h1, h2, h3, h4, h5, h6⟩ := spQuiet_frame rb rj log ab pu mx h.1
    obtain ⟨i1, i2, i3, i4, i5, i6⟩ := ih h.2 (lsRingOf a)
    simp only [spHasCov] at i3
    refine ⟨?_, ?_, ?_, ?_, ?_, ?_⟩
    · simp only [lsStk_cons, spOStk_cons]; omega
    · simp only [spAStk_cons]; omega
    · simp only [spHasCov, List.any_cons, h3, i3, Bool.or_self]
    · simp only [lsum_cons]; omega
    · simp only [lsum_cons, spOStk_cons]; omega
    · intro hb
      rw [noBot_cons] at hb
      simp only [spOStk_cons, h6 hb.1, i6 hb.2]

/-! ### the threads of a dead state without a live worker -/

variable {cfg : Config} {s : State}

theorem sp_dead_thread (hrep : cfg.repaired = true) (hr : Reach cfg s) (hdead : ∀ u, enabled s u = false)
    (hnw : ∀ w, ¬ liveWorker s w) {u : Tid} {thu : Thread} (hthu : s.threads u = some thu) : SpAllQ thu.stack := by
  cases hf : thu.finished with
  | true => rw [finished_stack_nil hr hthu hf]; exact spAllQ_nil
  | false =>
    have hw : thu.isWorker = false := by
      cases hw : thu.isWorker with
      | false => rfl
      | true => exact absurd ⟨thu, hthu, hw, hf⟩ (hnw u)
    obtain ⟨fr, htop⟩ := lg_unfinished_top hrep hr hthu hf
    obtain ⟨th2, rest, hth2, hst⟩ := topFrame_some htop
    rw [hthu] at hth2; injection hth2 with hth2; subst hth2
    have hcb : LseCB (fr :: rest) := by rw [← hst]; exact (lse_reach hrep hr).cb u thu hthu
    rw [hst]
    rcases global_deadlock_shape hr hdead htop with ⟨σ, rfl, _, _, _⟩ | ⟨i, rfl⟩ | ⟨i, rfl⟩
    · match σ, htop, hst, hcb with
      | 0, htop, hst, hcb => exact absurd htop (lg_nonworker_not_on_enq hr hthu hw)
      | 1, htop, hst, hcb =>
        have hadj : LP.AdjP (.sWaitCwake 1 :: rest) := by rw [← hst]; exact LP.adj_reach hrep hr u thu hthu
        have h0 := hadj.1
        simp only [LP.adjP, forall_const] at h0
        cases rest with
        | nil => simp [LP.optB] at h0
        | cons c rest2 =>
          simp only [List.head?_cons, LP.optB] at h0
          have hc : lseC c = true := by cases c <;> simp [LP.isRestart] at h0 <;> rfl
          have hq : spQuiet c = true := by cases c <;> simp [LP.isRestart] at h0 <;> rfl
          have hbase := hcb.2.1 hc
          rw [spAllQ_cons, spAllQ_cons]
          exact ⟨rfl, hq, spAllQ_base hbase⟩
      | σ + 2, htop, hst, hcb =>
        have hstk := spStk_reach hrep hr u thu hthu
        rw [hst] at hstk
        have hjn : SpHasJn (.sWaitCwake (σ + 2) :: rest) := spHasJn_cons.mpr (Or.inl (by simp [spJn]))
        have hnowo := lg_nonworker_noWO hr hthu hw
        rw [hst] at hnowo
        intro f hf
        apply spQuiet_of
        · cases h : spRun f with
          | false => rfl
          | true => exact absurd hjn (hstk ⟨f, hf, h⟩)
        · exact hnowo f hf
    · rw [spAllQ_cons]
      exact ⟨rfl, spAllQ_base (hcb.1 rfl)⟩
    · have hu0 : u = 0 := lg_join_frames_main_only hr htop (Or.inr ⟨i, rfl⟩)
      subst hu0
      obtain ⟨v, hv⟩ := no_stuck_shutdown_side hrep hr ⟨i, htop⟩
      rw [hdead v] at hv; cases hv

theorem lsTq_zero_real {h : Nat} {log : List Job} (hz : lsTq h log = 0) (hh : h < log.length) :
    spReal log h = true := by
  rw [lsTq_pop h log hh] at hz
  simp only [spReal]
  rw [List.getElem?_eq_getElem hh] at hz ⊢
  cases hj : log[h] with
  | none => rw [hj] at hz; simp at hz
  | some c => rfl

/-- FINAL STEP: no thread enabled, no live worker, `SpInv` ⇒ the queue is empty -/
theorem sp_final {p : Pool} (hrep : cfg.repaired = true) (hr : Reach cfg s) (hI : SpInv s)
    (hdead : ∀ u, enabled s u = false) (hnw : ∀ w, ¬ liveWorker s w) (hp : s.pool = some p) :
    ¬ p.ring.head < p.ring.tail := by
  intro hq
  have hlen := full_pushLog_len hr hp
  have hQ : ∀ u thu, s.threads u = some thu → SpAllQ thu.stack :=
    fun u thu h => sp_dead_thread hrep hr hdead hnw h
  -- nobody covers
  have hnc : ¬ SpCov s p := by
    rintro ⟨t, th, hth, hc⟩
    obtain ⟨_, h2, h3, _⟩ := spQuiet_stk th.retB th.retJob p.ring.pushLog p.pushed p.maxT (hQ t th hth) none
    simp only [spCovTh, spAW, h2, h3, Bool.or_false, decide_eq_true_eq] at hc
    omega
  -- the destructor has not left its push loop
  have hnd : ¬ lsDone s := by
    rintro ⟨u, thu, hthu, h1⟩
    obtain ⟨_, _, _, h4, _⟩ := spQuiet_stk thu.retB thu.retJob p.ring.pushLog p.pushed p.maxT (hQ u thu hthu) none
    omega
  -- weights: only the O-part is left, and only in the main thread
  have hle : tsum s.nthreads (lsAt p.ring.pushLog s) ≤ tsum s.nthreads (spOAt s) := by
    apply tsum_le_mono
    intro u _
    simp only [lsAt, spOAt]
    cases hthu : s.threads u with
    | none => simp [lsVal, spOVal]
    | some thu =>
      simp only [lsVal, spOVal, lsW, spOW]
      exact (spQuiet_stk thu.retB thu.retJob p.ring.pushLog p.pushed p.maxT (hQ u thu hthu) none).1
  obtain ⟨th0, hth0⟩ := lg_main_exists hr
  have h0lt : 0 < s.nthreads := ls_thread_lt hr hth0
  have hO : tsum s.nthreads (spOAt s) ≤ p.threadCount := by
    have h1 := tsum_upd (n := s.nthreads) (t := 0) (f := fun _ => 0) (g := spOAt s) h0lt (by
      intro u _ hu
      simp only [spOAt]
      cases hthu : s.threads u with
      | none => rfl
      | some thu =>
        simp only [spOVal, spOW]
        exact (spQuiet_stk thu.retB thu.retJob p.ring.pushLog p.pushed p.maxT (hQ u thu hthu) none).2.2.2.2.2
          ((reach_join hr).mainOnly u thu hthu hu))
    rw [tsum_const_zero] at h1
    have h2 : spOAt s 0 ≤ lsM2At s 0 := by
      simp only [spOAt, lsM2At, hth0, spOVal, spOW]
      exact (spQuiet_stk th0.retB th0.retJob p.ring.pushLog p.pushed p.maxT (hQ 0 th0 hth0) none).2.2.2.2.1
    have h3 := (lse_reach hrep hr).l p 0 hp
    omega
  have hK := ((lse_reach hrep hr).e p hp).1 hnd
  have hz : lsTq p.ring.head p.ring.pushLog = 0 := by omega
  have hreal := lsTq_zero_real hz (by omega)
  rcases hI p hp with hc | hpot
  · exact hnc hc
  · have := (hpot p.ring.head (Nat.le_refl _) (by omega) hreal).1 hnd
    omega

end Nstd.Future.SP
