/-
  The lock-free bounded MPMC ring of `Future.cpp` (model: `Nstd.Future.Ring`): the inductive invariant
  `RingInv` (defined in `RingLemmas1`, preserved step by step in `RingLemmas2`) holds in every reachable
  state of `RingSys` for every capacity `cap > 0`, and its consequences: every successful pop hands over
  exactly the payload of one successful push, every ticket is claimed by at most one pusher and at most
  one popper, and every ticket between head and tail is published or still owned by its pusher.

  Nothing here says "push returned false ⇒ full" or "pop returned false ⇒ empty": with stale reads both
  operations can fail spuriously.
-/
import Nstd.Future.RingLemmas2
import Nstd.Future.RingLemmas3
namespace Nstd.Future
variable {α : Type}

theorem ringInv_step {cap : Nat} (hc : 0 < cap) {s s' : RingSys α} {t : Nat} {a : RingAct α}
    (hI : RingInv cap s) (h : s.step t a = some s') : RingInv cap s' := by
  have hcap := hI.capEq
  cases a with
  | callPush d =>
    simp only [RingSys.step] at h
    split at h
    · next hpc =>
      injection h with h; subst h
      apply inv_pcOnly t _ hI
      · intro p hp; rw [hpc] at hp; cases hp
      · intro p hp; injection hp with hp; subst hp; exact ⟨rfl, rfl⟩
      · intro d x hp; injection hp with hp; cases hp
      · intro x hp; injection hp with hp; cases hp
    · cases h
  | callPop =>
    simp only [RingSys.step] at h
    split at h
    · next hpc =>
      injection h with h; subst h
      apply inv_pcOnly t _ hI
      · intro p hp; rw [hpc] at hp; cases hp
      · intro p hp; injection hp with hp; subst hp; exact ⟨rfl, rfl⟩
      · intro d x hp; injection hp with hp; cases hp
      · intro x hp; injection hp with hp; cases hp
    · cases h
  | step =>
    simp only [RingSys.step] at h
    split at h
    · cases h
    · next pc hpc =>
      have hold : ∀ p, s.pcs t = some p → pushTicket p = none ∧ popTicket p = none →
          ∀ q, s.pcs t = some q → pushTicket q = none ∧ popTicket q = none := by
        intro p hp hq q hq'; rw [hp] at hq'; injection hq' with hq'; subst hq'; exact hq
      cases pc with
      | pushRead d =>
        simp only [ringStep] at h
        injection h with h; subst h
        refine inv_pcOnly (s := s) t _ hI (hold _ hpc ⟨rfl, rfl⟩) ?_ ?_ ?_
        · intro p hp; injection hp with hp; subst hp; exact ⟨rfl, rfl⟩
        · intro d x hp; injection hp with hp; cases hp
        · intro x hp; injection hp with hp; cases hp
      | pushChk d x =>
        simp only [ringStep, hcap] at h
        by_cases hx : (s.ring.slots (x % cap)).tailT = x
        · simp only [hx, ne_eq, not_true_eq_false, if_false] at h
          injection h with h; subst h
          refine inv_pcOnly (s := s) t _ hI (hold _ hpc ⟨rfl, rfl⟩) ?_ ?_ ?_
          · intro p hp; injection hp with hp; subst hp; exact ⟨rfl, rfl⟩
          · intro d' y hp; injection hp with hp; injection hp with h1 h2; subst h2; exact Or.inl hx
          · intro x hp; injection hp with hp; cases hp
        · simp only [hx, ne_eq, not_false_eq_true, if_true] at h
          injection h with h; subst h
          refine inv_pcOnly (s := s) t _ hI (hold _ hpc ⟨rfl, rfl⟩) ?_ ?_ ?_
          · intro p hp; cases hp
          · intro d x hp; cases hp
          · intro x hp; cases hp
      | pushCas d x =>
        simp only [ringStep] at h
        by_cases hx : s.ring.tail = x
        · simp only [hx, if_true] at h
          injection h with h; subst h
          exact inv_pushCas_ok hc hI hpc hx
        · simp only [hx, if_false] at h
          injection h with h; subst h
          refine inv_pcOnly (s := s) t _ hI (hold _ hpc ⟨rfl, rfl⟩) ?_ ?_ ?_
          · intro p hp; injection hp with hp; subst hp; exact ⟨rfl, rfl⟩
          · intro d x hp; injection hp with hp; cases hp
          · intro x hp; injection hp with hp; cases hp
      | pushData d x =>
        simp only [ringStep, hcap] at h
        injection h with h; subst h
        exact inv_pushData hc hI hpc
      | pushPub d x =>
        simp only [ringStep, hcap] at h
        injection h with h; subst h
        exact inv_pushPub hc hI hpc
      | popRead =>
        simp only [ringStep] at h
        injection h with h; subst h
        refine inv_pcOnly (s := s) t _ hI (hold _ hpc ⟨rfl, rfl⟩) ?_ ?_ ?_
        · intro p hp; injection hp with hp; subst hp; exact ⟨rfl, rfl⟩
        · intro d x hp; injection hp with hp; cases hp
        · intro x hp; injection hp with hp; cases hp
      | popChk x =>
        simp only [ringStep, hcap] at h
        by_cases hx : (s.ring.slots (x % cap)).headT = some x
        · simp only [hx, ne_eq, not_true_eq_false, if_false] at h
          injection h with h; subst h
          refine inv_pcOnly (s := s) t _ hI (hold _ hpc ⟨rfl, rfl⟩) ?_ ?_ ?_
          · intro p hp; injection hp with hp; subst hp; exact ⟨rfl, rfl⟩
          · intro d' y hp; injection hp with hp; cases hp
          · intro y hp; injection hp with hp; injection hp with h1; subst h1; exact Or.inl hx
        · simp only [hx, ne_eq, not_false_eq_true, if_true] at h
          injection h with h; subst h
          refine inv_pcOnly (s := s) t _ hI (hold _ hpc ⟨rfl, rfl⟩) ?_ ?_ ?_
          · intro p hp; cases hp
          · intro d x hp; cases hp
          · intro x hp; cases hp
      | popCas x =>
        simp only [ringStep] at h
        by_cases hx : s.ring.head = x
        · simp only [hx, if_true] at h
          injection h with h; subst h
          exact inv_popCas_ok hc hI hpc hx
        · simp only [hx, if_false] at h
          injection h with h; subst h
          refine inv_pcOnly (s := s) t _ hI (hold _ hpc ⟨rfl, rfl⟩) ?_ ?_ ?_
          · intro p hp; injection hp with hp; subst hp; exact ⟨rfl, rfl⟩
          · intro d x hp; injection hp with hp; cases hp
          · intro x hp; injection hp with hp; cases hp
      | popData x =>
        simp only [ringStep, hcap] at h
        injection h with h; subst h
        exact inv_popData hc hI hpc
      | popRel x d =>
        simp only [ringStep, hcap] at h
        injection h with h; subst h
        exact inv_popRel hc hI hpc

theorem ringInv_of_reach {cap : Nat} (hc : 0 < cap) {s : RingSys α} (h : RingReach cap s) :
    RingInv cap s := by
  induction h with
  | init => exact ringInv_init hc
  | step t a _ hs ih => exact ringInv_step hc ih hs

theorem ringInvData_step {cap : Nat} (hc : 0 < cap) {s s' : RingSys α} {t : Nat} {a : RingAct α}
    (hI : RingInv cap s) (hD : RingInvData cap s) (h : s.step t a = some s') :
    RingInvData cap s' := by
  have hcap := hI.capEq
  cases a with
  | callPush d =>
    simp only [RingSys.step] at h
    split at h
    · next hpc =>
      injection h with h; subst h
      apply invData_pcOnly t _ hD
      · intro p hp; rw [hpc] at hp; cases hp
      · intro p hp; injection hp with hp; subst hp; exact ⟨rfl, rfl⟩
    · cases h
  | callPop =>
    simp only [RingSys.step] at h
    split at h
    · next hpc =>
      injection h with h; subst h
      apply invData_pcOnly t _ hD
      · intro p hp; rw [hpc] at hp; cases hp
      · intro p hp; injection hp with hp; subst hp; exact ⟨rfl, rfl⟩
    · cases h
  | step =>
    simp only [RingSys.step] at h
    split at h
    · cases h
    · next pc hpc =>
      have hold : ∀ p, s.pcs t = some p → pushTicket p = none ∧ popTicket p = none →
          ∀ q, s.pcs t = some q → pushTicket q = none ∧ popTicket q = none := by
        intro p hp hq q hq'; rw [hp] at hq'; injection hq' with hq'; subst hq'; exact hq
      cases pc with
      | pushRead d =>
        simp only [ringStep] at h
        injection h with h; subst h
        refine invData_pcOnly (s := s) t _ hD (hold _ hpc ⟨rfl, rfl⟩) ?_
        · intro p hp; injection hp with hp; subst hp; exact ⟨rfl, rfl⟩
      | pushChk d x =>
        simp only [ringStep, hcap] at h
        by_cases hx : (s.ring.slots (x % cap)).tailT = x
        · simp only [hx, ne_eq, not_true_eq_false, if_false] at h
          injection h with h; subst h
          refine invData_pcOnly (s := s) t _ hD (hold _ hpc ⟨rfl, rfl⟩) ?_
          · intro p hp; injection hp with hp; subst hp; exact ⟨rfl, rfl⟩
        · simp only [hx, ne_eq, not_false_eq_true, if_true] at h
          injection h with h; subst h
          refine invData_pcOnly (s := s) t _ hD (hold _ hpc ⟨rfl, rfl⟩) ?_
          · intro p hp; cases hp
      | pushCas d x =>
        simp only [ringStep] at h
        by_cases hx : s.ring.tail = x
        · simp only [hx, if_true] at h
          injection h with h; subst h
          exact invData_pushCas_ok hD hpc
        · simp only [hx, if_false] at h
          injection h with h; subst h
          refine invData_pcOnly (s := s) t _ hD (hold _ hpc ⟨rfl, rfl⟩) ?_
          · intro p hp; injection hp with hp; subst hp; exact ⟨rfl, rfl⟩
      | pushData d x =>
        simp only [ringStep, hcap] at h
        injection h with h; subst h
        exact invData_pushData hc hI hD hpc
      | pushPub d x =>
        simp only [ringStep, hcap] at h
        injection h with h; subst h
        exact invData_pushPub hc hI hD hpc
      | popRead =>
        simp only [ringStep] at h
        injection h with h; subst h
        refine invData_pcOnly (s := s) t _ hD (hold _ hpc ⟨rfl, rfl⟩) ?_
        · intro p hp; injection hp with hp; subst hp; exact ⟨rfl, rfl⟩
      | popChk x =>
        simp only [ringStep, hcap] at h
        by_cases hx : (s.ring.slots (x % cap)).headT = some x
        · simp only [hx, ne_eq, not_true_eq_false, if_false] at h
          injection h with h; subst h
          refine invData_pcOnly (s := s) t _ hD (hold _ hpc ⟨rfl, rfl⟩) ?_
          · intro p hp; injection hp with hp; subst hp; exact ⟨rfl, rfl⟩
        · simp only [hx, ne_eq, not_false_eq_true, if_true] at h
          injection h with h; subst h
          refine invData_pcOnly (s := s) t _ hD (hold _ hpc ⟨rfl, rfl⟩) ?_
          · intro p hp; cases hp
      | popCas x =>
        simp only [ringStep] at h
        by_cases hx : s.ring.head = x
        · simp only [hx, if_true] at h
          injection h with h; subst h
          exact invData_popCas_ok hD hpc
        · simp only [hx, if_false] at h
          injection h with h; subst h
          refine invData_pcOnly (s := s) t _ hD (hold _ hpc ⟨rfl, rfl⟩) ?_
          · intro p hp; injection hp with hp; subst hp; exact ⟨rfl, rfl⟩
      | popData x =>
        simp only [ringStep, hcap] at h
        injection h with h; subst h
        exact invData_popData hD hpc
      | popRel x d =>
        simp only [ringStep, hcap] at h
        injection h with h; subst h
        exact invData_popRel hI hD hpc

theorem ringInvData_of_reach {cap : Nat} (hc : 0 < cap) {s : RingSys α} (h : RingReach cap s) :
    RingInvData cap s := by
  induction h with
  | init => exact ringInvData_init
  | step t a hr hs ih => exact ringInvData_step hc (ringInv_of_reach hc hr) ih hs

/-! ### Consequences for reachable states -/

section consequences
variable {cap : Nat} {s : RingSys α}

/-- a ticket between head and tail lives in its slot: the slot's `tail` ticket is that ticket -/
theorem RingInv.slot_of_live (hc : 0 < cap) (hI : RingInv cap s) {x : Nat}
    (h1 : s.ring.head ≤ x) (h2 : x < s.ring.tail) : (s.ring.slots (x % cap)).tailT = x := by
  have hxc : x % cap < cap := Nat.mod_lt _ hc
  have hm := hI.slotMod _ hxc
  have hl := hI.slotLt _ hxc
  have hg := hI.slotGe _ hxc
  by_cases hle : (s.ring.slots (x % cap)).tailT ≤ x
  · exact mod_window hm hle (by omega)
  · exact (mod_window hm.symm (by omega) (by omega)).symm

theorem ring_head_le_tail (hc : 0 < cap) (h : RingReach cap s) : s.ring.head ≤ s.ring.tail :=
  (ringInv_of_reach hc h).hLeT

theorem ring_tail_le_head_cap (hc : 0 < cap) (h : RingReach cap s) :
    s.ring.tail ≤ s.ring.head + cap := by
  have hI := ringInv_of_reach hc h
  have hHT := hI.hLeT
  by_cases he : s.ring.tail = s.ring.head
  · omega
  · have h1 := hI.slot_of_live hc (x := s.ring.tail - 1) (by omega) (by omega)
    have h2 := hI.slotLt _ (Nat.mod_lt (s.ring.tail - 1) hc)
    omega

theorem ring_pushLog_length (hc : 0 < cap) (h : RingReach cap s) :
    s.ring.pushLog.length = s.ring.tail :=
  (ringInv_of_reach hc h).logLen

theorem ring_cap_const (hc : 0 < cap) (h : RingReach cap s) : s.ring.cap = cap :=
  (ringInv_of_reach hc h).capEq

/-- the payload a successful pop returns is the one pushed with the same ticket (never raw memory) -/
theorem ring_pop_reads_pushed (hc : 0 < cap) (h : RingReach cap s) {t x : Nat} {d : Option α}
    (hpc : s.pcs t = some (.popRel x d)) :
    x < s.ring.pushLog.length ∧ d = s.ring.pushLog[x]? := by
  have hI := ringInv_of_reach hc h
  have h1 := hI.pcPopRel t x d hpc
  have := hI.hLeT
  have := hI.logLen
  exact ⟨by omega, h1.2.2.2⟩

/-- a popper about to read its slot finds the payload pushed with its ticket there -/
theorem ring_popData_slot (hc : 0 < cap) (h : RingReach cap s) {t x : Nat}
    (hpc : s.pcs t = some (.popData x)) :
    x < s.ring.pushLog.length ∧ (s.ring.slots (x % cap)).data = s.ring.pushLog[x]? ∧
      (s.ring.slots (x % cap)).headT = some x ∧ (s.ring.slots (x % cap)).tailT = x := by
  have hI := ringInv_of_reach hc h
  have h1 := hI.pcPopData t x hpc
  have := hI.hLeT
  have := hI.logLen
  exact ⟨by omega, h1.2.2.2.1, h1.2.2.1, h1.2.1⟩

theorem ring_popLog_sound (hc : 0 < cap) (h : RingReach cap s) {x : Nat} {d : Option α}
    (hm : (x, d) ∈ s.ring.popLog) : x < s.ring.pushLog.length ∧ d = s.ring.pushLog[x]? := by
  have hI := ringInv_of_reach hc h
  have h1 := hI.popLogSound x d hm
  have := hI.hLeT
  have := hI.logLen
  exact ⟨by omega, h1.2⟩

theorem ring_popLog_nodup (hc : 0 < cap) (h : RingReach cap s) :
    (s.ring.popLog.map Prod.fst).Nodup :=
  (ringInv_of_reach hc h).popLogNodup

theorem ring_popLog_lt_head (hc : 0 < cap) (h : RingReach cap s) {x : Nat} {d : Option α}
    (hm : (x, d) ∈ s.ring.popLog) : x < s.ring.head :=
  ((ringInv_of_reach hc h).popLogSound x d hm).1

/-- a popper that has not yet read its slot has not logged its ticket yet -/
theorem ring_popData_not_logged (hc : 0 < cap) (h : RingReach cap s) {t x : Nat}
    (hpc : s.pcs t = some (.popData x)) : x ∉ s.ring.popLog.map Prod.fst :=
  ((ringInv_of_reach hc h).pcPopData t x hpc).2.2.2.2

theorem ring_claim_unique_pop (hc : 0 < cap) (h : RingReach cap s) {t u x : Nat} {p q : RingPc α}
    (htu : t ≠ u) (hp : s.pcs t = some p) (hq : s.pcs u = some q)
    (hpt : popTicket p = some x) (hqt : popTicket q = some x) : False :=
  (ringInv_of_reach hc h).uniqPop t u p q x htu hp hq hpt hqt

theorem ring_claim_unique_push (hc : 0 < cap) (h : RingReach cap s) {t u x : Nat} {p q : RingPc α}
    (htu : t ≠ u) (hp : s.pcs t = some p) (hq : s.pcs u = some q)
    (hpt : pushTicket p = some x) (hqt : pushTicket q = some x) : False :=
  (ringInv_of_reach hc h).uniqPush t u p q x htu hp hq hpt hqt

/-- a pusher past its CAS owns the log entry of its ticket: the payload logged there is its own -/
theorem ring_pushData_logged (hc : 0 < cap) (h : RingReach cap s) {t x : Nat} {d : α}
    (hpc : s.pcs t = some (.pushData d x)) :
    s.ring.pushLog[x]? = some d ∧ s.ring.head ≤ x ∧ x < s.ring.tail ∧
      (s.ring.slots (x % cap)).tailT = x ∧ (s.ring.slots (x % cap)).headT ≠ some x := by
  have hI := ringInv_of_reach hc h
  obtain ⟨h1, h2, h3, h4⟩ := hI.pcPushData t d x hpc
  have h5 := hI.slotFree _ (Nat.mod_lt x hc) h3
  refine ⟨h4, by omega, h1, h2, ?_⟩
  intro h6
  exact not_prevHead_of_headT hc (by rw [h6, h2]) h3

theorem ring_pushPub_logged (hc : 0 < cap) (h : RingReach cap s) {t x : Nat} {d : α}
    (hpc : s.pcs t = some (.pushPub d x)) :
    s.ring.pushLog[x]? = some d ∧ s.ring.head ≤ x ∧ x < s.ring.tail ∧
      (s.ring.slots (x % cap)).tailT = x ∧ (s.ring.slots (x % cap)).headT ≠ some x ∧
      (s.ring.slots (x % cap)).data = some d := by
  have hI := ringInv_of_reach hc h
  obtain ⟨h1, h2, h3, h4, h7⟩ := hI.pcPushPub t d x hpc
  have h5 := hI.slotFree _ (Nat.mod_lt x hc) h3
  refine ⟨h4, by omega, h1, h2, ?_, h7⟩
  intro h6
  exact not_prevHead_of_headT hc (by rw [h6, h2]) h3

/-- every ticket between head and tail is either published in its slot or still owned by its pusher -/
theorem ring_published_or_claimed (hc : 0 < cap) (h : RingReach cap s) {x : Nat}
    (hxT : x < s.ring.tail) (hHx : s.ring.head ≤ x) :
    ((s.ring.slots (x % cap)).headT = some x ∧ (s.ring.slots (x % cap)).data = s.ring.pushLog[x]?) ∨
    (∃ t d, s.pcs t = some (.pushData d x) ∨ s.pcs t = some (.pushPub d x)) := by
  have hI := ringInv_of_reach hc h
  have hxc : x % cap < cap := Nat.mod_lt _ hc
  have hs := hI.slot_of_live hc hHx hxT
  rcases hI.slotHead _ hxc with hp | hp
  · right
    have := hI.slotPusher _ hxc (by omega) hp
    rw [hs] at this
    exact this
  · left
    have := (hI.slotPub _ hxc hp).2 (by omega)
    rw [hs] at hp this
    exact ⟨hp, this⟩

/-- a ticket below head whose slot has not been released yet is held by exactly the popper that claimed it -/
theorem ring_claimed_pop_held (hc : 0 < cap) (h : RingReach cap s) {x : Nat}
    (hx : x < s.ring.head) (hs : (s.ring.slots (x % cap)).tailT = x) :
    ∃ t, s.pcs t = some (.popData x) ∨ ∃ d, s.pcs t = some (.popRel x d) := by
  have hI := ringInv_of_reach hc h
  have hxc : x % cap < cap := Nat.mod_lt _ hc
  rcases hI.slotHead _ hxc with hp | hp
  · have := hI.slotFree _ hxc hp; omega
  · have := hI.slotPopper _ hxc hp (by omega)
    rw [hs] at this; exact this

/-- the placement-new of `push` hits raw memory: no live payload is overwritten -/
theorem ring_pushData_raw (hc : 0 < cap) (h : RingReach cap s) {t x : Nat} {d : α}
    (hpc : s.pcs t = some (.pushData d x)) : (s.ring.slots (x % cap)).data = none := by
  have hI := ringInv_of_reach hc h
  have hD := ringInvData_of_reach hc h
  obtain ⟨_, h2, h3, _⟩ := hI.pcPushData t d x hpc
  apply hD.rawFree _ (Nat.mod_lt x hc) h3
  intro u d' hu
  rw [h2] at hu
  by_cases hut : u = t
  · subst hut; rw [hpc] at hu; cases hu
  · exact hI.uniqPush u t _ _ x hut hu hpc rfl rfl

/-- after the popper's data read the payload is destructed: the slot is released as raw memory -/
theorem ring_popRel_raw (hc : 0 < cap) (h : RingReach cap s) {t x : Nat} {d : Option α}
    (hpc : s.pcs t = some (.popRel x d)) : (s.ring.slots (x % cap)).data = none :=
  (ringInvData_of_reach hc h).rawRel t x d hpc

/-- a slot waiting for a ticket that has not been handed out yet holds raw memory -/
theorem ring_free_slot_raw (hc : 0 < cap) (h : RingReach cap s) {i : Nat} (hi : i < cap)
    (hT : s.ring.tail ≤ (s.ring.slots i).tailT) : (s.ring.slots i).data = none := by
  have hI := ringInv_of_reach hc h
  have hD := ringInvData_of_reach hc h
  have hp : PrevHead cap (s.ring.slots i) := by
    rcases hI.slotHead i hi with hp | hp
    · exact hp
    · have := (hI.slotPub i hi hp).1; omega
  apply hD.rawFree i hi hp
  intro u d hu
  have := (hI.pcPushPub u d _ hu).1
  omega

end consequences

end Nstd.Future
