/-
  Spawn side of deadlock freedom, part 6: `SpInv` across a micro-step of a frame other than a `push`/`pop` frame that
  does not create the pool (`spInv_plain`), relative to the facts `SpCli` about client threads (proved in LiveSpawnK).
-/
import Nstd.Future.LiveSpawn5
import Nstd.Future.LiveSpawnK
set_option linter.unusedSimpArgs false
set_option linter.unusedVariables false
namespace Nstd.Future.SP

open LS

/-- facts about threads inside `ThreadPool::run` (they are unfinished clients) and the pool bound `maxT ≥ 3` -/
structure SpCli (cfg : Config) : Prop where
  cli : ∀ (s : State) (t : Tid) (th : Thread) (fr : Frame) (rest : List Frame), Reach cfg s → s.threads t = some th →
    th.stack = fr :: rest → spRun fr = true → bottomFr fr = false → th.isWorker = false ∧ t ≠ 0
  nd : ∀ (s : State) (t : Tid) (th : Thread), Reach cfg s → s.threads t = some th → th.finished = false →
    th.isWorker = false → t ≠ 0 → ¬ lsDone s
  mx : ∀ (s : State) (p : Pool), Reach cfg s → s.pool = some p → 3 ≤ p.maxT

variable {cfg : Config} {s : State}

/-- while a client is alive: a retire job in flight implies `_threadCount ≥ 1` -/
theorem sp_inflight_tc {p : Pool} {t : Tid} {th : Thread} (hrep : cfg.repaired = true) (hF : SpCli cfg)
    (hr : Reach cfg s) (hp : s.pool = some p) (hth : s.threads t = some th) (hfin : th.finished = false)
    (hw : th.isWorker = false) (ht0 : t ≠ 0) (h : 1 ≤ tsum s.nthreads (spOAt s)) : 1 ≤ p.threadCount := by
  obtain ⟨u, _, hu⟩ := tsum_pos h
  have h1 := SPP.sppOAt_le s u
  have hL := lse_reach hrep hr
  by_cases hm : 1 ≤ lsM2At s u
  · exfalso
    have hall := lse_m2_allfin hr hm
    rcases (Safe.reach_pinv hr).k3 t th hth with h3 | h3 | h3
    · exact ht0 h3
    · obtain ⟨th2, h4, h5⟩ := hall t h3
      rw [hth] at h4; injection h4 with h4; subst h4; rw [hfin] at h5; cases h5
    · rw [hw] at h3; cases h3
  · have := hL.r p u hp (by omega)
    omega

/-! ### explicit descriptions of the decisive steps -/

theorem sp_step_rdProc {t : Tid} {th : Thread} {p : Pool} (idx : Nat) (hp : s.pool = some p) :
    (stepFrame s t th (.runRdProc idx)).1 = setThread s t (th.cont [.runRdTc ((idx : Int) - p.processed)]) := by
  simp only [stepFrame, hp]

theorem sp_step_rdTc {t : Tid} {th : Thread} {p : Pool} (busy : Int) (hp : s.pool = some p) (hb : 1 ≤ busy)
    (hmx : 3 ≤ p.maxT) :
    ∃ fs, (stepFrame s t th (.runRdTc busy)).1 = setThread s t (th.cont fs) ∧
      ((fs = [.runClk2 p.threadCount] ∧ p.threadCount < p.maxT) ∨ 2 ≤ p.threadCount) := by
  simp only [stepFrame, hp]
  by_cases h1 : (p.threadCount : Int) - busy = 1
  · simp only [h1, if_true]
    exact ⟨_, rfl, Or.inr (by omega)⟩
  · simp only [h1, if_false]
    by_cases h2 : (p.threadCount : Int) - busy ≤ 0
    · simp only [h2, if_true]
      by_cases h3 : p.threadCount < p.maxT
      · exact ⟨_, rfl, Or.inl ⟨rfl, h3⟩⟩
      · exact ⟨_, rfl, Or.inr (by omega)⟩
    · simp only [h2, if_false]
      by_cases h3 : (p.threadCount : Int) - busy > 1 ∧ p.threadCount > p.minT
      · simp only [h3, and_self, if_true]
        exact ⟨_, rfl, Or.inr (by omega)⟩
      · simp only [h3, if_false]
        exact ⟨_, rfl, Or.inr (by omega)⟩

theorem sp_step_spChk {t : Tid} {th : Thread} {p : Pool} (hp : s.pool = some p) (hmx : 3 ≤ p.maxT) :
    ∃ p' c, (stepFrame s t th .runSpChk).1 = setThread (setPool s p') t (th.cont [.runSpUnlock c]) ∧
      p'.ring = p.ring ∧ (p'.threadCount = p.threadCount + 1 ∨ (p'.threadCount = p.threadCount ∧ 3 ≤ p.threadCount)) := by
  simp only [stepFrame, hp]
  by_cases h : p.threadCount < p.maxT
  · simp only [h, if_true]
    exact ⟨_, _, rfl, rfl, Or.inl rfl⟩
  · simp only [h, if_false]
    refine ⟨p, none, ?_, rfl, Or.inr ⟨rfl, by omega⟩⟩
    simp only [setPool, setThread, ← hp]

/-! ### `SpInv` across a plain step -/

theorem spIsAdd_cases (fr : Frame) : fr = .runAdd ∨ spIsAdd fr = 0 := by
  cases fr <;> first | exact Or.inl rfl | exact Or.inr rfl

theorem spDec_cases {p : Pool} {fr : Frame} (h : spDec p fr = true) :
    (∃ idx, fr = .runRdProc idx ∧ idx = p.pushed) ∨ (∃ busy, fr = .runRdTc busy ∧ 1 ≤ busy) ∨ fr = .runSpChk := by
  cases fr <;> simp [spDec] at h
  · exact Or.inl ⟨_, rfl, h⟩
  · exact Or.inr (Or.inl ⟨_, rfl, h⟩)
  · exact Or.inr (Or.inr rfl)

theorem spInv_plain {t : Tid} {th : Thread} {fr : Frame} {rest : List Frame} {p : Pool} {o : List String}
    (hrep : cfg.repaired = true) (hF : SpCli cfg) (hr : Reach cfg s) (hI : SpInv s)
    (hth : s.threads t = some th) (hst : th.stack = fr :: rest) (hfin : th.finished = false)
    (hp : s.pool = some p) (hnr : lsRingOf fr = none) (hni : fr ≠ .mInit)
    (hnc : ∀ c, fr = .cRdTp2 c → s.tp = true)
    (hstep : step s t = some ((stepFrame s t th fr).1, o)) : SpInv (stepFrame s t th fr).1 := by
  have hrep' : s.cfg.repaired = true := by rw [reach_cfg hr]; exact hrep
  have hr' : Reach cfg (stepFrame s t th fr).1 := Reach.step t hr hstep
  have hL := lse_reach hrep hr
  have hcb : lseC fr = true → LsAllB rest := by
    have := hL.cb t th hth; rw [hst] at this; exact this.1
  have hC := spShapeC s t th fr rest p hth hst hnr hrep' hp hni hnc
    (fun h rb ab => spAStk_base rb ab (hcb h)) (fun h pu mx => spHasCov_base pu mx (hcb h))
  have hK := LW.shapeK s t th fr rest hth hst hrep'
  intro p' hp'
  have hpool : p'.ring = p.ring ∧ p'.maxT = p.maxT ∧ p'.pushed = p.pushed + spIsAdd fr := by
    rcases hC.pool with h | ⟨h1, h2, h3⟩
    · rw [h] at hp'; cases hp'
    · simp only [lsRing, spMx, spPu, hp, hp'] at h1 h2 h3
      injection h1 with h1
      exact ⟨h1, h2, h3⟩
  obtain ⟨th', hth', hw', _⟩ := hK.self
  have hoth : ∀ u thu, u ≠ t → s.threads u = some thu → (stepFrame s t th fr).1.threads u = some thu := by
    intro u thu hu h
    rcases hK.others u hu with h2 | ⟨h2, _⟩
    · rw [h2]; exact h
    · have h3 := ls_thread_lt hr h
      rw [h2] at h3; exact absurd h3 (Nat.lt_irrefl _)
  have hpot_keep : SpPotOk s p → SpPotOk (stepFrame s t th fr).1 p' := by
    intro hpot x hx1 hx2 hx3
    rw [hpool.1] at hx1 hx2 hx3
    exact spPotGe_mono hrep hr hstep hp hp' (Nat.le_of_lt hx2) (hpot x hx1 hx2 hx3)
  have hcov_t : spDec p fr = false → spCovTh p th = true → SpCov (stepFrame s t th fr).1 p' := by
    intro hd hc
    refine ⟨t, th', hth', ?_⟩
    have := hC.cov th' hth' (by rw [hp']; rfl) hd (by simpa [spCovTh, spPu, spMx, hp] using hc)
    simpa [spCovTh, spPu, spMx, hp'] using this
  rcases spIsAdd_cases fr with hadd | hadd
  · -- `runAdd`: the stepping thread is the new last incrementer
    subst hadd
    left
    apply hcov_t rfl
    simp [spCovTh, spAW, hst, spAFr]
  · have hpu : p'.pushed = p.pushed := by rw [hpool.2.2, hadd]; rfl
    rcases hI p hp with ⟨u, thu, hthu, hc⟩ | hpot
    · by_cases hu : u = t
      · subst hu
        rw [hth] at hthu; injection hthu with hthu; subst hthu
        cases hd : spDec p fr with
        | false => exact Or.inl (hcov_t hd hc)
        | true =>
          -- the decisive steps
          have hrun : spRun fr = true ∧ bottomFr fr = false := by
            rcases spDec_cases hd with ⟨_, rfl, _⟩ | ⟨_, rfl, _⟩ | rfl <;> exact ⟨rfl, rfl⟩
          obtain ⟨hw, ht0⟩ := hF.cli s u th fr rest hr hth hst hrun.1 hrun.2
          have hmx := hF.mx s p hr hp
          rcases spDec_cases hd with ⟨idx, rfl, hidx⟩ | ⟨busy, rfl, hb⟩ | rfl
          · -- `runRdProc pushed`
            have hs' := sp_step_rdProc (t := u) (th := th) idx hp
            rw [hs'] at hp' hth'
            have hpp : p' = p := by simp only [setThread] at hp'; rw [hp] at hp'; injection hp' with h; exact h.symm
            subst hpp
            simp only [setThread, upd_same, Option.some.injEq] at hth'
            by_cases hA : ∀ v, spAAt s v = 0
            · by_cases hx : ∃ x, p'.ring.head ≤ x ∧ x < p'.ring.pushLog.length ∧ spReal p'.ring.pushLog x = true
              · obtain ⟨x, hx1, hx2, hx3⟩ := hx
                have := pushed_gt_processed hrep hr hp hA hx1 hx2 hx3
                left
                rw [hs']
                refine ⟨u, th', by simp only [setThread, upd_same, hth'], ?_⟩
                rw [← hth']
                simp only [spCovTh, Thread.cont, hst, List.drop_succ_cons, List.drop_zero, List.cons_append,
                  List.nil_append, spHasCov_cons, spCovFr, Bool.or_eq_true, decide_eq_true_eq]
                right; left; omega
              · right
                intro x hx1 hx2 hx3
                exact absurd ⟨x, hx1, hx2, hx3⟩ hx
            · left
              have ⟨v, hv⟩ : ∃ v, spAAt s v ≠ 0 := Classical.not_forall.mp hA
              have hvu : v ≠ u := by
                intro h; subst h
                apply hv
                simp only [spAAt, hth, spAVal, spAW, hst, spAStk_cons, spAFr, lsRingOf,
                  spAStk_base _ _ (hcb rfl)]
              cases hthv : s.threads v with
              | none => simp [spAAt, hthv, spAVal] at hv
              | some thv =>
                refine ⟨v, thv, hoth v thv hvu hthv, ?_⟩
                simp only [spAAt, hthv, spAVal] at hv
                simp only [spCovTh, Bool.or_eq_true, decide_eq_true_eq]
                left; omega
          · -- `runRdTc busy`, `busy ≥ 1`
            obtain ⟨fs, hs', hcase⟩ := sp_step_rdTc (s := s) (t := u) (th := th) busy hp hb hmx
            rw [hs'] at hp' hth'
            have hpp : p' = p := by simp only [setThread] at hp'; rw [hp] at hp'; injection hp' with h; exact h.symm
            subst hpp
            simp only [setThread, upd_same, Option.some.injEq] at hth'
            rcases hcase with ⟨hfs, hlt⟩ | h2
            · left
              rw [hs']
              refine ⟨u, th', by simp only [setThread, upd_same, hth'], ?_⟩
              rw [← hth', hfs]
              simp only [spCovTh, Thread.cont, hst, List.drop_succ_cons, List.drop_zero, List.cons_append,
                List.nil_append, spHasCov_cons, spCovFr, Bool.or_eq_true, decide_eq_true_eq]
              right; left; exact hlt
            · right
              have hfin' : th'.finished = false := by rw [← hth']; exact hfin
              have hw2 : th'.isWorker = false := by rw [← hth']; exact hw
              have hth2 : (stepFrame s u th (.runRdTc busy)).1.threads u = some th' := by
                rw [hs']; simp only [setThread, upd_same, hth']
              have hnd := hF.nd _ u th' hr' hth2 hfin' hw2 ht0
              have hO := retire_in_flight_le_one_any hrep hr' hth2 hfin' hw2 ht0
              intro x _ _ _
              exact ⟨fun _ => by omega, fun hd => absurd hd hnd⟩
          · -- `runSpChk`
            obtain ⟨p2, c, hs', hring, hcase⟩ := sp_step_spChk (s := s) (t := u) (th := th) hp hmx
            have hth2 : (stepFrame s u th .runSpChk).1.threads u = some (th.cont [.runSpUnlock c]) := by
              rw [hs']; simp only [setThread, upd_same]
            have hpp : p' = p2 := by
              rw [hs'] at hp'; simp only [setThread, setPool] at hp'; injection hp' with h; exact h.symm
            subst hpp
            have hnd := hF.nd _ u _ hr' hth2 hfin hw ht0
            have hO := retire_in_flight_le_one_any hrep hr hth hfin hw ht0
            have hG := sp_inflight_tc hrep hF hr hp hth hfin hw ht0
            have hn : (stepFrame s u th .runSpChk).1.nthreads = s.nthreads := by rw [hs']; rfl
            have hsum : tsum (stepFrame s u th .runSpChk).1.nthreads (spOAt (stepFrame s u th .runSpChk).1) =
                tsum s.nthreads (spOAt s) := by
              rw [hn]
              apply tsum_congr
              intro v _
              by_cases hv : v = u
              · subst hv
                simp only [spOAt, hth2, hth, spOVal, spOW, Thread.cont, hst, List.drop_one, List.tail_cons,
                  List.cons_append, List.nil_append, spOStk_cons, spOFr, lsRingOf,
                  SPP.sppOStk_base _ _ (hcb rfl)]
              · simp only [spOAt]
                rw [hs']
                simp only [setThread, setPool, upd_ne _ _ hv]
            right
            intro x _ _ _
            refine ⟨fun _ => ?_, fun hd => absurd hd hnd⟩
            rw [hsum]
            rcases hcase with h | ⟨h, h3⟩
            · rw [h]
              by_cases hz : 1 ≤ tsum s.nthreads (spOAt s)
              · have := hG hz; omega
              · omega
            · rw [h]; omega
      · left
        exact ⟨u, thu, hoth u thu hu hthu, Eq.trans (spCovTh_congr thu hpu hpool.2.1) hc⟩
    · exact Or.inr (hpot_keep hpot)

end Nstd.Future.SP
